// Value types and monitors of the correspondence harness.
#pragma once
#include <cstdint>
#include <cstring>
#include <cstdio>
#include <cstdlib>
#include <map>
#include <new>
#include <string>
#include <type_traits>
#include <vector>

namespace hv
{
// ---------------------------------------------------------------------------------------------
// violation log: everything a monitor finds is appended here and printed after the operation
inline std::vector<std::string>& violations()
{
    static std::vector<std::string> v;
    return v;
}
inline void violation(const std::string& s) { violations().push_back(s); }

// ---------------------------------------------------------------------------------------------
// Blob<N>: trivially copyable, N bytes, alignof 1, value in the first min(N,8) bytes
template <std::size_t N>
struct Blob
{
    unsigned char b[N];
    Blob() = default;
    explicit Blob(std::uint64_t id)
    {
        for (std::size_t i = 0; i < N; ++i) b[i] = i < 8 ? static_cast<unsigned char>(id >> (8 * i)) : static_cast<unsigned char>(0xB0 + i);
    }
    std::uint64_t id() const
    {
        std::uint64_t v = 0;
        for (std::size_t i = 0; i < N && i < 8; ++i) v |= std::uint64_t(b[i]) << (8 * i);
        return v;
    }
    friend bool operator==(const Blob& x, const Blob& y) { return x.id() == y.id(); }
    friend bool operator<(const Blob& x, const Blob& y) { return x.id() < y.id(); }
};

// ---------------------------------------------------------------------------------------------
// lifetime monitor for Trk<N>
struct Life
{
    struct Obj
    {
        std::size_t bytes;
        bool moved;
    };
    std::map<std::uintptr_t, Obj> live;
    long constructed = 0, destroyed = 0, copies = 0, moves = 0, assigns = 0;
    static Life& get()
    {
        static Life l;
        return l;
    }
    bool overlaps_live(std::uintptr_t a, std::size_t n, std::uintptr_t* which = nullptr)
    {
        auto it = live.lower_bound(a);
        if (it != live.end() && it->first < a + n)
        {
            if (which) *which = it->first;
            return true;
        }
        if (it != live.begin())
        {
            --it;
            if (it->first + it->second.bytes > a)
            {
                if (which) *which = it->first;
                return true;
            }
        }
        return false;
    }
    void on_construct(const void* p, std::size_t n, const char* how)
    {
        auto a = reinterpret_cast<std::uintptr_t>(p);
        if (overlaps_live(a, n)) violation(std::string("life:construct-over-live how=") + how);
        live[a] = Obj{n, false};
        ++constructed;
    }
    void on_destroy(const void* p)
    {
        auto a = reinterpret_cast<std::uintptr_t>(p);
        auto it = live.find(a);
        if (it == live.end())
        {
            violation("life:destroy-of-dead-object");
            return;
        }
        live.erase(it);
        ++destroyed;
    }
    bool is_live(const void* p) { return live.count(reinterpret_cast<std::uintptr_t>(p)) != 0; }
    void need_live(const void* p, const char* what)
    {
        if (!is_live(p)) violation(std::string("life:use-of-dead-object what=") + what);
    }
};

// Trk<N>: non-trivial everything; N >= 5: 4 bytes id, 1 byte canary, rest filler
template <std::size_t N>
struct Trk
{
    static_assert(N >= 5);
    unsigned char b[N];
    // the canary depends on the object's own address: an object whose bytes were copied by memcpy/memmove/byte swap
    // instead of going through its constructors or assignment carries the tag of another address
    static unsigned char tag(const void* p)
    {
        auto a = reinterpret_cast<std::uintptr_t>(p);
        return static_cast<unsigned char>((a ^ (a >> 8) ^ (a >> 16) ^ (a >> 24)) | 1);
    }
    void set(std::uint32_t id)
    {
        std::memcpy(b, &id, 4);
        b[4] = tag(this);
        for (std::size_t i = 5; i < N; ++i) b[i] = static_cast<unsigned char>(0xC0 + i);
    }
    std::uint64_t id() const
    {
        std::uint32_t v;
        std::memcpy(&v, b, 4);
        return v;
    }
    void check(const char* what) const
    {
        Life::get().need_live(this, what);
        if (b[4] != tag(this)) violation(std::string("life:object-bytes-relocated-or-clobbered what=") + what);
    }
    explicit Trk(std::uint64_t id)
    {
        Life::get().on_construct(this, N, "value");
        set(static_cast<std::uint32_t>(id));
    }
    Trk(const Trk& o)
    {
        o.check("copy-source");
        Life::get().on_construct(this, N, "copy");
        ++Life::get().copies;
        set(static_cast<std::uint32_t>(o.id()));
    }
    Trk(Trk&& o) noexcept
    {
        o.check("move-source");
        const auto v = static_cast<std::uint32_t>(o.id());
        Life::get().on_construct(this, N, "move");
        ++Life::get().moves;
        set(v);
        if (Life::get().is_live(&o)) o.set(0);
    }
    Trk& operator=(const Trk& o)
    {
        o.check("assign-source");
        check("assign-target");
        ++Life::get().assigns;
        set(static_cast<std::uint32_t>(o.id()));
        return *this;
    }
    Trk& operator=(Trk&& o) noexcept
    {
        o.check("massign-source");
        check("massign-target");
        ++Life::get().assigns;
        const auto v = static_cast<std::uint32_t>(o.id());
        if (this != &o)
        {
            o.set(0);
        }
        set(v);
        return *this;
    }
    ~Trk() { Life::get().on_destroy(this); }
    friend bool operator==(const Trk& x, const Trk& y)
    {
        x.check("eq");
        y.check("eq");
        return x.id() == y.id();
    }
    friend bool operator<(const Trk& x, const Trk& y)
    {
        x.check("lt");
        y.check("lt");
        return x.id() < y.id();
    }
};

// Trc<N>: user-provided copy/move CONSTRUCTORS and destructor, but trivial (defaulted) assignment: construction and
// assignment triviality differ, as for any class that only customises how it is copied into fresh storage.
// Its bytes may legitimately be copied by assignment (memmove), so liveness - not an address canary - is what is tracked.
template <std::size_t N>
struct Trc
{
    static_assert(N >= 5);
    unsigned char b[N];
    void set(std::uint32_t id)
    {
        std::memcpy(b, &id, 4);
        for (std::size_t i = 4; i < N; ++i) b[i] = static_cast<unsigned char>(0xA0 + i);
    }
    std::uint64_t id() const
    {
        std::uint32_t v;
        std::memcpy(&v, b, 4);
        return v;
    }
    void check(const char* what) const { Life::get().need_live(this, what); }
    explicit Trc(std::uint64_t id)
    {
        Life::get().on_construct(this, N, "value");
        set(static_cast<std::uint32_t>(id));
    }
    Trc(const Trc& o)
    {
        o.check("copy-source");
        Life::get().on_construct(this, N, "copy");
        ++Life::get().copies;
        set(static_cast<std::uint32_t>(o.id()));
    }
    Trc(Trc&& o) noexcept
    {
        o.check("move-source");
        const auto v = static_cast<std::uint32_t>(o.id());
        Life::get().on_construct(this, N, "move");
        ++Life::get().moves;
        set(v);
        if (Life::get().is_live(&o)) o.set(0);
    }
    Trc& operator=(const Trc&) = default;
    Trc& operator=(Trc&&) = default;
    ~Trc() { Life::get().on_destroy(this); }
    friend bool operator==(const Trc& x, const Trc& y)
    {
        x.check("eq");
        y.check("eq");
        return x.id() == y.id();
    }
    friend bool operator<(const Trc& x, const Trc& y)
    {
        x.check("lt");
        y.check("lt");
        return x.id() < y.id();
    }
};
static_assert(!std::is_trivially_copy_constructible_v<Trc<8>> && !std::is_trivially_move_constructible_v<Trc<8>> &&
              !std::is_trivially_destructible_v<Trc<8>> && std::is_trivially_copy_assignable_v<Trc<8>> &&
              std::is_trivially_move_assignable_v<Trc<8>>);

// Tra<N>: ASSIGNMENT is user-provided, construction and destruction are trivial: relocation may copy its bytes, but an
// assignment or a swap of stored objects has to go through its operators (they are counted; a move leaves 0 behind).
template <std::size_t N>
struct Tra
{
    static_assert(N >= 4);
    unsigned char b[N];
    void set(std::uint32_t id)
    {
        std::memcpy(b, &id, 4);
        for (std::size_t i = 4; i < N; ++i) b[i] = static_cast<unsigned char>(0xC0 + i);
    }
    std::uint64_t id() const
    {
        std::uint32_t v;
        std::memcpy(&v, b, 4);
        return v;
    }
    Tra() = default;
    explicit Tra(std::uint64_t id) { set(static_cast<std::uint32_t>(id)); }
    Tra(const Tra&) = default;
    Tra(Tra&&) = default;
    ~Tra() = default;
    Tra& operator=(const Tra& o)
    {
        ++Life::get().assigns;
        const auto v = static_cast<std::uint32_t>(o.id());
        set(v);
        return *this;
    }
    Tra& operator=(Tra&& o) noexcept
    {
        ++Life::get().assigns;
        const auto v = static_cast<std::uint32_t>(o.id());
        if (this != &o) o.set(0);
        set(v);
        return *this;
    }
    friend bool operator==(const Tra& x, const Tra& y) { return x.id() == y.id(); }
    friend bool operator<(const Tra& x, const Tra& y) { return x.id() < y.id(); }
};
static_assert(std::is_trivially_copy_constructible_v<Tra<8>> && std::is_trivially_move_constructible_v<Tra<8>> &&
              std::is_trivially_destructible_v<Tra<8>> && !std::is_trivially_copy_assignable_v<Tra<8>> &&
              !std::is_trivially_move_assignable_v<Tra<8>>);
template <class T>
inline constexpr bool IS_TRA = false;
template <std::size_t N>
inline constexpr bool IS_TRA<Tra<N>> = true;

template <class T>
std::uint64_t id_of(const T& t)
{
    if constexpr (std::is_integral_v<T> && std::is_signed_v<T>)
        return static_cast<std::uint64_t>(static_cast<std::make_unsigned_t<T>>(t));  // values travel as the unsigned representation
    else if constexpr (std::is_arithmetic_v<T>)
        return static_cast<std::uint64_t>(t);
    else
        return t.id();
}
template <class T>
T make(std::uint64_t id)
{
    if constexpr (std::is_arithmetic_v<T>)
        return static_cast<T>(id);
    else
        return T(id);
}

// ---------------------------------------------------------------------------------------------
// ledger allocator
struct Block
{
    int serial;
    int alloc_id;
    std::size_t bytes;
    std::size_t align;
    const char* kind;     // "table" for the offset table (allocated through a size_t allocator), else "data"
    unsigned char* raw;   // what free() gets
    unsigned char* user;  // what the container got
    bool live;
};
struct Ledger
{
    std::vector<Block> blocks;
    long fail_countdown = -1;  // k >= 0: the k-th allocation from now throws
    long faults_fired = 0;
    std::uint64_t junk_seed = 0x9E3779B97F4A7C15ull;
    bool junk_zero = false;
    long n_alloc = 0, n_dealloc = 0;
    static constexpr std::size_t GUARD = 64;
    static Ledger& get()
    {
        static Ledger l;
        return l;
    }
    unsigned char next_junk()
    {
        if (junk_zero) return 0;
        junk_seed ^= junk_seed << 13;
        junk_seed ^= junk_seed >> 7;
        junk_seed ^= junk_seed << 17;
        return static_cast<unsigned char>(junk_seed >> 24) | 1;
    }
    void* allocate(int alloc_id, std::size_t bytes, std::size_t align, const char* kind = "data")
    {
        if (fail_countdown == 0)
        {
            fail_countdown = -1;
            ++faults_fired;
            throw std::bad_alloc();
        }
        if (fail_countdown > 0) --fail_countdown;
        // exactly `align`-aligned and not more: user = multiple of 2*align, plus align
        const std::size_t big = align * 2 < 64 ? 64 : align * 2;
        const std::size_t total = bytes + 2 * GUARD + 2 * big;
        auto* raw = static_cast<unsigned char*>(std::malloc(total));
        auto a = reinterpret_cast<std::uintptr_t>(raw) + GUARD;
        a = (a + big - 1) / big * big;  // multiple of big (>= 2*align)
        a += align;                     // now align-aligned but not 2*align-aligned
        auto* user = reinterpret_cast<unsigned char*>(a);
        for (std::size_t i = 0; i < GUARD; ++i) user[-1 - static_cast<std::ptrdiff_t>(i)] = 0xFD;
        for (std::size_t i = 0; i < GUARD; ++i) user[bytes + i] = 0xFD;
        for (std::size_t i = 0; i < bytes; ++i) user[i] = next_junk();
        blocks.push_back(Block{static_cast<int>(blocks.size()) + 1, alloc_id, bytes, align, kind, raw, user, true});
        ++n_alloc;
        return user;
    }
    Block* find(const void* p)
    {
        for (auto& b : blocks)
            if (b.user == p && b.live) return &b;
        for (auto& b : blocks)
            if (b.user == p) return &b;
        return nullptr;
    }
    // block containing the address (live blocks only), for bounds checks
    Block* containing(const void* p)
    {
        auto* c = static_cast<const unsigned char*>(p);
        for (auto& b : blocks)
            if (b.live && c >= b.user && c <= b.user + b.bytes) return &b;
        return nullptr;
    }
    void check_guards(const Block& b)
    {
        for (std::size_t i = 0; i < GUARD; ++i)
            if (b.user[-1 - static_cast<std::ptrdiff_t>(i)] != 0xFD || b.user[b.bytes + i] != 0xFD)
            {
                violation(std::string("mem:guard-zone-overwritten kind=") + b.kind + " blk=" + std::to_string(b.serial));
                // report a damaged zone once
                for (std::size_t k = 0; k < GUARD; ++k) b.user[-1 - static_cast<std::ptrdiff_t>(k)] = b.user[b.bytes + k] = 0xFD;
                return;
            }
    }
    // after every operation: no live block (data block or offset table, freed later or never) was written out of bounds
    void check_all_guards()
    {
        for (auto& b : blocks)
            if (b.live) check_guards(b);
    }
    void deallocate(int alloc_id, bool equal_ok, void* p, std::size_t bytes)
    {
        ++n_dealloc;
        Block* b = find(p);
        if (!b)
        {
            violation("ledger:free-of-unknown-pointer");
            return;
        }
        if (!b->live)
        {
            violation("ledger:double-free blk=" + std::to_string(b->serial));
            return;
        }
        if (b->bytes != bytes) violation("ledger:free-with-wrong-size blk=" + std::to_string(b->serial) + " allocated=" + std::to_string(b->bytes) + " freed=" + std::to_string(bytes));
        if (!equal_ok && b->alloc_id != alloc_id) violation("ledger:free-through-foreign-allocator blk=" + std::to_string(b->serial) + " owner=" + std::to_string(b->alloc_id) + " by=" + std::to_string(alloc_id));
        check_guards(*b);
        b->live = false;
        std::memset(b->user, 0xDD, b->bytes);
        // keep the storage (never reused) so that stale pointers stay recognisable
    }
    std::size_t live_blocks() const
    {
        std::size_t n = 0;
        for (auto& b : blocks) n += b.live;
        return n;
    }
};

template <class T, bool POCCA, bool POCMA, bool POCS, bool AE>
struct Led
{
    using value_type = T;
    using propagate_on_container_copy_assignment = std::bool_constant<POCCA>;
    using propagate_on_container_move_assignment = std::bool_constant<POCMA>;
    using propagate_on_container_swap = std::bool_constant<POCS>;
    using is_always_equal = std::bool_constant<AE>;
    template <class U>
    struct rebind
    {
        using other = Led<U, POCCA, POCMA, POCS, AE>;
    };
    int id = 0;
    Led() = default;
    explicit Led(int i) : id(i) {}
    template <class U>
    Led(const Led<U, POCCA, POCMA, POCS, AE>& o) noexcept : id(o.id)
    {
    }
    T* allocate(std::size_t n)
    {
        return static_cast<T*>(Ledger::get().allocate(id, n * sizeof(T), alignof(T), std::is_same_v<T, std::size_t> ? "table" : "data"));
    }
    void deallocate(T* p, std::size_t n) noexcept { Ledger::get().deallocate(id, AE, p, n * sizeof(T)); }
    // select_on_container_copy_construction: ids >= 100 hand out id+1 so that the call is observable
    Led select_on_container_copy_construction() const { return id >= 100 ? Led(id + 1) : *this; }
    template <class U>
    friend bool operator==(const Led& a, const Led<U, POCCA, POCMA, POCS, AE>& b) noexcept
    {
        return AE || a.id == b.id;
    }
    template <class U>
    friend bool operator!=(const Led& a, const Led<U, POCCA, POCMA, POCS, AE>& b) noexcept
    {
        return !(a == b);
    }
};
}  // namespace hv
