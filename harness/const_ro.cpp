// C19 correspondence: every const operation is executed while the vector object, its data block and its offset
// table are mapped read-only (a write faults and is reported with the operation's name); with -DC19_THREADS the same
// operations run from 16 threads on shared vectors (built with -fsanitize=thread, supporting evidence only).
#include <cntgs/contiguous.hpp>

#include <sys/mman.h>
#include <unistd.h>

#include <atomic>
#include <csignal>
#include <cstdio>
#include <cstring>
#include <memory>
#include <string>
#include <thread>
#include <vector>

namespace ro
{
struct Region
{
    void* p;
    std::size_t len;
};
inline std::vector<Region>& regions()
{
    static std::vector<Region> r;
    return r;
}
inline std::size_t page_round(std::size_t n)
{
    const std::size_t pg = 4096;
    return (n + pg - 1) / pg * pg + pg;
}
inline std::atomic<bool> g_track{true};
template <class T>
struct PageAlloc
{
    using value_type = T;
    PageAlloc() = default;
    template <class U>
    PageAlloc(const PageAlloc<U>&) noexcept
    {
    }
    T* allocate(std::size_t n)
    {
        const std::size_t len = page_round(n * sizeof(T));
        void* p = mmap(nullptr, len, PROT_READ | PROT_WRITE, MAP_PRIVATE | MAP_ANONYMOUS, -1, 0);
        if (g_track) regions().push_back(Region{p, len});
        return static_cast<T*>(p);
    }
    void deallocate(T* p, std::size_t n) noexcept { munmap(p, page_round(n * sizeof(T))); }
    template <class U>
    friend bool operator==(const PageAlloc&, const PageAlloc<U>&) noexcept
    {
        return true;
    }
    template <class U>
    friend bool operator!=(const PageAlloc&, const PageAlloc<U>&) noexcept
    {
        return false;
    }
};

// an allocator with unsynchronised state: every request is counted in its arena.  A copy-constructed container gets
// the calling thread's own arena (select_on_container_copy_construction), so copying a shared const vector must not
// touch the arena of the source: that would be a write to shared state (a fault under write protection, a data race
// between concurrent readers)
struct Arena
{
    std::size_t requests = 0;
};
inline Arena& thread_arena()
{
    static thread_local Arena a;
    return a;
}
template <class T>
struct ArenaAlloc
{
    using value_type = T;
    using is_always_equal = std::false_type;
    Arena* arena;
    ArenaAlloc() : arena(&thread_arena()) {}
    explicit ArenaAlloc(Arena* a) : arena(a) {}
    template <class U>
    ArenaAlloc(const ArenaAlloc<U>& o) noexcept : arena(o.arena)
    {
    }
    T* allocate(std::size_t n)
    {
        ++arena->requests;
        return PageAlloc<T>{}.allocate(n);
    }
    void deallocate(T* p, std::size_t n) noexcept { PageAlloc<T>{}.deallocate(p, n); }
    ArenaAlloc select_on_container_copy_construction() const { return ArenaAlloc{&thread_arena()}; }
    template <class U>
    friend bool operator==(const ArenaAlloc& l, const ArenaAlloc<U>& r) noexcept
    {
        return l.arena == r.arena;
    }
    template <class U>
    friend bool operator!=(const ArenaAlloc& l, const ArenaAlloc<U>& r) noexcept
    {
        return l.arena != r.arena;
    }
};

inline thread_local const char* g_op = "setup";
inline void on_segv(int, siginfo_t* si, void*)
{
    char buf[256];
    int n = std::snprintf(buf, sizeof buf, "!viol C19:write-during-const-operation op=%s addr=%p\n", g_op, si->si_addr);
    (void)!write(1, buf, static_cast<std::size_t>(n));
    _exit(1);
}
inline void protect(int prot)
{
    for (auto& r : regions()) mprotect(r.p, r.len, prot);
}

template <class V>
struct Holder
{
    V* v;
    template <class Make>
    explicit Holder(Make&& make)
    {
        void* page = mmap(nullptr, 4096, PROT_READ | PROT_WRITE, MAP_PRIVATE | MAP_ANONYMOUS, -1, 0);
        regions().push_back(Region{page, 4096});
        v = new (page) V(make());
    }
};

// every const operation of the documented interface on a shared vector; `other` is another protected vector
template <class V>
std::size_t const_ops(const V& v, const V& other)
{
    std::size_t acc = 0;
    g_op = "size/empty/capacity";
    acc += v.size() + v.empty() + v.capacity();
    g_op = "memory_consumption/data";
    acc += v.memory_consumption() + static_cast<std::size_t>(v.data_end() - v.data_begin()) + (v.data() == v.data_begin());
    g_op = "get_allocator";
    (void)v.get_allocator();
    g_op = "iteration";
    for (auto&& e : v) acc += e.size_in_bytes();
    g_op = "cbegin/cend arithmetic";
    acc += static_cast<std::size_t>(v.cend() - v.cbegin());
    g_op = "operator[]/front/back";
    if (!v.empty())
    {
        acc += v[0].size_in_bytes() + v.front().size_in_bytes() + v.back().size_in_bytes();
        acc += static_cast<std::size_t>(v[v.size() - 1].data_end() - v[0].data_begin());
    }
    g_op = "comparisons";
    acc += (v == other) + (v != other) + (v < other) + (v <= other) + (v > other) + (v >= other) + (v == v);
    if (!v.empty() && !other.empty()) acc += (v[0] == other[0]) + (v[0] < other[0]);
    g_op = "copy construction";
    {
        const bool t = g_track.exchange(false);  // the copy owns fresh, unprotected memory
        V copy{v};
        acc += copy.size();
        g_op = "element from const reference";
        if (!v.empty())
        {
            typename V::value_type e{v[0]};
            acc += (e == v[0]);
        }
        g_track = t;
    }
    g_op = "done";
    return acc;
}

// every const operation on a shared ContiguousElement; `other` is another protected element, `v` a protected vector
template <class V>
std::size_t const_elem_ops(const typename V::value_type& e, const typename V::value_type& other, const V& v)
{
    using E = typename V::value_type;
    std::size_t acc = 0;
    g_op = "element get_allocator";
    (void)e.get_allocator();
    g_op = "element comparisons";
    acc += (e == other) + (e != other) + (e < other) + (e <= other) + (e > other) + (e >= other) + (e == e);
    acc += (e == v[0]) + (e != v[0]) + (e < v[0]) + (e <= v[0]) + (e > v[0]) + (e >= v[0]);
    g_op = "const_reference from const element";
    {
        typename V::const_reference r{e};
        acc += r.size_in_bytes() + static_cast<std::size_t>(r.data_end() - r.data_begin()) + (r == v[0]) + (v[0] == e);
    }
    const bool t = g_track.exchange(false);  // the copies own fresh, unprotected memory
    g_op = "element copy construction";
    {
        E c{e};
        acc += (c == e);
    }
    g_op = "element copy construction with allocator";
    {
        E c{e, e.get_allocator()};
        acc += (c == e);
        // a second copy must see the same source (a copy that moved from its source would have emptied it)
        E d{e, e.get_allocator()};
        acc += 2 * (d == c);
    }
    g_op = "element copy assignment from const element";
    {
        E c{other};
        c = e;
        acc += (c == e);
    }
    g_track = t;
    g_op = "done";
    return acc;
}

template <class V, class Make, class Fill>
int run(const char* name, Make make, Fill fill, bool elements = true)
{
    Holder<V> a([&] { return make(); });
    Holder<V> b([&] { return make(); });
    fill(*a.v, 3);
    fill(*b.v, 2);
    using E = typename V::value_type;
    // two standalone elements, the objects and their storage in protected pages as well
    const bool with_elems = elements && !a.v->empty() && !b.v->empty();
    std::unique_ptr<Holder<E>> ea, eb;
    if (with_elems)
    {
        ea = std::make_unique<Holder<E>>([&] { return E{std::as_const(*a.v)[0]}; });
        eb = std::make_unique<Holder<E>>([&] { return E{std::as_const(*b.v)[b.v->size() - 1]}; });
    }
    auto all_ops = [&]
    {
        std::size_t r = const_ops<V>(*a.v, *b.v);
        if (with_elems) r += 1000003 * const_elem_ops<V>(*ea->v, *eb->v, *a.v);
        return r;
    };
    std::size_t expect = 0;
    {
        expect = all_ops();  // unprotected reference run
    }
#ifdef C19_THREADS
    g_track = false;
    std::vector<std::thread> th;
    std::atomic<int> bad{0};
    for (int t = 0; t < 16; ++t)
        th.emplace_back([&] {
            for (int k = 0; k < 20; ++k)
                if (all_ops() != expect) ++bad;
        });
    for (auto& x : th) x.join();
    std::printf("threads %s results_differ=%d\n", name, bad.load());
    if (bad) std::printf("!viol C19:concurrent-readers-observed-different-results cfg=%s\n", name);
#else
    protect(PROT_READ);
    const std::size_t got = all_ops();
    protect(PROT_READ | PROT_WRITE);
    std::printf("ro %s ops=%d same=%d\n", name, with_elems ? 15 : 9, got == expect);
    if (got != expect) std::printf("!viol C19:result-changed-under-write-protection cfg=%s\n", name);
#endif
    g_op = "teardown";
    if (with_elems)
    {
        ea->v->~E();
        eb->v->~E();
    }
    a.v->~V();
    b.v->~V();
    return 0;
}
}  // namespace ro

int main()
{
    using namespace cntgs;
    using namespace ro;
    struct sigaction sa;
    std::memset(&sa, 0, sizeof sa);
    sa.sa_sigaction = on_segv;
    sa.sa_flags = SA_SIGINFO;
    sigaction(SIGSEGV, &sa, nullptr);
    using O = Options<Allocator<PageAlloc<std::byte>>>;
    {
        using V = BasicContiguousVector<O, std::uint32_t, float>;
        run<V>("plain", [] { return V{4}; }, [](V& v, int n) { for (int i = 0; i < n; ++i) v.emplace_back(std::uint32_t(i), float(i)); });
    }
    {
        using V = BasicContiguousVector<O, FixedSize<AlignAs<std::uint16_t, 8>>, std::uint8_t>;
        run<V>("fixed", [] { return V{4, {3}}; },
               [](V& v, int n) { for (int i = 0; i < n; ++i) v.emplace_back(std::vector<std::uint16_t>{1, 2, std::uint16_t(i)}, std::uint8_t(i)); });
    }
    {
        using V = BasicContiguousVector<O, std::uint32_t, VaryingSize<AlignAs<float, 16>>, std::uint8_t>;
        run<V>("varying", [] { return V{4, 200}; },
               [](V& v, int n) { for (int i = 0; i < n; ++i) v.emplace_back(std::uint32_t(i + 1), std::vector<float>(static_cast<std::size_t>(i + 1), 1.5f), std::uint8_t(i)); });
    }
    {
        using V = BasicContiguousVector<O, FixedSize<std::string>, std::uint32_t, VaryingSize<std::string>>;
        run<V>("mixed-string", [] { return V{4, 400, {2}}; },
               [](V& v, int n) {
                   for (int i = 0; i < n; ++i)
                       v.emplace_back(std::vector<std::string>{"a", std::string(40, 'b')}, std::uint32_t(2), std::vector<std::string>{"c", "d"});
               });
    }
    {
        using V = BasicContiguousVector<O, std::uint8_t, VaryingSize<std::uint8_t>>;
        run<V>("memcmp-varying", [] { return V{4, 64}; },
               [](V& v, int n) { for (int i = 0; i < n; ++i) v.emplace_back(std::uint8_t(2), std::vector<std::uint8_t>{1, std::uint8_t(i)}); });
    }
    {
        using V = BasicContiguousVector<O, std::uint32_t, VaryingSize<float>>;
        run<V>("empty-varying", [] { return V{0, 0}; }, [](V&, int) {});
    }
    {
        // the vectors' allocator state lives in a protected page next to them
        void* page = mmap(nullptr, 4096, PROT_READ | PROT_WRITE, MAP_PRIVATE | MAP_ANONYMOUS, -1, 0);
        regions().push_back(Region{page, 4096});
        Arena* shared = new (page) Arena;
        using OA = Options<Allocator<ArenaAlloc<std::byte>>>;
        {
            using V = BasicContiguousVector<OA, std::uint32_t, VaryingSize<float>>;
            run<V>("arena-varying", [&] { return V{4, 200, ArenaAlloc<std::byte>{shared}}; },
                   [](V& v, int n) { for (int i = 0; i < n; ++i) v.emplace_back(std::uint32_t(i + 1), std::vector<float>(static_cast<std::size_t>(i + 1), 2.5f)); },
                   false);
        }
        {
            using V = BasicContiguousVector<OA, FixedSize<std::uint16_t>, std::uint8_t>;
            run<V>("arena-fixed", [&] { return V{4, {3}, ArenaAlloc<std::byte>{shared}}; },
                   [](V& v, int n) { for (int i = 0; i < n; ++i) v.emplace_back(std::vector<std::uint16_t>{1, 2, std::uint16_t(i)}, std::uint8_t(i)); },
                   false);
        }
    }
    std::printf("end\n");
    return 0;
}
