// C20 / C08: every documented constructor form, called with the allocator given the way the documentation gives it
// (`&resource` for a pmr allocator, an allocator object, a converting argument), constructs a vector that USES that
// allocator: a call that compiles but selects another overload is as unavailable as one that does not compile.
#include <cntgs/contiguous.hpp>

#include <cstdio>
#include <memory_resource>
#include <string>
#include <vector>

namespace
{
int failures = 0;
struct CountingResource : std::pmr::memory_resource
{
    std::size_t requests = 0;
    void* do_allocate(std::size_t bytes, std::size_t alignment) override
    {
        ++requests;
        return std::pmr::new_delete_resource()->allocate(bytes, alignment);
    }
    void do_deallocate(void* p, std::size_t bytes, std::size_t alignment) override
    {
        std::pmr::new_delete_resource()->deallocate(p, bytes, alignment);
    }
    bool do_is_equal(const std::pmr::memory_resource& other) const noexcept override { return this == &other; }
};
template <class V>
void expect_uses(const char* form, const V& v, const CountingResource& r, bool expect_request)
{
    const bool same = v.get_allocator().resource() == &r;
    const bool asked = r.requests > 0;
    std::printf("form %s resource=%d requested=%d\n", form, same, asked);
    if (!same || (expect_request && !asked))
    {
        std::printf("!viol C20:constructor-form-does-not-use-the-given-allocator form=%s\n", form);
        ++failures;
    }
}
using PA = std::pmr::polymorphic_allocator<std::byte>;
using O = cntgs::Options<cntgs::Allocator<PA>>;
}  // namespace

int main()
{
    using namespace cntgs;
    {  // all plain
        using V = BasicContiguousVector<O, std::uint32_t, float>;
        {
            CountingResource r;
            V v{4, &r};
            expect_uses("plain{n,&resource}", v, r, true);
        }
        {
            CountingResource r;
            V v(4, &r);
            expect_uses("plain(n,&resource)", v, r, true);
        }
        {
            CountingResource r;
            V v{4, PA{&r}};
            expect_uses("plain{n,allocator}", v, r, true);
        }
    }
    {  // FixedSize only
        using V = BasicContiguousVector<O, FixedSize<float>, std::uint32_t>;
        {
            CountingResource r;
            V v{4, {3}, &r};
            expect_uses("fixed{n,{sizes},&resource}", v, r, true);
        }
        {
            CountingResource r;
            V v{4, {3}, PA{&r}};
            expect_uses("fixed{n,{sizes},allocator}", v, r, true);
        }
    }
    {  // VaryingSize only
        using V = BasicContiguousVector<O, std::uint32_t, VaryingSize<float>>;
        {
            CountingResource r;
            V v{4, 64, &r};
            expect_uses("varying{n,bytes,&resource}", v, r, true);
        }
        {
            CountingResource r;
            V v{4, 64, PA{&r}};
            expect_uses("varying{n,bytes,allocator}", v, r, true);
        }
    }
    {  // mixed
        using V = BasicContiguousVector<O, FixedSize<float>, std::uint32_t, VaryingSize<float>>;
        {
            CountingResource r;
            V v{4, 64, {3}, &r};
            expect_uses("mixed{n,bytes,{sizes},&resource}", v, r, true);
        }
        {
            CountingResource r;
            V v{4, 64, {3}, PA{&r}};
            expect_uses("mixed{n,bytes,{sizes},allocator}", v, r, true);
        }
    }
    {  // elements: allocator-extended construction from a reference
        using V = BasicContiguousVector<O, std::uint32_t, VaryingSize<float>>;
        CountingResource rv, re;
        V v{2, 32, &rv};
        v.emplace_back(1u, std::vector<float>{1.f, 2.f});
        typename V::value_type e{v[0], &re};
        const bool same = e.get_allocator().resource() == &re;
        std::printf("form element{reference,&resource} resource=%d requested=%d\n", same, re.requests > 0);
        if (!same || re.requests == 0)
        {
            std::printf("!viol C20:constructor-form-does-not-use-the-given-allocator form=element{reference,&resource}\n");
            ++failures;
        }
    }
    std::printf("end failures=%d\n", failures);
    return 0;
}
