// Generic correspondence harness over one parameter list (see DESIGN.md §5.1).
// Reads operation lines from stdin, executes them on the real library, prints canonical observations.
#pragma once
#ifndef CNTGS_VERIF_HOOKS
#define CNTGS_VERIF_HOOKS
#endif
#include "values.hpp"

#include <cntgs/contiguous.hpp>
#include <cstring>

#include <algorithm>
#include <array>
#include <iostream>
#include <memory>
#include <optional>
#include <sstream>
#include <tuple>

namespace cntgs_verif
{
struct Access
{
    template <class ET>
    static constexpr std::size_t storage_alignment()
    {
        return ET::STORAGE_ELEMENT_ALIGNMENT;
    }
    template <class ET>
    static constexpr auto largest()
    {
        return ET::LARGEST_ALIGNMENT_BETWEEN_VARYING_SIZES;
    }
    template <class ET>
    static constexpr auto trailing()
    {
        return ET::TRAILING_ALIGNMENTS;
    }
    template <class ET>
    static constexpr auto runs_copy_assign()
    {
        return std::get<0>(ET::CONSECUTIVE_TRIVIALLY_ASSIGNABLE_INDICES);
    }
    template <class ET>
    static constexpr auto runs_move_assign()
    {
        return std::get<1>(ET::CONSECUTIVE_TRIVIALLY_ASSIGNABLE_INDICES);
    }
    template <class ET>
    static constexpr auto runs_swap()
    {
        return ET::CONSECUTIVE_TRIVIALLY_SWAPPABLE_INDICES;
    }
    template <class ET>
    static constexpr auto runs_eq()
    {
        return ET::CONSECUTIVE_EQUALITY_MEMCMPABLE_INDICES;
    }
    template <class ET>
    static constexpr auto runs_lex()
    {
        return ET::CONSECUTIVE_LEXICOGRAPHICAL_MEMCMPABLE_INDICES;
    }
    template <class ET>
    static constexpr std::size_t skip()
    {
        return ET::SKIP;
    }
    template <class ET>
    static constexpr std::size_t manual()
    {
        return ET::MANUAL;
    }
};
}  // namespace cntgs_verif

namespace hh
{
using hv::id_of;
using hv::make;
using hv::violation;

enum Kind
{
    PLAIN,
    FIXED,
    VARYING
};
template <Kind K, class T, std::size_t A>
struct P
{
    static constexpr Kind kind = K;
    using type = T;
    static constexpr std::size_t al = A;
};
template <class Pm>
struct ToCntgs;
template <class T, std::size_t A>
struct ToCntgs<P<PLAIN, T, A>>
{
    using type = cntgs::AlignAs<T, A>;
};
template <class T, std::size_t A>
struct ToCntgs<P<FIXED, T, A>>
{
    using type = cntgs::FixedSize<cntgs::AlignAs<T, A>>;
};
template <class T, std::size_t A>
struct ToCntgs<P<VARYING, T, A>>
{
    using type = cntgs::VaryingSize<cntgs::AlignAs<T, A>>;
};

struct PeekVar : cntgs::detail::BaseElementLocator
{
    static auto& ea(cntgs::detail::BaseElementLocator& b) { return b.*(&PeekVar::element_addresses_); }
    static auto& last(cntgs::detail::BaseElementLocator& b) { return b.*(&PeekVar::last_element_); }
};
struct PeekFix : cntgs::detail::BaseAllFixedSizeElementLocator
{
    static auto& count(cntgs::detail::BaseAllFixedSizeElementLocator& b) { return b.*(&PeekFix::element_count_); }
    static auto& stride(cntgs::detail::BaseAllFixedSizeElementLocator& b) { return b.*(&PeekFix::stride_); }
};

using Vals = std::vector<std::vector<std::uint64_t>>;  // one element: per parameter the object values

inline std::vector<std::string> split(const std::string& s, char sep)
{
    std::vector<std::string> r;
    std::string cur;
    for (char c : s)
    {
        if (c == sep)
        {
            r.push_back(cur);
            cur.clear();
        }
        else
            cur.push_back(c);
    }
    r.push_back(cur);
    return r;
}
inline std::vector<std::uint64_t> parse_list(const std::string& s)
{
    std::vector<std::uint64_t> r;
    if (s == "-" || s.empty()) return r;
    for (auto& t : split(s, ',')) r.push_back(std::strtoull(t.c_str(), nullptr, 10));
    return r;
}
inline Vals parse_vals(const std::string& s)
{
    Vals v;
    for (auto& t : split(s, ';')) v.push_back(parse_list(t));
    return v;
}
template <class C>
std::string join(const C& c)
{
    std::ostringstream os;
    bool first = true;
    for (auto&& x : c)
    {
        os << (first ? "" : ",") << x;
        first = false;
    }
    if (first) os << "-";
    return os.str();
}

template <class AllocT, class... Pm>
struct Config
{
    using ByteAlloc = AllocT;
    using Vector = cntgs::BasicContiguousVector<cntgs::Options<cntgs::Allocator<AllocT>>, typename ToCntgs<Pm>::type...>;
    using ET = cntgs::detail::ElementTraitsT<typename ToCntgs<Pm>::type...>;
    using LT = cntgs::detail::ParameterListTraits<typename ToCntgs<Pm>::type...>;
    using Element = typename Vector::value_type;
    static constexpr std::size_t N = sizeof...(Pm);
    using Params = std::tuple<Pm...>;
    static constexpr std::size_t S = cntgs_verif::Access::storage_alignment<ET>();
    static constexpr std::array<std::size_t, N> ALS{Pm::al...};
    static constexpr std::array<std::size_t, N> VBS{sizeof(typename Pm::type)...};
    static constexpr std::array<Kind, N> KINDS{Pm::kind...};
    static constexpr bool FIXED_LOCATOR = LT::IS_FIXED_SIZE_OR_PLAIN;

    struct Slot
    {
        std::unique_ptr<Vector> v;
        std::vector<Vals> oracle;  // what a plain sequence of tuples would hold
        std::vector<std::size_t> fixed;
        bool oracle_valid = true;
    };
    std::array<Slot, 8> vec;
    // long-lived iterator objects, one pair per vector name: they are only ever ASSIGNED to (from the vector's current
    // iterators) and used afterwards, across whatever happened to the vector in between
    std::array<std::unique_ptr<typename Vector::const_iterator>, 8> held_const;
    std::array<std::unique_ptr<typename Vector::iterator>, 8> held_mut;
    std::array<std::unique_ptr<Element>, 8> elems;
    std::array<Vals, 8> eoracle;
    std::array<bool, 8> eoracle_valid{};
    std::ostream& out = std::cout;

    // ---------------------------------------------------------------- tables
    static std::string run_table(const std::array<std::size_t, N>& t)
    {
        std::ostringstream os;
        for (std::size_t i = 0; i < N; ++i)
        {
            os << (i ? "," : "");
            if (t[i] == cntgs_verif::Access::skip<ET>())
                os << "s";
            else if (t[i] == cntgs_verif::Access::manual<ET>())
                os << "m";
            else
                os << t[i];
        }
        return os.str();
    }
    void tables()
    {
        using A = cntgs_verif::Access;
        out << "tables S=" << S << " largest=" << join(A::largest<ET>()) << " trail=" << join(A::trailing<ET>())
            << " rca=" << run_table(A::runs_copy_assign<ET>()) << " rma=" << run_table(A::runs_move_assign<ET>())
            << " rsw=" << run_table(A::runs_swap<ET>()) << " req=" << run_table(A::runs_eq<ET>())
            << " rlx=" << run_table(A::runs_lex<ET>()) << " cat=" << (LT::IS_MIXED ? "mixed" : LT::IS_ALL_FIXED_SIZE ? "fixed" : LT::IS_ALL_VARYING_SIZE ? "varying" : "plain")
            << " tmc=" << LT::IS_TRIVIALLY_MOVE_CONSTRUCTIBLE << " tcc=" << LT::IS_TRIVIALLY_COPY_CONSTRUCTIBLE
            << " td=" << LT::IS_TRIVIALLY_DESTRUCTIBLE << " eqm=" << LT::IS_EQUALITY_MEMCMPABLE
            << " lxm=" << LT::IS_LEXICOGRAPHICAL_MEMCMPABLE << "\n";
    }

    // ---------------------------------------------------------------- construction
    template <std::size_t... I>
    static std::vector<std::size_t> fixed_sizes_of(const Vector& v, std::index_sequence<I...>)
    {
        return std::vector<std::size_t>{v.template get_fixed_size<I>()...};
    }

    static typename LT::FixedSizes fixed_array(const std::vector<std::size_t>& fixed)
    {
        typename LT::FixedSizes fs{};
        for (std::size_t i = 0; i < fs.size() && i < fixed.size(); ++i) fs[i] = fixed[i];
        return fs;
    }
    static std::unique_ptr<Vector> construct(std::size_t cap, std::size_t bytes, const std::vector<std::size_t>& fixed, int alloc_id)
    {
        typename Vector::allocator_type alloc{AllocT(alloc_id)};
        if constexpr (LT::IS_MIXED)
            return std::make_unique<Vector>(cap, bytes, fixed_array(fixed), alloc);
        else if constexpr (LT::IS_ALL_FIXED_SIZE)
            return std::make_unique<Vector>(cap, fixed_array(fixed), alloc);
        else if constexpr (LT::IS_ALL_VARYING_SIZE)
            return std::make_unique<Vector>(cap, bytes, alloc);
        else
            return std::make_unique<Vector>(cap, alloc);
    }

    // ---------------------------------------------------------------- emplace
    template <std::size_t I>
    static auto arg(const Vals& vals)
    {
        using Pi = std::tuple_element_t<I, Params>;
        using T = typename Pi::type;
        if constexpr (Pi::kind == PLAIN)
            return make<T>(vals[I].at(0));
        else
        {
            std::vector<T> v;
            v.reserve(vals[I].size());
            for (auto x : vals[I]) v.push_back(make<T>(x));
            return v;
        }
    }
    template <std::size_t... I>
    static void emplace(Vector& v, const Vals& vals, std::index_sequence<I...>)
    {
        v.emplace_back(arg<I>(vals)...);
    }

    // ---------------------------------------------------------------- observation
    static std::string blk_of(const void* p)
    {
        if (!p) return "-";
        auto* b = hv::Ledger::get().find(p);
        if (!b) return "?";
        return std::to_string(b->serial) + (b->live ? "" : "!dead");
    }
    template <std::size_t I, class Ref>
    void dump_field(std::ostringstream& os, const Ref& r, const std::byte* base, std::size_t block_bytes, std::uintptr_t& prev_end,
                    Vals& got, const std::string& who)
    {
        using Pi = std::tuple_element_t<I, Params>;
        auto&& f = cntgs::get<I>(r);
        const std::byte* p;
        std::size_t n;
        std::vector<std::uint64_t> ids;
        if constexpr (Pi::kind == PLAIN)
        {
            p = reinterpret_cast<const std::byte*>(&f);
            n = 1;
        }
        else
        {
            p = reinterpret_cast<const std::byte*>(f.data());
            n = f.size();
        }
        const auto start = reinterpret_cast<std::uintptr_t>(p);
        const auto end = start + n * sizeof(typename Pi::type);
        // monitors on the real addresses (independent of the model)
        if (start % Pi::al != 0) violation("C03:misaligned " + who + " param=" + std::to_string(I) + " addr%al=" + std::to_string(start % Pi::al));
        if (p < base || end > reinterpret_cast<std::uintptr_t>(base) + block_bytes)
            violation("C02:object-outside-block " + who + " param=" + std::to_string(I));
        else
        {
            // reading a tracked object that is not alive is a lifetime violation even when its bytes are still there
            if constexpr (Pi::kind == PLAIN)
            {
                if constexpr (!std::is_arithmetic_v<typename Pi::type> && !std::is_trivially_destructible_v<typename Pi::type>) f.check("read");
                ids.push_back(id_of(f));
            }
            else
                for (std::size_t k = 0; k < n; ++k)
                {
                    if constexpr (!std::is_arithmetic_v<typename Pi::type> && !std::is_trivially_destructible_v<typename Pi::type>) f[k].check("read");
                    ids.push_back(id_of(f[k]));
                }
        }
        // a FixedSize / VaryingSize field is handed out as a Span: every way of reading it shows the same objects
        if constexpr (Pi::kind != PLAIN)
        {
            const auto* first = f.data();
            bool ok = (f.empty() == (n == 0)) && (f.begin() == first) && (f.end() == first + n) &&
                      (static_cast<std::size_t>(f.end() - f.begin()) == n) &&
                      (static_cast<std::size_t>(f.rend() - f.rbegin()) == n);
            if (n > 0)
            {
                ok = ok && (&f.front() == first) && (&f.back() == first + (n - 1)) && (&*f.rbegin() == first + (n - 1)) &&
                     (&*(f.rend() - 1) == first);
                for (std::size_t k = 0; k < n; ++k) ok = ok && (&f[k] == first + k);
                std::size_t k = 0;
                for (auto& x : f) ok = ok && (&x == first + k++);
                ok = ok && k == n;
            }
            if (!ok)
            {
                violation("C01:span-access-paths-disagree " + who + " param=" + std::to_string(I));
                violation("C04:span-access-paths-disagree " + who + " param=" + std::to_string(I));
                violation("C11:span-access-paths-disagree " + who + " param=" + std::to_string(I));
            }
        }
        if (start < prev_end) violation("C04:overlap-or-disorder " + who + " param=" + std::to_string(I));
        const auto greedy = (prev_end + Pi::al - 1) / Pi::al * Pi::al;
        if (I > 0 && start != greedy) violation("C05:not-lowest-aligned-address " + who + " param=" + std::to_string(I));
        prev_end = end;
        os << ' ' << (p - base) << ".." << (p - base) + static_cast<std::ptrdiff_t>(n * sizeof(typename Pi::type)) << '[' << join(ids) << ']';
        got.push_back(ids);
    }
    // where a reference says its element and every one of its fields live: (address, number of objects) per field
    using Sig = std::vector<std::pair<const void*, std::size_t>>;
    template <std::size_t I, class Ref>
    static void sig_field(Ref& r, Sig& sig)  // Ref may be const-qualified: the overload of get<I> follows
    {
        using Pi = std::tuple_element_t<I, Params>;
        auto&& f = cntgs::get<I>(r);
        if constexpr (Pi::kind == PLAIN)
            sig.emplace_back(static_cast<const void*>(&f), 1);
        else
            sig.emplace_back(static_cast<const void*>(f.data()), f.size());
    }
    template <class Ref, std::size_t... I>
    static Sig sig_of(const Ref& r, std::index_sequence<I...>)
    {
        Sig sig;
        sig.emplace_back(static_cast<const void*>(r.data_begin()), r.size_in_bytes());
        sig.emplace_back(static_cast<const void*>(r.data_end()), 0);
        (sig_field<I>(r, sig), ...);
        return sig;
    }
    template <class Ref>
    static Sig sig_of(const Ref& r)
    {
        return sig_of(r, std::make_index_sequence<N>{});
    }
    // the fields only (an element has no data_begin()): where get<I>(x) says field I lives and how many objects it has
    template <class X, std::size_t... I>
    static Sig sig_fields(X& x, std::index_sequence<I...>)
    {
        Sig sig;
        (sig_field<I>(x, sig), ...);
        return sig;
    }
    void same_view(const Sig& want, const Sig& got, const std::string& path, const std::string& who)
    {
        if (want != got)
        {
            violation("C01:access-path-shows-another-element path=" + path + " " + who);
            violation("C04:access-path-reports-other-field-addresses-or-sizes path=" + path + " " + who);
            violation("C11:access-path-is-not-a-faithful-proxy path=" + path + " " + who);
        }
    }

    template <class Ref, std::size_t... I>
    void dump_ref(std::ostringstream& os, const Ref& r, const std::byte* base, std::size_t block_bytes, std::uintptr_t& prev_end, Vals& got,
                  const std::string& who, std::index_sequence<I...>)
    {
        (dump_field<I>(os, r, base, block_bytes, prev_end, got, who), ...);
    }

    void dump(int k, bool check_oracle = true)
    {
        auto& slot = vec[k];
        std::ostringstream os;
        os << "v" << k;
        if (!slot.v)
        {
            out << os.str() << " none\n";
            return;
        }
        Vector& v = *slot.v;
        auto* base = reinterpret_cast<const std::byte*>(v.memory_.get());
        os << " size=" << v.size() << " cap=" << v.capacity() << " empty=" << v.empty() << " units=" << v.memory_.size() << " blk=" << blk_of(base)
           << " alloc=" << v.get_allocator().id << " fs="
           << join(fixed_sizes_of(v, std::make_index_sequence<LT::CONTIGUOUS_FIXED_SIZE_COUNT>{}));  // get_fixed_size<I>() for every I
        if (!base)
        {
            if (v.size() != 0) violation("C09:null-block-with-elements v" + std::to_string(k));
            out << os.str() << "\n";
            return;
        }
        auto* blk = hv::Ledger::get().find(base);
        const std::size_t block_bytes = blk ? blk->bytes : 0;
        if (blk && blk->bytes != v.memory_consumption()) violation("C05:consumption-differs-from-block v" + std::to_string(k));
        if (blk && !blk->live) violation("C07:vector-uses-freed-block v" + std::to_string(k));
        if (blk && blk->alloc_id != v.get_allocator().id && !AllocT::is_always_equal::value)
            violation("C08:block-owned-by-unequal-allocator v" + std::to_string(k) + " blk_alloc=" + std::to_string(blk->alloc_id) + " get_allocator=" + std::to_string(v.get_allocator().id));
        if (reinterpret_cast<std::uintptr_t>(base) % S != 0) violation("harness:block-not-storage-aligned");
        os << " dbeg=" << (v.data_begin() - base) << " dend=" << (v.data_end() - base);
        if (v.data_begin() != base) violation("C04:data_begin-is-not-block-begin v" + std::to_string(k));
        if (v.size() == 0)
        {
            if (!v.empty()) violation("C18:size-zero-but-not-empty v" + std::to_string(k));
            if (!(v.begin() == v.end())) violation("C18:begin-differs-from-end-on-empty-vector v" + std::to_string(k));
            if (v.data_begin() != v.data_end()) violation("C18:data_begin-differs-from-data_end-on-empty-vector v" + std::to_string(k));
            if (std::as_const(v).data_begin() != std::as_const(v).data_end()) violation("C18:const-data-range-not-empty v" + std::to_string(k));
        }
        else if (v.empty())
            violation("C18:empty-but-size-nonzero v" + std::to_string(k));
        if (v.data_end() < v.data_begin() || static_cast<std::size_t>(v.data_end() - v.data_begin()) > v.memory_consumption())
            violation("C02:data-range-exceeds-consumption v" + std::to_string(k));
        if constexpr (FIXED_LOCATOR)
        {
            auto& loc = v.locator_.locator_;
            os << " loc=fix:" << PeekFix::count(loc) << "/" << PeekFix::stride(loc);
        }
        else
        {
            auto& loc = v.locator_.locator_;
            auto& ea = PeekVar::ea(loc);
            std::vector<std::size_t> slots;
            for (std::size_t i = 0; i < v.size(); ++i) slots.push_back(ea.data()[i]);
            os << " loc=var:" << join(slots) << "/" << (PeekVar::last(loc) - base) << " tbl=" << blk_of(ea.data());
            // the offset table is memory of this vector too: it has to come from the vector's own allocator (or an equal one)
            if (auto* tb = hv::Ledger::get().find(reinterpret_cast<const std::byte*>(ea.data())))
            {
                if (tb->alloc_id != v.get_allocator().id && !AllocT::is_always_equal::value)
                    violation("C08:table-owned-by-unequal-allocator v" + std::to_string(k) + " tbl_alloc=" + std::to_string(tb->alloc_id) +
                              " get_allocator=" + std::to_string(v.get_allocator().id));
                if (!tb->live) violation("C07:vector-uses-freed-table v" + std::to_string(k));
            }
        }
        // elements
        std::uintptr_t prev_elem_end = reinterpret_cast<std::uintptr_t>(base);
        std::vector<Vals> got_all;
        auto it = v.begin();
        for (std::size_t e = 0; e < v.size(); ++e, ++it)
        {
            os << " |";
            auto r = v[e];
            const std::string who = "v" + std::to_string(k) + "[" + std::to_string(e) + "]";
            const auto estart = reinterpret_cast<std::uintptr_t>(r.data_begin());
            if (estart % S != 0) violation("C03:element-start-misaligned " + who);
            if (estart < prev_elem_end) violation("C04:elements-overlap " + who);
            if (estart != (prev_elem_end + S - 1) / S * S) violation("C05:element-not-at-lowest-aligned-address " + who);
            if (reinterpret_cast<const std::byte*>(it.data()) != reinterpret_cast<const std::byte*>(r.data_begin()))
                violation("C04:iterator-data-differs-from-reference-data_begin " + who);
            std::uintptr_t prev_end = estart;
            Vals got;
            dump_ref(os, r, base, block_bytes, prev_end, got, who, std::make_index_sequence<N>{});
            {   // every way of reaching element e - const and non-const - must denote the same objects with the same sizes
                const Vector& cv = v;
                const Sig want = sig_of(r);
                same_view(want, sig_of(cv[e]), "const operator[]", who);
                same_view(want, sig_of(*it), "*iterator", who);
                const auto cit_obj = it;  // a const-qualified iterator object
                same_view(want, sig_of(*cit_obj), "*(const iterator object)", who);
                typename Vector::const_iterator cit = cv.begin() + static_cast<std::ptrdiff_t>(e);
                same_view(want, sig_of(*cit), "*const_iterator", who);
                const auto ccit_obj = cit;
                same_view(want, sig_of(*ccit_obj), "*(const const_iterator object)", who);
                same_view(want, sig_of(*(it.operator->().operator->())), "iterator->", who);
                same_view(want, sig_of(*(cit.operator->().operator->())), "const_iterator->", who);
                same_view(want, sig_of(v.begin()[static_cast<std::ptrdiff_t>(e)]), "begin()[e]", who);
                same_view(want, sig_of(cv.cbegin()[static_cast<std::ptrdiff_t>(e)]), "cbegin()[e]", who);
                if (e == 0)
                {
                    same_view(want, sig_of(v.front()), "front()", who);
                    same_view(want, sig_of(cv.front()), "const front()", who);
                }
                if (e + 1 == v.size())
                {
                    same_view(want, sig_of(v.back()), "back()", who);
                    same_view(want, sig_of(cv.back()), "const back()", who);
                }
            }
            if (prev_end != reinterpret_cast<std::uintptr_t>(r.data_end())) violation("C04:data_end-is-not-last-field-end " + who);
            if (r.size_in_bytes() != prev_end - estart || std::as_const(v)[e].size_in_bytes() != prev_end - estart)
                violation("C04:size_in_bytes-is-not-the-extent-of-the-element " + who);
            if (prev_end > reinterpret_cast<std::uintptr_t>(v.data_end())) violation("C04:element-beyond-data_end " + who);
            prev_elem_end = prev_end;
            got_all.push_back(got);
        }
        {
            std::size_t idx = 0;
            for (auto&& cr : std::as_const(v))
            {
                if (idx < v.size()) same_view(sig_of(v[idx]), sig_of(cr), "range-for over const vector", "v" + std::to_string(k) + "[" + std::to_string(idx) + "]");
                ++idx;
            }
            if (idx != v.size()) violation("C01:const-iteration-visits-wrong-number-of-elements v" + std::to_string(k));
            {
                std::size_t cidx = 0;
                for (auto ci = std::as_const(v).cbegin(); ci != std::as_const(v).cend() && cidx <= v.size(); ++ci, ++cidx)
                    if (cidx < v.size()) same_view(sig_of(v[cidx]), sig_of(*ci), "cbegin()..cend()", "v" + std::to_string(k) + "[" + std::to_string(cidx) + "]");
                if (cidx != v.size()) violation("C01:cbegin-cend-visits-wrong-number-of-elements v" + std::to_string(k));
            }
            idx = 0;
            for (auto&& mr : v)
            {
                if (idx < v.size()) same_view(sig_of(v[idx]), sig_of(mr), "range-for", "v" + std::to_string(k) + "[" + std::to_string(idx) + "]");
                ++idx;
            }
            if (idx != v.size()) violation("C01:iteration-visits-wrong-number-of-elements v" + std::to_string(k));
        }
        if (check_oracle && slot.oracle_valid)
        {
            if (got_all.size() != slot.oracle.size())
                violation("C01:size-differs-from-sequence v" + std::to_string(k) + " real=" + std::to_string(got_all.size()) + " spec=" + std::to_string(slot.oracle.size()));
            else
                for (std::size_t e = 0; e < got_all.size(); ++e)
                    if (got_all[e] != slot.oracle[e])
                    {
                        violation("C01:value-differs-from-sequence v" + std::to_string(k) + "[" + std::to_string(e) + "]");
                        break;
                    }
        }
        out << os.str() << "\n";
    }

    // number of stored objects of an element whose assignment operators are user-provided and counted (hv::Tra)
    template <class Ref, std::size_t... I>
    static std::size_t counted_objects(const Ref& r, std::index_sequence<I...>)
    {
        std::size_t n = 0;
        auto one = [&](auto idx) {
            constexpr std::size_t K = decltype(idx)::value;
            using Pi = std::tuple_element_t<K, Params>;
            if constexpr (hv::IS_TRA<typename Pi::type>)
            {
                if constexpr (Pi::kind == PLAIN)
                    n += 1;
                else
                    n += cntgs::get<K>(r).size();
            }
        };
        (one(std::integral_constant<std::size_t, I>{}), ...);
        return n;
    }
    // values left behind by a move: tracked objects read 0 afterwards, trivially movable ones keep their value
    template <std::size_t I>
    static void moved_from(Vals& vals)
    {
        if constexpr (I < N)
        {
            using T = typename std::tuple_element_t<I, Params>::type;
            if constexpr (!std::is_trivially_move_assignable_v<T>)
                for (auto& x : vals[I]) x = 0;
            moved_from<I + 1>(vals);
        }
    }

    // values left behind by move construction
    template <std::size_t I>
    static void moved_ctor(Vals& vals)
    {
        if constexpr (I < N)
        {
            using T = typename std::tuple_element_t<I, Params>::type;
            if constexpr (!std::is_trivially_move_constructible_v<T>)
                for (auto& x : vals[I]) x = 0;
            moved_ctor<I + 1>(vals);
        }
    }

    void dump_elem(int k)
    {
        std::ostringstream os;
        os << "e" << k;
        if (!elems[k])
        {
            out << os.str() << " none\n";
            return;
        }
        Element& e = *elems[k];
        auto* base = reinterpret_cast<const std::byte*>(e.memory_.get());
        os << " units=" << e.memory_.size() << " blk=" << blk_of(base) << " alloc=" << e.get_allocator().id;
        if (!base)
        {
            out << os.str() << "\n";
            return;
        }
        auto* blk = hv::Ledger::get().find(base);
        const std::size_t block_bytes = blk ? blk->bytes : 0;
        if (blk && !blk->live) violation("C07:element-uses-freed-block e" + std::to_string(k));
        if (blk && blk->alloc_id != e.get_allocator().id && !AllocT::is_always_equal::value)
            violation("C08:element-block-owned-by-unequal-allocator e" + std::to_string(k));
        if (reinterpret_cast<std::uintptr_t>(base) % S != 0) violation("harness:block-not-storage-aligned");
        std::uintptr_t prev_end = reinterpret_cast<std::uintptr_t>(base);
        Vals got;
        cntgs::BasicContiguousReference<true, typename ToCntgs<Pm>::type...> r{e};
        if (reinterpret_cast<const std::byte*>(r.data_begin()) != base) violation("C04:element-data_begin-is-not-block-begin e" + std::to_string(k));
        os << " |";
        dump_ref(os, r, base, block_bytes, prev_end, got, "e" + std::to_string(k), std::make_index_sequence<N>{});
        if (eoracle_valid[k] && got != eoracle[k]) violation("C12:element-value-differs e" + std::to_string(k));
        {   // get<I>(element) - on a mutable and on a const element - and the references made from it denote the same fields
            const Sig want = sig_fields(r, std::make_index_sequence<N>{});
            if (sig_fields(e, std::make_index_sequence<N>{}) != want || sig_fields(std::as_const(e), std::make_index_sequence<N>{}) != want)
                violation("C12:get-on-element-differs-from-its-reference e" + std::to_string(k));
            cntgs::BasicContiguousReference<false, typename ToCntgs<Pm>::type...> mr{e};
            if (sig_fields(mr, std::make_index_sequence<N>{}) != want) violation("C12:mutable-reference-to-element-differs e" + std::to_string(k));
        }
        out << os.str() << "\n";
    }

    // ---------------------------------------------------------------- running
    static int vidx(const std::string& s) { return std::atoi(s.c_str() + 1); }

    bool after_fault = false;  // an operation of this sequence ended in bad_alloc

    void flush_violations(const std::string& op)
    {
        // C17: after a throwing allocation every operand must still be a valid vector: a structural monitor (layout inside
        // the block, empty ranges of empty vectors) that fires afterwards is a C17 violation with this sequence as its input
        if (after_fault)
        {
            std::string first;
            for (auto& s : hv::violations())
                if (first.empty() && (s.rfind("C02:", 0) == 0 || s.rfind("C03:", 0) == 0 || s.rfind("C04:", 0) == 0 || s.rfind("C18:", 0) == 0)) first = s;
            if (!first.empty()) hv::violations().push_back("C17:operand-invalid-after-bad_alloc (" + first + ")");
        }
        for (auto& s : hv::violations()) out << "!viol " << s << " op=" << op << "\n";
        hv::violations().clear();
    }

    void life_line()
    {
        auto& l = hv::Life::get();
        out << "#life live=" << l.live.size() << " c=" << l.constructed << " d=" << l.destroyed << " cp=" << l.copies << " mv=" << l.moves << "\n";
    }

    void step(const std::vector<std::string>& t)
    {
        auto& L = hv::Ledger::get();
        const std::string& op = t[0];
        const long allocs_before = L.n_alloc, deallocs_before = L.n_dealloc;
        std::array<std::size_t, 8> cons_before{};
        for (std::size_t q = 0; q < vec.size(); ++q) cons_before[q] = vec[q].v ? vec[q].v->memory_consumption() : 0;
        // C16 / C10 / C18: snapshots of what must not change
        struct Snap
        {
            const std::byte* base = nullptr;
            std::size_t size = 0, cap = 0;
            std::vector<const std::byte*> starts;
        };
        auto snap = [&](int q) {
            Snap sn;
            if (!vec[q].v) return sn;
            sn.base = reinterpret_cast<const std::byte*>(vec[q].v->memory_.get());
            sn.size = vec[q].v->size();
            sn.cap = vec[q].v->capacity();
            if (sn.base)
                for (std::size_t e = 0; e < sn.size; ++e) sn.starts.push_back(reinterpret_cast<const std::byte*>((*vec[q].v)[e].data_begin()));
            return sn;
        };
        std::array<Snap, 8> before;
        for (std::size_t q = 0; q < vec.size(); ++q) before[q] = snap(static_cast<int>(q));
        // addresses of the first `keep` elements and the block itself are unchanged, nothing was requested from the allocator
        auto stable = [&](int q, std::size_t keep, const char* what) {
            if (!vec[q].v) return;
            const auto now = snap(q);
            if (now.base != before[q].base) violation(std::string("C16:block-address-changed op=") + what);
            if (L.n_alloc != allocs_before) violation(std::string("C16:allocator-called op=") + what);
            if (now.cap != before[q].cap) violation(std::string("C16:capacity-changed op=") + what);
            for (std::size_t e = 0; e < keep && e < now.starts.size() && e < before[q].starts.size(); ++e)
                if (now.starts[e] != before[q].starts[e])
                {
                    violation(std::string("C16:address-of-remaining-element-changed op=") + what + " index=" + std::to_string(e));
                    break;
                }
        };
        // C05 footprint clause: an operation never makes a vector consume more than it did, than its source did,
        // or than a fresh vector of the requested capacity and payload budget would
        auto footprint = [&](int d, std::size_t bound, const char* what) {
            if (vec[d].v && vec[d].v->memory_consumption() > bound)
                violation(std::string("C05:footprint-exceeds-bound op=") + what + " consumption=" + std::to_string(vec[d].v->memory_consumption()) +
                          " bound=" + std::to_string(bound));
        };
        if (op == "tables")
        {
            tables();
            return;
        }
        if (op == "failat")
        {
            L.fail_countdown = std::stol(t[1]);
            out << "ok\n";
            return;
        }
        if (op == "failoff")
        {
            L.fail_countdown = -1;
            out << "ok\n";
            return;
        }
        // operations on vectors or elements that do not exist (e.g. because their construction threw) are skipped
        {
            bool missing = false;
            const bool creates = op == "new" || op == "newdef";
            for (std::size_t a = 1; a < t.size(); ++a)
            {
                if (t[a].size() == 2 && t[a][0] == 'v' && !creates)
                {
                    const bool is_target = (op == "copy" || op == "move") && a == 2;
                    if (!is_target && !vec[vidx(t[a])].v) missing = true;
                }
                if (t[a].size() == 2 && t[a][0] == 'e')
                {
                    const bool is_target = ((op == "elem" || op == "elemref" || op == "elemmv") && a == 1) || ((op == "elemcopy" || op == "elemmove" || op == "elemcopya" || op == "elemmovea") && a == 2);
                    if (!is_target && !elems[vidx(t[a])]) missing = true;
                }
            }
            if (missing)
            {
                out << "skip-missing\n";
                return;
            }
        }
        if (op == "new")
        {  // new vK cap bytes fixedlist allocid
            int k = vidx(t[1]);
            auto fixedv = parse_list(t[4]);
            std::vector<std::size_t> fixed(fixedv.begin(), fixedv.end());
            vec[k].v = construct(std::stoull(t[2]), std::stoull(t[3]), fixed, std::atoi(t[5].c_str()));
            vec[k].oracle.clear();
            vec[k].fixed = fixed;
            vec[k].oracle_valid = true;
            auto es = ET::calculate_element_size(typename LT::FixedSizesArray{fixed_array(fixed)});
            out << "esz=" << es.size << "/" << es.stride << "\n";
            dump(k);
        }
        else if (op == "newdef")
        {  // newdef vK : default-constructed vector
            int k = vidx(t[1]);
            // default-INITIALISATION (`Vector v;`, `new Vector`) in storage full of junk: members without an initialiser of
            // their own would keep the junk (value-initialisation `Vector{}` zero-fills first and hides that)
            void* raw = ::operator new(sizeof(Vector));
            std::memset(raw, 0xAB, sizeof(Vector));
            vec[k].v.reset(::new (raw) Vector);
            vec[k].oracle.clear();
            vec[k].fixed.assign(LT::CONTIGUOUS_FIXED_SIZE_COUNT, 0);
            vec[k].oracle_valid = true;
            dump(k);
        }
        else if (op == "emplace")
        {  // emplace vK vals
            int k = vidx(t[1]);
            auto vals = parse_vals(t[2]);
            emplace(*vec[k].v, vals, std::make_index_sequence<N>{});
            vec[k].oracle.push_back(vals);
            stable(k, before[k].size, "emplace_back");
            dump(k);
        }
        else if (op == "fillcap")
        {  // fillcap vK : emplace_back an element of the vector's own fixed sizes (all values 7) until size() == capacity()
            int k = vidx(t[1]);
            Vals vals(N);
            {
                const auto fs = fixed_sizes_of(*vec[k].v, std::make_index_sequence<LT::CONTIGUOUS_FIXED_SIZE_COUNT>{});
                std::size_t fi = 0;
                for (std::size_t p = 0; p < N; ++p)
                    vals[p].assign(KINDS[p] == Kind::FIXED ? fs[fi++] : 1, 7);
            }
            while (vec[k].v->size() < vec[k].v->capacity())
            {
                emplace(*vec[k].v, vals, std::make_index_sequence<N>{});
                vec[k].oracle.push_back(vals);
            }
            dump(k);
        }
        else if (op == "pop")
        {
            int k = vidx(t[1]);
            vec[k].v->pop_back();
            vec[k].oracle.pop_back();
            stable(k, before[k].size - 1, "pop_back");
            dump(k);
        }
        else if (op == "erase")
        {
            int k = vidx(t[1]);
            std::size_t i = std::stoull(t[2]);
            auto it = vec[k].v->erase(vec[k].v->begin() + static_cast<std::ptrdiff_t>(i));
            vec[k].oracle.erase(vec[k].oracle.begin() + static_cast<std::ptrdiff_t>(i));
            out << "ret=" << it.index() << "\n";
            if (it.index() != i) violation("C01:erase-returns-wrong-iterator");
            stable(k, i, "erase");
            dump(k);
        }
        else if (op == "eraser")
        {
            int k = vidx(t[1]);
            std::size_t i = std::stoull(t[2]), j = std::stoull(t[3]);
            auto it = vec[k].v->erase(vec[k].v->begin() + static_cast<std::ptrdiff_t>(i), vec[k].v->begin() + static_cast<std::ptrdiff_t>(j));
            vec[k].oracle.erase(vec[k].oracle.begin() + static_cast<std::ptrdiff_t>(i), vec[k].oracle.begin() + static_cast<std::ptrdiff_t>(j));
            out << "ret=" << it.index() << "\n";
            if (it.index() != i) violation("C01:erase-returns-wrong-iterator");
            stable(k, i, "erase-range");
            dump(k);
        }
        else if (op == "clear")
        {
            int k = vidx(t[1]);
            vec[k].v->clear();
            vec[k].oracle.clear();
            stable(k, 0, "clear");
            dump(k);
        }
        else if (op == "reserve")
        {
            int k = vidx(t[1]);
            vec[k].v->reserve(std::stoull(t[2]), std::stoull(t[3]));
            {
                const auto es = ET::calculate_element_size(typename LT::FixedSizesArray{fixed_array(vec[k].fixed)});
                const std::size_t need = FIXED_LOCATOR ? std::stoull(t[3]) + es.stride * std::stoull(t[2])
                                                       : ET::calculate_needed_memory_size(std::stoull(t[2]), std::stoull(t[3]), es);
                footprint(k, std::max(cons_before[k], (need + S - 1) / S * S), "reserve");
                const std::size_t nreq = std::stoull(t[2]);
                if (vec[k].v->capacity() < before[k].cap) violation("C10:reserve-reduced-capacity");
                if (vec[k].v->size() != before[k].size) violation("C10:reserve-changed-size");
                if (nreq <= before[k].cap)
                    stable(k, before[k].size, "reserve-within-capacity");
                else if (vec[k].v->capacity() != nreq)
                    violation("C10:capacity-after-reserve-is-not-n");
                if (nreq <= before[k].cap && (L.n_alloc != allocs_before || L.n_dealloc != deallocs_before)) violation("C10:reserve-within-capacity-is-not-a-no-op");
            }
            dump(k);
        }
        else if (op == "dump")
        {
            dump(vidx(t[1]));
        }
        else if (op == "copy")
        {  // copy vS vT : vT = copy-construct(vS)
            int s = vidx(t[1]), d = vidx(t[2]);
            vec[d].v = std::make_unique<Vector>(std::as_const(*vec[s].v));
            footprint(d, cons_before[s], "copy");
            vec[d].oracle = vec[s].oracle;
            vec[d].fixed = vec[s].fixed;
            vec[d].oracle_valid = vec[s].oracle_valid;
            dump(s);
            dump(d);
        }
        else if (op == "move")
        {
            int s = vidx(t[1]), d = vidx(t[2]);
            vec[d].v = std::make_unique<Vector>(std::move(*vec[s].v));
            if (L.n_alloc != allocs_before) violation("C16:move-construction-allocates");
            if (reinterpret_cast<const std::byte*>(vec[d].v->memory_.get()) != before[s].base) violation("C16:move-construction-did-not-take-over-the-block");
            vec[d].oracle = vec[s].oracle;
            vec[d].fixed = vec[s].fixed;
            vec[d].oracle_valid = vec[s].oracle_valid;
            vec[s].oracle.clear();
            dump(s);
            dump(d);
        }
        else if (op == "copyassign")
        {  // copyassign vS vT : vT = vS
            int s = vidx(t[1]), d = vidx(t[2]);
            *vec[d].v = std::as_const(*vec[s].v);
            if (s == d && (reinterpret_cast<const std::byte*>(vec[d].v->memory_.get()) != before[d].base || vec[d].v->size() != before[d].size))
                violation("C09:self-copy-assignment-changed-the-vector");
            footprint(d, std::max(cons_before[d], cons_before[s]), "copyassign");
            vec[d].oracle = vec[s].oracle;
            vec[d].fixed = vec[s].fixed;
            vec[d].oracle_valid = vec[s].oracle_valid;
            dump(s);
            if (s != d) dump(d);
        }
        else if (op == "moveassign")
        {
            int s = vidx(t[1]), d = vidx(t[2]);
            const bool steals = AllocT::is_always_equal::value || AllocT::propagate_on_container_move_assignment::value ||
                                vec[d].v->get_allocator() == vec[s].v->get_allocator();
            *vec[d].v = std::move(*vec[s].v);
            if (s == d && (reinterpret_cast<const std::byte*>(vec[d].v->memory_.get()) != before[d].base || vec[d].v->size() != before[d].size))
                violation("C09:self-move-assignment-changed-the-vector");
            footprint(d, std::max(cons_before[d], cons_before[s]), steals ? "moveassign-steal" : "moveassign-elementwise");
            if (s != d)
            {
                vec[d].oracle = vec[s].oracle;
                vec[d].fixed = vec[s].fixed;
                vec[d].oracle_valid = vec[s].oracle_valid;
                if (steals)
                    vec[s].oracle.clear();
                else
                    vec[s].oracle_valid = false;  // elements are moved-from but still held
            }
            dump(s);
            if (s != d) dump(d);
        }
        else if (op == "swap")
        {
            int a = vidx(t[1]), b = vidx(t[2]);
            using std::swap;
            swap(*vec[a].v, *vec[b].v);
            if (L.n_alloc != allocs_before) violation("C16:swap-allocates");
            if (a != b && (reinterpret_cast<const std::byte*>(vec[a].v->memory_.get()) != before[b].base ||
                           reinterpret_cast<const std::byte*>(vec[b].v->memory_.get()) != before[a].base))
                violation("C09:swap-did-not-exchange-the-blocks");
            if (a == b && reinterpret_cast<const std::byte*>(vec[a].v->memory_.get()) != before[a].base) violation("C09:self-swap-changed-the-vector");
            if (a != b)
            {
                std::swap(vec[a].oracle, vec[b].oracle);
                std::swap(vec[a].fixed, vec[b].fixed);
                std::swap(vec[a].oracle_valid, vec[b].oracle_valid);
            }
            dump(a);
            if (a != b) dump(b);
        }
        else if (op == "cmpv")
        {  // cmpv vA vB: all six operators on vectors + consistency monitors
            int a = vidx(t[1]), b = vidx(t[2]);
            const Vector& x = *vec[a].v;
            const Vector& y = *vec[b].v;
            const bool eq = x == y, ne = x != y, lt = x < y, le = x <= y, gt = x > y, ge = x >= y, ylx = y < x;
            out << "cmpv eq=" << eq << " ne=" << ne << " lt=" << lt << " le=" << le << " gt=" << gt << " ge=" << ge << "\n";
            if (vec[a].oracle_valid && vec[b].oracle_valid && eq != (vec[a].oracle == vec[b].oracle)) violation("C13:vector-equality-differs-from-content");
            if (x.empty() && y.empty() && (!eq || ne || lt || gt || !le || !ge)) violation("C18:empty-vectors-do-not-compare-equal");
            if (ne == eq) violation("C13:vector-ne-is-not-negation");
            if ((y == x) != eq) violation("C13:vector-equality-not-symmetric");
            if (gt != ylx || le != !ylx || ge != !lt) violation("C14:vector-operators-inconsistent");
            if (lt && ylx) violation("C14:vector-lt-not-asymmetric");
            if (lt && eq) violation("C14:vector-lt-and-eq");
            if (x < x || !(x == x)) violation("C14:vector-lt-reflexive-or-eq-irreflexive");
            // vector < is the lexicographical comparison of the element sequences under the element <
            bool manual = std::lexicographical_compare(x.begin(), x.end(), y.begin(), y.end(), [](auto&& l, auto&& r) { return l < r; });
            if (manual != lt) violation("C14:vector-lt-is-not-lexicographical-over-element-lt");
        }
        else if (op == "cmpe")
        {  // cmpe vA i vB j
            int a = vidx(t[1]), b = vidx(t[3]);
            std::size_t i = std::stoull(t[2]), j = std::stoull(t[4]);
            Vector& x = *vec[a].v;
            Vector& y = *vec[b].v;
            auto ra = x[i];
            auto rb = y[j];
            auto ca = std::as_const(x)[i];
            auto cb = std::as_const(y)[j];
            Element ea{ca};
            Element eb{cb};
            auto six = [](auto&& l, auto&& r) { return std::array<bool, 6>{l == r, l != r, l < r, l <= r, l > r, l >= r}; };
            const auto base = six(ra, rb);
            if (six(ca, cb) != base || six(ra, cb) != base || six(ca, rb) != base || six(ea, eb) != base || six(ea, rb) != base ||
                six(ra, eb) != base || six(ea, cb) != base || six(ca, eb) != base)
                violation("C14:result-depends-on-operand-kind");
            out << "cmpe eq=" << base[0] << " ne=" << base[1] << " lt=" << base[2] << " le=" << base[3] << " gt=" << base[4] << " ge=" << base[5] << "\n";
            const bool ylx = rb < ra;
            if (vec[a].oracle_valid && vec[b].oracle_valid && base[0] != (vec[a].oracle[i] == vec[b].oracle[j])) violation("C13:element-equality-differs-from-content");
            if (base[1] == base[0]) violation("C13:element-ne-is-not-negation");
            if ((rb == ra) != base[0]) violation("C13:element-equality-not-symmetric");
            if (!(ra == ra) || !(ea == ea)) violation("C13:element-equality-not-reflexive");
            if (base[4] != ylx || base[3] != !ylx || base[5] != !base[2]) violation("C14:element-operators-inconsistent");
            if (base[2] && ylx) violation("C14:element-lt-not-asymmetric");
            if (base[2] && base[0]) violation("C14:element-lt-and-eq");
            if (ra < ra) violation("C14:element-lt-reflexive");
        }
        else if (op == "transe")
        {  // transe vA i vB j vC k : transitivity of element <
            Vector& x = *vec[vidx(t[1])].v;
            Vector& y = *vec[vidx(t[3])].v;
            Vector& z = *vec[vidx(t[5])].v;
            auto r1 = x[std::stoull(t[2])];
            auto r2 = y[std::stoull(t[4])];
            auto r3 = z[std::stoull(t[6])];
            const bool ab = r1 < r2, bc = r2 < r3, ac = r1 < r3;
            out << "transe ab=" << ab << " bc=" << bc << " ac=" << ac << "\n";
            if (ab && bc && !ac) violation("C14:element-lt-not-transitive");
        }
        else if (op == "transv")
        {
            const Vector& x = *vec[vidx(t[1])].v;
            const Vector& y = *vec[vidx(t[2])].v;
            const Vector& z = *vec[vidx(t[3])].v;
            const bool ab = x < y, bc = y < z, ac = x < z;
            out << "transv ab=" << ab << " bc=" << bc << " ac=" << ac << "\n";
            if (ab && bc && !ac) violation("C14:vector-lt-not-transitive");
        }
        else if (op == "refassign" || op == "refassignc" || op == "refmove")
        {  // refassign vS j vT i : vT[i] = vS[j]   (copy from reference / const_reference, or move from an rvalue reference)
            int sidx = vidx(t[1]), d = vidx(t[3]);
            std::size_t j = std::stoull(t[2]), i = std::stoull(t[4]);
            Vector& src = *vec[sidx].v;
            Vector& dst = *vec[d].v;
            const long assigns_before = hv::Life::get().assigns;
            const std::size_t counted = (sidx == d && i == j) ? 0 : counted_objects(std::as_const(dst)[i], std::make_index_sequence<N>{});
            if (op == "refassign")
            {
                auto r = src[j];
                dst[i] = r;
            }
            else if (op == "refassignc")
            {
                dst[i] = std::as_const(src)[j];
            }
            else
            {
                dst[i] = src[j];  // prvalue mutable reference: move assignment
            }
            if (static_cast<std::size_t>(hv::Life::get().assigns - assigns_before) < counted)
                violation("C11:assignment-through-references-bypassed-the-value-type's-assignment-operator");
            Vals moved = vec[sidx].oracle[j];
            vec[d].oracle[i] = vec[sidx].oracle[j];
            if (op == "refmove" && !(sidx == d && i == j))
            {
                moved_from<0>(moved);
                vec[sidx].oracle[j] = moved;
            }
            dump(sidx);
            if (sidx != d) dump(d);
        }
        else if (op == "refswap" || op == "iterswap")
        {  // refswap vA i vB j
            int a = vidx(t[1]), b = vidx(t[3]);
            std::size_t i = std::stoull(t[2]), j = std::stoull(t[4]);
            Vector& x = *vec[a].v;
            Vector& y = *vec[b].v;
            const long assigns_before = hv::Life::get().assigns;
            const std::size_t counted = (a == b && i == j) ? 0 : counted_objects(std::as_const(x)[i], std::make_index_sequence<N>{});
            if (op == "refswap")
            {
                using std::swap;
                swap(x[i], y[j]);
            }
            else
            {
                std::iter_swap(x.begin() + static_cast<std::ptrdiff_t>(i), y.begin() + static_cast<std::ptrdiff_t>(j));
            }
            if (static_cast<std::size_t>(hv::Life::get().assigns - assigns_before) < counted)
                violation("C11:swap-through-references-bypassed-the-value-type's-assignment-operator");
            Vals tmp = vec[a].oracle[i];
            vec[a].oracle[i] = vec[b].oracle[j];
            vec[b].oracle[j] = tmp;
            dump(a);
            if (a != b) dump(b);
        }
        else if (op == "rotate" || op == "reverse")
        {  // rotate vA k : std::rotate(begin, begin + k, end)
            int a = vidx(t[1]);
            Vector& x = *vec[a].v;
            if (op == "rotate")
            {
                auto k = static_cast<std::ptrdiff_t>(std::stoull(t[2]));
                std::rotate(x.begin(), x.begin() + k, x.end());
                std::rotate(vec[a].oracle.begin(), vec[a].oracle.begin() + k, vec[a].oracle.end());
            }
            else
            {
                std::reverse(x.begin(), x.end());
                std::reverse(vec[a].oracle.begin(), vec[a].oracle.end());
            }
            dump(a);
        }
        else if (op == "swapranges")
        {  // swapranges vA vB n
            int a = vidx(t[1]), b = vidx(t[2]);
            auto n = static_cast<std::ptrdiff_t>(std::stoull(t[3]));
            Vector& x = *vec[a].v;
            Vector& y = *vec[b].v;
            std::swap_ranges(x.begin(), x.begin() + n, y.begin());
            std::swap_ranges(vec[a].oracle.begin(), vec[a].oracle.begin() + n, vec[b].oracle.begin());
            dump(a);
            dump(b);
        }
        else if (op == "iter")
        {  // iterator arithmetic and comparison laws over all index pairs of one vector; access paths agree
            int a = vidx(t[1]);
            Vector& x = *vec[a].v;
            const Vector& cx = x;
            const auto n = static_cast<std::ptrdiff_t>(x.size());
            long checked = 0;
            for (std::ptrdiff_t i = 0; i <= n; ++i)
                for (std::ptrdiff_t j = 0; j <= n; ++j)
                {
                    auto bi = x.begin() + i;
                    auto bj = x.begin() + j;
                    typename Vector::const_iterator ci = bi;  // converting constructor
                    ++checked;
                    if ((bi - bj) != i - j) violation("C11:iterator-difference");
                    if ((bi == bj) != (i == j) || (bi != bj) != (i != j)) violation("C11:iterator-equality");
                    if ((bi < bj) != (i < j) || (bi > bj) != (i > j) || (bi <= bj) != (i <= j) || (bi >= bj) != (i >= j)) violation("C11:iterator-order");
                    if ((bj + (i - j)) != bi || (bi - (i - j)) != bj) violation("C11:iterator-add-sub");
                    auto k = bj;
                    k += (i - j);
                    if (k != bi) violation("C11:iterator-plus-assign");
                    k -= (i - j);
                    if (k != bj) violation("C11:iterator-minus-assign");
                    if (ci.index() != bi.index() || (ci - cx.begin()) != i) violation("C11:const-iterator-conversion");
                    if (i < n)
                    {
                        auto inc = bi;
                        ++inc;
                        auto post = bi;
                        auto old = post++;
                        if (inc != bi + 1 || post != inc || old != bi) violation("C11:iterator-increment");
                        --inc;
                        if (inc != bi) violation("C11:iterator-decrement");
                        auto pd = bi + 1;
                        auto before = pd--;
                        if (pd != bi || before != bi + 1) violation("C11:iterator-post-decrement");
                        if ((1 + 0, (bi + 1) + (-1)) != bi) violation("C11:iterator-add-negative");
                    }
                    if (i < n && j < n)
                    {
                        // it[n], *it, v[i], front/back denote the same stored objects
                        auto r1 = x[static_cast<std::size_t>(i)];
                        auto r2 = *bi;
                        auto r3 = bj[i - j];
                        auto c1 = cx[static_cast<std::size_t>(i)];
                        if (r1.data_begin() != r2.data_begin() || r1.data_begin() != r3.data_begin() || c1.data_begin() != r1.data_begin() ||
                            r1.data_end() != r2.data_end())
                            violation("C11:access-paths-denote-different-objects");
                        if (i == 0 && x.front().data_begin() != r1.data_begin()) violation("C11:front-differs");
                        if (i == n - 1 && x.back().data_begin() != r1.data_begin()) violation("C11:back-differs");
                        if (bi->data_begin() != r1.data_begin()) violation("C11:arrow-differs");
                    }
                }
            if (x.end() - x.begin() != n || cx.cend() - cx.cbegin() != n) violation("C11:end-minus-begin");
            // assignment (not construction) of iterators, same type and converting, from iterators into ANOTHER vector: the
            // assigned iterator must denote that vector's elements afterwards
            for (std::size_t b = 0; b < vec.size(); ++b)
            {
                if (static_cast<int>(b) == a || !vec[b].v || vec[b].v->size() == 0) continue;
                Vector& y = *vec[b].v;
                const Vector& cy = y;
                for (std::size_t k = 0; k < y.size(); ++k)
                {
                    typename Vector::const_iterator ci = cx.begin();
                    ci = y.begin() + static_cast<std::ptrdiff_t>(k);  // converting assignment
                    typename Vector::iterator mi = x.begin();
                    mi = y.begin() + static_cast<std::ptrdiff_t>(k);  // same-type assignment
                    typename Vector::const_iterator cc = cx.cbegin();
                    cc = cy.cbegin() + static_cast<std::ptrdiff_t>(k);
                    const auto want = y[k].data_begin();
                    if ((*ci).data_begin() != want || ci->data_end() != y[k].data_end()) violation("C11:converting-iterator-assignment");
                    if ((*mi).data_begin() != want || (*cc).data_begin() != want) violation("C11:iterator-assignment");
                    if (ci.index() != k || (ci - cy.begin()) != static_cast<std::ptrdiff_t>(k)) violation("C11:iterator-assignment-index");
                }
            }
            // an iterator object that has lived through the vector's history (reallocation, assignment into the same block
            // with other fixed sizes, swap) and is assigned from the vector's current iterators denotes the current elements
            if (n > 0)
            {
                if (!held_const[a])
                {
                    held_const[a] = std::make_unique<typename Vector::const_iterator>(cx.begin());
                    held_mut[a] = std::make_unique<typename Vector::iterator>(x.begin());
                }
                for (std::ptrdiff_t k = 0; k < n; ++k)
                {
                    *held_const[a] = x.begin() + k;   // converting assignment
                    *held_mut[a] = x.begin() + k;     // same-type assignment
                    const auto ref = x[static_cast<std::size_t>(k)];
                    if ((**held_const[a]).data_begin() != ref.data_begin() || (**held_const[a]).data_end() != ref.data_end() ||
                        held_const[a]->data() != ref.data_begin())
                        violation("C11:held-const-iterator-assigned-from-current-iterator-denotes-other-bytes");
                    if ((**held_mut[a]).data_begin() != ref.data_begin() || (**held_mut[a]).data_end() != ref.data_end())
                        violation("C11:held-iterator-assigned-from-current-iterator-denotes-other-bytes");
                    typename Vector::const_iterator cc = cx.cbegin();
                    *held_const[a] = cx.cbegin() + k;  // const_iterator = const_iterator
                    if ((**held_const[a]).data_begin() != ref.data_begin() || (**held_const[a]).data_end() != ref.data_end())
                        violation("C11:held-const-iterator-assignment");
                    (void)cc;
                }
            }
            out << "iter n=" << n << " pairs=" << checked << "\n";
            return;
        }
        else if (op == "elem" || op == "elemref" || op == "elemmv")
        {  // elem eK vS i alloc : element from const_reference (copy) / lvalue reference (copy) / rvalue reference (move)
            int k = vidx(t[1]), sidx = vidx(t[2]);
            std::size_t i = std::stoull(t[3]);
            typename Element::allocator_type alloc{AllocT(std::atoi(t[4].c_str()))};
            Vector& src = *vec[sidx].v;
            elems[k].reset();
            if (op == "elem")
                elems[k] = std::make_unique<Element>(std::as_const(src)[i], alloc);
            else if (op == "elemref")
            {
                auto r = src[i];
                elems[k] = std::make_unique<Element>(r, alloc);
            }
            else
                elems[k] = std::make_unique<Element>(src[i], alloc);
            eoracle[k] = vec[sidx].oracle[i];
            eoracle_valid[k] = vec[sidx].oracle_valid;
            if (op == "elemmv")
            {
                Vals m = vec[sidx].oracle[i];
                moved_ctor<0>(m);
                vec[sidx].oracle[i] = m;
            }
            dump_elem(k);
            dump(sidx);
        }
        else if (op == "elemcopy" || op == "elemmove")
        {  // elemcopy eS eD : eD constructed from eS
            int a = vidx(t[1]), b = vidx(t[2]);
            elems[b].reset();
            if (op == "elemcopy")
                elems[b] = std::make_unique<Element>(std::as_const(*elems[a]));
            else
                elems[b] = std::make_unique<Element>(std::move(*elems[a]));
            eoracle[b] = eoracle[a];
            eoracle_valid[b] = eoracle_valid[a];
            dump_elem(a);
            dump_elem(b);
        }
        else if (op == "elemcopya" || op == "elemmovea")
        {  // elemcopya eS eD alloc : eD constructed from eS with the allocator-extended copy / move constructor
            int a = vidx(t[1]), b = vidx(t[2]);
            typename Element::allocator_type alloc{AllocT(std::atoi(t[3].c_str()))};
            elems[b].reset();
            if (op == "elemcopya")
            {
                elems[b] = std::make_unique<Element>(std::as_const(*elems[a]), alloc);
                eoracle[b] = eoracle[a];
            }
            else
            {
                const bool steals = AllocT::is_always_equal::value || alloc == elems[a]->get_allocator();
                elems[b] = std::make_unique<Element>(std::move(*elems[a]), alloc);
                eoracle[b] = eoracle[a];
                if (!steals) moved_ctor<0>(eoracle[a]);
            }
            eoracle_valid[b] = eoracle_valid[a];
            dump_elem(a);
            dump_elem(b);
        }
        else if (op == "elemassign" || op == "elemmassign")
        {  // elemassign eS eD : eD = eS
            int a = vidx(t[1]), b = vidx(t[2]);
            const bool steals = AllocT::is_always_equal::value || AllocT::propagate_on_container_move_assignment::value ||
                                elems[b]->get_allocator() == elems[a]->get_allocator();
            if (op == "elemassign")
                *elems[b] = std::as_const(*elems[a]);
            else
                *elems[b] = std::move(*elems[a]);
            if (a != b)
            {
                eoracle[b] = eoracle[a];
                eoracle_valid[b] = eoracle_valid[a];
                if (op == "elemmassign" && !steals)
                {
                    if constexpr (FIXED_LOCATOR)
                        moved_from<0>(eoracle[a]);
                    else
                        moved_ctor<0>(eoracle[a]);
                }
            }
            dump_elem(a);
            if (a != b) dump_elem(b);
        }
        else if (op == "elemswap")
        {
            int a = vidx(t[1]), b = vidx(t[2]);
            using std::swap;
            swap(*elems[a], *elems[b]);
            if (a != b)
            {
                std::swap(eoracle[a], eoracle[b]);
                bool tmp = eoracle_valid[a];
                eoracle_valid[a] = eoracle_valid[b];
                eoracle_valid[b] = tmp;
            }
            dump_elem(a);
            if (a != b) dump_elem(b);
        }
        else if (op == "elemtoref" || op == "elemtorefm")
        {  // elemtoref eK vT i : vT[i] = eK
            int k = vidx(t[1]), d = vidx(t[2]);
            std::size_t i = std::stoull(t[3]);
            if (op == "elemtoref")
                (*vec[d].v)[i] = std::as_const(*elems[k]);
            else
                (*vec[d].v)[i] = std::move(*elems[k]);
            vec[d].oracle[i] = eoracle[k];
            if (op == "elemtorefm") moved_from<0>(eoracle[k]);
            dump_elem(k);
            dump(d);
        }
        else if (op == "elemfromref" || op == "elemfromrefm")
        {  // elemfromref eK vS i : eK = vS[i] (assignment, equal field sizes)
            int k = vidx(t[1]), sidx = vidx(t[2]);
            std::size_t i = std::stoull(t[3]);
            if (op == "elemfromref")
                *elems[k] = std::as_const(*vec[sidx].v)[i];
            else
                *elems[k] = (*vec[sidx].v)[i];
            eoracle[k] = vec[sidx].oracle[i];
            if (op == "elemfromrefm") moved_from<0>(vec[sidx].oracle[i]);
            dump_elem(k);
            dump(sidx);
        }
        else if (op == "elemdump")
        {
            dump_elem(vidx(t[1]));
        }
        else if (op == "elemdestroy")
        {
            int k = vidx(t[1]);
            elems[k].reset();
            out << "e" << k << " none\n";
        }
        else if (op == "destroy")
        {
            int k = vidx(t[1]);
            vec[k].v.reset();
            vec[k].oracle.clear();
            out << "v" << k << " none\n";
        }
        else if (op == "end")
        {
            for (auto& e : elems) e.reset();
            for (auto& s : vec) s.v.reset();
            std::vector<int> leaked;
            for (auto& b : L.blocks)
                if (b.live)
                {
                    leaked.push_back(b.serial);
                    violation(std::string("ledger:block-never-deallocated kind=") + b.kind + " blk=" + std::to_string(b.serial));
                }
            if (!hv::Life::get().live.empty()) violation("life:objects-alive-after-teardown n=" + std::to_string(hv::Life::get().live.size()));
            out << "end live_blocks=" << join(leaked) << " live_objects=" << hv::Life::get().live.size() << "\n";
        }
        else
        {
            out << "bad-op " << op << "\n";
            return;
        }
        L.check_all_guards();
        if (op == "cmpv" || op == "cmpe" || op == "transe" || op == "transv") return;
        out << "ledger +" << (L.n_alloc - allocs_before) << " -" << (L.n_dealloc - deallocs_before) << "\n";
        life_line();
    }

    int run(std::istream& in)
    {
        std::string line;
        while (std::getline(in, line))
        {
            if (line.empty() || line[0] == '#') continue;
            std::istringstream is(line);
            std::vector<std::string> t;
            std::string w;
            while (is >> w) t.push_back(w);
            if (t.empty()) continue;
            out << "> " << line << "\n";
            try
            {
                step(t);
            }
            catch (const std::bad_alloc&)
            {
                out << "threw bad_alloc\n";
                after_fault = true;
            }
            flush_violations(t[0]);
            out.flush();
        }
        return 0;
    }
};
}  // namespace hh
