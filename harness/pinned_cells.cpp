// C20, value types at the edge of "whose requirements the value types meet": a type that can be neither copied nor moved
// (std::atomic-like) and a type whose copy constructor is explicit still meet the requirements of construction in place
// from a convertible source item, of every read access, of pop_back, clear and destruction.  Compile-only.
#include <cntgs/contiguous.hpp>

#include <cstdint>
#include <utility>
#include <vector>

namespace
{
struct Pinned
{
    int v;
    Pinned(int i) : v(i) {}  // NOLINT: converting on purpose
    Pinned(const Pinned&) = delete;
    Pinned& operator=(const Pinned&) = delete;
    friend bool operator==(const Pinned& a, const Pinned& b) { return a.v == b.v; }
    friend bool operator<(const Pinned& a, const Pinned& b) { return a.v < b.v; }
};
struct ExplicitCopy
{
    int v;
    ExplicitCopy(int i) : v(i) {}  // NOLINT
    explicit ExplicitCopy(const ExplicitCopy&) = default;
    ExplicitCopy& operator=(const ExplicitCopy&) = default;
    friend bool operator==(const ExplicitCopy& a, const ExplicitCopy& b) { return a.v == b.v; }
    friend bool operator<(const ExplicitCopy& a, const ExplicitCopy& b) { return a.v < b.v; }
};

template <class V>
int read_only(V& v)
{
    int acc = 0;
    const V& cv = v;
    for (auto&& e : cv) acc += static_cast<int>(e.size_in_bytes());
    for (auto&& e : v) acc += static_cast<int>(e.size_in_bytes());
    {
        auto&& [a, b] = cv[0];
        (void)a;
        (void)b;
        auto&& [c, d] = v[0];
        (void)c;
        (void)d;
    }
    acc += static_cast<int>(cntgs::get<1>(cv[0]).size());
    acc += static_cast<int>(cntgs::get<1>(cv.front()).size() + cntgs::get<1>(cv.back()).size());
    acc += static_cast<int>(cv.data_end() - cv.data_begin());
    acc += (cv[0] == cv[0]) + (cv[0] < cv[0]) + (v[0] == cv[0]) + (cv[0] != v[0]);
    acc += (cv == cv) + (cv < cv);
    acc += static_cast<int>(cv.cend() - cv.cbegin());
    v.pop_back();
    v.clear();
    return acc;
}

template <class T>
int fixed_and_varying()
{
    int acc = 0;
    {
        cntgs::ContiguousVector<std::uint32_t, cntgs::FixedSize<T>> v{2, {2}};
        v.emplace_back(1u, std::vector<int>{1, 2});
        v.emplace_back(2u, std::vector<int>{3, 4});
        acc += read_only(v);
    }
    {
        cntgs::ContiguousVector<std::uint32_t, cntgs::VaryingSize<T>> v{2, 64};
        v.emplace_back(2u, std::vector<int>{1, 2});
        v.emplace_back(1u, std::vector<int>{3});
        acc += read_only(v);
    }
    return acc;
}
}  // namespace

int pinned_cells() { return fixed_and_varying<Pinned>() + fixed_and_varying<ExplicitCopy>(); }
