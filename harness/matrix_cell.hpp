// C20: one function template per documented operation; a cell of the matrix is an explicit instantiation of one
// of them for one configuration (list category x value category x AlignAs x allocator kind).
#pragma once
#include <cntgs/contiguous.hpp>

#include <algorithm>
#include <cstdint>
#include <memory>
#include <memory_resource>
#include <string>
#include <tuple>
#include <utility>
#include <vector>

namespace mx
{
struct Plain
{
};
struct Fixed
{
};
struct Varying
{
};
struct Mixed
{
};
struct Trivial
{
};
struct Integral
{
};
struct Copyable
{
};
struct MoveOnly
{
};
struct StdAlloc
{
};
struct Pmr
{
};
struct Stateful
{
};

template <class T>
struct TestAlloc
{
    using value_type = T;
    using propagate_on_container_copy_assignment = std::true_type;
    using propagate_on_container_move_assignment = std::true_type;
    using propagate_on_container_swap = std::true_type;
    using is_always_equal = std::false_type;
    int id = 0;
    TestAlloc() = default;
    explicit TestAlloc(int i) : id(i) {}
    template <class U>
    TestAlloc(const TestAlloc<U>& o) noexcept : id(o.id)
    {
    }
    T* allocate(std::size_t n) { return std::allocator<T>{}.allocate(n); }
    void deallocate(T* p, std::size_t n) noexcept { std::allocator<T>{}.deallocate(p, n); }
    template <class U>
    friend bool operator==(const TestAlloc& a, const TestAlloc<U>& b) noexcept
    {
        return a.id == b.id;
    }
    template <class U>
    friend bool operator!=(const TestAlloc& a, const TestAlloc<U>& b) noexcept
    {
        return a.id != b.id;
    }
};

template <class Val>
struct Values;
template <>
struct Values<Trivial>
{
    using X = std::uint32_t;
    using Y = float;
    static X x(int i) { return static_cast<X>(i); }
    static Y y(int i) { return static_cast<Y>(i); }
};
template <>
struct Values<Integral>  // only memcmp-compatible value types: the whole-buffer comparison paths are instantiated
{
    using X = std::uint32_t;
    using Y = std::uint8_t;
    static X x(int i) { return static_cast<X>(i); }
    static Y y(int i) { return static_cast<Y>(i); }
};
template <>
struct Values<Copyable>
{
    using X = std::string;
    using Y = std::string;
    static X x(int i) { return std::string(static_cast<std::size_t>(i % 3 + 1), 'x'); }
    static Y y(int i) { return std::string(static_cast<std::size_t>(i % 3 + 1), 'y'); }
};
template <>
struct Values<MoveOnly>
{
    using X = std::unique_ptr<int>;
    using Y = std::unique_ptr<int>;
    static X x(int i) { return std::make_unique<int>(i); }
    static Y y(int i) { return std::make_unique<int>(-i); }
};

template <class AllocTag>
struct Opts;
template <>
struct Opts<StdAlloc>
{
    using type = cntgs::Options<>;
};
template <>
struct Opts<Pmr>
{
    using type = cntgs::Options<cntgs::Allocator<std::pmr::polymorphic_allocator<std::byte>>>;
};
template <>
struct Opts<Stateful>
{
    using type = cntgs::Options<cntgs::Allocator<TestAlloc<std::byte>>>;
};

template <class T, bool Aligned, std::size_t A>
using MaybeAligned = std::conditional_t<Aligned, cntgs::AlignAs<T, A>, T>;

template <class A>
struct OtherAlloc;
template <>
struct OtherAlloc<StdAlloc>
{
    using type = Pmr;
};
template <>
struct OtherAlloc<Pmr>
{
    using type = Stateful;
};
template <>
struct OtherAlloc<Stateful>
{
    using type = StdAlloc;
};

template <class CatTag, class ValTag, bool Aligned, class AllocTag>
struct Cfg
{
    using Cat = CatTag;
    // the same parameter list with another kind of allocator (comparisons across allocator kinds)
    using Other = Cfg<CatTag, ValTag, Aligned, typename OtherAlloc<AllocTag>::type>;
    using Val = Values<ValTag>;
    using X = typename Val::X;
    using Y = typename Val::Y;
    using O = typename Opts<AllocTag>::type;
    static constexpr bool IS_PLAIN = std::is_same_v<CatTag, Plain>;
    static constexpr bool IS_FIXED = std::is_same_v<CatTag, Fixed>;
    static constexpr bool IS_VARYING = std::is_same_v<CatTag, Varying>;
    static constexpr bool IS_MIXED = std::is_same_v<CatTag, Mixed>;
    using V = std::conditional_t<
        IS_PLAIN, cntgs::BasicContiguousVector<O, MaybeAligned<X, Aligned, 16>, Y>,
        std::conditional_t<IS_FIXED, cntgs::BasicContiguousVector<O, cntgs::FixedSize<MaybeAligned<X, Aligned, 32>>, Y>,
                           std::conditional_t<IS_VARYING, cntgs::BasicContiguousVector<O, std::uint32_t, cntgs::VaryingSize<MaybeAligned<X, Aligned, 16>>>,
                                              cntgs::BasicContiguousVector<O, cntgs::FixedSize<X>, std::uint32_t,
                                                                           cntgs::VaryingSize<MaybeAligned<Y, Aligned, 16>>>>>>;
    using Alloc = typename V::allocator_type;

    static V make()
    {
        if constexpr (IS_PLAIN)
            return V{4};
        else if constexpr (IS_FIXED)
            return V{4, {2}};
        else if constexpr (IS_VARYING)
            return V{4, 256};
        else
            return V{4, 256, {2}};
    }
    static V make_alloc(const Alloc& a)
    {
        if constexpr (IS_PLAIN)
            return V{4, a};
        else if constexpr (IS_FIXED)
            return V{4, {2}, a};
        else if constexpr (IS_VARYING)
            return V{4, 256, a};
        else
            return V{4, 256, {2}, a};
    }
    static std::vector<X> xs(int i)
    {
        std::vector<X> r;
        r.push_back(Val::x(i));
        r.push_back(Val::x(i + 1));
        return r;
    }
    static std::vector<Y> ys(int i)
    {
        std::vector<Y> r;
        r.push_back(Val::y(i));
        r.push_back(Val::y(i + 1));
        return r;
    }
    static void emplace(V& v, int i)
    {
        if constexpr (IS_PLAIN)
            v.emplace_back(Val::x(i), Val::y(i));
        else if constexpr (IS_FIXED)
            v.emplace_back(xs(i), Val::y(i));
        else if constexpr (IS_VARYING)
            v.emplace_back(std::uint32_t{2}, xs(i));
        else
            v.emplace_back(xs(i), std::uint32_t{2}, ys(i));
    }
    static V filled()
    {
        V v = make();
        emplace(v, 1);
        emplace(v, 2);
        emplace(v, 3);
        return v;
    }
};

template <class C>
void op_ctor()
{
    auto v = C::make();
    (void)v.size();
}
template <class C>
void op_ctorAlloc()
{
    typename C::Alloc a{};
    auto v = C::make_alloc(a);
    (void)v.get_allocator();
}
template <class C>
void op_defaultCtor()
{
    typename C::V v;
    (void)v.empty();
}
template <class C>
void op_copyCtor()
{
    auto v = C::filled();
    typename C::V w{v};
    (void)w.size();
}
template <class C>
void op_moveCtor()
{
    auto v = C::filled();
    typename C::V w{std::move(v)};
    (void)w.size();
}
template <class C>
void op_copyAssign()
{
    auto v = C::filled();
    auto w = C::make();
    w = v;
}
template <class C>
void op_moveAssign()
{
    auto v = C::filled();
    auto w = C::make();
    w = std::move(v);
}
template <class C>
void op_emplaceBack()
{
    auto v = C::make();
    C::emplace(v, 1);
}
template <class C>
void op_popBack()
{
    auto v = C::filled();
    v.pop_back();
}
template <class C>
void op_erase1()
{
    auto v = C::filled();
    auto it = v.erase(v.begin());
    (void)it;
}
template <class C>
void op_erase2()
{
    auto v = C::filled();
    auto it = v.erase(v.begin(), v.begin() + 2);
    (void)it;
}
template <class C>
void op_clear()
{
    auto v = C::filled();
    v.clear();
}
template <class C>
void op_reserve()
{
    auto v = C::filled();
    v.reserve(9, 600);
    (void)v.capacity();
}
template <class C>
void op_swap()
{
    auto v = C::filled();
    auto w = C::make();
    using std::swap;
    swap(v, w);
}
template <class C>
void op_eq()
{
    auto v = C::filled();
    auto w = C::filled();
    (void)(v == w);
    (void)(v != w);
    (void)(v[0] == w[1]);
    (void)(v[0] != std::as_const(w)[1]);
}
template <class C>
void op_lt()
{
    auto v = C::filled();
    auto w = C::filled();
    (void)(v < w);
    (void)(v <= w);
    (void)(v > w);
    (void)(v >= w);
    (void)(v[0] < w[1]);
    (void)(v[0] >= std::as_const(w)[1]);
}
template <class C>
void op_eqOtherAlloc()
{
    auto v = C::filled();
    auto w = C::Other::filled();
    (void)(v == w);
    (void)(v != w);
    (void)(w == v);
}
template <class C>
void op_ltOtherAlloc()
{
    auto v = C::filled();
    auto w = C::Other::filled();
    (void)(v < w);
    (void)(v <= w);
    (void)(v > w);
    (void)(v >= w);
}
template <class C>
void op_iterate()
{
    auto v = C::filled();
    for (auto&& e : v) (void)e;
    for (auto&& e : std::as_const(v)) (void)e;
    (void)std::distance(v.cbegin(), v.cend());
}
template <class C>
void op_bindRef()
{
    auto v = C::filled();
    if constexpr (C::IS_MIXED)
    {
        auto&& [a, b, c] = v[0];
        (void)a;
        (void)b;
        (void)c;
        auto&& [ca, cb, cc] = std::as_const(v)[0];
        (void)ca;
        (void)cb;
        (void)cc;
    }
    else
    {
        auto&& [a, b] = v[0];
        (void)a;
        (void)b;
        auto&& [ca, cb] = std::as_const(v)[0];
        (void)ca;
        (void)cb;
    }
}
template <class C>
void op_bindElem()
{
    auto v = C::filled();
    typename C::V::value_type e{v[0]};
    if constexpr (C::IS_MIXED)
    {
        auto&& [a, b, c] = e;
        (void)a;
        (void)b;
        (void)c;
    }
    else
    {
        auto&& [a, b] = e;
        (void)a;
        (void)b;
    }
}
template <class C>
void op_subscript()
{
    auto v = C::filled();
    (void)cntgs::get<0>(v[1]);
    (void)cntgs::get<1>(std::as_const(v)[1]);
}
template <class C>
void op_frontBack()
{
    auto v = C::filled();
    (void)v.front();
    (void)v.back();
    (void)std::as_const(v).front();
    (void)std::as_const(v).back();
}
template <class C>
void op_dataPtrs()
{
    auto v = C::filled();
    (void)v.data_begin();
    (void)v.data_end();
    (void)std::as_const(v).data();
    (void)v.memory_consumption();
    (void)v.capacity();
    (void)v.empty();
}
template <class C>
void op_iterArith()
{
    auto v = C::filled();
    auto it = v.begin();
    it += 2;
    it -= 1;
    ++it;
    --it;
    (void)(it - v.begin());
    (void)(it < v.end());
    (void)it[0];
    (void)it->data_begin();
    typename C::V::const_iterator c = it;
    (void)(c == v.cbegin());
}
template <class C>
void op_getFixedSize()
{
    auto v = C::filled();
    (void)v.template get_fixed_size<0>();
}
template <class C>
void op_refAssignRef()
{
    auto v = C::filled();
    auto r = v[1];
    v[0] = r;
    v[2] = std::as_const(v)[1];
}
template <class C>
void op_refMoveAssignRef()
{
    auto v = C::filled();
    v[0] = v[1];
}
template <class C>
void op_refSwap()
{
    auto v = C::filled();
    using std::swap;
    swap(v[0], v[1]);
    std::iter_swap(v.begin(), v.begin() + 2);
    std::rotate(v.begin(), v.begin() + 1, v.end());
}
template <class C>
void op_refAssignElem()
{
    auto v = C::filled();
    const typename C::V::value_type e{std::as_const(v)[1]};
    v[0] = e;
}
template <class C>
void op_refMoveAssignElem()
{
    auto v = C::filled();
    typename C::V::value_type e{v[1]};
    v[0] = std::move(e);
}
template <class C>
void op_elemFromRef()
{
    auto v = C::filled();
    typename C::V::value_type e{std::as_const(v)[1]};
    auto r = v[0];
    typename C::V::value_type f{r};
    (void)e;
    (void)f;
}
template <class C>
void op_elemFromRvalueRef()
{
    auto v = C::filled();
    typename C::V::value_type e{v[1]};
    typename C::V::value_type f{v[0], v.get_allocator()};
    (void)e;
    (void)f;
}
template <class C>
void op_elemCopy()
{
    auto v = C::filled();
    typename C::V::value_type e{v[1]};
    typename C::V::value_type f{e};
    (void)f;
}
template <class C>
void op_elemMove()
{
    auto v = C::filled();
    typename C::V::value_type e{v[1]};
    typename C::V::value_type f{std::move(e)};
    (void)f;
}
template <class C>
void op_elemAssign()
{
    auto v = C::filled();
    typename C::V::value_type e{v[1]};
    typename C::V::value_type f{v[0]};
    f = e;
}
template <class C>
void op_elemMoveAssign()
{
    auto v = C::filled();
    typename C::V::value_type e{v[1]};
    typename C::V::value_type f{v[0]};
    f = std::move(e);
}
template <class C>
void op_elemSwap()
{
    auto v = C::filled();
    typename C::V::value_type e{v[1]};
    typename C::V::value_type f{v[0]};
    using std::swap;
    swap(e, f);
}
template <class C>
void op_elemAssignRef()
{
    auto v = C::filled();
    typename C::V::value_type e{v[1]};
    e = std::as_const(v)[0];
    auto r = v[2];
    e = r;
}
template <class C>
void op_elemCompare()
{
    auto v = C::filled();
    typename C::V::value_type e{v[1]};
    typename C::V::value_type f{v[0]};
    (void)(e == f);
    (void)(e < f);
    (void)(e == v[0]);
    (void)(v[0] <= e);
    (void)(e != std::as_const(v)[0]);
}
}  // namespace mx
