// C15 correspondence: what emplace_back stores for every source form x (stored type, source type) pair.
// Reads lines `emp <T> <U> <form> <kind f|v> <items>` and prints traits, stored representations, source after, counters.
#include <cntgs/contiguous.hpp>

#include <array>
#include <cstdint>
#include <cstring>
#include <iostream>
#include <deque>
#include <list>
#include <memory>
#include <sstream>
#include <string>
#include <vector>

namespace em
{
enum E8 : std::uint8_t
{
    E8_ZERO = 0
};
struct W1
{
    std::uint8_t v;
    W1() = default;
    W1(std::uint8_t x) : v(static_cast<std::uint8_t>(x + 1)) {}
};
struct W4
{
    std::uint32_t v;
    W4() = default;
    W4(std::uint32_t x) : v(x + 7) {}
};
struct Conv
{
    std::uint32_t v;
    operator std::uint32_t() const { return v; }
};
inline long g_copies = 0, g_moves = 0;
struct Cnt
{
    std::int64_t v;
    Cnt() : v(0) {}
    Cnt(std::int32_t x) : v(x) {}
    Cnt(const Cnt& o) : v(o.v) { ++g_copies; }
    Cnt(Cnt&& o) noexcept : v(o.v)
    {
        ++g_moves;
        o.v = 0;
    }
    Cnt& operator=(const Cnt&) = default;
    ~Cnt() {}
};

template <class T>
std::uint64_t repr(const T* p)
{
    if constexpr (std::is_same_v<T, W1> || std::is_same_v<T, W4> || std::is_same_v<T, Conv>)
        return p->v;
    else if constexpr (std::is_same_v<T, Cnt>)
        return static_cast<std::uint64_t>(p->v);
    else if constexpr (std::is_floating_point_v<T>)
    {
        T t;
        std::memcpy(&t, p, sizeof(T));
        return static_cast<std::uint64_t>(t);
    }
    else
    {
        std::uint64_t r = 0;
        std::memcpy(&r, p, sizeof(T));  // raw object bytes, little endian (also for a bool that holds 2)
        return r;
    }
}
template <class U>
U from_repr(std::uint64_t v)
{
    if constexpr (std::is_same_v<U, W1>)
    {
        W1 w;
        w.v = static_cast<std::uint8_t>(v);
        return w;
    }
    else if constexpr (std::is_same_v<U, W4>)
    {
        W4 w;
        w.v = static_cast<std::uint32_t>(v);
        return w;
    }
    else if constexpr (std::is_same_v<U, Conv>)
        return Conv{static_cast<std::uint32_t>(v)};
    else if constexpr (std::is_same_v<U, Cnt>)
    {
        Cnt c;
        c.v = static_cast<std::int64_t>(v);
        return c;
    }
    else if constexpr (std::is_floating_point_v<U>)
        return static_cast<U>(v);
    else if constexpr (std::is_pointer_v<U>)
        return reinterpret_cast<U>(static_cast<std::uintptr_t>(v));
    else
    {
        U u;
        std::memcpy(&u, &v, sizeof(U));
        return u;
    }
}

// std::vector<bool> is not a container of bool objects: a minimal contiguous container stands in for it
template <class U>
struct SimpleVec
{
    std::vector<char> raw;  // bytes of bool objects
    std::size_t n = 0;
    using value_type = U;
    using iterator = U*;
    void push_back(U u)
    {
        raw.resize(n + 1);
        std::memcpy(raw.data() + n, &u, 1);
        ++n;
    }
    U* data() { return reinterpret_cast<U*>(raw.data()); }
    const U* data() const { return reinterpret_cast<const U*>(raw.data()); }
    std::size_t size() const { return n; }
    U* begin() { return data(); }
    U* end() { return data() + n; }
    const U* begin() const { return data(); }
    const U* end() const { return data() + n; }
    U& operator[](std::size_t i) { return data()[i]; }
    const U& operator[](std::size_t i) const { return data()[i]; }
    template <class It>
    void assign(It a, It b)
    {
        n = 0;
        raw.clear();
        for (; a != b; ++a) push_back(*a);
    }
};
template <class U>
using SrcVec = std::conditional_t<std::is_same_v<U, bool>, SimpleVec<bool>, std::vector<U>>;

// single-pass input iterator whose copies share one position (the behaviour of std::istream_iterator): advancing any copy
// consumes the items for all of them, so an algorithm has to read the items through the iterator it was given, once
template <class U>
struct SharedInput
{
    using iterator_category = std::input_iterator_tag;
    using value_type = U;
    using difference_type = std::ptrdiff_t;
    using pointer = const U*;
    using reference = const U&;
    std::shared_ptr<const U*> pos;
    reference operator*() const { return **pos; }
    pointer operator->() const { return *pos; }
    SharedInput& operator++()
    {
        ++*pos;
        return *this;
    }
    void operator++(int) { ++*pos; }
    bool operator==(const SharedInput& o) const { return *pos == *o.pos; }
    bool operator!=(const SharedInput& o) const { return *pos != *o.pos; }
};

// a random access iterator with lvalue references and a pointer-returning operator-> whose objects are NOT adjacent in
// memory: it visits every other object of an array (a column of a row-major matrix, one member of an array of structs)
template <class U>
struct Strided
{
    using iterator_category = std::random_access_iterator_tag;
    using value_type = U;
    using difference_type = std::ptrdiff_t;
    using pointer = U*;
    using reference = U&;
    U* p;
    reference operator*() const { return *p; }
    pointer operator->() const { return p; }
    reference operator[](difference_type n) const { return p[2 * n]; }
    Strided& operator++() { p += 2; return *this; }
    Strided operator++(int) { auto c = *this; p += 2; return c; }
    Strided& operator--() { p -= 2; return *this; }
    Strided operator--(int) { auto c = *this; p -= 2; return c; }
    Strided& operator+=(difference_type n) { p += 2 * n; return *this; }
    Strided& operator-=(difference_type n) { p -= 2 * n; return *this; }
    friend Strided operator+(Strided a, difference_type n) { return a += n; }
    friend Strided operator+(difference_type n, Strided a) { return a += n; }
    friend Strided operator-(Strided a, difference_type n) { return a -= n; }
    friend difference_type operator-(const Strided& a, const Strided& b) { return (a.p - b.p) / 2; }
    friend bool operator==(const Strided& a, const Strided& b) { return a.p == b.p; }
    friend bool operator!=(const Strided& a, const Strided& b) { return a.p != b.p; }
    friend bool operator<(const Strided& a, const Strided& b) { return a.p < b.p; }
    friend bool operator>(const Strided& a, const Strided& b) { return a.p > b.p; }
    friend bool operator<=(const Strided& a, const Strided& b) { return a.p <= b.p; }
    friend bool operator>=(const Strided& a, const Strided& b) { return a.p >= b.p; }
};

// generated range: forward iterator computing values on the fly, no data()/size()
template <class U>
struct Gen
{
    const SrcVec<U>* src;
    struct It
    {
        using iterator_category = std::forward_iterator_tag;
        using value_type = U;
        using difference_type = std::ptrdiff_t;
        using pointer = const U*;
        using reference = U;
        const SrcVec<U>* s;
        std::size_t i;
        U operator*() const { return (*s)[i]; }
        It& operator++()
        {
            ++i;
            return *this;
        }
        It operator++(int)
        {
            auto c = *this;
            ++i;
            return c;
        }
        bool operator==(const It& o) const { return i == o.i; }
        bool operator!=(const It& o) const { return i != o.i; }
    };
    It begin() const { return It{src, 0}; }
    It end() const { return It{src, src->size()}; }
};

template <class C>
std::string join(const C& c)
{
    std::ostringstream os;
    bool first = true;
    for (auto&& x : c)
    {
        os << (first ? "" : ",") << x;
        first = false;
    }
    if (first) os << "-";
    return os.str();
}

template <class T, class U>
void run(const std::string& form, char kind, const std::vector<std::uint64_t>& items, std::ostream& out)
{
    using namespace cntgs;
    const std::size_t n = items.size();
    SrcVec<U> src;
    for (auto v : items) src.push_back(from_repr<U>(v));
    g_copies = g_moves = 0;
    std::vector<std::uint64_t> stored, after;
    bool hds = false, ci = false;
    std::vector<std::uint64_t> expected;
    for (auto& s : src) {
        T t(static_cast<const U&>(s));
        expected.push_back(repr<T>(&t));
    }
    g_copies = g_moves = 0;
    std::list<U> lst(src.begin(), src.end());
    g_copies = g_moves = 0;
    auto with_vector = [&](auto&& emplace) {
        if (kind == 'f')
        {
            ContiguousVector<FixedSize<T>> v{1, {n}};
            emplace(v);
            auto span = cntgs::get<0>(v[0]);
            for (auto& o : span) stored.push_back(repr<T>(&o));
        }
        else
        {
            ContiguousVector<std::uint32_t, VaryingSize<T>> v{1, n * sizeof(T)};
            emplace(v);
            auto span = cntgs::get<1>(v[0]);
            for (auto& o : span) stored.push_back(repr<T>(&o));
        }
    };
    auto call = [&](auto& v, auto&& arg) {
        if (kind == 'f')
        {
            if constexpr (std::is_same_v<std::decay_t<decltype(v)>, ContiguousVector<FixedSize<T>>>) v.emplace_back(std::forward<decltype(arg)>(arg));
        }
        else
        {
            if constexpr (!std::is_same_v<std::decay_t<decltype(v)>, ContiguousVector<FixedSize<T>>>)
                v.emplace_back(static_cast<std::uint32_t>(n), std::forward<decltype(arg)>(arg));
        }
    };
    bool from_list = false;
    if (form == "vecL")
    {
        hds = detail::HAS_DATA_AND_SIZE<SrcVec<U>>;
        with_vector([&](auto& v) { call(v, src); });
    }
    else if (form == "vecR")
    {
        hds = detail::HAS_DATA_AND_SIZE<SrcVec<U>>;
        with_vector([&](auto& v) { call(v, std::move(src)); });
    }
    else if (form == "listL")
    {
        hds = detail::HAS_DATA_AND_SIZE<std::list<U>>;
        from_list = true;
        with_vector([&](auto& v) { call(v, lst); });
    }
    else if (form == "listR")
    {
        hds = detail::HAS_DATA_AND_SIZE<std::list<U>>;
        from_list = true;
        with_vector([&](auto& v) { call(v, std::move(lst)); });
    }
    else if (form == "arrL")
    {
        // C array of exactly three items (lengths other than 3 are not generated for this form)
        U arr[3] = {src[0], src[1], src[2]};
        g_copies = g_moves = 0;
        hds = detail::HAS_DATA_AND_SIZE<std::decay_t<U(&)[3]>>;
        with_vector([&](auto& v) { call(v, arr); });
        const long c0 = g_copies, m0 = g_moves;
        src.assign(arr, arr + 3);
        g_copies = c0;
        g_moves = m0;
    }
    else if (form == "stdArrL")
    {
        std::array<U, 3> arr = {src[0], src[1], src[2]};
        g_copies = g_moves = 0;
        hds = detail::HAS_DATA_AND_SIZE<std::array<U, 3>>;
        with_vector([&](auto& v) { call(v, arr); });
        const long c0 = g_copies, m0 = g_moves;
        src.assign(arr.begin(), arr.end());
        g_copies = c0;
        g_moves = m0;
    }
    else if (form == "genL")
    {
        Gen<U> g{&src};
        hds = detail::HAS_DATA_AND_SIZE<Gen<U>>;
        with_vector([&](auto& v) { call(v, g); });
    }
    else if (form == "ptr")
    {
        ci = detail::CONTIGUOUS_ITERATOR_V<U*>;
        with_vector([&](auto& v) { call(v, src.data()); });
    }
    else if (form == "vecIt")
    {
        ci = detail::CONTIGUOUS_ITERATOR_V<typename SrcVec<U>::iterator>;
        with_vector([&](auto& v) { call(v, src.begin()); });
    }
    else if (form == "listIt")
    {
        ci = detail::CONTIGUOUS_ITERATOR_V<typename std::list<U>::iterator>;
        from_list = true;
        with_vector([&](auto& v) { call(v, lst.begin()); });
    }
    else if (form == "revIt")
    {  // std::reverse_iterator over the vector: random access, lvalue references, pointer-returning operator-> - and NOT contiguous
        using R = std::reverse_iterator<decltype(src.begin())>;
        ci = detail::CONTIGUOUS_ITERATOR_V<R>;
        expected.clear();
        for (auto it = src.end(); it != src.begin();) {
            --it;
            T t(static_cast<const U&>(*it));
            expected.push_back(repr<T>(&t));
        }
        g_copies = g_moves = 0;
        with_vector([&](auto& v) { call(v, R{src.end()}); });
    }
    else if (form == "deqIt")
    {  // std::deque iterator positioned so that the items straddle two of the deque's blocks
        std::deque<U> dq;
        const std::size_t lead = 4096;
        for (std::size_t i = 0; i < lead; ++i) dq.push_back(from_repr<U>(0));
        for (auto& s : src) dq.push_back(s);
        // find a start position whose n items cross a block boundary: addresses stop being consecutive
        std::size_t start = lead;
        if (n >= 2)
            for (std::size_t i = 1; i + n <= lead; ++i)
                if (&dq[i + 1] != &dq[i] + 1) { start = i + 1 - (n / 2 ? n / 2 : 1); break; }
        if (start != lead)
            for (std::size_t k = 0; k < n; ++k) dq[start + k] = src[k];
        g_copies = g_moves = 0;
        ci = detail::CONTIGUOUS_ITERATOR_V<typename std::deque<U>::iterator>;
        with_vector([&](auto& v) { call(v, dq.begin() + static_cast<std::ptrdiff_t>(start)); });
    }
    else if (form == "strideIt")
    {  // the items sit at the even positions of a twice as long array, junk between them
        SrcVec<U> wide;
        wide.push_back(from_repr<U>(1));  // never empty: data() is a valid pointer
        wide.push_back(from_repr<U>(1));
        for (auto& x : src)
        {
            wide.push_back(x);
            wide.push_back(from_repr<U>(1));
        }
        g_copies = g_moves = 0;
        ci = detail::CONTIGUOUS_ITERATOR_V<Strided<U>>;
        with_vector([&](auto& v) { call(v, Strided<U>{wide.data() + 2}); });
    }
    else if (form == "inIt")
    {  // a single-pass input iterator: every copy of it shares the position, so the items can be read once, in order
        SharedInput<U> it{std::make_shared<const U*>(src.data())};
        ci = detail::CONTIGUOUS_ITERATOR_V<SharedInput<U>>;
        with_vector([&](auto& v) { call(v, it); });
    }
    else if (form == "moveIt")
    {
        ci = detail::CONTIGUOUS_ITERATOR_V<std::move_iterator<U*>>;
        with_vector([&](auto& v) { call(v, std::make_move_iterator(src.data())); });
    }
    const long copies = g_copies, moves = g_moves;
    if (from_list)
        for (auto& s : lst) after.push_back(repr<U>(&s));
    else
        for (auto& s : src) after.push_back(repr<U>(&s));
    out << "emp mc=" << detail::MEMCPY_COMPATIBLE<T, U> << " hds=" << hds << " ci=" << ci << " stored=" << join(stored) << " src=" << join(after)
        << " copies=" << copies << " moves=" << moves << "\n";
    if (stored != expected) out << "!viol C15:stored-differs-from-T(source-item) expected=" << join(expected) << " stored=" << join(stored) << "\n";
    if (stored.size() != n) out << "!viol C15:wrong-number-of-items-consumed\n";
    const bool lvalue = form != "vecR" && form != "listR" && form != "moveIt";
    if (lvalue && after != items) out << "!viol C15:lvalue-source-modified\n";
    if (lvalue && moves != 0) out << "!viol C15:lvalue-source-moved-from\n";
    if (!lvalue && std::is_same_v<U, Cnt> && moves != static_cast<long>(n)) out << "!viol C15:rvalue-items-not-moved-exactly-once moves=" << moves << "\n";
    if (!lvalue && std::is_same_v<U, Cnt> && copies != 0) out << "!viol C15:rvalue-items-copied\n";
}

template <class T>
const char* name();
#define NAME(T, s)        \
    template <>           \
    const char* name<T>() \
    {                     \
        return s;         \
    }
NAME(std::uint8_t, "u8")
NAME(std::int8_t, "i8")
NAME(char, "c8")
NAME(bool, "b1")
NAME(std::uint16_t, "u16")
NAME(std::int16_t, "i16")
NAME(std::uint32_t, "u32")
NAME(std::int32_t, "i32")
NAME(std::uint64_t, "u64")
NAME(std::int64_t, "i64")
NAME(float, "f32")
NAME(double, "f64")
NAME(E8, "e8")
NAME(int*, "p64")
NAME(W1, "w1")
NAME(W4, "w4")
NAME(Conv, "conv")
NAME(Cnt, "cnt")

template <class T, class U>
bool try_pair(const std::string& t, const std::string& u, const std::string& form, char kind, const std::vector<std::uint64_t>& items, std::ostream& out)
{
    if (t != name<T>() || u != name<U>()) return false;
    run<T, U>(form, kind, items, out);
    return true;
}
}  // namespace em

int main()
{
    using namespace em;
    std::string line;
    while (std::getline(std::cin, line))
    {
        if (line.empty() || line[0] == '#') continue;
        std::istringstream is(line);
        std::string op, t, u, form, kind, itemtext;
        is >> op >> t >> u >> form >> kind >> itemtext;
        std::cout << "> " << line << "\n";
        std::vector<std::uint64_t> items;
        if (itemtext != "-")
        {
            std::istringstream it(itemtext);
            std::string tok;
            while (std::getline(it, tok, ',')) items.push_back(std::strtoull(tok.c_str(), nullptr, 10));
        }
        using u8 = std::uint8_t;
        using i8 = std::int8_t;
        using u16 = std::uint16_t;
        using i16 = std::int16_t;
        using u32 = std::uint32_t;
        using i32 = std::int32_t;
        using u64 = std::uint64_t;
        using i64 = std::int64_t;
        const char k = kind[0];
        bool done =
#define PAIR(T, U) try_pair<T, U>(t, u, form, k, items, std::cout) ||
            PAIR(u8, u8) PAIR(u8, i8) PAIR(i8, u8) PAIR(u8, char) PAIR(char, u8) PAIR(bool, char) PAIR(bool, u8) PAIR(u8, bool) PAIR(char, bool)
            PAIR(bool, bool) PAIR(u16, i16) PAIR(i16, u16) PAIR(u16, u8) PAIR(u8, u16) PAIR(i16, i8) PAIR(u32, i32) PAIR(i32, u32) PAIR(u32, u32)
            PAIR(u64, i64) PAIR(i64, u64) PAIR(u32, float) PAIR(float, u32) PAIR(float, i32) PAIR(float, float) PAIR(double, double)
            PAIR(double, u64) PAIR(u8, E8) PAIR(E8, E8) PAIR(int*, int*) PAIR(W1, u8) PAIR(W1, W1) PAIR(W4, u32) PAIR(W4, W4)
            PAIR(u32, Conv) PAIR(Conv, Conv) PAIR(Cnt, Cnt) PAIR(Cnt, i32) PAIR(i32, i16) PAIR(u64, u32) false;
        if (!done) std::cout << "bad-op pair " << t << " " << u << "\n";
        std::cout.flush();
    }
    return 0;
}
