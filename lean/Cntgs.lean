import Cntgs.Kernel
import Cntgs.Layout
import Cntgs.Vector
import Cntgs.Alloc
import Cntgs.World
import Cntgs.Driver
