import Cntgs.Driver
open Cntgs.Driver

partial def loop (h : IO.FS.Stream) (st : St) : IO Unit := do
  let line ← h.getLine
  if line.isEmpty then return ()
  let l := line.trimAscii.toString
  if l.isEmpty || l.startsWith "#" then
    loop h st
  else
    let (st', outs) := step st l
    if !(l.startsWith "cfg ") then IO.println s!"> {l}"
    for o in outs do IO.println o
    loop h st'

def main : IO Unit := do loop (← IO.getStdin) {}
