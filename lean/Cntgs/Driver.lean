/-
Line-protocol interpreter: reads the operation lines the C++ harness reads and prints the
observations the model predicts, in the same canonical text (DESIGN.md Appendix A).
Everything printed is computed by the definitions the theorems are about.
-/
import Cntgs.World
import Cntgs.Compare
import Cntgs.Emplace
import Cntgs.RefIter
import Cntgs.Matrix
namespace Cntgs.Driver
open Cntgs

def joinNat (l : List Nat) : String := if l.isEmpty then "-" else ",".intercalate (l.map toString)

def tyFlags (ty : String) : Nat × TyFlags :=
  if ty == "u8" then (1, {}) else
  if ty == "i8" then (1, { lexMemcmp := false, signed := true }) else
  if ty == "u16" then (2, { lexMemcmp := false }) else
  if ty == "u32" then (4, { lexMemcmp := false }) else
  if ty == "u64" then (8, { lexMemcmp := false }) else
  if ty == "f32" then (4, { eqMemcmp := false, lexMemcmp := false }) else
  if ty == "f64" then (8, { eqMemcmp := false, lexMemcmp := false }) else
  if ty.startsWith "b" then ((ty.drop 1).toString.toNat!, { eqMemcmp := false, lexMemcmp := false }) else
  if ty.startsWith "t" then ((ty.drop 1).toString.toNat!,
    { trivCopyCtor := false, trivMoveCtor := false, trivDtor := false, trivCopyAssign := false,
      trivMoveAssign := false, trivSwap := false, eqMemcmp := false, lexMemcmp := false }) else
  -- user-provided constructors and destructor, trivial assignment
  if ty.startsWith "c" then ((ty.drop 1).toString.toNat!,
    { trivCopyCtor := false, trivMoveCtor := false, trivDtor := false, trivCopyAssign := true,
      trivMoveAssign := true, trivSwap := false, eqMemcmp := false, lexMemcmp := false }) else
  -- user-provided assignment, trivial construction and destruction
  if ty.startsWith "a" then ((ty.drop 1).toString.toNat!,
    { trivCopyCtor := true, trivMoveCtor := true, trivDtor := true, trivCopyAssign := false,
      trivMoveAssign := false, trivSwap := false, eqMemcmp := false, lexMemcmp := false }) else
  (0, {})

def parseParam (s : String) : Param :=
  match s.splitOn ":" with
  | [k, ty, al] =>
    let kind := if k == "p" then Kind.plain else if k == "f" then Kind.fixed else Kind.varying
    let (vb, fl) := tyFlags ty
    { kind := kind, vb := vb, al := al.toNat!, ty := fl }
  | _ => default

def kv (toks : List String) (key : String) : String :=
  match toks.find? (fun t => t.startsWith (key ++ "=")) with
  | some t => (t.drop (key.length + 1)).toString
  | none => ""

def parseList (s : String) : List Nat :=
  if s == "-" || s.isEmpty then [] else (s.splitOn ",").map String.toNat!

def parseElem (s : String) : Elem := (s.splitOn ";").map parseList

def showRun : RunEntry → String
  | .skip => "s" | .manual => "m" | .upto k => toString k

def showRuns (l : List RunEntry) : String := ",".intercalate (l.map showRun)

def b2s (b : Bool) : String := if b then "1" else "0"

def tablesLine (ps : List Param) : String :=
  let cat := if isMixed ps then "mixed" else if isAllFixed ps then "fixed" else if isAllVarying ps then "varying" else "plain"
  s!"tables S={storageAl ps} largest={joinNat (largest ps)} trail={joinNat (trailings ps)}" ++
  s!" rca={showRuns (runs (·.ty.trivCopyAssign) false ps)} rma={showRuns (runs (·.ty.trivMoveAssign) false ps)}" ++
  s!" rsw={showRuns (runs (·.ty.trivSwap) false ps)} req={showRuns (runs (·.ty.eqMemcmp) true ps)}" ++
  s!" rlx={showRuns (runs (·.ty.lexMemcmp) true ps)} cat={cat}" ++
  s!" tmc={b2s (ps.all (·.ty.trivMoveCtor))} tcc={b2s (ps.all (·.ty.trivCopyCtor))} td={b2s (ps.all (·.ty.trivDtor))}" ++
  s!" eqm={b2s (ps.all (·.ty.eqMemcmp))} lxm={b2s (ps.all (·.ty.lexMemcmp))}"

def optNat : Option Nat → String
  | some n => toString n | none => "-"

/-- expand the compact fixed-size list (one entry per FixedSize parameter) to one entry per parameter -/
def expandFixed : List Param → List Nat → List Nat
  | [], _ => []
  | p :: ps, fs => if p.kind = .fixed then fs.headD 0 :: expandFixed ps fs.tail else 0 :: expandFixed ps fs

def showElem (v : Vec) (i : Nat) : String :=
  match v.get i with
  | none => " ?"
  | some e =>
    let pl := place v.ps (elemCounts e) (v.addr i)
    String.join ((List.zip pl e).map (fun ((s, t), vals) => s!" {s}..{t}[{joinNat vals}]"))

def dumpVec (k : Nat) (ov : Option Vec) : String :=
  match ov with
  | none => s!"v{k} none"
  | some v =>
    let head := s!"v{k} size={v.size} cap={v.cap} empty={b2s (v.size == 0)} units={v.units} blk={optNat v.blk} alloc={v.alloc} fs={joinNat (fixedSizesOf v.ps v.fs)}"
    if v.blk.isNone then head else
    let loc := if v.fixedLoc then s!" loc=fix:{v.loc.count}/{v.loc.stride}"
               else s!" loc=var:{joinNat ((List.range v.loc.size).map v.loc.slots)}/{v.loc.last} tbl={optNat v.tbl}"
    let elems := String.join ((List.range v.size).map (fun i => " |" ++ showElem v i))
    head ++ s!" dbeg=0 dend={v.dataEnd}" ++ loc ++ elems ++ (if v.poison then " POISON" else "")

def parseTy (s : String) : Option Ty :=
  [("u8", Ty.u8), ("i8", .i8), ("c8", .c8), ("b1", .b1), ("u16", .u16), ("i16", .i16), ("u32", .u32), ("i32", .i32),
   ("u64", .u64), ("i64", .i64), ("f32", .f32), ("f64", .f64), ("e8", .e8), ("p64", .p64), ("w1", .w1), ("w4", .w4),
   ("conv", .conv), ("cnt", .cnt)].lookup s

def parseForm (s : String) : Option Form :=
  [("vecL", Form.vecL), ("vecR", .vecR), ("listL", .listL), ("listR", .listR), ("arrL", .arrL), ("stdArrL", .stdArrL),
   ("genL", .genL), ("ptr", .ptr), ("vecIt", .vecIt), ("listIt", .listIt), ("moveIt", .moveIt), ("revIt", .revIt), ("deqIt", .deqIt), ("inIt", .inIt), ("strideIt", .strideIt)].lookup s

def vidx (s : String) : Nat := (s.drop 1).toString.toNat!

structure St where
  ps : List Param := []
  w : World := {}
  elems : Nat → Option ElemSt := fun _ => none

def St.ew (st : St) : EWorld := { w := st.w, elems := st.elems }

def dumpElem (ps : List Param) (k : Nat) (oe : Option ElemSt) : String :=
  match oe with
  | none => s!"e{k} none"
  | some e =>
    let head := s!"e{k} units={e.ptr.units} blk={optNat e.ptr.blk} alloc={e.ptr.alloc}"
    if e.ptr.blk.isNone then head else
    let pl := place ps (elemCounts e.val) 0
    head ++ " |" ++ String.join ((List.zip pl e.val).map (fun ((s, t), vals) => s!" {s}..{t}[{joinNat vals}]"))

/-- apply a permutation of the stored values (algorithms over iterators exchange values, not storage) -/
def permuteVec (v : Vec) (new : List Elem) : Vec :=
  (List.zip (List.range new.length) new).foldl (fun (w : Vec) (ie : Nat × Elem) => w.setElem ie.1 ie.2) v


def ledgerLine (h0 h1 : Heap) : String := s!"ledger +{h1.nAlloc - h0.nAlloc} -{h1.nDealloc - h0.nDealloc}"

/-- does the operation refer to a vector or element that does not exist (its construction threw)? -/
def missingOperand (st : St) (toks : List String) : Bool :=
  match toks with
  | [] => false
  | op :: args =>
    if op == "new" || op == "newdef" || op == "cfg" || op == "emp" || op == "tables" || op == "matrix" || op == "end" || op == "failat" || op == "failoff" then false else
    (List.zip (List.range args.length) args).any (fun (a, t) =>
      if t.length == 2 && t.startsWith "v" then
        let isTarget := (op == "copy" || op == "move") && a == 1
        !isTarget && (st.w.vecs (t.drop 1).toString.toNat!).isNone
      else if t.length == 2 && t.startsWith "e" then
        let isTarget := ((op == "elem" || op == "elemref" || op == "elemmv") && a == 0) || ((op == "elemcopy" || op == "elemmove" || op == "elemcopya" || op == "elemmovea") && a == 1)
        !isTarget && (st.elems (t.drop 1).toString.toNat!).isNone
      else false)

/-- one operation line ↦ new state and output lines -/
def step (st : St) (line : String) : St × List String :=
  let toks := (line.splitOn " ").filter (· ≠ "")
  if missingOperand st toks then (st, ["skip-missing"]) else
  let w := st.w
  let fin (w' : World) (outs : List String) : St × List String :=
    let errs := (w'.heap.errs.drop w.heap.errs.length).map (fun e => s!"MODEL-LEDGER-ERROR {e}")
    if w'.threw then ({ st with w := { w' with threw := false } }, errs ++ ["threw bad_alloc"])
    else ({ st with w := w' }, outs ++ errs ++ [ledgerLine w.heap w'.heap])
  match toks with
  | "cfg" :: rest =>
    let ps := ((kv rest "params").splitOn ",").map parseParam
    let a := kv rest "alloc"
    let bit (i : Nat) : Bool := (a.toList.getD i '0') == '1'
    ({ ps := ps, w := { acfg := { pocca := bit 0, pocma := bit 1, pocs := bit 2, ae := bit 3 } } }, [])
  | ["matrix"] =>
    let showOp (o : Op) : String := ((toString (repr o)).splitOn ".").getLast!
    let showCat : Cat → String | .plain => "Plain" | .fixed => "Fixed" | .varying => "Varying" | .mixed => "Mixed"
    let showVal : ValCat → String | .trivial => "Trivial" | .integral => "Integral" | .copyable => "Copyable" | .moveOnly => "MoveOnly"
    (st, requiredCells.map (fun (o, c, v) => s!"cell {showOp o} {showCat c} {showVal v}"))
  | ["tables"] => (st, [tablesLine st.ps])
  | ["failat", k] => ({ st with w := { w with heap := { w.heap with fail := some k.toNat! } } }, ["ok"])
  | ["failoff"] => ({ st with w := { w with heap := { w.heap with fail := none } } }, ["ok"])
  | ["new", v, cap, bytes, fixed, alloc] =>
    let k := vidx v
    let fs := expandFixed st.ps (parseList fixed)
    let es := elemSize st.ps fs
    let w' := w.new k st.ps fs cap.toNat! (ctorBytes st.ps bytes.toNat!) alloc.toNat!
    fin w' [s!"esz={es.size}/{es.stride}", dumpVec k (w'.vecs k)]
  | ["newdef", v] =>
    let k := vidx v
    let w' := w.newDefault k st.ps
    fin w' [dumpVec k (w'.vecs k)]
  | ["emplace", v, vals] =>
    let k := vidx v
    let w' := w.upd k (·.emplaceBack (parseElem vals))
    fin w' [dumpVec k (w'.vecs k)]
  | ["fillcap", v] =>
    -- emplace_back an element of the vector's own fixed sizes (all values 7) until size() == capacity()
    -- (lists without VaryingSize: the capacity alone is the contract)
    let k := vidx v
    let fsv := ((w.vecs k).map (·.fs)).getD []
    let e : Elem := (List.zip st.ps fsv).map (fun (p, f) => if p.kind = .fixed then List.replicate f 7 else [7])
    let w' := w.upd k (fun x => (List.range (x.cap - x.size)).foldl (fun y _ => y.emplaceBack e) x)
    fin w' [dumpVec k (w'.vecs k)]
  | ["pop", v] =>
    let k := vidx v
    let w' := w.upd k (·.popBack)
    fin w' [dumpVec k (w'.vecs k)]
  | ["erase", v, i] =>
    let k := vidx v
    let w' := w.upd k (·.erase i.toNat!)
    fin w' [s!"ret={i}", dumpVec k (w'.vecs k)]
  | ["eraser", v, i, j] =>
    let k := vidx v
    let w' := w.upd k (·.eraseRange i.toNat! j.toNat!)
    fin w' [s!"ret={i}", dumpVec k (w'.vecs k)]
  | ["clear", v] =>
    let k := vidx v
    let w' := w.upd k (·.clear)
    fin w' [dumpVec k (w'.vecs k)]
  | ["reserve", v, n, b] =>
    let k := vidx v
    let w' := w.reserve k n.toNat! b.toNat!
    fin w' [dumpVec k (w'.vecs k)]
  | ["dump", v] =>
    let k := vidx v
    fin { w with threw := false } [dumpVec k (w.vecs k)]
  | ["copy", s, d] =>
    let w' := w.copy (vidx s) (vidx d)
    fin w' [dumpVec (vidx s) (w'.vecs (vidx s)), dumpVec (vidx d) (w'.vecs (vidx d))]
  | ["move", s, d] =>
    let w' := w.move (vidx s) (vidx d)
    fin w' [dumpVec (vidx s) (w'.vecs (vidx s)), dumpVec (vidx d) (w'.vecs (vidx d))]
  | ["copyassign", s, d] =>
    let w' := w.copyAssign (vidx s) (vidx d)
    fin w' ([dumpVec (vidx s) (w'.vecs (vidx s))] ++ (if vidx s ≠ vidx d then [dumpVec (vidx d) (w'.vecs (vidx d))] else []))
  | ["moveassign", s, d] =>
    let w' := w.moveAssign (vidx s) (vidx d)
    fin w' ([dumpVec (vidx s) (w'.vecs (vidx s))] ++ (if vidx s ≠ vidx d then [dumpVec (vidx d) (w'.vecs (vidx d))] else []))
  | ["swap", a, b] =>
    let w' := w.swap (vidx a) (vidx b)
    fin w' ([dumpVec (vidx a) (w'.vecs (vidx a))] ++ (if vidx a ≠ vidx b then [dumpVec (vidx b) (w'.vecs (vidx b))] else []))
  | ["cmpv", a, b] =>
    match w.vecs (vidx a), w.vecs (vidx b) with
    | some va, some vb =>
      let ea := va.abs.map (·.getD []); let eb := vb.abs.map (·.getD [])
      let lt := vecLt st.ps va.fs vb.fs ea eb; let gt := vecGt st.ps va.fs vb.fs ea eb
      let eqs := match vecEq st.ps va.fs vb.fs ea eb with | some e => s!"eq={b2s e} ne={b2s (!e)}" | none => "eq=UB ne=UB"
      (st, [s!"cmpv {eqs} lt={b2s lt} le={b2s (vecLe st.ps va.fs vb.fs ea eb)} gt={b2s gt} ge={b2s (vecGe st.ps va.fs vb.fs ea eb)}"])
    | _, _ => (st, ["bad-op cmpv"])
  | ["cmpe", a, i, b, j] =>
    match (w.vecs (vidx a)).bind (·.get i.toNat!), (w.vecs (vidx b)).bind (·.get j.toNat!) with
    | some ea, some eb =>
      let lt := elemLt st.ps ea eb; let gt := elemGt st.ps ea eb
      let eqs := match elemEq st.ps ea eb with | some e => s!"eq={b2s e} ne={b2s (!e)}" | none => "eq=UB ne=UB"
      (st, [s!"cmpe {eqs} lt={b2s lt} le={b2s (elemLe st.ps ea eb)} gt={b2s gt} ge={b2s (elemGe st.ps ea eb)}"])
    | _, _ => (st, ["bad-op cmpe"])
  | ["transe", a, i, b, j, c, k] =>
    match (w.vecs (vidx a)).bind (·.get i.toNat!), (w.vecs (vidx b)).bind (·.get j.toNat!), (w.vecs (vidx c)).bind (·.get k.toNat!) with
    | some ea, some eb, some ec =>
      (st, [s!"transe ab={b2s (elemLt st.ps ea eb)} bc={b2s (elemLt st.ps eb ec)} ac={b2s (elemLt st.ps ea ec)}"])
    | _, _, _ => (st, ["bad-op transe"])
  | ["transv", a, b, c] =>
    match w.vecs (vidx a), w.vecs (vidx b), w.vecs (vidx c) with
    | some va, some vb, some vc =>
      let ea := va.abs.map (·.getD []); let eb := vb.abs.map (·.getD []); let ec := vc.abs.map (·.getD [])
      (st, [s!"transv ab={b2s (vecLt st.ps va.fs vb.fs ea eb)} bc={b2s (vecLt st.ps vb.fs vc.fs eb ec)} ac={b2s (vecLt st.ps va.fs vc.fs ea ec)}"])
    | _, _, _ => (st, ["bad-op transv"])
  | ["emp", t, u, f, _kind, items] =>
    match parseTy t, parseTy u, parseForm f with
    | some t, some u, some f =>
      let xs := parseList items
      let st' := stored f t u (if f == .revIt then xs.reverse else xs)   -- a reverse iterator hands out the items back to front
      let mv := u == .cnt && movesEach f t u
      let cp := u == .cnt && path f t u == .copyEach
      let src := if mv then xs.map (fun _ => 0) else xs
      (st, [s!"emp mc={b2s (memcpyCompatible t u)} hds={b2s (f.isRange && f.hasDataAndSize)} ci={b2s (!f.isRange && f.contiguousIterator)} stored={joinNat st'} src={joinNat src} copies={if cp then xs.length else 0} moves={if mv then xs.length else 0}"])
    | _, _, _ => (st, ["bad-op emp"])
  | [op, s, j, d, i] =>
    if op == "refassign" || op == "refassignc" || op == "refmove" then
      let (si, di, j, i) := (vidx s, vidx d, j.toNat!, i.toNat!)
      match (w.vecs si).bind (·.get j), (w.vecs di).bind (·.get i) with
      | some es, some ed =>
        if si == di && i == j then fin { w with threw := false } [dumpVec si (w.vecs si)] else
        let r := refAssign st.ps (op == "refmove") es ed
        let w1 := w.upd di (·.setElem i r.2)
        let w2 := if op == "refmove" then w1.upd si (·.setElem j r.1) else w1
        fin w2 ([dumpVec si (w2.vecs si)] ++ (if si ≠ di then [dumpVec di (w2.vecs di)] else []))
      | _, _ => (st, ["bad-op refassign"])
    else if op == "refswap" || op == "iterswap" then
      let (ai, bi, i, j) := (vidx s, vidx d, j.toNat!, i.toNat!)
      match (w.vecs ai).bind (·.get i), (w.vecs bi).bind (·.get j) with
      | some ea, some eb =>
        if ai == bi && i == j then fin { w with threw := false } [dumpVec ai (w.vecs ai)] else
        let r := refSwap st.ps ea eb
        let w2 := (w.upd ai (·.setElem i r.1)).upd bi (·.setElem j r.2)
        fin w2 ([dumpVec ai (w2.vecs ai)] ++ (if ai ≠ bi then [dumpVec bi (w2.vecs bi)] else []))
      | _, _ => (st, ["bad-op refswap"])
    else if op == "elem" || op == "elemref" || op == "elemmv" then
      let (k, si, idx, al) := (vidx s, vidx j, d.toNat!, i.toNat!)
      let ew := (st.ew.elemDestroy st.ps k).elemFromRef st.ps k si idx al (op == "elemmv")
      let (st2, outs) := fin ew.w [dumpElem st.ps k (ew.elems k), dumpVec si (ew.w.vecs si)]
      ({ st2 with elems := ew.elems }, outs)
    else (st, [s!"bad-op {op}"])
  | ["rotate", v, k] =>
    let vi := vidx v
    match w.vecs vi with
    | some vv =>
      let es := vv.abs.map (·.getD [])
      let w' := w.upd vi (fun x => permuteVec x (es.drop k.toNat! ++ es.take k.toNat!))
      fin w' [dumpVec vi (w'.vecs vi)]
    | none => (st, ["bad-op rotate"])
  | ["reverse", v] =>
    let vi := vidx v
    match w.vecs vi with
    | some vv =>
      let es := vv.abs.map (·.getD [])
      let w' := w.upd vi (fun x => permuteVec x es.reverse)
      fin w' [dumpVec vi (w'.vecs vi)]
    | none => (st, ["bad-op reverse"])
  | ["swapranges", a, b, n] =>
    let (ai, bi, n) := (vidx a, vidx b, n.toNat!)
    match w.vecs ai, w.vecs bi with
    | some va, some vb =>
      let ea := va.abs.map (·.getD []); let eb := vb.abs.map (·.getD [])
      let w' := (w.upd ai (fun x => permuteVec x (eb.take n ++ ea.drop n))).upd bi (fun x => permuteVec x (ea.take n ++ eb.drop n))
      fin w' [dumpVec ai (w'.vecs ai), dumpVec bi (w'.vecs bi)]
    | _, _ => (st, ["bad-op swapranges"])
  | ["iter", v] =>
    match w.vecs (vidx v) with
    | some vv => (st, [s!"iter n={vv.size} pairs={(vv.size + 1) * (vv.size + 1)}"])
    | none => (st, ["bad-op iter"])
  | [op, a, b] =>
    let (ai, bi) := (vidx a, vidx b)
    let finE (ew : EWorld) (outs : List String) : St × List String :=
      let (st2, o) := fin ew.w outs
      ({ st2 with elems := ew.elems }, o)
    if op == "elemcopy" then
      let ew := (st.ew.elemDestroy st.ps bi).elemCopy st.ps ai bi
      finE ew [dumpElem st.ps ai (ew.elems ai), dumpElem st.ps bi (ew.elems bi)]
    else if op == "elemmove" then
      let ew := (st.ew.elemDestroy st.ps bi).elemMove ai bi
      finE ew [dumpElem st.ps ai (ew.elems ai), dumpElem st.ps bi (ew.elems bi)]
    else if op == "elemassign" then
      let ew := st.ew.elemAssign st.ps ai bi
      finE ew ([dumpElem st.ps ai (ew.elems ai)] ++ (if ai ≠ bi then [dumpElem st.ps bi (ew.elems bi)] else []))
    else if op == "elemmassign" then
      let ew := st.ew.elemMoveAssign st.ps ai bi
      finE ew ([dumpElem st.ps ai (ew.elems ai)] ++ (if ai ≠ bi then [dumpElem st.ps bi (ew.elems bi)] else []))
    else if op == "elemswap" then
      let ew := st.ew.elemSwap ai bi
      finE ew ([dumpElem st.ps ai (ew.elems ai)] ++ (if ai ≠ bi then [dumpElem st.ps bi (ew.elems bi)] else []))
    else (st, [s!"bad-op {op}"])
  | ["elemcopya", a, b, al] =>
    let (ai, bi) := (vidx a, vidx b)
    let ew := (st.ew.elemDestroy st.ps bi).elemCopyA st.ps ai bi al.toNat!
    let (st2, o) := fin ew.w [dumpElem st.ps ai (ew.elems ai), dumpElem st.ps bi (ew.elems bi)]
    ({ st2 with elems := ew.elems }, o)
  | ["elemmovea", a, b, al] =>
    let (ai, bi) := (vidx a, vidx b)
    let ew := (st.ew.elemDestroy st.ps bi).elemMoveA st.ps ai bi al.toNat!
    let (st2, o) := fin ew.w [dumpElem st.ps ai (ew.elems ai), dumpElem st.ps bi (ew.elems bi)]
    ({ st2 with elems := ew.elems }, o)
  | [op, e, v, i] =>
    let (k, vi, i) := (vidx e, vidx v, i.toNat!)
    match st.elems k, (w.vecs vi).bind (·.get i) with
    | some el, some ev =>
      if op == "elemtoref" || op == "elemtorefm" then
        let r := refAssign st.ps (op == "elemtorefm") el.val ev
        let w' := w.upd vi (·.setElem i r.2)
        let el' := if op == "elemtorefm" then { el with val := r.1 } else el
        let (st2, o) := fin w' [dumpElem st.ps k (some el'), dumpVec vi (w'.vecs vi)]
        ({ st2 with elems := fun x => if x = k then some el' else st.elems x }, o)
      else if op == "elemfromref" || op == "elemfromrefm" then
        let r := refAssign st.ps (op == "elemfromrefm") ev el.val
        let w' := if op == "elemfromrefm" then w.upd vi (·.setElem i r.1) else { w with threw := false }
        let el' := { el with val := r.2 }
        let (st2, o) := fin w' [dumpElem st.ps k (some el'), dumpVec vi (w'.vecs vi)]
        ({ st2 with elems := fun x => if x = k then some el' else st.elems x }, o)
      else (st, [s!"bad-op {op}"])
    | _, _ => (st, [s!"bad-op {op}"])
  | ["elemdump", e] => fin { w with threw := false } [dumpElem st.ps (vidx e) (st.elems (vidx e))]
  | ["elemdestroy", e] =>
    let ew := st.ew.elemDestroy st.ps (vidx e)
    let (st2, o) := fin ew.w [s!"e{vidx e} none"]
    ({ st2 with elems := ew.elems }, o)
  | ["destroy", v] =>
    let k := vidx v
    let w' := w.destroy k
    fin w' [s!"v{k} none"]
  | ["end"] =>
    let ew := (List.range 8).foldl (fun (ew : EWorld) k => ew.elemDestroy st.ps k) st.ew
    let w' := (List.range 8).foldl (fun w k => w.destroy k) ew.w
    let liveB := (w'.heap.live.map (·.serial)).reverse
    fin w' [s!"end live_blocks={joinNat liveB} live_objects=0"]
  | t :: _ => (st, [s!"bad-op {t}"])
  | [] => (st, [])

end Cntgs.Driver
