/-
Helper lemmas for C13/C14: lexicographic comparison over a strict weak order is a strict weak order.
-/
import Cntgs.Compare
namespace Cntgs

/-- strict weak order, in the asymmetric + negatively transitive form -/
structure SWO {α : Type} (lt : α → α → Bool) : Prop where
  asymm : ∀ a b, lt a b = true → lt b a = false
  negtrans : ∀ a b c, lt a b = false → lt b c = false → lt a c = false

theorem SWO.irrefl {α} {lt : α → α → Bool} (h : SWO lt) (a : α) : lt a a = false := by
  cases hl : lt a a
  · rfl
  · have := h.asymm a a hl; rw [hl] at this; exact this

theorem SWO.trans {α} {lt : α → α → Bool} (h : SWO lt) {a b c : α} (hab : lt a b = true) (hbc : lt b c = true) :
    lt a c = true := by
  cases hac : lt a c
  · have hcb := h.asymm b c hbc
    have := h.negtrans a c b hac hcb
    rw [hab] at this; exact absurd this (by simp)
  · rfl

/-- pulling a strict weak order back along any function -/
theorem SWO.comap {α β} {lt : β → β → Bool} (h : SWO lt) (f : α → β) : SWO (fun a b => lt (f a) (f b)) :=
  ⟨fun a b => h.asymm (f a) (f b), fun a b c => h.negtrans (f a) (f b) (f c)⟩

theorem natLt_swo : SWO (fun x y : Nat => decide (x < y)) :=
  ⟨fun a b h => by simp at h ⊢; omega, fun a b c h1 h2 => by simp at h1 h2 ⊢; omega⟩

theorem lexBy_asymm {α} {lt : α → α → Bool} (h : SWO lt) :
    ∀ x y : List α, lexBy lt x y = true → lexBy lt y x = false := by
  intro x
  induction x with
  | nil => intro y _; cases y <;> simp [lexBy]
  | cons a as ih =>
    intro y hxy
    cases y with
    | nil => simp [lexBy] at hxy
    | cons b bs =>
      simp only [lexBy] at hxy ⊢
      cases hab : lt a b
      · rw [hab] at hxy
        cases hba : lt b a
        · rw [hba] at hxy
          simp only [Bool.false_eq_true, if_false] at hxy ⊢
          exact ih bs hxy
        · rw [hba] at hxy; simp at hxy
      · have hba := h.asymm a b hab
        simp [hba, hab]

theorem lexBy_negtrans {α} {lt : α → α → Bool} (h : SWO lt) :
    ∀ x y z : List α, lexBy lt x y = false → lexBy lt y z = false → lexBy lt x z = false := by
  intro x
  induction x with
  | nil =>
    intro y z hxy hyz
    cases y with
    | nil => exact hyz
    | cons b bs => simp [lexBy] at hxy
  | cons a as ih =>
    intro y z hxy hyz
    cases z with
    | nil => simp [lexBy]
    | cons c cs =>
      cases y with
      | nil => simp [lexBy] at hyz
      | cons b bs =>
        simp only [lexBy] at hxy hyz ⊢
        have hab : lt a b = false := by
          cases hh : lt a b
          · rfl
          · rw [hh] at hxy; simp at hxy
        have hbc : lt b c = false := by
          cases hh : lt b c
          · rfl
          · rw [hh] at hyz; simp at hyz
        have hac := h.negtrans a b c hab hbc
        simp only [hab, hbc, hac, Bool.false_eq_true, if_false] at hxy hyz ⊢
        cases hba : lt b a
        · cases hcb : lt c b
          · simp only [hba, hcb, Bool.false_eq_true, if_false] at hxy hyz
            have hca := h.negtrans c b a hcb hba
            simp only [hca, Bool.false_eq_true, if_false]
            exact ih bs cs hxy hyz
          · -- c < b and ¬ a < b  ⇒  c < a
            have hca : lt c a = true := by
              cases hh : lt c a
              · have := h.negtrans c a b hh hab; rw [hcb] at this; exact absurd this (by simp)
              · rfl
            simp [hca]
        · -- b < a and ¬ b < c  ⇒  c < a
          have hca : lt c a = true := by
            cases hh : lt c a
            · have := h.negtrans b c a hbc hh; rw [hba] at this; exact absurd this (by simp)
            · rfl
          simp [hca]

theorem lexBy_swo {α} {lt : α → α → Bool} (h : SWO lt) : SWO (lexBy lt) :=
  ⟨lexBy_asymm h, lexBy_negtrans h⟩

theorem lexLt_swo : SWO lexLt := lexBy_swo natLt_swo

theorem keysLt_eq_lexBy : ∀ (a b : List (List Nat)), a.length = b.length → keysLt a b = lexBy lexLt a b := by
  intro a
  induction a with
  | nil => intro b hl; cases b <;> simp_all [keysLt, lexBy]
  | cons x xs ih =>
    intro b hl
    cases b with
    | nil => simp at hl
    | cons y ys =>
      simp only [keysLt, lexBy]
      rw [ih ys (by simpa using hl)]

theorem ltKeys_length (ps : List Param) (a b : Elem) : (ltKeys ps a).length = (ltKeys ps b).length := by
  simp [ltKeys]

theorem elemLt_eq (ps : List Param) (a b : Elem) : elemLt ps a b = lexBy lexLt (ltKeys ps a) (ltKeys ps b) :=
  keysLt_eq_lexBy _ _ (ltKeys_length ps a b)

/-- the element-level `<` is a strict weak order for every parameter list -/
theorem elemLt_swo (ps : List Param) : SWO (elemLt ps) := by
  have h := (lexBy_swo lexLt_swo).comap (ltKeys ps)
  constructor
  · intro a b; rw [elemLt_eq, elemLt_eq]; exact h.asymm a b
  · intro a b c; rw [elemLt_eq, elemLt_eq, elemLt_eq]; exact h.negtrans a b c

theorem seqLt_swo (ps : List Param) : SWO (seqLt ps) := lexBy_swo (elemLt_swo ps)

/-- the vector-level `<` is a strict weak order on both code paths -/
theorem vecLt_swo (ps : List Param) : SWO (vecLt ps) := by
  unfold vecLt
  split
  · -- whole-buffer path: byte-lexicographic on the used data area, with the empty-vector guards
    have hb := lexLt_swo.comap (vecBytes ps)
    constructor
    · intro a b hab
      cases a with
      | nil => cases b <;> simp_all
      | cons x xs =>
        cases b with
        | nil => simp at hab
        | cons y ys => simp only [List.isEmpty_cons, Bool.false_eq_true, if_false] at hab ⊢; exact hb.asymm _ _ hab
    · intro a b c hab hbc
      cases a with
      | nil =>
        cases b with
        | nil => exact hbc
        | cons y ys => simp at hab
      | cons x xs =>
        cases c with
        | nil => simp
        | cons z zs =>
          cases b with
          | nil => simp at hbc
          | cons y ys =>
            simp only [List.isEmpty_cons, Bool.false_eq_true, if_false] at hab hbc ⊢
            exact hb.negtrans _ _ _ hab hbc
  · exact seqLt_swo ps

end Cntgs

namespace Cntgs

theorem equal3_iff : ∀ (l m : List Nat), l.length = m.length → (equal3 l m = some true ↔ l = m) := by
  intro l
  induction l with
  | nil => intro m h; cases m <;> simp_all [equal3]
  | cons a as ih =>
    intro m h
    cases m with
    | nil => simp at h
    | cons b bs =>
      simp only [equal3]
      by_cases hab : a = b
      · subst hab; simp only [if_true]; rw [ih bs (by simpa using h)]; simp
      · simp [hab]

theorem equal3_refl (l : List Nat) : equal3 l l = some true := (equal3_iff l l rfl).mpr rfl

theorem eqFold_true (ps : List Param) (tbl : List RunEntry) (a b : Elem) (ks : List Nat) :
    eqFold ps tbl a b ks = some true ↔ ∀ k ∈ ks, eqOne ps tbl a b k = some true := by
  induction ks with
  | nil => simp [eqFold]
  | cons k ks ih =>
    simp only [eqFold, List.mem_cons, forall_eq_or_imp]
    cases h : eqOne ps tbl a b k with
    | none => simp
    | some v =>
      cases v
      · simp
      · simp [ih]

/-- a predicate that holds for no parameter gives the all-MANUAL table -/
theorem runsGo_all_false (pred : Param → Bool) (brk : Bool) (ps : List Param) (i index : Nat) (tbl : Nat → RunEntry)
    (h : ∀ p ∈ ps, pred p = false) (k : Nat) :
    runsGo pred brk ps i index tbl k = if i ≤ k ∧ k < i + ps.length then .manual else tbl k := by
  induction ps generalizing i index tbl with
  | nil => simp [runsGo]; intro h1 h2; omega
  | cons p ps ih =>
    have hp : pred p = false := h p (by simp)
    simp only [runsGo, hp, Bool.false_eq_true, if_false]
    rw [ih (i + 1) (i + 1) _ (fun q hq => h q (by simp [hq]))]
    simp only [List.length_cons]
    by_cases h1 : i + 1 ≤ k ∧ k < i + 1 + ps.length
    · have : i ≤ k ∧ k < i + (ps.length + 1) := by omega
      simp [h1, this]
    · simp only [h1, if_false]
      by_cases h2 : k = i
      · subst h2; simp
      · have : ¬ (i ≤ k ∧ k < i + (ps.length + 1)) := by omega
        simp [h2, this]

theorem runs_all_false (pred : Param → Bool) (brk : Bool) (ps : List Param) (h : ∀ p ∈ ps, pred p = false)
    (k : Nat) (hk : k < ps.length) : (runs pred brk ps).getD k .skip = .manual := by
  unfold runs
  simp only [List.getD_eq_getElem?_getD, List.getElem?_map, List.getElem?_range hk, Option.map_some, Option.getD_some]
  rw [runsGo_all_false pred brk ps 0 0 _ h k]
  simp [hk]

/-- equality of references, element-wise path (no memcmp-able value type in the list): true exactly for
    equal field values, provided both sides have the same field sizes -/
theorem elemEq_iff_generic (ps : List Param) (a b : Elem)
    (hno : ∀ p ∈ ps, p.ty.eqMemcmp = false) (ha : a.length = ps.length) (hb : b.length = ps.length)
    (hc : elemCounts a = elemCounts b) : elemEq ps a b = some true ↔ a = b := by
  unfold elemEq
  rw [eqFold_true]
  constructor
  · intro h
    apply List.ext_getElem (by omega)
    intro k hk1 hk2
    have hkp : k < ps.length := by omega
    have hk := h k (by simp [hkp])
    unfold eqOne eqTable at hk
    rw [runs_all_false _ _ ps hno k hkp] at hk
    have hlen : a[k].length = b[k].length := by
      have := congrArg (fun l => l[k]?) hc
      simp [elemCounts, hk1, hk2] at this
      exact this
    simp only [List.getElem?_eq_getElem hkp, List.getElem?_eq_getElem hk1, List.getElem?_eq_getElem hk2] at hk
    split at hk
    · simpa using hk
    · exact (equal3_iff _ _ hlen).mp hk
  · intro h k hk
    subst h
    have hkp : k < ps.length := by simpa using hk
    have hk1 : k < a.length := by omega
    unfold eqOne eqTable
    rw [runs_all_false _ _ ps hno k hkp]
    simp only [List.getElem?_eq_getElem hkp, List.getElem?_eq_getElem hk1]
    split
    · simp
    · exact equal3_refl _

end Cntgs
