/-
Helper lemmas for C13/C14: lexicographic comparison over a strict weak order is a strict weak order.
-/
import Cntgs.Compare
namespace Cntgs

/-- strict weak order, in the asymmetric + negatively transitive form -/
structure SWO {α : Type} (lt : α → α → Bool) : Prop where
  asymm : ∀ a b, lt a b = true → lt b a = false
  negtrans : ∀ a b c, lt a b = false → lt b c = false → lt a c = false

theorem SWO.irrefl {α} {lt : α → α → Bool} (h : SWO lt) (a : α) : lt a a = false := by
  cases hl : lt a a
  · rfl
  · have := h.asymm a a hl; rw [hl] at this; exact this

theorem SWO.trans {α} {lt : α → α → Bool} (h : SWO lt) {a b c : α} (hab : lt a b = true) (hbc : lt b c = true) :
    lt a c = true := by
  cases hac : lt a c
  · have hcb := h.asymm b c hbc
    have := h.negtrans a c b hac hcb
    rw [hab] at this; exact absurd this (by simp)
  · rfl

/-- pulling a strict weak order back along any function -/
theorem SWO.comap {α β} {lt : β → β → Bool} (h : SWO lt) (f : α → β) : SWO (fun a b => lt (f a) (f b)) :=
  ⟨fun a b => h.asymm (f a) (f b), fun a b c => h.negtrans (f a) (f b) (f c)⟩

theorem natLt_swo : SWO (fun x y : Nat => decide (x < y)) :=
  ⟨fun a b h => by simp at h ⊢; omega, fun a b c h1 h2 => by simp at h1 h2 ⊢; omega⟩

theorem lexBy_asymm {α} {lt : α → α → Bool} (h : SWO lt) :
    ∀ x y : List α, lexBy lt x y = true → lexBy lt y x = false := by
  intro x
  induction x with
  | nil => intro y _; cases y <;> simp [lexBy]
  | cons a as ih =>
    intro y hxy
    cases y with
    | nil => simp [lexBy] at hxy
    | cons b bs =>
      simp only [lexBy] at hxy ⊢
      cases hab : lt a b
      · rw [hab] at hxy
        cases hba : lt b a
        · rw [hba] at hxy
          simp only [Bool.false_eq_true, if_false] at hxy ⊢
          exact ih bs hxy
        · rw [hba] at hxy; simp at hxy
      · have hba := h.asymm a b hab
        simp [hba, hab]

theorem lexBy_negtrans {α} {lt : α → α → Bool} (h : SWO lt) :
    ∀ x y z : List α, lexBy lt x y = false → lexBy lt y z = false → lexBy lt x z = false := by
  intro x
  induction x with
  | nil =>
    intro y z hxy hyz
    cases y with
    | nil => exact hyz
    | cons b bs => simp [lexBy] at hxy
  | cons a as ih =>
    intro y z hxy hyz
    cases z with
    | nil => simp [lexBy]
    | cons c cs =>
      cases y with
      | nil => simp [lexBy] at hyz
      | cons b bs =>
        simp only [lexBy] at hxy hyz ⊢
        have hab : lt a b = false := by
          cases hh : lt a b
          · rfl
          · rw [hh] at hxy; simp at hxy
        have hbc : lt b c = false := by
          cases hh : lt b c
          · rfl
          · rw [hh] at hyz; simp at hyz
        have hac := h.negtrans a b c hab hbc
        simp only [hab, hbc, hac, Bool.false_eq_true, if_false] at hxy hyz ⊢
        cases hba : lt b a
        · cases hcb : lt c b
          · simp only [hba, hcb, Bool.false_eq_true, if_false] at hxy hyz
            have hca := h.negtrans c b a hcb hba
            simp only [hca, Bool.false_eq_true, if_false]
            exact ih bs cs hxy hyz
          · -- c < b and ¬ a < b  ⇒  c < a
            have hca : lt c a = true := by
              cases hh : lt c a
              · have := h.negtrans c a b hh hab; rw [hcb] at this; exact absurd this (by simp)
              · rfl
            simp [hca]
        · -- b < a and ¬ b < c  ⇒  c < a
          have hca : lt c a = true := by
            cases hh : lt c a
            · have := h.negtrans b c a hbc hh; rw [hba] at this; exact absurd this (by simp)
            · rfl
          simp [hca]

theorem lexBy_swo {α} {lt : α → α → Bool} (h : SWO lt) : SWO (lexBy lt) :=
  ⟨lexBy_asymm h, lexBy_negtrans h⟩

theorem lexLt_swo : SWO lexLt := lexBy_swo natLt_swo

/-- lexicographic comparison is asymmetric as soon as the element order is -/
theorem lexBy_asymm_of {α} {lt : α → α → Bool} (hasym : ∀ a b, lt a b = true → lt b a = false) :
    ∀ x y : List α, lexBy lt x y = true → lexBy lt y x = false := by
  intro x
  induction x with
  | nil => intro y _; cases y <;> simp [lexBy]
  | cons a as ih =>
    intro y hxy
    cases y with
    | nil => simp [lexBy] at hxy
    | cons b bs =>
      simp only [lexBy] at hxy ⊢
      cases hab : lt a b
      · rw [hab] at hxy
        cases hba : lt b a
        · rw [hba] at hxy
          simp only [Bool.false_eq_true, if_false] at hxy ⊢
          exact ih bs hxy
        · rw [hba] at hxy; simp at hxy
      · have hba := hasym a b hab
        simp [hba]

theorem ltKeys_length (ps : List Param) (a b : Elem) : (ltKeys ps a).length = (ltKeys ps b).length := by
  simp [ltKeys]

theorem allLt_irrefl : ∀ (a : List (List Nat)), a ≠ [] → allLt a a = false := by
  intro a
  induction a with
  | nil => intro h; exact absurd rfl h
  | cons x xs _ => intro _; simp [allLt, lexLt_swo.irrefl x]

theorem allLt_asymm : ∀ (a b : List (List Nat)), a ≠ [] → allLt a b = true → allLt b a = false := by
  intro a b ha hab
  cases a with
  | nil => exact absurd rfl ha
  | cons x xs =>
    cases b with
    | nil => simp [allLt] at hab
    | cons y ys =>
      simp only [allLt, Bool.and_eq_true] at hab
      simp [allLt, lexLt_swo.asymm x y hab.1]

theorem allLt_trans : ∀ (a b c : List (List Nat)), allLt a b = true → allLt b c = true → allLt a c = true := by
  intro a
  induction a with
  | nil => intro b c hab hbc; cases b <;> cases c <;> simp_all [allLt]
  | cons x xs ih =>
    intro b c hab hbc
    cases b with
    | nil => simp [allLt] at hab
    | cons y ys =>
      cases c with
      | nil => simp [allLt] at hbc
      | cons z zs =>
        simp only [allLt, Bool.and_eq_true] at hab hbc ⊢
        exact ⟨lexLt_swo.trans hab.1 hbc.1, ih ys zs hab.2 hbc.2⟩

theorem allLt_length : ∀ (a b : List (List Nat)), allLt a b = true → a.length = b.length := by
  intro a
  induction a with
  | nil => intro b h; cases b <;> simp_all [allLt]
  | cons x xs ih =>
    intro b h
    cases b with
    | nil => simp [allLt] at h
    | cons y ys => simp only [allLt, Bool.and_eq_true] at h; simp [ih ys h.2]

/-- the element-level `<` (a conjunction over the parameters/runs) is a strict *partial* order -/
theorem elemLt_irrefl (ps : List Param) (a : Elem) : elemLt ps a a = false := by
  unfold elemLt keysLt
  cases h : ltKeys ps a with
  | nil => simp
  | cons x xs => simp [allLt_irrefl (x :: xs) (by simp)]

theorem elemLt_asymm (ps : List Param) (a b : Elem) (h : elemLt ps a b = true) : elemLt ps b a = false := by
  unfold elemLt keysLt at h ⊢
  simp only [Bool.and_eq_true, Bool.not_eq_true', List.isEmpty_eq_false_iff] at h
  rw [allLt_asymm _ _ h.1 h.2]; simp

theorem elemLt_trans (ps : List Param) (a b c : Elem) (h1 : elemLt ps a b = true) (h2 : elemLt ps b c = true) :
    elemLt ps a c = true := by
  unfold elemLt keysLt at h1 h2 ⊢
  simp only [Bool.and_eq_true, Bool.not_eq_true', List.isEmpty_eq_false_iff] at h1 h2 ⊢
  exact ⟨h1.1, allLt_trans _ _ _ h1.2 h2.2⟩

/-- vector `<` is irreflexive and asymmetric on both code paths -/
theorem vecLt_asymm (ps : List Param) (fa fb : List Nat) (a b : List Elem) (h : vecLt ps fa fb a b = true) :
    vecLt ps fb fa b a = false := by
  unfold vecLt at h ⊢
  rw [show (fixedSizesOf ps fb == fixedSizesOf ps fa) = (fixedSizesOf ps fa == fixedSizesOf ps fb) from BEq.comm]
  split at h
  · rename_i hc
    simp only [hc, if_true]
    have hb := lexLt_swo.comap (vecBytes ps)
    cases a with
    | nil => cases b <;> simp_all
    | cons x xs =>
      cases b with
      | nil => simp at h
      | cons y ys => simp only [List.isEmpty_cons, Bool.false_eq_true, if_false] at h ⊢; exact hb.asymm _ _ h
  · rename_i hc
    simp only [hc, if_false]
    exact lexBy_asymm_of (elemLt_asymm ps) a b h

theorem vecLt_irrefl (ps : List Param) (f : List Nat) (a : List Elem) : vecLt ps f f a a = false := by
  cases h : vecLt ps f f a a
  · rfl
  · have := vecLt_asymm ps f f a a h; rw [h] at this; exact this

/-- on the whole-buffer path vector `<` is a strict weak order -/
theorem vecLt_swo_fastpath (ps : List Param) (f : List Nat)
    (hc : (ps.all (·.ty.lexMemcmp) && isFixedOrPlain ps && storageAl ps == 1) = true) :
    SWO (vecLt ps f f) := by
  unfold vecLt
  simp only [hc, beq_self_eq_true, Bool.and_true, if_true]
  have hb := lexLt_swo.comap (vecBytes ps)
  constructor
  · intro a b hab
    cases a with
    | nil => cases b <;> simp_all
    | cons x xs =>
      cases b with
      | nil => simp at hab
      | cons y ys => simp only [List.isEmpty_cons, Bool.false_eq_true, if_false] at hab ⊢; exact hb.asymm _ _ hab
  · intro a b c hab hbc
    cases a with
    | nil =>
      cases b with
      | nil => exact hbc
      | cons y ys => simp at hab
    | cons x xs =>
      cases c with
      | nil => simp
      | cons z zs =>
        cases b with
        | nil => simp at hbc
        | cons y ys =>
          simp only [List.isEmpty_cons, Bool.false_eq_true, if_false] at hab hbc ⊢
          exact hb.negtrans _ _ _ hab hbc

end Cntgs

namespace Cntgs

theorem equal3_iff : ∀ (l m : List Nat), l.length = m.length → (equal3 l m = some true ↔ l = m) := by
  intro l
  induction l with
  | nil => intro m h; cases m <;> simp_all [equal3]
  | cons a as ih =>
    intro m h
    cases m with
    | nil => simp at h
    | cons b bs =>
      simp only [equal3]
      by_cases hab : a = b
      · subst hab; simp only [if_true]; rw [ih bs (by simpa using h)]; simp
      · simp [hab]

theorem equal3_refl (l : List Nat) : equal3 l l = some true := (equal3_iff l l rfl).mpr rfl

theorem eqFold_true (ps : List Param) (tbl : List RunEntry) (a b : Elem) (ks : List Nat) :
    eqFold ps tbl a b ks = some true ↔ ∀ k ∈ ks, eqOne ps tbl a b k = some true := by
  induction ks with
  | nil => simp [eqFold]
  | cons k ks ih =>
    simp only [eqFold, List.mem_cons, forall_eq_or_imp]
    cases h : eqOne ps tbl a b k with
    | none => simp
    | some v =>
      cases v
      · simp
      · simp [ih]

/-- a predicate that holds for no parameter gives the all-MANUAL table -/
theorem runsGo_all_false (pred : Param → Bool) (brk : Bool) (ps : List Param) (i index : Nat) (tbl : Nat → RunEntry)
    (h : ∀ p ∈ ps, pred p = false) (k : Nat) :
    runsGo pred brk ps i index tbl k = if i ≤ k ∧ k < i + ps.length then .manual else tbl k := by
  induction ps generalizing i index tbl with
  | nil => simp [runsGo]; intro h1 h2; omega
  | cons p ps ih =>
    have hp : pred p = false := h p (by simp)
    simp only [runsGo, hp, Bool.false_eq_true, if_false]
    rw [ih (i + 1) (i + 1) _ (fun q hq => h q (by simp [hq]))]
    simp only [List.length_cons]
    by_cases h1 : i + 1 ≤ k ∧ k < i + 1 + ps.length
    · have : i ≤ k ∧ k < i + (ps.length + 1) := by omega
      simp [h1, this]
    · simp only [h1, if_false]
      by_cases h2 : k = i
      · subst h2; simp
      · have : ¬ (i ≤ k ∧ k < i + (ps.length + 1)) := by omega
        simp [h2, this]

theorem runs_all_false (pred : Param → Bool) (brk : Bool) (ps : List Param) (h : ∀ p ∈ ps, pred p = false)
    (k : Nat) (hk : k < ps.length) : (runs pred brk ps).getD k .skip = .manual := by
  unfold runs
  simp only [List.getD_eq_getElem?_getD, List.getElem?_map, List.getElem?_range hk, Option.map_some, Option.getD_some]
  rw [runsGo_all_false pred brk ps 0 0 _ h k]
  simp [hk]

theorem fixedSizesEq_of_counts : ∀ (ps : List Param) (a b : Elem), elemCounts a = elemCounts b → fixedSizesEq ps a b = true := by
  intro ps
  induction ps with
  | nil => intro a b _; cases a <;> cases b <;> rfl
  | cons p ps ih =>
    intro a b hc
    cases a with
    | nil => rfl
    | cons va a =>
      cases b with
      | nil => rfl
      | cons vb b =>
        simp only [elemCounts, List.map_cons, List.cons.injEq] at hc
        simp only [fixedSizesEq, hc.1, beq_self_eq_true, ite_self, Bool.true_and]
        exact ih a b hc.2

/-- FixedSize fields of different sizes: never equal, whatever the values (and in both directions) -/
theorem elemEq_fixed_size_differs (ps : List Param) (a b : Elem) (h : fixedSizesEq ps a b = false) : elemEq ps a b = some false := by
  unfold elemEq; simp [h]

theorem fixedSizesEq_symm : ∀ (ps : List Param) (a b : Elem), fixedSizesEq ps a b = fixedSizesEq ps b a := by
  intro ps
  induction ps with
  | nil => intro a b; cases a <;> cases b <;> rfl
  | cons p ps ih =>
    intro a b
    cases a with
    | nil => cases b <;> rfl
    | cons va a =>
      cases b with
      | nil => rfl
      | cons vb b =>
        simp only [fixedSizesEq, ih a b]
        congr 1
        split
        · exact Bool.beq_comm
        · rfl

/-- equality of references, element-wise path (no memcmp-able value type in the list): true exactly for
    equal field values, provided both sides have the same field sizes -/
theorem elemEq_iff_generic (ps : List Param) (a b : Elem)
    (hno : ∀ p ∈ ps, p.ty.eqMemcmp = false) (ha : a.length = ps.length) (hb : b.length = ps.length)
    (hc : elemCounts a = elemCounts b) : elemEq ps a b = some true ↔ a = b := by
  unfold elemEq
  rw [if_pos (fixedSizesEq_of_counts ps a b hc), eqFold_true]
  constructor
  · intro h
    apply List.ext_getElem (by omega)
    intro k hk1 hk2
    have hkp : k < ps.length := by omega
    have hk := h k (by simp [hkp])
    unfold eqOne eqTable at hk
    rw [runs_all_false _ _ ps hno k hkp] at hk
    have hlen : a[k].length = b[k].length := by
      have := congrArg (fun l => l[k]?) hc
      simp [elemCounts, hk1, hk2] at this
      exact this
    simp only [List.getElem?_eq_getElem hkp, List.getElem?_eq_getElem hk1, List.getElem?_eq_getElem hk2] at hk
    split at hk
    · simpa using hk
    · exact (equal3_iff _ _ hlen).mp hk
  · intro h k hk
    subst h
    have hkp : k < ps.length := by simpa using hk
    have hk1 : k < a.length := by omega
    unfold eqOne eqTable
    rw [runs_all_false _ _ ps hno k hkp]
    simp only [List.getElem?_eq_getElem hkp, List.getElem?_eq_getElem hk1]
    split
    · simp
    · exact equal3_refl _

end Cntgs
