/-
M1 — layout of one element and the size formulas.

Source anchors (all under /repo/src/cntgs/detail):
  largest / storageAl   elementTraits.hpp  LARGEST_ALIGNMENT_BETWEEN_VARYING_SIZES, STORAGE_ELEMENT_ALIGNMENT
  trailingStep          parameterTraits.hpp ParameterTraits<…>::trailing_alignment (plain / FixedSize / VaryingSize)
  trailings             elementTraits.hpp  calculate_trailing_alignments
  placeGo / place       parameterTraits.hpp load/store (align_if<(Prev < ALIGNMENT), ALIGNMENT>), elementTraits.hpp emplace_at / load_element_at
  trailingPadding       parameterTraits.hpp detail::trailing_padding
  sizeStep              parameterTraits.hpp aligned_size_in_memory (three versions)
  elemSize              elementTraits.hpp  calculate_element_size
  needed                elementTraits.hpp  calculate_needed_memory_size
  units                 elementTraits.hpp  allocate_memory
  alignFirst            elementTraits.hpp  align_for_first_parameter
  runs                  elementTraits.hpp  calculate_consecutive_indices
-/
import Cntgs.Kernel
namespace Cntgs

inductive Kind | plain | fixed | varying
  deriving DecidableEq, Repr, Inhabited

/-- value-type facts that steer compile-time dispatch; irrelevant for the layout arithmetic -/
structure TyFlags where
  trivCopyCtor : Bool := true
  trivMoveCtor : Bool := true
  trivDtor : Bool := true
  trivCopyAssign : Bool := true
  trivMoveAssign : Bool := true
  trivSwap : Bool := true
  eqMemcmp : Bool := true
  lexMemcmp : Bool := true
  signed : Bool := false        -- signed integer type: `<` on values is not `<` on the unsigned representation
  deriving DecidableEq, Repr, Inhabited

structure Param where
  kind : Kind
  vb : Nat          -- sizeof(T)
  al : Nat          -- AlignAs alignment (1 when absent)
  ty : TyFlags := {}
  deriving Repr, Inhabited, DecidableEq

/-- LARGEST_ALIGNMENT_BETWEEN_VARYING_SIZES -/
def largestGo : List Param → Nat → Nat → List Nat
  | [], cnt, cur => List.replicate cnt cur
  | p :: ps, cnt, cur =>
    let cur' := max cur p.al
    if p.kind = .varying then List.replicate (cnt + 1) cur' ++ largestGo ps 0 0
    else largestGo ps (cnt + 1) cur'
def largest (ps : List Param) : List Nat := largestGo ps 0 0

/-- STORAGE_ELEMENT_ALIGNMENT -/
def storageAl (ps : List Param) : Nat := (largest ps).foldl max 0

/-- `ParameterTraits<P>::trailing_alignment(offset, alignment)` ↦ (offset, alignment bracket, trailing alignment) -/
def trailingStep (p : Param) (offset alignment : Nat) : Nat × Nat × Nat :=
  match p.kind with
  | .plain =>
    let newOffset := if alignment < p.al then p.vb else alignUp offset p.al + p.vb
    let alignment' := max alignment p.al
    (newOffset, alignment', trailAl newOffset alignment')
  | _ =>
    let ao := alignUp offset p.al
    let alignment' := max alignment p.al
    let leading := max p.al (trailAl ao alignment')
    let t := trailAl p.vb leading
    (0, t, t)

def trailingGo : List Param → Nat → Nat → List Nat
  | [], _, _ => []
  | p :: ps, o, a => let r := trailingStep p o a; r.2.2 :: trailingGo ps r.1 r.2.1

/-- TRAILING_ALIGNMENTS -/
def trailings (ps : List Param) : List Nat := trailingGo ps 0 (storageAl ps)

/-- the run-time address walk of `emplace_at` / `load_element_at`: one `(start, end)` per parameter.
    `counts` = number of objects per parameter (1 for plain); `prev` = trailing-alignment claim for
    the address reached so far. -/
def placeGo : List Param → List Nat → List Nat → Nat → Nat → List (Nat × Nat)
  | p :: ps, c :: cs, t :: ts, prev, addr =>
    let s := alignIf (decide (prev < p.al)) p.al addr
    let e := s + p.vb * c
    (s, e) :: placeGo ps cs ts t e
  | _, _, _, _, _ => []

def place (ps : List Param) (counts : List Nat) (start : Nat) : List (Nat × Nat) :=
  placeGo ps counts (trailings ps) (storageAl ps) start

/-- first free address behind an element placed at `start` -/
def placeEnd (ps : List Param) (counts : List Nat) (start : Nat) : Nat :=
  ((place ps counts start).getLast?.map (·.2)).getD start

/-- `align_for_first_parameter` -/
def alignFirst (ps : List Param) (addr : Nat) : Nat :=
  alignIf (decide ((trailings ps).getLastD (storageAl ps) < storageAl ps)) (storageAl ps) addr

/-- `detail::trailing_padding<NeedsAlignment, NextAlignment>(offset, alignment_bracket)` -/
def trailingPadding (needs : Bool) (next offset bracket : Nat) : Nat :=
  if bracket < next then
    let known := if offset = 0 then bracket else trailAl offset bracket
    if known < next then next - known else 0
  else alignIf needs next offset - offset

structure ASM where
  offset : Nat
  size : Nat
  padding : Nat
  alignment : Nat
  deriving Repr, DecidableEq, Inhabited

/-- `aligned_size_in_memory<PreviousTrailingAlignment, NextAlignment>(offset, alignment, fixed_size)` -/
def sizeStep (p : Param) (prev next offset alignment fixed : Nat) : ASM :=
  match p.kind with
  | .varying =>
    let ao := if alignment < p.al then alignUp offset alignment + p.al - alignment
              else alignIf (decide (prev < p.al)) p.al offset
    let t := min alignment (trailAl p.vb (lowBit ao))
    ⟨0, ao - offset, (if t < next then next - t else 0), t⟩
  | k =>
    let vs := if k = .fixed then p.vb * fixed else p.vb
    let na := max alignment p.al
    if alignment < p.al then
      let ao := alignUp offset alignment + p.al - alignment
      ⟨vs, ao - offset + vs, trailingPadding (decide (trailAl p.vb p.al < next)) next vs na, na⟩
    else
      let ao := alignIf (decide (prev < p.al)) p.al offset
      let size := ao - offset + vs
      ⟨offset + size, size, trailingPadding (decide (trailAl p.vb p.al < next)) next (offset + size) na, na⟩

structure SzSt where
  offset : Nat
  alignment : Nat
  size : Nat
  padding : Nat
  deriving Repr, DecidableEq, Inhabited

/-- the fold of `calculate_element_size`; `fs` has one entry per parameter (used for FixedSize only),
    `ts` are the trailing alignments, `nexts` the `next_alignment<I>()` values -/
def szGo : List Param → List Nat → List Nat → List Nat → Nat → SzSt → SzSt
  | p :: ps, f :: fs, t :: ts, n :: ns, prev, st =>
    let r := sizeStep p prev n st.offset st.alignment f
    szGo ps fs ts ns t { offset := r.offset, alignment := r.alignment, size := st.size + r.size, padding := r.padding }
  | _, _, _, _, _, st => st

/-- `next_alignment<I>()` for every I -/
def nextAls (ps : List Param) : List Nat := (largest ps).tail ++ [storageAl ps]

structure ElemSize where
  size : Nat
  stride : Nat
  deriving Repr, DecidableEq, Inhabited

def elemSize (ps : List Param) (fs : List Nat) : ElemSize :=
  let stor := storageAl ps
  let st := szGo ps fs (trailings ps) (nextAls ps) stor { offset := 0, alignment := stor, size := 0, padding := 0 }
  ⟨st.size, st.size + st.padding⟩

/-- `calculate_needed_memory_size` -/
def needed (n b : Nat) (sz : ElemSize) : Nat :=
  b + sz.stride * n - (if n = 0 then 0 else sz.stride - sz.size)

/-- `allocate_memory`: number of storage units -/
def units (bytes stor : Nat) : Nat := bytes / stor + (if bytes % stor = 0 then 0 else 1)

/-- counts vector of an element: 1 for plain, the fixed size for FixedSize, the given size for VaryingSize -/
def countsOf : List Param → List Nat → List Nat → List Nat
  | p :: ps, f :: fs, v :: vs =>
    (match p.kind with | .plain => 1 | .fixed => f | .varying => v) :: countsOf ps fs vs
  | _, _, _ => []

/-- bytes of varying payload of an element -/
def payload : List Param → List Nat → Nat
  | p :: ps, c :: cs => (if p.kind = .varying then p.vb * c else 0) + payload ps cs
  | _, _ => 0

/-! ### consecutive runs (`calculate_consecutive_indices<Predicate, BreakAtPadding>`) -/

inductive RunEntry | skip | manual | upto (last : Nat)
  deriving DecidableEq, Repr, Inhabited

/-- state: (index of the current run start, table so far as an association index ↦ entry) -/
def runsGo (pred : Param → Bool) (brk : Bool) : List Param → Nat → Nat → (Nat → RunEntry) → (Nat → RunEntry)
  | [], _, _, tbl => tbl
  | p :: ps, i, index, tbl =>
    if pred p then
      let index' := if brk && decide (p.al > 1) then i else index
      runsGo pred brk ps (i + 1) index' (fun k => if k = index' then .upto i else tbl k)
    else
      runsGo pred brk ps (i + 1) (i + 1) (fun k => if k = i then .manual else tbl k)

def runs (pred : Param → Bool) (brk : Bool) (ps : List Param) : List RunEntry :=
  let tbl := runsGo pred brk ps 0 0 (fun _ => .skip)
  (List.range ps.length).map tbl

/-! ### list categories (`parameterListTraits.hpp`) -/

def contiguousCount (ps : List Param) : Nat := (ps.filter (·.kind ≠ .plain)).length
def fixedCount (ps : List Param) : Nat := (ps.filter (·.kind = .fixed)).length
def isMixed (ps : List Param) : Bool := fixedCount ps ≠ 0 && fixedCount ps ≠ contiguousCount ps
def isAllFixed (ps : List Param) : Bool := fixedCount ps ≠ 0 && fixedCount ps = contiguousCount ps
def isAllVarying (ps : List Param) : Bool := fixedCount ps = 0 && contiguousCount ps ≠ 0
def isAllPlain (ps : List Param) : Bool := contiguousCount ps = 0
def isFixedOrPlain (ps : List Param) : Bool := isAllFixed ps || isAllPlain ps

/-- well-formed lists: power-of-two alignments, non-empty objects, every VaryingSize directly
    preceded by a plain parameter (its count; `elementTraits.hpp:61`, `sizeGetter.hpp:55-58`) -/
def WfParam (p : Param) : Prop := IsPow2 p.al ∧ 0 < p.vb

def wfOrder : List Param → Bool
  | [] => true
  | p :: ps => p.kind != .varying && go p ps
where go : Param → List Param → Bool
  | _, [] => true
  | prev, p :: ps => (p.kind != .varying || prev.kind == .plain) && go p ps

end Cntgs
