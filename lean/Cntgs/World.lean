/-
M5 (continued) — several vectors over one allocator ledger: construction, reserve, copy/move
construction, copy/move assignment, swap, destruction, with allocation failure at a chosen point.

Source anchors: vector.hpp:127-159 (special members), 352-392 (construction, grow), 471-538 (steal,
move_assign, copy_construct_locator, copy_assign), 585-601 (destruction); detail/allocator.hpp;
detail/elementLocator.hpp:50-67 (locator constructors allocate the offset table);
detail/unmanagedVector.hpp:59-71.
-/
import Cntgs.Vector
import Cntgs.Alloc
namespace Cntgs

structure World where
  acfg : ACfg := {}
  heap : Heap := {}
  vecs : Nat → Option Vec := fun _ => none
  junk : Nat → Nat := fun k => 1000003 * (k + 1)
  threw : Bool := false        -- did the last operation end in bad_alloc

def World.set (w : World) (k : Nat) (v : Option Vec) : World :=
  { w with vecs := fun i => if i = k then v else w.vecs i }

def Vec.ptr (v : Vec) : Ptr := ⟨v.blk, v.units, v.alloc⟩
def Vec.setPtr (v : Vec) (p : Ptr) : Vec := { v with blk := p.blk, units := p.units, alloc := p.alloc }
def Vec.tableBytes (cap : Nat) : Nat := cap * 8

/-- allocate the offset table for `cap` elements (only lists with a VaryingSize parameter) -/
def allocTable (h : Heap) (fixedLoc : Bool) (alloc cap : Nat) : Heap × Option (Option Nat) :=
  if fixedLoc then (h, some none)
  else match h.allocate alloc (Vec.tableBytes cap) .table with
    | (h', some s) => (h', some (some s))
    | (h', none) => (h', none)

/-- a data block of `units` and (for lists with a VaryingSize parameter) an offset table for `cap` elements,
    both from allocator `alloc`; when the second allocation throws the first block is returned (RAII) -/
def allocPair (h : Heap) (c : ACfg) (fixedLoc : Bool) (units unit alloc cap : Nat) : Heap × Option (Ptr × Option Nat) :=
  match Ptr.make h units unit alloc with
  | (h1, none) => (h1, none)
  | (h1, some p) =>
    match allocTable h1 fixedLoc alloc cap with
    | (h2, none) => (p.dealloc h2 c unit, none)
    | (h2, some t) => (h2, some (p, t))

/-- locator of a vector that received the contents of `src` (relocating locator constructors) -/
def Loc.relocated (src : Loc) (junk : Nat → Nat) : Loc :=
  { src with slots := fun k => if k < src.size then src.slots k else junk k }

/-- `BasicContiguousVector(max_element_count, varying_size_bytes, fixed_sizes, allocator)` -/
def World.new (w : World) (k : Nat) (ps : List Param) (fs : List Nat) (cap bytes alloc : Nat) : World :=
  let v0 := Vec.new ps fs cap bytes w.junk
  match allocPair w.heap w.acfg v0.fixedLoc v0.units v0.S alloc cap with
  | (h1, none) => { w with heap := h1, threw := true }
  | (h1, some (p, t)) => { (w.set k (some { (v0.setPtr p) with tbl := t })) with heap := h1, threw := false }

/-- `BasicContiguousVector()`: no block, no table, capacity 0, fixed sizes 0; the stride locator knows the
    stride of an element whose FixedSize spans are empty -/
def Vec.default (ps : List Param) (junk : Nat → Nat) : Vec :=
  let fs := ps.map (fun _ => 0)
  { ps := ps, fs := fs, loc := { slots := junk, stride := (elemSize ps fs).stride } }

def World.newDefault (w : World) (k : Nat) (ps : List Param) : World :=
  { (w.set k (some (Vec.default ps w.junk))) with threw := false }

/-- `reserve` / `grow` -/
def World.reserve (w : World) (k n b : Nat) : World :=
  match w.vecs k with
  | none => w
  | some v =>
    if v.cap < n then
      let v' := v.reserve n b w.junk
      match allocPair w.heap w.acfg v.fixedLoc v'.units v.S v.alloc n with
      | (h1, none) => { w with heap := h1, threw := true }
      | (h1, some (p, t)) =>
        let r := v.ptr.reset h1 w.acfg v.S p
        { (w.set k (some { (v'.setPtr r.2.1) with tbl := t })) with heap := r.1, threw := false }
    else { w with threw := false }

/-- copy construction: `d` becomes a copy of `s` -/
def World.copy (w : World) (s d : Nat) : World :=
  match w.vecs s with
  | none => w
  | some vs =>
    match allocPair w.heap w.acfg vs.fixedLoc vs.units vs.S (socc vs.alloc) vs.cap with
    | (h1, none) => { w with heap := h1, threw := true }
    | (h1, some (p, t)) =>
      let vd : Vec := { (vs.setPtr p) with tbl := t, loc := vs.loc.relocated w.junk }
      { (w.set d (some vd)) with heap := h1, threw := false }

/-- the state a vector is left in by move construction / stealing -/
def Vec.movedFrom (v : Vec) : Vec :=
  { v with blk := none, units := 0, tbl := none, cap := 0, mem := [], loc := { v.loc with size := 0, count := 0, last := 0 } }

/-- move construction: `d` is constructed from `s` -/
def World.move (w : World) (s d : Nat) : World :=
  match w.vecs s with
  | none => w
  | some vs => { ((w.set d (some vs)).set s (some vs.movedFrom)) with threw := false }

/-- values left in the source by element-wise move construction -/
def movedValues (ps : List Param) (e : Elem) : Elem :=
  (List.zip ps e).map (fun (p, vals) => if p.ty.trivMoveCtor then vals else vals.map (fun _ => 0))

/-- copy assignment `d = s` -/
def World.copyAssign (w : World) (s d : Nat) : World :=
  if s = d then { w with threw := false } else
  match w.vecs s, w.vecs d with
  | some vs, some vd =>
    let vd1 := vd.clear
    match vd1.ptr.copyAssign w.heap w.acfg vd.S vs.ptr with
    | (h1, p1, false) => { (w.set d (some (vd1.setPtr p1))) with heap := h1, threw := true }
    | (h1, p1, true) =>
      match allocTable h1 vd.fixedLoc p1.alloc vs.cap with
      -- the offset table could not be allocated: an empty vector without capacity in the new block (`vector.hpp` copy_assign)
      | (h2, none) => { (w.set d (some { (vd1.setPtr p1) with cap := 0 })) with heap := h2, threw := true }
      | (h2, some t) =>
        let vd2 : Vec := { (vd1.setPtr p1) with tbl := t, cap := vs.cap, fs := vs.fs, mem := vs.mem, loc := vs.loc.relocated w.junk }
        { (w.set d (some vd2)) with heap := h2, threw := false }
  | _, _ => w

/-- move assignment `d = std::move(s)` -/
def World.moveAssign (w : World) (s d : Nat) : World :=
  if s = d then { w with threw := false } else
  match w.vecs s, w.vecs d with
  | some vs, some vd =>
    if w.acfg.ae || w.acfg.pocma || w.acfg.eq vd.alloc vs.alloc then
      -- steal
      let (h1, p, _) := vd.ptr.moveAssign w.heap w.acfg vd.S vs.ptr
      let vd' : Vec := { (vs.setPtr p) with poison := vd.poison || vs.poison }
      { ((w.set d (some vd')).set s (some vs.movedFrom)) with heap := h1, threw := false }
    else if vs.bytes > vd.bytes then
      match allocPair w.heap w.acfg vd.fixedLoc vs.bytes vd.S vd.alloc vs.cap with   -- `other.memory_consumption()` bytes passed as a unit count (vector.hpp:497)
      | (h1, none) => { w with heap := h1, threw := true }
      | (h2, some (np, t)) =>
        let r := vd.ptr.moveAssign h2 w.acfg vd.S np
        let vd' : Vec := { (vd.setPtr r.2.1) with tbl := t, cap := vs.cap, fs := vs.fs, mem := vs.mem, loc := vs.loc.relocated w.junk }
        let vs' : Vec := { vs with mem := vs.mem.map (fun r => { r with e := movedValues vs.ps r.e }) }
        { ((w.set d (some vd')).set s (some vs')) with heap := r.1, threw := false }
    else
      match allocTable w.heap vd.fixedLoc vd.alloc vs.cap with
      | (h2, none) => { w with heap := h2, threw := true }
      | (h2, some t) =>
        let vd' : Vec := { vd with tbl := t, cap := vs.cap, fs := vs.fs, mem := vs.mem, loc := vs.loc.relocated w.junk }
        let vs' : Vec := { vs with mem := vs.mem.map (fun r => { r with e := movedValues vs.ps r.e }) }
        { ((w.set d (some vd')).set s (some vs')) with heap := h2, threw := false }
  | _, _ => w

/-- `swap(a, b)` -/
def World.swap (w : World) (a b : Nat) : World :=
  if a = b then { w with threw := false } else
  match w.vecs a, w.vecs b with
  | some va, some vb =>
    let (pa, pb) := Ptr.swap w.acfg va.ptr vb.ptr
    { ((w.set a (some (vb.setPtr pa))).set b (some (va.setPtr pb))) with threw := false }
  | _, _ => w

/-- destructor -/
def World.destroy (w : World) (k : Nat) : World :=
  match w.vecs k with
  | none => w
  | some v => { (w.set k none) with heap := v.ptr.dealloc w.heap w.acfg v.S, threw := false }

/-- in-place operations on one vector -/
def World.upd (w : World) (k : Nat) (f : Vec → Vec) : World :=
  match w.vecs k with
  | none => w
  | some v => { (w.set k (some (f v))) with threw := false }

end Cntgs
