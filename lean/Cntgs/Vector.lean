/-
M2/M4/M5 — element locator bookkeeping, block contents at element granularity, and the vector
operations composed from them.

Source anchors:
  VLoc (var)     detail/elementLocator.hpp  BaseElementLocator / ElementLocator
  VLoc (fix)     detail/elementLocator.hpp  BaseAllFixedSizeElementLocator / AllFixedSizeElementLocator
  Mem            the data block: the elements that are alive in it, keyed by their start offset
  Vec.*          vector.hpp emplace_back, pop_back, erase, clear, reserve/grow, move_elements_forward, emplace_at

Addresses are byte offsets from the begin of the vector's own data block (the code keeps
`last_element_` as a pointer and re-bases it on relocation, `elementLocator.hpp:54`).
Uninitialised memory is an explicit input: the offset table starts as an arbitrary `junk` function.
-/
import Cntgs.Layout
namespace Cntgs

/-- one element: for every parameter the values of its objects -/
abbrev Elem := List (List Nat)

structure Rec where
  off : Nat
  sz : Nat
  e : Elem
  deriving DecidableEq, Repr, Inhabited

/-- the live elements inside one block -/
abbrev Mem := List Rec

/-- does the record share a byte with `[a, a+n)`? -/
def Rec.meets (r : Rec) (a n : Nat) : Bool := decide (r.off < a + n) && decide (a < r.off + r.sz) && decide (0 < n)
/-- does the record lie inside `[a, a+n)`? -/
def Rec.inside (r : Rec) (a n : Nat) : Bool := decide (a ≤ r.off) && decide (r.off + r.sz ≤ a + n)

def Mem.read (m : Mem) (off : Nat) : Option Elem := (m.find? (fun r => r.off == off)).map (·.e)
def Mem.hits (m : Mem) (a n : Nat) : Bool := m.any (·.meets a n)
/-- construct an element at `off` (whatever intersected the range is gone) -/
def Mem.write (m : Mem) (off sz : Nat) (e : Elem) : Mem := ⟨off, sz, e⟩ :: m.filter (fun r => !r.meets off sz)
/-- destroy the element that starts at `off` -/
def Mem.drop (m : Mem) (off : Nat) : Mem := m.filter (fun r => r.off != off)
/-- `memmove(block + tgt, block + src, cnt)` with `tgt ≤ src` -/
def Mem.move (m : Mem) (src cnt tgt : Nat) : Mem :=
  (m.filter (·.inside src cnt)).map (fun r => { r with off := r.off - (src - tgt) }) ++
    m.filter (fun r => !r.inside src cnt && !r.meets tgt cnt)
/-- would the memmove overwrite a live element that is not itself being moved? -/
def Mem.moveHits (m : Mem) (src cnt tgt : Nat) : Bool :=
  m.any (fun r => !r.inside src cnt && r.meets tgt cnt)

/-- the locator: both representations side by side; `fixedLoc` of the configuration selects one -/
structure Loc where
  -- ElementLocator (lists with a VaryingSize parameter)
  slots : Nat → Nat := fun _ => 0
  size : Nat := 0
  last : Nat := 0
  -- AllFixedSizeElementLocator
  count : Nat := 0
  stride : Nat := 0

structure Vec where
  ps : List Param
  fs : List Nat                 -- fixed sizes, one entry per parameter
  cap : Nat := 0               -- max_element_count_
  units : Nat := 0             -- memory_.size()
  blk : Option Nat := none     -- memory_.get(): serial number of the data block, none = nullptr
  tbl : Option Nat := none     -- element_addresses_.data(): serial number of the offset table
  alloc : Nat := 0             -- identity of the allocator held by memory_
  loc : Loc := {}
  mem : Mem := []
  /-- set when an operation overwrote a live element or relocated overlapping non-trivial objects
      (the model then no longer describes the real memory) -/
  poison : Bool := false

def Vec.fixedLoc (v : Vec) : Bool := isFixedOrPlain v.ps
def Vec.S (v : Vec) : Nat := storageAl v.ps
def Vec.trivialReloc (v : Vec) : Bool := v.ps.all (fun p => p.ty.trivMoveCtor && p.ty.trivDtor)
def Vec.bytes (v : Vec) : Nat := v.units * v.S

def Vec.size (v : Vec) : Nat := if v.fixedLoc then v.loc.count else v.loc.size
def Vec.addr (v : Vec) (i : Nat) : Nat := if v.fixedLoc then v.loc.stride * i else v.loc.slots i
def Vec.dataEnd (v : Vec) : Nat := if v.fixedLoc then v.loc.stride * v.loc.count else v.loc.last

/-- what `operator[]`, iteration and `get<I>` read: through the locator and the block -/
def Vec.get (v : Vec) (i : Nat) : Option Elem := v.mem.read (v.addr i)
def Vec.abs (v : Vec) : List (Option Elem) := (List.range v.size).map v.get

/-- counts of an element's value lists -/
def elemCounts (e : Elem) : List Nat := e.map List.length

/-- `calculate_new_memory_size` of the two locators -/
def Vec.newMemorySize (v : Vec) (n b : Nat) : Nat :=
  if v.fixedLoc then b + v.loc.stride * n else needed n b (elemSize v.ps v.fs)

/-- the public constructors (`vector.hpp:93-125`): lists without VaryingSize take no payload budget -/
def ctorBytes (ps : List Param) (bytes : Nat) : Nat := if isFixedOrPlain ps then 0 else bytes

/-- construction (`vector.hpp:359-367`) -/
def Vec.new (ps : List Param) (fs : List Nat) (cap bytes : Nat) (junk : Nat → Nat) : Vec :=
  let es := elemSize ps fs
  let S := storageAl ps
  { ps := ps, fs := fs, cap := cap, units := Cntgs.units (needed cap bytes es) S,
    loc := { slots := junk, size := 0, last := 0, count := 0, stride := es.stride }, mem := [] }

def Loc.setSlot (l : Loc) (i x : Nat) : Loc := { l with slots := fun k => if k = i then x else l.slots k }

/-- `emplace_back` (`elementLocator.hpp` both `emplace_back`s) -/
def Vec.emplaceBack (v : Vec) (e : Elem) : Vec :=
  let counts := elemCounts e
  if v.fixedLoc then
    let start := v.loc.stride * v.loc.count
    let fin := placeEnd v.ps counts start
    { v with loc := { v.loc with count := v.loc.count + 1 },
             poison := v.poison || v.mem.hits start (fin - start),
             mem := v.mem.write start (fin - start) e }
  else
    let start := alignFirst v.ps v.loc.last
    let fin := placeEnd v.ps counts start
    { v with loc := { (v.loc.setSlot v.loc.size start) with size := v.loc.size + 1, last := fin },
             poison := v.poison || v.mem.hits start (fin - start),
             mem := v.mem.write start (fin - start) e }

/-- `locator_->resize(new_size, memory_begin())` -/
def Loc.resize (l : Loc) (fixedLoc : Bool) (n : Nat) : Loc :=
  if fixedLoc then { l with count := n }
  else { l with last := (if n = 0 then 0 else if n < l.size then l.slots n else l.last), size := n }

def Vec.popBack (v : Vec) : Vec :=
  let n := v.size - 1
  { v with mem := v.mem.drop (v.addr n), loc := v.loc.resize v.fixedLoc n }

/-- drop the records of elements `[i, j)` (`destruct(first, last)`) -/
def Vec.destructRange (v : Vec) (i j : Nat) : Mem :=
  ((List.range (j - i)).map (· + i)).foldl (fun m k => m.drop (v.addr k)) v.mem

/-- trivially relocatable lists: `locator_->move_elements_forward(from, to, memory_begin())` -/
def Vec.moveForwardTrivial (v : Vec) (m : Mem) (src dst : Nat) : Vec :=
  if !v.fixedLoc && src == v.loc.size then { v with mem := m } else   -- guard in BaseElementLocator
  let s := v.addr src
  let t := v.addr dst
  let cnt := v.dataEnd - s
  let diff := s - t
  let m' := m.move s cnt t
  let hit := m.moveHits s cnt t
  if v.fixedLoc then { v with mem := m', poison := v.poison || hit }
  else
    let n := v.loc.size
    -- std::transform over [from, size) onto [to, …), then the slot that resize() will read
    let slots' : Nat → Nat := fun k =>
      if dst ≤ k ∧ k < dst + (n - src) then v.loc.slots (k + (src - dst)) - diff
      else if src ≠ dst ∧ k = n - (src - dst) then v.loc.last - diff
      else v.loc.slots k
    { v with mem := m', poison := v.poison || hit, loc := { v.loc with slots := slots' } }

/-- one step of the element-wise path: `emplace_at(i, (*this)[from])` then `destruct` of the source -/
def Vec.relocateOne (v : Vec) (i src : Nat) : Vec :=
  let s := v.addr src
  match v.mem.find? (fun r => r.off == s) with
  | none => { v with poison := true }
  | some r =>
    let t := v.addr i
    let fin := placeEnd v.ps (elemCounts r.e) t
    -- objects are move-constructed one by one into `[t, fin)` while the source objects are still alive
    let overlap := decide (t < s + r.sz) && decide (s < fin)
    let m1 := (v.mem.drop s)
    let hit := m1.hits t (fin - t)
    let m2 := m1.write t (fin - t) r.e
    let loc' := if v.fixedLoc then v.loc else v.loc.setSlot (i + 1) (alignFirst v.ps fin)
    { v with mem := m2, loc := loc', poison := v.poison || overlap || hit }

def Vec.moveForwardElementwise (v : Vec) (src dst : Nat) : Vec :=
  let n := v.size
  ((List.range (n - src)).foldl (fun (w : Vec) k => w.relocateOne (dst + k) (src + k)) v)

def Vec.moveForward (v : Vec) (src dst : Nat) : Vec :=
  if v.trivialReloc then v.moveForwardTrivial v.mem src dst else v.moveForwardElementwise src dst

/-- `erase(first, last)`; `erase(position)` is `eraseRange i (i+1)` up to the guard, see `Vec.erase` -/
def Vec.eraseRange (v : Vec) (i j : Nat) : Vec :=
  let n := v.size
  let v1 := { v with mem := v.destructRange i j }
  let v2 := if j < n ∧ i ≠ j then v1.moveForward j i else v1
  { v2 with loc := v2.loc.resize v2.fixedLoc (n - (j - i)) }

def Vec.erase (v : Vec) (i : Nat) : Vec :=
  let n := v.size
  let v1 := { v with mem := v.destructRange i (i + 1) }
  let v2 := v1.moveForward (i + 1) i
  { v2 with loc := v2.loc.resize v2.fixedLoc (n - 1) }

def Vec.clear (v : Vec) : Vec :=
  { v with mem := v.destructRange 0 v.size, loc := v.loc.resize v.fixedLoc 0 }

/-- `reserve` → `grow`: a new block; the elements keep their offsets (memcpy of `[begin, data_end)`,
    then element-wise construction in place for non-trivial types) -/
def Vec.reserve (v : Vec) (n b : Nat) (junk : Nat → Nat) : Vec :=
  if v.cap < n then
    let newUnits := Cntgs.units (v.newMemorySize n b) v.S
    let loc' := if v.fixedLoc then v.loc
                else { v.loc with slots := fun k => if k < v.loc.size then v.loc.slots k else junk k }
    { v with cap := n, units := newUnits, loc := loc' }
  else v

end Cntgs
