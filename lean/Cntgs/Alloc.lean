/-
M3 — allocator ledger and the owning pointer.

Source anchors:
  Heap.allocate/deallocate    std::allocator_traits<A>::allocate / deallocate as seen by a ledger allocator
  Ptr.*                       detail/allocator.hpp  AllocatorAwarePointer (ctor, copy/move ctor, both assignments,
                              reset, release, swap, destructor) — branches in the order written
  table allocation            detail/unmanagedVector.hpp reserve (never deallocated: known finding C07)

Allocators are identified by a number; `ACfg` carries the three propagation traits and
`is_always_equal`. `select_on_container_copy_construction` is `socc`.
-/
namespace Cntgs

structure ACfg where
  pocca : Bool := false
  pocma : Bool := false
  pocs : Bool := false
  ae : Bool := false
  deriving DecidableEq, Repr, Inhabited

def ACfg.eq (c : ACfg) (a b : Nat) : Bool := c.ae || a == b

/-- the harness allocator hands out `id + 1` on copy construction for ids ≥ 100 -/
def socc (a : Nat) : Nat := if a ≥ 100 then a + 1 else a

inductive BKind | data | table
  deriving DecidableEq, Repr, Inhabited

structure Blk where
  serial : Nat
  alloc : Nat
  bytes : Nat
  kind : BKind
  deriving DecidableEq, Repr, Inhabited

structure Heap where
  next : Nat := 1
  live : List Blk := []
  fail : Option Nat := none     -- `some k`: the k-th allocation from now throws
  errs : List String := []      -- violations of the ledger discipline
  nAlloc : Nat := 0
  nDealloc : Nat := 0
  deriving Repr, Inhabited

/-- `allocate`: a fresh block or a throw -/
def Heap.allocate (h : Heap) (alloc bytes : Nat) (kind : BKind) : Heap × Option Nat :=
  match h.fail with
  | some 0 => ({ h with fail := none }, none)
  | f =>
    let h' := { h with next := h.next + 1, live := ⟨h.next, alloc, bytes, kind⟩ :: h.live,
                        fail := f.map (· - 1), nAlloc := h.nAlloc + 1 }
    (h', some h.next)

def Heap.find (h : Heap) (serial : Nat) : Option Blk := h.live.find? (·.serial == serial)

/-- `deallocate(p, n)` through allocator `by` -/
def Heap.deallocate (h : Heap) (c : ACfg) (by_ serial bytes : Nat) : Heap :=
  match h.find serial with
  | none => { h with errs := h.errs ++ [s!"double-free blk={serial}"], nDealloc := h.nDealloc + 1 }
  | some b =>
    let e1 := if b.bytes ≠ bytes then [s!"free-with-wrong-size blk={serial}"] else []
    let e2 := if c.eq b.alloc by_ then [] else [s!"free-through-foreign-allocator blk={serial}"]
    { h with live := h.live.filter (·.serial != serial), errs := h.errs ++ e1 ++ e2, nDealloc := h.nDealloc + 1 }

/-- `AllocatorAwarePointer`: (ptr, size, allocator); `unit` = sizeof(value_type) -/
structure Ptr where
  blk : Option Nat := none
  units : Nat := 0
  alloc : Nat := 0
  deriving DecidableEq, Repr, Inhabited

/-- `deallocate()` member: only when non-null -/
def Ptr.dealloc (p : Ptr) (h : Heap) (c : ACfg) (unit : Nat) : Heap :=
  match p.blk with
  | some s => h.deallocate c p.alloc s (p.units * unit)
  | none => h

/-- sized constructor; `none` when the allocation throws -/
def Ptr.make (h : Heap) (units unit alloc : Nat) : Heap × Option Ptr :=
  match h.allocate alloc (units * unit) .data with
  | (h', some s) => (h', some ⟨some s, units, alloc⟩)
  | (h', none) => (h', none)

/-- copy constructor -/
def Ptr.copy (h : Heap) (unit : Nat) (o : Ptr) : Heap × Option Ptr := Ptr.make h o.units unit (socc o.alloc)

/-- move constructor: (new, moved-from source) -/
def Ptr.moveCtor (o : Ptr) : Ptr × Ptr := (⟨o.blk, o.units, o.alloc⟩, { o with blk := none, units := 0 })

/-- allocate a block of `units` from `newAlloc`, then free the old one (allocate first: it may throw) -/
def Ptr.reallocate (p : Ptr) (h : Heap) (c : ACfg) (unit newAlloc units : Nat) : Heap × Ptr × Bool :=
  match h.allocate newAlloc (units * unit) .data with
  | (h1, none) => (h1, p, false)
  | (h1, some s) => (p.dealloc h1 c unit, ⟨some s, units, newAlloc⟩, true)

/-- copy assignment `p = o` (p ≠ o); last component false when the allocation threw -/
def Ptr.copyAssign (p : Ptr) (h : Heap) (c : ACfg) (unit : Nat) (o : Ptr) : Heap × Ptr × Bool :=
  if c.pocca && !c.ae && !c.eq p.alloc o.alloc then
    p.reallocate h c unit o.alloc o.units
  else
    let p1 := if c.pocca then { p with alloc := o.alloc } else p
    if p1.units < o.units || p1.blk.isNone then p1.reallocate h c unit p1.alloc o.units
    else (h, p1, true)

/-- move assignment `p = std::move(o)` (p ≠ o): (heap, p, moved-from o) -/
def Ptr.moveAssign (p : Ptr) (h : Heap) (c : ACfg) (unit : Nat) (o : Ptr) : Heap × Ptr × Ptr :=
  let h1 := p.dealloc h c unit
  let a := if c.pocma then o.alloc else p.alloc
  (h1, ⟨o.blk, o.units, a⟩, { o with blk := none, units := 0 })

/-- `reset(std::move(o))` -/
def Ptr.reset (p : Ptr) (h : Heap) (c : ACfg) (unit : Nat) (o : Ptr) : Heap × Ptr × Ptr :=
  let h1 := p.dealloc h c unit
  (h1, ⟨o.blk, o.units, p.alloc⟩, { o with blk := none, units := 0 })

def Ptr.swap (c : ACfg) (a b : Ptr) : Ptr × Ptr :=
  if c.pocs then (⟨b.blk, b.units, b.alloc⟩, ⟨a.blk, a.units, a.alloc⟩)
  else (⟨b.blk, b.units, a.alloc⟩, ⟨a.blk, a.units, b.alloc⟩)

end Cntgs
