/-
Ownership over histories that mix vectors and standalone elements (C07, C08, C12, C17).

The elements of an `EWorld` are read as owners next to the vectors: `joint` puts vector `k` at name `2k` and element
`k` at name `2k+1` of one `World` (an element is seen as a vector that carries only its owning pointer).  `EOwn` is
the ownership invariant `WOwn` of that joint world: the ledger is well-formed, every vector and every element owns a
live block of its recorded size from an equal allocator, no block has two owners, every live data block has an owner,
and no ledger error (double free, wrong size, wrong allocator) has occurred.  Every operation of the interface — on
vectors and on elements, allocation failures included — preserves it.
-/
import Cntgs.OwnProofs
import Cntgs.RefIter
import Cntgs.ElemProofs
namespace Cntgs

/-- an element as an owner: only its owning pointer matters -/
def ElemSt.toVec (ps : List Param) (e : ElemSt) : Vec :=
  { ps := ps, fs := [], blk := e.ptr.blk, units := e.ptr.units, alloc := e.ptr.alloc }

theorem toVec_ptr (ps : List Param) (e : ElemSt) : (e.toVec ps).ptr = e.ptr := rfl
theorem toVec_S (ps : List Param) (e : ElemSt) : (e.toVec ps).S = storageAl ps := rfl

/-- vectors at even names, elements at odd names -/
def joint (ps : List Param) (ew : EWorld) : World :=
  { ew.w with vecs := fun i => if i % 2 = 0 then ew.w.vecs (i / 2) else (ew.elems (i / 2)).map (ElemSt.toVec ps) }

def EOwn (ps : List Param) (ew : EWorld) : Prop := WOwn (joint ps ew)

theorem joint_even (ps : List Param) (ew : EWorld) (k : Nat) : (joint ps ew).vecs (2 * k) = ew.w.vecs k := by
  simp only [joint]
  rw [if_pos (by omega)]
  congr 1; omega

theorem joint_odd (ps : List Param) (ew : EWorld) (k : Nat) :
    (joint ps ew).vecs (2 * k + 1) = (ew.elems k).map (ElemSt.toVec ps) := by
  simp only [joint]
  rw [if_neg (by omega)]
  congr 2; omega

theorem joint_heap (ps : List Param) (ew : EWorld) : (joint ps ew).heap = ew.w.heap := rfl
theorem joint_acfg (ps : List Param) (ew : EWorld) : (joint ps ew).acfg = ew.w.acfg := rfl

/-- setting an element is setting the odd name -/
theorem joint_setE (ps : List Param) (ew : EWorld) (k : Nat) (e : Option ElemSt) :
    (joint ps (ew.setE k e)).vecs = ((joint ps ew).set (2 * k + 1) (e.map (ElemSt.toVec ps))).vecs := by
  funext i
  simp only [joint, World.set, EWorld.setE]
  by_cases hi : i % 2 = 0
  · rw [if_pos hi, if_pos hi, if_neg (by omega)]
  · rw [if_neg hi, if_neg hi]
    by_cases hk : i / 2 = k
    · rw [if_pos hk, if_pos (by omega)]
    · rw [if_neg hk, if_neg (by omega)]

/-- an `EWorld` whose vectors are untouched and whose elements, heap and flag are given -/
theorem WOwn.of_joint {ps : List Param} {ew : EWorld} {W : World} (h : WOwn W) (hv : (joint ps ew).vecs = W.vecs)
    (hh : ew.w.heap = W.heap) (hc : ew.w.acfg = W.acfg) : EOwn ps ew :=
  h.congr (fun i => by rw [hv]) hh hc

theorem joint_setE2 (ps : List Param) (ew : EWorld) (a b : Nat) (x y : Option ElemSt) :
    (joint ps ((ew.setE b x).setE a y)).vecs =
      (((joint ps ew).set (2 * b + 1) (x.map (ElemSt.toVec ps))).set (2 * a + 1) (y.map (ElemSt.toVec ps))).vecs := by
  rw [joint_setE]
  funext i
  simp only [World.set]
  rw [joint_setE ps ew b x]
  rfl

theorem make_data_ok (h : Heap) (hw : h.WF) (c : ACfg) (units unit a : Nat) (h1 : Heap) (p : Ptr)
    (hm : Ptr.make h units unit a = (h1, some p)) :
    h1.WF ∧ h1.errs = h.errs ∧ (∀ x, x ∈ h.live → x ∈ h1.live) ∧
    (∀ x ∈ h1.live, x ∈ h.live ∨ x.serial = h.next ∨ x.kind = .table) ∧ Owns h1 c unit p ∧ p.blk = some h.next ∧
    p.units = units ∧ p.alloc = a := by
  obtain ⟨hown, hwf, herr, hal, hun, hblk⟩ := make_owns h hw c units unit a h1 p hm
  unfold Ptr.make at hm
  cases hal' : h.allocate a (units * unit) .data with
  | mk h2 r =>
    rw [hal'] at hm
    cases r with
    | none => simp at hm
    | some s =>
      simp only [Prod.mk.injEq, Option.some.injEq] at hm
      obtain ⟨rfl, _⟩ := hm
      obtain ⟨_, _, _, hsup, hnew, _⟩ := allocate_data_ok h hw a (units * unit) h2 s hal'
      exact ⟨hwf, herr, hsup, hnew, hown, hblk, hun, hal⟩

theorem make_none_ok (h : Heap) (hw : h.WF) (units unit a : Nat) (h1 : Heap) (hm : Ptr.make h units unit a = (h1, none)) :
    h1.live = h.live ∧ h1.errs = h.errs ∧ h1.WF := by
  simp only [Ptr.make] at hm
  split at hm <;> simp at hm
  rename_i hal
  obtain ⟨rfl⟩ := hm
  obtain ⟨e1, e2, e3⟩ := allocate_fail _ _ _ _ _ hal
  exact ⟨e1, e2, ⟨fun b hb => by rw [e3]; exact hw.1 b (by rw [← e1]; exact hb), by rw [e1]; exact hw.2⟩⟩

/-! ### element operations -/

theorem EOwn.destroy {ps : List Param} {ew : EWorld} (h : EOwn ps ew) (k : Nat) : EOwn ps (ew.elemDestroy ps k) := by
  unfold EWorld.elemDestroy
  cases he : ew.elems k with
  | none => exact h
  | some e =>
    simp only
    have hJ : (joint ps ew).vecs (2 * k + 1) = some (e.toVec ps) := by rw [joint_odd, he]; rfl
    have := WOwn.destroy h (2 * k + 1)
    unfold World.destroy at this
    rw [hJ] at this
    simp only at this
    exact this.of_joint (joint_setE ps ew k none) rfl rfl

theorem EOwn.move {ps : List Param} {ew : EWorld} (h : EOwn ps ew) (a b : Nat) (hb : ew.elems b = none) (hab : a ≠ b) :
    EOwn ps (ew.elemMove a b) := by
  unfold EWorld.elemMove
  cases he : ew.elems a with
  | none => exact h
  | some ea =>
    simp only [Ptr.moveCtor]
    have hJa : (joint ps ew).vecs (2 * a + 1) = some (ea.toVec ps) := by rw [joint_odd, he]; rfl
    have hJb : (joint ps ew).vecs (2 * b + 1) = none := by rw [joint_odd, hb]; rfl
    have := WOwn.move h (2 * a + 1) (2 * b + 1) hJb (by omega)
    unfold World.move at this
    rw [hJa] at this
    simp only at this
    have key := joint_setE2 ps ew a b (some { ea with ptr := ⟨ea.ptr.blk, ea.ptr.units, ea.ptr.alloc⟩ })
      (some { ea with ptr := { ea.ptr with blk := none, units := 0 }, val := [] })
    exact this.of_joint (key.trans rfl) rfl rfl

theorem EOwn.swap {ps : List Param} {ew : EWorld} (h : EOwn ps ew) (a b : Nat)
    (hpre : ∀ ea eb, ew.elems a = some ea → ew.elems b = some eb →
      ew.w.acfg.pocs = true ∨ ew.w.acfg.ae = true ∨ ea.ptr.alloc = eb.ptr.alloc) :
    EOwn ps (ew.elemSwap a b) := by
  unfold EWorld.elemSwap
  by_cases hab : a = b
  · simp only [hab, if_true]; exact WOwn.of_joint (ew := { ew with w := { ew.w with threw := false } }) h rfl rfl rfl
  · simp only [hab, if_false]
    cases hea : ew.elems a with
    | none => exact h
    | some ea =>
      cases heb : ew.elems b with
      | none => exact h
      | some eb =>
        simp only
        have hJa : (joint ps ew).vecs (2 * a + 1) = some (ea.toVec ps) := by rw [joint_odd, hea]; rfl
        have hJb : (joint ps ew).vecs (2 * b + 1) = some (eb.toVec ps) := by rw [joint_odd, heb]; rfl
        have := WOwn.swap h (2 * a + 1) (2 * b + 1) (by
          intro va vb hva hvb
          rw [hJa] at hva; rw [hJb] at hvb
          simp only [Option.some.injEq] at hva hvb
          subst hva; subst hvb
          exact hpre ea eb hea heb)
        unfold World.swap at this
        rw [if_neg (by omega), hJa, hJb] at this
        simp only at this
        have key := joint_setE2 ps ew b a (some { eb with ptr := (Ptr.swap ew.w.acfg ea.ptr eb.ptr).1 })
          (some { ea with ptr := (Ptr.swap ew.w.acfg ea.ptr eb.ptr).2 })
        exact this.of_joint (key.trans rfl) rfl rfl

/-- a new element in a free slot, in a block just allocated for it -/
theorem EOwn.install {ps : List Param} {ew : EWorld} (h : EOwn ps ew) (k : Nat) (hk : ew.elems k = none)
    (units al : Nat) (h1 : Heap) (p : Ptr) (hm : Ptr.make ew.w.heap units (storageAl ps) al = (h1, some p))
    (val : Elem) (bytes : Nat) (t : Bool) :
    EOwn ps { (ew.setE k (some ⟨val, bytes, p⟩)) with w := { ew.w with heap := h1, threw := t } } := by
  obtain ⟨hwf, herr, hsup, hnew, hown, hblk, _, _⟩ := make_data_ok ew.w.heap h.wf ew.w.acfg units (storageAl ps) al h1 p hm
  have hJk : (joint ps ew).vecs (2 * k + 1) = none := by rw [joint_odd, hk]; rfl
  have := WOwn.install h (2 * k + 1) hJk h1 hwf herr hsup hnew ((⟨val, bytes, p⟩ : ElemSt).toVec ps) hown hblk t
  exact this.of_joint (joint_setE ps ew k (some ⟨val, bytes, p⟩)) rfl rfl

/-- a throwing allocation -/
theorem EOwn.failed {ps : List Param} {ew : EWorld} (h : EOwn ps ew) (units al : Nat) (h1 : Heap)
    (hm : Ptr.make ew.w.heap units (storageAl ps) al = (h1, none)) :
    EOwn ps { ew with w := { ew.w with heap := h1, threw := true } } := by
  obtain ⟨e1, e2, e3⟩ := make_none_ok ew.w.heap h.wf units (storageAl ps) al h1 hm
  have : WOwn { (joint ps ew) with heap := h1, threw := true } := WOwn.of_same_live h e1 e2 e3 ⟨rfl, rfl⟩
  exact this.of_joint rfl rfl rfl

theorem EOwn.copy {ps : List Param} {ew : EWorld} (h : EOwn ps ew) (a b : Nat) (hb : ew.elems b = none) :
    EOwn ps (ew.elemCopy ps a b) := by
  unfold EWorld.elemCopy
  cases hea : ew.elems a with
  | none => exact h
  | some ea =>
    simp only [Ptr.copy]
    cases hm : Ptr.make ew.w.heap ea.ptr.units (storageAl ps) (socc ea.ptr.alloc) with
    | mk h1 r =>
      cases r with
      | none => exact h.failed _ _ h1 hm
      | some p => exact h.install b hb _ _ h1 p hm ea.val ea.bytes false

theorem EOwn.copyA {ps : List Param} {ew : EWorld} (h : EOwn ps ew) (a b al : Nat) (hb : ew.elems b = none) :
    EOwn ps (ew.elemCopyA ps a b al) := by
  unfold EWorld.elemCopyA
  cases hea : ew.elems a with
  | none => exact h
  | some ea =>
    simp only
    cases hm : Ptr.make ew.w.heap (units ea.bytes (storageAl ps)) (storageAl ps) al with
    | mk h1 r =>
      cases r with
      | none => exact h.failed _ _ h1 hm
      | some p => exact h.install b hb _ _ h1 p hm ea.val ea.bytes false

/-- only the owning pointers of the elements and the vectors matter -/
theorem EOwn.congr {ps : List Param} {ew ew' : EWorld} (h : EOwn ps ew) (hv : ew'.w.vecs = ew.w.vecs)
    (he : ∀ k, (ew'.elems k).map (ElemSt.toVec ps) = (ew.elems k).map (ElemSt.toVec ps))
    (hh : ew'.w.heap = ew.w.heap) (hc : ew'.w.acfg = ew.w.acfg) : EOwn ps ew' := by
  refine WOwn.of_joint h ?_ hh hc
  funext i
  simp only [joint]
  by_cases hi : i % 2 = 0
  · rw [if_pos hi, if_pos hi, hv]
  · rw [if_neg hi, if_neg hi, he]

theorem joint_setV (ps : List Param) (ew : EWorld) (s : Nat) (x : Option Vec) :
    (joint ps { ew with w := ew.w.set s x }).vecs = ((joint ps ew).set (2 * s) x).vecs := by
  funext i
  simp only [joint, World.set]
  by_cases hi : i % 2 = 0
  · rw [if_pos hi, if_pos hi]
    by_cases hk : i / 2 = s
    · rw [if_pos hk, if_pos (by omega)]
    · rw [if_neg hk, if_neg (by omega)]
  · rw [if_neg hi, if_neg hi, if_neg (by omega)]

theorem EOwn.fromRef {ps : List Param} {ew : EWorld} (h : EOwn ps ew) (k s i al : Nat) (mv : Bool) (hk : ew.elems k = none) :
    EOwn ps (ew.elemFromRef ps k s i al mv) := by
  unfold EWorld.elemFromRef
  cases hv : (ew.w.vecs s).bind (fun v => (v.get i).map (fun e => (v, e))) with
  | none => exact h
  | some ve =>
    obtain ⟨v, e⟩ := ve
    simp only
    have hvs : ew.w.vecs s = some v := by
      cases hs : ew.w.vecs s with
      | none => rw [hs] at hv; simp at hv
      | some v' =>
        rw [hs] at hv
        simp only [Option.bind_some, Option.map_eq_some_iff, Prod.mk.injEq] at hv
        obtain ⟨_, _, rfl, _⟩ := hv
        rfl
    cases hm : Ptr.make ew.w.heap (units (elemBytes ps e) (storageAl ps)) (storageAl ps) al with
    | mk h1 r =>
      cases r with
      | none => exact h.failed _ _ h1 hm
      | some p =>
        cases mv with
        | false => exact h.install k hk _ _ h1 p hm e (elemBytes ps e) false
        | true =>
          -- the referenced vector element is moved from: the vector keeps its block
          have hJs : (joint ps ew).vecs (2 * s) = some v := by rw [joint_even]; exact hvs
          have h1' : EOwn ps { ew with w := ew.w.set s (some (v.setElem i (movedValues ps e))) } :=
            (WOwn.set_same h (2 * s) v (v.setElem i (movedValues ps e)) hJs rfl rfl ew.w.threw).of_joint
              (joint_setV ps ew s _) rfl rfl
          exact h1'.install k hk _ _ h1 p hm e (elemBytes ps e) false

theorem EOwn.moveA {ps : List Param} {ew : EWorld} (h : EOwn ps ew) (a b al : Nat) (hb : ew.elems b = none) (hab : a ≠ b) :
    EOwn ps (ew.elemMoveA ps a b al) := by
  unfold EWorld.elemMoveA
  cases hea : ew.elems a with
  | none => exact h
  | some ea =>
    simp only
    by_cases hst : ew.w.acfg.eq al ea.ptr.alloc = true
    · simp only [hst, if_true]
      have := h.move a b hb hab
      unfold EWorld.elemMove at this
      rw [hea] at this
      exact this
    · simp only [hst, Bool.false_eq_true, if_false]
      cases hm : Ptr.make ew.w.heap ea.ptr.units (storageAl ps) al with
      | mk h1 r =>
        cases r with
        | none => exact h.failed _ _ h1 hm
        | some p =>
          simp only
          have h1' := h.install b hb _ _ h1 p hm ea.val ea.bytes false
          refine h1'.congr rfl ?_ rfl rfl
          intro k
          simp only [EWorld.setE]
          by_cases hka : k = a
          · subst hka
            simp only [if_true, hab, if_false, hea]
            rfl
          · simp only [hka, if_false]

theorem EOwn.assign {ps : List Param} {ew : EWorld} (h : EOwn ps ew) (a b : Nat) : EOwn ps (ew.elemAssign ps a b) := by
  unfold EWorld.elemAssign
  by_cases hab : a = b
  · simp only [hab, if_true]; exact h.congr rfl (fun _ => rfl) rfl rfl
  · simp only [hab, if_false]
    cases hea : ew.elems a with
    | none => exact h
    | some ea =>
      cases heb : ew.elems b with
      | none => exact h
      | some eb =>
        simp only
        have hJb : (joint ps ew).vecs (2 * b + 1) = some (eb.toVec ps) := by rw [joint_odd, heb]; rfl
        by_cases hf : (isFixedOrPlain ps && (!ew.w.acfg.pocca || ew.w.acfg.ae)) = true
        · simp only [hf, if_true]
          -- field-wise: the block stays, the allocator is kept or replaced by an equal one
          have hown : Owns ew.w.heap ew.w.acfg (storageAl ps)
              { eb.ptr with alloc := if ew.w.acfg.pocca then ea.ptr.alloc else eb.ptr.alloc } := by
            have hob : Owns ew.w.heap ew.w.acfg (storageAl ps) eb.ptr := h.owns (2 * b + 1) (eb.toVec ps) hJb
            by_cases hpc : ew.w.acfg.pocca = true
            · simp only [hpc, if_true]
              apply owns_propagate ew.w.heap ew.w.acfg (storageAl ps) eb.ptr ea.ptr.alloc hob
              simp only [hpc, Bool.not_true, Bool.false_or, Bool.and_eq_true] at hf
              simp [ACfg.eq, hf.2]
            · simp only [hpc, Bool.false_eq_true, if_false]; exact hob
          have := WOwn.set_owner h (2 * b + 1) (eb.toVec ps)
            (({ eb with val := (refAssign ps false ea.val eb.val).2,
                        ptr := { eb.ptr with alloc := if ew.w.acfg.pocca then ea.ptr.alloc else eb.ptr.alloc } } : ElemSt).toVec ps)
            hJb rfl hown false
          exact this.of_joint (joint_setE ps ew b _) rfl rfl
        · simp only [hf, Bool.false_eq_true, if_false]
          have hstep := fun t => WOwn.ptr_copyAssign h (2 * b + 1) (eb.toVec ps) hJb ea.ptr
            (fun p => ({ eb with ptr := p } : ElemSt).toVec ps) (fun p => ⟨rfl, rfl⟩) t
          cases hc : eb.ptr.copyAssign ew.w.heap ew.w.acfg (storageAl ps) ea.ptr with
          | mk h1 r =>
            obtain ⟨p1, ok⟩ := r
            have e1 : ((eb.toVec ps).ptr.copyAssign (joint ps ew).heap (joint ps ew).acfg (eb.toVec ps).S ea.ptr) = (h1, p1, ok) := hc
            cases ok with
            | false =>
              have := hstep true
              rw [e1] at this
              exact this.of_joint (joint_setE ps ew b (some { eb with ptr := p1 })) rfl rfl
            | true =>
              have := hstep false
              rw [e1] at this
              exact this.of_joint (joint_setE ps ew b (some ⟨ea.val, ea.bytes, p1⟩)) rfl rfl

theorem EOwn.moveAssign {ps : List Param} {ew : EWorld} (h : EOwn ps ew) (a b : Nat) : EOwn ps (ew.elemMoveAssign ps a b) := by
  unfold EWorld.elemMoveAssign
  by_cases hab : a = b
  · simp only [hab, if_true]; exact h.congr rfl (fun _ => rfl) rfl rfl
  · simp only [hab, if_false]
    cases hea : ew.elems a with
    | none => exact h
    | some ea =>
      cases heb : ew.elems b with
      | none => exact h
      | some eb =>
        simp only
        have hJa : (joint ps ew).vecs (2 * a + 1) = some (ea.toVec ps) := by rw [joint_odd, hea]; rfl
        have hJb : (joint ps ew).vecs (2 * b + 1) = some (eb.toVec ps) := by rw [joint_odd, heb]; rfl
        have hne : 2 * a + 1 ≠ 2 * b + 1 := by omega
        have hoa : Owns ew.w.heap ew.w.acfg (storageAl ps) ea.ptr := h.owns (2 * a + 1) (ea.toVec ps) hJa
        have hob : Owns ew.w.heap ew.w.acfg (storageAl ps) eb.ptr := h.owns (2 * b + 1) (eb.toVec ps) hJb
        -- setting an element to one with the same owning pointer changes nothing for the ownership
        have same2 : ∀ (x y : ElemSt) (t : Bool), x.ptr = eb.ptr → y.ptr = ea.ptr →
            EOwn ps { ((ew.setE b (some x)).setE a (some y)) with w := { ew.w with threw := t } } := by
          intro x y t hx hy
          refine h.congr rfl ?_ rfl rfl
          intro k
          simp only [EWorld.setE]
          by_cases hka : k = a
          · subst hka; simp only [if_true, hea, Option.map_some, ElemSt.toVec, hy]
          · simp only [hka, if_false]
            by_cases hkb : k = b
            · subst hkb; simp only [if_true, heb, Option.map_some, ElemSt.toVec, hx]
            · simp only [hkb, if_false]
        by_cases hst : (ew.w.acfg.ae || ew.w.acfg.pocma || ew.w.acfg.eq eb.ptr.alloc ea.ptr.alloc) = true
        · simp only [hst, if_true, Ptr.moveAssign]
          -- the target returns its block and takes over the source's
          have hown : Owns (eb.ptr.dealloc ew.w.heap ew.w.acfg (storageAl ps)) ew.w.acfg (storageAl ps)
              (⟨ea.ptr.blk, ea.ptr.units, if ew.w.acfg.pocma then ea.ptr.alloc else eb.ptr.alloc⟩ : Ptr) := by
            have hsrc : Owns (eb.ptr.dealloc ew.w.heap ew.w.acfg (storageAl ps)) ew.w.acfg (storageAl ps) ea.ptr := by
              refine owns_after_dealloc_other h.wf hob hoa ?_
              cases hbk : ea.ptr.blk with
              | none => exact Or.inl rfl
              | some s =>
                right
                intro e
                exact hne (h.excl (2 * a + 1) (2 * b + 1) (ea.toVec ps) (eb.toVec ps) s hJa hJb hbk e.symm)
            by_cases hpm : ew.w.acfg.pocma = true
            · simp only [hpm, if_true]; exact hsrc
            · simp only [hpm, Bool.false_eq_true, if_false]
              apply owns_propagate _ ew.w.acfg (storageAl ps) ea.ptr eb.ptr.alloc hsrc
              simp only [hpm, Bool.or_false, Bool.or_eq_true] at hst
              simp only [ACfg.eq, Bool.or_eq_true, beq_iff_eq] at hst ⊢
              rcases hst with hh | hh | hh
              · exact Or.inl hh
              · exact Or.inl hh
              · exact Or.inr hh.symm
          have := WOwn.transfer h (2 * a + 1) (2 * b + 1) (ea.toVec ps) (eb.toVec ps) hJa hJb hne
            (({ ea with ptr := ⟨ea.ptr.blk, ea.ptr.units, if ew.w.acfg.pocma then ea.ptr.alloc else eb.ptr.alloc⟩ } : ElemSt).toVec ps)
            (({ ea with ptr := { ea.ptr with blk := none, units := 0 }, val := [] } : ElemSt).toVec ps) rfl hown rfl false
          have key := joint_setE2 ps ew a b
            (some { ea with ptr := ⟨ea.ptr.blk, ea.ptr.units, if ew.w.acfg.pocma then ea.ptr.alloc else eb.ptr.alloc⟩ })
            (some { ea with ptr := { ea.ptr with blk := none, units := 0 }, val := [] })
          exact this.of_joint (key.trans rfl) rfl rfl
        · simp only [hst, Bool.false_eq_true, if_false]
          by_cases hfx : isFixedOrPlain ps = true
          · simp only [hfx, if_true]
            exact same2 _ _ false rfl rfl
          · simp only [hfx, Bool.false_eq_true, if_false]
            by_cases hbig : ea.bytes > eb.ptr.units * storageAl ps
            · simp only [hbig, if_true]
              cases hm : Ptr.make ew.w.heap ea.ptr.units (storageAl ps) eb.ptr.alloc with
              | mk h1 r =>
                cases r with
                | none => exact h.failed _ _ h1 hm
                | some np =>
                  simp only [Ptr.moveAssign]
                  obtain ⟨hwf, herr, hsup, hnew, hown, hblk, _, hal⟩ :=
                    make_data_ok ew.w.heap h.wf ew.w.acfg ea.ptr.units (storageAl ps) eb.ptr.alloc h1 np hm
                  have hp : (⟨np.blk, np.units, if ew.w.acfg.pocma then np.alloc else eb.ptr.alloc⟩ : Ptr) = np := by
                    cases np with
                    | mk nb nu na =>
                      simp only at hal
                      subst hal
                      simp
                  rw [hp]
                  have := WOwn.replace h (2 * b + 1) (eb.toVec ps) hJb h1 hwf herr hsup hnew
                    ((⟨ea.val, ea.bytes, np⟩ : ElemSt).toVec ps) hown hblk false
                  -- the source keeps its block
                  have h1' : EOwn ps { (ew.setE b (some ⟨ea.val, ea.bytes, np⟩)) with
                      w := { ew.w with heap := eb.ptr.dealloc h1 ew.w.acfg (storageAl ps), threw := false } } :=
                    this.of_joint (joint_setE ps ew b (some ⟨ea.val, ea.bytes, np⟩)) rfl rfl
                  refine h1'.congr rfl ?_ rfl rfl
                  intro k
                  simp only [EWorld.setE]
                  by_cases hka : k = a
                  · subst hka
                    simp only [if_true, hab, if_false, hea]
                    rfl
                  · simp only [hka, if_false]
            · simp only [hbig, if_false]
              exact same2 _ _ false rfl rfl

/-! ### vector operations in a world that also holds elements -/

theorem even_name_eq (i a : Nat) (hi : i % 2 = 0) : (i = 2 * a) = (i / 2 = a) := by
  apply propext; constructor
  · intro h; omega
  · intro h; omega

theorem odd_name_ne (i a : Nat) (hi : ¬ i % 2 = 0) : (i = 2 * a) = False := by
  apply propext; constructor
  · intro h; omega
  · intro h; exact absurd h (by simp)

theorem joint_setV2 (ps : List Param) (ew : EWorld) (a b : Nat) (x y : Option Vec) :
    (joint ps { ew with w := (ew.w.set b x).set a y }).vecs = (((joint ps ew).set (2 * b) x).set (2 * a) y).vecs := by
  funext i
  simp only [joint, World.set]
  by_cases hi : i % 2 = 0
  · simp only [hi, ↓reduceIte, even_name_eq i a hi, even_name_eq i b hi]
  · have e3 : (i % 2 = 0) = False := by apply propext; simp [hi]
    simp only [odd_name_ne i a hi, odd_name_ne i b hi, e3, if_false]

/-- closes `vecs-equation ∧ heap-equation ∧ acfg-equation` once the operation has been evaluated on both sides -/
macro "fin3 " t:term : tactic =>
  `(tactic| first
    | exact ⟨$t, rfl, rfl⟩
    | exact ⟨$t, trivial, trivial⟩
    | exact ⟨$t, rfl, trivial⟩
    | exact ⟨$t, trivial, rfl⟩
    | exact $t
    | (simp only; first | exact ⟨$t, trivial, trivial⟩ | exact ⟨$t, rfl, rfl⟩ | exact $t))

theorem joint_junk (ps : List Param) (ew : EWorld) : (joint ps ew).junk = ew.w.junk := rfl

/-- the vector names of an operation, doubled -/
def OOp.ren : OOp → OOp
  | .new k ps fs cap bytes alloc => .new (2 * k) ps fs cap bytes alloc
  | .inplace k op => .inplace (2 * k) op
  | .reserve k n b => .reserve (2 * k) n b
  | .copy s d => .copy (2 * s) (2 * d)
  | .move s d => .move (2 * s) (2 * d)
  | .copyAssign s d => .copyAssign (2 * s) (2 * d)
  | .moveAssign s d => .moveAssign (2 * s) (2 * d)
  | .swap a b => .swap (2 * a) (2 * b)
  | .destroy k => .destroy (2 * k)

/-- a vector operation on the world of an `EWorld` is the renamed operation on the joint world -/
theorem joint_vec_op (ps : List Param) (ew : EWorld) (op : OOp) :
    (joint ps { ew with w := op.apply ew.w }).vecs = (op.ren.apply (joint ps ew)).vecs ∧
    (op.apply ew.w).heap = (op.ren.apply (joint ps ew)).heap ∧ (op.apply ew.w).acfg = (op.ren.apply (joint ps ew)).acfg := by
  cases op with
  | new k ps' fs cap bytes alloc =>
    simp only [OOp.apply, OOp.ren, World.new, joint_heap, joint_acfg, joint_junk]
    show _ ∧ _ ∧ _
    cases allocPair ew.w.heap ew.w.acfg (Vec.new ps' fs cap bytes ew.w.junk).fixedLoc (Vec.new ps' fs cap bytes ew.w.junk).units
        (Vec.new ps' fs cap bytes ew.w.junk).S alloc cap with
    | mk h1 r =>
      cases r with
      | none => fin3 (rfl)
      | some pt => fin3 (joint_setV ps ew k _)
  | inplace k vop =>
    simp only [OOp.apply, OOp.ren, World.upd, joint_even, joint_heap, joint_acfg, joint_junk]
    cases ew.w.vecs k with
    | none => fin3 (rfl)
    | some v => fin3 (joint_setV ps ew k _)
  | reserve k n b =>
    simp only [OOp.apply, OOp.ren, World.reserve, joint_even, joint_heap, joint_acfg, joint_junk]
    cases ew.w.vecs k with
    | none => fin3 (rfl)
    | some v =>
      simp only
      by_cases hc : v.cap < n
      · simp only [hc, if_true]
        show _ ∧ _ ∧ _
        cases allocPair ew.w.heap ew.w.acfg v.fixedLoc (v.reserve n b ew.w.junk).units v.S v.alloc n with
        | mk h1 r =>
          cases r with
          | none => fin3 (rfl)
          | some pt => fin3 (joint_setV ps ew k _)
      · simp only [hc, if_false]; fin3 (rfl)
  | copy s d =>
    simp only [OOp.apply, OOp.ren, World.copy, joint_even, joint_heap, joint_acfg, joint_junk]
    cases ew.w.vecs s with
    | none => fin3 (rfl)
    | some vs =>
      simp only
      show _ ∧ _ ∧ _
      cases allocPair ew.w.heap ew.w.acfg vs.fixedLoc vs.units vs.S (socc vs.alloc) vs.cap with
      | mk h1 r =>
        cases r with
        | none => fin3 (rfl)
        | some pt => fin3 (joint_setV ps ew d _)
  | move s d =>
    simp only [OOp.apply, OOp.ren, World.move, joint_even, joint_heap, joint_acfg, joint_junk]
    cases ew.w.vecs s with
    | none => fin3 (rfl)
    | some vs => fin3 (joint_setV2 ps ew s d _ _)
  | destroy k =>
    simp only [OOp.apply, OOp.ren, World.destroy, joint_even, joint_heap, joint_acfg, joint_junk]
    cases ew.w.vecs k with
    | none => fin3 (rfl)
    | some v => fin3 (joint_setV ps ew k _)
  | swap a b =>
    simp only [OOp.apply, OOp.ren, World.swap, joint_even, joint_heap, joint_acfg, joint_junk]
    by_cases hab : a = b
    · have : 2 * a = 2 * b := by omega
      simp only [hab, if_true]; fin3 (rfl)
    · have : ¬ (2 * a = 2 * b) := by omega
      simp only [hab, this, if_false]
      cases ew.w.vecs a with
      | none => fin3 (rfl)
      | some va =>
        cases ew.w.vecs b with
        | none => fin3 (rfl)
        | some vb => fin3 (joint_setV2 ps ew b a _ _)
  | copyAssign s d =>
    simp only [OOp.apply, OOp.ren, World.copyAssign, joint_even, joint_heap, joint_acfg, joint_junk]
    by_cases hsd : s = d
    · simp only [hsd, if_true]; fin3 (rfl)
    · have : ¬ (2 * s = 2 * d) := by omega
      simp only [hsd, this, if_false]
      cases ew.w.vecs s with
      | none => fin3 (rfl)
      | some vs =>
        cases ew.w.vecs d with
        | none => fin3 (rfl)
        | some vd =>
          simp only
          show _ ∧ _ ∧ _
          cases vd.clear.ptr.copyAssign ew.w.heap ew.w.acfg vd.S vs.ptr with
          | mk h1 r =>
            obtain ⟨p1, ok⟩ := r
            cases ok with
            | false => fin3 (joint_setV ps ew d _)
            | true =>
              simp only
              cases allocTable h1 vd.fixedLoc p1.alloc vs.cap with
              | mk h2 t =>
                cases t with
                | none => fin3 (joint_setV ps ew d _)
                | some t' => fin3 (joint_setV ps ew d _)
  | moveAssign s d =>
    simp only [OOp.apply, OOp.ren, World.moveAssign, joint_even, joint_heap, joint_acfg, joint_junk]
    by_cases hsd : s = d
    · simp only [hsd, if_true]; fin3 (rfl)
    · have : ¬ (2 * s = 2 * d) := by omega
      simp only [hsd, this, if_false]
      cases ew.w.vecs s with
      | none => fin3 (rfl)
      | some vs =>
        cases ew.w.vecs d with
        | none => fin3 (rfl)
        | some vd =>
          simp only
          show _ ∧ _ ∧ _
          by_cases hst : (ew.w.acfg.ae || ew.w.acfg.pocma || ew.w.acfg.eq vd.alloc vs.alloc) = true
          · simp only [hst, if_true]
            fin3 (joint_setV2 ps ew s d _ _)
          · simp only [hst, Bool.false_eq_true, if_false]
            by_cases hb : vs.bytes > vd.bytes
            · simp only [hb, if_true]
              cases allocPair ew.w.heap ew.w.acfg vd.fixedLoc vs.bytes vd.S vd.alloc vs.cap with
              | mk h1 r =>
                cases r with
                | none => fin3 (rfl)
                | some pt => fin3 (joint_setV2 ps ew s d _ _)
            · simp only [hb, if_false]
              cases allocTable ew.w.heap vd.fixedLoc vd.alloc vs.cap with
              | mk h1 r =>
                cases r with
                | none => fin3 (rfl)
                | some t => fin3 (joint_setV2 ps ew s d _ _)

theorem ren_pre (ps : List Param) (ew : EWorld) (op : OOp) (h : op.Pre ew.w) : op.ren.Pre (joint ps ew) := by
  cases op with
  | new k ps' fs cap bytes alloc => simp only [OOp.ren, OOp.Pre, joint_even]; exact h
  | inplace k vop => exact h
  | reserve k n b => trivial
  | copy s d => simp only [OOp.ren, OOp.Pre, joint_even]; exact h
  | move s d =>
    simp only [OOp.ren, OOp.Pre, joint_even]
    exact ⟨h.1, by have := h.2; omega⟩
  | copyAssign s d => trivial
  | moveAssign s d => trivial
  | swap a b =>
    simp only [OOp.ren, OOp.Pre, joint_even, joint_acfg]
    exact h
  | destroy k => trivial

/-- a vector operation in a world that also holds elements -/
theorem EOwn.vecOp {ps : List Param} {ew : EWorld} (h : EOwn ps ew) (op : OOp) (hpre : op.Pre ew.w) :
    EOwn ps { ew with w := op.apply ew.w } := by
  obtain ⟨hv, hh, hc⟩ := joint_vec_op ps ew op
  exact (WOwn.step h op.ren (ren_pre ps ew op hpre)).of_joint hv hh hc

/-! ### histories that mix vectors and elements -/

/-- an operation of the interface: on vectors or on standalone elements -/
inductive JOp
  | vec (op : OOp)
  | elem (op : EOp)

def JOp.apply (ps : List Param) (ew : EWorld) : JOp → EWorld
  | .vec op => { ew with w := op.apply ew.w }
  | .elem op => op.apply ps ew

/-- what the interface demands of its caller as far as ownership goes: constructions go to free names, `swap` is called
    with propagating or equal allocators -/
def JOp.Pre (ew : EWorld) : JOp → Prop
  | .vec op => op.Pre ew.w
  | .elem (.fromRef k _ _ _ _) => ew.elems k = none
  | .elem (.copy _ b) => ew.elems b = none
  | .elem (.copyA _ b _) => ew.elems b = none
  | .elem (.move _ b) => ew.elems b = none
  | .elem (.moveA _ b _) => ew.elems b = none
  | .elem (.swap a b) => ∀ ea eb, ew.elems a = some ea → ew.elems b = some eb →
      ew.w.acfg.pocs = true ∨ ew.w.acfg.ae = true ∨ ea.ptr.alloc = eb.ptr.alloc
  | .elem _ => True

theorem EOwn.step {ps : List Param} {ew : EWorld} (h : EOwn ps ew) (op : JOp) (hpre : op.Pre ew) : EOwn ps (op.apply ps ew) := by
  cases op with
  | vec op => exact h.vecOp op hpre
  | elem op =>
    cases op with
    | fromRef k s i al mv => exact h.fromRef k s i al mv hpre
    | copy a b => exact h.copy a b hpre
    | copyA a b al => exact h.copyA a b al hpre
    | move a b =>
      by_cases hab : a = b
      · have hb : ew.elems b = none := hpre
        simp only [JOp.apply, EOp.apply, EWorld.elemMove, hab, hb]; exact h
      · exact h.move a b hpre hab
    | moveA a b al =>
      by_cases hab : a = b
      · have hb : ew.elems b = none := hpre
        simp only [JOp.apply, EOp.apply, EWorld.elemMoveA, hab, hb]; exact h
      · exact h.moveA a b al hpre hab
    | assign a b => exact h.assign a b
    | moveAssign a b => exact h.moveAssign a b
    | swap a b => exact h.swap a b hpre
    | destroy k => exact h.destroy k

def JValid (ps : List Param) : EWorld → List JOp → Prop
  | _, [] => True
  | ew, op :: ops => op.Pre ew ∧ JValid ps (op.apply ps ew) ops

/-- **every history over vectors and elements, allocation failures included**: the ownership discipline holds in every
    reachable state -/
theorem EOwn.history {ps : List Param} {ew : EWorld} (h : EOwn ps ew) (ops : List JOp) (hv : JValid ps ew ops) :
    EOwn ps (ops.foldl (JOp.apply ps) ew) := by
  induction ops generalizing ew with
  | nil => exact h
  | cons op ops ih => exact ih (h.step op hv.1) hv.2

theorem EOwn.init (ps : List Param) (c : ACfg) : EOwn ps ({ w := { acfg := c } } : EWorld) := by
  refine ⟨⟨fun _ hb => absurd hb (by simp [joint]), by simp [joint]⟩, ?_, ?_, fun _ hb => absurd hb (by simp [joint]), rfl⟩
  · intro k v hk
    simp only [joint] at hk
    split at hk <;> simp at hk
  · intro k1 k2 v1 v2 s hk
    simp only [joint] at hk
    split at hk <;> simp at hk

/-- what `EOwn` says in terms of the `EWorld` itself -/
theorem EOwn.unfold {ps : List Param} {ew : EWorld} (h : EOwn ps ew) :
    ew.w.heap.errs = [] ∧ ew.w.heap.WF ∧
    (∀ k v, ew.w.vecs k = some v → Owns ew.w.heap ew.w.acfg v.S v.ptr) ∧
    (∀ k e, ew.elems k = some e → Owns ew.w.heap ew.w.acfg (storageAl ps) e.ptr) ∧
    (∀ b ∈ ew.w.heap.live, b.kind = .data →
      (∃ k v, ew.w.vecs k = some v ∧ v.blk = some b.serial) ∨ (∃ k e, ew.elems k = some e ∧ e.ptr.blk = some b.serial)) ∧
    (∀ k v j e s, ew.w.vecs k = some v → ew.elems j = some e → v.blk = some s → e.ptr.blk ≠ some s) ∧
    (∀ j1 j2 e1 e2 s, ew.elems j1 = some e1 → ew.elems j2 = some e2 → e1.ptr.blk = some s → e2.ptr.blk = some s → j1 = j2) := by
  refine ⟨h.noerr, h.wf, ?_, ?_, ?_, ?_, ?_⟩
  · intro k v hk
    exact h.owns (2 * k) v (by rw [joint_even]; exact hk)
  · intro k e hk
    exact h.owns (2 * k + 1) (e.toVec ps) (by rw [joint_odd, hk]; rfl)
  · intro b hb hkind
    obtain ⟨i, x, hx, hbx⟩ := h.noleak b hb hkind
    simp only [joint] at hx
    by_cases hi : i % 2 = 0
    · rw [if_pos hi] at hx; exact Or.inl ⟨i / 2, x, hx, hbx⟩
    · rw [if_neg hi] at hx
      cases he : ew.elems (i / 2) with
      | none => rw [he] at hx; simp at hx
      | some e =>
        rw [he] at hx
        simp only [Option.map_some, Option.some.injEq] at hx
        subst hx
        exact Or.inr ⟨i / 2, e, he, hbx⟩
  · intro k v j e s hk hj hv he
    have := h.excl (2 * k) (2 * j + 1) v (e.toVec ps) s (by rw [joint_even]; exact hk) (by rw [joint_odd, hj]; rfl) hv he
    omega
  · intro j1 j2 e1 e2 s h1 h2 hb1 hb2
    have := h.excl (2 * j1 + 1) (2 * j2 + 1) (e1.toVec ps) (e2.toVec ps) s (by rw [joint_odd, h1]; rfl) (by rw [joint_odd, h2]; rfl) hb1 hb2
    omega

end Cntgs
