/-
Helper lemmas for the layout properties (C03, C04, C05, C02): the run-time address walk of the code
(`placeGo`, steered by the compile-time trailing-alignment claims) coincides with the plain greedy
placement `greedyGo` for every well-formed list, all counts and every storage-aligned start.
-/
import Cntgs.Layout
namespace Cntgs

/-- the specification-level placement: every parameter starts at the lowest suitably aligned address -/
def greedyGo : List Param → List Nat → Nat → List (Nat × Nat)
  | p :: ps, c :: cs, addr =>
    let s := alignUp addr p.al
    (s, s + p.vb * c) :: greedyGo ps cs (s + p.vb * c)
  | _, _, _ => []

def CountsOK : List Param → List Nat → Prop
  | [], [] => True
  | p :: ps, c :: cs => (p.kind = .plain → c = 1) ∧ CountsOK ps cs
  | _, _ => False

structure StepOK (p : Param) (c prev addr o a : Nat) : Prop where
  start_eq : alignIf (decide (prev < p.al)) p.al addr = alignUp addr p.al
  pow_a' : IsPow2 (trailingStep p o a).2.1
  pow_t : IsPow2 (trailingStep p o a).2.2
  t_le : (trailingStep p o a).2.2 ≤ (trailingStep p o a).2.1
  t_dvd : (trailingStep p o a).2.2 ∣ alignUp addr p.al + p.vb * c
  known : ∃ m, alignUp addr p.al + p.vb * c = m * (trailingStep p o a).2.1 + (trailingStep p o a).1

/-- leading alignment claim of a span (fixed / varying) -/
theorem leading_dvd {m a ao al : Nat} (ha : IsPow2 a) (hal : IsPow2 al) (hala : al ∣ m * a + ao) :
    IsPow2 (max al (trailAl ao a)) ∧ max al (trailAl ao a) ∣ m * a + ao := by
  by_cases h0 : ao = 0
  · subst h0
    have : trailAl 0 a = 0 := by simp [trailAl, lowBit_zero]
    rw [this, Nat.max_eq_left (Nat.zero_le _)]
    exact ⟨hal, hala⟩
  · have ht := @trailAl_dvd m a ao ha (by omega)
    rcases Nat.le_total al (trailAl ao a) with h | h
    · rw [Nat.max_eq_right h]; exact ⟨ht.1, ht.2.1⟩
    · rw [Nat.max_eq_left h]; exact ⟨hal, hala⟩

theorem span_ok (p : Param) (c prev addr o a : Nat)
    (hal : IsPow2 p.al) (hvb : 0 < p.vb) (hk : p.kind ≠ .plain)
    (ha : IsPow2 a) (hprev : IsPow2 prev) (_hle : prev ≤ a) (hd : prev ∣ addr)
    (hkn : ∃ m, addr = m * a + o) : StepOK p c prev addr o a := by
  obtain ⟨m, rfl⟩ := hkn
  have hs := alignIf_eq hprev hal hd
  have hsd : p.al ∣ alignUp (m * a + o) p.al := alignUp_dvd _ _
  have hts : trailingStep p o a =
      (0, trailAl p.vb (max p.al (trailAl (alignUp o p.al) (max a p.al))),
          trailAl p.vb (max p.al (trailAl (alignUp o p.al) (max a p.al)))) := by
    unfold trailingStep
    cases hkind : p.kind <;> simp_all
  obtain ⟨hlp, hld⟩ := lowBit_spec p.vb hvb
  have hlead : IsPow2 (max p.al (trailAl (alignUp o p.al) (max a p.al))) ∧
      max p.al (trailAl (alignUp o p.al) (max a p.al)) ∣ alignUp (m * a + o) p.al := by
    by_cases hlt : a < p.al
    · have hmax : max a p.al = p.al := Nat.max_eq_right (by omega)
      rw [hmax]
      have hle' : trailAl (alignUp o p.al) p.al ≤ p.al := Nat.min_le_right _ _
      rw [Nat.max_eq_left hle']
      exact ⟨hal, hsd⟩
    · have hmax : max a p.al = a := Nat.max_eq_left (by omega)
      have hdvd : p.al ∣ a := hal.dvd_of_le ha (by omega)
      have hau := alignUp_add_mul m a o p.al hal.pos hdvd
      rw [hmax, hau]
      exact leading_dvd ha hal (hau ▸ hsd)
  have hT : IsPow2 (trailAl p.vb (max p.al (trailAl (alignUp o p.al) (max a p.al)))) := pow2_min hlp hlead.1
  have hTd : trailAl p.vb (max p.al (trailAl (alignUp o p.al) (max a p.al)))
      ∣ alignUp (m * a + o) p.al + p.vb * c := by
    apply Nat.dvd_add
    · exact Nat.dvd_trans (dvd_min_right hlp hlead.1) hlead.2
    · exact Nat.dvd_trans (Nat.dvd_trans (dvd_min_left hlp hlead.1) hld) (Nat.dvd_mul_right _ _)
  refine ⟨hs, ?_, ?_, ?_, ?_, ?_⟩ <;> simp only [hts]
  · exact hT
  · exact hT
  · exact Nat.le_refl _
  · exact hTd
  · obtain ⟨q, hq⟩ := hTd
    exact ⟨q, by rw [hq, Nat.mul_comm]; simp⟩

theorem step_ok (p : Param) (c prev addr o a : Nat)
    (hal : IsPow2 p.al) (hvb : 0 < p.vb) (hc : p.kind = .plain → c = 1)
    (ha : IsPow2 a) (hprev : IsPow2 prev) (hle : prev ≤ a) (hd : prev ∣ addr)
    (hk : ∃ m, addr = m * a + o) : StepOK p c prev addr o a := by
  obtain ⟨m, rfl⟩ := hk
  have hs := alignIf_eq hprev hal hd
  have hsd : p.al ∣ alignUp (m * a + o) p.al := alignUp_dvd _ _
  cases hkind : p.kind with
  | plain =>
    have hc1 := hc hkind; subst hc1
    by_cases hlt : a < p.al
    · have hmax : max a p.al = p.al := Nat.max_eq_right (by omega)
      obtain ⟨q, hq⟩ := hsd
      have ht := @trailAl_dvd q p.al p.vb hal hvb
      refine ⟨hs, ?_, ?_, ?_, ?_, ?_⟩ <;> simp only [trailingStep, hkind, hlt, if_true, hmax, Nat.mul_one]
      · exact hal
      · exact ht.1
      · exact ht.2.2
      · rw [hq, Nat.mul_comm]; exact ht.2.1
      · exact ⟨q, by rw [hq, Nat.mul_comm]⟩
    · have hmax : max a p.al = a := Nat.max_eq_left (by omega)
      have hdvd : p.al ∣ a := hal.dvd_of_le ha (by omega)
      have hau := alignUp_add_mul m a o p.al hal.pos hdvd
      have hpos : 0 < alignUp o p.al + p.vb := by omega
      have ht := @trailAl_dvd m a (alignUp o p.al + p.vb) ha hpos
      refine ⟨hs, ?_, ?_, ?_, ?_, ?_⟩ <;> simp only [trailingStep, hkind, hlt, if_false, hmax, Nat.mul_one]
      · exact ha
      · exact ht.1
      · exact ht.2.2
      · rw [hau, Nat.add_assoc]; exact ht.2.1
      · exact ⟨m, by rw [hau, Nat.add_assoc]⟩
  | fixed => exact span_ok p c prev (m * a + o) o a hal hvb (by simp [hkind]) ha hprev hle hd ⟨m, rfl⟩
  | varying => exact span_ok p c prev (m * a + o) o a hal hvb (by simp [hkind]) ha hprev hle hd ⟨m, rfl⟩

/-- the address walk of the code equals the greedy placement whenever it starts from a state that the
    compile-time bracket `(o, a)` and trailing claim `prev` describe truthfully -/
theorem placeGo_eq_greedy :
    ∀ (ps : List Param) (counts : List Nat) (prev addr o a : Nat),
      (∀ p ∈ ps, WfParam p) → CountsOK ps counts →
      IsPow2 a → IsPow2 prev → prev ≤ a → prev ∣ addr → (∃ m, addr = m * a + o) →
      placeGo ps counts (trailingGo ps o a) prev addr = greedyGo ps counts addr := by
  intro ps
  induction ps with
  | nil => intro counts prev addr o a _ _ _ _ _ _ _; simp [placeGo, greedyGo]
  | cons p ps ih =>
    intro counts prev addr o a hwf hc ha hprev hle hd hk
    cases counts with
    | nil => simp [CountsOK] at hc
    | cons c cs =>
      have hwp : WfParam p := hwf p (by simp)
      have hok := step_ok p c prev addr o a hwp.1 hwp.2 hc.1 ha hprev hle hd hk
      simp only [trailingGo, placeGo, greedyGo, hok.start_eq]
      congr 1
      exact ih cs _ _ _ _ (fun q hq => hwf q (by simp [hq])) hc.2 hok.pow_a' hok.pow_t hok.t_le
          hok.t_dvd hok.known

/-! ### the storage alignment is the largest alignment of the list -/

theorem foldl_max_ge (l : List Nat) (x : Nat) : x ≤ l.foldl max x := by
  induction l generalizing x with
  | nil => simp
  | cons y ys ih => simp only [List.foldl_cons]; exact Nat.le_trans (Nat.le_max_left x y) (ih _)

theorem foldl_max_mem_ge (l : List Nat) (x y : Nat) (h : y ∈ l) : y ≤ l.foldl max x := by
  induction l generalizing x with
  | nil => simp at h
  | cons z zs ih =>
    simp only [List.foldl_cons]
    rcases List.mem_cons.mp h with rfl | h
    · exact Nat.le_trans (Nat.le_max_right x y) (foldl_max_ge _ _)
    · exact ih _ h

theorem foldl_max_pow2 (l : List Nat) (x : Nat) (hx : IsPow2 x ∨ x = 0) (hl : ∀ y ∈ l, IsPow2 y ∨ y = 0) :
    IsPow2 (l.foldl max x) ∨ l.foldl max x = 0 := by
  induction l generalizing x with
  | nil => simpa using hx
  | cons y ys ih =>
    simp only [List.foldl_cons]
    apply ih
    · have hy := hl y (by simp)
      rcases Nat.le_total x y with h | h
      · rw [Nat.max_eq_right h]; exact hy
      · rw [Nat.max_eq_left h]; exact hx
    · intro z hz; exact hl z (by simp [hz])

/-- every entry of `largest` is 0 or a power of two, and every parameter's alignment is below some entry -/
theorem largestGo_spec (ps : List Param) (cnt cur : Nat) (hwf : ∀ p ∈ ps, WfParam p) (hcur : IsPow2 cur ∨ cur = 0) :
    (∀ y ∈ largestGo ps cnt cur, IsPow2 y ∨ y = 0) ∧
    (∀ p ∈ ps, ∃ y ∈ largestGo ps cnt cur, p.al ≤ y) ∧
    (0 < cnt → ∃ y ∈ largestGo ps cnt cur, cur ≤ y) := by
  induction ps generalizing cnt cur with
  | nil =>
    refine ⟨?_, by simp, ?_⟩
    · intro y hy; simp only [largestGo, List.mem_replicate] at hy; rw [hy.2]; exact hcur
    · intro h; exact ⟨cur, by simp [largestGo]; omega, Nat.le_refl _⟩
  | cons p ps ih =>
    have hp : WfParam p := hwf p (by simp)
    have hwf' : ∀ q ∈ ps, WfParam q := fun q hq => hwf q (by simp [hq])
    have hcur' : IsPow2 (max cur p.al) ∨ max cur p.al = 0 := by
      left
      rcases hcur with h | h
      · exact pow2_max h hp.1
      · subst h; simpa using hp.1
    unfold largestGo
    by_cases hk : p.kind = .varying
    · simp only [hk, if_true]
      obtain ⟨i1, i2, _⟩ := ih 0 0 hwf' (Or.inr rfl)
      refine ⟨?_, ?_, ?_⟩
      · intro y hy
        rcases List.mem_append.mp hy with h | h
        · rw [(List.mem_replicate.mp h).2]; exact hcur'
        · exact i1 y h
      · intro q hq
        rcases List.mem_cons.mp hq with rfl | hq
        · exact ⟨max cur q.al, by simp, Nat.le_max_right _ _⟩
        · obtain ⟨y, hy, hle⟩ := i2 q hq
          exact ⟨y, by simp [hy], hle⟩
      · intro _; exact ⟨max cur p.al, by simp, Nat.le_max_left _ _⟩
    · simp only [hk, if_false]
      obtain ⟨i1, i2, i3⟩ := ih (cnt + 1) (max cur p.al) hwf' hcur'
      refine ⟨i1, ?_, ?_⟩
      · intro q hq
        rcases List.mem_cons.mp hq with rfl | hq
        · obtain ⟨y, hy, hle⟩ := i3 (by omega)
          exact ⟨y, hy, Nat.le_trans (Nat.le_max_right _ _) hle⟩
        · exact i2 q hq
      · intro _
        obtain ⟨y, hy, hle⟩ := i3 (by omega)
        exact ⟨y, hy, Nat.le_trans (Nat.le_max_left _ _) hle⟩

theorem al_le_storageAl (ps : List Param) (hwf : ∀ p ∈ ps, WfParam p) (p : Param) (hp : p ∈ ps) :
    p.al ≤ storageAl ps := by
  obtain ⟨_, h2, _⟩ := largestGo_spec ps 0 0 hwf (Or.inr rfl)
  obtain ⟨y, hy, hle⟩ := h2 p hp
  exact Nat.le_trans hle (foldl_max_mem_ge _ _ _ hy)

theorem storageAl_pow2 (ps : List Param) (hwf : ∀ p ∈ ps, WfParam p) (hne : ps ≠ []) :
    IsPow2 (storageAl ps) := by
  obtain ⟨h1, _, _⟩ := largestGo_spec ps 0 0 hwf (Or.inr rfl)
  rcases foldl_max_pow2 (largest ps) 0 (Or.inr rfl) h1 with h | h
  · exact h
  · exfalso
    cases ps with
    | nil => exact hne rfl
    | cons p ps =>
      have := al_le_storageAl (p :: ps) hwf p (by simp)
      have hp := (hwf p (by simp)).1.pos
      unfold storageAl at this
      omega

theorem al_dvd_storageAl (ps : List Param) (hwf : ∀ p ∈ ps, WfParam p) (p : Param) (hp : p ∈ ps) :
    p.al ∣ storageAl ps :=
  (hwf p hp).1.dvd_of_le (storageAl_pow2 ps hwf (List.ne_nil_of_mem hp)) (al_le_storageAl ps hwf p hp)

/-- **layout soundness**: for every well-formed list, all counts and every storage-aligned start the
    code's placement is the greedy placement -/
theorem place_eq_greedy (ps : List Param) (counts : List Nat) (start : Nat)
    (hwf : ∀ p ∈ ps, WfParam p) (hne : ps ≠ []) (hc : CountsOK ps counts)
    (hs : storageAl ps ∣ start) :
    place ps counts start = greedyGo ps counts start := by
  have hS := storageAl_pow2 ps hwf hne
  obtain ⟨m, hm⟩ := hs
  exact placeGo_eq_greedy ps counts _ start 0 _ hwf hc hS hS (Nat.le_refl _) ⟨m, hm⟩
    ⟨m, by rw [hm, Nat.mul_comm]; simp⟩

/-! ### facts about the greedy placement -/

theorem greedyGo_aligned (ps : List Param) (counts : List Nat) (addr : Nat) :
    ∀ x ∈ List.zip ps (greedyGo ps counts addr), x.1.al ∣ x.2.1 := by
  induction ps generalizing counts addr with
  | nil => intro x hx; simp at hx
  | cons p ps ih =>
    cases counts with
    | nil => intro x hx; simp [greedyGo] at hx
    | cons c cs =>
      intro x hx
      simp only [greedyGo, List.zip_cons_cons, List.mem_cons] at hx
      rcases hx with rfl | hx
      · exact alignUp_dvd _ _
      · exact ih cs _ x hx

/-- shifting the start by a multiple of every alignment shifts the whole placement -/
theorem greedyGo_shift (ps : List Param) (counts : List Nat) (addr d : Nat)
    (hwf : ∀ p ∈ ps, WfParam p) (hd : ∀ p ∈ ps, p.al ∣ d) :
    greedyGo ps counts (d + addr) = (greedyGo ps counts addr).map (fun x => (d + x.1, d + x.2)) := by
  induction ps generalizing counts addr with
  | nil => simp [greedyGo]
  | cons p ps ih =>
    cases counts with
    | nil => simp [greedyGo]
    | cons c cs =>
      have h1 : alignUp (d + addr) p.al = d + alignUp addr p.al :=
        alignUp_add_of_dvd d addr p.al (hwf p (by simp)).1.pos (hd p (by simp))
      have h2 := ih cs (alignUp addr p.al + p.vb * c) (fun q hq => hwf q (by simp [hq])) (fun q hq => hd q (by simp [hq]))
      simp only [greedyGo, List.map_cons, h1, Nat.add_assoc]
      rw [h2]

end Cntgs

namespace Cntgs

/-- first free address behind the greedy placement -/
def goEnd : List Param → List Nat → Nat → Nat
  | p :: ps, c :: cs, addr => goEnd ps cs (alignUp addr p.al + p.vb * c)
  | _, _, addr => addr

theorem greedy_getLast (ps : List Param) (counts : List Nat) (addr d : Nat) (hc : CountsOK ps counts) :
    ((greedyGo ps counts addr).getLast?.map (·.2)).getD d = if ps = [] then d else goEnd ps counts addr := by
  induction ps generalizing counts addr d with
  | nil => simp [greedyGo]
  | cons p ps ih =>
    cases counts with
    | nil => simp [CountsOK] at hc
    | cons c cs =>
      have h := ih cs (alignUp addr p.al + p.vb * c) (alignUp addr p.al + p.vb * c) hc.2
      simp only [greedyGo, goEnd, List.cons_ne_nil, if_false, List.getLast?_cons, Option.map_some, Option.getD_some]
      by_cases hps : ps = []
      · subst hps
        simp [greedyGo, goEnd]
      · simp only [hps, if_false] at h
        rw [← h]
        cases hg : (greedyGo ps cs (alignUp addr p.al + p.vb * c)).getLast? with
        | none => simp
        | some x => simp

theorem placeEnd_eq_goEnd (ps : List Param) (counts : List Nat) (start : Nat)
    (hwf : ∀ p ∈ ps, WfParam p) (hne : ps ≠ []) (hc : CountsOK ps counts) (hs : storageAl ps ∣ start) :
    placeEnd ps counts start = goEnd ps counts start := by
  unfold placeEnd
  rw [place_eq_greedy ps counts start hwf hne hc hs, greedy_getLast ps counts start start hc]
  simp [hne]

/-- the last compile-time trailing-alignment claim really divides the end of the element -/
theorem end_claim :
    ∀ (ps : List Param) (counts : List Nat) (prev addr o a : Nat),
      (∀ p ∈ ps, WfParam p) → CountsOK ps counts →
      IsPow2 a → IsPow2 prev → prev ≤ a → prev ∣ addr → (∃ m, addr = m * a + o) →
      IsPow2 ((trailingGo ps o a).getLastD prev) ∧ (trailingGo ps o a).getLastD prev ∣ goEnd ps counts addr := by
  intro ps
  induction ps with
  | nil => intro counts prev addr o a _ _ _ hp _ hd _; simpa [trailingGo, goEnd] using ⟨hp, hd⟩
  | cons p ps ih =>
    intro counts prev addr o a hwf hc ha hprev hle hd hk
    cases counts with
    | nil => simp [CountsOK] at hc
    | cons c cs =>
      have hwp : WfParam p := hwf p (by simp)
      have hok := step_ok p c prev addr o a hwp.1 hwp.2 hc.1 ha hprev hle hd hk
      simp only [trailingGo, goEnd, List.getLastD_cons]
      exact ih cs _ _ _ _ (fun q hq => hwf q (by simp [hq])) hc.2 hok.pow_a' hok.pow_t hok.t_le hok.t_dvd hok.known

/-- `align_for_first_parameter` applied to the end of an element that starts storage-aligned rounds up to
    the storage alignment (it never skips a needed alignment) -/
theorem alignFirst_end (ps : List Param) (counts : List Nat) (start : Nat)
    (hwf : ∀ p ∈ ps, WfParam p) (hne : ps ≠ []) (hc : CountsOK ps counts) (hs : storageAl ps ∣ start) :
    alignFirst ps (goEnd ps counts start) = alignUp (goEnd ps counts start) (storageAl ps) := by
  have hS := storageAl_pow2 ps hwf hne
  obtain ⟨m, hm⟩ := hs
  obtain ⟨h1, h2⟩ := end_claim ps counts (storageAl ps) start 0 (storageAl ps) hwf hc hS hS (Nat.le_refl _) ⟨m, hm⟩
    ⟨m, by rw [hm, Nat.mul_comm]; simp⟩
  unfold alignFirst trailings
  exact alignIf_eq h1 hS h2

theorem alignFirst_of_dvd (ps : List Param) (x : Nat) (hwf : ∀ p ∈ ps, WfParam p) (hne : ps ≠ [])
    (hx : storageAl ps ∣ x) : alignFirst ps x = x := by
  have hS := storageAl_pow2 ps hwf hne
  unfold alignFirst alignIf
  split
  · exact alignUp_of_dvd _ _ hS.pos hx
  · rfl

/-- the greedy placement is ordered and gap-free up to alignment: starts never precede the previous end,
    every range has exactly `vb * count` bytes -/
theorem greedyGo_ordered (ps : List Param) (counts : List Nat) (addr : Nat) (hwf : ∀ p ∈ ps, WfParam p) :
    List.Pairwise (fun x y : Nat × Nat => x.2 ≤ y.1) (greedyGo ps counts addr) ∧
    (∀ x ∈ greedyGo ps counts addr, addr ≤ x.1 ∧ x.1 ≤ x.2) := by
  induction ps generalizing counts addr with
  | nil => simp [greedyGo]
  | cons p ps ih =>
    cases counts with
    | nil => simp [greedyGo]
    | cons c cs =>
      have hp := (hwf p (by simp)).1.pos
      obtain ⟨i1, i2⟩ := ih cs (alignUp addr p.al + p.vb * c) (fun q hq => hwf q (by simp [hq]))
      have hge := alignUp_ge addr p.al hp
      simp only [greedyGo, List.pairwise_cons, List.mem_cons]
      refine ⟨⟨?_, i1⟩, ?_⟩
      · intro y hy; exact (i2 y hy).1
      · intro x hx
        rcases hx with rfl | hx
        · exact ⟨hge, Nat.le_add_right _ _⟩
        · have := i2 x hx; exact ⟨by omega, this.2⟩

theorem greedyGo_sizes (ps : List Param) (counts : List Nat) (addr : Nat) :
    ∀ x ∈ List.zip (List.zip ps counts) (greedyGo ps counts addr), x.2.2 - x.2.1 = x.1.1.vb * x.1.2 := by
  induction ps generalizing counts addr with
  | nil => intro x hx; simp at hx
  | cons p ps ih =>
    cases counts with
    | nil => intro x hx; simp at hx
    | cons c cs =>
      intro x hx
      simp only [greedyGo, List.zip_cons_cons, List.mem_cons] at hx
      rcases hx with rfl | hx
      · simp
      · exact ih cs _ x hx

theorem goEnd_ge (ps : List Param) (counts : List Nat) (addr : Nat) (hwf : ∀ p ∈ ps, WfParam p) :
    addr ≤ goEnd ps counts addr := by
  induction ps generalizing counts addr with
  | nil => simp [goEnd]
  | cons p ps ih =>
    cases counts with
    | nil => simp [goEnd]
    | cons c cs =>
      have hp := (hwf p (by simp)).1.pos
      have := ih cs (alignUp addr p.al + p.vb * c) (fun q hq => hwf q (by simp [hq]))
      have hge := alignUp_ge addr p.al hp
      simp only [goEnd]; omega

theorem goEnd_shift (ps : List Param) (counts : List Nat) (addr d : Nat)
    (hwf : ∀ p ∈ ps, WfParam p) (hd : ∀ p ∈ ps, p.al ∣ d) :
    goEnd ps counts (d + addr) = d + goEnd ps counts addr := by
  induction ps generalizing counts addr with
  | nil => simp [goEnd]
  | cons p ps ih =>
    cases counts with
    | nil => simp [goEnd]
    | cons c cs =>
      have h1 : alignUp (d + addr) p.al = d + alignUp addr p.al :=
        alignUp_add_of_dvd d addr p.al (hwf p (by simp)).1.pos (hd p (by simp))
      simp only [goEnd, h1, Nat.add_assoc]
      exact ih cs _ (fun q hq => hwf q (by simp [hq])) (fun q hq => hd q (by simp [hq]))

end Cntgs
