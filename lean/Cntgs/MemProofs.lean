/-
Block contents: lemmas about `Mem.write`, `Mem.drop`, `Mem.move`, `Mem.read` for memories that hold a
family of pairwise ordered records (the elements of a vector).
-/
import Cntgs.Vector
namespace Cntgs

/-- the memory holds exactly the records `rec k` for `k < n` -/
def Holds (m : Mem) (n : Nat) (rec : Nat → Rec) : Prop := ∀ r, r ∈ m ↔ ∃ k, k < n ∧ r = rec k

/-- records are laid out in index order without overlap -/
def Ordered (n : Nat) (rec : Nat → Rec) : Prop :=
  (∀ k, k < n → 0 < (rec k).sz) ∧ (∀ k, k + 1 < n → (rec k).off + (rec k).sz ≤ (rec (k + 1)).off)

theorem Ordered.mono {n : Nat} {rec : Nat → Rec} (h : Ordered n rec) :
    ∀ a b, a < b → b < n → (rec a).off + (rec a).sz ≤ (rec b).off := by
  intro a b hab hb
  induction b with
  | zero => omega
  | succ b ih =>
    by_cases hab' : a = b
    · subst hab'; exact h.2 a hb
    · have h1 := ih (by omega) (by omega)
      have h2 := h.2 b hb
      have h3 := h.1 b (by omega)
      omega

theorem Ordered.off_inj {n : Nat} {rec : Nat → Rec} (h : Ordered n rec) (a b : Nat) (ha : a < n) (hb : b < n)
    (he : (rec a).off = (rec b).off) : a = b := by
  rcases Nat.lt_trichotomy a b with hlt | heq | hgt
  · have := h.mono a b hlt hb; have := h.1 a ha; omega
  · exact heq
  · have := h.mono b a hgt ha; have := h.1 b hb; omega

/-- reading at the offset of the `k`-th record returns its element -/
theorem read_holds {m : Mem} {n : Nat} {rec : Nat → Rec} (hh : Holds m n rec) (ho : Ordered n rec) (k : Nat) (hk : k < n) :
    m.read (rec k).off = some (rec k).e := by
  unfold Mem.read
  have hmem : rec k ∈ m := (hh (rec k)).mpr ⟨k, hk, rfl⟩
  cases hf : m.find? (fun r => r.off == (rec k).off) with
  | none =>
    have := List.find?_eq_none.mp hf (rec k) hmem
    simp at this
  | some r =>
    have hr := List.find?_some hf
    have hrm := List.mem_of_find?_eq_some hf
    obtain ⟨j, hj, rfl⟩ := (hh r).mp hrm
    have : j = k := ho.off_inj j k hj hk (by simpa using hr)
    subst this; rfl

/-- constructing a new last record on free space -/
theorem write_holds {m : Mem} {n : Nat} {rec : Nat → Rec} (hh : Holds m n rec) (ho : Ordered n rec) (r : Rec)
    (hfree : ∀ k, k < n → (rec k).off + (rec k).sz ≤ r.off) :
    m.hits r.off r.sz = false ∧
    Holds (m.write r.off r.sz r.e) (n + 1) (fun k => if k = n then r else rec k) := by
  have hnomeet : ∀ x ∈ m, x.meets r.off r.sz = false := by
    intro x hx
    obtain ⟨k, hk, rfl⟩ := (hh x).mp hx
    have := hfree k hk
    simp only [Rec.meets, Bool.and_eq_false_iff, decide_eq_false_iff_not]
    left; right; omega
  refine ⟨?_, ?_⟩
  · unfold Mem.hits
    rw [List.any_eq_false]
    intro x hx; rw [hnomeet x hx]; simp
  · intro x
    unfold Mem.write
    simp only [List.mem_cons, List.mem_filter]
    constructor
    · rintro (rfl | ⟨hx, _⟩)
      · exact ⟨n, by omega, by simp⟩
      · obtain ⟨k, hk, rfl⟩ := (hh x).mp hx
        exact ⟨k, by omega, by simp [Nat.ne_of_lt hk]⟩
    · rintro ⟨k, hk, rfl⟩
      by_cases hkn : k = n
      · left; simp [hkn]
      · right
        simp only [hkn, if_false]
        have hm : rec k ∈ m := (hh _).mpr ⟨k, by omega, rfl⟩
        exact ⟨hm, by rw [hnomeet _ hm]; rfl⟩

/-- destroying the last records `[i, n)` one by one -/
theorem drop_holds {m : Mem} {n : Nat} {rec : Nat → Rec} (hh : Holds m n rec) (ho : Ordered n rec) (i : Nat) (hi : i < n) :
    ∀ x, x ∈ m.drop (rec i).off ↔ ∃ k, k < n ∧ k ≠ i ∧ x = rec k := by
  intro x
  unfold Mem.drop
  simp only [List.mem_filter, bne_iff_ne, ne_eq]
  constructor
  · rintro ⟨hx, hne⟩
    obtain ⟨k, hk, rfl⟩ := (hh x).mp hx
    exact ⟨k, hk, fun h => hne (by rw [h]), rfl⟩
  · rintro ⟨k, hk, hki, rfl⟩
    exact ⟨(hh _).mpr ⟨k, hk, rfl⟩, fun h => hki (ho.off_inj k i hk hi h)⟩

end Cntgs

namespace Cntgs

theorem mem_foldl_drop (offs : List Nat) (m : Mem) (x : Rec) :
    x ∈ offs.foldl (fun m o => Mem.drop m o) m ↔ x ∈ m ∧ x.off ∉ offs := by
  induction offs generalizing m with
  | nil => simp
  | cons o os ih =>
    rw [List.foldl_cons, ih (Mem.drop m o)]
    simp only [Mem.drop, List.mem_filter, bne_iff_ne, ne_eq, List.mem_cons, not_or]
    constructor
    · rintro ⟨⟨h1, h2⟩, h3⟩; exact ⟨h1, h2, h3⟩
    · rintro ⟨h1, h2, h3⟩; exact ⟨⟨h1, h2⟩, h3⟩

/-- destroying the records `[i, j)` -/
theorem dropRange_holds {m : Mem} {n : Nat} {rec : Nat → Rec} (hh : Holds m n rec) (ho : Ordered n rec)
    (i j : Nat) (hj : j ≤ n) (addr : Nat → Nat) (haddr : ∀ k, i ≤ k → k < j → addr k = (rec k).off) :
    ∀ x, x ∈ ((List.range (j - i)).map (· + i)).foldl (fun m k => m.drop (addr k)) m ↔
      ∃ k, k < n ∧ (k < i ∨ j ≤ k) ∧ x = rec k := by
  intro x
  have hfold : ((List.range (j - i)).map (· + i)).foldl (fun m k => m.drop (addr k)) m =
      (((List.range (j - i)).map (· + i)).map addr).foldl (fun m o => Mem.drop m o) m := by
    simp only [List.foldl_map]
  rw [hfold, mem_foldl_drop]
  constructor
  · rintro ⟨hx, hno⟩
    obtain ⟨k, hk, rfl⟩ := (hh x).mp hx
    refine ⟨k, hk, ?_, rfl⟩
    by_cases h1 : k < i
    · exact Or.inl h1
    · by_cases h2 : j ≤ k
      · exact Or.inr h2
      · exfalso; apply hno
        simp only [List.mem_map, List.mem_range]
        exact ⟨k, ⟨k - i, by omega, by omega⟩, haddr k (by omega) (by omega)⟩
  · rintro ⟨k, hk, hout, rfl⟩
    refine ⟨(hh _).mpr ⟨k, hk, rfl⟩, ?_⟩
    simp only [List.mem_map, List.mem_range]
    rintro ⟨k', ⟨d, hd, rfl⟩, he⟩
    have hk' : d + i < n := by omega
    rw [haddr (d + i) (by omega) (by omega)] at he
    have := ho.off_inj (d + i) k hk' hk he
    omega

/-- the memmove of erase: with `[i, j)` destroyed, moving `[off j, fin)` down to `off i` keeps the front
    records, shifts the tail records by `off j - off i`, and overwrites nothing that is alive -/
theorem move_holds {m : Mem} {n : Nat} {rec : Nat → Rec} (ho : Ordered n rec) (i j fin : Nat) (hij : i < j) (hjn : j < n)
    (hm : ∀ x, x ∈ m ↔ ∃ k, k < n ∧ (k < i ∨ j ≤ k) ∧ x = rec k)
    (hfin : (rec (n - 1)).off + (rec (n - 1)).sz ≤ fin) :
    let src := (rec j).off
    let tgt := (rec i).off
    m.moveHits src (fin - src) tgt = false ∧
    ∀ x, x ∈ m.move src (fin - src) tgt ↔
      (∃ k, k < i ∧ x = rec k) ∨ (∃ k, j ≤ k ∧ k < n ∧ x = { rec k with off := (rec k).off - (src - tgt) }) := by
  intro src tgt
  have hsz := ho.1
  have hsrcfin : src ≤ fin := by
    have h1 : (rec j).off ≤ (rec (n - 1)).off := by
      by_cases h : j = n - 1
      · rw [h]; exact Nat.le_refl _
      · have := ho.mono j (n - 1) (by omega) (by omega); omega
    omega
  have htail : ∀ k, j ≤ k → k < n → (rec k).inside src (fin - src) = true := by
    intro k h1 h2
    have ha : src ≤ (rec k).off := by
      by_cases h : k = j
      · rw [h]; exact Nat.le_refl _
      · have := ho.mono j k (by omega) h2; have := hsz j hjn; omega
    have hb : (rec k).off + (rec k).sz ≤ fin := by
      by_cases h : k = n - 1
      · rw [h]; exact hfin
      · have := ho.mono k (n - 1) (by omega) (by omega); have := hsz (n - 1) (by omega); omega
    simp only [Rec.inside, Bool.and_eq_true, decide_eq_true_eq]
    exact ⟨ha, by omega⟩
  have hfront : ∀ k, k < i → (rec k).inside src (fin - src) = false ∧ (rec k).meets tgt (fin - src) = false := by
    intro k hk
    have h1 := ho.mono k i hk (by omega)
    have h2 : tgt ≤ src := by have := ho.mono i j hij hjn; omega
    have h3 := hsz k (by omega)
    constructor
    · simp only [Rec.inside, Bool.and_eq_false_iff, decide_eq_false_iff_not]; left; omega
    · simp only [Rec.meets, Bool.and_eq_false_iff, decide_eq_false_iff_not]; left; right; omega
  refine ⟨?_, ?_⟩
  · unfold Mem.moveHits
    rw [List.any_eq_false]
    intro x hx
    obtain ⟨k, hk, hout, rfl⟩ := (hm x).mp hx
    rcases hout with h | h
    · simp [(hfront k h).2]
    · simp [htail k h hk]
  · intro x
    unfold Mem.move
    simp only [List.mem_append, List.mem_map, List.mem_filter, Bool.and_eq_true, Bool.not_eq_true']
    constructor
    · rintro (⟨y, ⟨hy, _⟩, rfl⟩ | ⟨hx, hni, _⟩)
      · obtain ⟨k, hk, hout, rfl⟩ := (hm y).mp hy
        rcases hout with h | h
        · have := (hfront k h).1; simp_all
        · exact Or.inr ⟨k, h, hk, rfl⟩
      · obtain ⟨k, hk, hout, rfl⟩ := (hm x).mp hx
        rcases hout with h | h
        · exact Or.inl ⟨k, h, rfl⟩
        · rw [htail k h hk] at hni; exact absurd hni (by simp)
    · rintro (⟨k, hk, rfl⟩ | ⟨k, h1, h2, rfl⟩)
      · right
        exact ⟨(hm _).mpr ⟨k, by omega, Or.inl hk, rfl⟩, (hfront k hk).1, (hfront k hk).2⟩
      · left
        exact ⟨rec k, ⟨(hm _).mpr ⟨k, h2, Or.inr h1, rfl⟩, htail k h1 h2⟩, rfl⟩

/-- relocating record `c` to a free place `t` between its neighbours: what `find?` returns, that nothing live is hit,
    and what the memory holds afterwards (element-wise relocation: `emplace_at` + `destruct` of the source) -/
theorem relocate_holds {m : Mem} {n : Nat} {rec : Nat → Rec} (hh : Holds m n rec) (ho : Ordered n rec) (c : Nat) (hc : c < n)
    (t : Nat) (hbefore : ∀ q, q < c → (rec q).off + (rec q).sz ≤ t)
    (hafter : ∀ q, c < q → q < n → t + (rec c).sz ≤ (rec q).off) :
    m.find? (fun r => r.off == (rec c).off) = some (rec c) ∧
    (m.drop (rec c).off).hits t (rec c).sz = false ∧
    Holds ((m.drop (rec c).off).write t (rec c).sz (rec c).e) n (fun q => if q = c then ⟨t, (rec c).sz, (rec c).e⟩ else rec q) := by
  have hmem : rec c ∈ m := (hh (rec c)).mpr ⟨c, hc, rfl⟩
  have hfind : m.find? (fun r => r.off == (rec c).off) = some (rec c) := by
    cases hf : m.find? (fun r => r.off == (rec c).off) with
    | none =>
      have := List.find?_eq_none.mp hf (rec c) hmem
      simp at this
    | some r =>
      have hr := List.find?_some hf
      have hrm := List.mem_of_find?_eq_some hf
      obtain ⟨j, hj, rfl⟩ := (hh r).mp hrm
      have : j = c := ho.off_inj j c hj hc (by simpa using hr)
      subst this; rfl
  have hdrop := drop_holds hh ho c hc
  have hnomeet : ∀ x ∈ m.drop (rec c).off, x.meets t (rec c).sz = false := by
    intro x hx
    obtain ⟨q, hq, hqc, rfl⟩ := (hdrop x).mp hx
    simp only [Rec.meets, Bool.and_eq_false_iff, decide_eq_false_iff_not]
    rcases Nat.lt_or_gt_of_ne hqc with h | h
    · have := hbefore q h; left; right; omega
    · have := hafter q h hq; left; left; omega
  refine ⟨hfind, ?_, ?_⟩
  · unfold Mem.hits
    rw [List.any_eq_false]
    intro x hx; rw [hnomeet x hx]; simp
  · intro x
    unfold Mem.write
    simp only [List.mem_cons, List.mem_filter]
    constructor
    · rintro (rfl | ⟨hx, _⟩)
      · exact ⟨c, hc, by simp⟩
      · obtain ⟨q, hq, hqc, rfl⟩ := (hdrop x).mp hx
        exact ⟨q, hq, by simp [hqc]⟩
    · rintro ⟨q, hq, rfl⟩
      by_cases hqc : q = c
      · left; simp [hqc]
      · right
        simp only [hqc, if_false]
        have hm : rec q ∈ m.drop (rec c).off := (hdrop _).mpr ⟨q, hq, hqc, rfl⟩
        exact ⟨hm, by rw [hnomeet _ hm]; rfl⟩

end Cntgs
