/-
M6 — equality and ordering as coded.

Source anchors:
  encode / bytesOf        object representation of the memcmp-able value types (unsigned integers, little endian)
  elemEq                  detail/elementTraits.hpp equal_one / equal (runs of CONSECUTIVE_EQUALITY_MEMCMPABLE_INDICES,
                          split at parameters that can be preceded by padding)
  elemLt                  detail/elementTraits.hpp lexicographical_compare_one / lexicographical_compare
  spanEq3                 detail/parameterTraits.hpp BaseContiguousParameterTraits::equal — three-iterator std::equal
  vecEq / vecLt           vector.hpp equal / lexicographical_compare (whole-buffer fast path only when the
                          storage alignment is 1)
-/
import Cntgs.Vector
namespace Cntgs

/-- little-endian object representation of an unsigned integer of `vb` bytes -/
def encode : Nat → Nat → List Nat
  | 0, _ => []
  | vb + 1, v => (v % 256) :: encode vb (v / 256)

def bytesOf (p : Param) (vals : List Nat) : List Nat := vals.flatMap (encode p.vb)

/-- `std::lexicographical_compare(first1, last1, first2, last2, lt)` -/
def lexBy {α : Type} (lt : α → α → Bool) : List α → List α → Bool
  | _, [] => false
  | [], _ :: _ => true
  | a :: as, b :: bs => if lt a b then true else if lt b a then false else lexBy lt as bs

/-- `std::lexicographical_compare` on sequences of naturals (object values or bytes) -/
def lexLt (a b : List Nat) : Bool := lexBy (fun x y => decide (x < y)) a b

/-- three-iterator `std::equal(first1, last1, first2)`: compares `|l|` items; `none` when it would read
    past the end of the second range -/
def equal3 : List Nat → List Nat → Option Bool
  | [], _ => some true
  | _ :: _, [] => none
  | a :: as, b :: bs => if a = b then equal3 as bs else some false

/-- the fields `K .. last` of an element, as (parameter, values) pairs -/
def fieldsFrom (ps : List Param) (e : Elem) (k last : Nat) : List (Param × List Nat) :=
  ((List.zip ps e).drop k).take (last + 1 - k)

def runBytes (ps : List Param) (e : Elem) (k last : Nat) : List Nat :=
  (fieldsFrom ps e k last).flatMap (fun pv => bytesOf pv.1 pv.2)

/-- `equal_one<K>`; `none` = the comparison reads outside a span (undefined behaviour) -/
def eqOne (ps : List Param) (tbl : List RunEntry) (a b : Elem) (k : Nat) : Option Bool :=
  match tbl.getD k .skip with
  | .skip => some true
  | .manual =>
    match ps[k]?, a[k]?, b[k]? with
    | some p, some va, some vb =>
      if p.kind = .plain then some (va == vb) else equal3 va vb
    | _, _, _ => none
  | .upto last => some (runBytes ps a k last == runBytes ps b k last)

/-- `(equal_one<I>(lhs, rhs) && ...)` with short-circuit evaluation -/
def eqFold (ps : List Param) (tbl : List RunEntry) (a b : Elem) : List Nat → Option Bool
  | [] => some true
  | k :: ks =>
    match eqOne ps tbl a b k with
    | some true => eqFold ps tbl a b ks
    | r => r

def eqTable (ps : List Param) : List RunEntry := runs (·.ty.eqMemcmp) true ps
def lexTable (ps : List Param) : List RunEntry := runs (·.ty.lexMemcmp) true ps

/-- `(equal_size_one<I>(lhs, rhs) && ...)`: FixedSize fields of different sizes are never equal -/
def fixedSizesEq : List Param → Elem → Elem → Bool
  | p :: ps, va :: a, vb :: b => (if p.kind = .fixed then va.length == vb.length else true) && fixedSizesEq ps a b
  | _, _, _ => true

/-- `reference == reference` -/
def elemEq (ps : List Param) (a b : Elem) : Option Bool :=
  if fixedSizesEq ps a b then eqFold ps (eqTable ps) a b (List.range ps.length) else some false

/-- indices `K` whose entry in the run table is not SKIP (they depend on the list only) -/
def keyIdx (tbl : List RunEntry) (n : Nat) : List Nat := (List.range n).filter (fun k => tbl.getD k .skip != .skip)

/-- order-preserving image of an object value (values are carried as the unsigned representation): for a signed integer
    type of `vb` bytes the two halves of the range are exchanged -/
def ordVal (p : Param) (v : Nat) : Nat :=
  if p.ty.signed then (v + 2 ^ (8 * p.vb - 1)) % 2 ^ (8 * p.vb) else v

/-- the comparison key of parameter/run `K` for `operator<`: the object values of a field compared by
    its own `<`, or the bytes of a memcmp run -/
def ltKey (ps : List Param) (tbl : List RunEntry) (e : Elem) (k : Nat) : List Nat :=
  match tbl.getD k .skip with
  | .upto last => runBytes ps e k last
  | _ => (e.getD k []).map (ordVal (ps.getD k default))

def ltKeys (ps : List Param) (e : Elem) : List (List Nat) :=
  (keyIdx (lexTable ps) ps.length).map (ltKey ps (lexTable ps) e)

/-- the fold `(lexicographical_compare_one<I>(lhs, rhs) && ...)`: *every* key must compare less -/
def allLt : List (List Nat) → List (List Nat) → Bool
  | [], [] => true
  | a :: as, b :: bs => lexLt a b && allLt as bs
  | _, _ => false

def keysLt (a b : List (List Nat)) : Bool := !a.isEmpty && allLt a b

/-- `reference < reference` -/
def elemLt (ps : List Param) (a b : Elem) : Bool := keysLt (ltKeys ps a) (ltKeys ps b)

/-- the other relational operators as written in `reference.hpp:180-219` / `element.hpp:185-222` -/
def elemGt (ps : List Param) (a b : Elem) : Bool := elemLt ps b a
def elemLe (ps : List Param) (a b : Elem) : Bool := !elemLt ps b a
def elemGe (ps : List Param) (a b : Elem) : Bool := !elemLt ps a b

/-- all bytes of the used data area of a vector whose storage alignment is 1 (no padding anywhere) -/
def vecBytes (ps : List Param) (es : List Elem) : List Nat := es.flatMap (fun e => runBytes ps e 0 (ps.length - 1))

def allEq (ps : List Param) : List Elem → List Elem → Option Bool
  | [], _ => some true
  | _ :: _, [] => none
  | a :: as, b :: bs =>
    match elemEq ps a b with
    | some true => allEq ps as bs
    | r => r

/-- the sizes the FixedSize fields of a vector were constructed with (`get_fixed_size<I>()` for every I) -/
def fixedSizesOf (ps : List Param) (fs : List Nat) : List Nat :=
  ((List.zip ps fs).filter (fun pf => pf.1.kind = .fixed)).map (·.2)

/-- `vector == vector`; `fa`, `fb`: the fixed sizes of the two vectors (one entry per parameter) -/
def vecEq (ps : List Param) (fa fb : List Nat) (a b : List Elem) : Option Bool :=
  if ps.all (·.ty.eqMemcmp) && storageAl ps == 1 then
    if a.isEmpty then some b.isEmpty
    else if b.isEmpty then some false
    else some (fixedSizesOf ps fa == fixedSizesOf ps fb && vecBytes ps a == vecBytes ps b)
  else if a.length == b.length then allEq ps a b else some false

/-- `std::lexicographical_compare(begin, end, other.begin, other.end)` under `elemLt` -/
def seqLt (ps : List Param) (a b : List Elem) : Bool := lexBy (elemLt ps) a b

/-- `vector < vector`; `fa`, `fb`: the fixed sizes of the two vectors -/
def vecLt (ps : List Param) (fa fb : List Nat) (a b : List Elem) : Bool :=
  if ps.all (·.ty.lexMemcmp) && isFixedOrPlain ps && storageAl ps == 1 && fixedSizesOf ps fa == fixedSizesOf ps fb then
    if a.isEmpty then !b.isEmpty
    else if b.isEmpty then false
    else lexLt (vecBytes ps a) (vecBytes ps b)
  else seqLt ps a b

end Cntgs

namespace Cntgs
/-- `vector.hpp:324-345` -/
def vecGt (ps : List Param) (fa fb : List Nat) (a b : List Elem) : Bool := vecLt ps fb fa b a
def vecLe (ps : List Param) (fa fb : List Nat) (a b : List Elem) : Bool := !vecLt ps fb fa b a
def vecGe (ps : List Param) (fa fb : List Nat) (a b : List Elem) : Bool := !vecLt ps fa fb a b
end Cntgs
