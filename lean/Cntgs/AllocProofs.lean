/-
Ledger discipline of the owning pointer (C07, C08, C17): every deallocation hits a live block of the
recorded size through an equal allocator; allocators propagate as the traits say.
-/
import Cntgs.Alloc
namespace Cntgs

/-- serial numbers are fresh and distinct -/
def Heap.WF (h : Heap) : Prop := (∀ b ∈ h.live, b.serial < h.next) ∧ (h.live.map (·.serial)).Nodup

/-- the pointer owns a live block of exactly its recorded size, allocated by an allocator equal to its own -/
def Owns (h : Heap) (c : ACfg) (unit : Nat) (p : Ptr) : Prop :=
  match p.blk with
  | none => True
  | some s => ∃ b ∈ h.live, b.serial = s ∧ b.bytes = p.units * unit ∧ c.eq b.alloc p.alloc = true

theorem ACfg.eq_refl (c : ACfg) (a : Nat) : c.eq a a = true := by simp [ACfg.eq]

theorem find?_of_mem_nodup (l : List Blk) (b : Blk) (hnd : (l.map (·.serial)).Nodup) (hb : b ∈ l) :
    l.find? (fun x => x.serial == b.serial) = some b := by
  induction l with
  | nil => simp at hb
  | cons x xs ih =>
    simp only [List.map_cons, List.nodup_cons] at hnd
    simp only [List.find?_cons]
    rcases List.mem_cons.mp hb with rfl | hb
    · simp
    · have hne : x.serial ≠ b.serial := by
        intro h; apply hnd.1; rw [h]; exact List.mem_map_of_mem hb
      have : (x.serial == b.serial) = false := by simpa using hne
      rw [this]; exact ih hnd.2 hb

theorem Heap.find_of_mem (h : Heap) (hw : h.WF) (b : Blk) (hb : b ∈ h.live) : h.find b.serial = some b :=
  find?_of_mem_nodup h.live b hw.2 hb

/-- allocation: fresh serial, well-formedness kept, nothing else changes -/
theorem allocate_spec (h : Heap) (hw : h.WF) (a bytes : Nat) (k : BKind) (h' : Heap) (s : Nat)
    (hal : h.allocate a bytes k = (h', some s)) :
    s = h.next ∧ h'.WF ∧ h'.live = ⟨s, a, bytes, k⟩ :: h.live ∧ h'.errs = h.errs := by
  unfold Heap.allocate at hal
  split at hal
  · simp at hal
  · simp only [Prod.mk.injEq, Option.some.injEq] at hal
    obtain ⟨rfl, rfl⟩ := hal
    refine ⟨rfl, ⟨?_, ?_⟩, rfl, rfl⟩
    · intro b hb
      rcases List.mem_cons.mp hb with rfl | hb
      · simp
      · have := hw.1 b hb; simp; omega
    · simp only [List.map_cons, List.nodup_cons]
      refine ⟨?_, hw.2⟩
      intro hm
      obtain ⟨b, hb, hbs⟩ := List.mem_map.mp hm
      have := hw.1 b hb; omega

/-- a failed allocation changes nothing but the fault schedule -/
theorem allocate_fail (h : Heap) (a bytes : Nat) (k : BKind) (h' : Heap)
    (hal : h.allocate a bytes k = (h', none)) : h'.live = h.live ∧ h'.errs = h.errs ∧ h'.next = h.next := by
  unfold Heap.allocate at hal
  split at hal
  · simp only [Prod.mk.injEq] at hal; obtain ⟨rfl, _⟩ := hal; exact ⟨rfl, rfl, rfl⟩
  · simp at hal

/-- deallocating what the pointer owns raises no ledger error and removes exactly that block -/
theorem dealloc_owned (h : Heap) (hw : h.WF) (c : ACfg) (unit : Nat) (p : Ptr) (ho : Owns h c unit p) :
    (p.dealloc h c unit).errs = h.errs ∧ (p.dealloc h c unit).WF ∧
    (∀ b, b ∈ (p.dealloc h c unit).live ↔ b ∈ h.live ∧ some b.serial ≠ p.blk) := by
  cases hb : p.blk with
  | none =>
    have hd : p.dealloc h c unit = h := by simp [Ptr.dealloc, hb]
    rw [hd]; exact ⟨rfl, hw, fun b => by simp⟩
  | some s =>
    simp only [Owns, hb] at ho
    obtain ⟨b, hbm, rfl, hbytes, heq⟩ := ho
    have hd : p.dealloc h c unit =
        { h with live := h.live.filter (fun x => x.serial != b.serial), nDealloc := h.nDealloc + 1 } := by
      simp [Ptr.dealloc, hb, Heap.deallocate, Heap.find_of_mem h hw b hbm, hbytes, heq]
    rw [hd]
    refine ⟨rfl, ⟨?_, ?_⟩, ?_⟩
    · intro x hx; exact hw.1 x (List.mem_filter.mp hx).1
    · exact (List.filter_sublist.map _).nodup hw.2
    · intro x
      simp only [List.mem_filter, bne_iff_ne, ne_eq, Option.some.injEq]

theorem owns_of_mem_cons (h : Heap) (c : ACfg) (unit : Nat) (p : Ptr) (b : Blk) (live' : List Blk)
    (ho : Owns h c unit p) (hl : ∀ x, x ∈ h.live → x ∈ live') (h' : Heap) (hh : h'.live = live') : Owns h' c unit p := by
  unfold Owns at *
  cases hb : p.blk with
  | none => trivial
  | some s =>
    simp only [hb] at ho ⊢
    obtain ⟨x, hx, h1, h2, h3⟩ := ho
    exact ⟨x, by rw [hh]; exact hl x hx, h1, h2, h3⟩

/-- sized construction: the new pointer owns its block, obtained from the given allocator -/
theorem make_owns (h : Heap) (hw : h.WF) (c : ACfg) (units unit a : Nat) (h' : Heap) (p : Ptr)
    (hm : Ptr.make h units unit a = (h', some p)) :
    Owns h' c unit p ∧ h'.WF ∧ h'.errs = h.errs ∧ p.alloc = a ∧ p.units = units ∧ p.blk = some h.next := by
  unfold Ptr.make at hm
  cases hal : h.allocate a (units * unit) .data with
  | mk h1 r =>
    rw [hal] at hm
    cases r with
    | none => simp at hm
    | some s =>
      simp only [Prod.mk.injEq, Option.some.injEq] at hm
      obtain ⟨rfl, rfl⟩ := hm
      obtain ⟨hs, hwf, hlive, herr⟩ := allocate_spec h hw a (units * unit) .data h1 s hal
      refine ⟨?_, hwf, herr, rfl, rfl, by rw [hs]⟩
      simp only [Owns]
      exact ⟨⟨s, a, units * unit, .data⟩, by rw [hlive]; simp, rfl, rfl, c.eq_refl a⟩

/-- copy construction takes the allocator from `select_on_container_copy_construction` -/
theorem copy_alloc (h : Heap) (unit : Nat) (o : Ptr) (h' : Heap) (p : Ptr) (hc : Ptr.copy h unit o = (h', some p)) :
    p.alloc = socc o.alloc ∧ p.units = o.units := by
  unfold Ptr.copy Ptr.make at hc
  split at hc <;> simp at hc
  obtain ⟨_, rfl⟩ := hc
  exact ⟨rfl, rfl⟩

/-- move assignment: the old block is returned through the old allocator *before* the allocator is
    replaced; the target takes over the source's block and, with POCMA, its allocator -/
theorem moveAssign_spec (h : Heap) (hw : h.WF) (c : ACfg) (unit : Nat) (p o : Ptr) (hp : Owns h c unit p) :
    let r := p.moveAssign h c unit o
    r.1.errs = h.errs ∧ r.1.WF ∧ r.2.1.blk = o.blk ∧ r.2.1.units = o.units ∧
    r.2.1.alloc = (if c.pocma then o.alloc else p.alloc) ∧ r.2.2.blk = none ∧ r.2.2.units = 0 := by
  obtain ⟨h1, h2, _⟩ := dealloc_owned h hw c unit p hp
  exact ⟨h1, h2, rfl, rfl, rfl, rfl, rfl⟩

/-- allocate-then-free: on success the new pointer owns its block and the old one is returned without a
    ledger error; on failure nothing but the fault schedule changed -/
theorem reallocate_spec (h : Heap) (hw : h.WF) (c : ACfg) (unit newAlloc units : Nat) (p : Ptr) (hp : Owns h c unit p) :
    let r := p.reallocate h c unit newAlloc units
    (r.2.2 = true ∧ r.1.errs = h.errs ∧ r.1.WF ∧ Owns r.1 c unit r.2.1 ∧ r.2.1.alloc = newAlloc ∧ r.2.1.units = units) ∨
    (r.2.2 = false ∧ r.1.errs = h.errs ∧ r.1.live = h.live ∧ r.2.1 = p) := by
  unfold Ptr.reallocate
  cases hal : h.allocate newAlloc (units * unit) .data with
  | mk h1 r =>
    cases r with
    | none =>
      right
      obtain ⟨hl, he, _⟩ := allocate_fail h _ _ _ h1 hal
      exact ⟨rfl, he, hl, rfl⟩
    | some s =>
      left
      obtain ⟨hs, hwf, hlive, herr⟩ := allocate_spec h hw _ _ _ h1 s hal
      have ho' : Owns h1 c unit p := owns_of_mem_cons h c unit p ⟨s, newAlloc, units * unit, .data⟩ _ hp
        (fun x hx => by rw [hlive]; exact List.mem_cons_of_mem _ hx) h1 rfl
      obtain ⟨e1, e2, e3⟩ := dealloc_owned h1 hwf c unit p ho'
      refine ⟨rfl, by rw [e1, herr], e2, ?_, rfl, rfl⟩
      simp only [Owns]
      refine ⟨⟨s, newAlloc, units * unit, .data⟩, ?_, rfl, rfl, c.eq_refl _⟩
      rw [e3]
      refine ⟨by rw [hlive]; simp, ?_⟩
      -- the fresh serial is not the old block's
      intro hcon
      unfold Owns at hp
      rw [← hcon] at hp
      obtain ⟨x, hx, hxs, _⟩ := hp
      have := hw.1 x hx
      simp at hxs; omega

/-- propagating an equal allocator keeps ownership -/
theorem owns_propagate (h : Heap) (c : ACfg) (unit : Nat) (p : Ptr) (a : Nat) (hp : Owns h c unit p)
    (heq : c.eq p.alloc a = true) : Owns h c unit { p with alloc := a } := by
  unfold Owns at hp ⊢
  cases hbk : p.blk with
  | none => trivial
  | some s =>
    simp only [hbk] at hp ⊢
    obtain ⟨x, hx, h1, h2, h3⟩ := hp
    refine ⟨x, hx, h1, h2, ?_⟩
    simp only [ACfg.eq, Bool.or_eq_true, beq_iff_eq] at h3 heq ⊢
    rcases h3 with h3 | h3
    · exact Or.inl h3
    · rcases heq with h4 | h4
      · exact Or.inl h4
      · exact Or.inr (by rw [h3, h4])

/-- copy assignment: no ledger error on any branch; after success the pointer owns its block and its
    allocator follows POCCA; after a throwing allocation the pointer still owns what it owned -/
theorem copyAssign_spec (h : Heap) (hw : h.WF) (c : ACfg) (unit : Nat) (p o : Ptr) (hp : Owns h c unit p) :
    let r := p.copyAssign h c unit o
    r.1.errs = h.errs ∧
    ((r.2.2 = true ∧ r.1.WF ∧ Owns r.1 c unit r.2.1 ∧ r.2.1.alloc = (if c.pocca then o.alloc else p.alloc)) ∨
     (r.2.2 = false ∧ r.1.live = h.live ∧ r.2.1.blk = p.blk ∧ r.2.1.units = p.units)) := by
  unfold Ptr.copyAssign
  by_cases hb : (c.pocca && !c.ae && !c.eq p.alloc o.alloc) = true
  · simp only [hb, if_true]
    have hpc : c.pocca = true := by simp only [Bool.and_eq_true] at hb; exact hb.1.1
    rcases reallocate_spec h hw c unit o.alloc o.units p hp with ⟨h1, h2, h3, h4, h5, _⟩ | ⟨h1, h2, h3, h4⟩
    · exact ⟨h2, Or.inl ⟨h1, h3, h4, by simp [hpc, h5]⟩⟩
    · exact ⟨h2, Or.inr ⟨h1, h3, by rw [h4], by rw [h4]⟩⟩
  · simp only [hb, Bool.false_eq_true, if_false]
    have hp1 : Owns h c unit (if c.pocca = true then { p with alloc := o.alloc } else p) := by
      by_cases hpc : c.pocca = true
      · simp only [hpc, if_true]
        apply owns_propagate h c unit p o.alloc hp
        simp only [hpc, Bool.true_and, Bool.and_eq_true, Bool.not_eq_true', not_and, Bool.not_eq_false] at hb
        simp only [ACfg.eq, Bool.or_eq_true, beq_iff_eq]
        by_cases hae : c.ae = true
        · exact Or.inl hae
        · have := hb (by simpa using hae)
          simp only [ACfg.eq, Bool.or_eq_true, beq_iff_eq] at this
          exact this
      · simp only [hpc, Bool.false_eq_true, if_false]; exact hp
    have hal : (if c.pocca = true then { p with alloc := o.alloc } else p).alloc = (if c.pocca = true then o.alloc else p.alloc) := by
      by_cases hpc : c.pocca = true <;> simp [hpc]
    have hblk : (if c.pocca = true then { p with alloc := o.alloc } else p).blk = p.blk := by
      by_cases hpc : c.pocca = true <;> simp [hpc]
    have hun : (if c.pocca = true then { p with alloc := o.alloc } else p).units = p.units := by
      by_cases hpc : c.pocca = true <;> simp [hpc]
    generalize (if c.pocca = true then { p with alloc := o.alloc } else p) = p1 at *
    by_cases hneed : (decide (p1.units < o.units) || p1.blk.isNone) = true
    · simp only [hneed, if_true]
      rcases reallocate_spec h hw c unit p1.alloc o.units p1 hp1 with ⟨h1, h2, h3, h4, h5, _⟩ | ⟨h1, h2, h3, h4⟩
      · exact ⟨h2, Or.inl ⟨h1, h3, h4, by rw [h5, hal]⟩⟩
      · exact ⟨h2, Or.inr ⟨h1, h3, by rw [h4, hblk], by rw [h4, hun]⟩⟩
    · simp only [hneed, Bool.false_eq_true, if_false]
      exact ⟨trivial, Or.inl ⟨trivial, hw, hp1, hal⟩⟩

/-- swap: blocks and sizes are exchanged, allocators only with POCS -/
theorem swap_spec (c : ACfg) (a b : Ptr) :
    (Ptr.swap c a b).1.blk = b.blk ∧ (Ptr.swap c a b).2.blk = a.blk ∧
    (Ptr.swap c a b).1.alloc = (if c.pocs then b.alloc else a.alloc) ∧
    (Ptr.swap c a b).2.alloc = (if c.pocs then a.alloc else b.alloc) := by
  unfold Ptr.swap; cases c.pocs <;> simp

/-- after swap each side owns what it holds, provided the allocators propagate or are equal (the
    standard's precondition for allocator-aware swap) -/
theorem swap_owns (h : Heap) (c : ACfg) (unit : Nat) (a b : Ptr) (ha : Owns h c unit a) (hb : Owns h c unit b)
    (hpre : c.pocs = true ∨ c.ae = true ∨ a.alloc = b.alloc) :
    Owns h c unit (Ptr.swap c a b).1 ∧ Owns h c unit (Ptr.swap c a b).2 := by
  unfold Ptr.swap
  by_cases hs : c.pocs = true
  · simp only [hs, if_true]; exact ⟨hb, ha⟩
  · simp only [hs, Bool.false_eq_true, if_false]
    have hx : ∀ (x y : Ptr), Owns h c unit y → (c.ae = true ∨ x.alloc = y.alloc) → Owns h c unit ⟨y.blk, y.units, x.alloc⟩ := by
      intro x y hy hxy
      unfold Owns at hy ⊢
      cases hbk : y.blk with
      | none => trivial
      | some s =>
        simp only [hbk] at hy ⊢
        obtain ⟨z, hz, h1, h2, h3⟩ := hy
        refine ⟨z, hz, h1, h2, ?_⟩
        simp only [ACfg.eq, Bool.or_eq_true, beq_iff_eq] at h3 ⊢
        rcases hxy with h | h
        · exact Or.inl h
        · rcases h3 with h3 | h3
          · exact Or.inl h3
          · exact Or.inr (by rw [h3, h])
    have hpre' : c.ae = true ∨ a.alloc = b.alloc := by
      rcases hpre with h | h | h
      · exact absurd h hs
      · exact Or.inl h
      · exact Or.inr h
    exact ⟨hx a b hb hpre', hx b a ha (hpre'.imp id Eq.symm)⟩

end Cntgs
