/-
The whole-buffer fast paths of `vector == vector` and `vector < vector` (memcmp over the used part of both blocks, taken
for memcmp-comparable lists whose storage alignment is 1 — so there is no padding anywhere — and, since the repairs
`b08abfb` / `9650d81`, only for equal fixed sizes): they decide exactly what the element-wise definitions decide.
-/
import Cntgs.EqProofs
namespace Cntgs

/-- chunks of pairwise equal lengths: the concatenation determines the chunks -/
theorem chunks_inj : ∀ (L1 L2 : List (List Nat)), L1.length = L2.length →
    (∀ i (h1 : i < L1.length) (h2 : i < L2.length), (L1[i]).length = (L2[i]).length) →
    L1.flatten = L2.flatten → L1 = L2 := by
  intro L1
  induction L1 with
  | nil => intro L2 hl _ _; cases L2 with | nil => rfl | cons _ _ => simp at hl
  | cons x xs ih =>
    intro L2 hl hsame h
    cases L2 with
    | nil => simp at hl
    | cons y ys =>
      have h0 := hsame 0 (by simp) (by simp)
      simp only [List.getElem_cons_zero] at h0
      simp only [List.flatten_cons] at h
      obtain ⟨h1, h2⟩ := List.append_inj h h0
      rw [h1, ih ys (by simpa using hl) (fun i a b => by
        have := hsame (i + 1) (by simp; omega) (by simp; omega)
        simpa using this) h2]

theorem runBytes_length_eq (ps : List Param) (a b : Elem) (ha : a.length = ps.length) (hb : b.length = ps.length)
    (hc : elemCounts a = elemCounts b) (k last : Nat) : (runBytes ps a k last).length = (runBytes ps b k last).length := by
  unfold runBytes fieldsFrom
  have hcount : ∀ m (h1 : m < a.length) (h2 : m < b.length), a[m].length = b[m].length := by
    intro m h1 h2
    have := congrArg (fun l => l[m]?) hc
    simpa [elemCounts, h1, h2] using this
  -- both are sums over the same positions of vb * (field length)
  have hgen : ∀ (L1 L2 : List (Param × List Nat)), L1.length = L2.length →
      (∀ i (h1 : i < L1.length) (h2 : i < L2.length), (L1[i]).1 = (L2[i]).1 ∧ (L1[i]).2.length = (L2[i]).2.length) →
      (L1.flatMap (fun pv => bytesOf pv.1 pv.2)).length = (L2.flatMap (fun pv => bytesOf pv.1 pv.2)).length := by
    intro L1
    induction L1 with
    | nil => intro L2 hl _; cases L2 with | nil => rfl | cons _ _ => simp at hl
    | cons x xs ih =>
      intro L2 hl hs
      cases L2 with
      | nil => simp at hl
      | cons y ys =>
        obtain ⟨e1, e2⟩ := hs 0 (by simp) (by simp)
        simp only [List.getElem_cons_zero] at e1 e2
        simp only [List.flatMap_cons, List.length_append, bytesOf_length, e1, e2]
        rw [ih ys (by simpa using hl) (fun i a b => by
          have := hs (i + 1) (by simp; omega) (by simp; omega)
          simpa using this)]
  apply hgen
  · simp only [List.length_take, List.length_drop, List.length_zip]; omega
  · intro i h1 h2
    simp only [List.length_take, List.length_drop, List.length_zip] at h1 h2
    simp only [List.getElem_take, List.getElem_drop, List.getElem_zip]
    exact ⟨by trivial, hcount (k + i) (by omega) (by omega)⟩

/-- **whole-buffer `==`**: for vectors of the same shape (same number of elements, equal field sizes) built with the same
    fixed sizes, comparing the bytes of the used part of the blocks is comparing the element sequences -/
theorem vecEq_iff_fastpath (ps : List Param) (fa fb : List Nat) (a b : List Elem) (hne : ps ≠ [])
    (hgen : (ps.all (·.ty.eqMemcmp) && storageAl ps == 1) = true) (hf : fixedSizesOf ps fa = fixedSizesOf ps fb)
    (hwa : ∀ e ∈ a, e.length = ps.length ∧ InRange ps e) (hwb : ∀ e ∈ b, e.length = ps.length ∧ InRange ps e)
    (hshape : a.map elemCounts = b.map elemCounts) :
    vecEq ps fa fb a b = some true ↔ a = b := by
  have hl : a.length = b.length := by simpa using congrArg List.length hshape
  have hpos : 0 < ps.length := List.length_pos_iff.mpr hne
  unfold vecEq
  simp only [hgen, if_true, hf, beq_self_eq_true, Bool.true_and]
  by_cases hae : a = []
  · subst hae
    have : b = [] := List.length_eq_zero_iff.mp (by simpa using hl.symm)
    subst this
    simp
  · have hbe : b ≠ [] := by
      intro hb; subst hb; exact hae (List.length_eq_zero_iff.mp (by simpa using hl))
    have e1 : a.isEmpty = false := by cases a with | nil => exact absurd rfl hae | cons _ _ => rfl
    have e2 : b.isEmpty = false := by cases b with | nil => exact absurd rfl hbe | cons _ _ => rfl
    simp only [e1, e2, Bool.false_eq_true, if_false, Option.some.injEq, beq_iff_eq]
    have hcounts : ∀ i (h1 : i < a.length) (h2 : i < b.length), elemCounts a[i] = elemCounts b[i] := by
      intro i h1 h2
      have := congrArg (fun l => l[i]?) hshape
      simpa [h1, h2] using this
    constructor
    · intro h
      have hchunks : a.map (fun e => runBytes ps e 0 (ps.length - 1)) = b.map (fun e => runBytes ps e 0 (ps.length - 1)) := by
        apply chunks_inj _ _ (by simpa using hl)
        · intro i h1 h2
          simp only [List.length_map] at h1 h2
          simp only [List.getElem_map]
          exact runBytes_length_eq ps _ _ (hwa _ (List.getElem_mem h1)).1 (hwb _ (List.getElem_mem h2)).1 (hcounts i h1 h2) 0 _
        · simpa [vecBytes, List.flatMap_def] using h
      apply List.ext_getElem hl
      intro i h1 h2
      have hA := hwa _ (List.getElem_mem h1)
      have hB := hwb _ (List.getElem_mem h2)
      have hrun : runBytes ps a[i] 0 (ps.length - 1) = runBytes ps b[i] 0 (ps.length - 1) := by
        have := congrArg (fun l => l[i]?) hchunks
        simpa [h1, h2] using this
      have hfields := (runBytes_eq_iff ps _ _ 0 (ps.length - 1) hA.1 hB.1 (hcounts i h1 h2) hA.2 hB.2 (Nat.zero_le _) (by omega)).mp hrun
      apply List.ext_getElem (by rw [hA.1, hB.1])
      intro m m1 m2
      exact hfields m m1 m2 (Nat.zero_le _) (by rw [hA.1] at m1; omega)
    · intro h; rw [h]

/-! ### whole-buffer `<` -/

theorem lexLt_nil_left (y : List Nat) : lexLt [] y = !y.isEmpty := by
  cases y <;> simp [lexLt, lexBy]

theorem lexLt_nil_right (x : List Nat) : lexLt x [] = false := by
  cases x <;> simp [lexLt, lexBy]

/-- comparing two byte strings that start with chunks of the same length: the first chunks decide unless they are equal -/
theorem lexLt_append_same_len : ∀ (x y X Y : List Nat), x.length = y.length →
    lexLt (x ++ X) (y ++ Y) = (if lexLt x y then true else if lexLt y x then false else lexLt X Y) := by
  intro x
  induction x with
  | nil =>
    intro y X Y hl
    have : y = [] := List.length_eq_zero_iff.mp (by simpa using hl.symm)
    subst this
    simp [lexLt, lexBy]
  | cons p x ih =>
    intro y X Y hl
    cases y with
    | nil => simp at hl
    | cons q y =>
      have := ih y X Y (by simpa using hl)
      simp only [lexLt] at this ⊢
      simp only [List.cons_append, lexBy]
      by_cases h1 : p < q
      · simp [h1]
      · by_cases h2 : q < p
        · simp [h1, h2]
        · simp only [h1, h2, decide_false, Bool.false_eq_true, if_false]
          exact this

theorem lexBy_map {α β : Type} (lt : β → β → Bool) (f : α → β) : ∀ (a b : List α),
    lexBy lt (a.map f) (b.map f) = lexBy (fun x y => lt (f x) (f y)) a b := by
  intro a
  induction a with
  | nil => intro b; cases b <;> simp [lexBy]
  | cons x xs ih =>
    intro b
    cases b with
    | nil => simp [lexBy]
    | cons y ys => simp only [List.map_cons, lexBy, ih ys]

/-- lexicographical comparison of concatenated chunks of one common length = lexicographical comparison of the chunk
    sequences under the lexicographical chunk order -/
theorem lexLt_flatten (c : Nat) (hc : 0 < c) : ∀ (A B : List (List Nat)), (∀ x ∈ A, x.length = c) → (∀ y ∈ B, y.length = c) →
    lexLt A.flatten B.flatten = lexBy lexLt A B := by
  intro A
  induction A with
  | nil =>
    intro B _ hB
    cases B with
    | nil => simp [lexLt, lexBy]
    | cons y ys =>
      have hy := hB y (by simp)
      simp only [List.flatten_nil, List.flatten_cons, lexLt_nil_left, lexBy]
      cases y with
      | nil => simp at hy; omega
      | cons _ _ => simp
  | cons x xs ih =>
    intro B hA hB
    cases B with
    | nil => simp [lexLt_nil_right, lexBy]
    | cons y ys =>
      have hx := hA x (by simp)
      have hy := hB y (by simp)
      simp only [List.flatten_cons, lexBy]
      rw [lexLt_append_same_len x y _ _ (by rw [hx, hy]),
        ih ys (fun z hz => hA z (by simp [hz])) (fun z hz => hB z (by simp [hz]))]

/-- a list of memcmp-able parameters without alignment requirements forms one single run: `[upto (n-1), skip, …]` -/
theorem runsGo_single (pred : Param → Bool) : ∀ (ps : List Param) (i : Nat) (tbl : Nat → RunEntry),
    (∀ p ∈ ps, pred p = true ∧ p.al ≤ 1) →
    runsGo pred true ps i 0 tbl = fun k => if k = 0 ∧ ps ≠ [] then .upto (i + ps.length - 1) else tbl k := by
  intro ps
  induction ps with
  | nil => intro i tbl _; funext k; simp [runsGo]
  | cons p ps ih =>
    intro i tbl h
    obtain ⟨hp, hal⟩ := h p (by simp)
    have hnot : ¬ p.al > 1 := by omega
    simp only [runsGo, hp, if_true, hnot, decide_false, Bool.and_false, Bool.false_eq_true, if_false]
    rw [ih (i + 1) _ (fun q hq => h q (by simp [hq]))]
    funext k
    by_cases hk : k = 0
    · subst hk
      by_cases hps : ps = []
      · subst hps; simp
      · simp only [true_and, hps, ne_eq, not_false_eq_true, if_true, List.cons_ne_nil, List.length_cons]
        congr 1; omega
    · simp [hk]

theorem elemLt_single_run (ps : List Param) (hne : ps ≠ []) (h : ∀ p ∈ ps, p.ty.lexMemcmp = true ∧ p.al ≤ 1) (a b : Elem) :
    elemLt ps a b = lexLt (runBytes ps a 0 (ps.length - 1)) (runBytes ps b 0 (ps.length - 1)) := by
  have hpos : 0 < ps.length := List.length_pos_iff.mpr hne
  have htbl : ∀ k, k < ps.length → (lexTable ps).getD k .skip = if k = 0 then .upto (ps.length - 1) else .skip := by
    intro k hk
    unfold lexTable
    rw [runs_getD _ _ ps k hk, runsGo_single (·.ty.lexMemcmp) ps 0 _ h]
    by_cases hk0 : k = 0
    · simp [hk0, hne]
    · simp [hk0]
  have hidx : keyIdx (lexTable ps) ps.length = [0] := by
    unfold keyIdx
    have : (List.range ps.length).filter (fun k => (lexTable ps).getD k .skip != .skip) =
        (List.range ps.length).filter (fun k => k == 0) := by
      apply List.filter_congr
      intro k hk
      have hk' : k < ps.length := by simpa using hk
      rw [htbl k hk']
      by_cases hk0 : k = 0 <;> simp [hk0]
    rw [this]
    obtain ⟨n, hn⟩ : ∃ n, ps.length = n + 1 := ⟨ps.length - 1, by omega⟩
    rw [hn, List.range_succ_eq_map, List.filter_cons]
    simp only [beq_self_eq_true, if_true, List.cons.injEq, true_and, List.filter_eq_nil_iff, List.mem_map, List.mem_range]
    rintro x ⟨y, _, rfl⟩
    simp
  unfold elemLt ltKeys
  rw [hidx]
  simp only [List.map_cons, List.map_nil, ltKey, htbl 0 hpos, if_true, keysLt, List.isEmpty_cons, Bool.not_false, Bool.true_and,
    allLt, Bool.and_true]

/-- **whole-buffer `<`**: on the fast path (all parameters memcmp-comparable for ordering, no VaryingSize, storage
    alignment 1, equal fixed sizes) comparing the bytes of the two blocks is the lexicographical comparison of the element
    sequences under the element-level `<` -/
theorem vecLt_fastpath_is_lexicographical (ps : List Param) (fa fb : List Nat) (a b : List Elem) (hne : ps ≠ [])
    (hcond : (ps.all (·.ty.lexMemcmp) && isFixedOrPlain ps && storageAl ps == 1 && fixedSizesOf ps fa == fixedSizesOf ps fb) = true)
    (hal : ∀ p ∈ ps, p.al ≤ 1) (c : Nat) (hc : 0 < c)
    (hsz : ∀ e ∈ a ++ b, (runBytes ps e 0 (ps.length - 1)).length = c) :
    vecLt ps fa fb a b = lexBy (elemLt ps) a b := by
  have hall : ∀ p ∈ ps, p.ty.lexMemcmp = true ∧ p.al ≤ 1 := by
    intro p hp
    simp only [Bool.and_eq_true, List.all_eq_true] at hcond
    exact ⟨hcond.1.1.1 p hp, hal p hp⟩
  unfold vecLt
  simp only [hcond, if_true]
  have hfun : (elemLt ps) = (fun x y => lexLt (runBytes ps x 0 (ps.length - 1)) (runBytes ps y 0 (ps.length - 1))) := by
    funext x y; exact elemLt_single_run ps hne hall x y
  rw [hfun, ← lexBy_map lexLt (fun e => runBytes ps e 0 (ps.length - 1)) a b]
  have hflat : ∀ (l : List Elem), vecBytes ps l = (l.map (fun e => runBytes ps e 0 (ps.length - 1))).flatten := by
    intro l; simp [vecBytes, List.flatMap_def]
  rw [hflat a, hflat b]
  rw [lexLt_flatten c hc _ _
    (by intro x hx; obtain ⟨e, he, rfl⟩ := List.mem_map.mp hx; exact hsz e (by simp [he]))
    (by intro x hx; obtain ⟨e, he, rfl⟩ := List.mem_map.mp hx; exact hsz e (by simp [he]))]
  cases a with
  | nil => cases b <;> simp [lexBy]
  | cons x xs =>
    cases b with
    | nil => simp [lexBy]
    | cons y ys => simp

end Cntgs
