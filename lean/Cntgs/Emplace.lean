/-
M7 — what `emplace_back` stores for a FixedSize / VaryingSize parameter, for every form of source.

Source anchors:
  memcpyCompatible     detail/typeTraits.hpp MEMCPY_COMPATIBLE
  hasDataAndSize       detail/range.hpp HAS_DATA_AND_SIZE
  contiguousIterator   detail/iterator.hpp CONTIGUOUS_ITERATOR_V
  path                 detail/memory.hpp:82-130 uninitialized_range_construct / uninitialized_construct
  cast                 the C++ conversion `T(u)` on the representations used by the harness
-/
namespace Cntgs

/-- the value types of the C15 matrix -/
inductive Ty
  | u8 | i8 | c8 | b1 | u16 | i16 | u32 | i32 | u64 | i64 | f32 | f64
  | e8          -- unscoped enum : uint8_t
  | p64         -- int*
  | w1          -- trivially copyable class, 1 byte, converting constructor from uint8_t (stores v + 1)
  | w4          -- trivially copyable class, 4 bytes, converting constructor from uint32_t (stores v + 7)
  | conv        -- trivially copyable class, 4 bytes, conversion operator to uint32_t
  | cnt         -- non-trivial class counting its copies and moves, constructible from int32_t
  deriving DecidableEq, Repr, Inhabited

namespace Ty
def size : Ty → Nat
  | u8 | i8 | c8 | b1 | e8 | w1 => 1
  | u16 | i16 => 2
  | u32 | i32 | f32 | w4 | conv => 4
  | u64 | i64 | f64 | p64 => 8
  | cnt => 8
def integral : Ty → Bool
  | u8 | i8 | c8 | b1 | u16 | i16 | u32 | i32 | u64 | i64 => true
  | _ => false
def signed : Ty → Bool
  | i8 | c8 | i16 | i32 | i64 => true
  | _ => false
def floating : Ty → Bool
  | f32 | f64 => true
  | _ => false
def trivCopyable : Ty → Bool
  | cnt => false
  | _ => true
end Ty

/-- `MEMCPY_COMPATIBLE<T, U>` (T = stored type, U = source value type) -/
def memcpyCompatible (t u : Ty) : Bool :=
  t.size == u.size && t.trivCopyable && u.trivCopyable &&
    (t == u || (t.integral && u.integral && t != .b1))

/-- is `T(u)` well-formed for the pairs the matrix exercises -/
def constructible (t u : Ty) : Bool :=
  t == u ||
  (t.integral && u.integral) ||
  (t.integral && t != .b1 && u.floating) || (t.floating && u.integral && u != .b1) || (t.floating && u.floating) ||
  (t.integral && t != .b1 && u == .e8) ||
  (t == .w1 && u == .u8) || (t == .w4 && u == .u32) || (t == .u32 && u == .conv) || (t == .cnt && u == .i32)

/-- value of a `u`-typed representation as an integer (two's complement for the signed types) -/
def toInt (u : Ty) (v : Nat) : Int :=
  if u.signed && decide (v ≥ 2 ^ (8 * u.size - 1)) then (v : Int) - (2 ^ (8 * u.size) : Nat) else v

/-- the representation of `T(u)` given the representation `v` of `u`.
    integers, bool, enum: the object bytes as a little-endian number; floating point: the numeric value
    (the matrix uses small non-negative integers there); classes: their payload member. -/
def cast (t u : Ty) (v : Nat) : Nat :=
  if t == u then v else
  if t == .b1 then (if v = 0 then 0 else 1) else
  if t.integral then
    (if u.integral || u == .e8 then ((toInt u v) % ((2 ^ (8 * t.size) : Nat) : Int)).toNat
     else v % 2 ^ (8 * t.size))                       -- from floating point / conv: small non-negative values
  else if t.floating then (if u.integral then (toInt u v).toNat else v)
  else if t == .w1 then (v + 1) % 256
  else if t == .w4 then (v + 7) % 2 ^ 32
  else v

/-- the forms a source can take -/
inductive Form
  | vecL | vecR          -- std::vector<U>: contiguous, data()+size(); lvalue / rvalue
  | listL | listR        -- std::list<U>: node based
  | arrL                 -- C array (lvalue)
  | stdArrL              -- std::array lvalue
  | genL                 -- generated range (transforming iterator pair), lvalue
  | ptr                  -- U*
  | vecIt                -- std::vector<U>::iterator (contiguous iterator)
  | listIt               -- std::list<U>::iterator
  | moveIt               -- std::move_iterator<U*>
  | revIt                -- std::reverse_iterator<std::vector<U>::iterator>: random access, NOT contiguous
  | deqIt                -- std::deque<U>::iterator: random access, NOT contiguous
  | inIt                 -- a single-pass input iterator whose copies share their position (like std::istream_iterator)
  | strideIt             -- a user-defined random access iterator (lvalue references, pointer operator->) that visits every other object
  deriving DecidableEq, Repr, Inhabited

def Form.isRange : Form → Bool
  | .ptr | .vecIt | .listIt | .moveIt | .revIt | .deqIt | .inIt | .strideIt => false
  | _ => true
/-- `HAS_DATA_AND_SIZE<std::decay_t<Range>>`: a C array decays to a pointer, which has no `std::data` -/
def Form.hasDataAndSize : Form → Bool
  | .vecL | .vecR | .stdArrL => true
  | _ => false
def Form.rvalue : Form → Bool
  | .vecR | .listR => true
  | _ => false
def Form.isPointer : Form → Bool
  | .ptr => true
  | _ => false
/-- `CONTIGUOUS_ITERATOR_V` for the iterator forms (libstdc++ `__normal_iterator` qualifies) -/
def Form.contiguousIterator : Form → Bool
  | .vecIt => true
  | _ => false

inductive Path | memcpy | moveEach | copyEach
  deriving DecidableEq, Repr, Inhabited

/-- `uninitialized_construct<IgnoreAliasing = true>` -/
def path (f : Form) (t u : Ty) : Path :=
  if f.isRange then
    if f.hasDataAndSize && memcpyCompatible t u then .memcpy
    else if f.rvalue then .moveEach else .copyEach
  else
    if f.isPointer && memcpyCompatible t u then .memcpy
    else if f.contiguousIterator && memcpyCompatible t u then .memcpy
    else if f == .moveIt then .moveEach else .copyEach

/-- what ends up stored: `memcpy` stores the source bytes, the other two construct `T(item)` -/
def stored (f : Form) (t u : Ty) (items : List Nat) : List Nat :=
  match path f t u with
  | .memcpy => items
  | _ => items.map (cast t u)

/-- is each item moved from (exactly once) -/
def movesEach (f : Form) (t u : Ty) : Bool := path f t u == .moveEach

end Cntgs
