/-
Reference assignment and swap through the run tables act field by field (C11, C12).
-/
import Cntgs.RefIter
import Cntgs.RunsProofs
namespace Cntgs

theorem fold_range_inv {α : Type} (f : α → Nat → α) (Q : Nat → α → Prop) (init : α) (n : Nat)
    (h0 : Q 0 init) (hstep : ∀ k a, k < n → Q k a → Q (k + 1) (f a k)) :
    Q n ((List.range n).foldl f init) := by
  suffices h : ∀ m, m ≤ n → Q m ((List.range m).foldl f init) from h n (Nat.le_refl _)
  intro m
  induction m with
  | zero => intro _; simpa using h0
  | succ m ih =>
    intro hm
    rw [List.range_succ, List.foldl_append]
    exact hstep m _ (by omega) (ih (by omega))

theorem getD_set (e : Elem) (k j : Nat) (v : List Nat) :
    (e.set k v).getD j [] = if j = k ∧ k < e.length then v else e.getD j [] := by
  simp only [List.getD_eq_getElem?_getD, List.getElem?_set]
  by_cases hjk : k = j
  · subst hjk
    by_cases hk : k < e.length
    · simp [hk]
    · have : e[k]? = none := by simp; omega
      simp [hk, this]
  · have : ¬ (j = k ∧ k < e.length) := by intro h; exact hjk h.1.symm
    simp [hjk, this]

theorem copyFields_length (s t : Elem) (k last : Nat) : (copyFields s t k last).length = t.length := by
  simp [copyFields]

theorem copyFields_getD (s t : Elem) (k last j : Nat) (hj : j < t.length) :
    (copyFields s t k last).getD j [] = if k ≤ j ∧ j ≤ last then s.getD j [] else t.getD j [] := by
  simp [copyFields, List.getD_eq_getElem?_getD, List.getElem?_map, List.getElem?_range hj]

/-- position `j` has been handled by a step `< k` of the fold -/
def coveredBefore (T : Nat → RunEntry) (k j : Nat) : Prop :=
  (T j = .manual ∧ j < k) ∨ ∃ k' last, k' < k ∧ T k' = .upto last ∧ k' ≤ j ∧ j ≤ last

def zeros (l : List Nat) : List Nat := l.map (fun _ => 0)

/-- state of the assignment fold after the steps `< k` -/
structure AssignInv (T : Nat → RunEntry) (useMove : Bool) (n : Nat) (s0 t0 : Elem) (k : Nat) (st : Elem × Elem) : Prop where
  len1 : st.1.length = n
  len2 : st.2.length = n
  src : ∀ m, m < n → st.1.getD m [] = if (m < k ∧ T m = .manual ∧ useMove = true) then zeros (s0.getD m []) else s0.getD m []
  tgt : ∀ j, j < n → coveredBefore T k j → st.2.getD j [] = s0.getD j []

theorem assign_fold (pred : Param → Bool) (ps : List Param) (useMove : Bool) (s0 t0 : Elem)
    (hs : s0.length = ps.length) (ht : t0.length = ps.length) :
    let T := runsGo pred false ps 0 0 (fun _ => .skip)
    let r := (List.range ps.length).foldl (fun st k => assignOne (runs pred false ps) useMove k st) (s0, t0)
    AssignInv T useMove ps.length s0 t0 ps.length r := by
  intro T r
  have hok := runs_ok pred false ps
  apply fold_range_inv (fun st k => assignOne (runs pred false ps) useMove k st) (AssignInv T useMove ps.length s0 t0)
  · refine ⟨hs, ht, fun m hm => by simp, ?_⟩
    intro j _ hc
    rcases hc with ⟨_, h⟩ | ⟨k', _, h, _⟩ <;> omega
  · intro k st hk hinv
    have hT : (runs pred false ps).getD k .skip = T k := runs_getD pred false ps k hk
    unfold assignOne
    rw [hT]
    cases hTk : T k with
    | skip =>
      refine ⟨hinv.len1, hinv.len2, ?_, ?_⟩
      · intro m hm
        rw [hinv.src m hm]
        by_cases hmk : m = k
        · subst hmk; simp [hTk]
        · have : (m < k + 1) = (m < k) := by apply propext; omega
          simp only [this]
      · intro j hj hc
        apply hinv.tgt j hj
        rcases hc with ⟨h1, h2⟩ | ⟨k', last, h1, h2, h3⟩
        · left; refine ⟨h1, ?_⟩
          by_cases hjk : j = k
          · subst hjk; rw [hTk] at h1; exact absurd h1 (by simp)
          · omega
        · right
          by_cases hk' : k' = k
          · subst hk'; rw [hTk] at h2; exact absurd h2 (by simp)
          · exact ⟨k', last, by omega, h2, h3⟩
    | manual =>
      have hsk : st.1.getD k [] = s0.getD k [] := by
        rw [hinv.src k hk]; simp
      refine ⟨?_, ?_, ?_, ?_⟩
      · show (if useMove = true then st.1.set k _ else st.1).length = ps.length
        split <;> simp [hinv.len1]
      · show (st.2.set k _).length = ps.length
        simp [hinv.len2]
      · intro m hm
        show (if useMove = true then st.1.set k ((st.1.getD k []).map (fun _ => 0)) else st.1).getD m [] = _
        by_cases hmv : useMove = true
        · simp only [hmv, if_true]
          rw [getD_set]
          by_cases hmk : m = k
          · subst hmk
            have c1 : (m = m ∧ m < st.1.length) := ⟨rfl, by rw [hinv.len1]; exact hk⟩
            have c2 : (m < m + 1 ∧ T m = .manual ∧ True) := ⟨by omega, hTk, trivial⟩
            rw [if_pos c1, if_pos c2, hsk]; rfl
          · have h1 : ¬ (m = k ∧ k < st.1.length) := fun h => hmk h.1
            have : (m < k + 1) = (m < k) := by apply propext; omega
            rw [if_neg h1, hinv.src m hm]
            simp only [hmv, this]
        · simp only [hmv, Bool.false_eq_true, if_false]
          rw [hinv.src m hm]
          simp [hmv]
      · intro j hj hc
        show (st.2.set k (st.1.getD k [])).getD j [] = _
        rw [getD_set]
        by_cases hjk : j = k
        · subst hjk
          have c1 : (j = j ∧ j < st.2.length) := ⟨rfl, by rw [hinv.len2]; exact hk⟩
          rw [if_pos c1, hsk]
        · have h1 : ¬ (j = k ∧ k < st.2.length) := fun h => hjk h.1
          simp only [h1, if_false]
          apply hinv.tgt j hj
          rcases hc with ⟨h1, h2⟩ | ⟨k', last, h1, h2, h3⟩
          · left; exact ⟨h1, by omega⟩
          · right
            by_cases hk' : k' = k
            · subst hk'; rw [hTk] at h2; exact absurd h2 (by simp)
            · exact ⟨k', last, by omega, h2, h3⟩
    | upto last =>
      obtain ⟨hkl, hln, hpr⟩ := hok.run_wf k last hTk
      refine ⟨hinv.len1, ?_, ?_, ?_⟩
      · show (copyFields st.1 st.2 k last).length = ps.length
        rw [copyFields_length, hinv.len2]
      · intro m hm
        show st.1.getD m [] = _
        rw [hinv.src m hm]
        by_cases hmk : m = k
        · subst hmk; simp [hTk]
        · have : (m < k + 1) = (m < k) := by apply propext; omega
          simp only [this]
      · intro j hj hc
        show (copyFields st.1 st.2 k last).getD j [] = _
        rw [copyFields_getD _ _ _ _ _ (by rw [hinv.len2]; exact hj)]
        by_cases hin : k ≤ j ∧ j ≤ last
        · simp only [hin, and_self, if_true]
          rw [hinv.src j hj]
          have : ¬ (j < k ∧ T j = .manual ∧ useMove = true) := by omega
          simp [this]
        · simp only [hin, if_false]
          apply hinv.tgt j hj
          rcases hc with ⟨h1, h2⟩ | ⟨k', last', h1, h2, h3⟩
          · left; refine ⟨h1, ?_⟩
            by_cases hjk : j = k
            · subst hjk; rw [hTk] at h1; exact absurd h1 (by simp)
            · omega
          · right
            by_cases hk' : k' = k
            · subst hk'; rw [hTk] at h2; injection h2 with h2; subst h2; exact absurd h3 hin
            · exact ⟨k', last', by omega, h2, h3⟩

/-- every position is covered once the fold is complete -/
theorem covered_all (pred : Param → Bool) (ps : List Param) (j : Nat) (hj : j < ps.length) :
    coveredBefore (runsGo pred false ps 0 0 (fun _ => .skip)) ps.length j := by
  have hok := runs_ok pred false ps
  cases hp : predAt pred ps j
  · left; exact ⟨hok.manual_of_not j hj hp, hj⟩
  · obtain ⟨k, last, h1, h2, h3⟩ := hok.covered j hj hp
    right; exact ⟨k, last, by omega, h1, h2, h3⟩

/-- **reference assignment copies every field**: after `target = source` the target holds the source's
    field values, for every shape of the run table (memmove over runs of trivially assignable fields equals
    the per-field assignment) -/
theorem refAssign_target (ps : List Param) (useMove : Bool) (s t : Elem)
    (hs : s.length = ps.length) (ht : t.length = ps.length) : (refAssign ps useMove s t).2 = s := by
  unfold refAssign
  cases useMove
  · have h := assign_fold (·.ty.trivCopyAssign) ps false s t hs ht
    simp only [Bool.false_eq_true, if_false]
    apply List.ext_getElem (by rw [h.len2, hs])
    intro j h1 h2
    have hj : j < ps.length := by rw [h.len2] at h1; exact h1
    have := h.tgt j hj (covered_all _ ps j hj)
    simpa [List.getD_eq_getElem?_getD, List.getElem?_eq_getElem h1, List.getElem?_eq_getElem h2] using this
  · have h := assign_fold (·.ty.trivMoveAssign) ps true s t hs ht
    simp only [if_true]
    apply List.ext_getElem (by rw [h.len2, hs])
    intro j h1 h2
    have hj : j < ps.length := by rw [h.len2] at h1; exact h1
    have := h.tgt j hj (covered_all _ ps j hj)
    simpa [List.getD_eq_getElem?_getD, List.getElem?_eq_getElem h1, List.getElem?_eq_getElem h2] using this

/-- copy assignment leaves the source unchanged -/
theorem refAssign_copy_source (ps : List Param) (s t : Elem)
    (hs : s.length = ps.length) (ht : t.length = ps.length) : (refAssign ps false s t).1 = s := by
  unfold refAssign
  have h := assign_fold (·.ty.trivCopyAssign) ps false s t hs ht
  simp only [Bool.false_eq_true, if_false]
  apply List.ext_getElem (by rw [h.len1, hs])
  intro j h1 h2
  have hj : j < ps.length := by rw [h.len1] at h1; exact h1
  have := h.src j hj
  simpa [List.getD_eq_getElem?_getD, List.getElem?_eq_getElem h1, List.getElem?_eq_getElem h2] using this

/-- move assignment leaves trivially move-assignable fields of the source untouched (they are copied by
    `memmove`) and moves out of the others -/
theorem refAssign_move_source (ps : List Param) (s t : Elem) (j : Nat)
    (hs : s.length = ps.length) (ht : t.length = ps.length) (hj : j < ps.length) :
    (refAssign ps true s t).1.getD j [] =
      if predAt (·.ty.trivMoveAssign) ps j = true then s.getD j [] else zeros (s.getD j []) := by
  unfold refAssign
  have h := assign_fold (·.ty.trivMoveAssign) ps true s t hs ht
  have hok := runs_ok (·.ty.trivMoveAssign) false ps
  simp only [if_true]
  rw [h.src j hj]
  cases hp : predAt (·.ty.trivMoveAssign) ps j
  · have := hok.manual_of_not j hj hp
    simp [this, hj]
  · have : ¬ (runsGo (·.ty.trivMoveAssign) false ps 0 0 (fun _ => .skip) j = .manual) := by
      intro hm; have := (hok.manual_only_not j hm).2; rw [hp] at this; exact absurd this (by simp)
    simp [this]

end Cntgs

namespace Cntgs

theorem coveredBefore_succ (T : Nat → RunEntry) (k j : Nat) :
    coveredBefore T (k + 1) j ↔
      coveredBefore T k j ∨ (T k = .manual ∧ j = k) ∨ (∃ last, T k = .upto last ∧ k ≤ j ∧ j ≤ last) := by
  unfold coveredBefore
  constructor
  · rintro (⟨h1, h2⟩ | ⟨k', last, h1, h2, h3⟩)
    · by_cases hjk : j = k
      · subst hjk; exact Or.inr (Or.inl ⟨h1, rfl⟩)
      · exact Or.inl (Or.inl ⟨h1, by omega⟩)
    · by_cases hk' : k' = k
      · subst hk'; exact Or.inr (Or.inr ⟨last, h2, h3⟩)
      · exact Or.inl (Or.inr ⟨k', last, by omega, h2, h3⟩)
  · rintro ((⟨h1, h2⟩ | ⟨k', last, h1, h2, h3⟩) | ⟨h1, h2⟩ | ⟨last, h1, h2⟩)
    · exact Or.inl ⟨h1, by omega⟩
    · exact Or.inr ⟨k', last, by omega, h2, h3⟩
    · subst h2; exact Or.inl ⟨h1, by omega⟩
    · exact Or.inr ⟨k, last, by omega, h1, h2⟩

structure SwapInv (T : Nat → RunEntry) (n : Nat) (a0 b0 : Elem) (k : Nat) (st : Elem × Elem) : Prop where
  len1 : st.1.length = n
  len2 : st.2.length = n
  done : ∀ j, j < n → coveredBefore T k j → st.1.getD j [] = b0.getD j [] ∧ st.2.getD j [] = a0.getD j []
  todo : ∀ j, j < n → ¬ coveredBefore T k j → st.1.getD j [] = a0.getD j [] ∧ st.2.getD j [] = b0.getD j []

theorem swap_fold (ps : List Param) (a0 b0 : Elem) (ha : a0.length = ps.length) (hb : b0.length = ps.length) :
    SwapInv (runsGo (·.ty.trivSwap) false ps 0 0 (fun _ => .skip)) ps.length a0 b0 ps.length (refSwap ps a0 b0) := by
  unfold refSwap
  have hok := runs_ok (·.ty.trivSwap) false ps
  apply fold_range_inv (fun st k => swapOne (runs (·.ty.trivSwap) false ps) k st)
    (SwapInv (runsGo (·.ty.trivSwap) false ps 0 0 (fun _ => .skip)) ps.length a0 b0)
  · refine ⟨ha, hb, ?_, fun j _ _ => ⟨rfl, rfl⟩⟩
    intro j _ hc
    rcases hc with ⟨_, h⟩ | ⟨k', _, h, _⟩ <;> omega
  · intro k st hk hinv
    have hT := runs_getD (·.ty.trivSwap) false ps k hk
    unfold swapOne
    rw [hT]
    generalize hTdef : runsGo (·.ty.trivSwap) false ps 0 0 (fun _ => .skip) = T at *
    cases hTk : T k with
    | skip =>
      refine ⟨hinv.len1, hinv.len2, ?_, ?_⟩
      · intro j hj hc
        rw [coveredBefore_succ] at hc
        rcases hc with hc | ⟨h, _⟩ | ⟨l, h, _⟩
        · exact hinv.done j hj hc
        · rw [hTk] at h; exact absurd h (by simp)
        · rw [hTk] at h; exact absurd h (by simp)
      · intro j hj hc
        exact hinv.todo j hj (fun h => hc ((coveredBefore_succ T k j).mpr (Or.inl h)))
    | manual =>
      have hnk : ¬ coveredBefore T k k := by
        rintro (⟨_, h⟩ | ⟨k', last, h1, h2, h3, h4⟩)
        · omega
        · have hp := (hok.run_wf k' last h2).2.2 k h3 h4
          have hn := (hok.manual_only_not k hTk).2
          rw [hp] at hn; exact absurd hn (by simp)
      obtain ⟨hk1, hk2⟩ := hinv.todo k hk hnk
      refine ⟨by show (st.1.set k _).length = _; simp [hinv.len1], by show (st.2.set k _).length = _; simp [hinv.len2], ?_, ?_⟩
      · intro j hj hc
        show (st.1.set k (st.2.getD k [])).getD j [] = _ ∧ (st.2.set k (st.1.getD k [])).getD j [] = _
        rw [getD_set, getD_set]
        by_cases hjk : j = k
        · subst hjk
          have c1 : (j = j ∧ j < st.1.length) := ⟨rfl, by rw [hinv.len1]; exact hk⟩
          have c2 : (j = j ∧ j < st.2.length) := ⟨rfl, by rw [hinv.len2]; exact hk⟩
          rw [if_pos c1, if_pos c2]; exact ⟨hk2, hk1⟩
        · have c1 : ¬ (j = k ∧ k < st.1.length) := fun h => hjk h.1
          have c2 : ¬ (j = k ∧ k < st.2.length) := fun h => hjk h.1
          rw [if_neg c1, if_neg c2]
          rw [coveredBefore_succ] at hc
          rcases hc with hc | ⟨_, h⟩ | ⟨l, h, _⟩
          · exact hinv.done j hj hc
          · exact absurd h hjk
          · rw [hTk] at h; exact absurd h (by simp)
      · intro j hj hc
        have hjk : j ≠ k := by
          intro h; subst h; exact hc ((coveredBefore_succ T j j).mpr (Or.inr (Or.inl ⟨hTk, rfl⟩)))
        show (st.1.set k (st.2.getD k [])).getD j [] = _ ∧ (st.2.set k (st.1.getD k [])).getD j [] = _
        rw [getD_set, getD_set]
        have c1 : ¬ (j = k ∧ k < st.1.length) := fun h => hjk h.1
        have c2 : ¬ (j = k ∧ k < st.2.length) := fun h => hjk h.1
        rw [if_neg c1, if_neg c2]
        exact hinv.todo j hj (fun h => hc ((coveredBefore_succ T k j).mpr (Or.inl h)))
    | upto last =>
      obtain ⟨hkl, hln, hpr⟩ := hok.run_wf k last hTk
      have hfresh : ∀ j, k ≤ j → j ≤ last → ¬ coveredBefore T k j := by
        intro j h1 h2
        rintro (⟨hm, _⟩ | ⟨k', l', h3, h4, h5, h6⟩)
        · have hn := (hok.manual_only_not j hm).2
          rw [hpr j h1 h2] at hn; exact absurd hn (by simp)
        · have := hok.disjoint k' l' k last h4 hTk h3; omega
      refine ⟨by show (copyFields st.2 st.1 k last).length = _; rw [copyFields_length, hinv.len1],
              by show (copyFields st.1 st.2 k last).length = _; rw [copyFields_length, hinv.len2], ?_, ?_⟩
      · intro j hj hc
        show (copyFields st.2 st.1 k last).getD j [] = _ ∧ (copyFields st.1 st.2 k last).getD j [] = _
        rw [copyFields_getD _ _ _ _ _ (by rw [hinv.len1]; exact hj), copyFields_getD _ _ _ _ _ (by rw [hinv.len2]; exact hj)]
        by_cases hin : k ≤ j ∧ j ≤ last
        · rw [if_pos hin, if_pos hin]
          obtain ⟨h1, h2⟩ := hinv.todo j hj (hfresh j hin.1 hin.2)
          exact ⟨h2, h1⟩
        · rw [if_neg hin, if_neg hin]
          rw [coveredBefore_succ] at hc
          rcases hc with hc | ⟨h, _⟩ | ⟨l, h, h2⟩
          · exact hinv.done j hj hc
          · rw [hTk] at h; exact absurd h (by simp)
          · rw [hTk] at h; injection h with h; subst h; exact absurd h2 hin
      · intro j hj hc
        have hin : ¬ (k ≤ j ∧ j ≤ last) := fun h => hc ((coveredBefore_succ T k j).mpr (Or.inr (Or.inr ⟨last, hTk, h⟩)))
        show (copyFields st.2 st.1 k last).getD j [] = _ ∧ (copyFields st.1 st.2 k last).getD j [] = _
        rw [copyFields_getD _ _ _ _ _ (by rw [hinv.len1]; exact hj), copyFields_getD _ _ _ _ _ (by rw [hinv.len2]; exact hj),
            if_neg hin, if_neg hin]
        exact hinv.todo j hj (fun h => hc ((coveredBefore_succ T k j).mpr (Or.inl h)))

/-- **swap exchanges every field exactly once**, whatever mixture of byte-swapped runs and per-field
    swaps the run table prescribes -/
theorem refSwap_exchanges (ps : List Param) (a b : Elem) (ha : a.length = ps.length) (hb : b.length = ps.length) :
    refSwap ps a b = (b, a) := by
  have h := swap_fold ps a b ha hb
  have e1 : (refSwap ps a b).1 = b := by
    apply List.ext_getElem (by rw [h.len1, hb])
    intro j h1 h2
    have hj : j < ps.length := by rw [h.len1] at h1; exact h1
    have := (h.done j hj (covered_all _ ps j hj)).1
    simpa [List.getD_eq_getElem?_getD, List.getElem?_eq_getElem h1, List.getElem?_eq_getElem h2] using this
  have e2 : (refSwap ps a b).2 = a := by
    apply List.ext_getElem (by rw [h.len2, ha])
    intro j h1 h2
    have hj : j < ps.length := by rw [h.len2] at h1; exact h1
    have := (h.done j hj (covered_all _ ps j hj)).2
    simpa [List.getD_eq_getElem?_getD, List.getElem?_eq_getElem h1, List.getElem?_eq_getElem h2] using this
  exact Prod.ext e1 e2

end Cntgs
