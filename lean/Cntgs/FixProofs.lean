/-
The stride locator (`AllFixedSizeElementLocator`, lists without a VaryingSize parameter): every history of
emplace_back / pop_back / erase / clear / reserve keeps the canonical picture "element k lives at stride * k",
and the stride computed by the constructor (`calculate_element_size`) leaves room for every element.
-/
import Cntgs.VectorProofs
import Cntgs.SizeProofs
namespace Cntgs

def varyingCount (ps : List Param) : Nat := (ps.filter (·.kind = .varying)).length

theorem counts_split (ps : List Param) : fixedCount ps + varyingCount ps = contiguousCount ps := by
  induction ps with
  | nil => rfl
  | cons p ps ih =>
    unfold fixedCount varyingCount contiguousCount at *
    simp only [ne_eq, decide_not] at ih ⊢
    cases hk : p.kind <;> simp [hk] <;> omega

theorem noVarying_of_fixedOrPlain (ps : List Param) (h : isFixedOrPlain ps = true) : NoVarying ps := by
  have hs := counts_split ps
  have hv : varyingCount ps = 0 := by
    unfold isFixedOrPlain isAllFixed isAllPlain at h
    simp only [Bool.or_eq_true, Bool.and_eq_true, decide_eq_true_eq] at h
    rcases h with h | h
    · omega
    · omega
  intro p hp hk
  unfold varyingCount at hv
  have : p ∈ ps.filter (·.kind = .varying) := by simp [List.mem_filter, hp, hk]
  rw [List.length_eq_zero_iff.mp hv] at this
  simp at this

theorem meets_zero (r : Rec) (a : Nat) : r.meets a 0 = false := by simp [Rec.meets]

theorem moveHits_zero (m : Mem) (s t : Nat) : m.moveHits s 0 t = false := by
  unfold Mem.moveHits
  simp [meets_zero]

theorem move_zero_mem (m : Mem) (hpos : ∀ r ∈ m, 0 < r.sz) (s t : Nat) : ∀ x, x ∈ m.move s 0 t ↔ x ∈ m := by
  intro x
  have hin : ∀ r ∈ m, r.inside s 0 = false := by
    intro r hr
    have := hpos r hr
    simp only [Rec.inside, Nat.add_zero, Bool.and_eq_false_iff, decide_eq_false_iff_not]
    omega
  unfold Mem.move
  simp only [List.mem_append, List.mem_map, List.mem_filter, meets_zero, Bool.not_false, Bool.and_true,
    Bool.not_eq_true']
  constructor
  · rintro (⟨r, ⟨hr, hi⟩, _⟩ | ⟨hx, _⟩)
    · rw [hin r hr] at hi; exact absurd hi (by simp)
    · exact hx
  · intro hx; exact Or.inr ⟨hx, hin x hx⟩

/-- `FixInv` looks at the block only through membership -/
theorem FixInv.of_mem {v w : Vec} {es : List Elem} (h : FixInv v es) (hps : w.ps = v.ps) (hloc : w.loc = v.loc)
    (hpo : w.poison = false) (hm : ∀ x, x ∈ w.mem ↔ x ∈ v.mem) : FixInv w es := by
  have hf : w.fixedLoc = v.fixedLoc := by unfold Vec.fixedLoc; rw [hps]
  refine ⟨hps ▸ h.lok, hf ▸ h.isFixed, hps ▸ h.eok, hloc ▸ h.count_eq, ?_, ?_, ?_, hpo⟩
  · rw [hps, hloc]; exact h.stride_dvd
  · rw [hps, hloc]; exact h.fits
  · rw [hps, hloc]; intro x; rw [hm x]; exact h.mem_eq x

theorem popBack_eq_eraseRange_fix (v : Vec) (hf : v.fixedLoc = true) (hpos : 0 < v.loc.count) :
    v.popBack = v.eraseRange (v.loc.count - 1) v.loc.count := by
  have hf' : isFixedOrPlain v.ps = true := hf
  have h1 : v.loc.count - (v.loc.count - 1) = 1 := by omega
  simp only [Vec.popBack, Vec.eraseRange, Vec.size, Vec.fixedLoc, hf', if_true, Nat.lt_irrefl, false_and, if_false,
    Vec.destructRange, h1, List.range_one, List.map_cons, List.map_nil, List.foldl_cons, List.foldl_nil, Nat.zero_add]

theorem clear_eq_eraseRange_fix (v : Vec) (hf : v.fixedLoc = true) : v.clear = v.eraseRange 0 v.loc.count := by
  have hf' : isFixedOrPlain v.ps = true := hf
  simp only [Vec.clear, Vec.eraseRange, Vec.size, Vec.fixedLoc, hf', if_true, Nat.lt_irrefl, false_and, if_false,
    Nat.sub_zero, Nat.sub_self]

theorem FixInv.eraseRange' {v : Vec} {es : List Elem} (h : FixInv v es) (ht : v.trivialReloc = true) (i j : Nat)
    (hij : i ≤ j) (hj : j ≤ es.length) : FixInv (v.eraseRange i j) (es.take i ++ es.drop j) := by
  obtain ⟨he, h1, h2⟩ := split_range es i j hij hj
  have h' : FixInv v (es.take i ++ (es.drop i).take (j - i) ++ es.drop j) := by rw [← he]; exact h
  have := FixInv.eraseRange (es.take i) ((es.drop i).take (j - i)) (es.drop j) h' ht
  rw [h1, h2, show i + (j - i) = j by omega] at this
  exact this

theorem erase_fix_mid (v : Vec) (i : Nat) (hf : v.fixedLoc = true) (hlast : i + 1 < v.loc.count) :
    v.erase i = v.eraseRange i (i + 1) := by
  have hf' : isFixedOrPlain v.ps = true := hf
  have h1 : i + 1 - i = 1 := by omega
  have hne : i ≠ i + 1 := by omega
  simp only [Vec.erase, Vec.eraseRange, Vec.size, Vec.fixedLoc, hf', if_true, hlast, hne, ne_eq,
    not_false_eq_true, and_self, h1]

theorem erase_fix_last (v : Vec) (i : Nat) (hf : v.fixedLoc = true) (ht : v.trivialReloc = true) (hi : i + 1 = v.loc.count) :
    v.erase i =
      { v with mem := (v.destructRange i (i + 1)).move (v.loc.stride * (i + 1)) 0 (v.loc.stride * i),
               poison := v.poison || (v.destructRange i (i + 1)).moveHits (v.loc.stride * (i + 1)) 0 (v.loc.stride * i),
               loc := { v.loc with count := v.loc.count - 1 } } := by
  have hf' : isFixedOrPlain v.ps = true := hf
  have ht' : (v.ps.all fun p => p.ty.trivMoveCtor && p.ty.trivDtor) = true := ht
  simp only [Vec.erase, Vec.size, Vec.fixedLoc, hf', if_true, Vec.moveForward, Vec.trivialReloc, ht',
    Vec.moveForwardTrivial, Bool.not_true, Bool.false_and, Bool.false_eq_true, if_false, Vec.addr, Vec.dataEnd, Loc.resize,
    ← hi, Nat.sub_self]

theorem FixInv.erase {v : Vec} {es : List Elem} (h : FixInv v es) (ht : v.trivialReloc = true) (i : Nat) (hi : i < es.length) :
    FixInv (v.erase i) (es.take i ++ es.drop (i + 1)) := by
  have hgoal := h.eraseRange' ht i (i + 1) (by omega) hi
  by_cases hlast : i + 1 < v.loc.count
  · rw [erase_fix_mid v i h.isFixed hlast]; exact hgoal
  · have hi' : i + 1 = v.loc.count := by rw [h.count_eq] at hlast ⊢; omega
    rw [erase_fix_last v i h.isFixed ht hi']
    rw [eraseRange_fix_nomove v i (i + 1) h.isFixed (by omega)] at hgoal
    have hpos : ∀ r ∈ v.destructRange i (i + 1), 0 < r.sz := by
      intro r hr
      obtain ⟨k, hk, _, rfl⟩ := (h.destruct_holds i (i + 1) (by omega) r).mp hr
      exact (fix_ordered h).1 k hk
    refine hgoal.of_mem rfl ?_ ?_ ?_
    · simp only; congr 1; omega
    · simp only [h.clean, moveHits_zero, Bool.or_false]
    · intro x; exact move_zero_mem _ hpos _ _ x

theorem FixInv.reserve {v : Vec} {es : List Elem} (h : FixInv v es) (n b : Nat) (junk : Nat → Nat) :
    FixInv (v.reserve n b junk) es := by
  unfold Vec.reserve
  split
  · have hf' : isFixedOrPlain v.ps = true := h.isFixed
    refine h.of_mem rfl ?_ h.clean (fun _ => Iff.rfl)
    simp [Vec.fixedLoc, hf']
  · exact h

/-- the empty vector right after construction; the stride is a multiple of the storage alignment -/
theorem FixInv.new (ps : List Param) (fs : List Nat) (cap bytes : Nat) (junk : Nat → Nat) (hl : ListOK ps)
    (hf : isFixedOrPlain ps = true) (hlf : ps.length ≤ fs.length) : FixInv (Vec.new ps fs cap bytes junk) [] := by
  have hnv := noVarying_of_fixedOrPlain ps hf
  have hst := (elemSize_fixed ps fs hl.wf hl.ne hnv hlf).2
  refine ⟨hl, hf, fun _ h => absurd h (by simp), rfl, ?_, fun _ h => absurd h (by simp), ?_, rfl⟩
  · show storageAl ps ∣ (elemSize ps fs).stride
    rw [hst]; exact alignUp_dvd _ _
  · intro x; simp [Vec.new]

/-- an element whose FixedSize fields have exactly the sizes the vector was constructed with fits its slot -/
theorem fixed_fit (ps : List Param) (fs : List Nat) (hl : ListOK ps) (hf : isFixedOrPlain ps = true) (hlf : ps.length ≤ fs.length)
    (e : Elem) (he : elemCounts e = fixedCounts ps fs) : esz ps e ≤ (elemSize ps fs).stride := by
  have hnv := noVarying_of_fixedOrPlain ps hf
  obtain ⟨_, hst⟩ := elemSize_fixed ps fs hl.wf hl.ne hnv hlf
  rw [hst]; unfold esz; rw [he]
  exact alignUp_ge _ _ (storage_pos hl)

/-- preconditions for the stride locator: the new element fits the stride -/
def VOp.PreFix (ps : List Param) (stride : Nat) (es : List Elem) (op : VOp) : Prop :=
  op.Pre ps es ∧ (match op with | .emplace e => esz ps e ≤ stride | _ => True)

theorem FixInv.step {v : Vec} {es : List Elem} (h : FixInv v es) (ht : v.trivialReloc = true) (junk : Nat → Nat) (op : VOp)
    (hpre : op.PreFix v.ps v.loc.stride es) : FixInv (op.apply junk v) (op.spec es) := by
  cases op with
  | emplace e => exact h.emplaceBack e hpre.1.1 hpre.1.2 hpre.2
  | pop =>
    have hl : 0 < es.length := List.length_pos_iff.mpr hpre.1
    simp only [VOp.apply, VOp.spec]
    rw [popBack_eq_eraseRange_fix v h.isFixed (by rw [h.count_eq]; exact hl), h.count_eq]
    have := h.eraseRange' ht (es.length - 1) es.length (by omega) (Nat.le_refl _)
    rw [List.drop_length, List.append_nil] at this
    rw [List.dropLast_eq_take]; exact this
  | erase i => exact h.erase ht i hpre.1
  | eraseRange i j => exact h.eraseRange' ht i j hpre.1.1 hpre.1.2
  | clear =>
    simp only [VOp.apply, VOp.spec]
    rw [clear_eq_eraseRange_fix v h.isFixed, h.count_eq]
    have := h.eraseRange' ht 0 es.length (Nat.zero_le _) (Nat.le_refl _)
    simpa using this
  | reserve n b => exact h.reserve n b junk

/-- no operation changes the stride of the stride locator -/
theorem apply_stride {v : Vec} {es : List Elem} (h : FixInv v es) (ht : v.trivialReloc = true) (junk : Nat → Nat) (op : VOp) :
    (op.apply junk v).loc.stride = v.loc.stride := by
  have hf' : isFixedOrPlain v.ps = true := h.isFixed
  have ht' : (v.ps.all fun p => p.ty.trivMoveCtor && p.ty.trivDtor) = true := ht
  cases op with
  | emplace e => simp only [VOp.apply, Vec.emplaceBack, Vec.fixedLoc, hf', if_true]
  | pop => simp only [VOp.apply, Vec.popBack, Vec.fixedLoc, hf', Loc.resize, if_true]
  | erase i =>
    simp only [VOp.apply, Vec.erase, Vec.fixedLoc, hf', Loc.resize, if_true, Vec.moveForward, Vec.trivialReloc, ht',
      Vec.moveForwardTrivial, Bool.not_true, Bool.false_and, Bool.false_eq_true, if_false]
  | eraseRange i j =>
    simp only [VOp.apply, Vec.eraseRange, Vec.fixedLoc, hf', Loc.resize, if_true, Vec.moveForward, Vec.trivialReloc, ht',
      Vec.moveForwardTrivial, Bool.not_true, Bool.false_and, Bool.false_eq_true, if_false]
    split <;> rfl
  | clear => simp only [VOp.apply, Vec.clear, Vec.fixedLoc, hf', Loc.resize, if_true]
  | reserve n b => simp only [VOp.apply, Vec.reserve, Vec.fixedLoc, hf', if_true]; split <;> rfl

def ValidFix (ps : List Param) (stride : Nat) : List Elem → List VOp → Prop
  | _, [] => True
  | es, op :: ops => op.PreFix ps stride es ∧ ValidFix ps stride (op.spec es) ops

/-- **every history** on the stride locator -/
theorem FixInv.history {v : Vec} {es : List Elem} (h : FixInv v es) (ht : v.trivialReloc = true) (junk : Nat → Nat)
    (ops : List VOp) (hv : ValidFix v.ps v.loc.stride es ops) :
    FixInv (ops.foldl (VOp.apply junk) v) (ops.foldl VOp.spec es) := by
  induction ops generalizing v es with
  | nil => exact h
  | cons op ops ih =>
    simp only [List.foldl_cons]
    have hps := apply_ps junk v op
    have hst := apply_stride h ht junk op
    apply ih (h.step ht junk op hv.1)
    · unfold Vec.trivialReloc at ht ⊢; rw [hps]; exact ht
    · rw [hps, hst]; exact hv.2

/-! ### histories that relocate nothing: any value types

`emplace_back`, `pop_back`, `clear`, `reserve` and erasing at the end never relocate an element, so the refinement
holds for non-trivial value types as well. -/

def VOp.NoReloc (es : List Elem) : VOp → Prop
  | .erase i => i + 1 = es.length
  | .eraseRange i j => j = es.length ∨ i = j
  | _ => True

theorem VarInv.eraseRange'_gen {v : Vec} {es : List Elem} (h : VarInv v es) (i j : Nat)
    (hij : i ≤ j) (hj : j ≤ es.length) (ht' : j < es.length → i < j → v.trivialReloc = true) :
    VarInv (v.eraseRange i j) (es.take i ++ es.drop j) := by
  obtain ⟨he, h1, h2⟩ := split_range es i j hij hj
  have h' : VarInv v (es.take i ++ (es.drop i).take (j - i) ++ es.drop j) := by rw [← he]; exact h
  have := VarInv.eraseRange_gen (es.take i) ((es.drop i).take (j - i)) (es.drop j) h' (by
    intro hB hM
    apply ht'
    · have : 0 < (es.drop j).length := List.length_pos_iff.mpr hB
      simp at this; omega
    · have : 0 < ((es.drop i).take (j - i)).length := List.length_pos_iff.mpr hM
      simp at this; omega)
  rw [h1, h2, show i + (j - i) = j by omega] at this
  exact this

theorem FixInv.eraseRange'_gen {v : Vec} {es : List Elem} (h : FixInv v es) (i j : Nat)
    (hij : i ≤ j) (hj : j ≤ es.length) (ht' : j < es.length → i < j → v.trivialReloc = true) :
    FixInv (v.eraseRange i j) (es.take i ++ es.drop j) := by
  obtain ⟨he, h1, h2⟩ := split_range es i j hij hj
  have h' : FixInv v (es.take i ++ (es.drop i).take (j - i) ++ es.drop j) := by rw [← he]; exact h
  have := FixInv.eraseRange_gen (es.take i) ((es.drop i).take (j - i)) (es.drop j) h' (by
    intro hB hM
    apply ht'
    · have : 0 < (es.drop j).length := List.length_pos_iff.mpr hB
      simp at this; omega
    · have : 0 < ((es.drop i).take (j - i)).length := List.length_pos_iff.mpr hM
      simp at this; omega)
  rw [h1, h2, show i + (j - i) = j by omega] at this
  exact this

/-- erasing the last element by position: the relocation loop has nothing to do, whatever the value types -/
theorem erase_last_eq_eraseRange (v : Vec) (i : Nat) (ht : v.trivialReloc = false) (hi : i + 1 = v.size) :
    v.erase i = v.eraseRange i (i + 1) := by
  have ht' : (v.ps.all fun p => p.ty.trivMoveCtor && p.ty.trivDtor) = false := ht
  have h0 : v.size - (i + 1) = 0 := by omega
  have hlt : ¬ (i + 1 < v.size) := by omega
  have h1 : i + 1 - i = 1 := by omega
  simp only [Vec.erase, Vec.eraseRange, hlt, false_and, if_false, Vec.moveForward, Vec.trivialReloc, ht',
    Bool.false_eq_true, Vec.moveForwardElementwise, h1]
  have h2 : ({ v with mem := v.destructRange i (i + 1) } : Vec).size = v.size := rfl
  rw [h2, h0, List.range_zero, List.foldl_nil]

theorem VarInv.step_noreloc {v : Vec} {es : List Elem} (h : VarInv v es) (junk : Nat → Nat) (op : VOp)
    (hpre : op.Pre v.ps es) (hnr : op.NoReloc es) : VarInv (op.apply junk v) (op.spec es) := by
  have hsz : v.size = es.length := by simp [Vec.size, h.notFixed, h.size_eq]
  cases op with
  | emplace e => exact h.emplaceBack e hpre.1 hpre.2
  | pop =>
    have hl : 0 < es.length := List.length_pos_iff.mpr hpre
    simp only [VOp.apply, VOp.spec]
    rw [popBack_eq_eraseRange v h.notFixed (by rw [h.size_eq]; exact hl), h.size_eq]
    have := h.eraseRange'_gen (es.length - 1) es.length (by omega) (Nat.le_refl _) (fun hh => absurd hh (by omega))
    rw [List.drop_length, List.append_nil] at this
    rw [List.dropLast_eq_take]; exact this
  | erase i =>
    simp only [VOp.apply, VOp.spec]
    have hgoal := h.eraseRange'_gen i (i + 1) (by omega) hpre (fun hh => absurd hh (by simp only [VOp.NoReloc] at hnr; omega))
    cases ht : v.trivialReloc with
    | true => rw [erase_eq_eraseRange v i h.notFixed ht (by rw [h.size_eq]; exact hpre)]; exact hgoal
    | false => rw [erase_last_eq_eraseRange v i ht (by rw [hsz]; exact hnr)]; exact hgoal
  | eraseRange i j =>
    exact h.eraseRange'_gen i j hpre.1 hpre.2 (fun h1 h2 => by
      simp only [VOp.NoReloc] at hnr; omega)
  | clear =>
    simp only [VOp.apply, VOp.spec]
    rw [clear_eq_eraseRange v h.notFixed, h.size_eq]
    have := h.eraseRange'_gen 0 es.length (Nat.zero_le _) (Nat.le_refl _) (fun hh => absurd hh (by omega))
    simpa using this
  | reserve n b => exact h.reserve n b junk

theorem FixInv.step_noreloc {v : Vec} {es : List Elem} (h : FixInv v es) (junk : Nat → Nat) (op : VOp)
    (hpre : op.PreFix v.ps v.loc.stride es) (hnr : op.NoReloc es) : FixInv (op.apply junk v) (op.spec es) := by
  have hsz : v.size = es.length := by simp [Vec.size, h.isFixed, h.count_eq]
  cases op with
  | emplace e => exact h.emplaceBack e hpre.1.1 hpre.1.2 hpre.2
  | pop =>
    have hl : 0 < es.length := List.length_pos_iff.mpr hpre.1
    simp only [VOp.apply, VOp.spec]
    rw [popBack_eq_eraseRange_fix v h.isFixed (by rw [h.count_eq]; exact hl), h.count_eq]
    have := h.eraseRange'_gen (es.length - 1) es.length (by omega) (Nat.le_refl _) (fun hh => absurd hh (by omega))
    rw [List.drop_length, List.append_nil] at this
    rw [List.dropLast_eq_take]; exact this
  | erase i =>
    simp only [VOp.apply, VOp.spec]
    cases ht : v.trivialReloc with
    | true => exact h.erase ht i hpre.1
    | false =>
      rw [erase_last_eq_eraseRange v i ht (by rw [hsz]; exact hnr)]
      exact h.eraseRange'_gen i (i + 1) (by omega) hpre.1 (fun hh => absurd hh (by simp only [VOp.NoReloc] at hnr; omega))
  | eraseRange i j =>
    exact h.eraseRange'_gen i j hpre.1.1 hpre.1.2 (fun h1 h2 => by
      simp only [VOp.NoReloc] at hnr; omega)
  | clear =>
    simp only [VOp.apply, VOp.spec]
    rw [clear_eq_eraseRange_fix v h.isFixed, h.count_eq]
    have := h.eraseRange'_gen 0 es.length (Nat.zero_le _) (Nat.le_refl _) (fun hh => absurd hh (by omega))
    simpa using this
  | reserve n b => exact h.reserve n b junk

/-- histories in which every erase ends at the end of the vector -/
def ValidNoReloc (ps : List Param) : List Elem → List VOp → Prop
  | _, [] => True
  | es, op :: ops => op.Pre ps es ∧ op.NoReloc es ∧ ValidNoReloc ps (op.spec es) ops

theorem VarInv.history_noreloc {v : Vec} {es : List Elem} (h : VarInv v es) (junk : Nat → Nat)
    (ops : List VOp) (hv : ValidNoReloc v.ps es ops) :
    VarInv (ops.foldl (VOp.apply junk) v) (ops.foldl VOp.spec es) := by
  induction ops generalizing v es with
  | nil => exact h
  | cons op ops ih =>
    simp only [List.foldl_cons]
    have hps := apply_ps junk v op
    apply ih (h.step_noreloc junk op hv.1 hv.2.1)
    rw [hps]; exact hv.2.2

end Cntgs
