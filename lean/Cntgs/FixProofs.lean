/-
The stride locator (`AllFixedSizeElementLocator`, lists without a VaryingSize parameter): every history of
emplace_back / pop_back / erase / clear / reserve keeps the canonical picture "element k lives at stride * k",
and the stride computed by the constructor (`calculate_element_size`) leaves room for every element.
-/
import Cntgs.VectorProofs
import Cntgs.SizeProofs
namespace Cntgs

def varyingCount (ps : List Param) : Nat := (ps.filter (·.kind = .varying)).length

theorem counts_split (ps : List Param) : fixedCount ps + varyingCount ps = contiguousCount ps := by
  induction ps with
  | nil => rfl
  | cons p ps ih =>
    unfold fixedCount varyingCount contiguousCount at *
    simp only [ne_eq, decide_not] at ih ⊢
    cases hk : p.kind <;> simp [hk] <;> omega

theorem noVarying_of_fixedOrPlain (ps : List Param) (h : isFixedOrPlain ps = true) : NoVarying ps := by
  have hs := counts_split ps
  have hv : varyingCount ps = 0 := by
    unfold isFixedOrPlain isAllFixed isAllPlain at h
    simp only [Bool.or_eq_true, Bool.and_eq_true, decide_eq_true_eq] at h
    rcases h with h | h
    · omega
    · omega
  intro p hp hk
  unfold varyingCount at hv
  have : p ∈ ps.filter (·.kind = .varying) := by simp [List.mem_filter, hp, hk]
  rw [List.length_eq_zero_iff.mp hv] at this
  simp at this

theorem meets_zero (r : Rec) (a : Nat) : r.meets a 0 = false := by simp [Rec.meets]

theorem moveHits_zero (m : Mem) (s t : Nat) : m.moveHits s 0 t = false := by
  unfold Mem.moveHits
  simp [meets_zero]

theorem move_zero_mem (m : Mem) (hpos : ∀ r ∈ m, 0 < r.sz) (s t : Nat) : ∀ x, x ∈ m.move s 0 t ↔ x ∈ m := by
  intro x
  have hin : ∀ r ∈ m, r.inside s 0 = false := by
    intro r hr
    have := hpos r hr
    simp only [Rec.inside, Nat.add_zero, Bool.and_eq_false_iff, decide_eq_false_iff_not]
    omega
  unfold Mem.move
  simp only [List.mem_append, List.mem_map, List.mem_filter, meets_zero, Bool.not_false, Bool.and_true,
    Bool.not_eq_true']
  constructor
  · rintro (⟨r, ⟨hr, hi⟩, _⟩ | ⟨hx, _⟩)
    · rw [hin r hr] at hi; exact absurd hi (by simp)
    · exact hx
  · intro hx; exact Or.inr ⟨hx, hin x hx⟩

/-- `FixInv` looks at the block only through membership -/
theorem FixInv.of_mem {v w : Vec} {es : List Elem} (h : FixInv v es) (hps : w.ps = v.ps) (hloc : w.loc = v.loc)
    (hpo : w.poison = false) (hm : ∀ x, x ∈ w.mem ↔ x ∈ v.mem) : FixInv w es := by
  have hf : w.fixedLoc = v.fixedLoc := by unfold Vec.fixedLoc; rw [hps]
  refine ⟨hps ▸ h.lok, hf ▸ h.isFixed, hps ▸ h.eok, hloc ▸ h.count_eq, ?_, ?_, ?_, hpo⟩
  · rw [hps, hloc]; exact h.stride_dvd
  · rw [hps, hloc]; exact h.fits
  · rw [hps, hloc]; intro x; rw [hm x]; exact h.mem_eq x

theorem popBack_eq_eraseRange_fix (v : Vec) (hf : v.fixedLoc = true) (hpos : 0 < v.loc.count) :
    v.popBack = v.eraseRange (v.loc.count - 1) v.loc.count := by
  have hf' : isFixedOrPlain v.ps = true := hf
  have h1 : v.loc.count - (v.loc.count - 1) = 1 := by omega
  simp only [Vec.popBack, Vec.eraseRange, Vec.size, Vec.fixedLoc, hf', if_true, Nat.lt_irrefl, false_and, if_false,
    Vec.destructRange, h1, List.range_one, List.map_cons, List.map_nil, List.foldl_cons, List.foldl_nil, Nat.zero_add]

theorem clear_eq_eraseRange_fix (v : Vec) (hf : v.fixedLoc = true) : v.clear = v.eraseRange 0 v.loc.count := by
  have hf' : isFixedOrPlain v.ps = true := hf
  simp only [Vec.clear, Vec.eraseRange, Vec.size, Vec.fixedLoc, hf', if_true, Nat.lt_irrefl, false_and, if_false,
    Nat.sub_zero, Nat.sub_self]

theorem FixInv.eraseRange' {v : Vec} {es : List Elem} (h : FixInv v es) (ht : v.trivialReloc = true) (i j : Nat)
    (hij : i ≤ j) (hj : j ≤ es.length) : FixInv (v.eraseRange i j) (es.take i ++ es.drop j) := by
  obtain ⟨he, h1, h2⟩ := split_range es i j hij hj
  have h' : FixInv v (es.take i ++ (es.drop i).take (j - i) ++ es.drop j) := by rw [← he]; exact h
  have := FixInv.eraseRange (es.take i) ((es.drop i).take (j - i)) (es.drop j) h' ht
  rw [h1, h2, show i + (j - i) = j by omega] at this
  exact this

theorem erase_fix_mid (v : Vec) (i : Nat) (hf : v.fixedLoc = true) (hlast : i + 1 < v.loc.count) :
    v.erase i = v.eraseRange i (i + 1) := by
  have hf' : isFixedOrPlain v.ps = true := hf
  have h1 : i + 1 - i = 1 := by omega
  have hne : i ≠ i + 1 := by omega
  simp only [Vec.erase, Vec.eraseRange, Vec.size, Vec.fixedLoc, hf', if_true, hlast, hne, ne_eq,
    not_false_eq_true, and_self, h1]

theorem erase_fix_last (v : Vec) (i : Nat) (hf : v.fixedLoc = true) (ht : v.trivialReloc = true) (hi : i + 1 = v.loc.count) :
    v.erase i =
      { v with mem := (v.destructRange i (i + 1)).move (v.loc.stride * (i + 1)) 0 (v.loc.stride * i),
               poison := v.poison || (v.destructRange i (i + 1)).moveHits (v.loc.stride * (i + 1)) 0 (v.loc.stride * i),
               loc := { v.loc with count := v.loc.count - 1 } } := by
  have hf' : isFixedOrPlain v.ps = true := hf
  have ht' : (v.ps.all fun p => p.ty.trivMoveCtor && p.ty.trivDtor) = true := ht
  simp only [Vec.erase, Vec.size, Vec.fixedLoc, hf', if_true, Vec.moveForward, Vec.trivialReloc, ht',
    Vec.moveForwardTrivial, Bool.not_true, Bool.false_and, Bool.false_eq_true, if_false, Vec.addr, Vec.dataEnd, Loc.resize,
    ← hi, Nat.sub_self]

theorem FixInv.erase {v : Vec} {es : List Elem} (h : FixInv v es) (ht : v.trivialReloc = true) (i : Nat) (hi : i < es.length) :
    FixInv (v.erase i) (es.take i ++ es.drop (i + 1)) := by
  have hgoal := h.eraseRange' ht i (i + 1) (by omega) hi
  by_cases hlast : i + 1 < v.loc.count
  · rw [erase_fix_mid v i h.isFixed hlast]; exact hgoal
  · have hi' : i + 1 = v.loc.count := by rw [h.count_eq] at hlast ⊢; omega
    rw [erase_fix_last v i h.isFixed ht hi']
    rw [eraseRange_fix_nomove v i (i + 1) h.isFixed (by omega)] at hgoal
    have hpos : ∀ r ∈ v.destructRange i (i + 1), 0 < r.sz := by
      intro r hr
      obtain ⟨k, hk, _, rfl⟩ := (h.destruct_holds i (i + 1) (by omega) r).mp hr
      exact (fix_ordered h).1 k hk
    refine hgoal.of_mem rfl ?_ ?_ ?_
    · simp only; congr 1; omega
    · simp only [h.clean, moveHits_zero, Bool.or_false]
    · intro x; exact move_zero_mem _ hpos _ _ x

theorem FixInv.reserve {v : Vec} {es : List Elem} (h : FixInv v es) (n b : Nat) (junk : Nat → Nat) :
    FixInv (v.reserve n b junk) es := by
  unfold Vec.reserve
  split
  · have hf' : isFixedOrPlain v.ps = true := h.isFixed
    refine h.of_mem rfl ?_ h.clean (fun _ => Iff.rfl)
    simp [Vec.fixedLoc, hf']
  · exact h

/-- the empty vector right after construction; the stride is a multiple of the storage alignment -/
theorem FixInv.new (ps : List Param) (fs : List Nat) (cap bytes : Nat) (junk : Nat → Nat) (hl : ListOK ps)
    (hf : isFixedOrPlain ps = true) (hlf : ps.length ≤ fs.length) : FixInv (Vec.new ps fs cap bytes junk) [] := by
  have hnv := noVarying_of_fixedOrPlain ps hf
  have hst := (elemSize_fixed ps fs hl.wf hl.ne hnv hlf).2
  refine ⟨hl, hf, fun _ h => absurd h (by simp), rfl, ?_, fun _ h => absurd h (by simp), ?_, rfl⟩
  · show storageAl ps ∣ (elemSize ps fs).stride
    rw [hst]; exact alignUp_dvd _ _
  · intro x; simp [Vec.new]

/-- an element whose FixedSize fields have exactly the sizes the vector was constructed with fits its slot -/
theorem fixed_fit (ps : List Param) (fs : List Nat) (hl : ListOK ps) (hf : isFixedOrPlain ps = true) (hlf : ps.length ≤ fs.length)
    (e : Elem) (he : elemCounts e = fixedCounts ps fs) : esz ps e ≤ (elemSize ps fs).stride := by
  have hnv := noVarying_of_fixedOrPlain ps hf
  obtain ⟨_, hst⟩ := elemSize_fixed ps fs hl.wf hl.ne hnv hlf
  rw [hst]; unfold esz; rw [he]
  exact alignUp_ge _ _ (storage_pos hl)

/-- preconditions for the stride locator: the new element fits the stride -/
def VOp.PreFix (ps : List Param) (stride : Nat) (es : List Elem) (op : VOp) : Prop :=
  op.Pre ps es ∧ (match op with | .emplace e => esz ps e ≤ stride | _ => True)

theorem FixInv.step {v : Vec} {es : List Elem} (h : FixInv v es) (ht : v.trivialReloc = true) (junk : Nat → Nat) (op : VOp)
    (hpre : op.PreFix v.ps v.loc.stride es) : FixInv (op.apply junk v) (op.spec es) := by
  cases op with
  | emplace e => exact h.emplaceBack e hpre.1.1 hpre.1.2 hpre.2
  | pop =>
    have hl : 0 < es.length := List.length_pos_iff.mpr hpre.1
    simp only [VOp.apply, VOp.spec]
    rw [popBack_eq_eraseRange_fix v h.isFixed (by rw [h.count_eq]; exact hl), h.count_eq]
    have := h.eraseRange' ht (es.length - 1) es.length (by omega) (Nat.le_refl _)
    rw [List.drop_length, List.append_nil] at this
    rw [List.dropLast_eq_take]; exact this
  | erase i => exact h.erase ht i hpre.1
  | eraseRange i j => exact h.eraseRange' ht i j hpre.1.1 hpre.1.2
  | clear =>
    simp only [VOp.apply, VOp.spec]
    rw [clear_eq_eraseRange_fix v h.isFixed, h.count_eq]
    have := h.eraseRange' ht 0 es.length (Nat.zero_le _) (Nat.le_refl _)
    simpa using this
  | reserve n b => exact h.reserve n b junk

/-- no operation changes the stride of the stride locator -/
theorem apply_stride {v : Vec} {es : List Elem} (h : FixInv v es) (ht : v.trivialReloc = true) (junk : Nat → Nat) (op : VOp) :
    (op.apply junk v).loc.stride = v.loc.stride := by
  have hf' : isFixedOrPlain v.ps = true := h.isFixed
  have ht' : (v.ps.all fun p => p.ty.trivMoveCtor && p.ty.trivDtor) = true := ht
  cases op with
  | emplace e => simp only [VOp.apply, Vec.emplaceBack, Vec.fixedLoc, hf', if_true]
  | pop => simp only [VOp.apply, Vec.popBack, Vec.fixedLoc, hf', Loc.resize, if_true]
  | erase i =>
    simp only [VOp.apply, Vec.erase, Vec.fixedLoc, hf', Loc.resize, if_true, Vec.moveForward, Vec.trivialReloc, ht',
      Vec.moveForwardTrivial, Bool.not_true, Bool.false_and, Bool.false_eq_true, if_false]
  | eraseRange i j =>
    simp only [VOp.apply, Vec.eraseRange, Vec.fixedLoc, hf', Loc.resize, if_true, Vec.moveForward, Vec.trivialReloc, ht',
      Vec.moveForwardTrivial, Bool.not_true, Bool.false_and, Bool.false_eq_true, if_false]
    split <;> rfl
  | clear => simp only [VOp.apply, Vec.clear, Vec.fixedLoc, hf', Loc.resize, if_true]
  | reserve n b => simp only [VOp.apply, Vec.reserve, Vec.fixedLoc, hf', if_true]; split <;> rfl

def ValidFix (ps : List Param) (stride : Nat) : List Elem → List VOp → Prop
  | _, [] => True
  | es, op :: ops => op.PreFix ps stride es ∧ ValidFix ps stride (op.spec es) ops

/-- **every history** on the stride locator -/
theorem FixInv.history {v : Vec} {es : List Elem} (h : FixInv v es) (ht : v.trivialReloc = true) (junk : Nat → Nat)
    (ops : List VOp) (hv : ValidFix v.ps v.loc.stride es ops) :
    FixInv (ops.foldl (VOp.apply junk) v) (ops.foldl VOp.spec es) := by
  induction ops generalizing v es with
  | nil => exact h
  | cons op ops ih =>
    simp only [List.foldl_cons]
    have hps := apply_ps junk v op
    have hst := apply_stride h ht junk op
    apply ih (h.step ht junk op hv.1)
    · unfold Vec.trivialReloc at ht ⊢; rw [hps]; exact ht
    · rw [hps, hst]; exact hv.2

/-! ### histories that relocate nothing: any value types

`emplace_back`, `pop_back`, `clear`, `reserve` and erasing at the end never relocate an element, so the refinement
holds for non-trivial value types as well. -/

def VOp.NoReloc (es : List Elem) : VOp → Prop
  | .erase i => i + 1 = es.length
  | .eraseRange i j => j = es.length ∨ i = j
  | _ => True

theorem VarInv.eraseRange'_gen {v : Vec} {es : List Elem} (h : VarInv v es) (i j : Nat)
    (hij : i ≤ j) (hj : j ≤ es.length) (ht' : j < es.length → i < j → v.trivialReloc = true) :
    VarInv (v.eraseRange i j) (es.take i ++ es.drop j) := by
  obtain ⟨he, h1, h2⟩ := split_range es i j hij hj
  have h' : VarInv v (es.take i ++ (es.drop i).take (j - i) ++ es.drop j) := by rw [← he]; exact h
  have := VarInv.eraseRange_gen (es.take i) ((es.drop i).take (j - i)) (es.drop j) h' (by
    intro hB hM
    apply ht'
    · have : 0 < (es.drop j).length := List.length_pos_iff.mpr hB
      simp at this; omega
    · have : 0 < ((es.drop i).take (j - i)).length := List.length_pos_iff.mpr hM
      simp at this; omega)
  rw [h1, h2, show i + (j - i) = j by omega] at this
  exact this

theorem FixInv.eraseRange'_gen {v : Vec} {es : List Elem} (h : FixInv v es) (i j : Nat)
    (hij : i ≤ j) (hj : j ≤ es.length) (ht' : j < es.length → i < j → v.trivialReloc = true) :
    FixInv (v.eraseRange i j) (es.take i ++ es.drop j) := by
  obtain ⟨he, h1, h2⟩ := split_range es i j hij hj
  have h' : FixInv v (es.take i ++ (es.drop i).take (j - i) ++ es.drop j) := by rw [← he]; exact h
  have := FixInv.eraseRange_gen (es.take i) ((es.drop i).take (j - i)) (es.drop j) h' (by
    intro hB hM
    apply ht'
    · have : 0 < (es.drop j).length := List.length_pos_iff.mpr hB
      simp at this; omega
    · have : 0 < ((es.drop i).take (j - i)).length := List.length_pos_iff.mpr hM
      simp at this; omega)
  rw [h1, h2, show i + (j - i) = j by omega] at this
  exact this

/-- erasing the last element by position: the relocation loop has nothing to do, whatever the value types -/
theorem erase_last_eq_eraseRange (v : Vec) (i : Nat) (ht : v.trivialReloc = false) (hi : i + 1 = v.size) :
    v.erase i = v.eraseRange i (i + 1) := by
  have ht' : (v.ps.all fun p => p.ty.trivMoveCtor && p.ty.trivDtor) = false := ht
  have h0 : v.size - (i + 1) = 0 := by omega
  have hlt : ¬ (i + 1 < v.size) := by omega
  have h1 : i + 1 - i = 1 := by omega
  simp only [Vec.erase, Vec.eraseRange, hlt, false_and, if_false, Vec.moveForward, Vec.trivialReloc, ht',
    Bool.false_eq_true, Vec.moveForwardElementwise, h1]
  have h2 : ({ v with mem := v.destructRange i (i + 1) } : Vec).size = v.size := rfl
  rw [h2, h0, List.range_zero, List.foldl_nil]

theorem VarInv.step_noreloc {v : Vec} {es : List Elem} (h : VarInv v es) (junk : Nat → Nat) (op : VOp)
    (hpre : op.Pre v.ps es) (hnr : op.NoReloc es) : VarInv (op.apply junk v) (op.spec es) := by
  have hsz : v.size = es.length := by simp [Vec.size, h.notFixed, h.size_eq]
  cases op with
  | emplace e => exact h.emplaceBack e hpre.1 hpre.2
  | pop =>
    have hl : 0 < es.length := List.length_pos_iff.mpr hpre
    simp only [VOp.apply, VOp.spec]
    rw [popBack_eq_eraseRange v h.notFixed (by rw [h.size_eq]; exact hl), h.size_eq]
    have := h.eraseRange'_gen (es.length - 1) es.length (by omega) (Nat.le_refl _) (fun hh => absurd hh (by omega))
    rw [List.drop_length, List.append_nil] at this
    rw [List.dropLast_eq_take]; exact this
  | erase i =>
    simp only [VOp.apply, VOp.spec]
    have hgoal := h.eraseRange'_gen i (i + 1) (by omega) hpre (fun hh => absurd hh (by simp only [VOp.NoReloc] at hnr; omega))
    cases ht : v.trivialReloc with
    | true => rw [erase_eq_eraseRange v i h.notFixed ht (by rw [h.size_eq]; exact hpre)]; exact hgoal
    | false => rw [erase_last_eq_eraseRange v i ht (by rw [hsz]; exact hnr)]; exact hgoal
  | eraseRange i j =>
    exact h.eraseRange'_gen i j hpre.1 hpre.2 (fun h1 h2 => by
      simp only [VOp.NoReloc] at hnr; omega)
  | clear =>
    simp only [VOp.apply, VOp.spec]
    rw [clear_eq_eraseRange v h.notFixed, h.size_eq]
    have := h.eraseRange'_gen 0 es.length (Nat.zero_le _) (Nat.le_refl _) (fun hh => absurd hh (by omega))
    simpa using this
  | reserve n b => exact h.reserve n b junk

theorem FixInv.step_noreloc {v : Vec} {es : List Elem} (h : FixInv v es) (junk : Nat → Nat) (op : VOp)
    (hpre : op.PreFix v.ps v.loc.stride es) (hnr : op.NoReloc es) : FixInv (op.apply junk v) (op.spec es) := by
  have hsz : v.size = es.length := by simp [Vec.size, h.isFixed, h.count_eq]
  cases op with
  | emplace e => exact h.emplaceBack e hpre.1.1 hpre.1.2 hpre.2
  | pop =>
    have hl : 0 < es.length := List.length_pos_iff.mpr hpre.1
    simp only [VOp.apply, VOp.spec]
    rw [popBack_eq_eraseRange_fix v h.isFixed (by rw [h.count_eq]; exact hl), h.count_eq]
    have := h.eraseRange'_gen (es.length - 1) es.length (by omega) (Nat.le_refl _) (fun hh => absurd hh (by omega))
    rw [List.drop_length, List.append_nil] at this
    rw [List.dropLast_eq_take]; exact this
  | erase i =>
    simp only [VOp.apply, VOp.spec]
    cases ht : v.trivialReloc with
    | true => exact h.erase ht i hpre.1
    | false =>
      rw [erase_last_eq_eraseRange v i ht (by rw [hsz]; exact hnr)]
      exact h.eraseRange'_gen i (i + 1) (by omega) hpre.1 (fun hh => absurd hh (by simp only [VOp.NoReloc] at hnr; omega))
  | eraseRange i j =>
    exact h.eraseRange'_gen i j hpre.1.1 hpre.1.2 (fun h1 h2 => by
      simp only [VOp.NoReloc] at hnr; omega)
  | clear =>
    simp only [VOp.apply, VOp.spec]
    rw [clear_eq_eraseRange_fix v h.isFixed, h.count_eq]
    have := h.eraseRange'_gen 0 es.length (Nat.zero_le _) (Nat.le_refl _) (fun hh => absurd hh (by omega))
    simpa using this
  | reserve n b => exact h.reserve n b junk

/-- histories in which every erase ends at the end of the vector -/
def ValidNoReloc (ps : List Param) : List Elem → List VOp → Prop
  | _, [] => True
  | es, op :: ops => op.Pre ps es ∧ op.NoReloc es ∧ ValidNoReloc ps (op.spec es) ops

theorem VarInv.history_noreloc {v : Vec} {es : List Elem} (h : VarInv v es) (junk : Nat → Nat)
    (ops : List VOp) (hv : ValidNoReloc v.ps es ops) :
    VarInv (ops.foldl (VOp.apply junk) v) (ops.foldl VOp.spec es) := by
  induction ops generalizing v es with
  | nil => exact h
  | cons op ops ih =>
    simp only [List.foldl_cons]
    have hps := apply_ps junk v op
    apply ih (h.step_noreloc junk op hv.1 hv.2.1)
    rw [hps]; exact hv.2.2

/-! ### element-wise relocation on the stride locator (non-trivial value types)

Every element is relocated by a whole number of strides towards the front, so source and target never overlap and every
target slot was vacated before (erased or relocated earlier): the canonical picture is kept, nothing live is clobbered. -/

/-- the records while the relocation loop runs: the first `i + k` elements sit in their final slots, the others still
    `d` slots further back -/
def relocRec (ps : List Param) (stride : Nat) (new : List Elem) (i d k : Nat) (q : Nat) : Rec :=
  ⟨stride * (if q < i + k then q else q + d), esz ps (new.getD q []), new.getD q []⟩

theorem relocRec_ordered (ps : List Param) (stride : Nat) (new : List Elem) (i d k : Nat)
    (hok : ElemsOK ps new) (hfit : ∀ e ∈ new, esz ps e ≤ stride) : Ordered new.length (relocRec ps stride new i d k) := by
  have hm : ∀ q, q < new.length → new.getD q [] ∈ new := by
    intro q hq
    rw [List.getD_eq_getElem?_getD, List.getElem?_eq_getElem hq]; exact List.getElem_mem hq
  constructor
  · intro q hq; exact (hok _ (hm q hq)).2
  · intro q hq
    simp only [relocRec]
    have h1 := hfit _ (hm q (by omega))
    have h2 : stride * (if q < i + k then q else q + d) + stride ≤ stride * (if q + 1 < i + k then q + 1 else q + 1 + d) := by
      rw [← Nat.mul_succ]; apply Nat.mul_le_mul_left
      split <;> split <;> omega
    omega

theorem relocate_fold_fix (v : Vec) (hl : ListOK v.ps) (hf : v.fixedLoc = true) (hdvd : storageAl v.ps ∣ v.loc.stride)
    (new : List Elem) (hok : ElemsOK v.ps new) (hfit : ∀ e ∈ new, esz v.ps e ≤ v.loc.stride) (i d : Nat) (hd : 0 < d) :
    ∀ (cnt k : Nat) (w : Vec), i + k + cnt ≤ new.length → w.ps = v.ps → w.loc = v.loc → w.poison = false →
      Holds w.mem new.length (relocRec v.ps v.loc.stride new i d k) →
      ((List.range' k cnt).foldl (fun (w : Vec) q => w.relocateOne (i + q) (i + d + q)) w).ps = v.ps ∧
      ((List.range' k cnt).foldl (fun (w : Vec) q => w.relocateOne (i + q) (i + d + q)) w).loc = v.loc ∧
      ((List.range' k cnt).foldl (fun (w : Vec) q => w.relocateOne (i + q) (i + d + q)) w).poison = false ∧
      Holds ((List.range' k cnt).foldl (fun (w : Vec) q => w.relocateOne (i + q) (i + d + q)) w).mem new.length
        (relocRec v.ps v.loc.stride new i d (k + cnt)) := by
  intro cnt
  induction cnt with
  | zero => intro k w _ hps hloc hpo hh; exact ⟨hps, hloc, hpo, hh⟩
  | succ cnt ih =>
    intro k w hlen hps hloc hpo hh
    simp only [List.range'_succ, List.foldl_cons]
    have hord := relocRec_ordered v.ps v.loc.stride new i d k hok hfit
    have hc : i + k < new.length := by omega
    have hmem : new.getD (i + k) [] ∈ new := by
      rw [List.getD_eq_getElem?_getD, List.getElem?_eq_getElem hc]; exact List.getElem_mem hc
    have hsz := hfit _ hmem
    have heok := (hok _ hmem).1
    have hfw : w.fixedLoc = true := by unfold Vec.fixedLoc; rw [hps]; exact hf
    -- the source record and the target slot
    have hsrc : (relocRec v.ps v.loc.stride new i d k (i + k)).off = v.loc.stride * (i + d + k) := by
      simp only [relocRec, Nat.lt_irrefl, if_false]; congr 1; omega
    have hrel := relocate_holds hh hord (i + k) hc (v.loc.stride * (i + k))
      (by
        intro q hq
        simp only [relocRec, hq, if_true]
        have hq' : q < new.length := by omega
        have hmq : new.getD q [] ∈ new := by
          rw [List.getD_eq_getElem?_getD, List.getElem?_eq_getElem hq']; exact List.getElem_mem hq'
        have := hfit _ hmq
        have h2 : v.loc.stride * q + v.loc.stride ≤ v.loc.stride * (i + k) := by
          rw [← Nat.mul_succ]; exact Nat.mul_le_mul_left _ hq
        omega)
      (by
        intro q hq hqn
        have hnq : ¬ q < i + k := by omega
        simp only [relocRec, hnq, if_false, Nat.lt_irrefl]
        have h2 : v.loc.stride * (i + k) + v.loc.stride ≤ v.loc.stride * (q + d) := by
          rw [← Nat.mul_succ]; apply Nat.mul_le_mul_left; omega
        omega)
    obtain ⟨hfind, hhit, hholds⟩ := hrel
    rw [hsrc] at hfind hhit hholds
    -- unfold one relocation step
    have hstep : w.relocateOne (i + k) (i + d + k) =
        { w with mem := (w.mem.drop (v.loc.stride * (i + d + k))).write (v.loc.stride * (i + k))
                          (relocRec v.ps v.loc.stride new i d k (i + k)).sz (relocRec v.ps v.loc.stride new i d k (i + k)).e } := by
      have haddr1 : w.addr (i + d + k) = v.loc.stride * (i + d + k) := by simp [Vec.addr, hfw, hloc]
      have haddr2 : w.addr (i + k) = v.loc.stride * (i + k) := by simp [Vec.addr, hfw, hloc]
      have hd2 : storageAl v.ps ∣ v.loc.stride * (i + k) := Nat.dvd_trans hdvd (Nat.dvd_mul_right _ _)
      have hfin : placeEnd w.ps (elemCounts (relocRec v.ps v.loc.stride new i d k (i + k)).e) (v.loc.stride * (i + k)) =
          v.loc.stride * (i + k) + (relocRec v.ps v.loc.stride new i d k (i + k)).sz := by
        rw [hps]; exact placeEnd_aligned hl _ heok _ hd2
      have hge : v.loc.stride * (i + k) + v.loc.stride ≤ v.loc.stride * (i + d + k) := by
        rw [← Nat.mul_succ]; apply Nat.mul_le_mul_left; omega
      have hszr : (relocRec v.ps v.loc.stride new i d k (i + k)).sz ≤ v.loc.stride := hsz
      unfold Vec.relocateOne
      simp only [haddr1, haddr2, hfind, hfin, hfw, if_true, Nat.add_sub_cancel_left, hhit, hpo, Bool.or_false]
      have hov : (decide (v.loc.stride * (i + k) < v.loc.stride * (i + d + k) + (relocRec v.ps v.loc.stride new i d k (i + k)).sz) &&
          decide (v.loc.stride * (i + d + k) < v.loc.stride * (i + k) + (relocRec v.ps v.loc.stride new i d k (i + k)).sz)) = false := by
        simp only [Bool.and_eq_false_iff, decide_eq_false_iff_not]; right; omega
      rw [hov]; simp [hpo]
    rw [hstep]
    have hfam : ∀ q, q < new.length →
        (if q = i + k then (⟨v.loc.stride * (i + k), (relocRec v.ps v.loc.stride new i d k (i + k)).sz,
            (relocRec v.ps v.loc.stride new i d k (i + k)).e⟩ : Rec) else relocRec v.ps v.loc.stride new i d k q) =
          relocRec v.ps v.loc.stride new i d (k + 1) q := by
      intro q _
      by_cases hq : q = i + k
      · subst hq
        have h1 : i + k < i + (k + 1) := by omega
        simp only [if_true, relocRec, h1]
      · simp only [hq, if_false, relocRec]
        by_cases h1 : q < i + k
        · have h2 : q < i + (k + 1) := by omega
          simp only [h1, h2, if_true]
        · have h2 : ¬ q < i + (k + 1) := by omega
          simp only [h1, h2, if_false]
    have hnext := ih (k + 1)
      { w with mem := (w.mem.drop (v.loc.stride * (i + d + k))).write (v.loc.stride * (i + k))
                          (relocRec v.ps v.loc.stride new i d k (i + k)).sz (relocRec v.ps v.loc.stride new i d k (i + k)).e }
      (by omega) hps hloc hpo (hholds.congr hfam)
    rw [show k + 1 + cnt = k + (cnt + 1) by omega] at hnext
    exact hnext

/-- `moveForward` never changes the stride of the stride locator -/
theorem C16aux_moveForward_loc (v : Vec) (src dst : Nat) (hf : v.fixedLoc = true) :
    (v.moveForward src dst).loc.stride = v.loc.stride := by
  have hf' : isFixedOrPlain v.ps = true := hf
  unfold Vec.moveForward
  split
  · simp only [Vec.moveForwardTrivial, Vec.fixedLoc, hf', Bool.not_true, Bool.false_and, Bool.false_eq_true, if_false, if_true]
  · simp only [Vec.moveForwardElementwise]
    generalize List.range _ = l
    suffices hh : ∀ (w : Vec), (l.foldl (fun (w : Vec) k => w.relocateOne (dst + k) (src + k)) w).loc.stride = w.loc.stride from hh v
    induction l with
    | nil => intro w; rfl
    | cons k ks ih =>
      intro w; simp only [List.foldl_cons]; rw [ih]
      simp only [Vec.relocateOne]
      split
      · rfl
      · simp only; split <;> rfl

theorem eraseRange_fix_elementwise (v : Vec) (i j : Nat) (hf : v.fixedLoc = true) (ht : v.trivialReloc = false)
    (hij : i < j) (hjn : j < v.loc.count) :
    v.eraseRange i j =
      { ((List.range (v.loc.count - j)).foldl (fun (w : Vec) k => w.relocateOne (i + k) (j + k)) { v with mem := v.destructRange i j }) with
        loc := (((List.range (v.loc.count - j)).foldl (fun (w : Vec) k => w.relocateOne (i + k) (j + k)) { v with mem := v.destructRange i j }).loc.resize
          ((List.range (v.loc.count - j)).foldl (fun (w : Vec) k => w.relocateOne (i + k) (j + k)) { v with mem := v.destructRange i j }).fixedLoc
          (v.loc.count - (j - i))) } := by
  have hne : i ≠ j := by omega
  have hf' : isFixedOrPlain v.ps = true := hf
  have ht' : (v.ps.all fun p => p.ty.trivMoveCtor && p.ty.trivDtor) = false := ht
  have hsz : v.size = v.loc.count := by simp [Vec.size, hf]
  have hsz1 : ({ v with mem := v.destructRange i j } : Vec).size = v.loc.count := hsz
  simp only [Vec.eraseRange, hsz, hjn, hne, ne_eq, not_false_eq_true, and_self, if_true, Vec.moveForward, Vec.trivialReloc, ht',
    Bool.false_eq_true, if_false, Vec.moveForwardElementwise, hsz1]

/-- **erase(first, last) on the stride locator, element-wise path**: same refinement as on the memmove path, and no live
    object is ever clobbered -/
theorem FixInv.eraseRange_elementwise {v : Vec} (A M B : List Elem) (h : FixInv v (A ++ M ++ B)) (hnt : v.trivialReloc = false)
    (hB : B ≠ []) (hM : M ≠ []) : FixInv (v.eraseRange A.length (A.length + M.length)) (A ++ B) := by
  have hlen : (A ++ M ++ B).length = A.length + M.length + B.length := by simp only [List.length_append]
  have hcnt : v.loc.count = A.length + M.length + B.length := by rw [h.count_eq, hlen]
  have hBl : 0 < B.length := List.length_pos_iff.mpr hB
  have hMl : 0 < M.length := List.length_pos_iff.mpr hM
  have hsub : ∀ x ∈ A ++ B, x ∈ A ++ M ++ B := by
    intro x hx
    rcases List.mem_append.mp hx with hx | hx
    · exact List.mem_append_left _ (List.mem_append_left _ hx)
    · exact List.mem_append_right _ hx
  have hok' : ElemsOK v.ps (A ++ B) := fun x hx => h.eok x (hsub x hx)
  have hfit' : ∀ e ∈ A ++ B, esz v.ps e ≤ v.loc.stride := fun x hx => h.fits x (hsub x hx)
  have hdrop := h.destruct_holds A.length (A.length + M.length) (by omega)
  have hfront : ∀ k, k < A.length → (A ++ B).getD k [] = (A ++ M ++ B).getD k [] := by
    intro k hk
    rw [getD_append_left' A B k hk, List.append_assoc, getD_append_left' A (M ++ B) k hk]
  have htail : ∀ k, (A ++ B).getD (A.length + k) [] = (A ++ M ++ B).getD (A.length + M.length + k) [] := by
    intro k
    rw [getD_append_right' A B k]
    have := getD_append_right' (A ++ M) B k
    simpa [List.length_append] using this.symm
  -- after the destruction of the erased range
  have h0 : Holds (v.destructRange A.length (A.length + M.length)) (A ++ B).length
      (relocRec v.ps v.loc.stride (A ++ B) A.length M.length 0) := by
    intro x
    rw [hdrop x]
    simp only [List.length_append, Nat.add_zero]
    constructor
    · rintro ⟨k, hk, hout, rfl⟩
      rcases hout with hk1 | hk2
      · exact ⟨k, by omega, by simp only [relocRec, fixRec, hk1, if_true, Nat.add_zero, hfront k hk1]⟩
      · refine ⟨k - M.length, by omega, ?_⟩
        have hnl : ¬ (k - M.length < A.length) := by omega
        have e3 := htail (k - (A.length + M.length))
        rw [show A.length + M.length + (k - (A.length + M.length)) = k by omega,
            show A.length + (k - (A.length + M.length)) = k - M.length by omega] at e3
        simp only [relocRec, fixRec, Nat.add_zero, hnl, if_false, e3, show k - M.length + M.length = k by omega]
    · rintro ⟨q, hq, rfl⟩
      by_cases hqa : q < A.length
      · exact ⟨q, by omega, Or.inl hqa, by simp only [relocRec, fixRec, hqa, if_true, Nat.add_zero, hfront q hqa]⟩
      · refine ⟨q + M.length, by omega, Or.inr (by omega), ?_⟩
        have e3 := htail (q - A.length)
        rw [show A.length + (q - A.length) = q by omega,
            show A.length + M.length + (q - A.length) = q + M.length by omega] at e3
        simp only [relocRec, fixRec, Nat.add_zero, hqa, if_false, e3]
  rw [eraseRange_fix_elementwise v _ _ h.isFixed hnt (by omega) (by omega)]
  have hfold := relocate_fold_fix v h.lok h.isFixed h.stride_dvd (A ++ B) hok' hfit' A.length M.length hMl
    (v.loc.count - (A.length + M.length)) 0 { v with mem := v.destructRange A.length (A.length + M.length) }
    (by simp only [List.length_append]; omega) rfl rfl h.clean h0
  rw [← List.range_eq_range'] at hfold
  obtain ⟨g1, g2, g3, g4⟩ := hfold
  generalize (List.range (v.loc.count - (A.length + M.length))).foldl
    (fun (w : Vec) q => w.relocateOne (A.length + q) (A.length + M.length + q))
    { v with mem := v.destructRange A.length (A.length + M.length) } = w at g1 g2 g3 g4
  have hfw : w.fixedLoc = true := by unfold Vec.fixedLoc; rw [g1]; exact h.isFixed
  refine ⟨g1 ▸ h.lok, hfw, g1 ▸ hok', ?_, ?_, ?_, ?_, g3⟩
  · simp only [Loc.resize, hfw, if_true, List.length_append]; omega
  · simp only [Loc.resize, hfw, if_true, g1, g2]; exact h.stride_dvd
  · simp only [Loc.resize, hfw, if_true, g1, g2]; exact hfit'
  · simp only [Loc.resize, hfw, if_true, g1, g2]
    refine g4.congr ?_
    intro q hq
    simp only [List.length_append] at hq
    have : q < A.length + (0 + (v.loc.count - (A.length + M.length))) := by omega
    simp only [relocRec, fixRec, this, if_true]

/-- erase(first, last) on the stride locator for **all** value types -/
theorem FixInv.eraseRange_all {v : Vec} {es : List Elem} (h : FixInv v es) (i j : Nat) (hij : i ≤ j) (hj : j ≤ es.length) :
    FixInv (v.eraseRange i j) (es.take i ++ es.drop j) := by
  cases ht : v.trivialReloc with
  | true => exact h.eraseRange' ht i j hij hj
  | false =>
    by_cases hmove : j < es.length ∧ i < j
    · obtain ⟨he, h1, h2⟩ := split_range es i j hij hj
      have h' : FixInv v (es.take i ++ (es.drop i).take (j - i) ++ es.drop j) := by rw [← he]; exact h
      have := FixInv.eraseRange_elementwise (es.take i) ((es.drop i).take (j - i)) (es.drop j) h' ht
        (by intro hb; have : (es.drop j).length = 0 := by rw [hb]; rfl
            simp at this; omega)
        (by intro hm; rw [hm] at h2; simp at h2; omega)
      rw [h1, h2, show i + (j - i) = j by omega] at this
      exact this
    · exact h.eraseRange'_gen i j hij hj (fun h1 h2 => absurd ⟨h1, h2⟩ hmove)

/-- one step on the stride locator for **all** value types -/
theorem FixInv.step_all {v : Vec} {es : List Elem} (h : FixInv v es) (junk : Nat → Nat) (op : VOp)
    (hpre : op.PreFix v.ps v.loc.stride es) : FixInv (op.apply junk v) (op.spec es) := by
  have hsz : v.size = es.length := by simp [Vec.size, h.isFixed, h.count_eq]
  cases op with
  | emplace e => exact h.emplaceBack e hpre.1.1 hpre.1.2 hpre.2
  | pop =>
    have hl : 0 < es.length := List.length_pos_iff.mpr hpre.1
    simp only [VOp.apply, VOp.spec]
    rw [popBack_eq_eraseRange_fix v h.isFixed (by rw [h.count_eq]; exact hl), h.count_eq]
    have := h.eraseRange_all (es.length - 1) es.length (by omega) (Nat.le_refl _)
    rw [List.drop_length, List.append_nil] at this
    rw [List.dropLast_eq_take]; exact this
  | erase i =>
    simp only [VOp.apply, VOp.spec]
    cases ht : v.trivialReloc with
    | true => exact h.erase ht i hpre.1
    | false =>
      have hgoal := h.eraseRange_all i (i + 1) (by omega) hpre.1
      by_cases hlast : i + 1 < v.loc.count
      · rw [erase_fix_mid v i h.isFixed hlast]; exact hgoal
      · rw [erase_last_eq_eraseRange v i ht (by rw [hsz]; rw [h.count_eq] at hlast; have := hpre.1; simp only [VOp.Pre] at this; omega)]
        exact hgoal
  | eraseRange i j => exact h.eraseRange_all i j hpre.1.1 hpre.1.2
  | clear =>
    simp only [VOp.apply, VOp.spec]
    rw [clear_eq_eraseRange_fix v h.isFixed, h.count_eq]
    have := h.eraseRange_all 0 es.length (Nat.zero_le _) (Nat.le_refl _)
    simpa using this
  | reserve n b => exact h.reserve n b junk

/-- the stride never changes, whatever the relocation path -/
theorem apply_stride_all {v : Vec} {es : List Elem} (h : FixInv v es) (junk : Nat → Nat) (op : VOp) (hpre : op.PreFix v.ps v.loc.stride es) :
    (op.apply junk v).loc.stride = v.loc.stride := by
  cases ht : v.trivialReloc with
  | true => exact apply_stride h ht junk op
  | false =>
    have hf' : isFixedOrPlain v.ps = true := h.isFixed
    cases op with
    | emplace e => simp only [VOp.apply, Vec.emplaceBack, Vec.fixedLoc, hf', if_true]
    | pop => simp only [VOp.apply, Vec.popBack, Vec.fixedLoc, hf', Loc.resize, if_true]
    | erase i =>
      simp only [VOp.apply, Vec.erase]
      have := (C16aux_moveForward_loc { v with mem := v.destructRange i (i + 1) } (i + 1) i h.isFixed)
      simp only [Loc.resize]; split <;> simp only [this]
    | eraseRange i j =>
      simp only [VOp.apply, Vec.eraseRange]
      split
      · have := (C16aux_moveForward_loc { v with mem := v.destructRange i j } j i h.isFixed)
        simp only [Loc.resize]; split <;> simp only [this]
      · simp only [Loc.resize]; split <;> rfl
    | clear => simp only [VOp.apply, Vec.clear, Vec.fixedLoc, hf', Loc.resize, if_true]
    | reserve n b => simp only [VOp.apply, Vec.reserve, Vec.fixedLoc, hf', if_true]; split <;> rfl

/-- **every history on the stride locator, all value types** -/
theorem FixInv.history_all {v : Vec} {es : List Elem} (h : FixInv v es) (junk : Nat → Nat)
    (ops : List VOp) (hv : ValidFix v.ps v.loc.stride es ops) :
    FixInv (ops.foldl (VOp.apply junk) v) (ops.foldl VOp.spec es) := by
  induction ops generalizing v es with
  | nil => exact h
  | cons op ops ih =>
    simp only [List.foldl_cons]
    have hps := apply_ps junk v op
    have hst := apply_stride_all h junk op hv.1
    apply ih (h.step_all junk op hv.1)
    rw [hps, hst]; exact hv.2

end Cntgs
