/-
M9 — list categories, public constructor selection, and the table of documented operations that must be
well-formed for each (operation × list category × value category) cell.

Source anchors: detail/parameterListTraits.hpp:60-76 (categories), vector.hpp:93-125 (public constructors
with their enable_if conditions), 352-367 (private delegation targets); README "Usage" for the operations.
-/
import Cntgs.Layout
namespace Cntgs

inductive Cat | plain | fixed | varying | mixed
  deriving DecidableEq, Repr, Inhabited

def catOf (ps : List Param) : Cat :=
  if isMixed ps then .mixed else if isAllFixed ps then .fixed else if isAllVarying ps then .varying else .plain

/-- the five public sized constructors: (enabled for category, takes varying bytes, takes fixed sizes, takes allocator) -/
structure Ctor where
  cat : Cat
  bytes : Bool
  fixed : Bool
  alloc : Bool
  /-- number of arguments it passes to the private constructor it delegates to (`vector.hpp:352`) -/
  delegateArity : Nat
  deriving DecidableEq, Repr

def publicCtors : List Ctor :=
  [ ⟨.mixed, true, true, true, 5⟩      -- (n, bytes, fixed_sizes, allocator = {})
  , ⟨.fixed, false, true, true, 5⟩     -- (n, fixed_sizes, allocator = {})
  , ⟨.varying, true, false, true, 5⟩   -- (n, bytes, allocator = {})
  , ⟨.plain, false, false, false, 5⟩   -- (n)
  , ⟨.plain, false, false, true, 5⟩ ]  -- (n, allocator)

/-- arity of the private constructor `(max_element_count, varying_size_bytes, fixed_sizes, allocator, int)` -/
def privateCtorArity : Nat := 5

inductive ValCat | trivial | integral | copyable | moveOnly
  deriving DecidableEq, Repr, Inhabited

inductive Op
  | ctor | ctorAlloc | defaultCtor | copyCtor | moveCtor | copyAssign | moveAssign
  | emplaceBack | popBack | erase1 | erase2 | clear | reserve | swap | eq | lt | eqOtherAlloc | ltOtherAlloc
  | iterate | bindRef | bindElem | subscript | frontBack | dataPtrs | iterArith | getFixedSize
  | refAssignRef | refMoveAssignRef | refSwap | refAssignElem | refMoveAssignElem
  | elemFromRef | elemFromRvalueRef | elemCopy | elemMove | elemAssign | elemMoveAssign | elemSwap | elemAssignRef | elemCompare
  deriving DecidableEq, Repr, Inhabited

def Op.all : List Op :=
  [.ctor, .ctorAlloc, .defaultCtor, .copyCtor, .moveCtor, .copyAssign, .moveAssign, .emplaceBack, .popBack, .erase1, .erase2,
   .clear, .reserve, .swap, .eq, .lt, .eqOtherAlloc, .ltOtherAlloc, .iterate, .bindRef, .bindElem, .subscript, .frontBack, .dataPtrs, .iterArith, .getFixedSize,
   .refAssignRef, .refMoveAssignRef, .refSwap, .refAssignElem, .refMoveAssignElem, .elemFromRef, .elemFromRvalueRef, .elemCopy,
   .elemMove, .elemAssign, .elemMoveAssign, .elemSwap, .elemAssignRef, .elemCompare]

/-- does the operation copy values (then the value types must be copyable) -/
def Op.needsCopy : Op → Bool
  | .copyCtor | .copyAssign | .refAssignRef | .refAssignElem | .elemFromRef | .elemCopy | .elemAssign | .elemAssignRef => true
  | _ => false

/-- is the operation documented for this category at all -/
def Op.appliesTo (o : Op) (c : Cat) : Bool :=
  match o with
  | .getFixedSize => c == .fixed || c == .mixed
  | _ => true

/-- the availability table: which cells the library must accept -/
def required (o : Op) (c : Cat) (v : ValCat) : Bool :=
  o.appliesTo c && (!o.needsCopy || v != .moveOnly)

def Cat.all : List Cat := [.plain, .fixed, .varying, .mixed]
def ValCat.all : List ValCat := [.trivial, .integral, .copyable, .moveOnly]

def requiredCells : List (Op × Cat × ValCat) :=
  Op.all.flatMap fun o => Cat.all.flatMap fun c => ValCat.all.filterMap fun v => if required o c v then some (o, c, v) else none

end Cntgs
