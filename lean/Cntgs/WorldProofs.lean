/-
Refinement of the multi-vector model to the simplest possible specification: a finite map from vector names to plain
sequences of tuples (or "moved-from").  Every operation of the public interface on several vectors — construction,
in-place operations, copy/move construction, copy/move assignment, swap, destruction — commutes with the abstraction, for
every history.  C09 (value semantics), and the multi-vector parts of C01/C06/C16/C18, are corollaries.
-/
import Cntgs.FixProofs
import Cntgs.VarRelocProofs
import Cntgs.World
namespace Cntgs

/-- the per-vector invariant, whichever locator the parameter list selects -/
def Inv1 (v : Vec) (es : List Elem) : Prop := VarInv v es ∨ FixInv v es

theorem VarInv.congr {v w : Vec} {es : List Elem} (h : VarInv v es) (hps : w.ps = v.ps) (hloc : w.loc = v.loc)
    (hmem : w.mem = v.mem) (hpo : w.poison = v.poison) : VarInv w es := by
  have hf : w.fixedLoc = false := by unfold Vec.fixedLoc; rw [hps]; exact h.notFixed
  refine ⟨hps ▸ h.lok, hf, hps ▸ h.eok, hloc ▸ h.size_eq, ?_, ?_, ?_, hpo ▸ h.clean⟩
  · rw [hloc, hps]; exact h.slots_eq
  · rw [hmem, hps]; exact h.mem_eq
  · rw [hloc, hps]; exact h.last_eq

theorem Inv1.congr {v w : Vec} {es : List Elem} (h : Inv1 v es) (hps : w.ps = v.ps) (hloc : w.loc = v.loc)
    (hmem : w.mem = v.mem) (hpo : w.poison = v.poison) : Inv1 w es := by
  rcases h with h | h
  · exact Or.inl (h.congr hps hloc hmem hpo)
  · exact Or.inr (h.of_mem hps hloc (hpo ▸ h.clean) (fun x => by rw [hmem]))

theorem Inv1.clean {v : Vec} {es : List Elem} (h : Inv1 v es) : v.poison = false := by
  rcases h with h | h <;> exact h.clean

theorem Inv1.size {v : Vec} {es : List Elem} (h : Inv1 v es) : v.size = es.length := by
  rcases h with h | h
  · simp [Vec.size, h.notFixed, h.size_eq]
  · simp [Vec.size, h.isFixed, h.count_eq]

theorem Inv1.abs {v : Vec} {es : List Elem} (h : Inv1 v es) : v.abs = es.map some := by
  rcases h with h | h
  · exact h.abs_eq
  · exact h.abs_eq

/-- bookkeeping that went through a relocating locator constructor (copy, assignment) represents the same sequence -/
theorem Inv1.relocated {v w : Vec} {es : List Elem} (h : Inv1 v es) (junk : Nat → Nat) (hps : w.ps = v.ps)
    (hmem : w.mem = v.mem) (hloc : w.loc = v.loc.relocated junk) (hpo : w.poison = false) : Inv1 w es := by
  rcases h with h | h
  · left
    have hf : w.fixedLoc = false := by unfold Vec.fixedLoc; rw [hps]; exact h.notFixed
    refine ⟨hps ▸ h.lok, hf, hps ▸ h.eok, ?_, ?_, ?_, ?_, hpo⟩
    · rw [hloc]; exact h.size_eq
    · intro k hk
      rw [hloc, hps]
      simp only [Loc.relocated, h.size_eq, hk, if_true]
      exact h.slots_eq k hk
    · rw [hmem, hps]; exact h.mem_eq
    · rw [hloc, hps]; exact h.last_eq
  · right
    have hf : w.fixedLoc = true := by unfold Vec.fixedLoc; rw [hps]; exact h.isFixed
    refine ⟨hps ▸ h.lok, hf, hps ▸ h.eok, ?_, ?_, ?_, ?_, hpo⟩
    · rw [hloc]; exact h.count_eq
    · rw [hloc, hps]; exact h.stride_dvd
    · rw [hloc, hps]; exact h.fits
    · rw [hmem, hloc, hps]; exact h.mem_eq

/-- the abstract state of one vector -/
inductive AVec
  | live (es : List Elem)
  | moved

/-- `v` represents the abstract vector `a` -/
def VInv (ps : List Param) (v : Vec) : AVec → Prop
  | .live es => v.ps = ps ∧ Inv1 v es
  | .moved => v.ps = ps ∧ v.mem = [] ∧ v.size = 0 ∧ v.poison = false ∧ (v.fixedLoc = true → storageAl v.ps ∣ v.loc.stride) ∧
      (v.fixedLoc = false → v.loc.last = 0)

theorem VInv.ps_eq {ps : List Param} {v : Vec} {a : AVec} (h : VInv ps v a) : v.ps = ps := by
  cases a <;> exact h.1

theorem VInv.clean {ps : List Param} {v : Vec} {a : AVec} (h : VInv ps v a) : v.poison = false := by
  cases a with
  | live es => exact h.2.clean
  | moved => exact h.2.2.2.1

/-- the world represents the abstract map `A` -/
def WInv (ps : List Param) (w : World) (A : Nat → Option AVec) : Prop :=
  ∀ k, match w.vecs k, A k with
    | some v, some a => VInv ps v a
    | none, none => True
    | _, _ => False

def aset (A : Nat → Option AVec) (k : Nat) (a : Option AVec) : Nat → Option AVec := fun i => if i = k then a else A i

theorem WInv.get {ps : List Param} {w : World} {A : Nat → Option AVec} (h : WInv ps w A) (k : Nat) (v : Vec) (hv : w.vecs k = some v) :
    ∃ a, A k = some a ∧ VInv ps v a := by
  have := h k
  rw [hv] at this
  cases ha : A k with
  | none => rw [ha] at this; exact absurd this (by simp)
  | some a => rw [ha] at this; exact ⟨a, rfl, this⟩

theorem WInv.set {ps : List Param} {w : World} {A : Nat → Option AVec} (h : WInv ps w A) (k : Nat) (v : Vec) (a : AVec)
    (hv : VInv ps v a) : WInv ps (w.set k (some v)) (aset A k (some a)) := by
  intro i
  simp only [World.set, aset]
  by_cases hi : i = k
  · simp only [hi, if_true]; exact hv
  · simp only [hi, if_false]; exact h i

theorem WInv.unset {ps : List Param} {w : World} {A : Nat → Option AVec} (h : WInv ps w A) (k : Nat) :
    WInv ps (w.set k none) (aset A k none) := by
  intro i
  simp only [World.set, aset]
  by_cases hi : i = k
  · simp only [hi, if_true]
  · simp only [hi, if_false]; exact h i

/-- changing heap / threw does not matter -/
theorem WInv.of_vecs {ps : List Param} {w w' : World} {A : Nat → Option AVec} (h : WInv ps w A) (hv : w'.vecs = w.vecs) :
    WInv ps w' A := by
  intro k; rw [hv]; exact h k

/-! ### one theorem per operation: the operation on the model commutes with the operation on the abstract map -/

theorem new_refines (ps : List Param) (w : World) (A : Nat → Option AVec) (h : WInv ps w A) (k : Nat) (fs : List Nat)
    (cap bytes alloc : Nat) (hl : ListOK ps) (hlf : isFixedOrPlain ps = true → ps.length ≤ fs.length)
    (hok : (w.new k ps fs cap bytes alloc).threw = false) :
    WInv ps (w.new k ps fs cap bytes alloc) (aset A k (some (.live []))) := by
  unfold World.new at hok ⊢
  simp only at hok ⊢
  cases hp : allocPair w.heap w.acfg (Vec.new ps fs cap bytes w.junk).fixedLoc (Vec.new ps fs cap bytes w.junk).units
      (Vec.new ps fs cap bytes w.junk).S alloc cap with
  | mk h1 r =>
    rw [hp] at hok
    cases r with
    | none => simp at hok
    | some pt =>
      obtain ⟨p, t⟩ := pt
      simp only
      have hinv : Inv1 (Vec.new ps fs cap bytes w.junk) [] := by
        cases hf : isFixedOrPlain ps with
        | false => exact Or.inl (VarInv.new ps fs cap bytes w.junk hl hf)
        | true => exact Or.inr (FixInv.new ps fs cap bytes w.junk hl hf (hlf hf))
      have := (h.set k { ((Vec.new ps fs cap bytes w.junk).setPtr p) with tbl := t } (.live [])
        ⟨rfl, hinv.congr rfl rfl rfl rfl⟩)
      exact this.of_vecs rfl

/-- any in-place operation that keeps the per-vector invariant (all of `VOp`: `VarInv.step_all`, `FixInv.step_all`) -/
theorem upd_refines (ps : List Param) (w : World) (A : Nat → Option AVec) (h : WInv ps w A) (k : Nat) (f : Vec → Vec)
    (es es' : List Elem) (hA : A k = some (.live es))
    (hf : ∀ v, v.ps = ps → Inv1 v es → Inv1 (f v) es' ∧ (f v).ps = ps) :
    WInv ps (w.upd k f) (aset A k (some (.live es'))) := by
  unfold World.upd
  cases hv : w.vecs k with
  | none => have := h k; rw [hv, hA] at this; exact absurd this (by simp)
  | some v =>
    simp only
    obtain ⟨a, ha, hva⟩ := h.get k v hv
    rw [hA] at ha; cases ha
    obtain ⟨h1, h2⟩ := hf v hva.1 hva.2
    exact (h.set k (f v) (.live es') ⟨h2, h1⟩).of_vecs rfl

theorem copy_refines (ps : List Param) (w : World) (A : Nat → Option AVec) (h : WInv ps w A) (s d : Nat) (es : List Elem)
    (hA : A s = some (.live es)) (hok : (w.copy s d).threw = false) :
    WInv ps (w.copy s d) (aset A d (some (.live es))) := by
  unfold World.copy at hok ⊢
  cases hv : w.vecs s with
  | none => have := h s; rw [hv, hA] at this; exact absurd this (by simp)
  | some vs =>
    obtain ⟨a, ha, hva⟩ := h.get s vs hv
    rw [hA] at ha; cases ha
    simp only [hv] at hok ⊢
    cases hp : allocPair w.heap w.acfg vs.fixedLoc vs.units vs.S (socc vs.alloc) vs.cap with
    | mk h1 r =>
      rw [hp] at hok
      cases r with
      | none => simp at hok
      | some pt =>
        obtain ⟨p, t⟩ := pt
        simp only
        exact (h.set d { (vs.setPtr p) with tbl := t, loc := vs.loc.relocated w.junk } (.live es)
          ⟨hva.1, hva.2.relocated w.junk rfl rfl rfl hva.2.clean⟩).of_vecs rfl

theorem movedFrom_inv (ps : List Param) (v : Vec) (a : AVec) (h : VInv ps v a) : VInv ps v.movedFrom .moved := by
  refine ⟨h.ps_eq, rfl, ?_, h.clean, ?_, fun _ => rfl⟩
  · unfold Vec.size; split <;> rfl
  · intro hf
    have hf' : v.fixedLoc = true := hf
    show storageAl v.ps ∣ v.loc.stride
    cases a with
    | live es =>
      rcases h.2 with h1 | h1
      · rw [h1.notFixed] at hf'; exact absurd hf' (by simp)
      · exact h1.stride_dvd
    | moved => exact h.2.2.2.2.1 hf'

/-- **a moved-from vector is an empty vector**: it represents the empty sequence like any vector that never held an element
    (no capacity, no block), so every operation of the interface applies to it as to any other empty vector -/
theorem moved_is_empty (ps : List Param) (hl : ListOK ps) (v : Vec) (h : VInv ps v .moved) : VInv ps v (.live []) := by
  obtain ⟨hps, hmem, hsz, hpo, hst, hlast⟩ := h
  refine ⟨hps, ?_⟩
  cases hf : v.fixedLoc with
  | false =>
    left
    have hs0 : v.loc.size = 0 := by simpa [Vec.size, hf] using hsz
    refine ⟨hps ▸ hl, hf, fun _ hx => absurd hx (by simp), by simpa using hs0, fun k hk => absurd hk (by simp), ?_,
      Or.inl (by rw [hlast hf]; simp [rawEndOf]), hpo⟩
    intro x; rw [hmem]; simp
  | true =>
    right
    have hc0 : v.loc.count = 0 := by simpa [Vec.size, hf] using hsz
    refine ⟨hps ▸ hl, hf, fun _ hx => absurd hx (by simp), by simpa using hc0, hst hf, fun _ hx => absurd hx (by simp), ?_, hpo⟩
    intro x; rw [hmem]; simp

/-- … hence in the abstract map a moved-from name may be read as the empty sequence: every theorem about histories that asks
    for a live source or target applies to moved-from vectors too -/
theorem WInv.moved_as_empty {ps : List Param} (hl : ListOK ps) {w : World} {A : Nat → Option AVec} (h : WInv ps w A) (k : Nat)
    (hk : A k = some .moved) : WInv ps w (aset A k (some (.live []))) := by
  intro i
  by_cases hi : i = k
  · subst hi
    have := h i
    simp only [aset, if_true]
    cases hv : w.vecs i with
    | none => rw [hv, hk] at this; exact absurd this (by simp)
    | some v => rw [hv, hk] at this; exact moved_is_empty ps hl v this
  · simp only [aset, hi, if_false]; exact h i

theorem move_refines (ps : List Param) (w : World) (A : Nat → Option AVec) (h : WInv ps w A) (s d : Nat) (a : AVec)
    (hA : A s = some a) (hsd : s ≠ d) :
    WInv ps (w.move s d) (aset (aset A d (some a)) s (some .moved)) := by
  unfold World.move
  cases hv : w.vecs s with
  | none => have := h s; rw [hv, hA] at this; exact absurd this (by simp)
  | some vs =>
    obtain ⟨a', ha, hva⟩ := h.get s vs hv
    rw [hA] at ha; cases ha
    simp only
    exact (((h.set d vs a hva).set s vs.movedFrom .moved (movedFrom_inv ps vs a hva))).of_vecs rfl

theorem destroy_refines (ps : List Param) (w : World) (A : Nat → Option AVec) (h : WInv ps w A) (k : Nat) :
    WInv ps (w.destroy k) (aset A k none) := by
  unfold World.destroy
  cases hv : w.vecs k with
  | none =>
    simp only
    intro i
    simp only [aset]
    by_cases hi : i = k
    · subst hi; rw [hv]; simp
    · simp only [hi, if_false]; exact h i
  | some v =>
    simp only
    exact (h.unset k).of_vecs rfl

theorem swap_refines (ps : List Param) (w : World) (A : Nat → Option AVec) (h : WInv ps w A) (a b : Nat) (x y : AVec)
    (hAa : A a = some x) (hAb : A b = some y) (hab : a ≠ b) :
    WInv ps (w.swap a b) (aset (aset A a (some y)) b (some x)) := by
  unfold World.swap
  simp only [hab, if_false]
  cases hva : w.vecs a with
  | none => have := h a; rw [hva, hAa] at this; exact absurd this (by simp)
  | some va =>
    cases hvb : w.vecs b with
    | none => have := h b; rw [hvb, hAb] at this; exact absurd this (by simp)
    | some vb =>
      obtain ⟨x', hx, hvx⟩ := h.get a va hva
      obtain ⟨y', hy, hvy⟩ := h.get b vb hvb
      rw [hAa] at hx; cases hx
      rw [hAb] at hy; cases hy
      simp only
      have hsp : ∀ (v : Vec) (p : Ptr) (z : AVec), VInv ps v z → VInv ps (v.setPtr p) z := by
        intro v p z hz
        cases z with
        | live es => exact ⟨hz.1, hz.2.congr rfl rfl rfl rfl⟩
        | moved => exact ⟨hz.1, hz.2.1, (show (v.setPtr p).size = v.size from rfl) ▸ hz.2.2.1, hz.2.2.2.1, hz.2.2.2.2⟩
      exact ((h.set a (vb.setPtr (Ptr.swap w.acfg va.ptr vb.ptr).1) y (hsp vb _ y hvy)).set b
        (va.setPtr (Ptr.swap w.acfg va.ptr vb.ptr).2) x (hsp va _ x hvx)).of_vecs rfl

theorem copyAssign_refines (ps : List Param) (w : World) (A : Nat → Option AVec) (h : WInv ps w A) (s d : Nat) (es : List Elem)
    (y : AVec) (hAs : A s = some (.live es)) (hAd : A d = some y) (hsd : s ≠ d) (hok : (w.copyAssign s d).threw = false) :
    WInv ps (w.copyAssign s d) (aset A d (some (.live es))) := by
  unfold World.copyAssign at hok ⊢
  simp only [hsd, if_false] at hok ⊢
  cases hvs : w.vecs s with
  | none => have := h s; rw [hvs, hAs] at this; exact absurd this (by simp)
  | some vs =>
    cases hvd : w.vecs d with
    | none => have := h d; rw [hvd, hAd] at this; exact absurd this (by simp)
    | some vd =>
      obtain ⟨x', hx, hvx⟩ := h.get s vs hvs
      obtain ⟨y', hy, hvy⟩ := h.get d vd hvd
      rw [hAs] at hx; cases hx
      simp only [hvs, hvd] at hok ⊢
      cases hc : vd.clear.ptr.copyAssign w.heap w.acfg vd.S vs.ptr with
      | mk h1 r =>
        obtain ⟨p1, okc⟩ := r
        rw [hc] at hok
        cases okc with
        | false => simp at hok
        | true =>
          simp only at hok ⊢
          cases ht : allocTable h1 vd.fixedLoc p1.alloc vs.cap with
          | mk h2 t =>
            rw [ht] at hok
            cases t with
            | none => simp at hok
            | some t =>
              simp only
              have hpsd : (vd.clear.setPtr p1).ps = vs.ps := by
                show vd.ps = vs.ps
                rw [hvy.ps_eq, hvx.1]
              exact (h.set d { (vd.clear.setPtr p1) with tbl := t, cap := vs.cap, fs := vs.fs, mem := vs.mem, loc := vs.loc.relocated w.junk }
                (.live es) ⟨by show vd.ps = ps; exact hvy.ps_eq, hvx.2.relocated w.junk hpsd rfl rfl (by
                  show vd.clear.poison = false
                  simp only [Vec.clear]; exact hvy.clean)⟩).of_vecs rfl

/-- element-wise move construction leaves the values of trivially move-constructible types in place -/
theorem movedValues_id (ps : List Param) (htriv : ∀ p ∈ ps, p.ty.trivMoveCtor = true) :
    ∀ (e : Elem), e.length ≤ ps.length → movedValues ps e = e := by
  unfold movedValues
  induction ps with
  | nil => intro e he; have : e = [] := List.length_eq_zero_iff.mp (by simpa using he); subst this; rfl
  | cons p ps ih =>
    intro e he
    cases e with
    | nil => rfl
    | cons v e =>
      simp only [List.zip_cons_cons, List.map_cons, htriv p (by simp), if_true, List.cons.injEq, true_and]
      exact ih (fun q hq => htriv q (by simp [hq])) e (by simpa using he)

theorem eok_length {ps : List Param} {e : Elem} (h : EOK ps e) : e.length = ps.length := by
  unfold EOK at h
  have : ∀ (ps : List Param) (cs : List Nat), CountsOK ps cs → cs.length = ps.length := by
    intro ps
    induction ps with
    | nil => intro cs hc; cases cs with | nil => rfl | cons _ _ => simp [CountsOK] at hc
    | cons p ps ih =>
      intro cs hc
      cases cs with
      | nil => simp [CountsOK] at hc
      | cons c cs => simp only [CountsOK] at hc; simp [ih cs hc.2]
  have := this ps (elemCounts e) h
  simpa [elemCounts] using this

theorem Inv1.mem_records {v : Vec} {es : List Elem} (h : Inv1 v es) : ∀ r ∈ v.mem, r.e ∈ es := by
  intro r hr
  rcases h with h | h
  · obtain ⟨k, hk, rfl⟩ := (h.mem_eq r).mp hr
    simp only [canonRec]
    rw [List.getD_eq_getElem?_getD, List.getElem?_eq_getElem hk]; exact List.getElem_mem hk
  · obtain ⟨k, hk, rfl⟩ := (h.mem_eq r).mp hr
    simp only [fixRec]
    rw [List.getD_eq_getElem?_getD, List.getElem?_eq_getElem hk]; exact List.getElem_mem hk

theorem Inv1.eok {v : Vec} {es : List Elem} (h : Inv1 v es) : ElemsOK v.ps es := by
  rcases h with h | h <;> exact h.eok

/-! ### replacing the stored values by values of the same shape (element-wise move construction leaves such values) -/

theorem esz_congr (ps : List Param) (a b : Elem) (h : elemCounts a = elemCounts b) : esz ps a = esz ps b := by
  simp [esz, h]

theorem canonOff_map (ps : List Param) (f : Elem → Elem) :
    ∀ (es : List Elem) (k : Nat), (∀ e ∈ es, elemCounts (f e) = elemCounts e) → canonOff ps (es.map f) k = canonOff ps es k := by
  intro es
  induction es with
  | nil => intro k _; rfl
  | cons e es ih =>
    intro k hf
    cases k with
    | zero => rfl
    | succ k =>
      simp only [List.map_cons, canonOff]
      rw [esz_congr ps (f e) e (hf e (by simp)), ih k (fun x hx => hf x (by simp [hx]))]

theorem nextOff_map (ps : List Param) (f : Elem → Elem) :
    ∀ (es : List Elem), (∀ e ∈ es, elemCounts (f e) = elemCounts e) → nextOff ps (es.map f) = nextOff ps es := by
  intro es
  induction es with
  | nil => intro _; rfl
  | cons e es ih =>
    intro hf
    simp only [List.map_cons, nextOff]
    rw [esz_congr ps (f e) e (hf e (by simp)), ih (fun x hx => hf x (by simp [hx]))]

theorem getD_map_lt (f : Elem → Elem) (es : List Elem) (k : Nat) (hk : k < es.length) :
    (es.map f).getD k [] = f (es.getD k []) := by
  rw [List.getD_eq_getElem?_getD, List.getD_eq_getElem?_getD, List.getElem?_map, List.getElem?_eq_getElem hk]
  rfl

theorem rawEndOf_map (ps : List Param) (f : Elem → Elem) (es : List Elem) (hf : ∀ e ∈ es, elemCounts (f e) = elemCounts e) :
    rawEndOf ps (es.map f) = rawEndOf ps es := by
  unfold rawEndOf
  cases es with
  | nil => rfl
  | cons e es =>
    have hne : (e :: es) ≠ [] := by simp
    have hne' : (e :: es).map f ≠ [] := by simp
    rw [if_neg hne, if_neg hne', canonOff_map ps f (e :: es) _ hf, List.length_map]
    have hk : (e :: es).length - 1 < (e :: es).length := by simp
    rw [getD_map_lt f (e :: es) _ hk]
    have hm : (e :: es).getD ((e :: es).length - 1) [] ∈ (e :: es) := by
      rw [List.getD_eq_getElem?_getD, List.getElem?_eq_getElem hk]; exact List.getElem_mem hk
    rw [esz_congr ps _ _ (hf _ hm)]

theorem elemsOK_map (ps : List Param) (f : Elem → Elem) (es : List Elem) (hf : ∀ e ∈ es, elemCounts (f e) = elemCounts e)
    (h : ElemsOK ps es) : ElemsOK ps (es.map f) := by
  intro e' he'
  obtain ⟨e, he, rfl⟩ := List.mem_map.mp he'
  obtain ⟨h1, h2⟩ := h e he
  refine ⟨?_, by rw [esz_congr ps _ _ (hf e he)]; exact h2⟩
  unfold EOK at h1 ⊢
  rw [hf e he]; exact h1

theorem holds_map (m : Mem) (n : Nat) (rec rec' : Nat → Rec) (g : Rec → Rec) (h : Holds m n rec)
    (hg : ∀ k, k < n → g (rec k) = rec' k) : Holds (m.map g) n rec' := by
  intro r
  constructor
  · intro hr
    obtain ⟨r0, hr0, rfl⟩ := List.mem_map.mp hr
    obtain ⟨k, hk, rfl⟩ := (h r0).mp hr0
    exact ⟨k, hk, hg k hk⟩
  · rintro ⟨k, hk, rfl⟩
    exact List.mem_map.mpr ⟨rec k, (h (rec k)).mpr ⟨k, hk, rfl⟩, hg k hk⟩

/-- a vector whose stored values are replaced by values of the same field sizes represents the mapped sequence, in the same
    layout -/
theorem Inv1.map_values {v : Vec} {es : List Elem} (h : Inv1 v es) (f : Elem → Elem)
    (hf : ∀ e ∈ es, elemCounts (f e) = elemCounts e) :
    Inv1 { v with mem := v.mem.map (fun r => { r with e := f r.e }) } (es.map f) := by
  have hmem : ∀ k, k < es.length → es.getD k [] ∈ es := by
    intro k hk
    rw [List.getD_eq_getElem?_getD, List.getElem?_eq_getElem hk]; exact List.getElem_mem hk
  rcases h with h | h
  · left
    refine ⟨h.lok, h.notFixed, elemsOK_map v.ps f es hf h.eok, by simp [h.size_eq], ?_, ?_, ?_, h.clean⟩
    · intro k hk
      have hk' : k < es.length := by simpa using hk
      show v.loc.slots k = canonOff v.ps (es.map f) k
      rw [canonOff_map v.ps f es k hf]; exact h.slots_eq k hk'
    · show Holds (v.mem.map _) (es.map f).length (canonRec v.ps (es.map f))
      rw [List.length_map]
      apply holds_map v.mem es.length (canonRec v.ps es) _ _ h.mem_eq
      intro k hk
      simp only [canonRec]
      rw [canonOff_map v.ps f es k hf, getD_map_lt f es k hk, esz_congr v.ps _ _ (hf _ (hmem k hk))]
    · show v.loc.last = rawEndOf v.ps (es.map f) ∨ (es.map f ≠ [] ∧ v.loc.last = nextOff v.ps (es.map f))
      rw [rawEndOf_map v.ps f es hf, nextOff_map v.ps f es hf]
      rcases h.last_eq with h1 | ⟨h1, h2⟩
      · exact Or.inl h1
      · exact Or.inr ⟨by simpa using h1, h2⟩
  · right
    refine ⟨h.lok, h.isFixed, elemsOK_map v.ps f es hf h.eok, by simp [h.count_eq], h.stride_dvd, ?_, ?_, h.clean⟩
    · intro e' he'
      obtain ⟨e, he, rfl⟩ := List.mem_map.mp he'
      show esz v.ps (f e) ≤ v.loc.stride
      rw [esz_congr v.ps _ _ (hf e he)]; exact h.fits e he
    · show Holds (v.mem.map _) (es.map f).length (fixRec v.ps v.loc.stride (es.map f))
      rw [List.length_map]
      apply holds_map v.mem es.length (fixRec v.ps v.loc.stride es) _ _ h.mem_eq
      intro k hk
      simp only [fixRec]
      rw [getD_map_lt f es k hk, esz_congr v.ps _ _ (hf _ (hmem k hk))]

theorem movedValues_counts (ps : List Param) (e : Elem) (he : e.length = ps.length) :
    elemCounts (movedValues ps e) = elemCounts e := by
  unfold movedValues elemCounts
  rw [List.map_map]
  have : (List.length ∘ fun (x : Param × List Nat) => if x.1.ty.trivMoveCtor = true then x.2 else x.2.map (fun _ => 0)) =
      (List.length ∘ Prod.snd) := by
    funext x
    simp only [Function.comp]
    split <;> simp
  rw [this, ← List.map_map, List.map_snd_zip (by omega)]

/-- does move assignment `d = std::move(s)` take over the block (allocators equal or propagating)? -/
def steals (w : World) (s d : Nat) : Bool :=
  match w.vecs s, w.vecs d with
  | some vs, some vd => w.acfg.ae || w.acfg.pocma || w.acfg.eq vd.alloc vs.alloc
  | _, _ => false

/-- move assignment: the target takes the source's contents.  Stealing branch (allocators equal or propagating): the
    source is moved-from.  Element-wise branch (unequal non-propagating allocators), **every value type**: the source
    keeps as many elements of the same field sizes, holding moved-from values (its own values for trivially
    move-constructible types). -/
theorem moveAssign_refines (ps : List Param) (w : World) (A : Nat → Option AVec) (h : WInv ps w A) (s d : Nat) (es : List Elem)
    (y : AVec) (hAs : A s = some (.live es)) (hAd : A d = some y) (hsd : s ≠ d)
    (hok : (w.moveAssign s d).threw = false) :
    WInv ps (w.moveAssign s d)
      (if steals w s d then aset (aset A d (some (.live es))) s (some .moved)
       else aset (aset A d (some (.live es))) s (some (.live (es.map (movedValues ps))))) := by
  unfold World.moveAssign at hok ⊢
  simp only [hsd, if_false] at hok ⊢
  cases hvs : w.vecs s with
  | none => have := h s; rw [hvs, hAs] at this; exact absurd this (by simp)
  | some vs =>
    cases hvd : w.vecs d with
    | none => have := h d; rw [hvd, hAd] at this; exact absurd this (by simp)
    | some vd =>
      obtain ⟨x', hx, hvx⟩ := h.get s vs hvs
      obtain ⟨y', hy, hvy⟩ := h.get d vd hvd
      rw [hAs] at hx; cases hx
      simp only [hvs, hvd] at hok ⊢
      have hds : d ≠ s := fun e => hsd e.symm
      have hst : steals w s d = (w.acfg.ae || w.acfg.pocma || w.acfg.eq vd.alloc vs.alloc) := by
        simp only [steals, hvs, hvd]
      rw [hst]
      by_cases hsteal : (w.acfg.ae || w.acfg.pocma || w.acfg.eq vd.alloc vs.alloc) = true
      · simp only [hsteal, if_true]
        have hpo : (vd.poison || vs.poison) = false := by rw [hvy.clean, hvx.2.clean]; rfl
        exact ((h.set d { (vs.setPtr (vd.ptr.moveAssign w.heap w.acfg vd.S vs.ptr).2.1) with poison := vd.poison || vs.poison } (.live es)
          ⟨hvx.1, hvx.2.congr rfl rfl rfl (by rw [hpo, hvx.2.clean])⟩).set s vs.movedFrom .moved
            (movedFrom_inv ps vs _ hvx)).of_vecs rfl
      · simp only [hsteal, if_false] at hok ⊢
        -- the source keeps elements of the same shape, with moved-from values
        have hcnt : ∀ e ∈ es, elemCounts (movedValues ps e) = elemCounts e := by
          intro e he
          have := (hvx.2.eok e he).1
          rw [hvx.1] at this
          exact movedValues_counts ps e (eok_length this)
        have hsrc : VInv ps { vs with mem := vs.mem.map (fun r => { r with e := movedValues vs.ps r.e }) } (.live (es.map (movedValues ps))) := by
          have h1 := hvx.2.map_values (movedValues vs.ps) (by intro e he; rw [hvx.1]; exact hcnt e he)
          have h2 : es.map (movedValues vs.ps) = es.map (movedValues ps) := by rw [hvx.1]
          exact ⟨hvx.1, h2 ▸ h1⟩
        by_cases hb : vs.bytes > vd.bytes
        · simp only [hb, if_true] at hok ⊢
          cases hp : allocPair w.heap w.acfg vd.fixedLoc vs.bytes vd.S vd.alloc vs.cap with
          | mk h2 r =>
            rw [hp] at hok
            cases r with
            | none => simp at hok
            | some pt =>
              obtain ⟨np, t⟩ := pt
              simp only
              exact ((h.set d { (vd.setPtr (vd.ptr.moveAssign h2 w.acfg vd.S np).2.1) with tbl := t, cap := vs.cap, fs := vs.fs, mem := vs.mem, loc := vs.loc.relocated w.junk }
                (.live es) ⟨by show vd.ps = ps; exact hvy.ps_eq,
                  hvx.2.relocated w.junk (by show vd.ps = vs.ps; rw [hvy.ps_eq, hvx.1]) rfl rfl (by show vd.poison = false; exact hvy.clean)⟩).set s _ _ hsrc).of_vecs rfl
        · simp only [hb, if_false] at hok ⊢
          cases hp : allocTable w.heap vd.fixedLoc vd.alloc vs.cap with
          | mk h2 r =>
            rw [hp] at hok
            cases r with
            | none => simp at hok
            | some t =>
              simp only
              exact ((h.set d { vd with tbl := t, cap := vs.cap, fs := vs.fs, mem := vs.mem, loc := vs.loc.relocated w.junk }
                (.live es) ⟨by show vd.ps = ps; exact hvy.ps_eq,
                  hvx.2.relocated w.junk (by show vd.ps = vs.ps; rw [hvy.ps_eq, hvx.1]) rfl rfl (by show vd.poison = false; exact hvy.clean)⟩).set s _ _ hsrc).of_vecs rfl

/-! ### all operations, every history -/

inductive WOp
  | new (k : Nat) (fs : List Nat) (cap bytes alloc : Nat)
  | vop (k : Nat) (op : VOp)
  | copy (s d : Nat)
  | move (s d : Nat)
  | copyAssign (s d : Nat)
  | moveAssign (s d : Nat)
  | swap (a b : Nat)
  | destroy (k : Nat)

def WOp.apply (ps : List Param) (w : World) : WOp → World
  | .new k fs cap bytes alloc => w.new k ps fs cap bytes alloc
  | .vop k op => w.upd k (op.apply w.junk)
  | .copy s d => w.copy s d
  | .move s d => w.move s d
  | .copyAssign s d => w.copyAssign s d
  | .moveAssign s d => w.moveAssign s d
  | .swap a b => w.swap a b
  | .destroy k => w.destroy k

/-- the same operation on the abstract map of plain sequences -/
def WOp.aspec (ps : List Param) (w : World) (A : Nat → Option AVec) : WOp → (Nat → Option AVec)
  | .new k _ _ _ _ => aset A k (some (.live []))
  | .vop k op => match A k with | some (.live es) => aset A k (some (.live (op.spec es))) | _ => A
  | .copy s d => match A s with | some a => aset A d (some a) | none => A
  | .move s d => match A s with | some a => aset (aset A d (some a)) s (some .moved) | none => A
  | .copyAssign s d => if s = d then A else match A s with | some a => aset A d (some a) | none => A
  | .moveAssign s d =>
    if s = d then A else
    match A s with
    | some (.live es) =>
      if steals w s d then aset (aset A d (some (.live es))) s (some .moved)
      else aset (aset A d (some (.live es))) s (some (.live (es.map (movedValues ps))))   -- element-wise: moved-from values stay behind
    | _ => A
  | .swap a b => if a = b then A else match A a, A b with | some x, some y => aset (aset A a (some y)) b (some x) | _, _ => A
  | .destroy k => aset A k none

/-- documented preconditions -/
def WOp.Pre (ps : List Param) (w : World) (A : Nat → Option AVec) : WOp → Prop
  | .new k fs _ _ _ => A k = none ∧ (isFixedOrPlain ps = true → ps.length ≤ fs.length)
  | .vop k op => ∃ es v, A k = some (.live es) ∧ w.vecs k = some v ∧
      (v.fixedLoc = true → op.PreFix ps v.loc.stride es) ∧
      (v.fixedLoc = false → op.Pre ps es ∧ (v.trivialReloc = true ∨ op.NoOverlap ps es))
  | .copy s d => (∃ es, A s = some (.live es)) ∧ s ≠ d
  | .move s d => A s ≠ none ∧ s ≠ d
  | .copyAssign s d => s = d ∨ ((∃ es, A s = some (.live es)) ∧ A d ≠ none)
  | .moveAssign s d => s = d ∨ ((∃ es, A s = some (.live es)) ∧ A d ≠ none)
  | .swap a b => a = b ∨ (A a ≠ none ∧ A b ≠ none)
  | .destroy _ => True

theorem vop_inv1 (ps : List Param) (junk : Nat → Nat) (op : VOp) (es : List Elem) (v : Vec) (hps : v.ps = ps) (h : Inv1 v es)
    (hfix : v.fixedLoc = true → op.PreFix ps v.loc.stride es)
    (hvar : v.fixedLoc = false → op.Pre ps es ∧ (v.trivialReloc = true ∨ op.NoOverlap ps es)) :
    Inv1 (op.apply junk v) (op.spec es) ∧ (op.apply junk v).ps = ps := by
  refine ⟨?_, by rw [apply_ps, hps]⟩
  rcases h with h | h
  · obtain ⟨h1, h2⟩ := hvar h.notFixed
    exact Or.inl (h.step_all junk op (hps ▸ h1) (by rcases h2 with h2 | h2; exact Or.inl h2; exact Or.inr (hps ▸ h2)))
  · exact Or.inr (h.step_all junk op (hps ▸ hfix h.isFixed))

/-- **one step**: whatever operation of the interface is applied to whichever vectors, the result represents what the same
    operation yields on the map of plain sequences -/
theorem step_refines (ps : List Param) (hl : ListOK ps) (w : World) (A : Nat → Option AVec) (h : WInv ps w A) (op : WOp)
    (hpre : op.Pre ps w A) (hok : (op.apply ps w).threw = false) : WInv ps (op.apply ps w) (op.aspec ps w A) := by
  cases op with
  | new k fs cap bytes alloc => exact new_refines ps w A h k fs cap bytes alloc hl hpre.2 hok
  | vop k op =>
    obtain ⟨es, v, hA, hv, hfix, hvar⟩ := hpre
    obtain ⟨a, ha, hva⟩ := h.get k v hv
    rw [hA] at ha; cases ha
    obtain ⟨h1, h2⟩ := vop_inv1 ps w.junk op es v hva.1 hva.2 hfix hvar
    simp only [WOp.apply, WOp.aspec, hA, World.upd, hv]
    exact (h.set k (op.apply w.junk v) (.live (op.spec es)) ⟨h2, h1⟩).of_vecs rfl
  | copy s d =>
    obtain ⟨⟨es, hA⟩, _⟩ := hpre
    simp only [WOp.apply, WOp.aspec, hA]
    exact copy_refines ps w A h s d es hA hok
  | move s d =>
    obtain ⟨hA, hsd⟩ := hpre
    cases ha : A s with
    | none => exact absurd ha hA
    | some a =>
      simp only [WOp.apply, WOp.aspec, ha]
      exact move_refines ps w A h s d a ha hsd
  | copyAssign s d =>
    simp only [WOp.apply, WOp.aspec]
    by_cases hsd : s = d
    · simp only [hsd, if_true]
      exact h.of_vecs (by simp [World.copyAssign])
    · simp only [hsd, if_false]
      rcases hpre with hp | ⟨⟨es, hAs⟩, hAd⟩
      · exact absurd hp hsd
      · cases hy : A d with
        | none => exact absurd hy hAd
        | some y =>
          simp only [hAs]
          exact copyAssign_refines ps w A h s d es y hAs hy hsd hok
  | moveAssign s d =>
    simp only [WOp.apply, WOp.aspec]
    by_cases hsd : s = d
    · simp only [hsd, if_true]
      exact h.of_vecs (by simp [World.moveAssign])
    · simp only [hsd, if_false]
      rcases hpre with hp | ⟨⟨es, hAs⟩, hAd⟩
      · exact absurd hp hsd
      · cases hy : A d with
        | none => exact absurd hy hAd
        | some y =>
          simp only [hAs]
          exact moveAssign_refines ps w A h s d es y hAs hy hsd hok
  | swap a b =>
    simp only [WOp.apply, WOp.aspec]
    by_cases hab : a = b
    · simp only [hab, if_true]
      exact h.of_vecs (by simp [World.swap])
    · simp only [hab, if_false]
      rcases hpre with hp | ⟨ha, hb⟩
      · exact absurd hp hab
      · cases hx : A a with
        | none => exact absurd hx ha
        | some x =>
          cases hy : A b with
          | none => exact absurd hy hb
          | some y => exact swap_refines ps w A h a b x y hx hy hab
  | destroy k => exact destroy_refines ps w A h k

/-- the abstract map after a history (it follows the world only to know which branch move assignment took) -/
def arun (ps : List Param) : World → (Nat → Option AVec) → List WOp → (Nat → Option AVec)
  | _, A, [] => A
  | w, A, op :: ops => arun ps (op.apply ps w) (op.aspec ps w A) ops

/-- histories that respect the preconditions and in which no allocation fails (failures: C17) -/
def WValid (ps : List Param) : World → (Nat → Option AVec) → List WOp → Prop
  | _, _, [] => True
  | w, A, op :: ops => op.Pre ps w A ∧ (op.apply ps w).threw = false ∧ WValid ps (op.apply ps w) (op.aspec ps w A) ops

/-- **every history over any number of vectors**: construction, in-place operations, copy/move construction, copy/move
    assignment, swap and destruction, in any interleaving and of any length, keep every vector a faithful representation
    of the plain sequence that the same operations produce on a map of plain sequences -/
theorem history_refines (ps : List Param) (hl : ListOK ps) (ops : List WOp) :
    ∀ (w : World) (A : Nat → Option AVec), WInv ps w A → WValid ps w A ops →
      WInv ps (ops.foldl (fun w op => op.apply ps w) w) (arun ps w A ops) := by
  induction ops with
  | nil => intro w A h _; exact h
  | cons op ops ih =>
    intro w A h hv
    simp only [List.foldl_cons, arun]
    exact ih _ _ (step_refines ps hl w A h op hv.1 hv.2.1) hv.2.2

/-- what the invariant says about observations: every live vector shows exactly its abstract sequence, moved-from
    vectors are empty, and no live object was ever clobbered -/
theorem WInv.observe {ps : List Param} {w : World} {A : Nat → Option AVec} (h : WInv ps w A) (k : Nat) (v : Vec)
    (hv : w.vecs k = some v) :
    (∀ es, A k = some (.live es) → v.abs = es.map some ∧ v.size = es.length ∧ v.poison = false) ∧
    (A k = some .moved → v.size = 0 ∧ v.abs = [] ∧ v.poison = false) := by
  obtain ⟨a, ha, hva⟩ := h.get k v hv
  constructor
  · intro es hes
    rw [hes] at ha; cases ha
    exact ⟨hva.2.abs, hva.2.size, hva.2.clean⟩
  · intro hm
    rw [hm] at ha; cases ha
    exact ⟨hva.2.2.1, by simp [Vec.abs, hva.2.2.1], hva.2.2.2.1⟩

/-- the empty world represents the empty map -/
theorem WInv.init (ps : List Param) (w : World) (h : ∀ k, w.vecs k = none) : WInv ps w (fun _ => none) := by
  intro k; rw [h k]; trivial

/-! ### allocation failures inside a history -/

/-- `clear()` turns every representable vector - live or moved-from - into the empty sequence -/
theorem clear_inv (ps : List Param) (hl : ListOK ps) (v : Vec) (a : AVec) (h : VInv ps v a) : VInv ps v.clear (.live []) := by
  refine ⟨h.ps_eq, ?_⟩
  cases a with
  | live es =>
    rcases h.2 with h1 | h1
    · have := h1.step_noreloc (fun _ => 0) .clear trivial trivial
      exact Or.inl this
    · have := h1.step_noreloc (fun _ => 0) .clear ⟨trivial, trivial⟩ trivial
      exact Or.inr this
  | moved =>
    obtain ⟨hps, hmem, hsz, hpo, hst, _⟩ := h
    have hdr : v.destructRange 0 v.size = [] := by
      simp only [Vec.destructRange, hsz, Nat.sub_self, List.range_zero, List.map_nil, List.foldl_nil, hmem]
    cases hf : v.fixedLoc with
    | false =>
      left
      have hf' : v.clear.fixedLoc = false := hf
      refine ⟨hps ▸ hl, hf', fun _ hx => absurd hx (by simp), ?_, fun k hk => absurd hk (by simp), ?_, Or.inl ?_, hpo⟩
      · simp only [Vec.clear, Loc.resize, hf, Bool.false_eq_true, if_false, List.length_nil]
      · intro x; simp only [Vec.clear, hdr]; simp
      · simp only [Vec.clear, Loc.resize, hf, Bool.false_eq_true, if_false, if_true, rawEndOf]
    | true =>
      right
      have hf' : v.clear.fixedLoc = true := hf
      refine ⟨hps ▸ hl, hf', fun _ hx => absurd hx (by simp), ?_, ?_, fun _ hx => absurd hx (by simp), ?_, hpo⟩
      · simp only [Vec.clear, Loc.resize, hf, if_true, List.length_nil]
      · simp only [Vec.clear, Loc.resize, hf, if_true]; exact hst hf
      · intro x; simp only [Vec.clear, hdr]; simp

/-- the abstract map after an operation that ended in `bad_alloc`: unchanged, except that a failed copy assignment has
    emptied its target (basic guarantee) -/
def WOp.aspecFail (A : Nat → Option AVec) : WOp → (Nat → Option AVec)
  | .copyAssign s d => if s = d then A else aset A d (some (.live []))
  | _ => A

theorem step_refines_fail (ps : List Param) (hl : ListOK ps) (w : World) (A : Nat → Option AVec) (h : WInv ps w A) (op : WOp)
    (hpre : op.Pre ps w A) (hprev : w.threw = false) (hthrow : (op.apply ps w).threw = true) :
    WInv ps (op.apply ps w) (op.aspecFail A) := by
  cases op with
  | new k fs cap bytes alloc =>
    simp only [WOp.apply, WOp.aspecFail] at hthrow ⊢
    unfold World.new at hthrow ⊢
    simp only at hthrow ⊢
    cases hp : allocPair w.heap w.acfg (Vec.new ps fs cap bytes w.junk).fixedLoc (Vec.new ps fs cap bytes w.junk).units
        (Vec.new ps fs cap bytes w.junk).S alloc cap with
    | mk h1 r =>
      rw [hp] at hthrow
      cases r with
      | none => exact h.of_vecs rfl
      | some pt => obtain ⟨p, t⟩ := pt; simp at hthrow
  | vop k op =>
    simp only [WOp.apply, World.upd] at hthrow
    split at hthrow
    · rw [hprev] at hthrow; exact absurd hthrow (by simp)
    · simp at hthrow
  | copy s d =>
    simp only [WOp.apply, WOp.aspecFail] at hthrow ⊢
    unfold World.copy at hthrow ⊢
    cases hv : w.vecs s with
    | none => simp only [hv] at hthrow; rw [hprev] at hthrow; exact absurd hthrow (by simp)
    | some vs =>
      simp only [hv] at hthrow ⊢
      cases hp : allocPair w.heap w.acfg vs.fixedLoc vs.units vs.S (socc vs.alloc) vs.cap with
      | mk h1 r =>
        rw [hp] at hthrow
        cases r with
        | none => exact h.of_vecs rfl
        | some pt => obtain ⟨p, t⟩ := pt; simp at hthrow
  | move s d =>
    simp only [WOp.apply, World.move] at hthrow
    split at hthrow
    · rw [hprev] at hthrow; exact absurd hthrow (by simp)
    · simp at hthrow
  | copyAssign s d =>
    simp only [WOp.apply, WOp.aspecFail] at hthrow ⊢
    by_cases hsd : s = d
    · simp only [hsd, World.copyAssign, if_true] at hthrow; exact absurd hthrow (by simp)
    · simp only [hsd, if_false]
      rcases hpre with hp | ⟨⟨es, hAs⟩, hAd⟩
      · exact absurd hp hsd
      · unfold World.copyAssign at hthrow ⊢
        simp only [hsd, if_false] at hthrow ⊢
        cases hvs : w.vecs s with
        | none => have := h s; rw [hvs, hAs] at this; exact absurd this (by simp)
        | some vs =>
          cases hvd : w.vecs d with
          | none =>
            have := h d; rw [hvd] at this
            cases hy : A d with
            | none => exact absurd hy hAd
            | some y => rw [hy] at this; exact absurd this (by simp)
          | some vd =>
            obtain ⟨y, hy, hvy⟩ := h.get d vd hvd
            have hclr := clear_inv ps hl vd y hvy
            simp only [hvs, hvd] at hthrow ⊢
            have hsp : ∀ (p : Ptr), VInv ps (vd.clear.setPtr p) (.live []) :=
              fun p => ⟨hclr.1, hclr.2.congr rfl rfl rfl rfl⟩
            cases hc : vd.clear.ptr.copyAssign w.heap w.acfg vd.S vs.ptr with
            | mk h1 r =>
              obtain ⟨p1, okc⟩ := r
              rw [hc] at hthrow
              cases okc with
              | false => simp only; exact (h.set d _ (.live []) (hsp p1)).of_vecs rfl
              | true =>
                simp only at hthrow ⊢
                cases ht : allocTable h1 vd.fixedLoc p1.alloc vs.cap with
                | mk h2 t =>
                  rw [ht] at hthrow
                  cases t with
                  | none =>
                    simp only
                    exact (h.set d { (vd.clear.setPtr p1) with cap := 0 } (.live []) ⟨hclr.1, hclr.2.congr rfl rfl rfl rfl⟩).of_vecs rfl
                  | some t => simp at hthrow
  | moveAssign s d =>
    simp only [WOp.apply, WOp.aspecFail] at hthrow ⊢
    unfold World.moveAssign at hthrow ⊢
    by_cases hsd : s = d
    · simp only [hsd, if_true] at hthrow; exact absurd hthrow (by simp)
    · simp only [hsd, if_false] at hthrow ⊢
      cases hvs : w.vecs s with
      | none => simp only [hvs] at hthrow; rw [hprev] at hthrow; exact absurd hthrow (by simp)
      | some vs =>
        cases hvd : w.vecs d with
        | none => simp only [hvs, hvd] at hthrow; rw [hprev] at hthrow; exact absurd hthrow (by simp)
        | some vd =>
          simp only [hvs, hvd] at hthrow ⊢
          by_cases hsteal : (w.acfg.ae || w.acfg.pocma || w.acfg.eq vd.alloc vs.alloc) = true
          · simp only [hsteal, if_true] at hthrow; exact absurd hthrow (by simp)
          · simp only [hsteal, if_false] at hthrow ⊢
            by_cases hb : vs.bytes > vd.bytes
            · simp only [hb, if_true] at hthrow ⊢
              cases hp : allocPair w.heap w.acfg vd.fixedLoc vs.bytes vd.S vd.alloc vs.cap with
              | mk h1 r =>
                rw [hp] at hthrow
                cases r with
                | none => exact h.of_vecs rfl
                | some pt => obtain ⟨p, t⟩ := pt; simp at hthrow
            · simp only [hb, if_false] at hthrow ⊢
              cases hp : allocTable w.heap vd.fixedLoc vd.alloc vs.cap with
              | mk h1 r =>
                rw [hp] at hthrow
                cases r with
                | none => exact h.of_vecs rfl
                | some t => simp at hthrow
  | swap a b =>
    simp only [WOp.apply, World.swap] at hthrow
    split at hthrow
    · simp at hthrow
    · split at hthrow
      · simp at hthrow
      · rw [hprev] at hthrow; exact absurd hthrow (by simp)
  | destroy k =>
    simp only [WOp.apply, World.destroy] at hthrow
    split at hthrow
    · rw [hprev] at hthrow; exact absurd hthrow (by simp)
    · simp at hthrow

/-- the abstract map after a history in which allocations may fail at any point -/
def arunF (ps : List Param) : World → (Nat → Option AVec) → List WOp → (Nat → Option AVec)
  | _, A, [] => A
  | w, A, op :: ops =>
    arunF ps ({ (op.apply ps w) with threw := false }) (if (op.apply ps w).threw then op.aspecFail A else op.aspec ps w A) ops

/-- the world after a history; the caller catches `bad_alloc` and goes on (the flag is reset before the next operation) -/
def wrunF (ps : List Param) : World → List WOp → World
  | w, [] => w
  | w, op :: ops => wrunF ps ({ (op.apply ps w) with threw := false }) ops

def WValidF (ps : List Param) : World → (Nat → Option AVec) → List WOp → Prop
  | _, _, [] => True
  | w, A, op :: ops => op.Pre ps w A ∧
      WValidF ps ({ (op.apply ps w) with threw := false }) (if (op.apply ps w).threw then op.aspecFail A else op.aspec ps w A) ops

/-- **every history, allocation failures included**: whichever allocations throw `bad_alloc`, and however the caller goes
    on afterwards, every vector keeps representing the plain sequence of the abstract map, in which a failed operation
    has changed nothing (a failed copy assignment has emptied its target) -/
theorem history_refines_with_failures (ps : List Param) (hl : ListOK ps) (ops : List WOp) :
    ∀ (w : World) (A : Nat → Option AVec), w.threw = false → WInv ps w A → WValidF ps w A ops →
      WInv ps (wrunF ps w ops) (arunF ps w A ops) := by
  induction ops with
  | nil => intro w A _ h _; exact h
  | cons op ops ih =>
    intro w A h0 h hv
    simp only [wrunF, arunF]
    apply ih _ _ rfl _ hv.2
    cases ht : (op.apply ps w).threw with
    | false => exact (step_refines ps hl w A h op hv.1 ht).of_vecs rfl
    | true => exact (step_refines_fail ps hl w A h op hv.1 h0 ht).of_vecs rfl

end Cntgs
