/-
C13 on the memcmp path: comparing the bytes of a run of consecutive memcmp-able fields is the same as comparing the
field values, so `reference == reference` is true exactly for equal logical content for EVERY parameter list (not only
on the element-wise path): the byte encoding is injective on values that fit the type, the fields of a run have the same
sizes on both sides, and the run table covers every parameter exactly once (`runs_ok`).
-/
import Cntgs.CompareProofs
import Cntgs.RunsProofs
namespace Cntgs

theorem encode_length (vb v : Nat) : (encode vb v).length = vb := by
  induction vb generalizing v with
  | zero => rfl
  | succ n ih => simp [encode, ih]

/-- the object representation determines the value (for values that fit into `vb` bytes) -/
theorem encode_inj (vb : Nat) : ∀ (v w : Nat), v < 256 ^ vb → w < 256 ^ vb → encode vb v = encode vb w → v = w := by
  induction vb with
  | zero => intro v w hv hw _; simp at hv hw; omega
  | succ n ih =>
    intro v w hv hw h
    simp only [encode, List.cons.injEq] at h
    have h1 : v / 256 < 256 ^ n := by
      rw [Nat.pow_succ] at hv; exact Nat.div_lt_of_lt_mul (by omega)
    have h2 : w / 256 < 256 ^ n := by
      rw [Nat.pow_succ] at hw; exact Nat.div_lt_of_lt_mul (by omega)
    have := ih _ _ h1 h2 h.2
    have e1 := Nat.div_add_mod v 256
    have e2 := Nat.div_add_mod w 256
    omega

theorem bytesOf_length (p : Param) (vals : List Nat) : (bytesOf p vals).length = p.vb * vals.length := by
  unfold bytesOf
  induction vals with
  | nil => simp
  | cons v vs ih => simp only [List.flatMap_cons, List.length_append, encode_length, ih, List.length_cons]; rw [Nat.mul_succ]; omega

theorem bytesOf_inj (p : Param) : ∀ (va vb : List Nat), va.length = vb.length →
    (∀ v ∈ va, v < 256 ^ p.vb) → (∀ v ∈ vb, v < 256 ^ p.vb) → bytesOf p va = bytesOf p vb → va = vb := by
  intro va
  induction va with
  | nil => intro vb hl _ _ _; cases vb with | nil => rfl | cons _ _ => simp at hl
  | cons x xs ih =>
    intro vb hl hra hrb h
    cases vb with
    | nil => simp at hl
    | cons y ys =>
      simp only [bytesOf, List.flatMap_cons] at h
      have hlen : (encode p.vb x).length = (encode p.vb y).length := by rw [encode_length, encode_length]
      obtain ⟨h1, h2⟩ := List.append_inj h hlen
      have hxy := encode_inj p.vb x y (hra x (by simp)) (hrb y (by simp)) h1
      have := ih ys (by simpa using hl) (fun v hv => hra v (by simp [hv])) (fun v hv => hrb v (by simp [hv])) h2
      rw [hxy, this]

/-- bytes of a sequence of fields: injective when the two sides have the same parameters and field sizes -/
theorem fieldBytes_inj : ∀ (L1 L2 : List (Param × List Nat)), L1.length = L2.length →
    (∀ i (h1 : i < L1.length) (h2 : i < L2.length), (L1[i]).1 = (L2[i]).1 ∧ (L1[i]).2.length = (L2[i]).2.length) →
    (∀ pv ∈ L1, ∀ v ∈ pv.2, v < 256 ^ pv.1.vb) → (∀ pv ∈ L2, ∀ v ∈ pv.2, v < 256 ^ pv.1.vb) →
    L1.flatMap (fun pv => bytesOf pv.1 pv.2) = L2.flatMap (fun pv => bytesOf pv.1 pv.2) → L1 = L2 := by
  intro L1
  induction L1 with
  | nil => intro L2 hl _ _ _ _; cases L2 with | nil => rfl | cons _ _ => simp at hl
  | cons x xs ih =>
    intro L2 hl hsame hr1 hr2 h
    cases L2 with
    | nil => simp at hl
    | cons y ys =>
      obtain ⟨hp, hs⟩ := hsame 0 (by simp) (by simp)
      simp only [List.getElem_cons_zero] at hp hs
      simp only [List.flatMap_cons] at h
      have hlen : (bytesOf x.1 x.2).length = (bytesOf y.1 y.2).length := by
        rw [bytesOf_length, bytesOf_length, hp, hs]
      obtain ⟨h1, h2⟩ := List.append_inj h hlen
      rw [← hp] at h1
      have hv := bytesOf_inj x.1 x.2 y.2 hs (hr1 x (by simp)) (by rw [hp]; exact hr2 y (by simp)) h1
      have hrest := ih ys (by simpa using hl)
        (fun i h1 h2 => by
          have := hsame (i + 1) (by simp; omega) (by simp; omega)
          simpa using this)
        (fun pv hpv => hr1 pv (by simp [hpv])) (fun pv hpv => hr2 pv (by simp [hpv])) h2
      have hxy : x = y := Prod.ext hp hv
      rw [hxy, hrest]

/-- values fit their type (for the memcmp-able parameters): what the C++ type system guarantees -/
def InRange (ps : List Param) (e : Elem) : Prop :=
  ∀ k (hk : k < ps.length) (hk' : k < e.length), ∀ v ∈ e[k], v < 256 ^ (ps[k]).vb

theorem fieldsFrom_getElem (ps : List Param) (e : Elem) (k last i : Nat) (hl : e.length = ps.length)
    (h : i < (fieldsFrom ps e k last).length) :
    ∃ (h1 : k + i < ps.length) (h2 : k + i < e.length), (fieldsFrom ps e k last)[i] = (ps[k + i], e[k + i]) := by
  unfold fieldsFrom at h ⊢
  simp only [List.length_take, List.length_drop, List.length_zip] at h
  have h1 : k + i < ps.length := by omega
  have h2 : k + i < e.length := by omega
  refine ⟨h1, h2, ?_⟩
  simp [List.getElem_take, List.getElem_drop, List.getElem_zip]

theorem fieldsFrom_length (ps : List Param) (e : Elem) (k last : Nat) (hl : e.length = ps.length) (hlast : last < ps.length)
    (hk : k ≤ last) : (fieldsFrom ps e k last).length = last + 1 - k := by
  unfold fieldsFrom
  simp only [List.length_take, List.length_drop, List.length_zip]
  omega

/-- **memcmp over a run = field-wise equality over the run** -/
theorem runBytes_eq_iff (ps : List Param) (a b : Elem) (k last : Nat) (ha : a.length = ps.length) (hb : b.length = ps.length)
    (hc : elemCounts a = elemCounts b) (hra : InRange ps a) (hrb : InRange ps b) (hk : k ≤ last) (hlast : last < ps.length) :
    runBytes ps a k last = runBytes ps b k last ↔ ∀ m (h1 : m < a.length) (h2 : m < b.length), k ≤ m → m ≤ last → a[m] = b[m] := by
  have hla := fieldsFrom_length ps a k last ha hlast hk
  have hlb := fieldsFrom_length ps b k last hb hlast hk
  have hcount : ∀ m (h1 : m < a.length) (h2 : m < b.length), a[m].length = b[m].length := by
    intro m h1 h2
    have := congrArg (fun l => l[m]?) hc
    simpa [elemCounts, h1, h2] using this
  constructor
  · intro h
    have hL : fieldsFrom ps a k last = fieldsFrom ps b k last := by
      apply fieldBytes_inj _ _ (by rw [hla, hlb])
      · intro i h1 h2
        obtain ⟨p1, p2, e1⟩ := fieldsFrom_getElem ps a k last i ha h1
        obtain ⟨q1, q2, e2⟩ := fieldsFrom_getElem ps b k last i hb h2
        rw [e1, e2]
        exact ⟨rfl, hcount (k + i) p2 q2⟩
      · intro pv hpv v hv
        obtain ⟨i, hi, rfl⟩ := List.getElem_of_mem hpv
        obtain ⟨p1, p2, e1⟩ := fieldsFrom_getElem ps a k last i ha hi
        rw [e1] at hv ⊢
        exact hra (k + i) p1 p2 v hv
      · intro pv hpv v hv
        obtain ⟨i, hi, rfl⟩ := List.getElem_of_mem hpv
        obtain ⟨p1, p2, e1⟩ := fieldsFrom_getElem ps b k last i hb hi
        rw [e1] at hv ⊢
        exact hrb (k + i) p1 p2 v hv
      · exact h
    intro m h1 h2 hkm hml
    have hi : m - k < (fieldsFrom ps a k last).length := by rw [hla]; omega
    have hi' : m - k < (fieldsFrom ps b k last).length := by rw [hlb]; omega
    obtain ⟨p1, p2, e1⟩ := fieldsFrom_getElem ps a k last (m - k) ha hi
    obtain ⟨q1, q2, e2⟩ := fieldsFrom_getElem ps b k last (m - k) hb hi'
    have : (fieldsFrom ps a k last)[m - k] = (fieldsFrom ps b k last)[m - k] := by simp only [hL]
    rw [e1, e2] at this
    have hkm' : k + (m - k) = m := by omega
    simp only [hkm', Prod.mk.injEq, true_and] at this
    exact this
  · intro h
    unfold runBytes
    congr 1
    apply List.ext_getElem (by rw [hla, hlb])
    intro i h1 h2
    obtain ⟨p1, p2, e1⟩ := fieldsFrom_getElem ps a k last i ha h1
    obtain ⟨q1, q2, e2⟩ := fieldsFrom_getElem ps b k last i hb h2
    rw [e1, e2, h (k + i) p2 q2 (by omega) (by rw [hla] at h1; omega)]

/-- **`reference == reference` is equality of the logical content, for every parameter list**: memcmp runs and the
    element-wise comparisons together cover every field exactly once; nothing else (padding, capacity, allocator, former
    contents of the memory) is an input of the comparison -/
theorem elemEq_iff (ps : List Param) (a b : Elem) (ha : a.length = ps.length) (hb : b.length = ps.length)
    (hc : elemCounts a = elemCounts b) (hra : InRange ps a) (hrb : InRange ps b) :
    elemEq ps a b = some true ↔ a = b := by
  have hT := runs_ok (·.ty.eqMemcmp) true ps
  unfold elemEq
  rw [if_pos (fixedSizesEq_of_counts ps a b hc), eqFold_true]
  have hcount : ∀ m (h1 : m < a.length) (h2 : m < b.length), a[m].length = b[m].length := by
    intro m h1 h2
    have := congrArg (fun l => l[m]?) hc
    simpa [elemCounts, h1, h2] using this
  constructor
  · intro h
    apply List.ext_getElem (by omega)
    intro j hj1 hj2
    have hjp : j < ps.length := by omega
    cases hpred : predAt (·.ty.eqMemcmp) ps j with
    | false =>
      -- compared on its own
      have hman := hT.manual_of_not j hjp hpred
      have hk := h j (by simp [hjp])
      unfold eqOne eqTable at hk
      rw [runs_getD _ _ ps j hjp, hman] at hk
      simp only [List.getElem?_eq_getElem hjp, List.getElem?_eq_getElem hj1, List.getElem?_eq_getElem hj2] at hk
      split at hk
      · simpa using hk
      · exact (equal3_iff _ _ (hcount j hj1 hj2)).mp hk
    | true =>
      -- part of a memcmp run
      obtain ⟨k, last, hrun, hkj, hjl⟩ := hT.covered j hjp hpred
      obtain ⟨hkl, hlast, _⟩ := hT.run_wf k last hrun
      have hk := h k (by simp; omega)
      unfold eqOne eqTable at hk
      rw [runs_getD _ _ ps k (by omega), hrun] at hk
      simp only [Option.some.injEq, beq_iff_eq] at hk
      exact (runBytes_eq_iff ps a b k last ha hb hc hra hrb hkl hlast).mp hk j hj1 hj2 hkj hjl
  · intro h k hk
    subst h
    have hkp : k < ps.length := by simpa using hk
    have hk1 : k < a.length := by omega
    unfold eqOne eqTable
    rw [runs_getD _ _ ps k hkp]
    cases hrun : runsGo (·.ty.eqMemcmp) true ps 0 0 (fun _ => .skip) k with
    | skip => rfl
    | manual =>
      simp only [List.getElem?_eq_getElem hkp, List.getElem?_eq_getElem hk1]
      split
      · simp
      · exact equal3_refl _
    | upto last => simp

/-- reflexive and symmetric for every list -/
theorem elemEq_refl (ps : List Param) (a : Elem) (ha : a.length = ps.length) (hra : InRange ps a) : elemEq ps a a = some true :=
  (elemEq_iff ps a a ha ha rfl hra hra).mpr rfl

theorem elemEq_symm (ps : List Param) (a b : Elem) (ha : a.length = ps.length) (hb : b.length = ps.length)
    (hc : elemCounts a = elemCounts b) (hra : InRange ps a) (hrb : InRange ps b) (h : elemEq ps a b = some true) :
    elemEq ps b a = some true :=
  (elemEq_iff ps b a hb ha hc.symm hrb hra).mpr ((elemEq_iff ps a b ha hb hc hra hrb).mp h).symm

theorem allEq_true : ∀ (ps : List Param) (a b : List Elem), a.length = b.length →
    (allEq ps a b = some true ↔ ∀ i (h1 : i < a.length) (h2 : i < b.length), elemEq ps a[i] b[i] = some true) := by
  intro ps a
  induction a with
  | nil => intro b _; simp [allEq]
  | cons x xs ih =>
    intro b hl
    cases b with
    | nil => simp at hl
    | cons y ys =>
      simp only [allEq]
      have hl' : xs.length = ys.length := by simpa using hl
      constructor
      · intro h i h1 h2
        cases hxy : elemEq ps x y with
        | none => rw [hxy] at h; simp at h
        | some r =>
          cases r with
          | false => rw [hxy] at h; simp at h
          | true =>
            rw [hxy] at h
            cases i with
            | zero => exact hxy
            | succ i => exact (ih ys hl').mp h i (by simpa using h1) (by simpa using h2)
      · intro h
        have h0 := h 0 (by simp) (by simp)
        simp only [List.getElem_cons_zero] at h0
        rw [h0]
        exact (ih ys hl').mpr (fun i h1 h2 => by
          have := h (i + 1) (by simp; omega) (by simp; omega)
          simpa using this)

/-- **`vector == vector` on the element-wise path is equality of the element sequences** (same number of elements, equal
    field sizes, equal field values) -/
theorem vecEq_iff_elementwise (ps : List Param) (fa fb : List Nat) (a b : List Elem)
    (hgen : (ps.all (·.ty.eqMemcmp) && storageAl ps == 1) = false)
    (hwa : ∀ e ∈ a, e.length = ps.length ∧ InRange ps e) (hwb : ∀ e ∈ b, e.length = ps.length ∧ InRange ps e)
    (hshape : a.map elemCounts = b.map elemCounts) :
    vecEq ps fa fb a b = some true ↔ a = b := by
  have hl : a.length = b.length := by simpa using congrArg List.length hshape
  unfold vecEq
  simp only [hgen, Bool.false_eq_true, if_false, hl, beq_self_eq_true, if_true]
  rw [allEq_true ps a b hl]
  constructor
  · intro h
    apply List.ext_getElem hl
    intro i h1 h2
    have hc : elemCounts a[i] = elemCounts b[i] := by
      have := congrArg (fun l => l[i]?) hshape
      simpa [h1, h2] using this
    have ha := hwa a[i] (List.getElem_mem h1)
    have hb := hwb b[i] (List.getElem_mem h2)
    exact (elemEq_iff ps a[i] b[i] ha.1 hb.1 hc ha.2 hb.2).mp (h i h1 h2)
  · intro h i h1 h2
    subst h
    have ha := hwa a[i] (List.getElem_mem h1)
    exact elemEq_refl ps a[i] ha.1 ha.2

end Cntgs
