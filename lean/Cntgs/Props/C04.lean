/-
C04 — fields and elements are laid out in order, inside their element, without overlap.
-/
import Cntgs.LayoutProofs
namespace Cntgs.C04

/-- The objects of one element are stored in parameter order without overlap: each range starts at or
    after the end of the previous one, lies at or after the element start, and is non-negative. -/
theorem fields_ordered (ps : List Param) (counts : List Nat) (start : Nat)
    (hwf : ∀ p ∈ ps, WfParam p) (hne : ps ≠ []) (hc : CountsOK ps counts) (hs : storageAl ps ∣ start) :
    List.Pairwise (fun x y : Nat × Nat => x.2 ≤ y.1) (place ps counts start) ∧
    (∀ x ∈ place ps counts start, start ≤ x.1 ∧ x.1 ≤ x.2) := by
  rw [place_eq_greedy ps counts start hwf hne hc hs]
  exact greedyGo_ordered ps counts start hwf

/-- A span has exactly the count it was given: `end - start = sizeof(T) * count` for every parameter
    (`get_fixed_size<I>()` objects for FixedSize, the emplaced count for VaryingSize, one for plain). -/
theorem span_sizes (ps : List Param) (counts : List Nat) (start : Nat)
    (hwf : ∀ p ∈ ps, WfParam p) (hne : ps ≠ []) (hc : CountsOK ps counts) (hs : storageAl ps ∣ start) :
    ∀ x ∈ List.zip (List.zip ps counts) (place ps counts start), x.2.2 - x.2.1 = x.1.1.vb * x.1.2 := by
  rw [place_eq_greedy ps counts start hwf hne hc hs]
  exact greedyGo_sizes ps counts start

/-- `data_end()` of a reference (end of the last field) is the first free address of the placement
    and never precedes `data_begin()`. -/
theorem element_extent (ps : List Param) (counts : List Nat) (start : Nat)
    (hwf : ∀ p ∈ ps, WfParam p) (hne : ps ≠ []) (hc : CountsOK ps counts) (hs : storageAl ps ∣ start) :
    start ≤ placeEnd ps counts start := by
  rw [placeEnd_eq_goEnd ps counts start hwf hne hc hs]
  exact goEnd_ge ps counts start hwf

/-- The first field starts exactly at the element start (`reference.data_begin() == iterator.data()`):
    a storage-aligned start needs no padding in front of the first parameter. -/
theorem first_field_at_element_start (p : Param) (ps : List Param) (counts : List Nat) (start : Nat)
    (hwf : ∀ q ∈ p :: ps, WfParam q) (hc : CountsOK (p :: ps) counts) (hs : storageAl (p :: ps) ∣ start) :
    ((place (p :: ps) counts start).head?.map (·.1)) = some start := by
  rw [place_eq_greedy (p :: ps) counts start hwf (by simp) hc hs]
  cases counts with
  | nil => simp [CountsOK] at hc
  | cons c cs =>
    have hd : p.al ∣ start := Nat.dvd_trans (al_dvd_storageAl (p :: ps) hwf p (by simp)) hs
    simp [greedyGo, alignUp_of_dvd _ _ (hwf p (by simp)).1.pos hd]

example : (place [⟨.plain, 8, 8, {}⟩, ⟨.varying, 1, 1, {}⟩, ⟨.plain, 2, 1, {}⟩] [1, 7, 1] 24)
    = [(24, 32), (32, 39), (39, 41)] := by decide +kernel

end Cntgs.C04
