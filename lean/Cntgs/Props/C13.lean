/-
C13 — equality means equal logical content, nothing else.

The model's `elemEq`/`vecEq` take the logical content as their only input: after the repair of the memcmp
fast paths (runs split at parameters that can be preceded by padding, whole-buffer path only for storage
alignment 1) no padding byte, spare capacity, allocator or former content of the memory can reach a
comparison; the correspondence run checks exactly that on the real operators with junk-filled blocks.
-/
import Cntgs.CompareProofs
import Cntgs.EqProofs
import Cntgs.FastPathProofs
namespace Cntgs.C13

/-- `!=` is the negation of `==` (`reference.hpp:151-163`, `vector.hpp:307-313`, `element.hpp:159-170`) -/
def elemNe (ps : List Param) (a b : Elem) : Option Bool := (elemEq ps a b).map (!·)

theorem ne_is_negation (ps : List Param) (a b : Elem) (r : Bool) (h : elemEq ps a b = some r) :
    elemNe ps a b = some (!r) := by simp [elemNe, h]

/-- element-wise path: references/elements are equal exactly when they hold equal field values, given
    equal field sizes (which is the property's own reading of "same content") -/
theorem elem_eq_iff_content_generic (ps : List Param) (a b : Elem)
    (hno : ∀ p ∈ ps, p.ty.eqMemcmp = false) (ha : a.length = ps.length) (hb : b.length = ps.length)
    (hc : elemCounts a = elemCounts b) : elemEq ps a b = some true ↔ a = b :=
  elemEq_iff_generic ps a b hno ha hb hc

/-- reflexive on the element-wise path -/
theorem elem_eq_refl_generic (ps : List Param) (a : Elem) (hno : ∀ p ∈ ps, p.ty.eqMemcmp = false)
    (ha : a.length = ps.length) : elemEq ps a a = some true :=
  (elemEq_iff_generic ps a a hno ha ha rfl).mpr rfl

/-- symmetric on the element-wise path -/
theorem elem_eq_symm_generic (ps : List Param) (a b : Elem)
    (hno : ∀ p ∈ ps, p.ty.eqMemcmp = false) (ha : a.length = ps.length) (hb : b.length = ps.length)
    (hc : elemCounts a = elemCounts b) (h : elemEq ps a b = some true) : elemEq ps b a = some true :=
  (elemEq_iff_generic ps b a hno hb ha hc.symm).mpr ((elemEq_iff_generic ps a b hno ha hb hc).mp h).symm

/-- **every parameter list** (memcmp runs and element-wise fields alike): references/elements with equal field sizes are
    equal exactly when they hold equal field values.  `InRange`: the values fit their types (what the C++ types
    guarantee; it makes the object representation injective). -/
theorem elem_eq_iff_content (ps : List Param) (a b : Elem) (ha : a.length = ps.length) (hb : b.length = ps.length)
    (hc : elemCounts a = elemCounts b) (hra : InRange ps a) (hrb : InRange ps b) :
    elemEq ps a b = some true ↔ a = b :=
  elemEq_iff ps a b ha hb hc hra hrb

/-- FixedSize fields of different sizes are never equal, in either direction, whatever the values -/
theorem elem_eq_false_if_fixed_sizes_differ (ps : List Param) (a b : Elem) (h : fixedSizesEq ps a b = false) :
    elemEq ps a b = some false ∧ elemEq ps b a = some false :=
  ⟨elemEq_fixed_size_differs ps a b h, elemEq_fixed_size_differs ps b a (by rw [fixedSizesEq_symm]; exact h)⟩

/-- reflexive and symmetric for every parameter list -/
theorem elem_eq_refl (ps : List Param) (a : Elem) (ha : a.length = ps.length) (hra : InRange ps a) : elemEq ps a a = some true :=
  elemEq_refl ps a ha hra

theorem elem_eq_symm (ps : List Param) (a b : Elem) (ha : a.length = ps.length) (hb : b.length = ps.length)
    (hc : elemCounts a = elemCounts b) (hra : InRange ps a) (hrb : InRange ps b) (h : elemEq ps a b = some true) :
    elemEq ps b a = some true :=
  elemEq_symm ps a b ha hb hc hra hrb h

/-- memcmp over a run of consecutive memcmp-able fields decides exactly the field-wise equality over that run: no byte
    other than the object representations of those fields takes part (the run table breaks runs wherever padding can
    occur: `RunsProofs`) -/
theorem memcmp_run_is_fieldwise (ps : List Param) (a b : Elem) (k last : Nat) (ha : a.length = ps.length) (hb : b.length = ps.length)
    (hc : elemCounts a = elemCounts b) (hra : InRange ps a) (hrb : InRange ps b) (hk : k ≤ last) (hlast : last < ps.length) :
    runBytes ps a k last = runBytes ps b k last ↔ ∀ m (h1 : m < a.length) (h2 : m < b.length), k ≤ m → m ≤ last → a[m] = b[m] :=
  runBytes_eq_iff ps a b k last ha hb hc hra hrb hk hlast

/-- vectors on the element-wise path: equal exactly when they hold the same number of elements with equal field sizes
    and equal field values -/
theorem vec_eq_iff_content_elementwise (ps : List Param) (fa fb : List Nat) (a b : List Elem)
    (hgen : (ps.all (·.ty.eqMemcmp) && storageAl ps == 1) = false)
    (hwa : ∀ e ∈ a, e.length = ps.length ∧ InRange ps e) (hwb : ∀ e ∈ b, e.length = ps.length ∧ InRange ps e)
    (hshape : a.map elemCounts = b.map elemCounts) :
    vecEq ps fa fb a b = some true ↔ a = b :=
  vecEq_iff_elementwise ps fa fb a b hgen hwa hwb hshape

/-- vectors on the whole-buffer (memcmp) path, built with the same fixed sizes: equal exactly when they hold the same
    number of elements with equal field sizes and equal field values -/
theorem vec_eq_iff_content_fastpath (ps : List Param) (fa fb : List Nat) (a b : List Elem) (hne : ps ≠ [])
    (hgen : (ps.all (·.ty.eqMemcmp) && storageAl ps == 1) = true) (hf : fixedSizesOf ps fa = fixedSizesOf ps fb)
    (hwa : ∀ e ∈ a, e.length = ps.length ∧ InRange ps e) (hwb : ∀ e ∈ b, e.length = ps.length ∧ InRange ps e)
    (hshape : a.map elemCounts = b.map elemCounts) :
    vecEq ps fa fb a b = some true ↔ a = b :=
  vecEq_iff_fastpath ps fa fb a b hne hgen hf hwa hwb hshape

/-- whole-buffer path: vectors built with different fixed sizes are never equal unless one is empty — the bytes alone do
    not decide (the former code compared only the bytes) -/
theorem vec_eq_fastpath_needs_equal_fixed_sizes (ps : List Param) (fa fb : List Nat) (a b : List Elem)
    (hgen : (ps.all (·.ty.eqMemcmp) && storageAl ps == 1) = true) (ha : a ≠ []) (hb : b ≠ [])
    (hf : (fixedSizesOf ps fa == fixedSizesOf ps fb) = false) : vecEq ps fa fb a b = some false := by
  unfold vecEq
  cases a with
  | nil => exact absurd rfl ha
  | cons x xs =>
    cases b with
    | nil => exact absurd rfl hb
    | cons y ys => simp [hgen, hf]

/-- the witness of the repaired defect: `FixedSize<uint8_t>`, `{(1,2)}` with fixed size 2 against `{(1),(2)}` with fixed
    size 1 hold the same bytes and are not equal -/
example : vecEq [⟨.fixed, 1, 1, {}⟩] [2] [1] [[[1, 2]]] [[[1]], [[2]]] = some false := by decide +kernel

/-- vectors of different sizes are never equal on the element-wise path (the former three-iterator
    `std::equal` made a vector equal to every longer vector it is a prefix of) -/
theorem vec_eq_needs_equal_size (ps : List Param) (fa fb : List Nat) (a b : List Elem)
    (hgen : (ps.all (·.ty.eqMemcmp) && storageAl ps == 1) = false) (hl : a.length ≠ b.length) :
    vecEq ps fa fb a b = some false := by
  unfold vecEq
  simp [hgen, hl]

/-- whole-buffer path: an empty vector equals exactly the empty vectors -/
theorem vec_eq_empty (ps : List Param) (fa fb : List Nat) (b : List Elem) :
    vecEq ps fa fb [] b = some true ↔ b = [] ∨ ((ps.all (·.ty.eqMemcmp) && storageAl ps == 1) = false ∧ b.length = 0) := by
  unfold vecEq
  by_cases h : (ps.all (·.ty.eqMemcmp) && storageAl ps == 1) = true
  · simp [h]
  · have h' : (ps.all (·.ty.eqMemcmp) && storageAl ps == 1) = false := by simpa using h
    cases b with
    | nil => simp [h', allEq]
    | cons x xs => simp [h']

/-- memcmp runs: the repaired run table never lets a run extend over a parameter that can be preceded by
    padding — witness on `<u8, AlignAs<u32,4>>`, where the padding bytes used to take part -/
example : eqTable [⟨.plain, 1, 1, {}⟩, ⟨.plain, 4, 4, { lexMemcmp := false }⟩] = [.upto 0, .upto 1] := by decide +kernel

/-- non-vacuity + the prefix witness: `{(1,2)}` vs `{(1,2),(3,4)}` on a list with a non-memcmp type -/
example :
    let ps : List Param := [⟨.plain, 4, 1, { lexMemcmp := false }⟩, ⟨.plain, 4, 1, { eqMemcmp := false, lexMemcmp := false }⟩]
    vecEq ps [] [] [[[1],[2]]] [[[1],[2]],[[3],[4]]] = some false ∧ vecEq ps [] [] [[[1],[2]]] [[[1],[2]]] = some true := by decide +kernel

end Cntgs.C13
