/-
C18 — empty, zero-capacity and default-constructed vectors are fully usable.

`junk` is the content of freshly allocated (or never allocated) bookkeeping memory: every theorem below is stated for an
arbitrary `junk`, so no observation can depend on it.
-/
import Cntgs.FixProofs
import Cntgs.World
import Cntgs.Props.C01
import Cntgs.VarRelocProofs
namespace Cntgs.C18

/-- what C18 lists for an empty vector: size() == 0, empty(), begin() == end() (no element to read),
    data_begin() == data_end() (offsets 0 and 0 of the block; for a vector without a block: null and null) -/
structure EmptyObs (v : Vec) : Prop where
  size : v.size = 0
  elems : v.abs = []
  data : v.dataEnd = 0
  clean : v.poison = false

theorem empty_offset_table {v : Vec} (h : VarInv v []) : EmptyObs v := by
  have hs : v.size = 0 := by simp [Vec.size, h.notFixed, h.size_eq]
  refine ⟨hs, by simpa using h.abs_eq, ?_, h.clean⟩
  simp only [Vec.dataEnd, h.notFixed, Bool.false_eq_true, if_false]
  rcases h.last_eq with hl | ⟨hne, _⟩
  · simpa [rawEndOf] using hl
  · exact absurd rfl hne

theorem empty_stride {v : Vec} (h : FixInv v []) : EmptyObs v := by
  have hs : v.size = 0 := by simp [Vec.size, h.isFixed, h.count_eq]
  refine ⟨hs, by simpa using h.abs_eq, ?_, h.clean⟩
  simp [Vec.dataEnd, h.isFixed, h.count_eq]

/-- freshly constructed, any capacity including 0, any junk in the offset table -/
theorem fresh_offset_table (ps : List Param) (fs : List Nat) (cap bytes : Nat) (junk : Nat → Nat) (hl : ListOK ps)
    (hnf : isFixedOrPlain ps = false) : EmptyObs (Vec.new ps fs cap bytes junk) :=
  empty_offset_table (VarInv.new ps fs cap bytes junk hl hnf)

theorem fresh_stride (ps : List Param) (fs : List Nat) (cap bytes : Nat) (junk : Nat → Nat) (hl : ListOK ps)
    (hf : isFixedOrPlain ps = true) (hlf : ps.length ≤ fs.length) : EmptyObs (Vec.new ps fs cap bytes junk) :=
  empty_stride (FixInv.new ps fs cap bytes junk hl hf hlf)

/-- default-constructed: no block, no table, capacity 0 -/
theorem default_offset_table (ps : List Param) (junk : Nat → Nat) (hl : ListOK ps) (hnf : isFixedOrPlain ps = false) :
    VarInv (Vec.default ps junk) [] := by
  refine ⟨hl, hnf, fun _ h => absurd h (by simp), rfl, fun k hk => absurd hk (by simp), ?_, Or.inl rfl, rfl⟩
  intro x; simp [Vec.default]

theorem default_stride (ps : List Param) (junk : Nat → Nat) (hl : ListOK ps) (hf : isFixedOrPlain ps = true) :
    FixInv (Vec.default ps junk) [] := by
  have hnv := noVarying_of_fixedOrPlain ps hf
  have hst := (elemSize_fixed ps (ps.map (fun _ => 0)) hl.wf hl.ne hnv (by simp)).2
  refine ⟨hl, hf, fun _ h => absurd h (by simp), rfl, ?_, fun _ h => absurd h (by simp), ?_, rfl⟩
  · show storageAl ps ∣ (elemSize ps (ps.map (fun _ => 0))).stride
    rw [hst]; exact alignUp_dvd _ _
  · intro x; simp [Vec.default]

/-- emptied by any history: whenever the plain sequence is empty after the history, the vector shows the empty
    observations (pop_back of the last element, erase of everything, clear) — offset-table locator, `memmove` path -/
theorem emptied_offset_table_partial (ps : List Param) (fs : List Nat) (cap bytes : Nat) (junk : Nat → Nat)
    (hl : ListOK ps) (hnf : isFixedOrPlain ps = false) (ht : (Vec.new ps fs cap bytes junk).trivialReloc = true)
    (ops : List VOp) (hv : Valid ps [] ops) (hempty : ops.foldl VOp.spec [] = []) :
    EmptyObs (ops.foldl (VOp.apply junk) (Vec.new ps fs cap bytes junk)) := by
  have h := (VarInv.new ps fs cap bytes junk hl hnf).history ht junk ops hv
  rw [hempty] at h
  exact empty_offset_table h

theorem emptied_stride (ps : List Param) (fs : List Nat) (cap bytes : Nat) (junk : Nat → Nat)
    (hl : ListOK ps) (hf : isFixedOrPlain ps = true) (hlf : ps.length ≤ fs.length)
    (ops : List VOp) (hv : C01.ValidFixed ps fs [] ops) (hempty : ops.foldl VOp.spec [] = []) :
    EmptyObs (ops.foldl (VOp.apply junk) (Vec.new ps fs cap bytes junk)) := by
  have h := (FixInv.new ps fs cap bytes junk hl hf hlf).history_all junk ops (C01.validFix_of_counts ps fs hl hf hlf ops [] hv)
  rw [hempty] at h
  exact empty_stride h

/-- `clear()`, `erase(begin(), end())` and `reserve` on an empty vector are well defined and leave it empty; these need no
    assumption on the value types (nothing is relocated) -/
theorem ops_on_empty_offset_table {v : Vec} (h : VarInv v []) (junk : Nat → Nat) (n b : Nat) :
    VarInv v.clear [] ∧ VarInv (v.eraseRange 0 0) [] ∧ VarInv (v.reserve n b junk) [] := by
  have hsz : v.loc.size = 0 := h.size_eq
  have he : v.eraseRange 0 0 = v.clear := by rw [clear_eq_eraseRange v h.notFixed, hsz]
  have hc : VarInv v.clear [] := by
    rw [clear_eq_eraseRange v h.notFixed, hsz, eraseRange_var_nomove v 0 0 h.notFixed (by omega)]
    refine ⟨h.lok, h.notFixed, h.eok, ?_, fun k hk => absurd hk (by simp), ?_, Or.inl ?_, h.clean⟩
    · simp [hsz]
    · intro x
      have := h.mem_eq x
      simpa [Vec.destructRange] using this
    · simp [rawEndOf, hsz]
  exact ⟨hc, he ▸ hc, h.reserve n b junk⟩

theorem ops_on_empty_stride {v : Vec} (h : FixInv v []) (junk : Nat → Nat) (n b : Nat) :
    FixInv v.clear [] ∧ FixInv (v.eraseRange 0 0) [] ∧ FixInv (v.reserve n b junk) [] := by
  have hsz : v.loc.count = 0 := h.count_eq
  have he : v.eraseRange 0 0 = v.clear := by rw [clear_eq_eraseRange_fix v h.isFixed, hsz]
  have hc : FixInv v.clear [] := by
    rw [clear_eq_eraseRange_fix v h.isFixed, hsz, eraseRange_fix_nomove v 0 0 h.isFixed (by omega)]
    refine h.of_mem rfl ?_ h.clean ?_
    · show ({ v.loc with count := v.loc.count - (0 - 0) } : Loc) = v.loc
      rw [hsz]; cases hl : v.loc; rw [hl] at hsz; simp at hsz; simp [hsz]
    · intro x; simp [Vec.destructRange]
  exact ⟨hc, he ▸ hc, h.reserve n b junk⟩

/-- observations never depend on the junk in fresh bookkeeping memory: two runs of the same history over different junk
    observe the same -/
theorem junk_independent_partial (ps : List Param) (fs : List Nat) (cap bytes : Nat) (junk1 junk2 : Nat → Nat)
    (hl : ListOK ps) (hnf : isFixedOrPlain ps = false) (ht : (Vec.new ps fs cap bytes junk1).trivialReloc = true)
    (ops : List VOp) (hv : Valid ps [] ops) :
    C01.obs (ops.foldl (VOp.apply junk1) (Vec.new ps fs cap bytes junk1)) =
    C01.obs (ops.foldl (VOp.apply junk2) (Vec.new ps fs cap bytes junk2)) := by
  rw [(C01.history_offset_table_partial ps fs cap bytes junk1 hl hnf ht ops hv).1,
      (C01.history_offset_table_partial ps fs cap bytes junk2 hl hnf ht ops hv).1]

/-- after reserve / emplace_back an empty vector behaves like any other: the history theorems start from `VarInv v []` /
    `FixInv v []`, whichever way that state was reached -/
theorem usable_afterwards_partial {v : Vec} (h : VarInv v []) (ht : v.trivialReloc = true) (junk : Nat → Nat)
    (ops : List VOp) (hv : Valid v.ps [] ops) :
    (ops.foldl (VOp.apply junk) v).abs = (ops.foldl VOp.spec []).map some :=
  (h.history ht junk ops hv).abs_eq

/-- emptied by any history, **all value types** (offset-table locator): as `emptied_offset_table_partial`, for every history
    whose erases relocate no element onto its own live objects (the complement is the known finding of C06) -/
theorem emptied_offset_table_all_types (ps : List Param) (fs : List Nat) (cap bytes : Nat) (junk : Nat → Nat)
    (hl : ListOK ps) (hnf : isFixedOrPlain ps = false)
    (ops : List VOp) (hv : ValidNoOverlap ps [] ops) (hempty : ops.foldl VOp.spec [] = []) :
    EmptyObs (ops.foldl (VOp.apply junk) (Vec.new ps fs cap bytes junk)) := by
  have h := (VarInv.new ps fs cap bytes junk hl hnf).history_all junk ops hv
  rw [hempty] at h
  exact empty_offset_table h

/-- observations never depend on the junk in fresh bookkeeping memory, all value types -/
theorem junk_independent_all_types (ps : List Param) (fs : List Nat) (cap bytes : Nat) (junk1 junk2 : Nat → Nat)
    (hl : ListOK ps) (hnf : isFixedOrPlain ps = false) (ops : List VOp) (hv : ValidNoOverlap ps [] ops) :
    C01.obs (ops.foldl (VOp.apply junk1) (Vec.new ps fs cap bytes junk1)) =
    C01.obs (ops.foldl (VOp.apply junk2) (Vec.new ps fs cap bytes junk2)) := by
  rw [(C01.history_offset_table_no_overlap ps fs cap bytes junk1 hl hnf ops hv).1,
      (C01.history_offset_table_no_overlap ps fs cap bytes junk2 hl hnf ops hv).1]

/-- after reserve / emplace_back an empty vector — however it became empty — behaves like any other, all value types -/
theorem usable_afterwards_all_types {v : Vec} (h : VarInv v []) (junk : Nat → Nat)
    (ops : List VOp) (hv : ValidNoOverlap v.ps [] ops) :
    (ops.foldl (VOp.apply junk) v).abs = (ops.foldl VOp.spec []).map some :=
  (h.history_all junk ops hv).abs_eq

theorem usable_afterwards_stride {v : Vec} (h : FixInv v []) (junk : Nat → Nat)
    (ops : List VOp) (hv : ValidFix v.ps v.loc.stride [] ops) :
    (ops.foldl (VOp.apply junk) v).abs = (ops.foldl VOp.spec []).map some :=
  (h.history_all junk ops hv).abs_eq

/-- copying, swapping and destroying an empty or default-constructed vector is defined on the multi-vector level: a
    default-constructed vector owns nothing, so destroying it frees nothing and reports no ledger error -/
theorem destroy_default (w : World) (k : Nat) (ps : List Param) :
    ((w.newDefault k ps).destroy k).heap.live = w.heap.live ∧ ((w.newDefault k ps).destroy k).heap.errs = w.heap.errs := by
  simp [World.newDefault, World.destroy, World.set, Vec.default, Vec.ptr, Ptr.dealloc]

end Cntgs.C18
