/-
C01 — a vector behaves like a plain sequence of tuples under any operation history.

`VOp.apply` is the model of the code's operations on the bookkeeping (offset table / end marker, or count / stride)
and on the block; `VOp.spec` is the same operation on an ordinary `List` of tuples.  `Vec.abs` is what `operator[]`,
`front()/back()`, iteration and `get<I>` read: through the locator, out of the block.

Proven for every history (any length, any interleaving) and every parameter list.  Lists without VaryingSize (stride
locator): all value types.  Lists with VaryingSize (offset-table locator): value types that take the `memmove`
relocation path, and all value types on histories whose erases end at the end of the vector; the element-wise relocation
of erase on this locator is modelled and executed in the correspondence check but not covered by a theorem — hence
`_partial` — because it genuinely fails for overlapping moves (known finding KF-C06-overlapping-elementwise-relocation).
-/
import Cntgs.FixProofs
import Cntgs.VarRelocProofs
import Cntgs.Dec
namespace Cntgs.C01

/-- the observable state of a vector: size(), empty(), capacity(), and every element read through the locator -/
structure Obs where
  size : Nat
  empty : Bool
  capacity : Nat
  elems : List (Option Elem)
  deriving DecidableEq

def obs (v : Vec) : Obs := ⟨v.size, v.size == 0, v.cap, v.abs⟩

/-- the same observations on an ordinary sequence of tuples with a capacity counter -/
def specObs (es : List Elem) (cap : Nat) : Obs := ⟨es.length, es.isEmpty, cap, es.map some⟩

/-- capacity under the operations: only `reserve` beyond the capacity changes it -/
def capSpec (cap : Nat) : VOp → Nat
  | .reserve n _ => max cap n
  | _ => cap

theorem apply_cap (junk : Nat → Nat) (v : Vec) (op : VOp) : (op.apply junk v).cap = capSpec v.cap op := by
  cases op with
  | emplace e => simp only [VOp.apply, Vec.emplaceBack, capSpec]; split <;> rfl
  | pop => rfl
  | erase i =>
    simp only [VOp.apply, Vec.erase, capSpec, Vec.moveForward]
    split
    · simp only [Vec.moveForwardTrivial]; repeat' (first | rfl | split)
    · simp only [Vec.moveForwardElementwise]
      generalize List.range _ = l
      suffices h : ∀ (w : Vec), (l.foldl (fun (w : Vec) k => w.relocateOne (i + k) (i + 1 + k)) w).cap = w.cap from h _
      induction l with
      | nil => intro w; rfl
      | cons k ks ih => intro w; simp only [List.foldl_cons]; rw [ih]; simp only [Vec.relocateOne]; split <;> rfl
  | eraseRange i j =>
    simp only [VOp.apply, Vec.eraseRange, capSpec]
    split
    · simp only [Vec.moveForward]
      split
      · simp only [Vec.moveForwardTrivial]; repeat' (first | rfl | split)
      · simp only [Vec.moveForwardElementwise]
        generalize List.range _ = l
        suffices h : ∀ (w : Vec), (l.foldl (fun (w : Vec) k => w.relocateOne (i + k) (j + k)) w).cap = w.cap from h _
        induction l with
        | nil => intro w; rfl
        | cons k ks ih => intro w; simp only [List.foldl_cons]; rw [ih]; simp only [Vec.relocateOne]; split <;> rfl
    · rfl
  | clear => rfl
  | reserve n b =>
    simp only [VOp.apply, Vec.reserve, capSpec]
    split
    · rename_i h; simp only; omega
    · rename_i h; omega

theorem history_cap (junk : Nat → Nat) (ops : List VOp) (v : Vec) :
    (ops.foldl (VOp.apply junk) v).cap = ops.foldl capSpec v.cap := by
  induction ops generalizing v with
  | nil => rfl
  | cons op ops ih => simp only [List.foldl_cons]; rw [ih, apply_cap]

theorem obs_of_var {v : Vec} {es : List Elem} (h : VarInv v es) : obs v = specObs es v.cap := by
  have hs : v.size = es.length := by simp [Vec.size, h.notFixed, h.size_eq]
  simp only [obs, specObs, hs, h.abs_eq, Obs.mk.injEq, true_and, and_true]
  cases es <;> simp

theorem obs_of_fix {v : Vec} {es : List Elem} (h : FixInv v es) : obs v = specObs es v.cap := by
  have hs : v.size = es.length := by simp [Vec.size, h.isFixed, h.count_eq]
  simp only [obs, specObs, hs, h.abs_eq, Obs.mk.injEq, true_and, and_true]
  cases es <;> simp

/-- **Lists with a VaryingSize parameter** (offset-table locator): after construction and any valid history the
    observations equal those of the plain sequence subjected to the same operations; no live element was overwritten. -/
theorem history_offset_table_partial (ps : List Param) (fs : List Nat) (cap bytes : Nat) (junk : Nat → Nat)
    (hl : ListOK ps) (hnf : isFixedOrPlain ps = false) (ht : (Vec.new ps fs cap bytes junk).trivialReloc = true)
    (ops : List VOp) (hv : Valid ps [] ops) :
    obs (ops.foldl (VOp.apply junk) (Vec.new ps fs cap bytes junk)) = specObs (ops.foldl VOp.spec []) (ops.foldl capSpec cap) ∧
    (ops.foldl (VOp.apply junk) (Vec.new ps fs cap bytes junk)).poison = false := by
  have h := (VarInv.new ps fs cap bytes junk hl hnf).history ht junk ops hv
  rw [obs_of_var h, history_cap]
  exact ⟨rfl, h.clean⟩

/-- **Lists with a VaryingSize parameter, all value types**: the same statement for every history in which no erase
    relocates an element over its own storage (`VOp.NoOverlap`: no element behind the erased range is larger than the
    storage-aligned bytes erased).  The excluded histories are exactly those of the known finding. -/
theorem history_offset_table_no_overlap (ps : List Param) (fs : List Nat) (cap bytes : Nat) (junk : Nat → Nat)
    (hl : ListOK ps) (hnf : isFixedOrPlain ps = false) (ops : List VOp) (hv : ValidNoOverlap ps [] ops) :
    obs (ops.foldl (VOp.apply junk) (Vec.new ps fs cap bytes junk)) = specObs (ops.foldl VOp.spec []) (ops.foldl capSpec cap) ∧
    (ops.foldl (VOp.apply junk) (Vec.new ps fs cap bytes junk)).poison = false := by
  have h := (VarInv.new ps fs cap bytes junk hl hnf).history_all junk ops hv
  rw [obs_of_var h, history_cap]
  exact ⟨rfl, h.clean⟩

/-- preconditions for a list without VaryingSize: the FixedSize fields of a new element have the vector's fixed sizes -/
def PreFixed (ps : List Param) (fs : List Nat) (es : List Elem) (op : VOp) : Prop :=
  op.Pre ps es ∧ (match op with | .emplace e => elemCounts e = fixedCounts ps fs | _ => True)

def ValidFixed (ps : List Param) (fs : List Nat) : List Elem → List VOp → Prop
  | _, [] => True
  | es, op :: ops => PreFixed ps fs es op ∧ ValidFixed ps fs (op.spec es) ops

theorem validFix_of_counts (ps : List Param) (fs : List Nat) (hl : ListOK ps) (hf : isFixedOrPlain ps = true)
    (hlf : ps.length ≤ fs.length) (ops : List VOp) : ∀ es, ValidFixed ps fs es ops → ValidFix ps (elemSize ps fs).stride es ops := by
  induction ops with
  | nil => intro es _; trivial
  | cons op ops ih =>
    intro es hv
    refine ⟨⟨hv.1.1, ?_⟩, ih _ hv.2⟩
    cases op with
    | emplace e => exact fixed_fit ps fs hl hf hlf e hv.1.2
    | _ => trivial

/-- **Lists without a VaryingSize parameter** (stride locator): the same statement, for **all** value types — both the
    `memmove` path and the element-wise relocation path of erase are covered (`FixInv.history_all`). -/
theorem history_stride (ps : List Param) (fs : List Nat) (cap bytes : Nat) (junk : Nat → Nat)
    (hl : ListOK ps) (hf : isFixedOrPlain ps = true) (hlf : ps.length ≤ fs.length)
    (ops : List VOp) (hv : ValidFixed ps fs [] ops) :
    obs (ops.foldl (VOp.apply junk) (Vec.new ps fs cap bytes junk)) = specObs (ops.foldl VOp.spec []) (ops.foldl capSpec cap) ∧
    (ops.foldl (VOp.apply junk) (Vec.new ps fs cap bytes junk)).poison = false := by
  have h := (FixInv.new ps fs cap bytes junk hl hf hlf).history_all junk ops (validFix_of_counts ps fs hl hf hlf ops [] hv)
  rw [obs_of_fix h, history_cap]
  exact ⟨rfl, h.clean⟩

/-- `erase` returns the iterator to the element that followed the erased ones: position `i` of the result holds
    what was at position `j` -/
theorem erase_returns_follower (es : List Elem) (i j : Nat) (hij : i ≤ j) (hj : j ≤ es.length) :
    (VOp.spec es (.eraseRange i j))[i]? = es[j]? ∧ (VOp.spec es (.erase i))[i]? = es[i + 1]? := by
  have h1 : (es.take i).length = i := by simp; omega
  constructor
  · simp only [VOp.spec]
    rw [List.getElem?_append_right (by omega), h1, Nat.sub_self, List.getElem?_drop]; simp
  · simp only [VOp.spec]
    rw [List.getElem?_append_right (by omega), h1, Nat.sub_self, List.getElem?_drop]

/-! non-vacuity: a concrete list (`uint32`, VaryingSize<AlignAs<float,16>>, `uint8`) and a history that erases in front
    of a differently sized element and emplaces afterwards meet the hypotheses -/
def exPs : List Param := [⟨.plain, 4, 4, {}⟩, ⟨.varying, 4, 16, {}⟩, ⟨.plain, 1, 1, {}⟩]
def exOps : List VOp := [.emplace [[1], [7], [3]], .emplace [[3], [7, 8, 9], [4]], .emplace [[2], [5, 6], [1]], .erase 0,
  .emplace [[0], [], [9]], .reserve 9 100, .pop, .eraseRange 0 1, .clear]

example : Valid exPs [] exOps := by
  simp only [exOps, Valid, VOp.Pre, VOp.spec, EOK, esz, elemCounts]
  decide +kernel

/-- the remaining hypotheses of `history_offset_table_partial` for that list: well-formed, has a VaryingSize parameter,
    takes the memmove path -/
example : ListOK exPs ∧ isFixedOrPlain exPs = false ∧ (Vec.new exPs [0, 0, 0] 4 100 (fun _ => 0)).trivialReloc = true := by
  refine ⟨⟨?_, by decide⟩, by decide, by decide⟩
  intro p hp
  simp only [exPs, List.mem_cons, List.mem_nil_iff, or_false] at hp
  rcases hp with rfl | rfl | rfl
  · exact ⟨⟨2, rfl⟩, by decide⟩
  · exact ⟨⟨4, rfl⟩, by decide⟩
  · exact ⟨⟨0, rfl⟩, by decide⟩

/-- … and a list without VaryingSize with a history that erases in the middle (`FixedSize<AlignAs<u16,8>>`, `u8`; fixed
    size 3) meets the hypotheses of `history_stride` -/
def exFixPs : List Param := [⟨.fixed, 2, 8, {}⟩, ⟨.plain, 1, 1, {}⟩]
def exFixOps : List VOp := [.emplace [[1, 2, 3], [7]], .emplace [[4, 5, 6], [8]], .emplace [[7, 8, 9], [9]], .erase 0, .reserve 5 0,
  .emplace [[0, 0, 0], [1]], .eraseRange 1 2, .pop, .clear]

example : ValidFixed exFixPs [3, 0] [] exFixOps ∧ isFixedOrPlain exFixPs = true := by
  constructor
  · simp only [exFixOps, ValidFixed, PreFixed, VOp.Pre, VOp.spec, EOK, esz, elemCounts]
    decide +kernel
  · decide

end Cntgs.C01
