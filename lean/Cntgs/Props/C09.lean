/-
C09 — copy, move and swap have value semantics (multi-vector model `World`: vectors identified by a name `k`, each with
its own bookkeeping, block contents and owning pointer, over one allocator ledger).
-/
import Cntgs.World
import Cntgs.Props.C01
import Cntgs.FixProofs
import Cntgs.WorldProofs
import Cntgs.Dec
namespace Cntgs.C09

/-- what a vector shows through its public interface besides capacity: size, fixed sizes, every element -/
def contents (v : Vec) : Nat × List Nat × List (Option Elem) := (v.size, v.fs, v.abs)

/-- a vector that received the bookkeeping through a relocating locator constructor (fresh table: junk behind `size()`),
    with the same block contents, shows the same contents -/
theorem contents_relocated (v w : Vec) (junk : Nat → Nat) (hps : w.ps = v.ps) (hfs : w.fs = v.fs) (hmem : w.mem = v.mem)
    (hloc : w.loc = v.loc.relocated junk) : contents w = contents v := by
  have hsize : w.size = v.size := by unfold Vec.size Vec.fixedLoc; rw [hps, hloc]; rfl
  unfold contents
  rw [hsize, hfs]
  congr 2
  unfold Vec.abs
  rw [hsize]
  apply List.map_congr_left
  intro i hi
  have hi' : i < v.size := by simpa using hi
  unfold Vec.get Vec.addr Vec.fixedLoc
  rw [hps, hmem, hloc]
  cases hf : isFixedOrPlain v.ps with
  | true => rfl
  | false =>
    simp only [Vec.size, Vec.fixedLoc, hf, Bool.false_eq_true, if_false] at hi'
    simp only [Bool.false_eq_true, if_false, Loc.relocated, hi', if_true]

theorem movedFrom_size (v : Vec) : v.movedFrom.size = 0 := by
  unfold Vec.size
  split <;> rfl

/-- **copy construction**: on success the new vector has the same size, fixed sizes, capacity and field values as the
    source, and the source (and every other vector) is unchanged -/
theorem copy_construction (w : World) (s d : Nat) (vs : Vec) (hs : w.vecs s = some vs) (hsd : s ≠ d)
    (hok : (w.copy s d).threw = false) :
    (∃ vd, (w.copy s d).vecs d = some vd ∧ contents vd = contents vs ∧ vd.cap = vs.cap) ∧
    (∀ k, k ≠ d → (w.copy s d).vecs k = w.vecs k) := by
  unfold World.copy at hok ⊢
  simp only [hs] at hok ⊢
  cases hp : allocPair w.heap w.acfg vs.fixedLoc vs.units vs.S (socc vs.alloc) vs.cap with
  | mk h1 r =>
    rw [hp] at hok
    cases r with
    | none => simp at hok
    | some pt =>
      obtain ⟨p, t⟩ := pt
      simp only [World.set]
      refine ⟨⟨{ (vs.setPtr p) with tbl := t, loc := vs.loc.relocated w.junk }, by simp, ?_, rfl⟩, fun k hk => if_neg hk⟩
      exact contents_relocated vs { (vs.setPtr p) with tbl := t, loc := vs.loc.relocated w.junk } w.junk rfl rfl rfl rfl

/-- a failed copy construction creates nothing and changes no vector -/
theorem copy_construction_failed (w : World) (s d : Nat) (hf : (w.copy s d).threw = true) :
    (w.copy s d).vecs = w.vecs := by
  unfold World.copy at hf ⊢
  cases hs : w.vecs s with
  | none => rfl
  | some vs =>
    simp only [hs] at hf ⊢
    cases hp : allocPair w.heap w.acfg vs.fixedLoc vs.units vs.S (socc vs.alloc) vs.cap with
    | mk h1 r =>
      cases r with
      | none => rfl
      | some pt => rw [hp] at hf; simp at hf

/-- **independence**: an in-place operation on one vector changes no other vector (each has its own bookkeeping and
    block contents) -/
theorem independent (w : World) (k j : Nat) (f : Vec → Vec) (hkj : j ≠ k) : (w.upd k f).vecs j = w.vecs j := by
  unfold World.upd
  split
  · rfl
  · simp [World.set, hkj]

/-- **move construction**: the target is exactly the source's former state (same block, same bookkeeping); the source
    is empty, owns nothing -/
theorem move_construction (w : World) (s d : Nat) (vs : Vec) (hs : w.vecs s = some vs) (hsd : s ≠ d) :
    (w.move s d).vecs d = some vs ∧
    (∃ v', (w.move s d).vecs s = some v' ∧ v'.size = 0 ∧ v'.abs = [] ∧ v'.blk = none ∧ v'.tbl = none ∧ v'.mem = []) := by
  unfold World.move
  simp only [hs, World.set]
  have : d ≠ s := fun h => hsd h.symm
  have h0 : vs.movedFrom.size = 0 := movedFrom_size vs
  refine ⟨by simp [this], vs.movedFrom, by simp, h0, ?_, rfl, rfl, rfl⟩
  simp [Vec.abs, h0]

/-- **swap** exchanges the complete contents (bookkeeping and block contents change places) -/
theorem swap_exchanges (w : World) (a b : Nat) (va vb : Vec) (ha : w.vecs a = some va) (hb : w.vecs b = some vb) (hab : a ≠ b) :
    (∃ va', (w.swap a b).vecs a = some va' ∧ contents va' = contents vb ∧ va'.cap = vb.cap) ∧
    (∃ vb', (w.swap a b).vecs b = some vb' ∧ contents vb' = contents va ∧ vb'.cap = va.cap) := by
  unfold World.swap
  simp only [hab, if_false, ha, hb, World.set]
  have hba : b ≠ a := fun h => hab h.symm
  constructor
  · exact ⟨vb.setPtr (Ptr.swap w.acfg va.ptr vb.ptr).1, by simp [hab], rfl, rfl⟩
  · exact ⟨va.setPtr (Ptr.swap w.acfg va.ptr vb.ptr).2, by simp, rfl, rfl⟩

/-- self-assignment and self-swap change nothing -/
theorem self_operations (w : World) (k : Nat) :
    (w.copyAssign k k).vecs = w.vecs ∧ (w.moveAssign k k).vecs = w.vecs ∧ (w.swap k k).vecs = w.vecs ∧
    (w.copyAssign k k).heap = w.heap ∧ (w.moveAssign k k).heap = w.heap ∧ (w.swap k k).heap = w.heap := by
  simp [World.copyAssign, World.moveAssign, World.swap]

/-- **copy assignment**: on success the target shows the source's contents and capacity; the source is unchanged -/
theorem copy_assignment (w : World) (s d : Nat) (vs vd : Vec) (hs : w.vecs s = some vs) (hd : w.vecs d = some vd) (hsd : s ≠ d)
    (hps : vd.ps = vs.ps) (hok : (w.copyAssign s d).threw = false) :
    (∃ vd', (w.copyAssign s d).vecs d = some vd' ∧ contents vd' = contents vs ∧ vd'.cap = vs.cap) ∧
    (w.copyAssign s d).vecs s = some vs := by
  unfold World.copyAssign at hok ⊢
  simp only [hsd, if_false, hs, hd] at hok ⊢
  cases hc : vd.clear.ptr.copyAssign w.heap w.acfg vd.S vs.ptr with
  | mk h1 r =>
    obtain ⟨p1, okc⟩ := r
    rw [hc] at hok
    cases okc with
    | false => simp at hok
    | true =>
      simp only at hok ⊢
      cases ht : allocTable h1 vd.fixedLoc p1.alloc vs.cap with
      | mk h2 t =>
        rw [ht] at hok
        cases t with
        | none => simp at hok
        | some t =>
          simp only [World.set]
          refine ⟨⟨{ (vd.clear.setPtr p1) with tbl := t, cap := vs.cap, fs := vs.fs, mem := vs.mem, loc := vs.loc.relocated w.junk },
            by simp, ?_, rfl⟩, ?_⟩
          · exact contents_relocated vs _ w.junk hps rfl rfl rfl
          · rw [if_neg hsd]; exact hs

/-- **move assignment**, stealing branch (allocators equal or propagating): the target is the source's former state
    except for the owning pointer's allocator; the source is empty -/
theorem move_assignment_steal (w : World) (s d : Nat) (vs vd : Vec) (hs : w.vecs s = some vs) (hd : w.vecs d = some vd) (hsd : s ≠ d)
    (hsteal : (w.acfg.ae || w.acfg.pocma || w.acfg.eq vd.alloc vs.alloc) = true) :
    (∃ vd', (w.moveAssign s d).vecs d = some vd' ∧ contents vd' = contents vs ∧ vd'.cap = vs.cap ∧ vd'.mem = vs.mem) ∧
    (∃ vs', (w.moveAssign s d).vecs s = some vs' ∧ vs'.size = 0 ∧ vs'.mem = []) := by
  unfold World.moveAssign
  simp only [hsd, if_false, hs, hd, hsteal, if_true, World.set]
  have hds : d ≠ s := fun h => hsd h.symm
  constructor
  · exact ⟨{ (vs.setPtr (vd.ptr.moveAssign w.heap w.acfg vd.S vs.ptr).2.1) with poison := vd.poison || vs.poison },
      by simp [hds], rfl, rfl, rfl⟩
  · exact ⟨vs.movedFrom, by simp, movedFrom_size vs, rfl⟩

/-- **move assignment**, element-wise branch (unequal non-propagating allocators): the target shows the source's
    former contents -/
theorem move_assignment_elementwise (w : World) (s d : Nat) (vs vd : Vec) (hs : w.vecs s = some vs) (hd : w.vecs d = some vd)
    (hsd : s ≠ d) (hps : vd.ps = vs.ps) (hsteal : (w.acfg.ae || w.acfg.pocma || w.acfg.eq vd.alloc vs.alloc) = false)
    (hok : (w.moveAssign s d).threw = false) :
    ∃ vd', (w.moveAssign s d).vecs d = some vd' ∧ contents vd' = contents vs ∧ vd'.cap = vs.cap := by
  unfold World.moveAssign at hok ⊢
  simp only [hsd, if_false, hs, hd, hsteal, Bool.false_eq_true] at hok ⊢
  have hds : d ≠ s := fun h => hsd h.symm
  by_cases hb : vs.bytes > vd.bytes
  · simp only [hb, if_true] at hok ⊢
    cases hp : allocPair w.heap w.acfg vd.fixedLoc vs.bytes vd.S vd.alloc vs.cap with
    | mk h2 r =>
      rw [hp] at hok
      cases r with
      | none => simp at hok
      | some pt =>
        obtain ⟨np, t⟩ := pt
        simp only [World.set]
        refine ⟨{ (vd.setPtr (vd.ptr.moveAssign h2 w.acfg vd.S np).2.1) with tbl := t, cap := vs.cap, fs := vs.fs, mem := vs.mem, loc := vs.loc.relocated w.junk }, by simp [hds], ?_, rfl⟩
        exact contents_relocated vs _ w.junk hps rfl rfl rfl
  · simp only [hb, if_false] at hok ⊢
    cases hp : allocTable w.heap vd.fixedLoc vd.alloc vs.cap with
    | mk h2 r =>
      rw [hp] at hok
      cases r with
      | none => simp at hok
      | some t =>
        simp only [World.set]
        refine ⟨{ vd with tbl := t, cap := vs.cap, fs := vs.fs, mem := vs.mem, loc := vs.loc.relocated w.junk }, by simp [hds], ?_, rfl⟩
        exact contents_relocated vs _ w.junk hps rfl rfl rfl

/-- a moved-from vector can be destroyed (frees nothing, no ledger error), cleared, and assigned to -/
theorem moved_from_usable (v : Vec) : v.movedFrom.clear.size = 0 ∧ v.movedFrom.ptr.blk = none := by
  constructor
  · simp only [Vec.clear, Vec.movedFrom, Vec.size, Vec.fixedLoc, Loc.resize]; split <;> simp_all
  · rfl

/-- **a moved-from vector is an empty vector** (no block, no capacity, the locator refers to no memory — after the repair
    `4a55bf7`): it represents the empty sequence exactly as a vector that never held an element does, so it can be the
    source and the target of every operation, be reserved and filled, and every history theorem covers it -/
theorem moved_from_is_an_empty_vector (ps : List Param) (hl : ListOK ps) (v : Vec) (a : AVec) (h : VInv ps v a) :
    VInv ps v.movedFrom (.live []) ∧ v.movedFrom.cap = 0 ∧ v.movedFrom.ptr.blk = none :=
  ⟨moved_is_empty ps hl _ (movedFrom_inv ps v a h), rfl, rfl⟩

/-- in the abstract map of `history_any_number_of_vectors` a moved-from name may be read as the empty sequence: the
    preconditions "the source is live" of copy construction and of both assignments are then met by moved-from sources -/
theorem moved_from_sources (ps : List Param) (hl : ListOK ps) (w : World) (A : Nat → Option AVec) (h : WInv ps w A) (k : Nat)
    (hk : A k = some .moved) : WInv ps w (aset A k (some (.live []))) :=
  h.moved_as_empty hl k hk

/-- a vector that received the bookkeeping through a relocating locator constructor represents the same element sequence
    in the same canonical layout: every history theorem (C01, C06, C10, C16, C18) applies to a copy as to its source -/
theorem relocated_offset_table {v w : Vec} {es : List Elem} (h : VarInv v es) (junk : Nat → Nat) (hps : w.ps = v.ps)
    (hmem : w.mem = v.mem) (hloc : w.loc = v.loc.relocated junk) (hpo : w.poison = false) : VarInv w es := by
  have hf : w.fixedLoc = false := by unfold Vec.fixedLoc; rw [hps]; exact h.notFixed
  refine ⟨hps ▸ h.lok, hf, hps ▸ h.eok, ?_, ?_, ?_, ?_, hpo⟩
  · rw [hloc]; exact h.size_eq
  · intro k hk
    rw [hloc, hps]
    simp only [Loc.relocated, h.size_eq, hk, if_true]
    exact h.slots_eq k hk
  · rw [hmem, hps]; exact h.mem_eq
  · rw [hloc, hps]; exact h.last_eq

theorem relocated_stride {v w : Vec} {es : List Elem} (h : FixInv v es) (junk : Nat → Nat) (hps : w.ps = v.ps)
    (hmem : w.mem = v.mem) (hloc : w.loc = v.loc.relocated junk) (hpo : w.poison = false) : FixInv w es := by
  have hf : w.fixedLoc = true := by unfold Vec.fixedLoc; rw [hps]; exact h.isFixed
  refine ⟨hps ▸ h.lok, hf, hps ▸ h.eok, ?_, ?_, ?_, ?_, hpo⟩
  · rw [hloc]; exact h.count_eq
  · rw [hloc, hps]; exact h.stride_dvd
  · rw [hloc, hps]; exact h.fits
  · rw [hmem, hloc, hps]; exact h.mem_eq

/-- **copy construction yields a vector in canonical layout** (offset-table locator) -/
theorem copy_is_canonical (w : World) (s d : Nat) (vs : Vec) (es : List Elem) (hs : w.vecs s = some vs) (hinv : VarInv vs es)
    (hok : (w.copy s d).threw = false) : ∃ vd, (w.copy s d).vecs d = some vd ∧ VarInv vd es := by
  unfold World.copy at hok ⊢
  simp only [hs] at hok ⊢
  cases hp : allocPair w.heap w.acfg vs.fixedLoc vs.units vs.S (socc vs.alloc) vs.cap with
  | mk h1 r =>
    rw [hp] at hok
    cases r with
    | none => simp at hok
    | some pt =>
      obtain ⟨p, t⟩ := pt
      simp only [World.set]
      exact ⟨{ (vs.setPtr p) with tbl := t, loc := vs.loc.relocated w.junk }, by simp,
        relocated_offset_table hinv w.junk rfl rfl rfl hinv.clean⟩

/-- **refinement of the whole multi-vector interface**: after any history of constructions, in-place operations,
    copy/move constructions, copy/move assignments, swaps and destructions over any number of vectors (preconditions
    respected, no allocation failure: those are C17), every vector represents exactly the plain sequence that the same
    history produces on a map from names to plain sequences.  Copy, move and swap having value semantics is this theorem
    read at `.copy`, `.move`, `.copyAssign`, `.moveAssign`, `.swap`. -/
theorem history_any_number_of_vectors (ps : List Param) (hl : ListOK ps) (ops : List WOp) (w : World) (A : Nat → Option AVec)
    (h : WInv ps w A) (hv : WValid ps w A ops) :
    WInv ps (ops.foldl (fun w op => op.apply ps w) w) (arun ps w A ops) :=
  history_refines ps hl ops w A h hv

/-- … and what that means for the observations -/
theorem observations (ps : List Param) (w : World) (A : Nat → Option AVec) (h : WInv ps w A) (k : Nat) (v : Vec)
    (hv : w.vecs k = some v) :
    (∀ es, A k = some (.live es) → v.abs = es.map some ∧ v.size = es.length ∧ v.poison = false) ∧
    (A k = some .moved → v.size = 0 ∧ v.abs = [] ∧ v.poison = false) :=
  h.observe k v hv

/-- non-vacuity: construct `v0`, fill it, copy it to `v1`, change the copy, swap both, move `v1` to `v2`
    (`uint32`, VaryingSize<AlignAs<float,16>>, `uint8`): all preconditions hold and no allocation fails -/
def exOps : List WOp := [.new 0 [0, 0, 0] 3 64 1, .vop 0 (.emplace [[1], [7], [3]]), .vop 0 (.emplace [[2], [5, 6], [1]]), .copy 0 1,
  .vop 1 .pop, .swap 0 1, .move 1 2, .destroy 0]

example : (exOps.foldl (fun w op => op.apply C01.exPs w) ({} : World)).threw = false ∧
    (arun C01.exPs ({} : World) (fun _ => none) exOps 2) matches some (.live [[[1], [7], [3]], [[2], [5, 6], [1]]]) := by
  constructor
  · decide +kernel
  · decide +kernel

end Cntgs.C09
