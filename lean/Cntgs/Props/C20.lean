/-
C20 — every documented operation is available for every kind of parameter list (PARTIAL in Lean).

Lean carries the logic of the property: the categories partition all lists, every category has its public
constructors (also the allocator-extended ones) and each delegates to the one private constructor with the
right number of arguments, and the availability table is total. That a *required* cell is well-formed C++
is decided by compiling it: the finite matrix is enumerated completely by the check (`tools/matrix.py`).
-/
import Cntgs.Matrix
namespace Cntgs.C20

/-- every parameter list falls into exactly one category -/
theorem category_partition (ps : List Param) :
    (isMixed ps = true ∧ isAllFixed ps = false ∧ isAllVarying ps = false ∧ isAllPlain ps = false) ∨
    (isMixed ps = false ∧ isAllFixed ps = true ∧ isAllVarying ps = false ∧ isAllPlain ps = false) ∨
    (isMixed ps = false ∧ isAllFixed ps = false ∧ isAllVarying ps = true ∧ isAllPlain ps = false) ∨
    (isMixed ps = false ∧ isAllFixed ps = false ∧ isAllVarying ps = false ∧ isAllPlain ps = true) := by
  unfold isMixed isAllFixed isAllVarying isAllPlain
  have hle : fixedCount ps ≤ contiguousCount ps := by
    unfold fixedCount contiguousCount
    induction ps with
    | nil => simp
    | cons p ps ih =>
      simp only [List.filter_cons, ne_eq, decide_not] at ih ⊢
      cases hk : p.kind <;> simp <;> omega
  by_cases h1 : fixedCount ps = 0 <;> by_cases h2 : contiguousCount ps = 0 <;>
    by_cases h3 : fixedCount ps = contiguousCount ps <;> simp [h1, h2, h3] <;> omega

/-- every category has a constructor without and with allocator, and every public constructor passes
    exactly the arguments the private constructor takes (the all-plain allocator overload used to pass four) -/
theorem ctor_dispatch :
    (∀ c : Cat, ∃ k ∈ publicCtors, k.cat = c ∧ k.alloc = true) ∧
    (∀ k ∈ publicCtors, k.delegateArity = privateCtorArity) ∧
    (∀ k ∈ publicCtors, k.bytes = (k.cat == .mixed || k.cat == .varying) ∧ k.fixed = (k.cat == .mixed || k.cat == .fixed)) := by
  refine ⟨?_, by decide, by decide⟩
  intro c; cases c <;> decide

/-- the availability table is total over the matrix and only exempts copies of move-only values and
    `get_fixed_size` for lists without FixedSize -/
theorem availability (o : Op) (c : Cat) (v : ValCat) :
    required o c v = false → (o.needsCopy = true ∧ v = .moveOnly) ∨ (o = .getFixedSize ∧ (c = .plain ∨ c = .varying)) := by
  intro h
  unfold required at h
  cases o <;> cases c <;> cases v <;> simp_all [Op.appliesTo, Op.needsCopy]

example : requiredCells.length = 600 := by decide +kernel

end Cntgs.C20
