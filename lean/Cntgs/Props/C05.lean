/-
C05 — tight packing: padding only where alignment demands it; predictable footprint.
-/
import Cntgs.LayoutProofs
namespace Cntgs.C05

/-- Each field starts at the lowest suitably aligned address after the previous field: the code's
    placement *is* the greedy placement (`alignUp` is the least multiple ≥ its argument, lemma
    `alignUp_le_of_dvd`). -/
theorem fields_greedy (ps : List Param) (counts : List Nat) (start : Nat)
    (hwf : ∀ p ∈ ps, WfParam p) (hne : ps ≠ []) (hc : CountsOK ps counts) (hs : storageAl ps ∣ start) :
    place ps counts start = greedyGo ps counts start :=
  place_eq_greedy ps counts start hwf hne hc hs

/-- `alignUp p a` is the lowest multiple of `a` that is not below `p` -/
theorem alignUp_is_lowest (p a q : Nat) (ha : 0 < a) (hq : a ∣ q) (hpq : p ≤ q) :
    a ∣ alignUp p a ∧ p ≤ alignUp p a ∧ alignUp p a ≤ q :=
  ⟨alignUp_dvd p a, alignUp_ge p a ha, alignUp_le_of_dvd ha hq hpq⟩

/-- Each element starts at the lowest address aligned to the largest parameter alignment after the
    previous element. -/
theorem elements_greedy (ps : List Param) (counts : List Nat) (start : Nat)
    (hwf : ∀ p ∈ ps, WfParam p) (hne : ps ≠ []) (hc : CountsOK ps counts) (hs : storageAl ps ∣ start) :
    alignFirst ps (placeEnd ps counts start) = alignUp (placeEnd ps counts start) (storageAl ps) := by
  rw [placeEnd_eq_goEnd ps counts start hwf hne hc hs]
  exact alignFirst_end ps counts start hwf hne hc hs

/-- Allocation is rounded up to whole storage units and wastes less than one unit. -/
theorem units_tight (bytes S : Nat) (hS : 0 < S) :
    bytes ≤ units bytes S * S ∧ units bytes S * S < bytes + S := by
  unfold units
  have h := Nat.div_add_mod bytes S
  have hm := Nat.mod_lt bytes hS
  have hc : bytes / S * S = S * (bytes / S) := Nat.mul_comm _ _
  split
  · rename_i h0; constructor <;> simp only [Nat.add_zero] <;> omega
  · rename_i h0
    rw [Nat.add_mul]
    constructor <;> omega

example : units 40 8 = 5 ∧ units 41 8 = 6 := by decide

end Cntgs.C05
