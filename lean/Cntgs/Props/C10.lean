/-
C10 — reserve only ever adds room and never changes contents.
-/
import Cntgs.FixProofs
import Cntgs.Props.C01
namespace Cntgs.C10

/-- `reserve(n, b)` with `n ≤ capacity()` does nothing at all (the whole state, bookkeeping included, is unchanged) -/
theorem within_capacity_is_noop (v : Vec) (n b : Nat) (junk : Nat → Nat) (h : n ≤ v.cap) : v.reserve n b junk = v :=
  reserve_noop v n b junk h

/-- capacity never shrinks, and is exactly `n` after a reserve beyond the capacity -/
theorem capacity_after (v : Vec) (n b : Nat) (junk : Nat → Nat) :
    v.cap ≤ (v.reserve n b junk).cap ∧ (v.cap < n → (v.reserve n b junk).cap = n) ∧ (v.reserve n b junk).cap = max v.cap n := by
  have := C01.apply_cap junk v (.reserve n b)
  simp only [VOp.apply, C01.capSpec] at this
  rw [this]
  refine ⟨by omega, fun h => by omega, rfl⟩

/-- fixed sizes and parameter list are untouched -/
theorem keeps_fixed_sizes (v : Vec) (n b : Nat) (junk : Nat → Nat) :
    (v.reserve n b junk).fs = v.fs ∧ (v.reserve n b junk).ps = v.ps := by
  unfold Vec.reserve; split <;> exact ⟨rfl, rfl⟩

/-- size and every stored value are unchanged, whatever the fill level (offset-table locator; the bookkeeping sized by
    the old capacity is irrelevant: only the `size()` live slots are carried over, the rest is fresh junk) -/
theorem keeps_contents_offset_table {v : Vec} {es : List Elem} (h : VarInv v es) (n b : Nat) (junk : Nat → Nat) :
    (v.reserve n b junk).abs = v.abs ∧ (v.reserve n b junk).size = v.size ∧ VarInv (v.reserve n b junk) es := by
  have h' := h.reserve n b junk
  refine ⟨by rw [h'.abs_eq, h.abs_eq], ?_, h'⟩
  have := C01.obs_of_var h'
  have := C01.obs_of_var h
  simp [Vec.size, h.notFixed, h'.notFixed, h.size_eq, h'.size_eq]

/-- the same for the stride locator -/
theorem keeps_contents_stride {v : Vec} {es : List Elem} (h : FixInv v es) (n b : Nat) (junk : Nat → Nat) :
    (v.reserve n b junk).abs = v.abs ∧ (v.reserve n b junk).size = v.size ∧ FixInv (v.reserve n b junk) es := by
  have h' := h.reserve n b junk
  refine ⟨by rw [h'.abs_eq, h.abs_eq], ?_, h'⟩
  simp [Vec.size, h.isFixed, h'.isFixed, h.count_eq, h'.count_eq]

/-- repeated reserves: any number of reserves in a row keep the contents and end with the largest capacity asked for -/
theorem repeated (v : Vec) (es : List Elem) (h : VarInv v es) (junk : Nat → Nat) (rs : List (Nat × Nat)) :
    VarInv (rs.foldl (fun w r => w.reserve r.1 r.2 junk) v) es ∧
    (rs.foldl (fun w r => w.reserve r.1 r.2 junk) v).cap = rs.foldl (fun c r => max c r.1) v.cap := by
  induction rs generalizing v with
  | nil => exact ⟨h, rfl⟩
  | cons r rs ih =>
    simp only [List.foldl_cons]
    have := ih (v.reserve r.1 r.2 junk) (h.reserve r.1 r.2 junk)
    rw [(capacity_after v r.1 r.2 junk).2.2] at this
    exact this

end Cntgs.C10
