/-
C06 — every stored object is constructed once, destroyed once, never clobbered alive.

The block model `Mem` is the set of *live* element records (offset, extent, values): `write` is construction (anything
it intersects is clobbered: `hits`), `drop` is destruction, `move` is `memmove`; `Vec.poison` is raised by every operation
that constructs on top of a live record, relocates from a dead one, or moves bytes over a live record that is not itself
moved.  The invariants `VarInv` / `FixInv` say that the live records are *exactly* the logically held elements, pairwise
disjoint, and that `poison` was never raised.

For value types on the `memmove` path this holds for every history (`_partial`: the element-wise path of erase is not
covered by a theorem); for histories that never relocate (every erase ends at the end) it holds for all value types.  On
the element-wise path it is false for the offset-table locator: `overlap_counter_witness` (known finding
KF-C06-overlapping-elementwise-relocation).
-/
import Cntgs.FixProofs
import Cntgs.VarRelocProofs
import Cntgs.Dec
import Cntgs.World
import Cntgs.Props.C01
namespace Cntgs.C06

/-- live objects = logically held objects, no two overlap, nothing was ever clobbered -/
structure Lifetimes (v : Vec) (es : List Elem) (rec : Nat → Rec) : Prop where
  live_exact : ∀ r, r ∈ v.mem ↔ ∃ k, k < es.length ∧ r = rec k
  values : ∀ k, k < es.length → (rec k).e = es.getD k []
  disjoint : ∀ k, k + 1 < es.length → (rec k).off + (rec k).sz ≤ (rec (k + 1)).off
  nonempty : ∀ k, k < es.length → 0 < (rec k).sz
  never_clobbered : v.poison = false

theorem lifetimes_offset_table {v : Vec} {es : List Elem} (h : VarInv v es) : Lifetimes v es (canonRec v.ps es) :=
  ⟨h.mem_eq, fun _ _ => rfl, (canon_ordered h.lok es h.eok).2, (canon_ordered h.lok es h.eok).1, h.clean⟩

theorem lifetimes_stride {v : Vec} {es : List Elem} (h : FixInv v es) : Lifetimes v es (fixRec v.ps v.loc.stride es) :=
  ⟨h.mem_eq, fun _ _ => rfl, (fix_ordered h).2, (fix_ordered h).1, h.clean⟩

/-- every history over `memmove`-relocatable value types (offset-table locator) -/
theorem history_offset_table_partial (ps : List Param) (fs : List Nat) (cap bytes : Nat) (junk : Nat → Nat)
    (hl : ListOK ps) (hnf : isFixedOrPlain ps = false) (ht : (Vec.new ps fs cap bytes junk).trivialReloc = true)
    (ops : List VOp) (hv : Valid ps [] ops) :
    let v := ops.foldl (VOp.apply junk) (Vec.new ps fs cap bytes junk)
    Lifetimes v (ops.foldl VOp.spec []) (canonRec v.ps (ops.foldl VOp.spec [])) :=
  lifetimes_offset_table ((VarInv.new ps fs cap bytes junk hl hnf).history ht junk ops hv)

/-- every history, **all value types**, on the stride locator (lists without VaryingSize): element-wise relocation moves
    by whole strides, so source and target never overlap and every target slot was vacated before -/
theorem history_stride (ps : List Param) (fs : List Nat) (cap bytes : Nat) (junk : Nat → Nat)
    (hl : ListOK ps) (hf : isFixedOrPlain ps = true) (hlf : ps.length ≤ fs.length)
    (ops : List VOp) (hv : C01.ValidFixed ps fs [] ops) :
    let v := ops.foldl (VOp.apply junk) (Vec.new ps fs cap bytes junk)
    Lifetimes v (ops.foldl VOp.spec []) (fixRec v.ps v.loc.stride (ops.foldl VOp.spec [])) :=
  lifetimes_stride ((FixInv.new ps fs cap bytes junk hl hf hlf).history_all junk ops
    (C01.validFix_of_counts ps fs hl hf hlf ops [] hv))

/-- **all value types** (std::string, unique_ptr, …): every history whose erases end at the end of the vector
    (emplace_back, pop_back, clear, reserve, erase of a tail) -/
theorem history_no_relocation (ps : List Param) (fs : List Nat) (cap bytes : Nat) (junk : Nat → Nat)
    (hl : ListOK ps) (hnf : isFixedOrPlain ps = false) (ops : List VOp) (hv : ValidNoReloc ps [] ops) :
    let v := ops.foldl (VOp.apply junk) (Vec.new ps fs cap bytes junk)
    Lifetimes v (ops.foldl VOp.spec []) (canonRec v.ps (ops.foldl VOp.spec [])) :=
  lifetimes_offset_table ((VarInv.new ps fs cap bytes junk hl hnf).history_noreloc junk ops hv)

/-- **all value types**, offset-table locator: every history in which no erase relocates an element over its own
    storage; `overlap_counter_witness` below shows that the condition cannot be dropped -/
theorem history_no_overlap (ps : List Param) (fs : List Nat) (cap bytes : Nat) (junk : Nat → Nat)
    (hl : ListOK ps) (hnf : isFixedOrPlain ps = false) (ops : List VOp) (hv : ValidNoOverlap ps [] ops) :
    let v := ops.foldl (VOp.apply junk) (Vec.new ps fs cap bytes junk)
    Lifetimes v (ops.foldl VOp.spec []) (canonRec v.ps (ops.foldl VOp.spec [])) :=
  lifetimes_offset_table ((VarInv.new ps fs cap bytes junk hl hnf).history_all junk ops hv)

/-- erase destroys exactly the erased elements: afterwards the live records are those of the remaining elements -/
theorem erase_destroys_exactly {v : Vec} {es : List Elem} (h : VarInv v es) (ht : v.trivialReloc = true) (i j : Nat)
    (hij : i ≤ j) (hj : j ≤ es.length) :
    Lifetimes (v.eraseRange i j) (es.take i ++ es.drop j) (canonRec (v.eraseRange i j).ps (es.take i ++ es.drop j)) :=
  lifetimes_offset_table (h.eraseRange' ht i j hij hj)

/-- The element-wise relocation path of the offset-table locator does **not** have the property: erasing a small
    element in front of a larger non-trivial one move-constructs the larger one onto storage that still holds its own
    live source objects.  (`uint32` count, `VaryingSize<std::string>`; 32-byte strings; elements with 1 and 3 strings.) -/
def stringTy : TyFlags := ⟨false, false, false, false, false, false, false, false, false⟩
def witnessPs : List Param := [⟨.plain, 4, 4, {}⟩, ⟨.varying, 32, 8, stringTy⟩]
def witnessOps : List VOp := [.emplace [[1], [5]], .emplace [[3], [6, 7, 8]], .erase 0]

theorem overlap_counter_witness :
    Valid witnessPs [] witnessOps ∧
    (witnessOps.foldl (VOp.apply (fun _ => 0)) (Vec.new witnessPs [0, 0] 2 200 (fun _ => 0))).poison = true := by
  constructor
  · simp only [witnessOps, Valid, VOp.Pre, VOp.spec, EOK, esz, elemCounts]
    decide +kernel
  · decide +kernel

/-- the witness history is excluded by the no-overlap condition, and an erase in front of an element of the same size
    (the situation the existing tests cover) meets it -/
example : ¬ ValidNoOverlap witnessPs [] witnessOps := by
  simp only [witnessOps, ValidNoOverlap, VOp.Pre, VOp.NoOverlap, VOp.spec, EOK, esz, elemCounts]
  decide +kernel

example : ValidNoOverlap witnessPs [] [.emplace [[1], [5]], .emplace [[1], [6]], .erase 0] := by
  simp only [ValidNoOverlap, VOp.Pre, VOp.NoOverlap, VOp.spec, EOK, esz, elemCounts]
  decide +kernel

/-- ownership moves with the block: a moved-from vector holds no live object, so nothing is destroyed twice -/
theorem moved_from_holds_nothing (v : Vec) : v.movedFrom.mem = [] ∧ v.movedFrom.size = 0 := by
  refine ⟨rfl, ?_⟩
  unfold Vec.size; split <;> rfl

end Cntgs.C06
