/-
C02 — no access outside the allocated block while within declared capacity.

Offsets are relative to the begin of the block; the block has `Vec.bytes = units * STORAGE_ELEMENT_ALIGNMENT` bytes.
Every access of the code goes to an element record (C04: all fields lie inside `[start, start + extent)`), so "no access
outside the block" is: every live record, and the record being constructed, ends at or before `bytes`.
-/
import Cntgs.FixProofs
import Cntgs.FitProofs
import Cntgs.Dec
import Cntgs.Props.C01
import Cntgs.Props.C05
namespace Cntgs.C02

/-- whole storage units cover the bytes asked for and are a multiple of the unit -/
theorem units_cover (bytes S : Nat) (hS : 0 < S) : bytes ≤ units bytes S * S ∧ S ∣ units bytes S * S :=
  ⟨(C05.units_tight bytes S hS).1, Nat.dvd_mul_left _ _⟩

/-- **Lists without VaryingSize**: a vector constructed for `N` elements (any payload budget `B`) has room for `N`
    strides — element `k < N` ends inside the block, and so does `data_end()` of a full vector — for every parameter
    list, every alignment combination and all fixed sizes. -/
theorem fit_stride (ps : List Param) (fs : List Nat) (N B : Nat) (junk : Nat → Nat) (hl : ListOK ps)
    (hf : isFixedOrPlain ps = true) (hlf : ps.length ≤ fs.length) :
    let v := Vec.new ps fs N B junk
    v.loc.stride * N ≤ v.bytes ∧
    (∀ (e : Elem) (k : Nat), k < N → elemCounts e = fixedCounts ps fs → v.loc.stride * k + esz ps e ≤ v.bytes) := by
  intro v
  have hnv := noVarying_of_fixedOrPlain ps hf
  obtain ⟨hsz, hst⟩ := elemSize_fixed ps fs hl.wf hl.ne hnv hlf
  have hSpos := storage_pos hl
  have hstride : v.loc.stride = (elemSize ps fs).stride := rfl
  have hbytes : v.bytes = units (needed N B (elemSize ps fs)) (storageAl ps) * storageAl ps := rfl
  have hdvd : storageAl ps ∣ (elemSize ps fs).stride := by rw [hst]; exact alignUp_dvd _ _
  have hle : (elemSize ps fs).size ≤ (elemSize ps fs).stride := by rw [hst, hsz]; exact alignUp_ge _ _ hSpos
  have hfull : (elemSize ps fs).stride * N ≤ v.bytes := by
    rw [hbytes]
    obtain ⟨hc, hd⟩ := units_cover (needed N B (elemSize ps fs)) (storageAl ps) hSpos
    cases N with
    | zero => simp
    | succ n =>
      -- needed = B + stride * n + size; the rounding to whole units reaches the full stride
      have hn : needed (n + 1) B (elemSize ps fs) = B + (elemSize ps fs).stride * n + (elemSize ps fs).size := by
        unfold needed; simp only [Nat.succ_ne_zero, if_false, Nat.mul_succ]; omega
      rw [hn] at hc hd ⊢
      generalize units (B + (elemSize ps fs).stride * n + (elemSize ps fs).size) (storageAl ps) * storageAl ps = U at hc hd ⊢
      have h1 : storageAl ps ∣ (elemSize ps fs).stride * n := Nat.dvd_trans hdvd (Nat.dvd_mul_right _ _)
      have h2 : storageAl ps ∣ U - (elemSize ps fs).stride * n := Nat.dvd_sub hd h1
      have h3 : (elemSize ps fs).size ≤ U - (elemSize ps fs).stride * n := by omega
      have h4 := alignUp_le_of_dvd hSpos h2 h3
      have hst' : (elemSize ps fs).stride = alignUp (elemSize ps fs).size (storageAl ps) := by rw [hst, hsz]
      rw [← hst'] at h4
      rw [Nat.mul_succ]
      omega
  refine ⟨hstride ▸ hfull, ?_⟩
  intro e k hk he
  have hfit := fixed_fit ps fs hl hf hlf e he
  rw [hstride]
  have : (elemSize ps fs).stride * k + (elemSize ps fs).stride ≤ (elemSize ps fs).stride * N := by
    rw [← Nat.mul_succ]; exact Nat.mul_le_mul_left _ hk
  omega

/-- along every history within the capacity: `data_end() - data_begin()` never exceeds `memory_consumption()` and every
    live element lies inside the block (stride locator) -/
theorem history_stride_inside (ps : List Param) (fs : List Nat) (N B : Nat) (junk : Nat → Nat) (hl : ListOK ps)
    (hf : isFixedOrPlain ps = true) (hlf : ps.length ≤ fs.length)
    (v : Vec) (es : List Elem) (h : FixInv v es) (hcap : es.length ≤ N)
    (hst : v.loc.stride = (Vec.new ps fs N B junk).loc.stride) (hps : v.ps = ps)
    (hb : (Vec.new ps fs N B junk).bytes ≤ v.bytes) :
    v.dataEnd ≤ v.bytes ∧ ∀ r ∈ v.mem, r.off + r.sz ≤ v.bytes := by
  have hfit := (fit_stride ps fs N B junk hl hf hlf).1
  rw [← hst] at hfit
  have hde : v.dataEnd = v.loc.stride * es.length := by simp [Vec.dataEnd, h.isFixed, h.count_eq]
  have h1 : v.loc.stride * es.length ≤ v.loc.stride * N := Nat.mul_le_mul_left _ hcap
  refine ⟨by rw [hde]; omega, ?_⟩
  intro r hr
  obtain ⟨k, hk, rfl⟩ := (h.mem_eq r).mp hr
  simp only [fixRec]
  have hm : es.getD k [] ∈ es := by
    rw [List.getD_eq_getElem?_getD, List.getElem?_eq_getElem hk]; exact List.getElem_mem hk
  have := h.fits _ hm
  have h2 : v.loc.stride * k + v.loc.stride ≤ v.loc.stride * es.length := by
    rw [← Nat.mul_succ]; exact Nat.mul_le_mul_left _ hk
  omega

/-- **Lists with a VaryingSize parameter**: a vector constructed for `N` elements and `B` bytes of varying payload has
    room for any sequence of at most `N` elements whose varying payloads total at most `B` bytes: element `k` of the
    canonical layout ends inside the block, for every well-formed parameter list, every alignment combination, all fixed
    sizes and every distribution of the varying sizes (empty spans included). -/
theorem fit_offset_table (ps : List Param) (fs : List Nat) (N B : Nat) (junk : Nat → Nat) (hl : ListOK ps)
    (hvo : VarOK false ps) (es : List Elem) (hm : ∀ e ∈ es, CountsMatch ps fs (elemCounts e))
    (hN : es.length ≤ N) (hB : varPayload ps es ≤ B) :
    ∀ k, k < es.length → canonOff ps es k + esz ps (es.getD k []) ≤ (Vec.new ps fs N B junk).bytes :=
  Cntgs.fit_offset_table ps fs N B hl hvo es hm hN hB

/-- the same room after `reserve(n, b)` beyond the capacity (C10: "the vector can hold n elements with b bytes") -/
theorem reserve_room (v : Vec) (n b : Nat) (junk : Nat → Nat) (hl : ListOK v.ps) (hnf : v.fixedLoc = false) (hgrow : v.cap < n)
    (hvo : VarOK false v.ps) (es : List Elem) (hm : ∀ e ∈ es, CountsMatch v.ps v.fs (elemCounts e))
    (hN : es.length ≤ n) (hB : varPayload v.ps es ≤ b) :
    ∀ k, k < es.length → canonOff v.ps es k + esz v.ps (es.getD k []) ≤ (v.reserve n b junk).bytes := by
  have hb : (v.reserve n b junk).bytes = units (needed n b (elemSize v.ps v.fs)) (storageAl v.ps) * storageAl v.ps := by
    simp only [Vec.reserve, hgrow, if_true, Vec.bytes, Vec.S, Vec.newMemorySize, hnf, Bool.false_eq_true, if_false]
  rw [hb]
  exact Cntgs.fit_offset_table v.ps v.fs n b hl hvo es hm hN hB

/-- along every history within capacity and budget: every live element lies inside the block, and
    `data_end() - data_begin()` never exceeds `memory_consumption()` (offset-table locator) -/
theorem history_offset_table_inside (ps : List Param) (fs : List Nat) (N B : Nat) (hl : ListOK ps) (hvo : VarOK false ps)
    (v : Vec) (es : List Elem) (h : VarInv v es) (hps : v.ps = ps)
    (hm : ∀ e ∈ es, CountsMatch ps fs (elemCounts e)) (hN : es.length ≤ N) (hB : varPayload ps es ≤ B)
    (hb : units (needed N B (elemSize ps fs)) (storageAl ps) * storageAl ps ≤ v.bytes) (hbd : storageAl ps ∣ v.bytes) :
    (∀ r ∈ v.mem, r.off + r.sz ≤ v.bytes) ∧ v.dataEnd ≤ v.bytes := by
  have hfit := Cntgs.fit_offset_table ps fs N B hl hvo es hm hN hB
  constructor
  · intro r hr
    obtain ⟨k, hk, rfl⟩ := (h.mem_eq r).mp hr
    have := hfit k hk
    simp only [canonRec, hps]
    omega
  · simp only [Vec.dataEnd, h.notFixed, Bool.false_eq_true, if_false]
    by_cases hne : es = []
    · rcases h.last_eq with hl' | ⟨hne', _⟩
      · rw [hl']; simp [rawEndOf, hne]
      · exact absurd hne hne'
    · have hlen : 0 < es.length := List.length_pos_iff.mpr hne
      have hraw : rawEndOf ps es ≤ v.bytes := by
        have := hfit (es.length - 1) (by omega)
        simp only [rawEndOf, hne, if_false]; omega
      rcases h.last_eq with hl' | ⟨_, hl'⟩
      · rw [hl', hps]; exact hraw
      · rw [hl', hps, nextOff_eq_alignUp_rawEnd hl es hne]
        exact alignUp_le_of_dvd (storage_pos hl) hbd hraw

/-! non-vacuity: the list of C01's example (`uint32`, VaryingSize<AlignAs<float,16>>, `uint8`) with three elements of
    payload 4 + 12 + 8 bytes meets the hypotheses for N = 3, B = 24 -/
example : VarOK false C01.exPs ∧
    (∀ e ∈ [[[1], [7], [3]], [[3], [7, 8, 9], [4]], [[2], [5, 6], [1]]], CountsMatch C01.exPs [0, 0, 0] (elemCounts e)) ∧
    varPayload C01.exPs [[[1], [7], [3]], [[3], [7, 8, 9], [4]], [[2], [5, 6], [1]]] ≤ 24 := by
  refine ⟨by simp [VarOK, C01.exPs], ?_, by decide⟩
  intro e he
  simp only [List.mem_cons, List.mem_nil_iff, or_false] at he
  rcases he with rfl | rfl | rfl <;> simp [CountsMatch, C01.exPs, elemCounts]

end Cntgs.C02
