/-
C16 — no hidden reallocation: addresses are stable until capacity is exceeded.

An address in the model is (block, offset).  `Vec.blk` is the block the vector owns; `Vec.addr k` is the offset of
element `k` inside it; field addresses inside an element are a function of the element's start (C04).  The operations on
one vector (`VOp`) never touch the block field or the allocator ledger; only `World.reserve` beyond the capacity,
assignment and swap do.
-/
import Cntgs.FixProofs
import Cntgs.World
import Cntgs.Props.C01
namespace Cntgs.C16

theorem addr_congr {v w : Vec} {k : Nat} (hps : w.ps = v.ps) (hst : w.loc.stride = v.loc.stride)
    (hsl : w.loc.slots k = v.loc.slots k) : w.addr k = v.addr k := by
  unfold Vec.addr Vec.fixedLoc
  rw [hps, hst, hsl]

theorem relocateOne_front (w : Vec) (i src k : Nat) (hk : k ≤ i) :
    (w.relocateOne i src).ps = w.ps ∧ (w.relocateOne i src).loc.stride = w.loc.stride ∧
    (w.relocateOne i src).loc.slots k = w.loc.slots k := by
  simp only [Vec.relocateOne]
  split
  · exact ⟨rfl, rfl, rfl⟩
  · refine ⟨rfl, ?_, ?_⟩
    · simp only; split <;> rfl
    · simp only
      split
      · rfl
      · have : k ≠ i + 1 := by omega
        simp [Loc.setSlot, this]

/-- the element-wise relocation loop never rewrites the offsets of elements in front of its first target -/
theorem relocate_fold_front (src dst : Nat) (l : List Nat) (w : Vec) (k : Nat) (hk : k ≤ dst) :
    (l.foldl (fun (w : Vec) m => w.relocateOne (dst + m) (src + m)) w).ps = w.ps ∧
    (l.foldl (fun (w : Vec) m => w.relocateOne (dst + m) (src + m)) w).loc.stride = w.loc.stride ∧
    (l.foldl (fun (w : Vec) m => w.relocateOne (dst + m) (src + m)) w).loc.slots k = w.loc.slots k := by
  induction l generalizing w with
  | nil => exact ⟨rfl, rfl, rfl⟩
  | cons m ms ih =>
    simp only [List.foldl_cons]
    obtain ⟨h1, h2, h3⟩ := ih (w.relocateOne (dst + m) (src + m))
    obtain ⟨g1, g2, g3⟩ := relocateOne_front w (dst + m) (src + m) k (by omega)
    exact ⟨h1.trans g1, h2.trans g2, h3.trans g3⟩

/-- `moveForward src dst` (called with `dst ≤ src ≤ size()`) keeps the offsets of all elements in front of `dst` -/
theorem moveForward_front (v : Vec) (src dst k : Nat) (hk : k < dst) (hds : dst ≤ src) (hsrc : src ≤ v.loc.size ∨ v.fixedLoc = true) :
    (v.moveForward src dst).ps = v.ps ∧ (v.moveForward src dst).loc.stride = v.loc.stride ∧
    (v.moveForward src dst).loc.slots k = v.loc.slots k := by
  unfold Vec.moveForward
  split
  · unfold Vec.moveForwardTrivial
    split
    · exact ⟨rfl, rfl, rfl⟩
    · simp only
      split
      · exact ⟨rfl, rfl, rfl⟩
      · rename_i hf
        refine ⟨rfl, rfl, ?_⟩
        have hsz : src ≤ v.loc.size := by
          rcases hsrc with h | h
          · exact h
          · exact absurd h hf
        have h1 : ¬ (dst ≤ k ∧ k < dst + (v.loc.size - src)) := by omega
        have h2 : ¬ (src ≠ dst ∧ k = v.loc.size - (src - dst)) := by omega
        simp [h1, h2]
  · exact relocate_fold_front src dst _ v k (by omega)

/-- `emplace_back` leaves the offset of every stored element unchanged -/
theorem emplace_keeps_addresses (v : Vec) (e : Elem) (k : Nat) (hk : k < v.size) : (v.emplaceBack e).addr k = v.addr k := by
  unfold Vec.emplaceBack
  simp only
  split
  · exact addr_congr rfl rfl rfl
  · rename_i hf
    simp only [Vec.size, hf, Bool.false_eq_true, if_false] at hk
    refine addr_congr rfl rfl ?_
    have : k ≠ v.loc.size := by omega
    simp [Loc.setSlot, this]

theorem resize_slots (l : Loc) (f : Bool) (n k : Nat) : (l.resize f n).slots k = l.slots k ∧ (l.resize f n).stride = l.stride := by
  unfold Loc.resize; split <;> exact ⟨rfl, rfl⟩

/-- `pop_back` and `clear` do not touch any offset -/
theorem pop_keeps_addresses (v : Vec) (k : Nat) : v.popBack.addr k = v.addr k := by
  have := resize_slots v.loc v.fixedLoc (v.size - 1) k
  exact addr_congr rfl this.2 this.1

theorem clear_keeps_addresses (v : Vec) (k : Nat) : v.clear.addr k = v.addr k := by
  have := resize_slots v.loc v.fixedLoc 0 k
  exact addr_congr rfl this.2 this.1

/-- `erase(first, last)` keeps the address of every element in front of `first` -/
theorem eraseRange_keeps_front (v : Vec) (i j k : Nat) (hij : i ≤ j) (hk : k < i) : (v.eraseRange i j).addr k = v.addr k := by
  unfold Vec.eraseRange
  simp only
  split
  · rename_i hmv
    have hsrc : j ≤ v.loc.size ∨ v.fixedLoc = true := by
      cases hf : v.fixedLoc with
      | true => exact Or.inr rfl
      | false => left; have := hmv.1; simp only [Vec.size, hf, Bool.false_eq_true, if_false] at this; omega
    obtain ⟨h1, h2, h3⟩ := moveForward_front { v with mem := v.destructRange i j } j i k hk hij hsrc
    have := resize_slots ({ v with mem := v.destructRange i j }.moveForward j i).loc
      ({ v with mem := v.destructRange i j }.moveForward j i).fixedLoc (v.size - (j - i)) k
    exact addr_congr h1 (this.2.trans h2) (this.1.trans h3)
  · have := resize_slots v.loc v.fixedLoc (v.size - (j - i)) k
    exact addr_congr rfl this.2 this.1

/-- `erase(position)` keeps the address of every element in front of `position` -/
theorem erase_keeps_front (v : Vec) (i k : Nat) (hi : i < v.size) (hk : k < i) : (v.erase i).addr k = v.addr k := by
  unfold Vec.erase
  simp only
  have hsrc : i + 1 ≤ v.loc.size ∨ v.fixedLoc = true := by
    cases hf : v.fixedLoc with
    | true => exact Or.inr rfl
    | false => left; simp only [Vec.size, hf, Bool.false_eq_true, if_false] at hi; omega
  obtain ⟨h1, h2, h3⟩ := moveForward_front { v with mem := v.destructRange i (i + 1) } (i + 1) i k hk (by omega) hsrc
  have := resize_slots ({ v with mem := v.destructRange i (i + 1) }.moveForward (i + 1) i).loc
    ({ v with mem := v.destructRange i (i + 1) }.moveForward (i + 1) i).fixedLoc (v.size - 1) k
  exact addr_congr h1 (this.2.trans h2) (this.1.trans h3)

/-- `reserve(n, b)` with `n ≤ capacity()` changes nothing: neither the vector nor (on the multi-vector level) the ledger -/
theorem reserve_within_capacity (w : World) (k n b : Nat) (v : Vec) (hv : w.vecs k = some v) (hn : n ≤ v.cap) :
    (w.reserve k n b).vecs = w.vecs ∧ (w.reserve k n b).heap = w.heap := by
  unfold World.reserve
  simp [hv, Nat.not_lt.mpr hn]

/-- the operations on one vector request nothing from the allocator and leave every other vector alone -/
theorem inplace_ops_no_allocation (w : World) (k : Nat) (f : Vec → Vec) : (w.upd k f).heap = w.heap := by
  unfold World.upd; split <;> rfl

/-- none of emplace_back / pop_back / erase / clear changes the block (`data_begin()`), the table or the capacity -/
theorem relocate_fold_blk (src dst : Nat) (l : List Nat) (w : Vec) :
    (l.foldl (fun (w : Vec) m => w.relocateOne (dst + m) (src + m)) w).blk = w.blk ∧
    (l.foldl (fun (w : Vec) m => w.relocateOne (dst + m) (src + m)) w).tbl = w.tbl := by
  induction l generalizing w with
  | nil => exact ⟨rfl, rfl⟩
  | cons m ms ih =>
    simp only [List.foldl_cons]
    rw [(ih _).1, (ih _).2]
    simp only [Vec.relocateOne]
    split <;> exact ⟨rfl, rfl⟩

theorem moveForward_blk (v : Vec) (src dst : Nat) : (v.moveForward src dst).blk = v.blk ∧ (v.moveForward src dst).tbl = v.tbl := by
  unfold Vec.moveForward
  split
  · unfold Vec.moveForwardTrivial; repeat' (first | exact ⟨rfl, rfl⟩ | split)
  · exact relocate_fold_blk src dst _ v

theorem ops_keep_block (junk : Nat → Nat) (v : Vec) (op : VOp) :
    (op.apply junk v).blk = v.blk ∧ (op.apply junk v).tbl = v.tbl := by
  cases op with
  | emplace e => simp only [VOp.apply, Vec.emplaceBack]; split <;> exact ⟨rfl, rfl⟩
  | pop => exact ⟨rfl, rfl⟩
  | erase i => simp only [VOp.apply, Vec.erase]; exact moveForward_blk _ _ _
  | eraseRange i j =>
    simp only [VOp.apply, Vec.eraseRange]
    split
    · exact moveForward_blk _ _ _
    · exact ⟨rfl, rfl⟩
  | clear => exact ⟨rfl, rfl⟩
  | reserve n b => simp only [VOp.apply, Vec.reserve]; split <;> exact ⟨rfl, rfl⟩

/-- capacity changes only through `reserve` beyond the capacity (C01.apply_cap restated) -/
theorem capacity_changes_only_by_reserve (junk : Nat → Nat) (v : Vec) (op : VOp) (h : (op.apply junk v).cap ≠ v.cap) :
    ∃ n b, op = .reserve n b ∧ v.cap < n := by
  rw [C01.apply_cap] at h
  cases op with
  | reserve n b => refine ⟨n, b, rfl, ?_⟩; simp only [C01.capSpec] at h; omega
  | _ => exact absurd rfl h

/-- swap and move construction exchange ownership without allocating: the ledger is untouched -/
theorem swap_no_allocation (w : World) (a b : Nat) : (w.swap a b).heap = w.heap := by
  unfold World.swap
  split
  · rfl
  · split <;> rfl

theorem move_no_allocation (w : World) (s d : Nat) : (w.move s d).heap = w.heap := by
  unfold World.move; split <;> rfl

/-- move construction hands the block itself to the target: every element keeps its absolute address -/
theorem move_keeps_addresses (w : World) (s d : Nat) (vs : Vec) (hs : w.vecs s = some vs) (hsd : s ≠ d) :
    (w.move s d).vecs d = some vs := by
  unfold World.move
  simp only [hs, World.set]
  have : d ≠ s := fun h => hsd h.symm
  simp [this]

end Cntgs.C16
