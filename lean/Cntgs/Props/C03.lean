/-
C03 — objects of `AlignAs<T, A>` parameters are always `A`-aligned.
Property theorems only; helper lemmas live in `LayoutProofs.lean` / `VectorProofs.lean`.
-/
import Cntgs.LayoutProofs
namespace Cntgs.C03

/-- Every object of every parameter of an element that the code places at a storage-aligned start is
    aligned to that parameter's `AlignAs` value — for all well-formed lists (alignments need not be
    monotone), all counts (every residue of `size * count` modulo `A`) and every start that is aligned
    to exactly the storage alignment. `place` is the address walk the code performs in `emplace_at` and
    `load_element_at`, steered by the compile-time trailing-alignment claims. -/
theorem objects_aligned (ps : List Param) (counts : List Nat) (start : Nat)
    (hwf : ∀ p ∈ ps, WfParam p) (hne : ps ≠ []) (hc : CountsOK ps counts)
    (hs : storageAl ps ∣ start) :
    ∀ x ∈ List.zip ps (place ps counts start), x.1.al ∣ x.2.1 := by
  rw [place_eq_greedy ps counts start hwf hne hc hs]
  exact greedyGo_aligned ps counts start

/-- The storage alignment (alignment of the allocator's value type, of every block begin and of every
    element start) is a power of two that every parameter alignment divides. -/
theorem storage_alignment_suffices (ps : List Param) (hwf : ∀ p ∈ ps, WfParam p) :
    ∀ p ∈ ps, p.al ∣ storageAl ps := al_dvd_storageAl ps hwf

/-- The next element starts storage-aligned: `align_for_first_parameter` applied to the end of an
    element is the round-up to the storage alignment, although the code skips the run-time alignment
    whenever the compile-time claim says the end is aligned already. -/
theorem next_element_start_aligned (ps : List Param) (counts : List Nat) (start : Nat)
    (hwf : ∀ p ∈ ps, WfParam p) (hne : ps ≠ []) (hc : CountsOK ps counts) (hs : storageAl ps ∣ start) :
    storageAl ps ∣ alignFirst ps (placeEnd ps counts start) := by
  rw [placeEnd_eq_goEnd ps counts start hwf hne hc hs, alignFirst_end ps counts start hwf hne hc hs]
  exact alignUp_dvd _ _

/-- Relocation keeps alignment: moving an element by a multiple of the storage alignment (erase shift,
    grow, copy, element copy to the begin of a fresh block) moves every object by the same amount. -/
theorem relocation_keeps_layout (ps : List Param) (counts : List Nat) (start d : Nat)
    (hwf : ∀ p ∈ ps, WfParam p) (hne : ps ≠ []) (hc : CountsOK ps counts)
    (hs : storageAl ps ∣ start) (hd : storageAl ps ∣ d) :
    place ps counts (d + start) = (place ps counts start).map (fun x => (d + x.1, d + x.2)) := by
  rw [place_eq_greedy ps counts start hwf hne hc hs,
      place_eq_greedy ps counts (d + start) hwf hne hc (Nat.dvd_add hd hs)]
  exact greedyGo_shift ps counts start d hwf (fun p hp => Nat.dvd_trans (al_dvd_storageAl ps hwf p hp) hd)

/-- non-vacuity: a non-monotone list (`FixedSize<AlignAs<12 bytes,16>>, AlignAs<u16,2>, VaryingSize<AlignAs<3 bytes,4>>,
    AlignAs<5 bytes,8>`) meets the hypotheses; its placement for counts (2,1,3,1) at 0 is what the real
    library produces (corpus configuration `nonmono`). -/
example : place [⟨.fixed, 12, 16, {}⟩, ⟨.plain, 2, 2, {}⟩, ⟨.varying, 3, 4, {}⟩, ⟨.plain, 5, 8, {}⟩] [2, 1, 3, 1] 0
    = [(0, 24), (24, 26), (28, 37), (40, 45)] := by decide +kernel

end Cntgs.C03
