/-
C12 — ContiguousElement is an independent deep copy with full value semantics.
The element lives in `EWorld.elems`, the vectors in `EWorld.w.vecs`: independence of later mutations is
structural in the model; that the real element owns separate storage is what the correspondence run
observes (block serial numbers, allocator identity, the vector dumped next to the element after every step).
-/
import Cntgs.RefProofs
import Cntgs.Props.C05
import Cntgs.ElemProofs
import Cntgs.VectorProofs
namespace Cntgs.C12

/-- Constructing an element from a reference: it holds the referenced field values, in a block of its own
    obtained from the given allocator and large enough for the element; the source keeps its values when
    the reference is const or an lvalue, and is moved from when it is an rvalue mutable reference. -/
theorem from_reference (ew : EWorld) (ps : List Param) (k s i alloc : Nat) (mv : Bool) (v : Vec) (e : Elem)
    (hv : ew.w.vecs s = some v) (he : v.get i = some e) (hS : 0 < storageAl ps)
    (hnf : ew.w.heap.fail = none) :
    let ew' := ew.elemFromRef ps k s i alloc mv
    ∃ p, ew'.elems k = some ⟨e, elemBytes ps e, p⟩ ∧ p.alloc = alloc ∧ p.blk = some ew.w.heap.next ∧
      elemBytes ps e ≤ p.units * storageAl ps ∧
      (mv = false → ew'.w.vecs = ew.w.vecs) ∧
      (mv = true → ew'.w.vecs s = some (v.setElem i (movedValues ps e))) := by
  simp only [EWorld.elemFromRef, hv, he, Option.bind_some, Option.map_some, Ptr.make, Heap.allocate, hnf]
  refine ⟨⟨some ew.w.heap.next, units (elemBytes ps e) (storageAl ps), alloc⟩, ?_, rfl, rfl, ?_, ?_, ?_⟩
  · simp [EWorld.setE]
  · exact (C05.units_tight _ _ hS).1
  · intro h; simp [h]
  · intro h; simp [h, World.set]

/-- Copy assignment between elements of lists without VaryingSize (field-wise path): the target holds the
    source's values afterwards and the source is unchanged. -/
theorem copy_assign_fixed (ew : EWorld) (ps : List Param) (a b : Nat) (ea eb : ElemSt) (hab : a ≠ b)
    (ha : ew.elems a = some ea) (hb : ew.elems b = some eb)
    (hfix : (isFixedOrPlain ps && (!ew.w.acfg.pocca || ew.w.acfg.ae)) = true)
    (hla : ea.val.length = ps.length) (hlb : eb.val.length = ps.length) :
    let ew' := ew.elemAssign ps a b
    (ew'.elems b).map (·.val) = some ea.val ∧ ew'.elems a = some ea ∧ (ew'.elems b).map (·.ptr.blk) = some eb.ptr.blk := by
  simp only [EWorld.elemAssign, hab, if_false, ha, hb, hfix, if_true, EWorld.setE]
  refine ⟨by simp [refAssign_target ps false ea.val eb.val hla hlb], ?_, by simp⟩
  simp [hab, ha]

/-- the owning pointer's copy assignment succeeds when no allocation fails -/
theorem ptr_copyAssign_ok (p o : Ptr) (h : Heap) (c : ACfg) (unit : Nat) (hnf : h.fail = none) :
    ∃ h' p', p.copyAssign h c unit o = (h', p', true) := by
  unfold Ptr.copyAssign Ptr.reallocate Heap.allocate
  simp only [hnf]
  repeat' (first | exact ⟨_, _, rfl⟩ | split)

/-- Copy assignment on the reallocating path (lists with VaryingSize, or propagating unequal allocators):
    values equal the source's, also between elements of different varying sizes. -/
theorem copy_assign_varying (ew : EWorld) (ps : List Param) (a b : Nat) (ea eb : ElemSt) (hab : a ≠ b)
    (ha : ew.elems a = some ea) (hb : ew.elems b = some eb)
    (hvar : (isFixedOrPlain ps && (!ew.w.acfg.pocca || ew.w.acfg.ae)) = false) (hnf : ew.w.heap.fail = none) :
    let ew' := ew.elemAssign ps a b
    (ew'.elems b).map (·.val) = some ea.val ∧ (ew'.elems b).map (·.bytes) = some ea.bytes ∧ ew'.elems a = some ea := by
  obtain ⟨h', p', hp⟩ := ptr_copyAssign_ok eb.ptr ea.ptr ew.w.heap ew.w.acfg (storageAl ps) hnf
  simp only [EWorld.elemAssign, hab, if_false, ha, hb, hvar, Bool.false_eq_true, hp]
  simp [EWorld.setE, hab, ha]

/-- Move assignment gives the target exactly the source's former values on every branch (steal,
    field-wise move for lists without VaryingSize, re-allocation, in-place). -/
theorem move_assign_value (ew : EWorld) (ps : List Param) (a b : Nat) (ea eb : ElemSt) (hab : a ≠ b)
    (ha : ew.elems a = some ea) (hb : ew.elems b = some eb) (hnf : ew.w.heap.fail = none)
    (hla : ea.val.length = ps.length) (hlb : eb.val.length = ps.length) :
    ((ew.elemMoveAssign ps a b).elems b).map (·.val) = some ea.val := by
  simp only [EWorld.elemMoveAssign, hab, if_false, ha, hb]
  split
  · simp [EWorld.setE, hab, Ne.symm hab]
  · split
    · simp [EWorld.setE, Ne.symm hab, refAssign_target ps true ea.val eb.val hla hlb]
    · split
      · simp only [Ptr.make, Heap.allocate, hnf]
        simp [EWorld.setE, Ne.symm hab]
      · simp [EWorld.setE, Ne.symm hab]

/-- `swap` exchanges the values (and the storage) of two elements -/
theorem swap_values (ew : EWorld) (a b : Nat) (ea eb : ElemSt) (hab : a ≠ b)
    (ha : ew.elems a = some ea) (hb : ew.elems b = some eb) :
    ((ew.elemSwap a b).elems a).map (·.val) = some eb.val ∧ ((ew.elemSwap a b).elems b).map (·.val) = some ea.val ∧
    ((ew.elemSwap a b).elems a).map (·.ptr.blk) = some eb.ptr.blk ∧ ((ew.elemSwap a b).elems b).map (·.ptr.blk) = some ea.ptr.blk := by
  simp only [EWorld.elemSwap, hab, if_false, ha, hb, EWorld.setE, Ptr.swap]
  cases ew.w.acfg.pocs <;> simp [hab, Ne.symm hab]

/-- Assigning an element back to a reference of equal sizes preserves the values exactly -/
theorem to_reference (ps : List Param) (e target : Elem) (he : e.length = ps.length) (ht : target.length = ps.length) :
    (refAssign ps false e target).2 = e ∧ (refAssign ps false e target).1 = e :=
  ⟨refAssign_target ps false e target he ht, refAssign_copy_source ps e target he ht⟩


/-- Allocator-extended copy construction `Element{const Element&, allocator}`: the new element holds the source's values in
    a block of its own from the given allocator, large enough for it; the source (values, block) and every vector are
    untouched — a const source is never written. -/
theorem copy_with_allocator (ew : EWorld) (ps : List Param) (a b alloc : Nat) (ea : ElemSt) (hab : a ≠ b)
    (ha : ew.elems a = some ea) (hS : 0 < storageAl ps) (hnf : ew.w.heap.fail = none) :
    let ew' := ew.elemCopyA ps a b alloc
    (∃ p, ew'.elems b = some ⟨ea.val, ea.bytes, p⟩ ∧ p.alloc = alloc ∧ p.blk = some ew.w.heap.next ∧
      ea.bytes ≤ p.units * storageAl ps) ∧
    ew'.elems a = some ea ∧ ew'.w.vecs = ew.w.vecs := by
  simp only [EWorld.elemCopyA, ha, Ptr.make, Heap.allocate, hnf]
  refine ⟨⟨⟨some ew.w.heap.next, units ea.bytes (storageAl ps), alloc⟩, by simp [EWorld.setE], rfl, rfl,
    (C05.units_tight _ _ hS).1⟩, ?_, trivial⟩
  simp [EWorld.setE, hab, ha]

/-- Allocator-extended move construction `Element{Element&&, allocator}` with an allocator equal to the source's: the
    block changes owner, nothing is allocated, the source is left empty. -/
theorem move_with_equal_allocator (ew : EWorld) (ps : List Param) (a b alloc : Nat) (ea : ElemSt) (hab : a ≠ b)
    (ha : ew.elems a = some ea) (heq : ew.w.acfg.eq alloc ea.ptr.alloc = true) :
    let ew' := ew.elemMoveA ps a b alloc
    ew'.elems b = some ⟨ea.val, ea.bytes, ⟨ea.ptr.blk, ea.ptr.units, ea.ptr.alloc⟩⟩ ∧
    (ew'.elems a).map (·.ptr.blk) = some none ∧ ew'.w.heap = ew.w.heap ∧ ew'.w.vecs = ew.w.vecs := by
  simp only [EWorld.elemMoveA, ha, heq, if_true, Ptr.moveCtor]
  refine ⟨by simp [EWorld.setE, Ne.symm hab], by simp [EWorld.setE], trivial, trivial⟩

/-- ... with an unequal allocator: the new element holds the source's former values in a fresh block from the given
    allocator; the source keeps its own block and holds moved-from values. -/
theorem move_with_unequal_allocator (ew : EWorld) (ps : List Param) (a b alloc : Nat) (ea : ElemSt) (hab : a ≠ b)
    (ha : ew.elems a = some ea) (hne : ew.w.acfg.eq alloc ea.ptr.alloc = false) (hnf : ew.w.heap.fail = none) :
    let ew' := ew.elemMoveA ps a b alloc
    ew'.elems b = some ⟨ea.val, ea.bytes, ⟨some ew.w.heap.next, ea.ptr.units, alloc⟩⟩ ∧
    ew'.elems a = some { ea with val := movedValues ps ea.val } ∧ ew'.w.vecs = ew.w.vecs := by
  simp only [EWorld.elemMoveA, ha, hne, Bool.false_eq_true, if_false, Ptr.make, Heap.allocate, hnf]
  refine ⟨by simp [EWorld.setE, Ne.symm hab], by simp [EWorld.setE], trivial⟩


/-- **Every history of element operations** — constructions from the three kinds of reference, copy and move construction,
    the allocator-extended constructors with equal and unequal allocators, copy and move assignment on all their branches
    (field-wise, stealing, re-allocating, in place; smaller into larger and larger into smaller), swap, destruction — with
    any allocation failing and the caller going on: the elements afterwards hold exactly the values that the same history
    yields on a map  name ↦ value | moved-from  (`EOp.aspec`), each live one in a block of its own that is large enough. -/
theorem history_of_element_operations (ps : List Param) (hl : ListOK ps) (ops : List EOp) (ew : EWorld) (A : Nat → Option AElem)
    (h0 : ew.w.threw = false) (h : EInv ps ew.elems A) (hv : EValid ps ew A ops) :
    EInv ps (erun ps ew ops).elems (earun ps ew A ops) :=
  EInv.history ps (storage_pos hl) ops ew A h0 h hv

/-- what the invariant means for what a caller can observe -/
theorem element_observations (ps : List Param) (elems : Nat → Option ElemSt) (A : Nat → Option AElem) (h : EInv ps elems A) (k : Nat) :
    (∀ v, A k = some (.live v) → ∃ es, elems k = some es ∧ es.val = v ∧ es.bytes = elemBytes ps v ∧ es.ptr.blk ≠ none ∧
      elemBytes ps v ≤ es.ptr.units * storageAl ps) ∧
    (A k = some .moved → ∃ es, elems k = some es ∧ es.ptr.blk = none) ∧
    (A k = none → elems k = none) :=
  EInv.observe ps elems A h k

/-- the abstract operations say what the property says: a copy leaves its source, a (stealing) move empties it, assignment
    gives the target the source's value, swap exchanges -/
theorem abstract_spec_is_value_semantics (ps : List Param) (ew : EWorld) (A : Nat → Option AElem) (a b : Nat) (hab : a ≠ b) :
    ((EOp.copy a b).aspec ps ew A b = A a ∧ (EOp.copy a b).aspec ps ew A a = A a) ∧
    ((EOp.move a b).aspec ps ew A b = A a ∧ (EOp.move a b).aspec ps ew A a = some .moved) ∧
    ((EOp.assign a b).aspec ps ew A b = A a ∧ (EOp.assign a b).aspec ps ew A a = A a) ∧
    ((EOp.swap a b).aspec ps ew A a = A b ∧ (EOp.swap a b).aspec ps ew A b = A a) := by
  simp [EOp.aspec, eset, hab, Ne.symm hab]

/-- non-vacuity: a world with one element of `<u32, VaryingSize<u8>>`; the history copy-with-allocator, move-with-unequal-
    allocator, copy assignment, swap, destroy meets `EValid` -/
example :
    let ps : List Param := [⟨.plain, 4, 4, {}⟩, ⟨.varying, 1, 1, {}⟩]
    let e0 : ElemSt := ⟨[[2], [7, 8]], 6, ⟨some 1, 2, 1⟩⟩
    let ew : EWorld := { elems := fun k => if k = 0 then some e0 else none }
    let A : Nat → Option AElem := fun k => if k = 0 then some (.live [[2], [7, 8]]) else none
    EInv ps ew.elems A ∧ EValid ps ew A [.copyA 0 1 2, .moveA 0 2 2, .assign 1 2, .swap 1 2, .destroy 0] := by
  intro ps e0 ew A
  refine ⟨?_, ?_⟩
  · intro k
    by_cases hk : k = 0
    · subst hk
      show ERep ps e0 (.live [[2], [7, 8]])
      refine ⟨rfl, rfl, by decide +kernel, by decide, by simp [e0], by decide +kernel⟩
    · simp [ew, A, hk, ERel]
  · refine ⟨⟨⟨_, rfl⟩, rfl⟩, ⟨⟨_, rfl⟩, rfl⟩, Or.inr ⟨_, rfl, by decide, ?_⟩, Or.inr ⟨by decide, by decide⟩, trivial, trivial⟩
    intro hf
    exact absurd hf (by decide +kernel)

/-- vector operations do not touch the elements, element operations on existing elements do not touch the
    vectors (field-wise copy assignment shown; the others are analogous one-liners) -/
theorem independent (ew : EWorld) (ps : List Param) (a b : Nat) :
    (ew.elemAssign ps a b).w.vecs = ew.w.vecs ∧ (ew.elemSwap a b).w.vecs = ew.w.vecs ∧
    (ew.elemCopy ps a b).w.vecs = ew.w.vecs ∧ (ew.elemMove a b).w.vecs = ew.w.vecs := by
  refine ⟨?_, ?_, ?_, ?_⟩
  · simp only [EWorld.elemAssign]; repeat' (first | rfl | split)
  · simp only [EWorld.elemSwap]; repeat' (first | rfl | split)
  · simp only [EWorld.elemCopy]; repeat' (first | rfl | split)
  · simp only [EWorld.elemMove]; repeat' (first | rfl | split)

end Cntgs.C12
