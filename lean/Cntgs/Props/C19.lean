/-
C19 — read-only use from several threads is race-free (PARTIAL).

What Lean carries: every const operation of the interface is a function of the (shared) state that leaves
every shared vector unchanged — the only const operations with an effect, copy construction and element
construction from a const reference, write to a fresh object of the calling thread only. Hence any
interleaving of const operations of any number of threads yields, per thread, exactly the observations of
a sequential run of that thread alone, and no shared location is ever written (a C++ data race needs a
write). The premise "the compiled const operations perform no write to the shared vector" is established
on the real code per executed path (vector object, data block and offset table mapped read-only); what the
model cannot exhibit: compiler-introduced writes, the allocator's and the value types' own thread safety.
-/
import Cntgs.RefIter
import Cntgs.Compare
namespace Cntgs.C19

/-- the const operations: queries, element access, comparisons, copying, element construction -/
inductive ConstOp
  | size (k : Nat) | empty (k : Nat) | capacity (k : Nat) | consumption (k : Nat) | dataEnd (k : Nat)
  | get (k i : Nat) | eq (k j : Nat) | lt (k j : Nat)
  | copyTo (k d : Nat)            -- `V copy{v_k}` into the calling thread's private slot d
  deriving DecidableEq, Repr

inductive Obs
  | nat (n : Nat) | bool (b : Bool) | elem (e : Option Elem) | ob (b : Option Bool) | content (l : List (Option Elem)) | none
  deriving DecidableEq, Repr

def absOf (w : World) (k : Nat) : List Elem := ((w.vecs k).map (fun v => v.abs.map (·.getD []))).getD []

/-- what a const operation returns -/
def obs (ps : List Param) (w : World) : ConstOp → Obs
  | .size k => .nat ((w.vecs k).map (·.size) |>.getD 0)
  | .empty k => .bool (((w.vecs k).map (·.size) |>.getD 0) == 0)
  | .capacity k => .nat ((w.vecs k).map (·.cap) |>.getD 0)
  | .consumption k => .nat ((w.vecs k).map (·.bytes) |>.getD 0)
  | .dataEnd k => .nat ((w.vecs k).map (·.dataEnd) |>.getD 0)
  | .get k i => .elem ((w.vecs k).bind (·.get i))
  | .eq k j => .ob (vecEq ps (((w.vecs k).map (·.fs)).getD []) (((w.vecs j).map (·.fs)).getD []) (absOf w k) (absOf w j))
  | .lt k j => .bool (vecLt ps (((w.vecs k).map (·.fs)).getD []) (((w.vecs j).map (·.fs)).getD []) (absOf w k) (absOf w j))
  | .copyTo k d => .content (((w.copy k d).vecs d).map (·.abs) |>.getD [])

/-- the state after a const operation (only copying has an effect, on the private slot and the ledger) -/
def step (w : World) : ConstOp → World
  | .copyTo k d => w.copy k d
  | _ => w

/-- slots that a thread may use as copy targets are private: not among the shared vectors -/
def Private (shared : Nat → Bool) : ConstOp → Prop
  | .copyTo _ d => shared d = false
  | _ => True

/-- copy construction leaves every other vector — in particular its source — untouched -/
theorem copy_leaves_others (w : World) (s d k : Nat) (hk : k ≠ d) : (w.copy s d).vecs k = w.vecs k := by
  unfold World.copy
  repeat' (first | rfl | split)
  simp [World.set, hk]

/-- no const operation changes a shared vector -/
theorem const_no_write (w : World) (shared : Nat → Bool) (op : ConstOp) (hp : Private shared op)
    (k : Nat) (hk : shared k = true) : (step w op).vecs k = w.vecs k := by
  cases op <;> try rfl
  rename_i s d
  exact copy_leaves_others w s d k (by intro h; subst h; simp [Private] at hp; rw [hp] at hk; exact absurd hk (by simp))

/-- running a whole schedule (any interleaving of the threads' const operations) -/
def runSchedule (ps : List Param) : World → List (Nat × ConstOp) → List (Nat × Obs)
  | _, [] => []
  | w, (t, op) :: rest => (t, obs ps w op) :: runSchedule ps (step w op) rest

/-- the shared part of the state is invariant under any schedule -/
theorem schedule_keeps_shared (ps : List Param) (shared : Nat → Bool) :
    ∀ (sched : List (Nat × ConstOp)) (w : World), (∀ x ∈ sched, Private shared x.2) →
      ∀ k, shared k = true → ((sched.foldl (fun w x => step w x.2) w).vecs k) = w.vecs k := by
  intro sched
  induction sched with
  | nil => intro w _ k _; rfl
  | cons x xs ih =>
    intro w hp k hk
    simp only [List.foldl_cons]
    rw [ih (step w x.2) (fun y hy => hp y (by simp [hy])) k hk]
    exact const_no_write w shared x.2 (hp x (by simp)) k hk

/-- an observation that only reads shared vectors does not depend on what other threads did before:
    the pure queries give the same result in any state that agrees on the shared vectors -/
theorem obs_depends_on_shared_only (ps : List Param) (w w' : World) (shared : Nat → Bool)
    (hag : ∀ k, shared k = true → w'.vecs k = w.vecs k) (op : ConstOp)
    (hop : match op with
      | .size k | .empty k | .capacity k | .consumption k | .dataEnd k | .get k _ => shared k = true
      | .eq k j | .lt k j => shared k = true ∧ shared j = true
      | .copyTo _ _ => False) :
    obs ps w' op = obs ps w op := by
  cases op <;> simp only [obs, absOf] <;> simp_all


/-! ### standalone elements -/

/-- the const operations that involve a ContiguousElement and have an effect at all: copying a const element (plain and
    allocator-extended) and constructing an element from a const reference; `d` is the calling thread's private slot -/
inductive ConstEOp
  | copyElem (a d : Nat) | copyElemAlloc (a d alloc : Nat) | fromConstRef (d s i alloc : Nat)
  deriving DecidableEq, Repr

def estep (ps : List Param) (ew : EWorld) : ConstEOp → EWorld
  | .copyElem a d => ew.elemCopy ps a d
  | .copyElemAlloc a d al => ew.elemCopyA ps a d al
  | .fromConstRef d s i al => ew.elemFromRef ps d s i al false

def ConstEOp.target : ConstEOp → Nat
  | .copyElem _ d => d | .copyElemAlloc _ d _ => d | .fromConstRef d _ _ _ => d

/-- no const element operation changes a shared element (in particular its source: a copy never moves from it) or any
    vector -/
theorem elem_const_no_write (ps : List Param) (ew : EWorld) (shared : Nat → Bool) (op : ConstEOp)
    (hp : shared op.target = false) :
    (∀ k, shared k = true → (estep ps ew op).elems k = ew.elems k) ∧ (estep ps ew op).w.vecs = ew.w.vecs := by
  have hne : ∀ k, shared k = true → k ≠ op.target := by
    intro k hk h; rw [h, hp] at hk; exact absurd hk (by simp)
  cases op with
  | copyElem a d =>
    have hd : ∀ k, shared k = true → k ≠ d := hne
    simp only [estep, EWorld.elemCopy]
    repeat' (first | exact ⟨fun _ _ => rfl, rfl⟩ | split)
    exact ⟨fun k hk => by simp [EWorld.setE, hd k hk], rfl⟩
  | copyElemAlloc a d al =>
    have hd : ∀ k, shared k = true → k ≠ d := hne
    simp only [estep, EWorld.elemCopyA]
    repeat' (first | exact ⟨fun _ _ => rfl, rfl⟩ | split)
    exact ⟨fun k hk => by simp [EWorld.setE, hd k hk], rfl⟩
  | fromConstRef d s i al =>
    have hd : ∀ k, shared k = true → k ≠ d := hne
    simp only [estep, EWorld.elemFromRef, Bool.false_eq_true, if_false]
    repeat' (first | exact ⟨fun _ _ => rfl, rfl⟩ | split)
    exact ⟨fun k hk => by simp [EWorld.setE, hd k hk], rfl⟩

/-- the shared elements and all vectors are invariant under any schedule of const element operations -/
theorem elem_schedule_keeps_shared (ps : List Param) (shared : Nat → Bool) :
    ∀ (sched : List (Nat × ConstEOp)) (ew : EWorld), (∀ x ∈ sched, shared x.2.target = false) →
      (∀ k, shared k = true → (sched.foldl (fun ew x => estep ps ew x.2) ew).elems k = ew.elems k) ∧
      (sched.foldl (fun ew x => estep ps ew x.2) ew).w.vecs = ew.w.vecs := by
  intro sched
  induction sched with
  | nil => intro ew _; exact ⟨fun _ _ => rfl, rfl⟩
  | cons x xs ih =>
    intro ew hp
    simp only [List.foldl_cons]
    obtain ⟨h1, h2⟩ := ih (estep ps ew x.2) (fun y hy => hp y (by simp [hy]))
    obtain ⟨g1, g2⟩ := elem_const_no_write ps ew shared x.2 (hp x (by simp))
    exact ⟨fun k hk => by rw [h1 k hk, g1 k hk], by rw [h2, g2]⟩

end Cntgs.C19
