/-
C11 — references and iterators are faithful proxies for the stored elements.
-/
import Cntgs.RefProofs
namespace Cntgs.C11

/-- Assigning one element reference to another of equal field sizes copies every field value — for every
    parameter list, i.e. every way the implementation coalesces runs of trivially assignable fields into
    one `memmove` and handles the others one by one. Holds for copy (`useMove = false`) and move. -/
theorem assign_copies_all_fields (ps : List Param) (useMove : Bool) (source target : Elem)
    (hs : source.length = ps.length) (ht : target.length = ps.length) :
    (refAssign ps useMove source target).2 = source :=
  refAssign_target ps useMove source target hs ht

/-- copy assignment (from a const reference or an lvalue reference) leaves the source unchanged -/
theorem copy_assign_keeps_source (ps : List Param) (source target : Elem)
    (hs : source.length = ps.length) (ht : target.length = ps.length) :
    (refAssign ps false source target).1 = source :=
  refAssign_copy_source ps source target hs ht

/-- move assignment (from an rvalue mutable reference): fields of trivially move-assignable type keep
    their value in the source, the others are moved from — exactly once, by their own move assignment -/
theorem move_assign_source (ps : List Param) (source target : Elem) (j : Nat)
    (hs : source.length = ps.length) (ht : target.length = ps.length) (hj : j < ps.length) :
    (refAssign ps true source target).1.getD j [] =
      if predAt (·.ty.trivMoveAssign) ps j = true then source.getD j [] else zeros (source.getD j []) :=
  refAssign_move_source ps source target j hs ht hj

/-- `swap` / `iter_swap` exchange the complete field values of the two elements, whatever mixture of
    byte-swapped runs and per-field swaps the run table prescribes -/
theorem swap_exchanges (ps : List Param) (a b : Elem) (ha : a.length = ps.length) (hb : b.length = ps.length) :
    refSwap ps a b = (b, a) :=
  refSwap_exchanges ps a b ha hb

/-- swapping twice restores both elements -/
theorem swap_involutive (ps : List Param) (a b : Elem) (ha : a.length = ps.length) (hb : b.length = ps.length) :
    refSwap ps (refSwap ps a b).1 (refSwap ps a b).2 = (a, b) := by
  rw [refSwap_exchanges ps a b ha hb]
  exact refSwap_exchanges ps b a hb ha

/-! iterator arithmetic and comparisons behave as for a random-access iterator over indices -/

theorem iter_add_sub (it : Iter) (n : Int) : (it.add n).sub n = it ∧ (it.sub n).add n = it := by
  constructor <;> simp [Iter.add, Iter.sub] <;> (cases it; simp; omega)

theorem iter_diff (it : Iter) (n : Int) : (it.add n).diff it = n ∧ it.diff (it.add n) = -n := by
  simp [Iter.add, Iter.diff]; omega

theorem iter_diff_add (a b : Iter) (h : a.vec = b.vec) : b.add (a.diff b) = a := by
  cases a; cases b; simp [Iter.add, Iter.diff] at *; exact ⟨h.symm, by omega⟩

/-- order and equality of iterators into one vector are order and equality of their indices -/
theorem iter_order (a b : Iter) (h : a.vec = b.vec) :
    (a.lt b = decide (a.idx < b.idx)) ∧ (a.gt b = decide (b.idx < a.idx)) ∧
    (a.le b = decide (a.idx ≤ b.idx)) ∧ (a.ge b = decide (b.idx ≤ a.idx)) ∧
    (a.eq b = decide (a.idx = b.idx)) := by
  have h' : (b.vec == a.vec) = true := by simp [h]
  have h'' : (a.vec == b.vec) = true := by simp [h]
  refine ⟨by simp [Iter.lt, h''], by simp [Iter.gt, Iter.lt, h'], ?_, ?_, ?_⟩
  · simp only [Iter.le, Iter.gt, Iter.lt, h', Bool.and_true]
    by_cases h1 : b.idx < a.idx
    · have : ¬ a.idx ≤ b.idx := by omega
      simp [h1, this]
    · have : a.idx ≤ b.idx := by omega
      simp [h1, this]
  · simp only [Iter.ge, Iter.lt, h'', Bool.and_true]
    by_cases h1 : a.idx < b.idx
    · have : ¬ b.idx ≤ a.idx := by omega
      simp [h1, this]
    · have : b.idx ≤ a.idx := by omega
      simp [h1, this]
  · simp only [Iter.eq, h'', Bool.and_true]
    by_cases h1 : a.idx = b.idx <;> simp [h1]

theorem iter_trichotomy (a b : Iter) (h : a.vec = b.vec) :
    (a.lt b = true ∧ a.eq b = false ∧ a.gt b = false) ∨ (a.lt b = false ∧ a.eq b = true ∧ a.gt b = false) ∨
    (a.lt b = false ∧ a.eq b = false ∧ a.gt b = true) := by
  simp [Iter.lt, Iter.gt, Iter.eq, h]
  omega

/-- non-vacuity: a list that mixes trivially swappable and tracked fields (runs `m,1,s,m`) -/
example :
    let ps : List Param := [⟨.plain, 5, 1, { trivSwap := false, trivMoveAssign := false }⟩, ⟨.plain, 2, 2, {}⟩, ⟨.fixed, 1, 1, {}⟩,
                            ⟨.plain, 8, 4, { trivSwap := false, trivMoveAssign := false }⟩]
    refSwap ps [[1], [2], [3, 4], [5]] [[6], [7], [8, 9], [10]] = ([[6], [7], [8, 9], [10]], [[1], [2], [3, 4], [5]]) ∧
    refAssign ps true [[1], [2], [3, 4], [5]] [[6], [7], [8, 9], [10]] = ([[0], [2], [3, 4], [0]], [[1], [2], [3, 4], [5]]) := by
  decide +kernel

end Cntgs.C11
