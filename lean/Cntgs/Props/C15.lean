/-
C15 — emplace_back stores `T(source item)` whatever form the source takes.
-/
import Cntgs.Emplace
namespace Cntgs.C15

/-- representations the harness can produce for a source type: in range, and bool holds 0 or 1 -/
def InRange (u : Ty) (v : Nat) : Prop := v < 2 ^ (8 * u.size) ∧ (u = .b1 → v ≤ 1)

theorem toInt_mod (u : Ty) (v : Nat) (hv : v < 2 ^ (8 * u.size)) :
    ((toInt u v) % ((2 ^ (8 * u.size) : Nat) : Int)).toNat = v := by
  unfold toInt
  split
  · rename_i h
    have h2 : v ≥ 2 ^ (8 * u.size - 1) := by
      simp only [Bool.and_eq_true, decide_eq_true_eq] at h; exact h.2
    have : ((v : Int) - ((2 ^ (8 * u.size) : Nat) : Int)) % ((2 ^ (8 * u.size) : Nat) : Int) = (v : Int) := by
      rw [Int.sub_emod, Int.emod_self, Int.sub_zero, Int.emod_emod_of_dvd _ (Int.dvd_refl _)]
      exact Int.emod_eq_of_lt (by omega) (by exact_mod_cast hv)
    rw [this]; simp
  · rw [Int.emod_eq_of_lt (by omega) (by exact_mod_cast hv)]; simp

/-- **memcpy is only chosen when the conversion keeps the representation**: for every pair of types that
    `MEMCPY_COMPATIBLE` accepts, `T(u)` has the bytes of `u` -/
theorem memcpy_sound (t u : Ty) (v : Nat) (h : memcpyCompatible t u = true) (hv : InRange u v) :
    cast t u v = v := by
  unfold memcpyCompatible at h
  simp only [Bool.and_eq_true, Bool.or_eq_true, beq_iff_eq, bne_iff_ne, ne_eq] at h
  obtain ⟨⟨⟨hsz, _⟩, _⟩, hk⟩ := h
  unfold cast
  by_cases htu : t = u
  · simp [htu]
  · rcases hk with hk | ⟨⟨hti, hui⟩, hnb⟩
    · exact absurd hk htu
    · have hbeq : (t == u) = false := by simpa using htu
      have hb1 : (t == Ty.b1) = false := by simpa using hnb
      simp only [hbeq, hb1, Bool.false_eq_true, if_false, hti, hui, Bool.true_or, if_true]
      rw [hsz]
      exact toInt_mod u v hv.1

/-- whatever the form of the source, the stored objects are `T(item)`, item by item, and exactly as many
    as the source holds -/
theorem stored_is_converted (f : Form) (t u : Ty) (items : List Nat) (hv : ∀ v ∈ items, InRange u v) :
    stored f t u items = items.map (cast t u) ∧ (stored f t u items).length = items.length := by
  unfold stored
  cases hp : path f t u
  · -- memcpy: only reachable when MEMCPY_COMPATIBLE holds
    have hmc : memcpyCompatible t u = true := by
      unfold path at hp
      by_cases h : memcpyCompatible t u = true
      · exact h
      · simp only [Bool.not_eq_true] at h
        simp [h] at hp
        split at hp <;> (try split at hp) <;> simp_all
    refine ⟨?_, rfl⟩
    symm
    calc items.map (cast t u) = items.map id := List.map_congr_left (fun v hvm => memcpy_sound t u v hmc (hv v hvm))
      _ = items := by simp
  · exact ⟨rfl, by simp⟩
  · exact ⟨rfl, by simp⟩

/-- lvalue sources (containers, arrays, generated ranges, plain iterators) are never moved from -/
theorem lvalue_not_moved (f : Form) (t u : Ty) (h1 : f.rvalue = false) (h2 : f ≠ .moveIt) :
    movesEach f t u = false := by
  unfold movesEach path
  cases f <;> simp_all [Form.rvalue, Form.isRange, Form.hasDataAndSize, Form.isPointer, Form.contiguousIterator] <;>
    split <;> simp

/-- rvalue ranges and move_iterators of a type that is not trivially copyable are moved from, item by item -/
theorem rvalue_moved (f : Form) (t u : Ty) (h : f.rvalue = true ∨ f = .moveIt) (hu : u.trivCopyable = false) :
    path f t u = .moveEach := by
  have hmc : memcpyCompatible t u = false := by unfold memcpyCompatible; simp [hu]
  unfold path
  rcases h with h | h
  · cases f <;> simp_all [Form.rvalue, Form.isRange, Form.hasDataAndSize]
  · subst h; simp [Form.isRange, Form.isPointer, Form.contiguousIterator, hmc]

/-- the two repaired cases: `char 2 → bool` is stored as `true`, a trivially copyable wrapper is built by
    its converting constructor -/
example : stored .vecL .b1 .c8 [2, 0, 255] = [1, 0, 1] ∧ stored .ptr .w1 .u8 [5] = [6] ∧
    stored .vecL .u8 .i8 [200] = [200] ∧ path .vecL .u8 .i8 = .memcpy := by decide

end Cntgs.C15
