/-
C08 — allocator propagation follows std::allocator_traits.
-/
import Cntgs.AllocProofs
import Cntgs.World
namespace Cntgs.C08

/-- copy construction: `select_on_container_copy_construction` of the source's allocator -/
theorem copy_construction (h : Heap) (unit : Nat) (o : Ptr) (h' : Heap) (p : Ptr) (hc : Ptr.copy h unit o = (h', some p)) :
    p.alloc = socc o.alloc := (copy_alloc h unit o h' p hc).1

/-- copy assignment: the source's allocator exactly when POCCA, unchanged otherwise; and the pointer owns
    its block through an allocator equal to the resulting one -/
theorem copy_assignment (h : Heap) (hw : h.WF) (c : ACfg) (unit : Nat) (p o : Ptr) (hp : Owns h c unit p)
    (hok : (p.copyAssign h c unit o).2.2 = true) :
    (p.copyAssign h c unit o).2.1.alloc = (if c.pocca then o.alloc else p.alloc) ∧
    Owns (p.copyAssign h c unit o).1 c unit (p.copyAssign h c unit o).2.1 := by
  rcases (copyAssign_spec h hw c unit p o hp).2 with ⟨_, _, h3, h4⟩ | ⟨h1, _⟩
  · exact ⟨h4, h3⟩
  · rw [hok] at h1; exact absurd h1 (by simp)

/-- move assignment: the source's allocator exactly when POCMA -/
theorem move_assignment (h : Heap) (hw : h.WF) (c : ACfg) (unit : Nat) (p o : Ptr) (hp : Owns h c unit p) :
    (p.moveAssign h c unit o).2.1.alloc = (if c.pocma then o.alloc else p.alloc) :=
  (moveAssign_spec h hw c unit p o hp).2.2.2.2.1

/-- swap: allocators are exchanged exactly when POCS; both sides own what they hold afterwards, given the
    standard's precondition (propagating or equal allocators) -/
theorem swap_propagation (h : Heap) (c : ACfg) (unit : Nat) (a b : Ptr) (ha : Owns h c unit a) (hb : Owns h c unit b)
    (hpre : c.pocs = true ∨ c.ae = true ∨ a.alloc = b.alloc) :
    (Ptr.swap c a b).1.alloc = (if c.pocs then b.alloc else a.alloc) ∧
    (Ptr.swap c a b).2.alloc = (if c.pocs then a.alloc else b.alloc) ∧
    Owns h c unit (Ptr.swap c a b).1 ∧ Owns h c unit (Ptr.swap c a b).2 :=
  ⟨(swap_spec c a b).2.2.1, (swap_spec c a b).2.2.2, (swap_owns h c unit a b ha hb hpre).1, (swap_owns h c unit a b ha hb hpre).2⟩

/-- move assignment between unequal, non-propagating allocators does not steal: the target keeps its own
    allocator, the source keeps its block, and the elements are transferred (moved one by one: the source
    is left with moved-from values) into memory of the target's allocator -/
theorem move_assign_unequal_transfers (w : World) (s d : Nat) (vs vd : Vec) (hsd : s ≠ d)
    (hs : w.vecs s = some vs) (hd : w.vecs d = some vd)
    (hne : (w.acfg.ae || w.acfg.pocma || w.acfg.eq vd.alloc vs.alloc) = false) (hnf : w.heap.fail = none) :
    ∃ vd' vs', (w.moveAssign s d).vecs d = some vd' ∧ (w.moveAssign s d).vecs s = some vs' ∧
      vd'.alloc = vd.alloc ∧ vd'.mem = vs.mem ∧ vd'.cap = vs.cap ∧ vs'.blk = vs.blk ∧
      vs'.mem = vs.mem.map (fun r => { r with e := movedValues vs.ps r.e }) := by
  simp only [World.moveAssign, hsd, if_false, hs, hd, hne, Bool.false_eq_true]
  by_cases hgt : vs.bytes > vd.bytes
  · simp only [hgt, if_true, allocPair, Ptr.make, Heap.allocate, hnf, allocTable]
    by_cases hf : vd.fixedLoc = true
    · simp only [hf, if_true, World.set, Ptr.moveAssign]
      refine ⟨_, _, by simp [hsd, Ne.symm hsd]; rfl, by simp [hsd]; rfl, ?_⟩
      simp [Vec.setPtr, Vec.ptr, hne]
    · simp only [hf, Bool.false_eq_true, if_false, Option.map_none, World.set, Ptr.moveAssign]
      refine ⟨_, _, by simp [hsd, Ne.symm hsd]; rfl, by simp [hsd]; rfl, ?_⟩
      simp [Vec.setPtr, Vec.ptr, hne]
  · simp only [hgt, if_false, allocTable, Heap.allocate, hnf]
    by_cases hf : vd.fixedLoc = true
    · simp only [hf, if_true, World.set]
      exact ⟨_, _, by simp [hsd, Ne.symm hsd]; rfl, by simp [hsd]; rfl, by simp⟩
    · simp only [hf, Bool.false_eq_true, if_false, Option.map_none, World.set]
      exact ⟨_, _, by simp [hsd, Ne.symm hsd]; rfl, by simp [hsd]; rfl, by simp⟩

end Cntgs.C08
