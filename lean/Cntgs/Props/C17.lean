/-
C17 — allocation failure leaves everything valid and leak-free.
The fault position is universally quantified: `Heap.fail = some k` makes the k-th allocation from now throw,
for every k; every operation is a short sequence of pointer-level steps, each covered below.
-/
import Cntgs.AllocProofs
import Cntgs.World
import Cntgs.WorldProofs
import Cntgs.RefIter
import Cntgs.ElemProofs
import Cntgs.VectorProofs
namespace Cntgs.C17

/-- a throwing allocation changes nothing in the ledger -/
theorem failed_allocation_is_clean (h : Heap) (a bytes : Nat) (k : BKind) (h' : Heap)
    (hal : h.allocate a bytes k = (h', none)) : h'.live = h.live ∧ h'.errs = h.errs ∧ h'.next = h.next :=
  allocate_fail h a bytes k h' hal

/-- allocate-then-free (grow, both pointer assignments): if the allocation throws, the pointer still is
    what it was and still owns its block — nothing is freed twice later, nothing leaks -/
theorem reallocate_strong (h : Heap) (hw : h.WF) (c : ACfg) (unit newAlloc units : Nat) (p : Ptr) (hp : Owns h c unit p)
    (hthrow : (p.reallocate h c unit newAlloc units).2.2 = false) :
    (p.reallocate h c unit newAlloc units).2.1 = p ∧ (p.reallocate h c unit newAlloc units).1.live = h.live ∧
    (p.reallocate h c unit newAlloc units).1.errs = h.errs := by
  rcases reallocate_spec h hw c unit newAlloc units p hp with ⟨h1, _⟩ | ⟨_, h2, h3, h4⟩
  · rw [hthrow] at h1; exact absurd h1 (by simp)
  · exact ⟨h4, h3, h2⟩

/-- the owning pointer's copy assignment under a throwing allocator: block and size are untouched, the
    ledger is untouched, no error (the former code kept the already freed pointer: double free) -/
theorem copy_assign_fault (h : Heap) (hw : h.WF) (c : ACfg) (unit : Nat) (p o : Ptr) (hp : Owns h c unit p)
    (hthrow : (p.copyAssign h c unit o).2.2 = false) :
    (p.copyAssign h c unit o).1.errs = h.errs ∧ (p.copyAssign h c unit o).1.live = h.live ∧
    (p.copyAssign h c unit o).2.1.blk = p.blk ∧ (p.copyAssign h c unit o).2.1.units = p.units := by
  obtain ⟨he, hr⟩ := copyAssign_spec h hw c unit p o hp
  rcases hr with ⟨h1, _⟩ | ⟨_, h2, h3, h4⟩
  · rw [hthrow] at h1; exact absurd h1 (by simp)
  · exact ⟨he, h2, h3, h4⟩

theorem filter_fresh (l : List Blk) (s : Nat) (b : Blk) (hb : b.serial = s) (hl : ∀ x ∈ l, x.serial < s) :
    (b :: l).filter (fun x => x.serial != s) = l := by
  simp only [List.filter_cons, hb, bne_self_eq_false, Bool.false_eq_true, if_false]
  apply List.filter_eq_self.mpr
  intro x hx
  have := hl x hx
  simp; omega

/-- a data block plus offset table: when either allocation throws the ledger is exactly as before — the
    data block allocated first is returned when the offset table throws -/
theorem allocPair_fault (h : Heap) (hw : h.WF) (c : ACfg) (fixedLoc : Bool) (units unit alloc cap : Nat) (h' : Heap)
    (hf : allocPair h c fixedLoc units unit alloc cap = (h', none)) :
    h'.live = h.live ∧ h'.errs = h.errs := by
  unfold allocPair at hf
  cases hm : Ptr.make h units unit alloc with
  | mk h1 r =>
    rw [hm] at hf
    cases r with
    | none =>
      simp only [Prod.mk.injEq, and_true] at hf
      subst hf
      simp only [Ptr.make] at hm
      split at hm <;> simp at hm
      rename_i hal
      obtain ⟨rfl⟩ := hm
      obtain ⟨e1, e2, _⟩ := allocate_fail _ _ _ _ _ hal
      exact ⟨e1, e2⟩
    | some p =>
      obtain ⟨hown, hwf, herr, _, _, hblk⟩ := make_owns h hw c units unit alloc h1 p hm
      simp only at hf
      cases ht : allocTable h1 fixedLoc alloc cap with
      | mk h2 t =>
        rw [ht] at hf
        cases t with
        | some t' => simp at hf
        | none =>
          simp only [Prod.mk.injEq, and_true] at hf
          subst hf
          unfold allocTable at ht
          split at ht
          · simp at ht
          · split at ht <;> simp at ht
            rename_i hal
            obtain ⟨rfl⟩ := ht
            obtain ⟨e1, e2, e3⟩ := allocate_fail _ _ _ _ _ hal
            have hown2 : Owns h2 c unit p := by unfold Owns at hown ⊢; rw [e1]; exact hown
            have hwf2 : h2.WF := by unfold Heap.WF at hwf ⊢; rw [e1, e3]; exact hwf
            obtain ⟨d1, _, _⟩ := dealloc_owned h2 hwf2 c unit p hown2
            refine ⟨?_, by rw [d1, e2, herr]⟩
            simp only [Ptr.make] at hm
            split at hm <;> simp at hm
            rename_i s hal1
            obtain ⟨rfl, rfl⟩ := hm
            obtain ⟨hs, _, hlive, _⟩ := allocate_spec h hw _ _ _ _ s hal1
            have hfind : h2.find s = some ⟨s, alloc, units * unit, .data⟩ := by
              apply Heap.find_of_mem h2 hwf2 ⟨s, alloc, _, .data⟩
              rw [e1, hlive]; simp
            simp only [Ptr.dealloc, Heap.deallocate, hfind, e1, hlive]
            exact filter_fresh h.live s _ rfl (fun x hx => by rw [hs]; exact hw.1 x hx)

/-- construction with a throwing allocator: no vector comes into being and the ledger is as before -/
theorem construction_fault (w : World) (k : Nat) (ps : List Param) (fs : List Nat) (cap bytes alloc : Nat)
    (hw : w.heap.WF) (hthrow : (w.new k ps fs cap bytes alloc).threw = true) :
    (w.new k ps fs cap bytes alloc).vecs = w.vecs ∧ (w.new k ps fs cap bytes alloc).heap.live = w.heap.live ∧
    (w.new k ps fs cap bytes alloc).heap.errs = w.heap.errs := by
  unfold World.new at hthrow ⊢
  simp only at hthrow ⊢
  cases hp : allocPair w.heap w.acfg (Vec.new ps fs cap bytes w.junk).fixedLoc (Vec.new ps fs cap bytes w.junk).units
      (Vec.new ps fs cap bytes w.junk).S alloc cap with
  | mk h1 r =>
    rw [hp] at hthrow
    cases r with
    | none =>
      obtain ⟨e1, e2⟩ := allocPair_fault _ hw _ _ _ _ _ _ _ hp
      exact ⟨rfl, e1, e2⟩
    | some pt => obtain ⟨p, t⟩ := pt; simp at hthrow

/-- `reserve` with a throwing allocator leaves the vector and the ledger completely unchanged -/
theorem reserve_fault_unchanged (w : World) (k n b : Nat) (hw : w.heap.WF) (hthrow : (w.reserve k n b).threw = true)
    (hprev : w.threw = false) :
    (w.reserve k n b).vecs = w.vecs ∧ (w.reserve k n b).heap.live = w.heap.live ∧ (w.reserve k n b).heap.errs = w.heap.errs := by
  unfold World.reserve at hthrow ⊢
  cases hv : w.vecs k with
  | none => simp only [hv] at hthrow; rw [hprev] at hthrow; exact absurd hthrow (by simp)
  | some v =>
    simp only [hv] at hthrow ⊢
    by_cases hc : v.cap < n
    · simp only [hc, if_true] at hthrow ⊢
      cases hp : allocPair w.heap w.acfg v.fixedLoc (v.reserve n b w.junk).units v.S v.alloc n with
      | mk h1 r =>
        rw [hp] at hthrow
        cases r with
        | none =>
          obtain ⟨e1, e2⟩ := allocPair_fault _ hw _ _ _ _ _ _ _ hp
          exact ⟨rfl, e1, e2⟩
        | some pt => obtain ⟨p, t⟩ := pt; simp at hthrow
    · simp only [hc, if_false] at hthrow; exact absurd hthrow (by simp)

/-- copy construction with a throwing allocator leaves the source, every other vector and the ledger unchanged -/
theorem copy_fault_unchanged (w : World) (s d : Nat) (hw : w.heap.WF) (hthrow : (w.copy s d).threw = true)
    (hprev : w.threw = false) :
    (w.copy s d).vecs = w.vecs ∧ (w.copy s d).heap.live = w.heap.live ∧ (w.copy s d).heap.errs = w.heap.errs := by
  unfold World.copy at hthrow ⊢
  cases hv : w.vecs s with
  | none => simp only [hv] at hthrow; rw [hprev] at hthrow; exact absurd hthrow (by simp)
  | some v =>
    simp only [hv] at hthrow ⊢
    cases hp : allocPair w.heap w.acfg v.fixedLoc v.units v.S (socc v.alloc) v.cap with
    | mk h1 r =>
      rw [hp] at hthrow
      cases r with
      | none =>
        obtain ⟨e1, e2⟩ := allocPair_fault _ hw _ _ _ _ _ _ _ hp
        exact ⟨rfl, e1, e2⟩
      | some pt => obtain ⟨p, t⟩ := pt; simp at hthrow

theorem allocTable_fault (h : Heap) (fixedLoc : Bool) (alloc cap : Nat) (h' : Heap)
    (hf : allocTable h fixedLoc alloc cap = (h', none)) : h'.live = h.live ∧ h'.errs = h.errs ∧ h'.next = h.next := by
  unfold allocTable at hf
  split at hf
  · simp at hf
  · split at hf <;> simp at hf
    rename_i hal
    obtain ⟨rfl⟩ := hf
    exact allocate_fail _ _ _ _ _ hal

/-- move assignment with a throwing allocator (only the element-wise branch allocates): both vectors, every other vector
    and the ledger are exactly as before -/
theorem move_assign_fault_unchanged (w : World) (s d : Nat) (hw : w.heap.WF) (hthrow : (w.moveAssign s d).threw = true)
    (hprev : w.threw = false) :
    (w.moveAssign s d).vecs = w.vecs ∧ (w.moveAssign s d).heap.live = w.heap.live ∧ (w.moveAssign s d).heap.errs = w.heap.errs := by
  unfold World.moveAssign at hthrow ⊢
  by_cases hsd : s = d
  · simp only [hsd, if_true] at hthrow; exact absurd hthrow (by simp)
  · simp only [hsd, if_false] at hthrow ⊢
    cases hvs : w.vecs s with
    | none => simp only [hvs] at hthrow; rw [hprev] at hthrow; exact absurd hthrow (by simp)
    | some vs =>
      cases hvd : w.vecs d with
      | none => simp only [hvs, hvd] at hthrow; rw [hprev] at hthrow; exact absurd hthrow (by simp)
      | some vd =>
        simp only [hvs, hvd] at hthrow ⊢
        by_cases hsteal : (w.acfg.ae || w.acfg.pocma || w.acfg.eq vd.alloc vs.alloc) = true
        · simp only [hsteal, if_true] at hthrow; exact absurd hthrow (by simp)
        · simp only [hsteal, if_false] at hthrow ⊢
          by_cases hb : vs.bytes > vd.bytes
          · simp only [hb, if_true] at hthrow ⊢
            cases hp : allocPair w.heap w.acfg vd.fixedLoc vs.bytes vd.S vd.alloc vs.cap with
            | mk h1 r =>
              rw [hp] at hthrow
              cases r with
              | none =>
                obtain ⟨e1, e2⟩ := allocPair_fault _ hw _ _ _ _ _ _ _ hp
                exact ⟨rfl, e1, e2⟩
              | some pt => obtain ⟨p, t⟩ := pt; simp at hthrow
          · simp only [hb, if_false] at hthrow ⊢
            cases hp : allocTable w.heap vd.fixedLoc vd.alloc vs.cap with
            | mk h1 r =>
              rw [hp] at hthrow
              cases r with
              | none =>
                obtain ⟨e1, e2, _⟩ := allocTable_fault _ _ _ _ _ hp
                exact ⟨rfl, e1, e2⟩
              | some t => simp at hthrow

/-- copy assignment with a throwing allocator (basic guarantee, as documented by the repair `9d9da98`): the source and
    every other vector are unchanged; the target is a valid EMPTY vector that still owns a block of the recorded size (when the
    offset table could not be allocated: in the new block, with capacity 0 until the next reserve); no
    ledger error, and when the data block allocation itself threw, the ledger is exactly as before -/
theorem copy_assign_fault_world (w : World) (s d : Nat) (vs vd : Vec) (hw : w.heap.WF)
    (hvs : w.vecs s = some vs) (hvd : w.vecs d = some vd) (hsd : s ≠ d)
    (hown : Owns w.heap w.acfg vd.S vd.ptr) (hthrow : (w.copyAssign s d).threw = true) :
    (w.copyAssign s d).vecs s = some vs ∧ (∀ k, k ≠ d → (w.copyAssign s d).vecs k = w.vecs k) ∧
    (∃ vd', (w.copyAssign s d).vecs d = some vd' ∧ vd'.size = 0 ∧ vd'.fs = vd.fs ∧
      (vd'.cap = vd.cap ∧ vd'.ptr.blk = vd.ptr.blk ∧ vd'.ptr.units = vd.ptr.units ∧ (w.copyAssign s d).heap.live = w.heap.live ∨
       vd'.cap = 0 ∧ Owns (w.copyAssign s d).heap w.acfg vd.S vd'.ptr)) ∧
    (w.copyAssign s d).heap.errs = w.heap.errs := by
  have hclear_ptr : vd.clear.ptr = vd.ptr := rfl
  have hsize0 : ∀ (p : Ptr), (vd.clear.setPtr p).size = 0 := by
    intro p
    simp only [Vec.setPtr, Vec.clear, Vec.size, Vec.fixedLoc, Loc.resize]
    split <;> simp_all
  unfold World.copyAssign at hthrow ⊢
  simp only [hsd, if_false, hvs, hvd] at hthrow ⊢
  have hspec := copyAssign_spec w.heap hw w.acfg vd.S vd.clear.ptr vs.ptr (hclear_ptr ▸ hown)
  cases hc : vd.clear.ptr.copyAssign w.heap w.acfg vd.S vs.ptr with
  | mk h1 r =>
    obtain ⟨p1, okc⟩ := r
    rw [hc] at hthrow hspec
    simp only at hspec
    obtain ⟨herr, hcases⟩ := hspec
    cases okc with
    | false =>
      simp only [World.set]
      rcases hcases with ⟨hbad, _⟩ | ⟨_, hlive, hblk, hunits⟩
      · exact absurd hbad (by simp)
      · refine ⟨by simp [hsd, hvs], fun k hk => by simp [hk], ⟨vd.clear.setPtr p1, by simp, hsize0 p1, rfl, Or.inl ⟨rfl, ?_, ?_, hlive⟩⟩, herr⟩
        · simpa [Vec.ptr, Vec.setPtr, Vec.clear] using hblk
        · simpa [Vec.ptr, Vec.setPtr, Vec.clear] using hunits
    | true =>
      simp only at hthrow ⊢
      rcases hcases with ⟨_, hwf1, hown1, _⟩ | ⟨hbad, _⟩
      · cases ht : allocTable h1 vd.fixedLoc p1.alloc vs.cap with
        | mk h2 t =>
          rw [ht] at hthrow
          cases t with
          | some t' => simp at hthrow
          | none =>
            obtain ⟨e1, e2, _⟩ := allocTable_fault _ _ _ _ _ ht
            simp only [World.set]
            refine ⟨by simp [hsd, hvs], fun k hk => by simp [hk], ⟨{ (vd.clear.setPtr p1) with cap := 0 }, by simp, hsize0 p1, rfl, Or.inr ⟨rfl, ?_⟩⟩, by rw [e2, herr]⟩
            have : ({ (vd.clear.setPtr p1) with cap := 0 } : Vec).ptr = p1 := by cases p1; rfl
            rw [this]
            unfold Owns at hown1 ⊢
            rw [e1]; exact hown1
      · exact absurd hbad (by simp)

/-- **every history over any number of vectors in which any allocation may throw**, the caller catching `bad_alloc` and going
    on: every vector keeps representing a plain sequence — a failed construction, reserve-less in-place operation, copy
    construction, move assignment or swap has changed nothing, a failed copy assignment has emptied its target — and all
    later operations behave as on those sequences (no live object clobbered, no bookkeeping left half-updated) -/
theorem history_with_allocation_failures (ps : List Param) (hl : ListOK ps) (ops : List WOp) (w : World) (A : Nat → Option AVec)
    (h0 : w.threw = false) (h : WInv ps w A) (hv : WValidF ps w A ops) :
    WInv ps (wrunF ps w ops) (arunF ps w A ops) :=
  history_refines_with_failures ps hl ops w A h0 h hv

/-- one failing step: the abstract map is unchanged (copy assignment: the target is emptied) -/
theorem failed_step (ps : List Param) (hl : ListOK ps) (w : World) (A : Nat → Option AVec) (h : WInv ps w A) (op : WOp)
    (hpre : op.Pre ps w A) (hprev : w.threw = false) (hthrow : (op.apply ps w).threw = true) :
    WInv ps (op.apply ps w) (op.aspecFail A) :=
  step_refines_fail ps hl w A h op hpre hprev hthrow


/-! ### construction and assignment of a ContiguousElement under a throwing allocator -/

theorem make_fail (h : Heap) (units unit alloc : Nat) (h' : Heap) (hm : Ptr.make h units unit alloc = (h', none)) :
    h'.live = h.live ∧ h'.errs = h.errs := by
  simp only [Ptr.make] at hm
  split at hm <;> simp at hm
  rename_i hal
  obtain ⟨rfl⟩ := hm
  obtain ⟨e1, e2, _⟩ := allocate_fail _ _ _ _ _ hal
  exact ⟨e1, e2⟩

/-- what a failed element operation may have changed: nothing — the elements (values, sizes, blocks), the vectors and
    the ledger are as before -/
def ElemUntouched (ew ew' : EWorld) : Prop :=
  ew'.elems = ew.elems ∧ ew'.w.vecs = ew.w.vecs ∧ ew'.w.heap.live = ew.w.heap.live ∧ ew'.w.heap.errs = ew.w.heap.errs

/-- an element constructed from a reference (const, lvalue, or rvalue: `mv`): when the allocation throws no element
    comes into being and the referenced vector element has not been moved from -/
theorem element_from_reference_fault (ew : EWorld) (ps : List Param) (k s i alloc : Nat) (mv : Bool)
    (hthrow : (ew.elemFromRef ps k s i alloc mv).w.threw = true) (hprev : ew.w.threw = false) :
    ElemUntouched ew (ew.elemFromRef ps k s i alloc mv) := by
  unfold EWorld.elemFromRef at hthrow ⊢
  cases hv : (ew.w.vecs s).bind (fun v => (v.get i).map (fun e => (v, e))) with
  | none => rw [hv] at hthrow; simp only at hthrow; rw [hprev] at hthrow; exact absurd hthrow (by simp)
  | some ve =>
    obtain ⟨v, e⟩ := ve
    rw [hv] at hthrow
    simp only at hthrow ⊢
    cases hm : Ptr.make ew.w.heap (units (elemBytes ps e) (storageAl ps)) (storageAl ps) alloc with
    | mk h1 r =>
      rw [hm] at hthrow
      cases r with
      | some p => simp at hthrow
      | none =>
        obtain ⟨e1, e2⟩ := make_fail _ _ _ _ _ hm
        exact ⟨rfl, rfl, e1, e2⟩

/-- copy construction of an element (plain and allocator-extended) -/
theorem element_copy_fault (ew : EWorld) (ps : List Param) (a b : Nat) (hprev : ew.w.threw = false)
    (hthrow : (ew.elemCopy ps a b).w.threw = true) : ElemUntouched ew (ew.elemCopy ps a b) := by
  unfold EWorld.elemCopy at hthrow ⊢
  split at hthrow
  · rw [hprev] at hthrow; exact absurd hthrow (by simp)
  · split at hthrow
    · rename_i hm
      simp only [hm]
      obtain ⟨e1, e2⟩ := make_fail _ _ _ _ _ hm
      exact ⟨rfl, rfl, e1, e2⟩
    · simp at hthrow

theorem element_copy_alloc_fault (ew : EWorld) (ps : List Param) (a b alloc : Nat) (hprev : ew.w.threw = false)
    (hthrow : (ew.elemCopyA ps a b alloc).w.threw = true) : ElemUntouched ew (ew.elemCopyA ps a b alloc) := by
  unfold EWorld.elemCopyA at hthrow ⊢
  split at hthrow
  · rw [hprev] at hthrow; exact absurd hthrow (by simp)
  · split at hthrow
    · rename_i hm
      simp only [hm]
      obtain ⟨e1, e2⟩ := make_fail _ _ _ _ _ hm
      exact ⟨rfl, rfl, e1, e2⟩
    · simp at hthrow

/-- allocator-extended move construction: only the branch for unequal allocators allocates; when that throws the source
    still holds its values and its block (the constructor is `noexcept` only for always-equal allocators) -/
theorem element_move_alloc_fault (ew : EWorld) (ps : List Param) (a b alloc : Nat) (hprev : ew.w.threw = false)
    (hthrow : (ew.elemMoveA ps a b alloc).w.threw = true) :
    ElemUntouched ew (ew.elemMoveA ps a b alloc) ∧
    ∃ ea, ew.elems a = some ea ∧ ew.w.acfg.eq alloc ea.ptr.alloc = false := by
  unfold EWorld.elemMoveA at hthrow ⊢
  split at hthrow
  · rw [hprev] at hthrow; exact absurd hthrow (by simp)
  · rename_i ea hea
    split at hthrow
    · simp at hthrow
    · rename_i hne
      split at hthrow
      · rename_i hm
        simp only [hne, hm]
        obtain ⟨e1, e2⟩ := make_fail _ _ _ _ _ hm
        exact ⟨⟨rfl, rfl, e1, e2⟩, ea, hea, by simpa using hne⟩
      · simp at hthrow

/-- the plain move constructor and `swap` never allocate, so they never throw -/
theorem element_move_swap_nothrow (ew : EWorld) (a b : Nat) (hprev : ew.w.threw = false) :
    (ew.elemMove a b).w.threw = false ∧ (ew.elemSwap a b).w.threw = false := by
  refine ⟨?_, ?_⟩
  · unfold EWorld.elemMove; split <;> simp [hprev]
  · unfold EWorld.elemSwap; repeat' (first | rfl | exact hprev | split)

/-- copy assignment of an element with a throwing allocator (lists with a VaryingSize parameter, or propagating unequal
    allocators): the target still holds its former values in its former block — its fields are destroyed only after the
    allocation (the former code destroyed them first and destroyed them again in the destructor) — and the source, the
    vectors and the ledger are untouched -/
theorem element_copy_assign_fault (ew : EWorld) (ps : List Param) (a b : Nat) (ea eb : ElemSt)
    (ha : ew.elems a = some ea) (hb : ew.elems b = some eb) (hw : ew.w.heap.WF)
    (hown : Owns ew.w.heap ew.w.acfg (storageAl ps) eb.ptr) (hprev : ew.w.threw = false)
    (hthrow : (ew.elemAssign ps a b).w.threw = true) :
    let ew' := ew.elemAssign ps a b
    (∃ eb', ew'.elems b = some eb' ∧ eb'.val = eb.val ∧ eb'.bytes = eb.bytes ∧ eb'.ptr.blk = eb.ptr.blk ∧ eb'.ptr.units = eb.ptr.units) ∧
    (∀ k, k ≠ b → ew'.elems k = ew.elems k) ∧ ew'.w.vecs = ew.w.vecs ∧ ew'.w.heap.live = ew.w.heap.live ∧
    ew'.w.heap.errs = ew.w.heap.errs := by
  intro ew'
  have hdef : ew' = ew.elemAssign ps a b := rfl
  unfold EWorld.elemAssign at hdef hthrow
  by_cases hab : a = b
  · simp only [hab, if_true] at hthrow; simp at hthrow
  · simp only [hab, if_false, ha, hb] at hdef hthrow
    split at hthrow
    · simp at hthrow
    · rename_i hbr
      simp only [hbr, Bool.false_eq_true, if_false] at hdef
      have hspec := copyAssign_spec ew.w.heap hw ew.w.acfg (storageAl ps) eb.ptr ea.ptr hown
      cases hr : eb.ptr.copyAssign ew.w.heap ew.w.acfg (storageAl ps) ea.ptr with
      | mk h1 r2 =>
        cases r2 with
        | mk p1 ok =>
          rw [hr] at hspec hthrow hdef
          cases ok with
          | true => simp at hthrow
          | false =>
            simp only at hdef
            obtain ⟨he, hor⟩ := hspec
            rcases hor with ⟨h1', _⟩ | ⟨_, h2, h3, h4⟩
            · simp at h1'
            · rw [hdef]
              refine ⟨⟨{ eb with ptr := p1 }, by simp [EWorld.setE], rfl, rfl, h3, h4⟩, ?_, rfl, h2, he⟩
              intro k hk
              simp [EWorld.setE, hk]


/-- one failing element operation: whatever the operation and whatever the state (any history before it), the elements
    afterwards represent exactly what they represented before — no value lost, none duplicated, each live element still in
    a block of its own (the statement of `EInv.step` for the throwing case) -/
theorem element_failed_step (ps : List Param) (hl : ListOK ps) (ew : EWorld) (A : Nat → Option AElem) (h : EInv ps ew.elems A)
    (op : EOp) (hpre : op.Pre ps ew A) (hprev : ew.w.threw = false) (hthrow : (op.apply ps ew).w.threw = true) :
    EInv ps (op.apply ps ew).elems A := by
  have := EInv.step ps (storage_pos hl) ew A h op hpre hprev
  rw [hthrow] at this
  simpa using this

/-- histories of element operations in which any allocation may throw and the caller goes on: see
    `C12.history_of_element_operations`; here for the record that `earun` leaves the abstract map unchanged at every
    throwing step -/
theorem element_history_with_allocation_failures (ps : List Param) (hl : ListOK ps) (ops : List EOp) (ew : EWorld)
    (A : Nat → Option AElem) (h0 : ew.w.threw = false) (h : EInv ps ew.elems A) (hv : EValid ps ew A ops) :
    EInv ps (erun ps ew ops).elems (earun ps ew A ops) :=
  EInv.history ps (storage_pos hl) ops ew A h0 h hv

theorem earun_failed_step (ps : List Param) (ew : EWorld) (A : Nat → Option AElem) (op : EOp) (ops : List EOp)
    (hthrow : (op.apply ps ew).w.threw = true) :
    earun ps ew A (op :: ops) = earun ps { (op.apply ps ew) with w := { (op.apply ps ew).w with threw := false } } A ops := by
  simp [earun, hthrow]

end Cntgs.C17
