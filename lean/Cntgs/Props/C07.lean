/-
C07 — all memory comes from the allocator and is returned to it exactly once.
Pointer-level theorems (every vector and element reaches the ledger only through `Ptr`), plus the
world-level statement with its counter-witness for the offset table (known finding).
-/
import Cntgs.AllocProofs
import Cntgs.World
import Cntgs.OwnProofs
import Cntgs.ElemOwnProofs
namespace Cntgs.C07

/-- every block is obtained from the allocator with the recorded size; the new pointer owns it -/
theorem allocation_recorded (h : Heap) (hw : h.WF) (c : ACfg) (units unit a : Nat) (h' : Heap) (p : Ptr)
    (hm : Ptr.make h units unit a = (h', some p)) :
    Owns h' c unit p ∧ h'.WF ∧ h'.errs = h.errs ∧ p.alloc = a ∧ p.units = units :=
  let ⟨h1, h2, h3, h4, h5, _⟩ := make_owns h hw c units unit a h' p hm
  ⟨h1, h2, h3, h4, h5⟩

/-- a block is returned with the size it was requested with, through an allocator equal to the one that
    allocated it, and exactly once: deallocation raises no ledger error (no double free, wrong size or
    foreign allocator) and removes exactly that block -/
theorem release_exact (h : Heap) (hw : h.WF) (c : ACfg) (unit : Nat) (p : Ptr) (ho : Owns h c unit p) :
    (p.dealloc h c unit).errs = h.errs ∧ (p.dealloc h c unit).WF ∧
    (∀ b, b ∈ (p.dealloc h c unit).live ↔ b ∈ h.live ∧ some b.serial ≠ p.blk) :=
  dealloc_owned h hw c unit p ho

/-- reallocation on grow / assignment: new block owned, old block returned correctly, or nothing changed -/
theorem reallocation_clean (h : Heap) (hw : h.WF) (c : ACfg) (unit newAlloc units : Nat) (p : Ptr) (hp : Owns h c unit p) :
    let r := p.reallocate h c unit newAlloc units
    (r.2.2 = true ∧ r.1.errs = h.errs ∧ r.1.WF ∧ Owns r.1 c unit r.2.1 ∧ r.2.1.alloc = newAlloc ∧ r.2.1.units = units) ∨
    (r.2.2 = false ∧ r.1.errs = h.errs ∧ r.1.live = h.live ∧ r.2.1 = p) :=
  reallocate_spec h hw c unit newAlloc units p hp

/-- copy and move assignment never produce a ledger error, for every combination of the propagation traits,
    `is_always_equal`, equal and unequal allocators, target smaller or larger -/
theorem assignment_clean (h : Heap) (hw : h.WF) (c : ACfg) (unit : Nat) (p o : Ptr) (hp : Owns h c unit p) :
    (p.copyAssign h c unit o).1.errs = h.errs ∧ (p.moveAssign h c unit o).1.errs = h.errs :=
  ⟨(copyAssign_spec h hw c unit p o hp).1, (moveAssign_spec h hw c unit p o hp).1⟩

/-- destruction returns the data block of a vector: no data block of it remains -/
theorem destroy_returns_data_block (w : World) (k : Nat) (v : Vec) (hv : w.vecs k = some v) (hw : w.heap.WF)
    (ho : Owns w.heap w.acfg v.S v.ptr) :
    (w.destroy k).heap.errs = w.heap.errs ∧ ∀ b ∈ (w.destroy k).heap.live, some b.serial ≠ v.blk := by
  simp only [World.destroy, hv]
  obtain ⟨h1, _, h3⟩ := dealloc_owned w.heap hw w.acfg v.S v.ptr ho
  exact ⟨h1, fun b hb => ((h3 b).mp hb).2⟩

/-- **full statement (false for the code as it is)**: after all containers are destroyed nothing remains
    allocated. Counter-witness: one vector with a VaryingSize parameter, constructed and destroyed — its
    offset table stays allocated (known finding KF-C07-offset-table-leak; replayed on the real code by the
    check, which prints it as KNOWN-FINDING). `no_leak_partial` is what holds: no *data* block remains. -/
def NoLeak (w : World) : Prop := w.heap.live = []

def witnessList : List Param := [⟨.plain, 4, 1, {}⟩, ⟨.varying, 4, 1, {}⟩]

theorem no_leak_counter_witness_kinds :
    ((({} : World).new 0 witnessList [0, 0] 2 16 1).destroy 0).heap.live.map (·.kind) = [.table] := by
  decide +kernel

theorem no_leak_counter_witness : ¬ NoLeak ((({} : World).new 0 witnessList [0, 0] 2 16 1).destroy 0) := by
  intro h
  have := no_leak_counter_witness_kinds
  unfold NoLeak at h
  rw [h] at this
  exact absurd this (by simp)

theorem no_leak_partial (w : World) (k : Nat) (v : Vec) (hv : w.vecs k = some v) (hw : w.heap.WF)
    (ho : Owns w.heap w.acfg v.S v.ptr) (honly : ∀ b ∈ w.heap.live, b.kind = .data → some b.serial = v.blk) :
    ∀ b ∈ (w.destroy k).heap.live, b.kind ≠ .data := by
  intro b hb hk
  simp only [World.destroy, hv] at hb
  obtain ⟨_, _, h3⟩ := dealloc_owned w.heap hw w.acfg v.S v.ptr ho
  obtain ⟨hm, hne⟩ := (h3 b).mp hb
  exact hne (honly b hm hk)

/-- **the property for the data blocks, on whole histories**: starting from nothing, after ANY history of constructions,
    in-place operations, reserves, copy/move constructions, copy/move assignments, swaps and destructions over any number
    of vectors — whichever allocations throw — the ledger has recorded no double free, no free with a wrong size and no
    free through an unequal allocator; every live data block is owned by exactly one vector; once every vector is
    destroyed no data block is live.  (What stays live then are offset tables: `no_leak_counter_witness`, known finding.) -/
theorem data_blocks_returned_exactly_once (c : ACfg) (ops : List OOp) (hv : OValid ({ acfg := c } : World) ops) :
    let w := ops.foldl OOp.apply ({ acfg := c } : World)
    w.heap.errs = [] ∧
    (∀ b ∈ w.heap.live, b.kind = .data → ∃ k v, w.vecs k = some v ∧ v.blk = some b.serial) ∧
    ((∀ k, w.vecs k = none) → ∀ b ∈ w.heap.live, b.kind = .table) :=
  no_leak_no_error c ops hv

/-- in every reachable state every vector owns a live block of exactly its recorded size from an allocator equal to its
    own, and no block has two owners -/
theorem ownership_invariant (c : ACfg) (ops : List OOp) (hv : OValid ({ acfg := c } : World) ops) :
    WOwn (ops.foldl OOp.apply ({ acfg := c } : World)) :=
  (WOwn.init c).history ops hv


/-- **vectors and standalone elements together, on whole histories**: starting from nothing, after ANY history that mixes
    the operations on vectors with the constructions (from references, copies, allocator-extended copies and moves), both
    assignments on all their branches, swaps and destructions of ContiguousElements — whichever allocations throw — no
    ledger error has occurred (no double free, no free with a wrong size, no free through an unequal allocator); every
    vector and every element owns a live block of exactly its recorded size from an allocator equal to its own; every live
    data block is owned by a vector or by an element, and no block has two owners. -/
theorem vectors_and_elements_ownership (ps : List Param) (c : ACfg) (ops : List JOp)
    (hv : JValid ps ({ w := { acfg := c } } : EWorld) ops) :
    let ew := ops.foldl (JOp.apply ps) ({ w := { acfg := c } } : EWorld)
    ew.w.heap.errs = [] ∧ ew.w.heap.WF ∧
    (∀ k v, ew.w.vecs k = some v → Owns ew.w.heap ew.w.acfg v.S v.ptr) ∧
    (∀ k e, ew.elems k = some e → Owns ew.w.heap ew.w.acfg (storageAl ps) e.ptr) ∧
    (∀ b ∈ ew.w.heap.live, b.kind = .data →
      (∃ k v, ew.w.vecs k = some v ∧ v.blk = some b.serial) ∨ (∃ k e, ew.elems k = some e ∧ e.ptr.blk = some b.serial)) ∧
    (∀ k v j e s, ew.w.vecs k = some v → ew.elems j = some e → v.blk = some s → e.ptr.blk ≠ some s) ∧
    (∀ j1 j2 e1 e2 s, ew.elems j1 = some e1 → ew.elems j2 = some e2 → e1.ptr.blk = some s → e2.ptr.blk = some s → j1 = j2) :=
  ((EOwn.init ps c).history ops hv).unfold

/-- … and once every vector and every element has been destroyed, no data block is live -/
theorem nothing_left_behind (ps : List Param) (c : ACfg) (ops : List JOp)
    (hv : JValid ps ({ w := { acfg := c } } : EWorld) ops)
    (hnov : ∀ k, (ops.foldl (JOp.apply ps) ({ w := { acfg := c } } : EWorld)).w.vecs k = none)
    (hnoe : ∀ k, (ops.foldl (JOp.apply ps) ({ w := { acfg := c } } : EWorld)).elems k = none) :
    ∀ b ∈ (ops.foldl (JOp.apply ps) ({ w := { acfg := c } } : EWorld)).w.heap.live, b.kind = .table := by
  intro b hb
  have h := ((EOwn.init ps c).history ops hv).unfold
  cases hk : b.kind with
  | table => rfl
  | data =>
    rcases h.2.2.2.2.1 b hb hk with ⟨k, v, hkv, _⟩ | ⟨k, e, hke, _⟩
    · rw [hnov k] at hkv; exact absurd hkv (by simp)
    · rw [hnoe k] at hke; exact absurd hke (by simp)

/-- non-vacuity: a vector, an element constructed from it, a copy of the element with another allocator, an assignment
    and the destructions form a valid mixed history -/
example :
    let ps : List Param := [⟨.plain, 4, 4, {}⟩]
    JValid ps ({ w := { acfg := {} } } : EWorld)
      [.vec (.new 0 ps [0] 2 0 1), .vec (.inplace 0 (.emplace [[7]])), .elem (.fromRef 0 0 0 1 false), .elem (.copyA 0 1 2),
       .elem (.assign 0 1), .elem (.destroy 0), .elem (.destroy 1), .vec (.destroy 0)] := by
  intro ps
  refine ⟨rfl, ?_⟩
  refine ⟨fun n b h => VOp.noConfusion h, ?_⟩
  refine ⟨rfl, ?_⟩
  refine ⟨rfl, ?_⟩
  exact ⟨trivial, trivial, trivial, trivial, trivial⟩

end Cntgs.C07
