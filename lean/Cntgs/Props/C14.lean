/-
C14 — relational operators are mutually consistent and depend only on content.
The model's comparison functions take the logical content (lists of object values) as their only input;
the correspondence check ties them to the real operators under different junk fillings of the memory.
-/
import Cntgs.CompareProofs
import Cntgs.FastPathProofs
namespace Cntgs.C14

/-- `a > b` is `b < a`, `a <= b` is `!(b < a)`, `a >= b` is `!(a < b)` — references and elements -/
theorem elem_operators (ps : List Param) (a b : Elem) :
    elemGt ps a b = elemLt ps b a ∧ elemLe ps a b = !elemLt ps b a ∧ elemGe ps a b = !elemLt ps a b :=
  ⟨rfl, rfl, rfl⟩

/-- the same for vectors -/
theorem vec_operators (ps : List Param) (fa fb : List Nat) (a b : List Elem) :
    vecGt ps fa fb a b = vecLt ps fb fa b a ∧ vecLe ps fa fb a b = !vecLt ps fb fa b a ∧ vecGe ps fa fb a b = !vecLt ps fa fb a b :=
  ⟨rfl, rfl, rfl⟩

/-- element `<` is irreflexive, asymmetric and transitive for every parameter list (memcmp runs and
    element-wise fields alike) and all contents: it is the conjunction of strict orders, a strict partial order -/
theorem elem_lt_strict (ps : List Param) :
    (∀ a, elemLt ps a a = false) ∧
    (∀ a b, elemLt ps a b = true → elemLt ps b a = false) ∧
    (∀ a b c, elemLt ps a b = true → elemLt ps b c = true → elemLt ps a c = true) :=
  ⟨elemLt_irrefl ps, elemLt_asymm ps, elemLt_trans ps⟩

/-- vector `<` is irreflexive and asymmetric on both code paths -/
theorem vec_lt_irrefl_asymm (ps : List Param) :
    (∀ f a, vecLt ps f f a a = false) ∧ (∀ fa fb a b, vecLt ps fa fb a b = true → vecLt ps fb fa b a = false) :=
  ⟨vecLt_irrefl ps, vecLt_asymm ps⟩

/-- on the whole-buffer (memcmp) path — vectors with the same fixed sizes — vector `<` is moreover transitive: a strict
    weak order -/
theorem vec_lt_trans_fastpath (ps : List Param) (f : List Nat)
    (hc : (ps.all (·.ty.lexMemcmp) && isFixedOrPlain ps && storageAl ps == 1) = true) (a b c : List Elem)
    (h1 : vecLt ps f f a b = true) (h2 : vecLt ps f f b c = true) : vecLt ps f f a c = true :=
  (vecLt_swo_fastpath ps f hc).trans h1 h2

/-- **full statement, FALSE for the code as it is**: transitivity of vector `<` on the element-wise path.
    `std::lexicographical_compare` over the strict *partial* element order (all fields must be less) is not
    transitive. Counter-witness on `ContiguousVector<int, int>`, replayed on the real code by the check
    (KNOWN-FINDING KF-C14-vector-lt-intransitive). The repair (a lexicographical element order) is rejected by
    the existing test "ContiguousVector of std::string comparison operators / greater with greater size",
    which requires `[(a,a),(a,a)] > [(b,a)]`. -/
def VecLtTransitive (ps : List Param) : Prop :=
  ∀ fa fb fc a b c, vecLt ps fa fb a b = true → vecLt ps fb fc b c = true → vecLt ps fa fc a c = true

def intInt : List Param := [⟨.plain, 4, 1, { lexMemcmp := false }⟩, ⟨.plain, 4, 1, { lexMemcmp := false }⟩]

theorem vec_lt_trans_counter_witness :
    vecLt intInt [] [] [[[1],[5]],[[1],[1]]] [[[2],[3]],[[2],[2]]] = true ∧
    vecLt intInt [] [] [[[2],[3]],[[2],[2]]] [[[3],[4]],[[0],[0]]] = true ∧
    vecLt intInt [] [] [[[1],[5]],[[1],[1]]] [[[3],[4]],[[0],[0]]] = false := by decide +kernel

theorem vec_lt_not_transitive : ¬ VecLtTransitive intInt := by
  intro h
  obtain ⟨h1, h2, h3⟩ := vec_lt_trans_counter_witness
  have := h _ _ _ _ _ _ h1 h2
  rw [h3] at this; exact absurd this (by simp)

/-- on the element-wise path vector `<` is by definition the lexicographical comparison of the element
    sequences under the element `<` -/
theorem vec_lt_is_lexicographical (ps : List Param) (fa fb : List Nat) (a b : List Elem)
    (h : (ps.all (·.ty.lexMemcmp) && isFixedOrPlain ps && storageAl ps == 1) = false ∨
         (fixedSizesOf ps fa == fixedSizesOf ps fb) = false) :
    vecLt ps fa fb a b = lexBy (elemLt ps) a b := by
  unfold vecLt seqLt
  rcases h with h | h <;> simp [h]

/-- … and on the whole-buffer (memcmp) path it is the same lexicographical comparison: comparing the bytes of the two
    blocks compares the element sequences under the element `<` (all elements of such a list have one common size `c`) -/
theorem vec_lt_fastpath_is_lexicographical (ps : List Param) (fa fb : List Nat) (a b : List Elem) (hne : ps ≠ [])
    (hcond : (ps.all (·.ty.lexMemcmp) && isFixedOrPlain ps && storageAl ps == 1 && fixedSizesOf ps fa == fixedSizesOf ps fb) = true)
    (hal : ∀ p ∈ ps, p.al ≤ 1) (c : Nat) (hc : 0 < c)
    (hsz : ∀ e ∈ a ++ b, (runBytes ps e 0 (ps.length - 1)).length = c) :
    vecLt ps fa fb a b = lexBy (elemLt ps) a b :=
  vecLt_fastpath_is_lexicographical ps fa fb a b hne hcond hal c hc hsz

/-- non-vacuity: `<FixedSize<uint8_t>, uint8_t>` with fixed size 2, elements of 3 bytes -/
example :
    let ps : List Param := [⟨.fixed, 1, 1, {}⟩, ⟨.plain, 1, 1, {}⟩]
    (ps.all (·.ty.lexMemcmp) && isFixedOrPlain ps && storageAl ps == 1 && fixedSizesOf ps [2, 0] == fixedSizesOf ps [2, 0]) = true ∧
    (∀ e ∈ [[[1, 2], [3]], [[1, 2], [4]]] ++ [[[1, 3], [0]]], (runBytes ps e 0 (ps.length - 1)).length = 3) := by
  decide +kernel


/-! ### signed integer types -/

/-- the value a signed integer type of `vb` bytes reads from the unsigned representation `v` (two's complement) -/
def toSigned (vb : Nat) (v : Nat) : Int := if v < 2 ^ (8 * vb - 1) then (v : Int) else (v : Int) - 2 ^ (8 * vb)

/-- `ordVal` is what the model compares for a signed type: it orders the representations exactly as `<` orders the
    signed values -/
theorem ordVal_signed_is_value_order (p : Param) (hs : p.ty.signed = true) (hvb : 0 < p.vb) (a b : Nat)
    (ha : a < 2 ^ (8 * p.vb)) (hb : b < 2 ^ (8 * p.vb)) :
    ordVal p a < ordVal p b ↔ toSigned p.vb a < toSigned p.vb b := by
  have hpow : 2 ^ (8 * p.vb) = 2 * 2 ^ (8 * p.vb - 1) := by
    have : 8 * p.vb = (8 * p.vb - 1) + 1 := by omega
    conv => lhs; rw [this, Nat.pow_succ]
    omega
  have hpowI : (2 : Int) ^ (8 * p.vb) = 2 * ((2 ^ (8 * p.vb - 1) : Nat) : Int) := by
    have := congrArg (fun n : Nat => (n : Int)) hpow
    simpa using this
  unfold ordVal toSigned
  simp only [hs, if_true]
  rw [hpowI]
  generalize 2 ^ (8 * p.vb - 1) = M at *
  rw [hpow] at ha hb ⊢
  by_cases h1 : a < M <;> by_cases h2 : b < M <;> simp only [h1, h2, if_true, if_false]
  · rw [Nat.mod_eq_of_lt (by omega), Nat.mod_eq_of_lt (by omega)]; omega
  · have e2 : (b + M) % (2 * M) = b - M := by
      rw [show b + M = (b - M) + 2 * M by omega, Nat.add_mod_right, Nat.mod_eq_of_lt (by omega)]
    rw [Nat.mod_eq_of_lt (by omega), e2]; omega
  · have e1 : (a + M) % (2 * M) = a - M := by
      rw [show a + M = (a - M) + 2 * M by omega, Nat.add_mod_right, Nat.mod_eq_of_lt (by omega)]
    rw [e1, Nat.mod_eq_of_lt (by omega)]; omega
  · have e1 : (a + M) % (2 * M) = a - M := by
      rw [show a + M = (a - M) + 2 * M by omega, Nat.add_mod_right, Nat.mod_eq_of_lt (by omega)]
    have e2 : (b + M) % (2 * M) = b - M := by
      rw [show b + M = (b - M) + 2 * M by omega, Nat.add_mod_right, Nat.mod_eq_of_lt (by omega)]
    rw [e1, e2]; omega

theorem ordVal_unsigned (p : Param) (hs : p.ty.signed = false) (v : Nat) : ordVal p v = v := by simp [ordVal, hs]

/-- why `signed char` must not be compared by `memcmp`: −56 < 1 as values, 200 > 1 as bytes; the element-wise path decides
    by value -/
example :
    let ps : List Param := [⟨.plain, 1, 1, { lexMemcmp := false, signed := true }⟩]
    vecLt ps [] [] [[[200]]] [[[1]]] = true ∧ lexLt (vecBytes ps [[[200]]]) (vecBytes ps [[[1]]]) = false := by decide +kernel

end Cntgs.C14
