/-
C14 — relational operators are mutually consistent and depend only on content.
The model's comparison functions take the logical content (lists of object values) as their only input;
the correspondence check ties them to the real operators under different junk fillings of the memory.
-/
import Cntgs.CompareProofs
namespace Cntgs.C14

/-- `a > b` is `b < a`, `a <= b` is `!(b < a)`, `a >= b` is `!(a < b)` — references and elements -/
theorem elem_operators (ps : List Param) (a b : Elem) :
    elemGt ps a b = elemLt ps b a ∧ elemLe ps a b = !elemLt ps b a ∧ elemGe ps a b = !elemLt ps a b :=
  ⟨rfl, rfl, rfl⟩

/-- the same for vectors -/
theorem vec_operators (ps : List Param) (a b : List Elem) :
    vecGt ps a b = vecLt ps b a ∧ vecLe ps a b = !vecLt ps b a ∧ vecGe ps a b = !vecLt ps a b :=
  ⟨rfl, rfl, rfl⟩

/-- element `<` is irreflexive, asymmetric and transitive for every parameter list (memcmp runs and
    element-wise fields alike) and all contents -/
theorem elem_lt_strict (ps : List Param) :
    (∀ a, elemLt ps a a = false) ∧
    (∀ a b, elemLt ps a b = true → elemLt ps b a = false) ∧
    (∀ a b c, elemLt ps a b = true → elemLt ps b c = true → elemLt ps a c = true) :=
  ⟨(elemLt_swo ps).irrefl, (elemLt_swo ps).asymm, fun _ _ _ h1 h2 => (elemLt_swo ps).trans h1 h2⟩

/-- vector `<` is irreflexive, asymmetric and transitive on both code paths (whole-buffer comparison and
    `std::lexicographical_compare` over the elements) -/
theorem vec_lt_strict (ps : List Param) :
    (∀ a, vecLt ps a a = false) ∧
    (∀ a b, vecLt ps a b = true → vecLt ps b a = false) ∧
    (∀ a b c, vecLt ps a b = true → vecLt ps b c = true → vecLt ps a c = true) :=
  ⟨(vecLt_swo ps).irrefl, (vecLt_swo ps).asymm, fun _ _ _ h1 h2 => (vecLt_swo ps).trans h1 h2⟩

/-- incomparability under element `<` is transitive (so `<` is a strict *weak* order, which is what makes
    the lexicographical comparison of element sequences transitive) -/
theorem elem_incomparable_trans (ps : List Param) (a b c : Elem)
    (h1 : elemLt ps a b = false) (h2 : elemLt ps b c = false) : elemLt ps a c = false :=
  (elemLt_swo ps).negtrans a b c h1 h2

/-- on the element-wise path vector `<` is by definition the lexicographical comparison of the element
    sequences under the element `<` -/
theorem vec_lt_is_lexicographical (ps : List Param) (a b : List Elem)
    (h : (ps.all (·.ty.lexMemcmp) && isFixedOrPlain ps && storageAl ps == 1) = false) :
    vecLt ps a b = lexBy (elemLt ps) a b := by
  unfold vecLt seqLt; simp [h]

/-- the former witness of intransitivity (`a=[(1,5),(1,1)] b=[(2,3),(2,2)] c=[(3,4),(0,0)]` on `<int,int>`)
    under the repaired, lexicographical element order -/
example :
    let ps : List Param := [⟨.plain, 4, 1, { lexMemcmp := false }⟩, ⟨.plain, 4, 1, { lexMemcmp := false }⟩]
    vecLt ps [[[1],[5]],[[1],[1]]] [[[2],[3]],[[2],[2]]] = true ∧
    vecLt ps [[[2],[3]],[[2],[2]]] [[[3],[4]],[[0],[0]]] = true ∧
    vecLt ps [[[1],[5]],[[1],[1]]] [[[3],[4]],[[0],[0]]] = true := by decide +kernel

end Cntgs.C14
