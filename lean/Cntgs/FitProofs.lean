/-
C02 for lists with a VaryingSize parameter: `calculate_element_size` over-approximates the extent of every element.

The size fold of the code (`szGo` / `sizeStep`) walks the parameter list with an *abstract* address: an offset inside an
alignment bracket `A` ("the real address is ≡ offset (mod A)"), adding worst-case padding whenever the bracket does not
determine the padding.  The theorems below relate that walk to the real greedy placement `goEnd` of an element with
arbitrary varying counts: the real extent is at most `size + varying bytes`, and the real extent rounded up to the
storage alignment is at most `stride + varying bytes`.
-/
import Cntgs.SizeProofs
import Cntgs.VectorProofs
namespace Cntgs

/-! ### arithmetic helpers -/

/-- congruence modulo `g`, without subtraction -/
def Cong (x y g : Nat) : Prop := ∃ k1 k2, x + k1 * g = y + k2 * g

theorem Cong.refl (x g : Nat) : Cong x x g := ⟨0, 0, rfl⟩

theorem Cong.of_dvd {x g : Nat} (h : g ∣ x) : Cong x 0 g := by
  obtain ⟨q, rfl⟩ := h
  exact ⟨0, q, by simp [Nat.mul_comm]⟩

theorem Cong.mono {x y g g' : Nat} (h : Cong x y g) (hd : g' ∣ g) : Cong x y g' := by
  obtain ⟨k1, k2, hk⟩ := h
  obtain ⟨q, rfl⟩ := hd
  exact ⟨k1 * q, k2 * q, by rw [Nat.mul_assoc, Nat.mul_assoc, Nat.mul_comm q g', hk]⟩

theorem Cong.add_right {x y g : Nat} (h : Cong x y g) (c : Nat) : Cong (x + c) (y + c) g := by
  obtain ⟨k1, k2, hk⟩ := h
  exact ⟨k1, k2, by omega⟩

theorem Cong.align {x y g al : Nat} (h : Cong x y g) (hal : 0 < al) (hd : al ∣ g) :
    Cong (Cntgs.alignUp x al) (Cntgs.alignUp y al) g := by
  obtain ⟨k1, k2, hk⟩ := h
  refine ⟨k1, k2, ?_⟩
  have h1 := alignUp_add_mul k1 g x al hal hd
  have h2 := alignUp_add_mul k2 g y al hal hd
  rw [Nat.add_comm] at h1 h2
  rw [hk] at h1
  omega

theorem Cong.dvd {x y g d : Nat} (h : Cong x y g) (hg : d ∣ g) (hy : d ∣ y) : d ∣ x := by
  obtain ⟨k1, k2, hk⟩ := h
  have h1 : d ∣ y + k2 * g := Nat.dvd_add hy (Nat.dvd_trans hg (Nat.dvd_mul_left _ _))
  rw [← hk] at h1
  exact (Nat.dvd_add_iff_left (Nat.dvd_trans hg (Nat.dvd_mul_left _ _))).mpr h1

/-- from a multiple of `k`, the next multiple of a larger power of two `n` is at most `n - k` away -/
theorem alignUp_from_multiple {E k n : Nat} (hk : IsPow2 k) (hn : IsPow2 n) (hkn : k ≤ n) (hd : k ∣ E) :
    alignUp E n ≤ E + (n - k) := by
  have hkd : k ∣ n := hk.dvd_of_le hn hkn
  have hlt := alignUp_lt E n hn.pos
  have hge := alignUp_ge E n hn.pos
  have h1 : k ∣ alignUp E n := Nat.dvd_trans hkd (alignUp_dvd E n)
  have h2 : k ∣ alignUp E n - E := Nat.dvd_sub h1 hd
  obtain ⟨i, hi⟩ := h2
  obtain ⟨j, hj⟩ := hkd
  have hij : i < j := by
    have : k * i < k * j := by rw [← hi, ← hj]; omega
    exact Nat.lt_of_mul_lt_mul_left this
  have : k * (i + 1) ≤ k * j := Nat.mul_le_mul_left k hij
  rw [Nat.mul_succ] at this
  omega

/-- worst-case padding when the bracket `A` is smaller than the wanted alignment `al` -/
theorem worst_case_pad {addr m A off al : Nat} (hA : IsPow2 A) (hal : IsPow2 al) (hlt : A < al) (hk : addr = m * A + off) :
    alignUp addr al ≤ addr + (alignUp off A - off) + (al - A) := by
  have hx : alignUp addr A = m * A + alignUp off A := by
    rw [hk]; exact alignUp_add_mul m A off A hA.pos (Nat.dvd_refl _)
  have hge := alignUp_ge off A hA.pos
  have h1 : alignUp addr al ≤ alignUp (alignUp addr A) al := alignUp_mono (alignUp_ge addr A hA.pos)
  have h2 := alignUp_from_multiple hA hal (by omega) (alignUp_dvd addr A) (n := al)
  omega

theorem min_pow2_dvd_left {a b : Nat} (ha : IsPow2 a) (hb : IsPow2 b) : min a b ∣ a := dvd_min_left ha hb
theorem min_pow2_dvd_right {a b : Nat} (ha : IsPow2 a) (hb : IsPow2 b) : min a b ∣ b := dvd_min_right ha hb

theorem alignUp_known {addr m A off n : Nat} (hn : 0 < n) (hd : n ∣ A) (hk : addr = m * A + off) :
    alignUp addr n = m * A + alignUp off n := by
  rw [hk]; exact alignUp_add_mul m A off n hn hd

/-! ### one step of the size fold against one step of the real placement -/

/-- the run-time claim never skips a needed alignment step: with `min prev A ∣ off` and `al ≤ A`,
    `align_if<(prev < al), al>(off)` is `alignUp off al` -/
theorem alignIf_claim {prev A al off : Nat} (hprev : IsPow2 prev) (hA : IsPow2 A) (hal : IsPow2 al) (hle : al ≤ A)
    (hclaim : min prev A ∣ off) : alignIf (decide (prev < al)) al off = alignUp off al := by
  unfold alignIf
  by_cases h : prev < al
  · by_cases h1 : al > 1
    · simp [h, h1]
    · have : al = 1 := by have := hal.pos; omega
      subst this; simp [alignUp_one]
  · simp only [h, decide_false, Bool.false_and, Bool.false_eq_true, if_false]
    have h2 : al ≤ min prev A := by omega
    have : al ∣ off := Nat.dvd_trans (hal.dvd_of_le (pow2_min hprev hA) h2) hclaim
    exact (alignUp_of_dvd _ _ hal.pos this).symm

/-- the padding component: enough to reach the next multiple of `n` from the real end `addr'`, given that the abstract
    state `(off', A')` describes `addr'` truthfully -/
theorem trailingPadding_sound {needs : Bool} {n off' A' addr' m' : Nat} (hn : IsPow2 n) (hA' : IsPow2 A')
    (hk : addr' = m' * A' + off') (hneeds : needs = false → n ∣ addr') :
    alignUp addr' n ≤ addr' + trailingPadding needs n off' A' := by
  unfold trailingPadding
  by_cases hb : A' < n
  · simp only [hb, if_true]
    -- the bracket is too small to know the padding: worst case from what is known
    have hknown : IsPow2 (if off' = 0 then A' else trailAl off' A') ∧ (if off' = 0 then A' else trailAl off' A') ∣ addr' := by
      by_cases h0 : off' = 0
      · simp only [h0, if_true]; exact ⟨hA', by rw [hk, h0, Nat.add_zero]; exact Nat.dvd_mul_left _ _⟩
      · simp only [h0, if_false]
        have := @trailAl_dvd m' A' off' hA' (by omega)
        exact ⟨this.1, hk ▸ this.2.1⟩
    generalize (if off' = 0 then A' else trailAl off' A') = known at hknown
    by_cases hkn : known < n
    · simp only [hkn, if_true]
      exact alignUp_from_multiple hknown.1 hn (by omega) hknown.2
    · simp only [hkn, if_false, Nat.add_zero]
      have : n ∣ addr' := Nat.dvd_trans (hn.dvd_of_le hknown.1 (by omega)) hknown.2
      rw [alignUp_of_dvd _ _ hn.pos this]; exact Nat.le_refl _
  · simp only [hb, if_false]
    have hd : n ∣ A' := hn.dvd_of_le hA' (by omega)
    have hau := alignUp_known hn.pos hd hk
    cases needs with
    | true =>
      unfold alignIf
      by_cases h1 : n > 1
      · simp only [Bool.true_and, h1, decide_true, if_true]
        have := alignUp_ge off' n hn.pos
        omega
      · have : n = 1 := by have := hn.pos; omega
        subst this; simp [alignUp_one]
    | false =>
      have := hneeds rfl
      rw [alignUp_of_dvd _ _ hn.pos this]; omega

/-- plain / FixedSize step of `calculate_element_size` against the real placement of that parameter -/
theorem sizeStep_nonvar (p : Param) (c f prev n off A addr m : Nat) (hw : WfParam p) (hk : p.kind ≠ .varying)
    (hc1 : p.kind = .plain → c = 1) (hcf : p.kind = .fixed → c = f)
    (hA : IsPow2 A) (hprev : IsPow2 prev) (hclaim : min prev A ∣ off) (hknown : addr = m * A + off) :
    (sizeStep p prev n off A f).alignment = max A p.al ∧
    (A < p.al → (sizeStep p prev n off A f).offset = p.vb * c) ∧
    (¬ A < p.al → (sizeStep p prev n off A f).offset = alignUp off p.al + p.vb * c) ∧
    (∃ m', alignUp addr p.al + p.vb * c = m' * (sizeStep p prev n off A f).alignment + (sizeStep p prev n off A f).offset) ∧
    alignUp addr p.al + p.vb * c ≤ addr + (sizeStep p prev n off A f).size ∧
    (IsPow2 n → alignUp (alignUp addr p.al + p.vb * c) n ≤ alignUp addr p.al + p.vb * c + (sizeStep p prev n off A f).padding) := by
  have hvs : (if p.kind = .fixed then p.vb * f else p.vb) = p.vb * c := by
    cases hkind : p.kind with
    | plain => simp [hc1 hkind]
    | fixed => simp [hcf hkind]
    | varying => exact absurd hkind hk
  have hshape : sizeStep p prev n off A f =
      (if A < p.al then
        ⟨p.vb * c, alignUp off A + p.al - A - off + p.vb * c,
          trailingPadding (decide (trailAl p.vb p.al < n)) n (p.vb * c) (max A p.al), max A p.al⟩
      else
        ⟨off + (alignIf (decide (prev < p.al)) p.al off - off + p.vb * c), alignIf (decide (prev < p.al)) p.al off - off + p.vb * c,
          trailingPadding (decide (trailAl p.vb p.al < n)) n (off + (alignIf (decide (prev < p.al)) p.al off - off + p.vb * c)) (max A p.al),
          max A p.al⟩) := by
    unfold sizeStep
    cases hkind : p.kind with
    | varying => exact absurd hkind hk
    | plain => simp only [hkind] at hvs ⊢; simp only [reduceCtorEq, if_false] at hvs ⊢; rw [← hvs]
    | fixed => simp only [hkind] at hvs ⊢; simp only [if_true] at hvs ⊢; rw [← hvs]
  -- the padding hypothesis: when the code claims "no alignment needed", the real end is a multiple of n
  have hnoneed : ∀ (hn : IsPow2 n), (decide (trailAl p.vb p.al < n)) = false → n ∣ alignUp addr p.al + p.vb * c := by
    intro hn hd
    have hge : n ≤ trailAl p.vb p.al := by simpa using hd
    unfold trailAl at hge
    have hlb := lowBit_spec p.vb hw.2
    have h1 : n ∣ alignUp addr p.al := Nat.dvd_trans (hn.dvd_of_le hw.1 (by omega)) (alignUp_dvd _ _)
    have h2 : n ∣ p.vb * c := Nat.dvd_trans (Nat.dvd_trans (hn.dvd_of_le hlb.1 (by omega)) hlb.2) (Nat.dvd_mul_right _ _)
    exact Nat.dvd_add h1 h2
  rw [hshape]
  by_cases hlt : A < p.al
  · rw [if_pos hlt]
    have hmax : max A p.al = p.al := Nat.max_eq_right (by omega)
    obtain ⟨q, hq⟩ := alignUp_dvd addr p.al
    have hkn : alignUp addr p.al + p.vb * c = q * p.al + p.vb * c := by rw [hq, Nat.mul_comm]
    refine ⟨rfl, fun _ => rfl, fun h => absurd hlt h, ⟨q, by rw [hmax]; exact hkn⟩, ?_, ?_⟩
    · have := worst_case_pad hA hw.1 hlt hknown
      have hge := alignUp_ge off A hA.pos
      dsimp only
      omega
    · intro hn
      rw [hmax]
      exact trailingPadding_sound hn hw.1 hkn (hnoneed hn)
  · rw [if_neg hlt]
    have hle : p.al ≤ A := by omega
    have hmax : max A p.al = A := Nat.max_eq_left hle
    have hai := alignIf_claim hprev hA hw.1 hle hclaim
    rw [hai]
    have hau := alignUp_known hw.1.pos (hw.1.dvd_of_le hA hle) hknown
    have hge := alignUp_ge off p.al hw.1.pos
    have hoff : off + (alignUp off p.al - off + p.vb * c) = alignUp off p.al + p.vb * c := by omega
    rw [hoff]
    have hkn : alignUp addr p.al + p.vb * c = m * A + (alignUp off p.al + p.vb * c) := by rw [hau]; omega
    refine ⟨rfl, fun h => absurd h hlt, fun _ => rfl, ⟨m, by rw [hmax]; exact hkn⟩, ?_, ?_⟩
    · dsimp only; rw [hau, hknown]; omega
    · intro hn
      rw [hmax]
      exact trailingPadding_sound hn hA hkn (hnoneed hn)

/-- VaryingSize step of `calculate_element_size` against the real placement of a span of `c` objects -/
theorem sizeStep_var (p : Param) (c f prev n off A addr m : Nat) (hw : WfParam p) (hk : p.kind = .varying) (hoff : 0 < off)
    (hA : IsPow2 A) (hprev : IsPow2 prev) (hclaim : min prev A ∣ off) (hknown : addr = m * A + off) :
    (sizeStep p prev n off A f).offset = 0 ∧ IsPow2 (sizeStep p prev n off A f).alignment ∧
    (sizeStep p prev n off A f).alignment ∣ alignUp addr p.al + p.vb * c ∧
    alignUp addr p.al ≤ addr + (sizeStep p prev n off A f).size ∧
    (IsPow2 n → alignUp (alignUp addr p.al + p.vb * c) n ≤ alignUp addr p.al + p.vb * c + (sizeStep p prev n off A f).padding) := by
  have hlb := lowBit_spec p.vb hw.2
  -- the two cases of the leading alignment
  have hcases : ∃ ao, 0 < ao ∧
      sizeStep p prev n off A f = ⟨0, ao - off, (if min A (trailAl p.vb (lowBit ao)) < n then n - min A (trailAl p.vb (lowBit ao)) else 0),
        min A (trailAl p.vb (lowBit ao))⟩ ∧
      alignUp addr p.al ≤ addr + (ao - off) ∧ min A (lowBit ao) ∣ alignUp addr p.al := by
    by_cases hlt : A < p.al
    · refine ⟨alignUp off A + p.al - A, by omega, ?_, ?_, ?_⟩
      · unfold sizeStep; simp only [hk, hlt, if_true]
      · have := worst_case_pad hA hw.1 hlt hknown
        have hge := alignUp_ge off A hA.pos
        omega
      · exact Nat.dvd_trans (Nat.dvd_trans (Nat.min_le_left _ _ |> fun h => (by
            have hp : IsPow2 (min A (lowBit (alignUp off A + p.al - A))) :=
              pow2_min hA (lowBit_spec _ (by omega)).1
            exact hp.dvd_of_le hA h)) (hA.dvd_of_le hw.1 (by omega))) (alignUp_dvd _ _)
    · have hle : p.al ≤ A := by omega
      have hai := alignIf_claim hprev hA hw.1 hle hclaim
      have hge := alignUp_ge off p.al hw.1.pos
      have hau := alignUp_known hw.1.pos (hw.1.dvd_of_le hA hle) hknown
      refine ⟨alignUp off p.al, by omega, ?_, ?_, ?_⟩
      · unfold sizeStep; simp only [hk, hlt, if_false, hai]
      · rw [hau, hknown]; omega
      · rw [hau]
        have hl := lowBit_spec (alignUp off p.al) (by omega)
        apply Nat.dvd_add
        · exact Nat.dvd_trans (dvd_min_left hA hl.1) (Nat.dvd_mul_left _ _)
        · exact Nat.dvd_trans (dvd_min_right hA hl.1) hl.2
  obtain ⟨ao, hao, hshape, hsize, hstart⟩ := hcases
  have hl := lowBit_spec ao hao
  have ht : IsPow2 (min A (trailAl p.vb (lowBit ao))) := pow2_min hA (pow2_min hlb.1 hl.1)
  have htd : min A (trailAl p.vb (lowBit ao)) ∣ alignUp addr p.al + p.vb * c := by
    have hle1 : min A (trailAl p.vb (lowBit ao)) ≤ min A (lowBit ao) := by unfold trailAl; omega
    have hle2 : min A (trailAl p.vb (lowBit ao)) ≤ lowBit p.vb := by unfold trailAl; omega
    apply Nat.dvd_add
    · exact Nat.dvd_trans (ht.dvd_of_le (pow2_min hA hl.1) hle1) hstart
    · exact Nat.dvd_trans (Nat.dvd_trans (ht.dvd_of_le hlb.1 hle2) hlb.2) (Nat.dvd_mul_right _ _)
  rw [hshape]
  refine ⟨rfl, ht, htd, hsize, ?_⟩
  intro hn
  dsimp only
  generalize min A (trailAl p.vb (lowBit ao)) = t at ht htd
  by_cases htn : t < n
  · simp only [htn, if_true]
    exact alignUp_from_multiple ht hn (by omega) htd
  · simp only [htn, if_false, Nat.add_zero]
    have : n ∣ alignUp addr p.al + p.vb * c := Nat.dvd_trans (hn.dvd_of_le ht (by omega)) htd
    rw [alignUp_of_dvd _ _ hn.pos this]; exact Nat.le_refl _

/-! ### the relation between the trailing-claim walk, the size walk and the real address -/

/-- `(o, a)`: state of the trailing-alignment walk (`trailingGo`), `prev`: its claim for the address reached so far;
    `st`: state of the size walk; `addr`: the real address (relative to the storage-aligned element start) -/
structure SzInv (o a prev : Nat) (st : SzSt) (addr : Nat) : Prop where
  pa : IsPow2 a
  pA : IsPow2 st.alignment
  pprev : IsPow2 prev
  cong : Cong st.offset o (min a st.alignment)
  claim : min prev st.alignment ∣ st.offset
  known : ∃ m, addr = m * st.alignment + st.offset

theorem trailingStep_span (p : Param) (o a : Nat) (hk : p.kind ≠ .plain) :
    trailingStep p o a =
      (0, trailAl p.vb (max p.al (trailAl (alignUp o p.al) (max a p.al))),
          trailAl p.vb (max p.al (trailAl (alignUp o p.al) (max a p.al)))) := by
  unfold trailingStep
  cases hkind : p.kind <;> simp_all

theorem span_t_pow2 (p : Param) (o a : Nat) (hw : WfParam p) (ha : IsPow2 a) :
    IsPow2 (max p.al (trailAl (alignUp o p.al) (max a p.al))) ∧
    IsPow2 (trailAl p.vb (max p.al (trailAl (alignUp o p.al) (max a p.al)))) := by
  have hlead := (@leading_dvd 0 (max a p.al) (alignUp o p.al) p.al (pow2_max ha hw.1) hw.1
    (by simp only [Nat.zero_mul, Nat.zero_add]; exact alignUp_dvd _ _)).1
  exact ⟨hlead, pow2_min (lowBit_spec p.vb hw.2).1 hlead⟩

theorem szInv_step_plain (p : Param) (f prev n o a : Nat) (st : SzSt) (addr : Nat) (hw : WfParam p) (hk : p.kind = .plain)
    (h : SzInv o a prev st addr) :
    SzInv (trailingStep p o a).1 (trailingStep p o a).2.1 (trailingStep p o a).2.2
      ⟨(sizeStep p prev n st.offset st.alignment f).offset, (sizeStep p prev n st.offset st.alignment f).alignment,
        st.size + (sizeStep p prev n st.offset st.alignment f).size, (sizeStep p prev n st.offset st.alignment f).padding⟩
      (alignUp addr p.al + p.vb * 1) := by
  obtain ⟨m, hm⟩ := h.known
  obtain ⟨hal, hthen, helse, hkn, _, _⟩ := sizeStep_nonvar p 1 f prev n st.offset st.alignment addr m hw (by simp [hk])
    (fun _ => rfl) (fun hh => by rw [hk] at hh; exact absurd hh (by simp)) h.pA h.pprev h.claim hm
  have hts : trailingStep p o a =
      ((if a < p.al then p.vb else alignUp o p.al + p.vb), max a p.al,
        trailAl (if a < p.al then p.vb else alignUp o p.al + p.vb) (max a p.al)) := by
    unfold trailingStep; simp only [hk]
  rw [hts]
  generalize hr : sizeStep p prev n st.offset st.alignment f = r at hal hthen helse hkn
  have ho' : 0 < (if a < p.al then p.vb else alignUp o p.al + p.vb) := by
    have := hw.2; split <;> omega
  have ha' : IsPow2 (max a p.al) := pow2_max h.pa hw.1
  have hA' : IsPow2 (max st.alignment p.al) := pow2_max h.pA hw.1
  have hlo := lowBit_spec _ ho'
  -- the congruence between the two walks
  have hcong : Cong r.offset (if a < p.al then p.vb else alignUp o p.al + p.vb) (min (max a p.al) (max st.alignment p.al)) := by
    by_cases hT : a < p.al
    · simp only [hT, if_true]
      by_cases hS : st.alignment < p.al
      · rw [hthen hS, Nat.mul_one]; exact Cong.refl _ _
      · rw [helse hS, Nat.mul_one]
        have e1 : max a p.al = p.al := Nat.max_eq_right (by omega)
        have e2 : max st.alignment p.al = st.alignment := Nat.max_eq_left (by omega)
        rw [e1, e2, Nat.min_eq_left (by omega)]
        obtain ⟨q, hq⟩ := alignUp_dvd st.offset p.al
        exact ⟨0, q, by rw [hq]; simp [Nat.mul_comm, Nat.add_comm]⟩
    · simp only [hT, if_false]
      have e1 : max a p.al = a := Nat.max_eq_left (by omega)
      by_cases hS : st.alignment < p.al
      · rw [hthen hS, Nat.mul_one]
        have e2 : max st.alignment p.al = p.al := Nat.max_eq_right (by omega)
        rw [e1, e2, Nat.min_eq_right (by omega)]
        obtain ⟨q, hq⟩ := alignUp_dvd o p.al
        exact ⟨q, 0, by rw [hq]; simp [Nat.mul_comm, Nat.add_comm]⟩
      · rw [helse hS, Nat.mul_one]
        have e2 : max st.alignment p.al = st.alignment := Nat.max_eq_left (by omega)
        rw [e1, e2]
        have hg : p.al ∣ min a st.alignment := hw.1.dvd_of_le (pow2_min h.pa h.pA) (by omega)
        exact (h.cong.align hw.1.pos hg).add_right _
  refine ⟨ha', hal ▸ hA', (pow2_min hlo.1 ha'), hal ▸ hcong, ?_, hkn⟩
  -- the claim of the trailing walk, capped by the size bracket, divides the size walk's offset
  show min (trailAl _ (max a p.al)) r.alignment ∣ r.offset
  rw [hal]
  unfold trailAl
  have hp1 : IsPow2 (min (lowBit (if a < p.al then p.vb else alignUp o p.al + p.vb)) (max a p.al)) := pow2_min hlo.1 ha'
  have hd : IsPow2 (min (min (lowBit (if a < p.al then p.vb else alignUp o p.al + p.vb)) (max a p.al)) (max st.alignment p.al)) :=
    pow2_min hp1 hA'
  apply hcong.dvd
  · exact hd.dvd_of_le (pow2_min ha' hA') (by omega)
  · exact Nat.dvd_trans (hd.dvd_of_le hlo.1 (by omega)) hlo.2

theorem szInv_step_fixed (p : Param) (f prev n o a : Nat) (st : SzSt) (addr : Nat) (hw : WfParam p) (hk : p.kind = .fixed)
    (h : SzInv o a prev st addr) :
    SzInv (trailingStep p o a).1 (trailingStep p o a).2.1 (trailingStep p o a).2.2
      ⟨(sizeStep p prev n st.offset st.alignment f).offset, (sizeStep p prev n st.offset st.alignment f).alignment,
        st.size + (sizeStep p prev n st.offset st.alignment f).size, (sizeStep p prev n st.offset st.alignment f).padding⟩
      (alignUp addr p.al + p.vb * f) := by
  obtain ⟨m, hm⟩ := h.known
  obtain ⟨hal, hthen, helse, hkn, _, _⟩ := sizeStep_nonvar p f f prev n st.offset st.alignment addr m hw (by simp [hk])
    (fun hh => by rw [hk] at hh; exact absurd hh (by simp)) (fun _ => rfl) h.pA h.pprev h.claim hm
  rw [trailingStep_span p o a (by simp [hk])]
  generalize hr : sizeStep p prev n st.offset st.alignment f = r at hal hthen helse hkn
  obtain ⟨hlead, ht⟩ := span_t_pow2 p o a hw h.pa
  have hA' : IsPow2 (max st.alignment p.al) := pow2_max h.pA hw.1
  have hlb := lowBit_spec p.vb hw.2
  -- the key fact: the claim, capped by the size bracket, divides the size walk's offset
  have hkey : min (trailAl p.vb (max p.al (trailAl (alignUp o p.al) (max a p.al)))) (max st.alignment p.al) ∣ r.offset := by
    have hD : IsPow2 (min (trailAl p.vb (max p.al (trailAl (alignUp o p.al) (max a p.al)))) (max st.alignment p.al)) := pow2_min ht hA'
    have hDvb : min (trailAl p.vb (max p.al (trailAl (alignUp o p.al) (max a p.al)))) (max st.alignment p.al) ∣ p.vb * f := by
      refine Nat.dvd_trans (Nat.dvd_trans (hD.dvd_of_le hlb.1 ?_) hlb.2) (Nat.dvd_mul_right _ _)
      unfold trailAl; omega
    by_cases hS : st.alignment < p.al
    · rw [hthen hS]; exact hDvb
    · rw [helse hS]
      refine Nat.dvd_add ?_ hDvb
      have e2 : max st.alignment p.al = st.alignment := Nat.max_eq_left (by omega)
      rw [e2] at hD ⊢
      by_cases hX : trailAl (alignUp o p.al) (max a p.al) ≤ p.al
      · -- the leading claim is just the parameter's own alignment
        have : max p.al (trailAl (alignUp o p.al) (max a p.al)) = p.al := Nat.max_eq_left hX
        rw [this] at hD ⊢
        refine Nat.dvd_trans (hD.dvd_of_le hw.1 ?_) (alignUp_dvd _ _)
        unfold trailAl; omega
      · have hX' : p.al < trailAl (alignUp o p.al) (max a p.al) := by omega
        have hmx : max p.al (trailAl (alignUp o p.al) (max a p.al)) = trailAl (alignUp o p.al) (max a p.al) :=
          Nat.max_eq_right (by omega)
        rw [hmx] at hD ⊢
        have hao : 0 < alignUp o p.al := by
          rcases Nat.eq_zero_or_pos (alignUp o p.al) with h0 | h0
          · rw [h0] at hX'; simp [trailAl, lowBit_zero] at hX'
          · exact h0
        have haa : p.al < a := by
          unfold trailAl at hX'
          have : p.al < max a p.al := by omega
          omega
        have e1 : max a p.al = a := Nat.max_eq_left (by omega)
        rw [e1] at hD ⊢
        have hl := lowBit_spec _ hao
        have hg : p.al ∣ min a st.alignment := hw.1.dvd_of_le (pow2_min h.pa h.pA) (by omega)
        apply (h.cong.align hw.1.pos hg).dvd
        · exact hD.dvd_of_le (pow2_min h.pa h.pA) (by unfold trailAl; omega)
        · exact Nat.dvd_trans (hD.dvd_of_le hl.1 (by unfold trailAl; omega)) hl.2
  refine ⟨ht, hal ▸ hA', ht, ?_, ?_, hkn⟩
  · show Cong r.offset 0 (min _ r.alignment)
    rw [hal]; exact Cong.of_dvd hkey
  · show min _ r.alignment ∣ r.offset
    rw [hal]; exact hkey

theorem szInv_step_varying (p : Param) (c f prev n o a : Nat) (st : SzSt) (addr : Nat) (hw : WfParam p) (hk : p.kind = .varying)
    (hoff : 0 < st.offset) (h : SzInv o a prev st addr) :
    SzInv (trailingStep p o a).1 (trailingStep p o a).2.1 (trailingStep p o a).2.2
      ⟨(sizeStep p prev n st.offset st.alignment f).offset, (sizeStep p prev n st.offset st.alignment f).alignment,
        st.size + (sizeStep p prev n st.offset st.alignment f).size, (sizeStep p prev n st.offset st.alignment f).padding⟩
      (alignUp addr p.al + p.vb * c) := by
  obtain ⟨m, hm⟩ := h.known
  obtain ⟨h0, hp, hd, _, _⟩ := sizeStep_var p c f prev n st.offset st.alignment addr m hw hk hoff h.pA h.pprev h.claim hm
  rw [trailingStep_span p o a (by simp [hk])]
  obtain ⟨_, ht⟩ := span_t_pow2 p o a hw h.pa
  generalize hr : sizeStep p prev n st.offset st.alignment f = r at h0 hp hd
  obtain ⟨q, hq⟩ := hd
  refine ⟨ht, hp, ht, ?_, ?_, ⟨q, ?_⟩⟩
  · show Cong r.offset 0 _; rw [h0]; exact Cong.refl _ _
  · show _ ∣ r.offset; rw [h0]; exact Nat.dvd_zero _
  · show _ = q * r.alignment + r.offset; rw [h0, hq, Nat.mul_comm]; rfl

/-! ### the fold -/

/-- bytes of VaryingSize payload of an element with the given counts -/
def varBytes : List Param → List Nat → Nat
  | p :: ps, c :: cs => (if p.kind = .varying then p.vb * c else 0) + varBytes ps cs
  | _, _ => 0

/-- counts of an element that fits a vector constructed with fixed sizes `fs`: 1 for plain, the fixed size for FixedSize,
    anything for VaryingSize -/
def CountsMatch : List Param → List Nat → List Nat → Prop
  | [], _, [] => True
  | p :: ps, f :: fs, c :: cs => (p.kind = .plain → c = 1) ∧ (p.kind = .fixed → c = f) ∧ CountsMatch ps fs cs
  | _, _, _ => False

/-- every VaryingSize parameter is directly preceded by a plain one (its size; `elementTraits.hpp:61`) -/
def VarOK : Bool → List Param → Prop
  | _, [] => True
  | pp, p :: ps => (p.kind = .varying → pp = true) ∧ VarOK (decide (p.kind = .plain)) ps

theorem szGo_sound :
    ∀ (ps : List Param) (fs cs ns : List Nat) (prev o a : Nat) (st : SzSt) (addr : Nat) (pp : Bool),
      (∀ p ∈ ps, WfParam p) → CountsMatch ps fs cs → ps.length ≤ ns.length →
      VarOK pp ps → (pp = true → 0 < st.offset) → SzInv o a prev st addr →
      goEnd ps cs addr + st.size ≤ addr + (szGo ps fs (trailingGo ps o a) ns prev st).size + varBytes ps cs ∧
      (∀ nl, (ns.take ps.length).getLast? = some nl → IsPow2 nl →
        alignUp (goEnd ps cs addr) nl ≤ goEnd ps cs addr + (szGo ps fs (trailingGo ps o a) ns prev st).padding) := by
  intro ps
  induction ps with
  | nil =>
    intro fs cs ns prev o a st addr pp _ _ _ _ _ _
    simp [szGo, goEnd, varBytes]
  | cons p ps ih =>
    intro fs cs ns prev o a st addr pp hwf hcm hln hvo hpp hinv
    have hw : WfParam p := hwf p (by simp)
    cases fs with
    | nil => cases cs <;> simp [CountsMatch] at hcm
    | cons f fs =>
    cases cs with
    | nil => simp [CountsMatch] at hcm
    | cons c cs =>
    cases ns with
    | nil => simp at hln
    | cons n ns =>
    obtain ⟨hc1, hcf, hcm'⟩ := hcm
    obtain ⟨m, hm⟩ := hinv.known
    -- one step: new invariant, size bound, positivity, padding
    have hstep : SzInv (trailingStep p o a).1 (trailingStep p o a).2.1 (trailingStep p o a).2.2
        ⟨(sizeStep p prev n st.offset st.alignment f).offset, (sizeStep p prev n st.offset st.alignment f).alignment,
          st.size + (sizeStep p prev n st.offset st.alignment f).size, (sizeStep p prev n st.offset st.alignment f).padding⟩
        (alignUp addr p.al + p.vb * c) ∧
        alignUp addr p.al + p.vb * c ≤ addr + (sizeStep p prev n st.offset st.alignment f).size + (if p.kind = .varying then p.vb * c else 0) ∧
        (p.kind = .plain → 0 < (sizeStep p prev n st.offset st.alignment f).offset) ∧
        (IsPow2 n → alignUp (alignUp addr p.al + p.vb * c) n ≤ alignUp addr p.al + p.vb * c + (sizeStep p prev n st.offset st.alignment f).padding) := by
      cases hkind : p.kind with
      | plain =>
        have hc := hc1 hkind; subst hc
        obtain ⟨_, hthen, helse, _, hsz, hpad⟩ := sizeStep_nonvar p 1 f prev n st.offset st.alignment addr m hw (by simp [hkind])
          (fun _ => rfl) (fun hh => by rw [hkind] at hh; exact absurd hh (by simp)) hinv.pA hinv.pprev hinv.claim hm
        refine ⟨szInv_step_plain p f prev n o a st addr hw hkind hinv, by simpa using hsz, fun _ => ?_, hpad⟩
        have := hw.2
        by_cases hS : st.alignment < p.al
        · rw [hthen hS]; omega
        · rw [helse hS]; omega
      | fixed =>
        have hc := hcf hkind; subst hc
        obtain ⟨_, _, _, _, hsz, hpad⟩ := sizeStep_nonvar p c c prev n st.offset st.alignment addr m hw (by simp [hkind])
          (fun hh => by rw [hkind] at hh; exact absurd hh (by simp)) (fun _ => rfl) hinv.pA hinv.pprev hinv.claim hm
        exact ⟨szInv_step_fixed p c prev n o a st addr hw hkind hinv, by simpa using hsz, fun hh => absurd hh (by simp), hpad⟩
      | varying =>
        have hoff : 0 < st.offset := hpp (hvo.1 hkind)
        obtain ⟨_, _, _, hsz, hpad⟩ := sizeStep_var p c f prev n st.offset st.alignment addr m hw hkind hoff hinv.pA hinv.pprev hinv.claim hm
        refine ⟨szInv_step_varying p c f prev n o a st addr hw hkind hoff hinv, ?_, fun hh => absurd hh (by simp), hpad⟩
        simp only [if_true]; omega
    obtain ⟨hinv', hsize, hpos, hpad⟩ := hstep
    have hrec := ih fs cs ns (trailingStep p o a).2.2 (trailingStep p o a).1 (trailingStep p o a).2.1 _ _ (decide (p.kind = .plain))
      (fun q hq => hwf q (by simp [hq])) hcm' (by simpa using hln) hvo.2
      (fun hh => hpos (by simpa using hh)) hinv'
    simp only [trailingGo, szGo, goEnd, varBytes]
    constructor
    · have := hrec.1
      simp only at this
      omega
    · intro nl hnl hnlp
      cases hps : ps with
      | nil =>
        subst hps
        simp only [List.length_singleton, List.take_succ_cons, List.take_zero, List.getLast?_singleton, Option.some.injEq] at hnl
        subst hnl
        simp only [szGo, goEnd, trailingGo]
        exact hpad hnlp
      | cons q qs =>
        have hnl' : (ns.take ps.length).getLast? = some nl := by
          rw [hps] at hnl ⊢
          cases ns with
          | nil => rw [hps] at hln; simp at hln
          | cons n2 ns2 => simpa [List.take_succ_cons, List.getLast?_cons_cons] using hnl
        rw [← hps]
        exact hrec.2 nl hnl' hnlp

/-- **`calculate_element_size` is sufficient**: for every well-formed parameter list and every element whose plain /
    FixedSize fields have the vector's counts — whatever the VaryingSize counts — the real extent of the element is at
    most `size` plus its varying bytes, and the extent rounded up to the storage alignment (where the next element
    starts) is at most `stride` plus its varying bytes. -/
theorem elemSize_bound (ps : List Param) (fs cs : List Nat) (hwf : ∀ p ∈ ps, WfParam p) (hne : ps ≠ [])
    (hcm : CountsMatch ps fs cs) (hvo : VarOK false ps) :
    goEnd ps cs 0 ≤ (elemSize ps fs).size + varBytes ps cs ∧
    alignUp (goEnd ps cs 0) (storageAl ps) ≤ (elemSize ps fs).stride + varBytes ps cs := by
  have hS := storageAl_pow2 ps hwf hne
  have hnl : (nextAls ps).length = ps.length := nextAls_length ps hne
  have hinv : SzInv 0 (storageAl ps) (storageAl ps) ⟨0, storageAl ps, 0, 0⟩ 0 :=
    ⟨hS, hS, hS, Cong.refl _ _, Nat.dvd_zero _, ⟨0, by simp⟩⟩
  obtain ⟨h1, h2⟩ := szGo_sound ps fs cs (nextAls ps) (storageAl ps) 0 (storageAl ps) ⟨0, storageAl ps, 0, 0⟩ 0 false hwf hcm
    (by omega) hvo (fun h => absurd h (by simp)) hinv
  have hlast : ((nextAls ps).take ps.length).getLast? = some (storageAl ps) := by
    rw [← hnl, List.take_length]; simp [nextAls]
  have h3 := h2 _ hlast hS
  unfold elemSize
  have htr : trailings ps = trailingGo ps 0 (storageAl ps) := rfl
  rw [htr]
  simp only [Nat.add_zero, Nat.zero_add] at h1 h3 ⊢
  exact ⟨h1, by omega⟩

theorem units_tight_le (bytes S : Nat) (hS : 0 < S) : bytes ≤ units bytes S * S := by
  unfold units
  have h := Nat.div_add_mod bytes S
  have hm := Nat.mod_lt bytes hS
  have hc : bytes / S * S = S * (bytes / S) := Nat.mul_comm _ _
  split
  · simp only [Nat.add_zero]; omega
  · rw [Nat.add_mul]; omega

/-! ### the whole vector -/

/-- total VaryingSize varPayload of a sequence of elements, in bytes -/
def varPayload (ps : List Param) (es : List Elem) : Nat := (es.map (fun e => varBytes ps (elemCounts e))).sum

theorem payload_take_le (ps : List Param) (es : List Elem) (k : Nat) : varPayload ps (es.take k) ≤ varPayload ps es := by
  induction es generalizing k with
  | nil => simp [varPayload]
  | cons e es ih =>
    cases k with
    | zero => simp [varPayload]
    | succ k =>
      have := ih k
      simp only [varPayload, List.take_succ_cons, List.map_cons, List.sum_cons] at this ⊢
      omega

/-- element `k` of the canonical layout ends at most `stride * k + size + varPayload of the first k+1 elements` bytes into
    the block -/
theorem canon_end_bound (ps : List Param) (fs : List Nat) (hl : ListOK ps) (hvo : VarOK false ps) :
    ∀ (es : List Elem) (k : Nat), (∀ e ∈ es, CountsMatch ps fs (elemCounts e)) → k < es.length →
      canonOff ps es k + esz ps (es.getD k []) + (elemSize ps fs).stride ≤
        (elemSize ps fs).stride * (k + 1) + (elemSize ps fs).size + varPayload ps (es.take (k + 1)) := by
  intro es
  induction es with
  | nil => intro k _ hk; simp at hk
  | cons e es ih =>
    intro k hm hk
    obtain ⟨ha, hb⟩ := elemSize_bound ps fs (elemCounts e) hl.wf hl.ne (hm e (by simp)) hvo
    cases k with
    | zero =>
      simp only [canonOff, List.getD_cons_zero, varPayload, List.take_succ_cons, List.take_zero, List.map_cons, List.map_nil,
        List.sum_cons, List.sum_nil, esz]
      omega
    | succ k =>
      have := ih k (fun x hx => hm x (by simp [hx])) (by simpa using hk)
      simp only [canonOff, List.getD_cons_succ, varPayload, List.take_succ_cons, List.map_cons, List.sum_cons] at this ⊢
      have e1 : (elemSize ps fs).stride * (k + 1 + 1) = (elemSize ps fs).stride * (k + 1) + (elemSize ps fs).stride := Nat.mul_succ _ _
      unfold esz at this ⊢
      omega

/-- **Lists with a VaryingSize parameter**: a vector constructed (or reserved) for `N` elements and `B` bytes of varying
    varPayload holds any sequence of at most `N` elements whose varying payloads total at most `B` bytes — every element,
    and so `data_end()`, ends inside the `memory_consumption()` bytes of the block — for every well-formed parameter
    list, all alignments, all fixed sizes and every distribution of the varying sizes. -/
theorem fit_offset_table (ps : List Param) (fs : List Nat) (N B : Nat) (hl : ListOK ps) (hvo : VarOK false ps)
    (es : List Elem) (hm : ∀ e ∈ es, CountsMatch ps fs (elemCounts e)) (hN : es.length ≤ N) (hB : varPayload ps es ≤ B) :
    ∀ k, k < es.length →
      canonOff ps es k + esz ps (es.getD k []) ≤ units (needed N B (elemSize ps fs)) (storageAl ps) * storageAl ps := by
  intro k hk
  have h1 := canon_end_bound ps fs hl hvo es k hm hk
  have h2 := payload_take_le ps es (k + 1)
  have hS := storage_pos hl
  have h3 := (units_tight_le (needed N B (elemSize ps fs)) (storageAl ps) hS)
  have hle : (elemSize ps fs).size ≤ (elemSize ps fs).stride := by unfold elemSize; simp
  have h4 : (elemSize ps fs).stride * (k + 1) ≤ (elemSize ps fs).stride * N := Nat.mul_le_mul_left _ (by omega)
  have hN0 : N ≠ 0 := by omega
  have hn : needed N B (elemSize ps fs) =
      B + (elemSize ps fs).stride * N - ((elemSize ps fs).stride - (elemSize ps fs).size) := by
    unfold needed; simp only [hN0, if_false]
  generalize units (needed N B (elemSize ps fs)) (storageAl ps) * storageAl ps = U at h3 ⊢
  rw [hn] at h3
  omega

end Cntgs
