/-
M8 — references as views of one stored element: assignment and swap through the run tables;
iterators as indices; standalone elements (ContiguousElement).

Source anchors:
  refAssign      detail/elementTraits.hpp assign_one / assign  (CONSECUTIVE_TRIVIALLY_ASSIGNABLE_INDICES)
  refSwap        detail/elementTraits.hpp swap_one / swap      (CONSECUTIVE_TRIVIALLY_SWAPPABLE_INDICES)
  Iter.*         iterator.hpp:88-177
  ElemSt.*       element.hpp
-/
import Cntgs.World
namespace Cntgs

/-- copy the fields `k .. last` of `s` into `t` (one `memmove` over a run of trivially assignable fields) -/
def copyFields (s t : Elem) (k last : Nat) : Elem :=
  (List.range t.length).map (fun i => if k ≤ i ∧ i ≤ last then s.getD i [] else t.getD i [])

/-- `assign_one<UseMove, K>`: (source, target) ↦ (source', target') -/
def assignOne (tbl : List RunEntry) (useMove : Bool) (k : Nat) (st : Elem × Elem) : Elem × Elem :=
  match tbl.getD k .skip with
  | .skip => st
  | .manual =>
    let v := st.1.getD k []
    ((if useMove then st.1.set k (v.map (fun _ => 0)) else st.1), st.2.set k v)
  | .upto last => (st.1, copyFields st.1 st.2 k last)

/-- `reference = other` (`reference.hpp:70-116`, `assign`): copies, or moves from an rvalue mutable reference -/
def refAssign (ps : List Param) (useMove : Bool) (s t : Elem) : Elem × Elem :=
  let tbl := if useMove then runs (·.ty.trivMoveAssign) false ps else runs (·.ty.trivCopyAssign) false ps
  (List.range ps.length).foldl (fun st k => assignOne tbl useMove k st) (s, t)

def swapFields (a b : Elem) (k last : Nat) : Elem × Elem :=
  (copyFields b a k last, copyFields a b k last)

def swapOne (tbl : List RunEntry) (k : Nat) (st : Elem × Elem) : Elem × Elem :=
  match tbl.getD k .skip with
  | .skip => st
  | .manual => (st.1.set k (st.2.getD k []), st.2.set k (st.1.getD k []))
  | .upto last => swapFields st.1 st.2 k last

/-- `swap(reference, reference)` / `std::iter_swap` -/
def refSwap (ps : List Param) (a b : Elem) : Elem × Elem :=
  (List.range ps.length).foldl (fun st k => swapOne (runs (·.ty.trivSwap) false ps) k st) (a, b)

/-- replace the value of the element stored at index `i` of a vector (the bytes of its fields change,
    its extent does not: reference assignment requires equal field sizes) -/
def Vec.setElem (v : Vec) (i : Nat) (e : Elem) : Vec :=
  { v with mem := v.mem.map (fun r => if r.off == v.addr i then { r with e := e } else r) }

/-! ### iterators: an index into one vector (`iterator.hpp`) -/

structure Iter where
  vec : Nat      -- identity of the vector's block (`memory_`)
  idx : Int
  deriving DecidableEq, Repr

namespace Iter
def add (it : Iter) (n : Int) : Iter := { it with idx := it.idx + n }
def sub (it : Iter) (n : Int) : Iter := { it with idx := it.idx - n }
def diff (a b : Iter) : Int := a.idx - b.idx
def eq (a b : Iter) : Bool := a.idx == b.idx && a.vec == b.vec
def lt (a b : Iter) : Bool := decide (a.idx < b.idx) && a.vec == b.vec
def gt (a b : Iter) : Bool := lt b a
def le (a b : Iter) : Bool := !gt a b
def ge (a b : Iter) : Bool := !lt a b
end Iter

/-! ### standalone elements -/

structure ElemSt where
  val : Elem
  bytes : Nat           -- size_in_bytes() of the held element
  ptr : Ptr
  deriving Repr, Inhabited

end Cntgs

namespace Cntgs

/-- worlds with standalone elements -/
structure EWorld where
  w : World := {}
  elems : Nat → Option ElemSt := fun _ => none

def EWorld.setE (ew : EWorld) (k : Nat) (e : Option ElemSt) : EWorld :=
  { ew with elems := fun i => if i = k then e else ew.elems i }

/-- byte size of an element (`size_in_bytes()`): its extent when placed at a storage-aligned address -/
def elemBytes (ps : List Param) (e : Elem) : Nat := placeEnd ps (elemCounts e) 0

/-- values left in a source by element-wise move construction of the non-trivial parameters -/
def movedAssignValues (ps : List Param) (e : Elem) : Elem :=
  (List.zip ps e).map (fun (p, vals) => if p.ty.trivMoveAssign then vals else vals.map (fun _ => 0))

/-- construct from a reference into a vector element; `mv` = from an rvalue mutable reference -/
def EWorld.elemFromRef (ew : EWorld) (ps : List Param) (k s i alloc : Nat) (mv : Bool) : EWorld :=
  match (ew.w.vecs s).bind (fun v => (v.get i).map (fun e => (v, e))) with
  | none => ew
  | some (v, e) =>
    let bytes := elemBytes ps e
    match Ptr.make ew.w.heap (units bytes (storageAl ps)) (storageAl ps) alloc with
    | (h1, none) => { ew with w := { ew.w with heap := h1, threw := true } }
    | (h1, some p) =>
      let w1 := if mv then (ew.w.set s (some (v.setElem i (movedValues ps e)))) else ew.w
      { (ew.setE k (some ⟨e, bytes, p⟩)) with w := { w1 with heap := h1, threw := false } }

def EWorld.elemCopy (ew : EWorld) (ps : List Param) (a b : Nat) : EWorld :=
  match ew.elems a with
  | none => ew
  | some ea =>
    match Ptr.copy ew.w.heap (storageAl ps) ea.ptr with
    | (h1, none) => { ew with w := { ew.w with heap := h1, threw := true } }
    | (h1, some p) => { (ew.setE b (some { ea with ptr := p })) with w := { ew.w with heap := h1, threw := false } }

def EWorld.elemMove (ew : EWorld) (a b : Nat) : EWorld :=
  match ew.elems a with
  | none => ew
  | some ea =>
    let (p, p0) := ea.ptr.moveCtor
    { ((ew.setE b (some { ea with ptr := p })).setE a (some { ea with ptr := p0, val := [] })) with w := { ew.w with threw := false } }

/-- `Element{const Element&, allocator}` (`element.hpp:75-81`): a block for `size_in_bytes()` from the given allocator,
    the source is not touched -/
def EWorld.elemCopyA (ew : EWorld) (ps : List Param) (a b alloc : Nat) : EWorld :=
  match ew.elems a with
  | none => ew
  | some ea =>
    match Ptr.make ew.w.heap (units ea.bytes (storageAl ps)) (storageAl ps) alloc with
    | (h1, none) => { ew with w := { ew.w with heap := h1, threw := true } }
    | (h1, some p) => { (ew.setE b (some { ea with ptr := p })) with w := { ew.w with heap := h1, threw := false } }

/-- `Element{Element&&, allocator}` (`element.hpp:91-98`, acquire_memory / acquire_reference): the block is stolen when
    the allocators compare equal; otherwise a block of the source's size is taken from the given allocator and the fields
    are move-constructed into it (the source keeps its block and holds moved-from values) -/
def EWorld.elemMoveA (ew : EWorld) (ps : List Param) (a b alloc : Nat) : EWorld :=
  match ew.elems a with
  | none => ew
  | some ea =>
    if ew.w.acfg.eq alloc ea.ptr.alloc then
      let (p, p0) := ea.ptr.moveCtor
      { ((ew.setE b (some { ea with ptr := p })).setE a (some { ea with ptr := p0, val := [] })) with w := { ew.w with threw := false } }
    else
      match Ptr.make ew.w.heap ea.ptr.units (storageAl ps) alloc with
      | (h1, none) => { ew with w := { ew.w with heap := h1, threw := true } }
      | (h1, some p) =>
        { ((ew.setE b (some { ea with ptr := p })).setE a (some { ea with val := movedValues ps ea.val })) with
          w := { ew.w with heap := h1, threw := false } }

/-- `eD = eS` (`element.hpp` copy_assign) -/
def EWorld.elemAssign (ew : EWorld) (ps : List Param) (a b : Nat) : EWorld :=
  if a = b then { ew with w := { ew.w with threw := false } } else
  match ew.elems a, ew.elems b with
  | some ea, some eb =>
    let c := ew.w.acfg
    if isFixedOrPlain ps && (!c.pocca || c.ae) then
      let r := refAssign ps false ea.val eb.val
      let al := if c.pocca then ea.ptr.alloc else eb.ptr.alloc
      { (ew.setE b (some { eb with val := r.2, ptr := { eb.ptr with alloc := al } })) with w := { ew.w with threw := false } }
    else
      match eb.ptr.copyAssign ew.w.heap c (storageAl ps) ea.ptr with
      | (h1, p1, false) => { (ew.setE b (some { eb with ptr := p1 })) with w := { ew.w with heap := h1, threw := true } }
      | (h1, p1, true) =>
        { (ew.setE b (some { val := ea.val, bytes := ea.bytes, ptr := p1 })) with w := { ew.w with heap := h1, threw := false } }
  | _, _ => ew

/-- `eD = std::move(eS)` (`element.hpp` move_assign) -/
def EWorld.elemMoveAssign (ew : EWorld) (ps : List Param) (a b : Nat) : EWorld :=
  if a = b then { ew with w := { ew.w with threw := false } } else
  match ew.elems a, ew.elems b with
  | some ea, some eb =>
    let c := ew.w.acfg
    let S := storageAl ps
    if c.ae || c.pocma || c.eq eb.ptr.alloc ea.ptr.alloc then
      let (h1, p, p0) := eb.ptr.moveAssign ew.w.heap c S ea.ptr
      { ((ew.setE b (some { ea with ptr := p })).setE a (some { ea with ptr := p0, val := [] })) with
        w := { ew.w with heap := h1, threw := false } }
    else if isFixedOrPlain ps then
      let r := refAssign ps true ea.val eb.val
      { ((ew.setE b (some { eb with val := r.2 })).setE a (some { ea with val := r.1 })) with w := { ew.w with threw := false } }
    else if ea.bytes > eb.ptr.units * S then
      match Ptr.make ew.w.heap ea.ptr.units S eb.ptr.alloc with
      | (h1, none) => { ew with w := { ew.w with heap := h1, threw := true } }
      | (h1, some np) =>
        let (h2, p, _) := eb.ptr.moveAssign h1 c S np
        { ((ew.setE b (some { val := ea.val, bytes := ea.bytes, ptr := p })).setE a (some { ea with val := movedValues ps ea.val })) with
          w := { ew.w with heap := h2, threw := false } }
    else
      { ((ew.setE b (some { eb with val := ea.val, bytes := ea.bytes })).setE a (some { ea with val := movedValues ps ea.val })) with
        w := { ew.w with threw := false } }
  | _, _ => ew

def EWorld.elemSwap (ew : EWorld) (a b : Nat) : EWorld :=
  if a = b then { ew with w := { ew.w with threw := false } } else
  match ew.elems a, ew.elems b with
  | some ea, some eb =>
    let (pa, pb) := Ptr.swap ew.w.acfg ea.ptr eb.ptr
    { ((ew.setE a (some { eb with ptr := pa })).setE b (some { ea with ptr := pb })) with w := { ew.w with threw := false } }
  | _, _ => ew

def EWorld.elemDestroy (ew : EWorld) (ps : List Param) (k : Nat) : EWorld :=
  match ew.elems k with
  | none => ew
  | some e => { (ew.setE k none) with w := { ew.w with heap := e.ptr.dealloc ew.w.heap ew.w.acfg (storageAl ps), threw := false } }

end Cntgs
