/-
Element-wise relocation on the offset-table locator (lists with a VaryingSize parameter, non-trivial value types).

`erase(first, last)` moves the tail element by element: each one is move-constructed at the aligned end of the element
relocated before it, then its source is destroyed.  All tail elements move forward by the same number of bytes
`D = (aligned size of the erased elements)`.  If no tail element is larger than `D`, source and target never overlap and
the refinement of `erase` holds exactly as on the memmove path.  (If one is larger, the code constructs onto its own
live source objects: `C06.overlap_counter_witness`, known finding.)
-/
import Cntgs.FixProofs
namespace Cntgs

/-- the records while the loop runs: elements `< i + k` sit at their final offsets, the others still `D` bytes further back -/
def relocRecVar (ps : List Param) (new : List Elem) (i D k : Nat) (q : Nat) : Rec :=
  ⟨(if q < i + k then canonOff ps new q else canonOff ps new q + D), esz ps (new.getD q []), new.getD q []⟩

theorem relocRecVar_ordered (ps : List Param) (hl : ListOK ps) (new : List Elem) (i D k : Nat) (hok : ElemsOK ps new) :
    Ordered new.length (relocRecVar ps new i D k) := by
  have hc := canon_ordered hl new hok
  constructor
  · intro q hq; exact hc.1 q hq
  · intro q hq
    have := hc.2 q hq
    simp only [canonRec] at this
    simp only [relocRecVar]
    split <;> split <;> omega

theorem canon_mono {ps : List Param} (hl : ListOK ps) (es : List Elem) (hok : ElemsOK ps es) (a b : Nat) (hab : a < b) (hb : b < es.length) :
    canonOff ps es a + esz ps (es.getD a []) ≤ canonOff ps es b := by
  have := (canon_ordered hl es hok).mono a b hab hb
  simpa [canonRec] using this

theorem relocate_fold_var (v : Vec) (hl : ListOK v.ps) (hnf : v.fixedLoc = false)
    (new : List Elem) (hok : ElemsOK v.ps new) (i d D : Nat) (hd : 0 < d)
    (old : Nat → Nat)   -- the offsets of the old layout
    (hold : ∀ q, i ≤ q → q < new.length → old (q + d) = canonOff v.ps new q + D)
    (hno : ∀ q, i ≤ q → q < new.length → esz v.ps (new.getD q []) ≤ D) :
    ∀ (cnt k : Nat) (w : Vec), i + k + cnt ≤ new.length → w.ps = v.ps → w.poison = false →
      (∀ q, q ≤ i + k → w.loc.slots q = canonOff v.ps new q) →
      (∀ q, i + d + k ≤ q → q < new.length + d → w.loc.slots q = old q) →
      Holds w.mem new.length (relocRecVar v.ps new i D k) →
      let w' := (List.range' k cnt).foldl (fun (w : Vec) q => w.relocateOne (i + q) (i + d + q)) w
      w'.ps = v.ps ∧ w'.poison = false ∧ w'.loc.size = w.loc.size ∧ w'.loc.last = w.loc.last ∧
      (∀ q, q ≤ i + (k + cnt) → w'.loc.slots q = canonOff v.ps new q) ∧
      Holds w'.mem new.length (relocRecVar v.ps new i D (k + cnt)) := by
  intro cnt
  induction cnt with
  | zero => intro k w _ hps hpo hs1 _ hh; exact ⟨hps, hpo, rfl, rfl, hs1, hh⟩
  | succ cnt ih =>
    intro k w hlen hps hpo hs1 hs2 hh
    simp only [List.range'_succ, List.foldl_cons]
    have hord := relocRecVar_ordered v.ps hl new i D k hok
    have hc : i + k < new.length := by omega
    have hmem : new.getD (i + k) [] ∈ new := by
      rw [List.getD_eq_getElem?_getD, List.getElem?_eq_getElem hc]; exact List.getElem_mem hc
    have heok := (hok _ hmem).1
    have hfw : w.fixedLoc = false := by unfold Vec.fixedLoc; rw [hps]; exact hnf
    have hsrc : (relocRecVar v.ps new i D k (i + k)).off = canonOff v.ps new (i + k) + D := by
      simp only [relocRecVar, Nat.lt_irrefl, if_false]
    have hrel := relocate_holds hh hord (i + k) hc (canonOff v.ps new (i + k))
      (by
        intro q hq
        simp only [relocRecVar, hq, if_true]
        exact canon_mono hl new hok q (i + k) hq hc)
      (by
        intro q hq hqn
        have hnq : ¬ q < i + k := by omega
        simp only [relocRecVar, hnq, if_false, Nat.lt_irrefl]
        have := canon_mono hl new hok (i + k) q hq hqn
        omega)
    obtain ⟨hfind, hhit, hholds⟩ := hrel
    rw [hsrc] at hfind hhit hholds
    have hszD : (relocRecVar v.ps new i D k (i + k)).sz ≤ D := hno (i + k) (by omega) hc
    have hcs : canonOff v.ps new (i + k + 1) =
        alignUp (canonOff v.ps new (i + k) + (relocRecVar v.ps new i D k (i + k)).sz) (storageAl v.ps) :=
      canonOff_step hl new (i + k) (by omega)
    -- unfold one relocation step
    have hstep : w.relocateOne (i + k) (i + d + k) =
        { w with mem := (w.mem.drop (canonOff v.ps new (i + k) + D)).write (canonOff v.ps new (i + k))
                          (relocRecVar v.ps new i D k (i + k)).sz (relocRecVar v.ps new i D k (i + k)).e,
                 loc := w.loc.setSlot (i + k + 1) (canonOff v.ps new (i + k + 1)) } := by
      have haddr1 : w.addr (i + d + k) = canonOff v.ps new (i + k) + D := by
        simp only [Vec.addr, hfw, Bool.false_eq_true, if_false]
        rw [hs2 (i + d + k) (by omega) (by omega), show i + d + k = i + k + d by omega, hold (i + k) (by omega) hc]
      have haddr2 : w.addr (i + k) = canonOff v.ps new (i + k) := by
        simp only [Vec.addr, hfw, Bool.false_eq_true, if_false]; exact hs1 (i + k) (Nat.le_refl _)
      have hd2 : storageAl v.ps ∣ canonOff v.ps new (i + k) := canonOff_dvd new (i + k)
      have hfin : placeEnd w.ps (elemCounts (relocRecVar v.ps new i D k (i + k)).e) (canonOff v.ps new (i + k)) =
          canonOff v.ps new (i + k) + (relocRecVar v.ps new i D k (i + k)).sz := by
        rw [hps]; exact placeEnd_aligned hl _ heok _ hd2
      have haf : alignFirst w.ps (canonOff v.ps new (i + k) + (relocRecVar v.ps new i D k (i + k)).sz) =
          canonOff v.ps new (i + k + 1) := by
        rw [hps, hcs]
        have h1 := placeEnd_eq_goEnd v.ps (elemCounts (relocRecVar v.ps new i D k (i + k)).e) (canonOff v.ps new (i + k)) hl.wf hl.ne heok hd2
        have hfin' : placeEnd v.ps (elemCounts (relocRecVar v.ps new i D k (i + k)).e) (canonOff v.ps new (i + k)) =
            canonOff v.ps new (i + k) + (relocRecVar v.ps new i D k (i + k)).sz := placeEnd_aligned hl _ heok _ hd2
        have h2 := alignFirst_end v.ps (elemCounts (relocRecVar v.ps new i D k (i + k)).e) (canonOff v.ps new (i + k)) hl.wf hl.ne heok hd2
        rw [← h1, hfin'] at h2
        exact h2
      unfold Vec.relocateOne
      simp only [haddr1, haddr2, hfind, hfin, hfw, Bool.false_eq_true, if_false, Nat.add_sub_cancel_left, hhit, hpo, Bool.or_false, haf]
      have hov : (decide (canonOff v.ps new (i + k) < canonOff v.ps new (i + k) + D + (relocRecVar v.ps new i D k (i + k)).sz) &&
          decide (canonOff v.ps new (i + k) + D < canonOff v.ps new (i + k) + (relocRecVar v.ps new i D k (i + k)).sz)) = false := by
        simp only [Bool.and_eq_false_iff, decide_eq_false_iff_not]; right; omega
      rw [hov]; simp [hpo]
    rw [hstep]
    have hfam : ∀ q, q < new.length →
        (if q = i + k then (⟨canonOff v.ps new (i + k), (relocRecVar v.ps new i D k (i + k)).sz,
            (relocRecVar v.ps new i D k (i + k)).e⟩ : Rec) else relocRecVar v.ps new i D k q) =
          relocRecVar v.ps new i D (k + 1) q := by
      intro q _
      by_cases hq : q = i + k
      · subst hq
        have h1 : i + k < i + (k + 1) := by omega
        simp only [if_true, relocRecVar, h1]
      · simp only [hq, if_false, relocRecVar]
        by_cases h1 : q < i + k
        · have h2 : q < i + (k + 1) := by omega
          simp only [h1, h2, if_true]
        · have h2 : ¬ q < i + (k + 1) := by omega
          simp only [h1, h2, if_false]
    have hnext := ih (k + 1)
      { w with mem := (w.mem.drop (canonOff v.ps new (i + k) + D)).write (canonOff v.ps new (i + k))
                          (relocRecVar v.ps new i D k (i + k)).sz (relocRecVar v.ps new i D k (i + k)).e,
               loc := w.loc.setSlot (i + k + 1) (canonOff v.ps new (i + k + 1)) }
      (by omega) hps hpo
      (by
        intro q hq
        simp only [Loc.setSlot]
        by_cases hq1 : q = i + k + 1
        · simp only [hq1, if_true]
        · simp only [hq1, if_false]; exact hs1 q (by omega))
      (by
        intro q hq hqn
        simp only [Loc.setSlot]
        have hq1 : q ≠ i + k + 1 := by omega
        simp only [hq1, if_false]; exact hs2 q (by omega) hqn)
      (hholds.congr hfam)
    rw [show k + 1 + cnt = k + (cnt + 1) by omega] at hnext
    exact hnext

theorem eraseRange_var_elementwise (v : Vec) (i j : Nat) (hnf : v.fixedLoc = false) (ht : v.trivialReloc = false)
    (hij : i < j) (hjn : j < v.loc.size) :
    v.eraseRange i j =
      { ((List.range (v.loc.size - j)).foldl (fun (w : Vec) k => w.relocateOne (i + k) (j + k)) { v with mem := v.destructRange i j }) with
        loc := (((List.range (v.loc.size - j)).foldl (fun (w : Vec) k => w.relocateOne (i + k) (j + k)) { v with mem := v.destructRange i j }).loc.resize
          ((List.range (v.loc.size - j)).foldl (fun (w : Vec) k => w.relocateOne (i + k) (j + k)) { v with mem := v.destructRange i j }).fixedLoc
          (v.loc.size - (j - i))) } := by
  have hne : i ≠ j := by omega
  have ht' : (v.ps.all fun p => p.ty.trivMoveCtor && p.ty.trivDtor) = false := ht
  have hsz : v.size = v.loc.size := by simp [Vec.size, hnf]
  have hsz1 : ({ v with mem := v.destructRange i j } : Vec).size = v.loc.size := hsz
  simp only [Vec.eraseRange, hsz, hjn, hne, ne_eq, not_false_eq_true, and_self, if_true, Vec.moveForward, Vec.trivialReloc, ht',
    Bool.false_eq_true, if_false, Vec.moveForwardElementwise, hsz1]

/-- **erase(first, last), offset-table locator, element-wise path, no overlap**: when no element of the tail is larger
    than the (aligned) bytes erased in front of it, erase refines removing the range from the sequence and never touches a
    live object -/
theorem VarInv.eraseRange_elementwise {v : Vec} (A M B : List Elem) (h : VarInv v (A ++ M ++ B)) (hnt : v.trivialReloc = false)
    (hB : B ≠ []) (hM : M ≠ []) (hno : ∀ e ∈ B, esz v.ps e ≤ nextOff v.ps M) :
    VarInv (v.eraseRange A.length (A.length + M.length)) (A ++ B) := by
  have hlen : (A ++ M ++ B).length = A.length + M.length + B.length := by simp only [List.length_append]
  have hsz : v.loc.size = A.length + M.length + B.length := by rw [h.size_eq, hlen]
  have hBl : 0 < B.length := List.length_pos_iff.mpr hB
  have hMl : 0 < M.length := List.length_pos_iff.mpr hM
  have hnl : (A ++ B).length = A.length + B.length := by simp only [List.length_append]
  have hok' : ElemsOK v.ps (A ++ B) := by
    intro x hx
    apply h.eok x
    rcases List.mem_append.mp hx with hx | hx
    · exact List.mem_append_left _ (List.mem_append_left _ hx)
    · exact List.mem_append_right _ hx
  obtain ⟨g0, g1, g2, g3, g4⟩ := erase_geometry (ps := v.ps) A M B hB
  -- the distance every tail element travels
  have hD : canonOff v.ps (A ++ M ++ B) (A.length + M.length) - canonOff v.ps (A ++ M ++ B) A.length = nextOff v.ps M := by
    have hj : canonOff v.ps (A ++ M ++ B) (A.length + M.length) = nextOff v.ps (A ++ M) := by
      have := canonOff_at_length (ps := v.ps) (A ++ M) B hB
      simpa [List.length_append] using this
    have hi : canonOff v.ps (A ++ M ++ B) A.length = nextOff v.ps A := by
      have := canonOff_at_length (ps := v.ps) A (M ++ B) (by simp [hB])
      simpa [List.append_assoc] using this
    rw [hj, hi, nextOff_append]; omega
  rw [hD] at g2
  have hdrop := h.destruct_holds A.length (A.length + M.length) (by omega)
  have h0 : Holds (v.destructRange A.length (A.length + M.length)) (A ++ B).length
      (relocRecVar v.ps (A ++ B) A.length (nextOff v.ps M) 0) := by
    intro x
    rw [hdrop x, hnl]
    constructor
    · rintro ⟨k, hk, hout, rfl⟩
      rcases hout with hk1 | hk2
      · refine ⟨k, by omega, ?_⟩
        simp only [relocRecVar, canonRec, Nat.add_zero, hk1, if_true, (g1 k hk1).1, (g1 k hk1).2]
      · refine ⟨k - M.length, by omega, ?_⟩
        have hnl' : ¬ (k - M.length < A.length) := by omega
        obtain ⟨e1, e2, e3⟩ := g2 (k - (A.length + M.length)) (by omega)
        rw [show A.length + M.length + (k - (A.length + M.length)) = k by omega] at e1 e2 e3
        rw [show A.length + (k - (A.length + M.length)) = k - M.length by omega] at e1 e3
        simp only [relocRecVar, canonRec, Nat.add_zero, hnl', if_false, e3, e1]
        congr 1; omega
    · rintro ⟨q, hq, rfl⟩
      by_cases hqa : q < A.length
      · refine ⟨q, by omega, Or.inl hqa, ?_⟩
        simp only [relocRecVar, canonRec, Nat.add_zero, hqa, if_true, (g1 q hqa).1, (g1 q hqa).2]
      · refine ⟨q + M.length, by omega, Or.inr (by omega), ?_⟩
        obtain ⟨e1, e2, e3⟩ := g2 (q - A.length) (by omega)
        rw [show A.length + M.length + (q - A.length) = q + M.length by omega] at e1 e2 e3
        rw [show A.length + (q - A.length) = q by omega] at e1 e3
        simp only [relocRecVar, canonRec, Nat.add_zero, hqa, if_false, e3, e1]
        congr 1; omega
  rw [eraseRange_var_elementwise v _ _ h.notFixed hnt (by omega) (by omega)]
  have hfold := relocate_fold_var v h.lok h.notFixed (A ++ B) hok' A.length M.length (nextOff v.ps M) hMl
    (canonOff v.ps (A ++ M ++ B))
    (by
      intro q hq1 hq2
      rw [hnl] at hq2
      obtain ⟨e1, e2, _⟩ := g2 (q - A.length) (by omega)
      rw [show A.length + M.length + (q - A.length) = q + M.length by omega] at e1 e2
      rw [show A.length + (q - A.length) = q by omega] at e1
      omega)
    (by
      intro q hq1 hq2
      rw [hnl] at hq2
      apply hno
      have := getD_append_right' A B (q - A.length)
      rw [show A.length + (q - A.length) = q by omega] at this
      rw [this, List.getD_eq_getElem?_getD, List.getElem?_eq_getElem (by omega)]
      exact List.getElem_mem _)
    (v.loc.size - (A.length + M.length)) 0 { v with mem := v.destructRange A.length (A.length + M.length) }
    (by rw [hnl]; omega) rfl h.clean
    (by
      intro q hq
      simp only [Nat.add_zero] at hq
      show v.loc.slots q = _
      rw [h.slots_eq q (by omega)]
      by_cases hqa : q < A.length
      · exact ((g1 q hqa).1).symm
      · have : q = A.length := by omega
        subst this
        have h1 := canonOff_at_length (ps := v.ps) A (M ++ B) (by simp [hB])
        have h2 := canonOff_at_length (ps := v.ps) A B hB
        rw [← List.append_assoc] at h1
        rw [h1, h2])
    (by
      intro q _ hq2
      rw [hnl] at hq2
      exact h.slots_eq q (by omega))
    h0
  rw [← List.range_eq_range'] at hfold
  simp only at hfold
  obtain ⟨f1, f2, f3, _, f5, f6⟩ := hfold
  generalize (List.range (v.loc.size - (A.length + M.length))).foldl
    (fun (w : Vec) q => w.relocateOne (A.length + q) (A.length + M.length + q))
    { v with mem := v.destructRange A.length (A.length + M.length) } = w at f1 f2 f3 f5 f6
  have hfw : w.fixedLoc = false := by unfold Vec.fixedLoc; rw [f1]; exact h.notFixed
  have hws : w.loc.size = v.loc.size := f3
  have hn' : v.loc.size - (A.length + M.length - A.length) = A.length + B.length := by omega
  have hcnt : A.length + (0 + (v.loc.size - (A.length + M.length))) = A.length + B.length := by omega
  rw [hn']
  refine ⟨f1 ▸ h.lok, hfw, f1 ▸ hok', ?_, ?_, ?_, ?_, f2⟩
  · simp only [Loc.resize, hfw, Bool.false_eq_true, if_false, hnl]
  · intro q hq
    rw [hnl] at hq
    simp only [Loc.resize, hfw, Bool.false_eq_true, if_false, f1]
    exact f5 q (by omega)
  · simp only [Loc.resize, hfw, Bool.false_eq_true, if_false, f1, hnl]
    rw [hnl] at f6
    refine f6.congr ?_
    intro q hq
    have : q < A.length + (0 + (v.loc.size - (A.length + M.length))) := by omega
    simp only [relocRecVar, canonRec, this, if_true]
  · right
    refine ⟨fun hh => hB (List.append_eq_nil_iff.mp hh).2, ?_⟩
    have hne0 : A.length + B.length ≠ 0 := by omega
    have hlt : A.length + B.length < w.loc.size := by omega
    simp only [Loc.resize, hfw, Bool.false_eq_true, if_false, hne0, hlt, if_true, f1]
    rw [f5 (A.length + B.length) (by omega), ← hnl, canonOff_length]

/-- the condition under which the element-wise relocation of `erase` is sound on the offset-table locator: no element
    behind the erased range is larger than the (storage-aligned) bytes erased -/
def VOp.NoOverlap (ps : List Param) (es : List Elem) : VOp → Prop
  | .erase i => ∀ e ∈ es.drop (i + 1), esz ps e ≤ nextOff ps ((es.drop i).take 1)
  | .eraseRange i j => ∀ e ∈ es.drop j, esz ps e ≤ nextOff ps ((es.drop i).take (j - i))
  | _ => True

theorem erase_var_mid (v : Vec) (i : Nat) (hnf : v.fixedLoc = false) (hlast : i + 1 < v.loc.size) :
    v.erase i = v.eraseRange i (i + 1) := by
  have hnf' : isFixedOrPlain v.ps = false := hnf
  have h1 : i + 1 - i = 1 := by omega
  have hne : i ≠ i + 1 := by omega
  simp only [Vec.erase, Vec.eraseRange, Vec.size, Vec.fixedLoc, hnf', Bool.false_eq_true, if_false, hlast, hne, ne_eq,
    not_false_eq_true, and_self, if_true, h1]

/-- erase(first, last) on the offset-table locator for all value types, given the no-overlap condition -/
theorem VarInv.eraseRange_all {v : Vec} {es : List Elem} (h : VarInv v es) (i j : Nat) (hij : i ≤ j) (hj : j ≤ es.length)
    (hno : v.trivialReloc = true ∨ ∀ e ∈ es.drop j, esz v.ps e ≤ nextOff v.ps ((es.drop i).take (j - i))) :
    VarInv (v.eraseRange i j) (es.take i ++ es.drop j) := by
  cases ht : v.trivialReloc with
  | true => exact h.eraseRange' ht i j hij hj
  | false =>
    have hno' : ∀ e ∈ es.drop j, esz v.ps e ≤ nextOff v.ps ((es.drop i).take (j - i)) := by
      rcases hno with h1 | h1
      · rw [ht] at h1; exact absurd h1 (by simp)
      · exact h1
    by_cases hmove : j < es.length ∧ i < j
    · obtain ⟨he, h1, h2⟩ := split_range es i j hij hj
      have h' : VarInv v (es.take i ++ (es.drop i).take (j - i) ++ es.drop j) := by rw [← he]; exact h
      have := VarInv.eraseRange_elementwise (es.take i) ((es.drop i).take (j - i)) (es.drop j) h' ht
        (by intro hb; have : (es.drop j).length = 0 := by rw [hb]; rfl
            simp at this; omega)
        (by intro hm; rw [hm] at h2; simp at h2; omega)
        hno'
      rw [h1, h2, show i + (j - i) = j by omega] at this
      exact this
    · exact h.eraseRange'_gen i j hij hj (fun h1 h2 => absurd ⟨h1, h2⟩ hmove)

/-- one step on the offset-table locator for all value types -/
theorem VarInv.step_all {v : Vec} {es : List Elem} (h : VarInv v es) (junk : Nat → Nat) (op : VOp)
    (hpre : op.Pre v.ps es) (hno : v.trivialReloc = true ∨ op.NoOverlap v.ps es) :
    VarInv (op.apply junk v) (op.spec es) := by
  have hsz : v.size = es.length := by simp [Vec.size, h.notFixed, h.size_eq]
  cases op with
  | emplace e => exact h.emplaceBack e hpre.1 hpre.2
  | pop =>
    have hl : 0 < es.length := List.length_pos_iff.mpr hpre
    simp only [VOp.apply, VOp.spec]
    rw [popBack_eq_eraseRange v h.notFixed (by rw [h.size_eq]; exact hl), h.size_eq]
    have := h.eraseRange'_gen (es.length - 1) es.length (by omega) (Nat.le_refl _) (fun hh => absurd hh (by omega))
    rw [List.drop_length, List.append_nil] at this
    rw [List.dropLast_eq_take]; exact this
  | erase i =>
    simp only [VOp.apply, VOp.spec]
    have hi : i < es.length := hpre
    have hgoal := h.eraseRange_all i (i + 1) (by omega) hi (by
      rcases hno with h1 | h1
      · exact Or.inl h1
      · right; simpa [VOp.NoOverlap] using h1)
    cases ht : v.trivialReloc with
    | true => rw [erase_eq_eraseRange v i h.notFixed ht (by rw [h.size_eq]; exact hi)]; exact hgoal
    | false =>
      by_cases hlast : i + 1 < v.loc.size
      · rw [erase_var_mid v i h.notFixed hlast]; exact hgoal
      · rw [erase_last_eq_eraseRange v i ht (by rw [hsz]; rw [h.size_eq] at hlast; omega)]; exact hgoal
  | eraseRange i j => exact h.eraseRange_all i j hpre.1 hpre.2 hno
  | clear =>
    simp only [VOp.apply, VOp.spec]
    rw [clear_eq_eraseRange v h.notFixed, h.size_eq]
    have := h.eraseRange'_gen 0 es.length (Nat.zero_le _) (Nat.le_refl _) (fun hh => absurd hh (by omega))
    simpa using this
  | reserve n b => exact h.reserve n b junk

/-- histories in which every erase that relocates a tail meets the no-overlap condition -/
def ValidNoOverlap (ps : List Param) : List Elem → List VOp → Prop
  | _, [] => True
  | es, op :: ops => op.Pre ps es ∧ op.NoOverlap ps es ∧ ValidNoOverlap ps (op.spec es) ops

/-- **every history, all value types, offset-table locator**, as long as no erase relocates an element over its own
    storage -/
theorem VarInv.history_all {v : Vec} {es : List Elem} (h : VarInv v es) (junk : Nat → Nat)
    (ops : List VOp) (hv : ValidNoOverlap v.ps es ops) :
    VarInv (ops.foldl (VOp.apply junk) v) (ops.foldl VOp.spec es) := by
  induction ops generalizing v es with
  | nil => exact h
  | cons op ops ih =>
    simp only [List.foldl_cons]
    have hps := apply_ps junk v op
    apply ih (h.step_all junk op hv.1 (Or.inr hv.2.1))
    rw [hps]; exact hv.2.2

end Cntgs
