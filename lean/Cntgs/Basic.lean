def hello := "world"
