/-
C07 on whole histories: the ownership discipline of the data blocks.

`WOwn w`: the ledger is well-formed, every vector owns a live block of exactly its recorded size obtained from an
allocator equal to its own, no two vectors own the same block, EVERY live data block is owned by some vector (nothing
leaks), and the ledger never recorded an error (double free, wrong size, foreign allocator).  Every operation of the
multi-vector interface preserves it.  (Offset tables are allocated through the same ledger but never returned: the known
finding KF-C07; the statements below are about the data blocks.)
-/
import Cntgs.AllocProofs
import Cntgs.World
import Cntgs.Props.C17
import Cntgs.VectorProofs
namespace Cntgs

structure WOwn (w : World) : Prop where
  wf : w.heap.WF
  owns : ∀ k v, w.vecs k = some v → Owns w.heap w.acfg v.S v.ptr
  excl : ∀ k1 k2 v1 v2 s, w.vecs k1 = some v1 → w.vecs k2 = some v2 → v1.blk = some s → v2.blk = some s → k1 = k2
  noleak : ∀ b ∈ w.heap.live, b.kind = .data → ∃ k v, w.vecs k = some v ∧ v.blk = some b.serial
  noerr : w.heap.errs = []

theorem owns_lt {h : Heap} {c : ACfg} {u : Nat} {p : Ptr} (hw : h.WF) (ho : Owns h c u p) {s : Nat} (hs : p.blk = some s) :
    s < h.next := by
  unfold Owns at ho
  rw [hs] at ho
  obtain ⟨b, hb, rfl, _⟩ := ho
  exact hw.1 b hb

theorem owns_mono {h h' : Heap} {c : ACfg} {u : Nat} {p : Ptr} (ho : Owns h c u p) (hl : ∀ x, x ∈ h.live → x ∈ h'.live) :
    Owns h' c u p := by
  unfold Owns at *
  cases hb : p.blk with
  | none => trivial
  | some s =>
    simp only [hb] at ho ⊢
    obtain ⟨x, hx, h1, h2, h3⟩ := ho
    exact ⟨x, hl x hx, h1, h2, h3⟩

/-- releasing one pointer's block leaves every pointer that holds another block (or none) the owner of its block -/
theorem owns_after_dealloc_other {h : Heap} {c : ACfg} {u u' : Nat} {p q : Ptr} (hw : h.WF) (hp : Owns h c u p)
    (hq : Owns h c u' q) (hne : q.blk = none ∨ q.blk ≠ p.blk) : Owns (p.dealloc h c u) c u' q := by
  obtain ⟨_, _, hiff⟩ := dealloc_owned h hw c u p hp
  unfold Owns at hq ⊢
  cases hb : q.blk with
  | none => trivial
  | some s =>
    simp only [hb] at hq ⊢
    obtain ⟨x, hx, h1, h2, h3⟩ := hq
    refine ⟨x, (hiff x).mpr ⟨hx, ?_⟩, h1, h2, h3⟩
    rcases hne with h0 | h0
    · rw [hb] at h0; exact absurd h0 (by simp)
    · rw [hb] at h0; rw [h1]; exact h0

theorem World.set_get (w : World) (k : Nat) (v : Option Vec) (i : Nat) : (w.set k v).vecs i = if i = k then v else w.vecs i := rfl

/-- in-place operations that leave the owning pointer alone (emplace_back, pop_back, erase, clear) -/
theorem WOwn.upd {w : World} (h : WOwn w) (k : Nat) (f : Vec → Vec)
    (hf : ∀ v, (f v).blk = v.blk ∧ (f v).units = v.units ∧ (f v).alloc = v.alloc ∧ (f v).ps = v.ps) : WOwn (w.upd k f) := by
  unfold World.upd
  cases hv : w.vecs k with
  | none => exact h
  | some v =>
    simp only
    obtain ⟨f1, f2, f3, f4⟩ := hf v
    have hptr : (f v).ptr = v.ptr := by simp [Vec.ptr, f1, f2, f3]
    have hS : (f v).S = v.S := by simp [Vec.S, f4]
    refine ⟨h.wf, ?_, ?_, ?_, h.noerr⟩
    · intro i x hx
      simp only [World.set] at hx
      by_cases hi : i = k
      · simp only [hi, if_true, Option.some.injEq] at hx; subst hx; rw [hptr, hS]; exact h.owns k v hv
      · simp only [hi, if_false] at hx; exact h.owns i x hx
    · intro k1 k2 v1 v2 s h1 h2 b1 b2
      simp only [World.set] at h1 h2
      by_cases e1 : k1 = k <;> by_cases e2 : k2 = k
      · rw [e1, e2]
      · simp only [e1, if_true, Option.some.injEq] at h1; simp only [e2, if_false] at h2
        subst h1; rw [f1] at b1; rw [e1]; exact h.excl k k2 v v2 s hv h2 b1 b2
      · simp only [e2, if_true, Option.some.injEq] at h2; simp only [e1, if_false] at h1
        subst h2; rw [f1] at b2; rw [e2]; exact h.excl k1 k v1 v s h1 hv b1 b2
      · simp only [e1, if_false] at h1; simp only [e2, if_false] at h2; exact h.excl k1 k2 v1 v2 s h1 h2 b1 b2
    · intro b hb hk
      obtain ⟨i, x, hx, hbx⟩ := h.noleak b hb hk
      by_cases hi : i = k
      · subst hi; rw [hv] at hx; cases hx
        exact ⟨i, f v, by simp [World.set], by rw [f1]; exact hbx⟩
      · exact ⟨i, x, by simp [World.set, hi, hx], hbx⟩

/-- move construction: ownership of the block goes to the new vector, the source owns nothing -/
theorem WOwn.move {w : World} (h : WOwn w) (s d : Nat) (hd : w.vecs d = none) (hsd : s ≠ d) : WOwn (w.move s d) := by
  unfold World.move
  cases hv : w.vecs s with
  | none => exact h
  | some vs =>
    simp only
    have hds : d ≠ s := fun e => hsd e.symm
    have hget : ∀ i, ((w.set d (some vs)).set s (some vs.movedFrom)).vecs i =
        if i = s then some vs.movedFrom else if i = d then some vs else w.vecs i := by
      intro i; simp only [World.set]
    refine ⟨h.wf, ?_, ?_, ?_, h.noerr⟩
    · intro i x hx
      show Owns w.heap w.acfg x.S x.ptr
      rw [hget] at hx
      by_cases hi : i = s
      · simp only [hi, if_true, Option.some.injEq] at hx; subst hx; simp [Owns, Vec.ptr, Vec.movedFrom]
      · by_cases hi2 : i = d
        · subst hi2
          simp only [hi, if_false, if_true, Option.some.injEq] at hx; subst hx; exact h.owns s vs hv
        · simp only [hi, hi2, if_false] at hx; exact h.owns i x hx
    · intro k1 k2 v1 v2 b h1 h2 b1 b2
      rw [hget] at h1 h2
      by_cases a1 : k1 = s
      · simp only [a1, if_true, Option.some.injEq] at h1; subst h1; simp [Vec.movedFrom] at b1
      · by_cases a2 : k2 = s
        · simp only [a2, if_true, Option.some.injEq] at h2; subst h2; simp [Vec.movedFrom] at b2
        · simp only [a1, a2, if_false] at h1 h2
          by_cases c1 : k1 = d <;> by_cases c2 : k2 = d
          · rw [c1, c2]
          · simp only [c1, if_true, Option.some.injEq] at h1; simp only [c2, if_false] at h2
            subst h1; exact absurd (h.excl s k2 vs v2 b hv h2 b1 b2) (fun e => a2 e.symm)
          · simp only [c2, if_true, Option.some.injEq] at h2; simp only [c1, if_false] at h1
            subst h2; exact absurd (h.excl k1 s v1 vs b h1 hv b1 b2) a1
          · simp only [c1, c2, if_false] at h1 h2; exact h.excl k1 k2 v1 v2 b h1 h2 b1 b2
    · intro b hb hk
      obtain ⟨i, x, hx, hbx⟩ := h.noleak b hb hk
      by_cases hi : i = s
      · subst hi; rw [hv] at hx; cases hx
        exact ⟨d, vs, by rw [hget]; simp [hds], hbx⟩
      · have hid : i ≠ d := by intro e; rw [e, hd] at hx; exact absurd hx (by simp)
        exact ⟨i, x, by rw [hget]; simp [hi, hid, hx], hbx⟩

/-! ### allocation of a data block plus (for lists with VaryingSize) an offset table -/

theorem allocTable_ok (h : Heap) (hw : h.WF) (fixedLoc : Bool) (alloc cap : Nat) (h' : Heap) (t : Option Nat)
    (ht : allocTable h fixedLoc alloc cap = (h', some t)) :
    h'.WF ∧ h'.errs = h.errs ∧ (∀ x, x ∈ h.live → x ∈ h'.live) ∧ (∀ x ∈ h'.live, x ∈ h.live ∨ x.kind = .table) ∧ h.next ≤ h'.next := by
  unfold allocTable at ht
  split at ht
  · simp only [Prod.mk.injEq, Option.some.injEq] at ht
    obtain ⟨rfl, _⟩ := ht
    exact ⟨hw, rfl, fun _ hx => hx, fun _ hx => Or.inl hx, Nat.le_refl _⟩
  · split at ht <;> simp only [Prod.mk.injEq, Option.some.injEq, reduceCtorEq, and_false] at ht
    rename_i h1 s hal
    obtain ⟨rfl, _⟩ := ht
    obtain ⟨hs, hwf, hlive, herr⟩ := allocate_spec h hw _ _ _ _ s hal
    refine ⟨hwf, herr, fun x hx => by rw [hlive]; exact List.mem_cons_of_mem _ hx, ?_, ?_⟩
    · intro x hx
      rw [hlive] at hx
      rcases List.mem_cons.mp hx with rfl | hx
      · exact Or.inr rfl
      · exact Or.inl hx
    · unfold Heap.allocate at hal
      split at hal
      · simp at hal
      · simp only [Prod.mk.injEq, Option.some.injEq] at hal
        obtain ⟨rfl, _⟩ := hal
        simp

theorem allocPair_ok (h : Heap) (hw : h.WF) (c : ACfg) (fixedLoc : Bool) (units unit alloc cap : Nat) (h2 : Heap) (p : Ptr)
    (t : Option Nat) (hp : allocPair h c fixedLoc units unit alloc cap = (h2, some (p, t))) :
    h2.WF ∧ h2.errs = h.errs ∧ p = ⟨some h.next, units, alloc⟩ ∧ Owns h2 c unit p ∧
    (∀ x, x ∈ h.live → x ∈ h2.live) ∧ (∀ x ∈ h2.live, x ∈ h.live ∨ x.serial = h.next ∨ x.kind = .table) := by
  unfold allocPair at hp
  cases hm : Ptr.make h units unit alloc with
  | mk h1 r =>
    rw [hm] at hp
    cases r with
    | none => simp at hp
    | some p' =>
      simp only at hp
      obtain ⟨hown, hwf1, herr1, hal, hun, hblk⟩ := make_owns h hw c units unit alloc h1 p' hm
      cases ht : allocTable h1 fixedLoc alloc cap with
      | mk h2' t' =>
        rw [ht] at hp
        cases t' with
        | none => simp at hp
        | some tt =>
          simp only [Prod.mk.injEq, Option.some.injEq] at hp
          obtain ⟨rfl, rfl, rfl⟩ := hp
          obtain ⟨hwf2, herr2, hsup, hnew, _⟩ := allocTable_ok h1 hwf1 fixedLoc alloc cap _ _ ht
          -- the live set after `make`
          have hlive1 : ∀ x, x ∈ h1.live ↔ x ∈ h.live ∨ x = ⟨h.next, alloc, units * unit, .data⟩ := by
            unfold Ptr.make at hm
            cases hal' : h.allocate alloc (units * unit) .data with
            | mk hh r' =>
              rw [hal'] at hm
              cases r' with
              | none => simp at hm
              | some s =>
                simp only [Prod.mk.injEq, Option.some.injEq] at hm
                obtain ⟨rfl, _⟩ := hm
                obtain ⟨hs, _, hl, _⟩ := allocate_spec h hw _ _ _ _ s hal'
                intro x; rw [hl, hs]; simp [or_comm]
          refine ⟨hwf2, by rw [herr2, herr1], ?_, owns_mono hown hsup, ?_, ?_⟩
          · cases p' with
            | mk b u a => simp only at hal hun hblk; rw [hal, hun, hblk]
          · intro x hx; exact hsup x ((hlive1 x).mpr (Or.inl hx))
          · intro x hx
            rcases hnew x hx with h1' | h1'
            · rcases (hlive1 x).mp h1' with h0 | h0
              · exact Or.inl h0
              · exact Or.inr (Or.inl (by rw [h0]))
            · exact Or.inr (Or.inr h1')

theorem allocate_next_le (h : Heap) (a bytes : Nat) (k : BKind) : h.next ≤ (h.allocate a bytes k).1.next := by
  unfold Heap.allocate
  split
  · exact Nat.le_refl _
  · simp

theorem dealloc_next (p : Ptr) (h : Heap) (c : ACfg) (u : Nat) : (p.dealloc h c u).next = h.next := by
  unfold Ptr.dealloc
  split
  · unfold Heap.deallocate; split <;> rfl
  · rfl

theorem make_next_le (h : Heap) (units unit alloc : Nat) : h.next ≤ (Ptr.make h units unit alloc).1.next := by
  unfold Ptr.make
  have := allocate_next_le h alloc (units * unit) .data
  cases hal : h.allocate alloc (units * unit) .data with
  | mk h1 r => rw [hal] at this; cases r <;> exact this

theorem allocTable_next_le (h : Heap) (fixedLoc : Bool) (alloc cap : Nat) : h.next ≤ (allocTable h fixedLoc alloc cap).1.next := by
  unfold allocTable
  split
  · exact Nat.le_refl _
  · have := allocate_next_le h alloc (Vec.tableBytes cap) .table
    cases hal : h.allocate alloc (Vec.tableBytes cap) .table with
    | mk h1 r => rw [hal] at this; cases r <;> exact this

/-- a pair allocation that threw: same live blocks, no error, still well-formed -/
theorem allocPair_fail (h : Heap) (hw : h.WF) (c : ACfg) (fixedLoc : Bool) (units unit alloc cap : Nat) (h' : Heap)
    (hf : allocPair h c fixedLoc units unit alloc cap = (h', none)) : h'.live = h.live ∧ h'.errs = h.errs ∧ h'.WF := by
  obtain ⟨e1, e2⟩ := C17.allocPair_fault h hw c fixedLoc units unit alloc cap h' hf
  refine ⟨e1, e2, ?_, by rw [e1]; exact hw.2⟩
  have hn : h.next ≤ h'.next := by
    unfold allocPair at hf
    have h1n := make_next_le h units unit alloc
    cases hm : Ptr.make h units unit alloc with
    | mk h1 r =>
      rw [hm] at hf h1n
      cases r with
      | none => simp only [Prod.mk.injEq, and_true] at hf; rw [← hf]; exact h1n
      | some p =>
        simp only at hf
        have h2n := allocTable_next_le h1 fixedLoc alloc cap
        cases ht : allocTable h1 fixedLoc alloc cap with
        | mk h2 t =>
          rw [ht] at hf h2n
          cases t with
          | some tt => simp at hf
          | none =>
            simp only [Prod.mk.injEq, and_true] at hf
            rw [← hf, dealloc_next]
            simp only at h1n h2n
            omega
  intro b hb
  rw [e1] at hb
  have := hw.1 b hb
  omega

/-- nothing but the fault schedule and fresh-serial counter of the ledger changed -/
theorem WOwn.of_same_live {w w' : World} (h : WOwn w) (e1 : w'.heap.live = w.heap.live) (e2 : w'.heap.errs = w.heap.errs)
    (e3 : w'.heap.WF) (hv : w'.vecs = w.vecs ∧ w'.acfg = w.acfg) : WOwn w' := by
  refine ⟨e3, ?_, ?_, ?_, by rw [e2]; exact h.noerr⟩
  · intro k v hk
    rw [hv.1] at hk; rw [hv.2]
    exact owns_mono (h.owns k v hk) (fun x hx => by rw [e1]; exact hx)
  · intro k1 k2 v1 v2 s h1 h2; rw [hv.1] at h1 h2; exact h.excl k1 k2 v1 v2 s h1 h2
  · intro b hb hk; rw [e1] at hb; rw [hv.1]; exact h.noleak b hb hk

/-- construction -/
theorem WOwn.new {w : World} (h : WOwn w) (k : Nat) (ps : List Param) (fs : List Nat) (cap bytes alloc : Nat)
    (hk : w.vecs k = none) : WOwn (w.new k ps fs cap bytes alloc) := by
  unfold World.new
  simp only
  cases hp : allocPair w.heap w.acfg (Vec.new ps fs cap bytes w.junk).fixedLoc (Vec.new ps fs cap bytes w.junk).units
      (Vec.new ps fs cap bytes w.junk).S alloc cap with
  | mk h1 r =>
    cases r with
    | none =>
      -- the allocation threw: the ledger holds the same blocks as before (C17), no vector changed
      simp only
      obtain ⟨e1, e2, e3⟩ := allocPair_fail _ h.wf _ _ _ _ _ _ _ hp
      exact WOwn.of_same_live h e1 e2 e3 ⟨rfl, rfl⟩
    | some pt =>
      obtain ⟨p, t⟩ := pt
      simp only
      obtain ⟨hwf, herr, hpeq, hown, hsup, hnew⟩ := allocPair_ok _ h.wf _ _ _ _ _ _ _ _ _ hp
      have hS : ({ ((Vec.new ps fs cap bytes w.junk).setPtr p) with tbl := t } : Vec).S = (Vec.new ps fs cap bytes w.junk).S := rfl
      have hptr : ({ ((Vec.new ps fs cap bytes w.junk).setPtr p) with tbl := t } : Vec).ptr = p := by
        rw [hpeq]; rfl
      refine ⟨hwf, ?_, ?_, ?_, by rw [herr]; exact h.noerr⟩
      · intro i x hx
        show Owns h1 w.acfg x.S x.ptr
        simp only [World.set] at hx
        by_cases hi : i = k
        · simp only [hi, if_true, Option.some.injEq] at hx; subst hx; rw [hptr, hS]; exact hown
        · simp only [hi, if_false] at hx; exact owns_mono (h.owns i x hx) hsup
      · intro k1 k2 v1 v2 s h1' h2' b1 b2
        simp only [World.set] at h1' h2'
        have hfresh : ∀ i x, w.vecs i = some x → x.blk ≠ some w.heap.next := by
          intro i x hx hb
          have := owns_lt h.wf (h.owns i x hx) (s := w.heap.next) hb
          omega
        by_cases e1 : k1 = k <;> by_cases e2 : k2 = k
        · rw [e1, e2]
        · simp only [e1, if_true, Option.some.injEq] at h1'; simp only [e2, if_false] at h2'
          subst h1'
          have : s = w.heap.next := by
            have : (some s : Option Nat) = p.blk := by simpa [Vec.setPtr] using b1.symm
            rw [hpeq] at this; simpa using this
          exact absurd (this ▸ b2) (hfresh k2 v2 h2')
        · simp only [e2, if_true, Option.some.injEq] at h2'; simp only [e1, if_false] at h1'
          subst h2'
          have : s = w.heap.next := by
            have : (some s : Option Nat) = p.blk := by simpa [Vec.setPtr] using b2.symm
            rw [hpeq] at this; simpa using this
          exact absurd (this ▸ b1) (hfresh k1 v1 h1')
        · simp only [e1, if_false] at h1'; simp only [e2, if_false] at h2'; exact h.excl k1 k2 v1 v2 s h1' h2' b1 b2
      · intro b hb hkd
        rcases hnew b hb with h0 | h0 | h0
        · obtain ⟨i, x, hx, hbx⟩ := h.noleak b h0 hkd
          have hik : i ≠ k := by intro e; rw [e, hk] at hx; exact absurd hx (by simp)
          exact ⟨i, x, by simp [World.set, hik, hx], hbx⟩
        · refine ⟨k, { ((Vec.new ps fs cap bytes w.junk).setPtr p) with tbl := t }, by simp [World.set], ?_⟩
          show p.blk = some b.serial
          rw [hpeq, h0]
        · rw [h0] at hkd; exact absurd hkd (by simp)

/-- a new vector `vn` that owns the fresh block `w.heap.next` is installed under a free name -/
theorem WOwn.install {w : World} (h : WOwn w) (k : Nat) (hk : w.vecs k = none) (h1 : Heap) (hwf : h1.WF)
    (herr : h1.errs = w.heap.errs) (hsup : ∀ x, x ∈ w.heap.live → x ∈ h1.live)
    (hnew : ∀ x ∈ h1.live, x ∈ w.heap.live ∨ x.serial = w.heap.next ∨ x.kind = .table)
    (vn : Vec) (hown : Owns h1 w.acfg vn.S vn.ptr) (hblk : vn.blk = some w.heap.next) (t : Bool) :
    WOwn { (w.set k (some vn)) with heap := h1, threw := t } := by
  refine ⟨hwf, ?_, ?_, ?_, by show h1.errs = []; rw [herr]; exact h.noerr⟩
  · intro i x hx
    show Owns h1 w.acfg x.S x.ptr
    simp only [World.set] at hx
    by_cases hi : i = k
    · simp only [hi, if_true, Option.some.injEq] at hx; subst hx; exact hown
    · simp only [hi, if_false] at hx; exact owns_mono (h.owns i x hx) hsup
  · intro k1 k2 v1 v2 s h1' h2' b1 b2
    simp only [World.set] at h1' h2'
    have hfresh : ∀ i x, w.vecs i = some x → x.blk ≠ some w.heap.next := by
      intro i x hx hb
      have := owns_lt h.wf (h.owns i x hx) (s := w.heap.next) hb
      omega
    by_cases e1 : k1 = k <;> by_cases e2 : k2 = k
    · rw [e1, e2]
    · simp only [e1, if_true, Option.some.injEq] at h1'; simp only [e2, if_false] at h2'
      subst h1'
      rw [hblk] at b1; cases b1
      exact absurd b2 (hfresh k2 v2 h2')
    · simp only [e2, if_true, Option.some.injEq] at h2'; simp only [e1, if_false] at h1'
      subst h2'
      rw [hblk] at b2; cases b2
      exact absurd b1 (hfresh k1 v1 h1')
    · simp only [e1, if_false] at h1'; simp only [e2, if_false] at h2'; exact h.excl k1 k2 v1 v2 s h1' h2' b1 b2
  · intro b hb hkd
    rcases hnew b hb with h0 | h0 | h0
    · obtain ⟨i, x, hx, hbx⟩ := h.noleak b h0 hkd
      have hik : i ≠ k := by intro e; rw [e, hk] at hx; exact absurd hx (by simp)
      exact ⟨i, x, by simp [World.set, hik, hx], hbx⟩
    · exact ⟨k, vn, by simp [World.set], by rw [hblk, h0]⟩
    · rw [h0] at hkd; exact absurd hkd (by simp)

/-- vector `k` gives its block back and takes over the fresh block `w.heap.next` (grow, reallocating assignment) -/
theorem WOwn.replace {w : World} (h : WOwn w) (k : Nat) (v : Vec) (hv : w.vecs k = some v) (h1 : Heap) (hwf : h1.WF)
    (herr : h1.errs = w.heap.errs) (hsup : ∀ x, x ∈ w.heap.live → x ∈ h1.live)
    (hnew : ∀ x ∈ h1.live, x ∈ w.heap.live ∨ x.serial = w.heap.next ∨ x.kind = .table)
    (vn : Vec) (hown : Owns h1 w.acfg vn.S vn.ptr) (hblk : vn.blk = some w.heap.next) (t : Bool) :
    WOwn { (w.set k (some vn)) with heap := v.ptr.dealloc h1 w.acfg v.S, threw := t } := by
  have hvown : Owns h1 w.acfg v.S v.ptr := owns_mono (h.owns k v hv) hsup
  obtain ⟨d1, d2, d3⟩ := dealloc_owned h1 hwf w.acfg v.S v.ptr hvown
  have hvlt : ∀ s, v.blk = some s → s < w.heap.next := fun s hs => owns_lt h.wf (h.owns k v hv) (p := v.ptr) hs
  have hne : vn.ptr.blk = none ∨ vn.ptr.blk ≠ v.ptr.blk := by
    right
    show vn.blk ≠ v.blk
    rw [hblk]
    intro e
    have := hvlt _ e.symm
    omega
  refine ⟨d2, ?_, ?_, ?_, by show (v.ptr.dealloc h1 w.acfg v.S).errs = []; rw [d1, herr]; exact h.noerr⟩
  · intro i x hx
    show Owns (v.ptr.dealloc h1 w.acfg v.S) w.acfg x.S x.ptr
    simp only [World.set] at hx
    by_cases hi : i = k
    · simp only [hi, if_true, Option.some.injEq] at hx; subst hx
      exact owns_after_dealloc_other hwf hvown hown hne
    · simp only [hi, if_false] at hx
      refine owns_after_dealloc_other hwf hvown (owns_mono (h.owns i x hx) hsup) ?_
      cases hb : x.blk with
      | none => exact Or.inl hb
      | some s =>
        right
        show x.blk ≠ v.blk
        intro e
        rw [hb] at e
        exact hi (h.excl i k x v s hx hv hb e.symm)
  · intro k1 k2 v1 v2 s h1' h2' b1 b2
    simp only [World.set] at h1' h2'
    have hfresh : ∀ i x, w.vecs i = some x → x.blk ≠ some w.heap.next := by
      intro i x hx hb
      have := owns_lt h.wf (h.owns i x hx) (s := w.heap.next) hb
      omega
    by_cases e1 : k1 = k <;> by_cases e2 : k2 = k
    · rw [e1, e2]
    · simp only [e1, if_true, Option.some.injEq] at h1'; simp only [e2, if_false] at h2'
      subst h1'
      rw [hblk] at b1; cases b1
      exact absurd b2 (hfresh k2 v2 h2')
    · simp only [e2, if_true, Option.some.injEq] at h2'; simp only [e1, if_false] at h1'
      subst h2'
      rw [hblk] at b2; cases b2
      exact absurd b1 (hfresh k1 v1 h1')
    · simp only [e1, if_false] at h1'; simp only [e2, if_false] at h2'; exact h.excl k1 k2 v1 v2 s h1' h2' b1 b2
  · intro b hb hkd
    obtain ⟨hb1, hbne⟩ := (d3 b).mp hb
    rcases hnew b hb1 with h0 | h0 | h0
    · obtain ⟨i, x, hx, hbx⟩ := h.noleak b h0 hkd
      by_cases hik : i = k
      · subst hik
        rw [hv] at hx; cases hx
        exact absurd hbx.symm hbne
      · exact ⟨i, x, by simp [World.set, hik, hx], hbx⟩
    · exact ⟨k, vn, by simp [World.set], by rw [hblk, h0]⟩
    · rw [h0] at hkd; exact absurd hkd (by simp)

/-- vector `k` is replaced by a vector with the same owning pointer (bookkeeping and contents may differ) -/
theorem WOwn.set_same {w : World} (h : WOwn w) (k : Nat) (v x : Vec) (hv : w.vecs k = some v) (hp : x.ptr = v.ptr) (hS : x.S = v.S)
    (t : Bool) : WOwn { (w.set k (some x)) with threw := t } := by
  have hb : x.blk = v.blk := by have := congrArg Ptr.blk hp; exact this
  refine ⟨h.wf, ?_, ?_, ?_, h.noerr⟩
  · intro i y hy
    show Owns w.heap w.acfg y.S y.ptr
    simp only [World.set] at hy
    by_cases hi : i = k
    · simp only [hi, if_true, Option.some.injEq] at hy; subst hy; rw [hp, hS]; exact h.owns k v hv
    · simp only [hi, if_false] at hy; exact h.owns i y hy
  · intro k1 k2 v1 v2 s h1 h2 b1 b2
    simp only [World.set] at h1 h2
    by_cases e1 : k1 = k <;> by_cases e2 : k2 = k
    · rw [e1, e2]
    · simp only [e1, if_true, Option.some.injEq] at h1; simp only [e2, if_false] at h2
      subst h1; rw [hb] at b1; rw [e1]; exact h.excl k k2 v v2 s hv h2 b1 b2
    · simp only [e2, if_true, Option.some.injEq] at h2; simp only [e1, if_false] at h1
      subst h2; rw [hb] at b2; rw [e2]; exact h.excl k1 k v1 v s h1 hv b1 b2
    · simp only [e1, if_false] at h1; simp only [e2, if_false] at h2; exact h.excl k1 k2 v1 v2 s h1 h2 b1 b2
  · intro b hbl hk
    obtain ⟨i, y, hy, hby⟩ := h.noleak b hbl hk
    by_cases hi : i = k
    · subst hi; rw [hv] at hy; cases hy
      exact ⟨i, x, by simp [World.set], by rw [hb]; exact hby⟩
    · exact ⟨i, y, by simp [World.set, hi, hy], hby⟩

/-- the ledger gained offset tables only -/
theorem WOwn.add_tables {w : World} (h : WOwn w) (h' : Heap) (hwf : h'.WF) (herr : h'.errs = w.heap.errs)
    (hsup : ∀ x, x ∈ w.heap.live → x ∈ h'.live) (hnew : ∀ x ∈ h'.live, x ∈ w.heap.live ∨ x.kind = .table) (t : Bool) :
    WOwn { w with heap := h', threw := t } := by
  refine ⟨hwf, fun k v hk => owns_mono (h.owns k v hk) hsup, h.excl, ?_, by show h'.errs = []; rw [herr]; exact h.noerr⟩
  intro b hb hk
  rcases hnew b hb with h0 | h0
  · exact h.noleak b h0 hk
  · rw [h0] at hk; exact absurd hk (by simp)

theorem WOwn.threw {w : World} (h : WOwn w) (t : Bool) : WOwn { w with threw := t } :=
  ⟨h.wf, h.owns, h.excl, h.noleak, h.noerr⟩

/-- destruction returns the block -/
theorem WOwn.destroy {w : World} (h : WOwn w) (k : Nat) : WOwn (w.destroy k) := by
  unfold World.destroy
  cases hv : w.vecs k with
  | none => exact h
  | some v =>
    simp only
    obtain ⟨d1, d2, d3⟩ := dealloc_owned w.heap h.wf w.acfg v.S v.ptr (h.owns k v hv)
    refine ⟨d2, ?_, ?_, ?_, by show (v.ptr.dealloc w.heap w.acfg v.S).errs = []; rw [d1]; exact h.noerr⟩
    · intro i x hx
      show Owns (v.ptr.dealloc w.heap w.acfg v.S) w.acfg x.S x.ptr
      simp only [World.set] at hx
      by_cases hi : i = k
      · simp [hi] at hx
      · simp only [hi, if_false] at hx
        refine owns_after_dealloc_other h.wf (h.owns k v hv) (h.owns i x hx) ?_
        cases hb : x.blk with
        | none => exact Or.inl hb
        | some s =>
          right
          show x.blk ≠ v.blk
          intro e; rw [hb] at e
          exact hi (h.excl i k x v s hx hv hb e.symm)
    · intro k1 k2 v1 v2 s h1 h2 b1 b2
      simp only [World.set] at h1 h2
      by_cases e1 : k1 = k
      · simp [e1] at h1
      · by_cases e2 : k2 = k
        · simp [e2] at h2
        · simp only [e1, e2, if_false] at h1 h2; exact h.excl k1 k2 v1 v2 s h1 h2 b1 b2
    · intro b hb hkd
      obtain ⟨hb1, hbne⟩ := (d3 b).mp hb
      obtain ⟨i, x, hx, hbx⟩ := h.noleak b hb1 hkd
      by_cases hi : i = k
      · subst hi; rw [hv] at hx; cases hx; exact absurd hbx.symm hbne
      · exact ⟨i, x, by simp [World.set, hi, hx], hbx⟩

/-- reserve / grow -/
theorem WOwn.reserve {w : World} (h : WOwn w) (k n b : Nat) : WOwn (w.reserve k n b) := by
  unfold World.reserve
  cases hv : w.vecs k with
  | none => exact h
  | some v =>
    simp only
    by_cases hc : v.cap < n
    · simp only [hc, if_true]
      cases hp : allocPair w.heap w.acfg v.fixedLoc (v.reserve n b w.junk).units v.S v.alloc n with
      | mk h1 r =>
        cases r with
        | none =>
          simp only
          obtain ⟨e1, e2, e3⟩ := allocPair_fail _ h.wf _ _ _ _ _ _ _ hp
          exact WOwn.of_same_live h e1 e2 e3 ⟨rfl, rfl⟩
        | some pt =>
          obtain ⟨p, t⟩ := pt
          simp only
          obtain ⟨hwf, herr, hpeq, hown, hsup, hnew⟩ := allocPair_ok _ h.wf _ _ _ _ _ _ _ _ _ hp
          have hreset : (v.ptr.reset h1 w.acfg v.S p) = (v.ptr.dealloc h1 w.acfg v.S, ⟨p.blk, p.units, v.alloc⟩, { p with blk := none, units := 0 }) := rfl
          rw [hreset]
          simp only
          have hvn : ({ ((v.reserve n b w.junk).setPtr ⟨p.blk, p.units, v.alloc⟩) with tbl := t } : Vec).ptr = p := by rw [hpeq]; rfl
          have hSn : ({ ((v.reserve n b w.junk).setPtr ⟨p.blk, p.units, v.alloc⟩) with tbl := t } : Vec).S = v.S := by
            show (v.reserve n b w.junk).S = v.S
            unfold Vec.reserve; split <;> rfl
          exact h.replace k v hv h1 hwf herr hsup hnew _ (by rw [hvn, hSn]; exact hown) (by show p.blk = _; rw [hpeq]) false
    · simp only [hc, if_false]; exact h.threw false

/-- copy construction -/
theorem WOwn.copy {w : World} (h : WOwn w) (s d : Nat) (hd : w.vecs d = none) : WOwn (w.copy s d) := by
  unfold World.copy
  cases hv : w.vecs s with
  | none => exact h
  | some vs =>
    simp only
    cases hp : allocPair w.heap w.acfg vs.fixedLoc vs.units vs.S (socc vs.alloc) vs.cap with
    | mk h1 r =>
      cases r with
      | none =>
        simp only
        obtain ⟨e1, e2, e3⟩ := allocPair_fail _ h.wf _ _ _ _ _ _ _ hp
        exact WOwn.of_same_live h e1 e2 e3 ⟨rfl, rfl⟩
      | some pt =>
        obtain ⟨p, t⟩ := pt
        simp only
        obtain ⟨hwf, herr, hpeq, hown, hsup, hnew⟩ := allocPair_ok _ h.wf _ _ _ _ _ _ _ _ _ hp
        have hvn : ({ (vs.setPtr p) with tbl := t, loc := vs.loc.relocated w.junk } : Vec).ptr = p := by rw [hpeq]; rfl
        exact h.install d hd h1 hwf herr hsup hnew _ (by rw [hvn]; exact hown) (by show p.blk = _; rw [hpeq]) false

/-- vector `k` is replaced by a vector that holds the same block with the same size and owns it (its allocator may have been
    replaced by an equal one) -/
theorem WOwn.set_owner {w : World} (h : WOwn w) (k : Nat) (v x : Vec) (hv : w.vecs k = some v) (hb : x.blk = v.blk)
    (hown : Owns w.heap w.acfg x.S x.ptr) (t : Bool) : WOwn { (w.set k (some x)) with threw := t } := by
  refine ⟨h.wf, ?_, ?_, ?_, h.noerr⟩
  · intro i y hy
    show Owns w.heap w.acfg y.S y.ptr
    simp only [World.set] at hy
    by_cases hi : i = k
    · simp only [hi, if_true, Option.some.injEq] at hy; subst hy; exact hown
    · simp only [hi, if_false] at hy; exact h.owns i y hy
  · intro k1 k2 v1 v2 s h1 h2 b1 b2
    simp only [World.set] at h1 h2
    by_cases e1 : k1 = k <;> by_cases e2 : k2 = k
    · rw [e1, e2]
    · simp only [e1, if_true, Option.some.injEq] at h1; simp only [e2, if_false] at h2
      subst h1; rw [hb] at b1; rw [e1]; exact h.excl k k2 v v2 s hv h2 b1 b2
    · simp only [e2, if_true, Option.some.injEq] at h2; simp only [e1, if_false] at h1
      subst h2; rw [hb] at b2; rw [e2]; exact h.excl k1 k v1 v s h1 hv b1 b2
    · simp only [e1, if_false] at h1; simp only [e2, if_false] at h2; exact h.excl k1 k2 v1 v2 s h1 h2 b1 b2
  · intro b hbl hk
    obtain ⟨i, y, hy, hby⟩ := h.noleak b hbl hk
    by_cases hi : i = k
    · subst hi; rw [hv] at hy; cases hy
      exact ⟨i, x, by simp [World.set], by rw [hb]; exact hby⟩
    · exact ⟨i, y, by simp [World.set, hi, hy], hby⟩

/-- one data block was allocated (serial `w.heap.next`) and nothing else happened to the ledger -/
theorem allocate_data_ok (h : Heap) (hw : h.WF) (a bytes : Nat) (h1 : Heap) (s : Nat)
    (hal : h.allocate a bytes .data = (h1, some s)) :
    s = h.next ∧ h1.WF ∧ h1.errs = h.errs ∧ (∀ x, x ∈ h.live → x ∈ h1.live) ∧
    (∀ x ∈ h1.live, x ∈ h.live ∨ x.serial = h.next ∨ x.kind = .table) ∧
    (⟨s, a, bytes, .data⟩ : Blk) ∈ h1.live := by
  obtain ⟨hs, hwf, hlive, herr⟩ := allocate_spec h hw a bytes .data h1 s hal
  refine ⟨hs, hwf, herr, fun x hx => by rw [hlive]; exact List.mem_cons_of_mem _ hx, ?_, by rw [hlive]; simp⟩
  intro x hx
  rw [hlive] at hx
  rcases List.mem_cons.mp hx with rfl | hx
  · exact Or.inr (Or.inl hs)
  · exact Or.inl hx

/-- the pointer-level reallocation inside a world: vector `k` (current pointer `v.ptr`) gets a fresh block from `newAlloc` -/
theorem WOwn.reallocate {w : World} (h : WOwn w) (k : Nat) (v : Vec) (hv : w.vecs k = some v) (newAlloc units : Nat)
    (mk : Ptr → Vec) (hmk : ∀ p, (mk p).ptr = p ∧ (mk p).S = v.S) (t : Bool) :
    let r := v.ptr.reallocate w.heap w.acfg v.S newAlloc units
    WOwn { (w.set k (some (mk r.2.1))) with heap := r.1, threw := t } := by
  unfold Ptr.reallocate
  cases hal : w.heap.allocate newAlloc (units * v.S) .data with
  | mk h1 r =>
    cases r with
    | none =>
      simp only
      obtain ⟨e1, e2, e3⟩ := allocate_fail _ _ _ _ _ hal
      have hwf1 : h1.WF := ⟨fun b hb => by rw [e3]; exact h.wf.1 b (by rw [← e1]; exact hb), by rw [e1]; exact h.wf.2⟩
      have h0 : WOwn { w with heap := h1 } := WOwn.of_same_live h e1 e2 hwf1 ⟨rfl, rfl⟩
      exact h0.set_same k v (mk v.ptr) hv (hmk v.ptr).1 (hmk v.ptr).2 t
    | some s =>
      simp only
      obtain ⟨hs, hwf, herr, hsup, hnew, hmem⟩ := allocate_data_ok _ h.wf _ _ _ _ hal
      have hown : Owns h1 w.acfg (mk ⟨some s, units, newAlloc⟩).S (mk ⟨some s, units, newAlloc⟩).ptr := by
        rw [(hmk _).1, (hmk _).2]
        simp only [Owns]
        exact ⟨_, hmem, rfl, rfl, w.acfg.eq_refl _⟩
      exact h.replace k v hv h1 hwf herr hsup hnew _ hown (by
        have := congrArg Ptr.blk (hmk ⟨some s, units, newAlloc⟩).1
        rw [← hs]; exact this) t

/-- the owning pointer's copy assignment inside a world: the owner at name `d` (current pointer `vd.ptr`) is assigned the
    pointer `o`; `mk` rebuilds the owner around the resulting pointer -/
theorem WOwn.ptr_copyAssign {w : World} (h : WOwn w) (d : Nat) (vd : Vec) (hvd : w.vecs d = some vd) (o : Ptr)
    (mk : Ptr → Vec) (hmk : ∀ p, (mk p).ptr = p ∧ (mk p).S = vd.S) (t : Bool) :
    WOwn { (w.set d (some (mk (vd.ptr.copyAssign w.heap w.acfg vd.S o).2.1))) with
      heap := (vd.ptr.copyAssign w.heap w.acfg vd.S o).1, threw := t } := by
  unfold Ptr.copyAssign
  by_cases hb : (w.acfg.pocca && !w.acfg.ae && !w.acfg.eq vd.ptr.alloc o.alloc) = true
  · simp only [hb, if_true]
    exact h.reallocate d vd hvd o.alloc o.units mk hmk t
  · simp only [hb, Bool.false_eq_true, if_false]
    -- the allocator is replaced by an equal one (or kept)
    have hp1 : Owns w.heap w.acfg vd.S (if w.acfg.pocca = true then { vd.ptr with alloc := o.alloc } else vd.ptr) := by
      by_cases hpc : w.acfg.pocca = true
      · simp only [hpc, if_true]
        apply owns_propagate w.heap w.acfg vd.S vd.ptr o.alloc (h.owns d vd hvd)
        simp only [hpc, Bool.true_and, Bool.and_eq_true, Bool.not_eq_true', not_and, Bool.not_eq_false] at hb
        simp only [ACfg.eq, Bool.or_eq_true, beq_iff_eq]
        by_cases hae : w.acfg.ae = true
        · exact Or.inl hae
        · have := hb (by simpa using hae)
          simp only [ACfg.eq, Bool.or_eq_true, beq_iff_eq] at this
          exact this
      · simp only [hpc, Bool.false_eq_true, if_false]; exact h.owns d vd hvd
    have hblk1 : (if w.acfg.pocca = true then { vd.ptr with alloc := o.alloc } else vd.ptr).blk = vd.blk := by
      by_cases hpc : w.acfg.pocca = true <;> simp [hpc, Vec.ptr, Vec.clear]
    generalize (if w.acfg.pocca = true then { vd.ptr with alloc := o.alloc } else vd.ptr) = p1 at hp1 hblk1
    -- intermediate world: vector d carries p1
    have hw1 : WOwn { (w.set d (some (mk p1))) with threw := t } :=
      h.set_owner d vd (mk p1) hvd (by have := congrArg Ptr.blk (hmk p1).1; exact this.trans hblk1)
        (by rw [(hmk p1).1, (hmk p1).2]; exact hp1) t
    by_cases hneed : (decide (p1.units < o.units) || p1.blk.isNone) = true
    · simp only [hneed, if_true]
      have := hw1.reallocate d (mk p1) (by simp [World.set]) p1.alloc o.units mk
        (fun p => ⟨(hmk p).1, (hmk p).2.trans (hmk p1).2.symm⟩) t
      simp only [(hmk p1).1, (hmk p1).2] at this
      have hset : ∀ (x : Vec), ((w.set d (some (mk p1))).set d (some x)).vecs = (w.set d (some x)).vecs := by
        intro x; funext i; simp only [World.set]; by_cases hi : i = d <;> simp [hi]
      refine ⟨this.wf, ?_, ?_, ?_, this.noerr⟩
      · intro i x hx; exact this.owns i x (by show ((w.set d _).set d _).vecs i = _; rw [hset]; exact hx)
      · intro k1 k2 v1 v2 b h1 h2; exact this.excl k1 k2 v1 v2 b (by show ((w.set d _).set d _).vecs k1 = _; rw [hset]; exact h1)
          (by show ((w.set d _).set d _).vecs k2 = _; rw [hset]; exact h2)
      · intro b hbl hk
        obtain ⟨i, x, hx, hbx⟩ := this.noleak b hbl hk
        exact ⟨i, x, by have : ((w.set d _).set d _).vecs i = some x := hx
                        rw [hset] at this; exact this, hbx⟩
    · simp only [hneed, Bool.false_eq_true, if_false]
      exact hw1

/-- copy assignment `d = s` -/
theorem WOwn.copyAssign {w : World} (h : WOwn w) (s d : Nat) : WOwn (w.copyAssign s d) := by
  unfold World.copyAssign
  by_cases hsd : s = d
  · simp only [hsd, if_true]; exact h.threw false
  · simp only [hsd, if_false]
    cases hvs : w.vecs s with
    | none => exact h
    | some vs =>
      cases hvd : w.vecs d with
      | none => exact h
      | some vd =>
        simp only
        -- the target is emptied first; its owning pointer is untouched
        have hclr : vd.clear.ptr = vd.ptr ∧ vd.clear.S = vd.S := ⟨rfl, rfl⟩
        -- after the pointer assignment: a world whose vector `d` is `vd.clear` with the assigned pointer
        have hstep : ∀ (t : Bool), WOwn { (w.set d (some (vd.clear.setPtr (vd.clear.ptr.copyAssign w.heap w.acfg vd.S vs.ptr).2.1))) with
            heap := (vd.clear.ptr.copyAssign w.heap w.acfg vd.S vs.ptr).1, threw := t } :=
          fun t => h.ptr_copyAssign d vd hvd vs.ptr (fun p => vd.clear.setPtr p) (fun p => ⟨by cases p; rfl, rfl⟩) t
        -- now the offset table
        cases hc : vd.clear.ptr.copyAssign w.heap w.acfg vd.S vs.ptr with
        | mk h1 r =>
          obtain ⟨p1, okc⟩ := r
          have hs1 := hstep
          rw [hc] at hs1
          simp only at hs1
          cases okc with
          | false => simp only; exact hs1 true
          | true =>
            simp only
            cases ht : allocTable h1 vd.fixedLoc p1.alloc vs.cap with
            | mk h2 t =>
              cases t with
              | none =>
                simp only
                obtain ⟨e1, e2, e3⟩ := C17.allocTable_fault _ _ _ _ _ ht
                have hwf2 : h2.WF := ⟨fun b hb => by rw [e3]; exact (hs1 true).wf.1 b (by rw [← e1]; exact hb), by rw [e1]; exact (hs1 true).wf.2⟩
                have hw2 : WOwn { (w.set d (some (vd.clear.setPtr p1))) with heap := h2, threw := true } :=
                  WOwn.of_same_live (hs1 true) e1 e2 hwf2 ⟨rfl, rfl⟩
                have := hw2.set_same d (vd.clear.setPtr p1) { (vd.clear.setPtr p1) with cap := 0 } (by simp [World.set]) rfl rfl true
                refine ⟨this.wf, ?_, ?_, ?_, this.noerr⟩
                · intro i x hx
                  exact this.owns i x (by
                    show ((w.set d _).set d _).vecs i = _
                    simp only [World.set] at hx ⊢; by_cases hi : i = d <;> simp_all)
                · intro k1 k2 v1 v2 b h1' h2'
                  exact this.excl k1 k2 v1 v2 b
                    (by show ((w.set d _).set d _).vecs k1 = _; simp only [World.set] at h1' ⊢; by_cases hi : k1 = d <;> simp_all)
                    (by show ((w.set d _).set d _).vecs k2 = _; simp only [World.set] at h2' ⊢; by_cases hi : k2 = d <;> simp_all)
                · intro b hbl hk
                  obtain ⟨i, x, hx, hbx⟩ := this.noleak b hbl hk
                  refine ⟨i, x, ?_, hbx⟩
                  have hx' : ((w.set d _).set d _).vecs i = some x := hx
                  simp only [World.set] at hx' ⊢
                  by_cases hi : i = d <;> simp_all
              | some t =>
                simp only
                obtain ⟨hwf2, herr2, hsup, hnew, _⟩ := allocTable_ok h1 (hs1 false).wf _ _ _ _ _ ht
                have hw2 := (hs1 false).add_tables h2 hwf2 herr2 hsup hnew false
                have := hw2.set_same d (vd.clear.setPtr p1)
                  { (vd.clear.setPtr p1) with tbl := t, cap := vs.cap, fs := vs.fs, mem := vs.mem, loc := vs.loc.relocated w.junk }
                  (by simp [World.set]) rfl rfl false
                refine ⟨this.wf, ?_, ?_, ?_, this.noerr⟩
                · intro i x hx
                  exact this.owns i x (by
                    show ((w.set d _).set d _).vecs i = _
                    simp only [World.set] at hx ⊢; by_cases hi : i = d <;> simp_all)
                · intro k1 k2 v1 v2 b h1' h2'
                  exact this.excl k1 k2 v1 v2 b
                    (by show ((w.set d _).set d _).vecs k1 = _; simp only [World.set] at h1' ⊢; by_cases hi : k1 = d <;> simp_all)
                    (by show ((w.set d _).set d _).vecs k2 = _; simp only [World.set] at h2' ⊢; by_cases hi : k2 = d <;> simp_all)
                · intro b hbl hk
                  obtain ⟨i, x, hx, hbx⟩ := this.noleak b hbl hk
                  refine ⟨i, x, ?_, hbx⟩
                  have hx' : ((w.set d _).set d _).vecs i = some x := hx
                  simp only [World.set] at hx' ⊢
                  by_cases hi : i = d <;> simp_all

theorem WOwn.congr {w w' : World} (h : WOwn w) (hv : ∀ i, w'.vecs i = w.vecs i) (hh : w'.heap = w.heap) (hc : w'.acfg = w.acfg) :
    WOwn w' := by
  refine ⟨hh ▸ h.wf, ?_, ?_, ?_, hh ▸ h.noerr⟩
  · intro k v hk; rw [hh, hc]; exact h.owns k v (by rw [← hv]; exact hk)
  · intro k1 k2 v1 v2 s h1 h2; exact h.excl k1 k2 v1 v2 s (by rw [← hv]; exact h1) (by rw [← hv]; exact h2)
  · intro b hb hk
    rw [hh] at hb
    obtain ⟨i, x, hx, hbx⟩ := h.noleak b hb hk
    exact ⟨i, x, by rw [hv]; exact hx, hbx⟩

/-- vector `d` returns its block and takes over the block of vector `s`, which is left without a block (stealing move
    assignment) -/
theorem WOwn.transfer {w : World} (h : WOwn w) (s d : Nat) (vs vd : Vec) (hvs : w.vecs s = some vs) (hvd : w.vecs d = some vd)
    (hsd : s ≠ d) (vn vm : Vec) (hvn : vn.blk = vs.blk) (hown : Owns (vd.ptr.dealloc w.heap w.acfg vd.S) w.acfg vn.S vn.ptr)
    (hvm : vm.blk = none) (t : Bool) :
    WOwn { ((w.set d (some vn)).set s (some vm)) with heap := vd.ptr.dealloc w.heap w.acfg vd.S, threw := t } := by
  have hds : d ≠ s := fun e => hsd e.symm
  obtain ⟨d1, d2, d3⟩ := dealloc_owned w.heap h.wf w.acfg vd.S vd.ptr (h.owns d vd hvd)
  have hget : ∀ i, ((w.set d (some vn)).set s (some vm)).vecs i = if i = s then some vm else if i = d then some vn else w.vecs i := by
    intro i; simp only [World.set]
  refine ⟨d2, ?_, ?_, ?_, by show (vd.ptr.dealloc w.heap w.acfg vd.S).errs = []; rw [d1]; exact h.noerr⟩
  · intro i x hx
    show Owns (vd.ptr.dealloc w.heap w.acfg vd.S) w.acfg x.S x.ptr
    have hx' : ((w.set d (some vn)).set s (some vm)).vecs i = some x := hx
    rw [hget] at hx'
    by_cases hi : i = s
    · simp only [hi, if_true, Option.some.injEq] at hx'; subst hx'; simp [Owns, Vec.ptr, hvm]
    · by_cases hi2 : i = d
      · subst hi2; simp only [hi, if_false, if_true, Option.some.injEq] at hx'; subst hx'; exact hown
      · simp only [hi, hi2, if_false] at hx'
        refine owns_after_dealloc_other h.wf (h.owns d vd hvd) (h.owns i x hx') ?_
        cases hb : x.blk with
        | none => exact Or.inl hb
        | some b =>
          right; show x.blk ≠ vd.blk
          intro e; rw [hb] at e
          exact hi2 (h.excl i d x vd b hx' hvd hb e.symm)
  · intro k1 k2 v1 v2 b h1 h2 b1 b2
    have h1' : ((w.set d (some vn)).set s (some vm)).vecs k1 = some v1 := h1
    have h2' : ((w.set d (some vn)).set s (some vm)).vecs k2 = some v2 := h2
    rw [hget] at h1' h2'
    by_cases a1 : k1 = s
    · simp only [a1, if_true, Option.some.injEq] at h1'; subst h1'; rw [hvm] at b1; exact absurd b1 (by simp)
    · by_cases a2 : k2 = s
      · simp only [a2, if_true, Option.some.injEq] at h2'; subst h2'; rw [hvm] at b2; exact absurd b2 (by simp)
      · simp only [a1, a2, if_false] at h1' h2'
        by_cases c1 : k1 = d <;> by_cases c2 : k2 = d
        · rw [c1, c2]
        · simp only [c1, if_true, Option.some.injEq] at h1'; simp only [c2, if_false] at h2'
          subst h1'; rw [hvn] at b1
          exact absurd (h.excl s k2 vs v2 b hvs h2' b1 b2) (fun e => a2 e.symm)
        · simp only [c2, if_true, Option.some.injEq] at h2'; simp only [c1, if_false] at h1'
          subst h2'; rw [hvn] at b2
          exact absurd (h.excl k1 s v1 vs b h1' hvs b1 b2) a1
        · simp only [c1, c2, if_false] at h1' h2'; exact h.excl k1 k2 v1 v2 b h1' h2' b1 b2
  · intro b hb hk
    obtain ⟨hb1, hbne⟩ := (d3 b).mp hb
    obtain ⟨i, x, hx, hbx⟩ := h.noleak b hb1 hk
    by_cases hi : i = d
    · subst hi; rw [hvd] at hx; cases hx; exact absurd hbx.symm hbne
    · by_cases hi2 : i = s
      · subst hi2; rw [hvs] at hx; cases hx
        exact ⟨d, vn, by show ((w.set d (some vn)).set i (some vm)).vecs d = _; rw [hget]; simp [hds], by rw [hvn]; exact hbx⟩
      · exact ⟨i, x, by show ((w.set d (some vn)).set s (some vm)).vecs i = _; rw [hget]; simp [hi, hi2, hx], hbx⟩

/-- move assignment `d = std::move(s)` -/
theorem WOwn.moveAssign {w : World} (h : WOwn w) (s d : Nat) : WOwn (w.moveAssign s d) := by
  unfold World.moveAssign
  by_cases hsd : s = d
  · simp only [hsd, if_true]; exact h.threw false
  · simp only [hsd, if_false]
    have hds : d ≠ s := fun e => hsd e.symm
    cases hvs : w.vecs s with
    | none => exact h
    | some vs =>
      cases hvd : w.vecs d with
      | none => exact h
      | some vd =>
        simp only
        by_cases hsteal : (w.acfg.ae || w.acfg.pocma || w.acfg.eq vd.alloc vs.alloc) = true
        · simp only [hsteal, if_true]
          have hown : Owns (vd.ptr.dealloc w.heap w.acfg vd.S) w.acfg vs.S
              (⟨vs.blk, vs.units, if w.acfg.pocma then vs.alloc else vd.alloc⟩ : Ptr) := by
            have hvsown : Owns (vd.ptr.dealloc w.heap w.acfg vd.S) w.acfg vs.S vs.ptr := by
              refine owns_after_dealloc_other h.wf (h.owns d vd hvd) (h.owns s vs hvs) ?_
              cases hb : vs.blk with
              | none => exact Or.inl hb
              | some b =>
                right; show vs.blk ≠ vd.blk
                intro e; rw [hb] at e
                exact hsd (h.excl s d vs vd b hvs hvd hb e.symm)
            by_cases hpm : w.acfg.pocma = true
            · simp only [hpm, if_true]; exact hvsown
            · simp only [hpm, Bool.false_eq_true, if_false]
              apply owns_propagate _ w.acfg vs.S vs.ptr vd.alloc hvsown
              simp only [hpm, Bool.or_false, Bool.or_eq_true] at hsteal
              simp only [ACfg.eq, Bool.or_eq_true, beq_iff_eq] at hsteal ⊢
              rcases hsteal with hh | hh | hh
              · exact Or.inl hh
              · exact Or.inl hh
              · exact Or.inr hh.symm
          exact h.transfer s d vs vd hvs hvd hsd
            { (vs.setPtr ⟨vs.blk, vs.units, if w.acfg.pocma then vs.alloc else vd.alloc⟩) with poison := vd.poison || vs.poison }
            vs.movedFrom rfl hown rfl false
        · simp only [hsteal, Bool.false_eq_true, if_false]
          by_cases hb : vs.bytes > vd.bytes
          · simp only [hb, if_true]
            cases hp : allocPair w.heap w.acfg vd.fixedLoc vs.bytes vd.S vd.alloc vs.cap with
            | mk h2 r =>
              cases r with
              | none =>
                simp only
                obtain ⟨e1, e2, e3⟩ := allocPair_fail _ h.wf _ _ _ _ _ _ _ hp
                exact WOwn.of_same_live h e1 e2 e3 ⟨rfl, rfl⟩
              | some pt =>
                obtain ⟨np, t⟩ := pt
                simp only
                obtain ⟨hwf, herr, hpeq, hown, hsup, hnew⟩ := allocPair_ok _ h.wf _ _ _ _ _ _ _ _ _ hp
                have hnp : (vd.ptr.moveAssign h2 w.acfg vd.S np).2.1 = np := by
                  rw [hpeq]; simp only [Ptr.moveAssign, Vec.ptr, ite_self]
                have hheap : (vd.ptr.moveAssign h2 w.acfg vd.S np).1 = vd.ptr.dealloc h2 w.acfg vd.S := rfl
                rw [hnp, hheap]
                have h1 := h.replace d vd hvd h2 hwf herr hsup hnew
                  { (vd.setPtr np) with tbl := t, cap := vs.cap, fs := vs.fs, mem := vs.mem, loc := vs.loc.relocated w.junk }
                  (by show Owns h2 w.acfg vd.S (vd.setPtr np).ptr
                      have : (vd.setPtr np).ptr = np := by rw [hpeq]; rfl
                      rw [this]; exact hown)
                  (by show np.blk = _; rw [hpeq]) false
                have h3 := h1.set_same s vs { vs with mem := vs.mem.map (fun r => { r with e := movedValues vs.ps r.e }) }
                  (by simp [World.set, hsd, hvs]) rfl rfl false
                exact h3.congr (fun i => rfl) rfl rfl
          · simp only [hb, if_false]
            cases hp : allocTable w.heap vd.fixedLoc vd.alloc vs.cap with
            | mk h2 r =>
              cases r with
              | none =>
                simp only
                obtain ⟨e1, e2, e3⟩ := C17.allocTable_fault _ _ _ _ _ hp
                have hwf2 : h2.WF := ⟨fun b hb' => by rw [e3]; exact h.wf.1 b (by rw [← e1]; exact hb'), by rw [e1]; exact h.wf.2⟩
                exact WOwn.of_same_live h e1 e2 hwf2 ⟨rfl, rfl⟩
              | some t =>
                simp only
                obtain ⟨hwf2, herr2, hsup, hnew, _⟩ := allocTable_ok w.heap h.wf _ _ _ _ _ hp
                have h1 := h.add_tables h2 hwf2 herr2 hsup hnew false
                have h2' := h1.set_same d vd { vd with tbl := t, cap := vs.cap, fs := vs.fs, mem := vs.mem, loc := vs.loc.relocated w.junk }
                  hvd rfl rfl false
                have h3 := h2'.set_same s vs { vs with mem := vs.mem.map (fun r => { r with e := movedValues vs.ps r.e }) }
                  (by simp [World.set, hsd, hvs]) rfl rfl false
                exact h3.congr (fun i => rfl) rfl rfl

/-- two vectors exchange their blocks -/
theorem WOwn.exchange {w : World} (h : WOwn w) (a b : Nat) (va vb xa xb : Vec) (hva : w.vecs a = some va) (hvb : w.vecs b = some vb)
    (hab : a ≠ b) (hxa : xa.blk = vb.blk) (hxb : xb.blk = va.blk) (hoa : Owns w.heap w.acfg xa.S xa.ptr)
    (hob : Owns w.heap w.acfg xb.S xb.ptr) (t : Bool) : WOwn { ((w.set a (some xa)).set b (some xb)) with threw := t } := by
  have hba : b ≠ a := fun e => hab e.symm
  have hget : ∀ i, ((w.set a (some xa)).set b (some xb)).vecs i = if i = b then some xb else if i = a then some xa else w.vecs i := by
    intro i; simp only [World.set]
  refine ⟨h.wf, ?_, ?_, ?_, h.noerr⟩
  · intro i x hx
    show Owns w.heap w.acfg x.S x.ptr
    have hx' : ((w.set a (some xa)).set b (some xb)).vecs i = some x := hx
    rw [hget] at hx'
    by_cases hi : i = b
    · simp only [hi, if_true, Option.some.injEq] at hx'; subst hx'; exact hob
    · by_cases hi2 : i = a
      · subst hi2; simp only [hi, if_false, if_true, Option.some.injEq] at hx'; subst hx'; exact hoa
      · simp only [hi, hi2, if_false] at hx'; exact h.owns i x hx'
  · intro k1 k2 v1 v2 s h1 h2 b1 b2
    have h1' : ((w.set a (some xa)).set b (some xb)).vecs k1 = some v1 := h1
    have h2' : ((w.set a (some xa)).set b (some xb)).vecs k2 = some v2 := h2
    rw [hget] at h1' h2'
    -- the original owner of what `k` holds now
    have orig : ∀ k v, (if k = b then some xb else if k = a then some xa else w.vecs k) = some v → v.blk = some s →
        ∃ k0 v0, w.vecs k0 = some v0 ∧ v0.blk = some s ∧ (k = b → k0 = a) ∧ (k = a → k0 = b) ∧ (k ≠ a → k ≠ b → k0 = k) := by
      intro k v hk hb
      by_cases e1 : k = b
      · simp only [e1, if_true, Option.some.injEq] at hk; subst hk
        exact ⟨a, va, hva, by rw [← hxb]; exact hb, fun _ => rfl, fun e => absurd (e1 ▸ e) hba, fun _ e => absurd e1 e⟩
      · by_cases e2 : k = a
        · subst e2
          simp only [e1, if_false, if_true, Option.some.injEq] at hk; subst hk
          exact ⟨b, vb, hvb, by rw [← hxa]; exact hb, fun e => absurd e e1, fun _ => rfl, fun e _ => absurd rfl e⟩
        · simp only [e1, e2, if_false] at hk
          exact ⟨k, v, hk, hb, fun e => absurd e e1, fun e => absurd e e2, fun _ _ => rfl⟩
    obtain ⟨i1, w1, g1, g2, f1, f2, f3⟩ := orig k1 v1 h1' b1
    obtain ⟨i2, w2, g1', g2', f1', f2', f3'⟩ := orig k2 v2 h2' b2
    have hi : i1 = i2 := h.excl i1 i2 w1 w2 s g1 g1' g2 g2'
    by_cases c1 : k1 = b
    · by_cases c2 : k2 = b
      · rw [c1, c2]
      · by_cases c3 : k2 = a
        · have := f1 c1; have := f2' c3; omega
        · have := f1 c1; have := f3' c3 c2; omega
    · by_cases c1' : k1 = a
      · by_cases c2 : k2 = b
        · have := f2 c1'; have := f1' c2; omega
        · by_cases c3 : k2 = a
          · rw [c1', c3]
          · have := f2 c1'; have := f3' c3 c2; omega
      · by_cases c2 : k2 = b
        · have := f3 c1' c1; have := f1' c2; omega
        · by_cases c3 : k2 = a
          · have := f3 c1' c1; have := f2' c3; omega
          · have := f3 c1' c1; have := f3' c3 c2; omega
  · intro blk hb hk
    obtain ⟨i, x, hx, hbx⟩ := h.noleak blk hb hk
    by_cases hi : i = a
    · subst hi; rw [hva] at hx; cases hx
      exact ⟨b, xb, by show ((w.set i (some xa)).set b (some xb)).vecs b = _; rw [hget]; simp, by rw [hxb]; exact hbx⟩
    · by_cases hi2 : i = b
      · subst hi2; rw [hvb] at hx; cases hx
        exact ⟨a, xa, by show ((w.set a (some xa)).set i (some xb)).vecs a = _; rw [hget]; simp [hab], by rw [hxa]; exact hbx⟩
      · exact ⟨i, x, by show ((w.set a (some xa)).set b (some xb)).vecs i = _; rw [hget]; simp [hi, hi2, hx], hbx⟩

/-- swap; allocator-aware swap requires propagating or equal allocators (the standard's precondition) -/
theorem WOwn.swap {w : World} (h : WOwn w) (a b : Nat)
    (hpre : ∀ va vb, w.vecs a = some va → w.vecs b = some vb → w.acfg.pocs = true ∨ w.acfg.ae = true ∨ va.alloc = vb.alloc) :
    WOwn (w.swap a b) := by
  unfold World.swap
  by_cases hab : a = b
  · simp only [hab, if_true]; exact h.threw false
  · simp only [hab, if_false]
    cases hva : w.vecs a with
    | none => exact h
    | some va =>
      cases hvb : w.vecs b with
      | none => exact h
      | some vb =>
        simp only
        have hp := hpre va vb hva hvb
        -- each block keeps its size; its new holder's allocator is the old holder's (POCS) or an equal one
        have hoa : Owns w.heap w.acfg vb.S (Ptr.swap w.acfg va.ptr vb.ptr).1 := by
          unfold Ptr.swap
          by_cases hs : w.acfg.pocs = true
          · simp only [hs, if_true]; exact h.owns b vb hvb
          · simp only [hs, Bool.false_eq_true, if_false]
            apply owns_propagate w.heap w.acfg vb.S vb.ptr va.ptr.alloc (h.owns b vb hvb)
            simp only [ACfg.eq, Bool.or_eq_true, beq_iff_eq]
            rcases hp with h0 | h0 | h0
            · exact absurd h0 hs
            · exact Or.inl h0
            · exact Or.inr h0.symm
        have hob : Owns w.heap w.acfg va.S (Ptr.swap w.acfg va.ptr vb.ptr).2 := by
          unfold Ptr.swap
          by_cases hs : w.acfg.pocs = true
          · simp only [hs, if_true]; exact h.owns a va hva
          · simp only [hs, Bool.false_eq_true, if_false]
            apply owns_propagate w.heap w.acfg va.S va.ptr vb.ptr.alloc (h.owns a va hva)
            simp only [ACfg.eq, Bool.or_eq_true, beq_iff_eq]
            rcases hp with h0 | h0 | h0
            · exact absurd h0 hs
            · exact Or.inl h0
            · exact Or.inr h0
        have hb1 : (Ptr.swap w.acfg va.ptr vb.ptr).1.blk = vb.blk := (swap_spec w.acfg va.ptr vb.ptr).1
        have hb2 : (Ptr.swap w.acfg va.ptr vb.ptr).2.blk = va.blk := (swap_spec w.acfg va.ptr vb.ptr).2.1
        have hpa : ∀ (v : Vec) (p : Ptr), (v.setPtr p).ptr = p ∧ (v.setPtr p).S = v.S := fun v p => ⟨by cases p; rfl, rfl⟩
        exact h.exchange a b va vb (vb.setPtr (Ptr.swap w.acfg va.ptr vb.ptr).1) (va.setPtr (Ptr.swap w.acfg va.ptr vb.ptr).2) hva hvb hab
          hb1 hb2 (by rw [(hpa _ _).1, (hpa _ _).2]; exact hoa) (by rw [(hpa _ _).1, (hpa _ _).2]; exact hob) false

/-! ### every history -/

theorem relocate_fold_ptr (src dst : Nat) (l : List Nat) (w : Vec) :
    (l.foldl (fun (w : Vec) m => w.relocateOne (dst + m) (src + m)) w).ptr = w.ptr := by
  induction l generalizing w with
  | nil => rfl
  | cons m ms ih =>
    simp only [List.foldl_cons]
    rw [ih]
    simp only [Vec.relocateOne]
    split <;> rfl

theorem moveForward_ptr (v : Vec) (src dst : Nat) : (v.moveForward src dst).ptr = v.ptr := by
  unfold Vec.moveForward
  split
  · unfold Vec.moveForwardTrivial; repeat' (first | rfl | split)
  · exact relocate_fold_ptr src dst _ v

/-- emplace_back, pop_back, erase, clear never touch the owning pointer -/
theorem vop_keeps_ptr (junk : Nat → Nat) (v : Vec) (op : VOp) (hnr : ∀ n b, op ≠ .reserve n b) : (op.apply junk v).ptr = v.ptr := by
  cases op with
  | emplace e => simp only [VOp.apply, Vec.emplaceBack]; split <;> rfl
  | pop => rfl
  | erase i => simp only [VOp.apply, Vec.erase]; exact moveForward_ptr _ _ _
  | eraseRange i j =>
    simp only [VOp.apply, Vec.eraseRange]
    split
    · exact moveForward_ptr _ _ _
    · rfl
  | clear => rfl
  | reserve n b => exact absurd rfl (hnr n b)

inductive OOp
  | new (k : Nat) (ps : List Param) (fs : List Nat) (cap bytes alloc : Nat)
  | inplace (k : Nat) (op : VOp)
  | reserve (k n b : Nat)
  | copy (s d : Nat)
  | move (s d : Nat)
  | copyAssign (s d : Nat)
  | moveAssign (s d : Nat)
  | swap (a b : Nat)
  | destroy (k : Nat)

def OOp.apply (w : World) : OOp → World
  | .new k ps fs cap bytes alloc => w.new k ps fs cap bytes alloc
  | .inplace k op => w.upd k (op.apply w.junk)
  | .reserve k n b => w.reserve k n b
  | .copy s d => w.copy s d
  | .move s d => w.move s d
  | .copyAssign s d => w.copyAssign s d
  | .moveAssign s d => w.moveAssign s d
  | .swap a b => w.swap a b
  | .destroy k => w.destroy k

/-- what the interface demands of its caller as far as memory ownership goes: a new vector gets a free name, `swap` is
    called with propagating or equal allocators, in-place operations are the non-allocating ones (reserve is separate) -/
def OOp.Pre (w : World) : OOp → Prop
  | .new k _ _ _ _ _ => w.vecs k = none
  | .inplace _ op => ∀ n b, op ≠ .reserve n b
  | .copy _ d => w.vecs d = none
  | .move s d => w.vecs d = none ∧ s ≠ d
  | .swap a b => ∀ va vb, w.vecs a = some va → w.vecs b = some vb → w.acfg.pocs = true ∨ w.acfg.ae = true ∨ va.alloc = vb.alloc
  | _ => True

theorem WOwn.step {w : World} (h : WOwn w) (op : OOp) (hpre : op.Pre w) : WOwn (op.apply w) := by
  cases op with
  | new k ps fs cap bytes alloc => exact h.new k ps fs cap bytes alloc hpre
  | inplace k op =>
    exact h.upd k _ (fun v => by
      have hp := vop_keeps_ptr w.junk v op hpre
      exact ⟨congrArg Ptr.blk hp, congrArg Ptr.units hp, congrArg Ptr.alloc hp, apply_ps _ _ _⟩)
  | reserve k n b => exact h.reserve k n b
  | copy s d => exact h.copy s d hpre
  | move s d => exact h.move s d hpre.1 hpre.2
  | copyAssign s d => exact h.copyAssign s d
  | moveAssign s d => exact h.moveAssign s d
  | swap a b => exact h.swap a b hpre
  | destroy k => exact h.destroy k

def OValid : World → List OOp → Prop
  | _, [] => True
  | w, op :: ops => op.Pre w ∧ OValid (op.apply w) ops

/-- **every history, allocation failures included**: the ownership discipline holds in every reachable state -/
theorem WOwn.history {w : World} (h : WOwn w) (ops : List OOp) (hv : OValid w ops) : WOwn (ops.foldl OOp.apply w) := by
  induction ops generalizing w with
  | nil => exact h
  | cons op ops ih => exact ih (h.step op hv.1) hv.2

theorem WOwn.init (c : ACfg) : WOwn ({ acfg := c } : World) :=
  ⟨⟨fun _ hb => absurd hb (by simp), by simp⟩, fun _ _ hk => absurd hk (by simp), fun _ _ _ _ _ hk => absurd hk (by simp),
   fun _ hb => absurd hb (by simp), rfl⟩

/-- **all memory comes from the allocator and is returned to it exactly once** (data blocks): starting from nothing,
    after ANY history — whichever allocations throw — the ledger has recorded no double free, no free with a wrong size and
    no free through an unequal allocator; every live data block is owned by exactly one vector; and once every vector
    has been destroyed, no data block is live. -/
theorem no_leak_no_error (c : ACfg) (ops : List OOp) (hv : OValid ({ acfg := c } : World) ops) :
    let w := ops.foldl OOp.apply ({ acfg := c } : World)
    w.heap.errs = [] ∧
    (∀ b ∈ w.heap.live, b.kind = .data → ∃ k v, w.vecs k = some v ∧ v.blk = some b.serial) ∧
    ((∀ k, w.vecs k = none) → ∀ b ∈ w.heap.live, b.kind = .table) := by
  intro w
  have h := (WOwn.init c).history ops hv
  refine ⟨h.noerr, h.noleak, ?_⟩
  intro hnone b hb
  cases hk : b.kind with
  | table => rfl
  | data =>
    obtain ⟨k, v, hkv, _⟩ := h.noleak b hb hk
    rw [hnone k] at hkv
    exact absurd hkv (by simp)

end Cntgs
