/-
M0 — bit kernel of `src/cntgs/detail/memory.hpp:160-222` on unbounded naturals.

  align(position, alignment)            ↦ alignUp
  extract_lowest_set_bit(value)         ↦ lowBit
  trailing_alignment(byte_size, al)     ↦ trailAl
  align_if<NeedsAlignment, Alignment>   ↦ alignIf

The 64-bit word versions that the C++ text actually computes are in `Cntgs/Gen/Kernel.lean`
(regenerated from the source on every run) and related to these in `Cntgs/Tie.lean`.
-/
namespace Cntgs

/-- `extract_lowest_set_bit` on `Nat`: the largest power of two dividing `v`; `0 ↦ 0`. -/
def lowBit (v : Nat) : Nat :=
  if h : v = 0 then 0 else if v % 2 = 1 then 1 else 2 * lowBit (v / 2)
termination_by v
decreasing_by omega

/-- `detail::align(position, alignment)` for a power-of-two alignment: round up. -/
def alignUp (p a : Nat) : Nat := (p + a - 1) / a * a

/-- `detail::trailing_alignment(byte_size, alignment)` -/
def trailAl (bytes al : Nat) : Nat := min (lowBit bytes) al

/-- `detail::align_if<NeedsAlignment, Alignment>(position)` -/
def alignIf (c : Bool) (a p : Nat) : Nat := if c && decide (a > 1) then alignUp p a else p

def IsPow2 (n : Nat) : Prop := ∃ k, n = 2 ^ k

theorem IsPow2.pos {n} (h : IsPow2 n) : 0 < n := by
  obtain ⟨k, rfl⟩ := h; exact Nat.two_pow_pos k

theorem IsPow2.one : IsPow2 1 := ⟨0, rfl⟩

theorem IsPow2.dvd_of_le {a b} (ha : IsPow2 a) (hb : IsPow2 b) (h : a ≤ b) : a ∣ b := by
  obtain ⟨i, rfl⟩ := ha; obtain ⟨j, rfl⟩ := hb
  apply Nat.pow_dvd_pow
  exact (Nat.pow_le_pow_iff_right (by omega)).mp h

theorem pow2_min {a b} (ha : IsPow2 a) (hb : IsPow2 b) : IsPow2 (min a b) := by
  rcases Nat.le_total a b with h | h
  · rw [Nat.min_eq_left h]; exact ha
  · rw [Nat.min_eq_right h]; exact hb

theorem pow2_max {a b} (ha : IsPow2 a) (hb : IsPow2 b) : IsPow2 (max a b) := by
  rcases Nat.le_total a b with h | h
  · rw [Nat.max_eq_right h]; exact hb
  · rw [Nat.max_eq_left h]; exact ha

theorem lowBit_zero : lowBit 0 = 0 := by unfold lowBit; simp

theorem lowBit_spec (v : Nat) (hv : 0 < v) : IsPow2 (lowBit v) ∧ lowBit v ∣ v := by
  induction v using Nat.strongRecOn with
  | _ v ih =>
    unfold lowBit
    have hne : v ≠ 0 := by omega
    simp only [hne, dite_false]
    by_cases hodd : v % 2 = 1
    · simp only [hodd, if_true]
      exact ⟨⟨0, rfl⟩, Nat.one_dvd _⟩
    · simp only [hodd, if_false]
      have hlt : v / 2 < v := by omega
      have hpos : 0 < v / 2 := by omega
      obtain ⟨⟨k, hk⟩, hd⟩ := ih (v / 2) hlt hpos
      refine ⟨⟨k + 1, by rw [hk, Nat.pow_succ]; omega⟩, ?_⟩
      have : v = 2 * (v / 2) := by omega
      rw [this]
      simp only [Nat.mul_div_cancel_left _ (show 0 < 2 by omega)]
      exact Nat.mul_dvd_mul_left 2 hd

theorem lowBit_le (v : Nat) : lowBit v ≤ v := by
  rcases Nat.eq_zero_or_pos v with h | h
  · subst h; simp [lowBit_zero]
  · exact Nat.le_of_dvd h (lowBit_spec v h).2

/-- every power of two dividing `v` divides `lowBit v` (maximality) -/
theorem dvd_lowBit {v : Nat} (hv : 0 < v) {k : Nat} (h : 2 ^ k ∣ v) : 2 ^ k ∣ lowBit v := by
  induction k generalizing v with
  | zero => simp
  | succ k ih =>
    unfold lowBit
    have hne : v ≠ 0 := by omega
    simp only [hne, dite_false]
    have h2 : 2 ∣ v := Nat.dvd_trans ⟨2 ^ k, by rw [Nat.pow_succ, Nat.mul_comm]⟩ h
    have hodd : ¬ v % 2 = 1 := by omega
    simp only [hodd, if_false]
    have hpos : 0 < v / 2 := by omega
    have : 2 ^ k ∣ v / 2 := by
      obtain ⟨q, hq⟩ := h
      refine ⟨q, ?_⟩
      rw [hq, Nat.pow_succ, Nat.mul_assoc, Nat.mul_comm 2 q, ← Nat.mul_assoc, Nat.mul_div_cancel _ (by omega)]
    have := ih hpos this
    rw [Nat.pow_succ, Nat.mul_comm]
    exact Nat.mul_dvd_mul_left 2 this

theorem alignUp_dvd (p a : Nat) : a ∣ alignUp p a := by
  unfold alignUp; exact Nat.dvd_mul_left _ _

theorem alignUp_ge (p a : Nat) (ha : 0 < a) : p ≤ alignUp p a := by
  unfold alignUp
  have := Nat.div_add_mod (p + a - 1) a
  have := Nat.mod_lt (p + a - 1) ha
  have h3 : (p + a - 1) / a * a = a * ((p + a - 1) / a) := Nat.mul_comm _ _
  omega

theorem alignUp_lt (p a : Nat) (ha : 0 < a) : alignUp p a < p + a := by
  unfold alignUp
  have := Nat.div_add_mod (p + a - 1) a
  have h3 : (p + a - 1) / a * a = a * ((p + a - 1) / a) := Nat.mul_comm _ _
  omega

theorem alignUp_of_dvd (p a : Nat) (ha : 0 < a) (h : a ∣ p) : alignUp p a = p := by
  obtain ⟨q, rfl⟩ := h
  unfold alignUp
  have : (a * q + a - 1) / a = q := by
    rw [show a * q + a - 1 = (a - 1) + a * q by omega, Nat.add_mul_div_left _ _ ha,
      Nat.div_eq_of_lt (by omega)]; omega
  rw [this, Nat.mul_comm]

theorem alignUp_add_mul (m b o a : Nat) (ha : 0 < a) (h : a ∣ b) :
    alignUp (m * b + o) a = m * b + alignUp o a := by
  obtain ⟨q, rfl⟩ := h
  unfold alignUp
  have : m * (a * q) + o + a - 1 = (o + a - 1) + a * (m * q) := by
    rw [show m * (a * q) = a * (m * q) by rw [Nat.mul_left_comm]]; omega
  rw [this, Nat.add_mul_div_left _ _ ha, Nat.add_mul, Nat.mul_comm (m * q) a,
      show a * (m * q) = m * (a * q) by rw [Nat.mul_left_comm]]
  omega

theorem alignUp_add_of_dvd (x o a : Nat) (ha : 0 < a) (h : a ∣ x) :
    alignUp (x + o) a = x + alignUp o a := by
  have := alignUp_add_mul 1 x o a ha h
  simpa using this

/-- `alignUp` is the least multiple of `a` that is `≥ p` -/
theorem alignUp_le_of_dvd {p a q : Nat} (ha : 0 < a) (hq : a ∣ q) (hpq : p ≤ q) : alignUp p a ≤ q := by
  obtain ⟨k, rfl⟩ := hq
  unfold alignUp
  have h1 : (p + a - 1) / a ≤ k := by
    rw [Nat.div_le_iff_le_mul_add_pred ha]
    omega
  calc (p + a - 1) / a * a ≤ k * a := Nat.mul_le_mul_right _ h1
    _ = a * k := Nat.mul_comm _ _

theorem alignUp_mono {p q a : Nat} (h : p ≤ q) : alignUp p a ≤ alignUp q a := by
  unfold alignUp
  apply Nat.mul_le_mul_right
  apply Nat.div_le_div_right
  omega

theorem alignUp_one (p : Nat) : alignUp p 1 = p := by simp [alignUp]

theorem dvd_min_left {a b} (ha : IsPow2 a) (hb : IsPow2 b) : min a b ∣ a :=
  (pow2_min ha hb).dvd_of_le ha (Nat.min_le_left _ _)
theorem dvd_min_right {a b} (ha : IsPow2 a) (hb : IsPow2 b) : min a b ∣ b :=
  (pow2_min ha hb).dvd_of_le hb (Nat.min_le_right _ _)

/-- trailAl claim: if addr = m*a + o with o > 0 then trailAl o a divides addr -/
theorem trailAl_dvd {m a o : Nat} (ha : IsPow2 a) (ho : 0 < o) :
    IsPow2 (trailAl o a) ∧ trailAl o a ∣ m * a + o ∧ trailAl o a ≤ a := by
  obtain ⟨hp, hd⟩ := lowBit_spec o ho
  unfold trailAl
  refine ⟨pow2_min hp ha, ?_, Nat.min_le_right _ _⟩
  apply Nat.dvd_add
  · exact Nat.dvd_trans (dvd_min_right hp ha) (Nat.dvd_mul_left _ _)
  · exact Nat.dvd_trans (dvd_min_left hp ha) hd

/-- the run-time alignment decision is equivalent to a real `alignUp` whenever the compile-time
    claim `prev ∣ addr` is true: the code never skips an alignment step that is needed. -/
theorem alignIf_eq {prev al addr : Nat} (hprev : IsPow2 prev) (hal : IsPow2 al) (hd : prev ∣ addr) :
    alignIf (decide (prev < al)) al addr = alignUp addr al := by
  unfold alignIf
  by_cases h : prev < al
  · by_cases h1 : al > 1
    · simp [h, h1]
    · have : al = 1 := by have := hal.pos; omega
      subst this; simp [alignUp]
  · simp [h]
    have : al ∣ addr := Nat.dvd_trans (hal.dvd_of_le hprev (by omega)) hd
    exact (alignUp_of_dvd _ _ hal.pos this).symm

end Cntgs
