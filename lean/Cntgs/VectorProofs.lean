/-
Refinement of the vector operations to a plain sequence of elements (C01 and its corollaries C02, C04,
C06, C10, C16, C18): canonical layout invariant, preserved by emplace_back, pop_back, erase, clear,
reserve, for both locators on the trivially relocatable path.
-/
import Cntgs.MemProofs
import Cntgs.LayoutProofs
namespace Cntgs

/-- well-formed element for a list: one value list per parameter, a single object for plain parameters -/
def EOK (ps : List Param) (e : Elem) : Prop := CountsOK ps (elemCounts e)

/-- byte size of an element that starts at a storage-aligned address -/
def esz (ps : List Param) (e : Elem) : Nat := goEnd ps (elemCounts e) 0

structure ListOK (ps : List Param) : Prop where
  wf : ∀ p ∈ ps, WfParam p
  ne : ps ≠ []

theorem storage_pos {ps : List Param} (h : ListOK ps) : 0 < storageAl ps := (storageAl_pow2 ps h.wf h.ne).pos

theorem placeEnd_aligned {ps : List Param} (h : ListOK ps) (e : Elem) (he : EOK ps e) (o : Nat) (ho : storageAl ps ∣ o) :
    placeEnd ps (elemCounts e) o = o + esz ps e := by
  rw [placeEnd_eq_goEnd ps _ o h.wf h.ne he ho]
  have := goEnd_shift ps (elemCounts e) 0 o h.wf (fun p hp => Nat.dvd_trans (al_dvd_storageAl ps h.wf p hp) ho)
  simpa [esz] using this

/-- canonical start offsets of the elements of a vector with a VaryingSize parameter -/
def canonOff (ps : List Param) : List Elem → Nat → Nat
  | [], _ => 0
  | _ :: _, 0 => 0
  | e :: es, k + 1 => alignUp (esz ps e) (storageAl ps) + canonOff ps es k

/-- start of the element that would follow `es` -/
def nextOff (ps : List Param) : List Elem → Nat
  | [] => 0
  | e :: es => alignUp (esz ps e) (storageAl ps) + nextOff ps es

theorem canonOff_dvd {ps : List Param} (es : List Elem) (k : Nat) : storageAl ps ∣ canonOff ps es k := by
  induction es generalizing k with
  | nil => simp [canonOff]
  | cons e es ih =>
    cases k with
    | zero => simp [canonOff]
    | succ k => simp only [canonOff]; exact Nat.dvd_add (alignUp_dvd _ _) (ih k)

theorem nextOff_dvd {ps : List Param} (es : List Elem) : storageAl ps ∣ nextOff ps es := by
  induction es with
  | nil => simp [nextOff]
  | cons e es ih => simp only [nextOff]; exact Nat.dvd_add (alignUp_dvd _ _) ih

theorem canonOff_length {ps : List Param} (es : List Elem) : canonOff ps es es.length = nextOff ps es := by
  induction es with
  | nil => simp [canonOff, nextOff]
  | cons e es ih => simp [canonOff, nextOff, ih]

/-- offsets depend only on the elements in front -/
theorem canonOff_append {ps : List Param} (as bs : List Elem) (k : Nat) (hk : k ≤ as.length) :
    canonOff ps (as ++ bs) k = canonOff ps as k ∨ (k = as.length ∧ canonOff ps (as ++ bs) k = nextOff ps as) := by
  induction as generalizing k with
  | nil =>
    have : k = 0 := by simpa using hk
    subst this
    right; cases bs <;> simp [canonOff, nextOff]
  | cons a as ih =>
    cases k with
    | zero => left; simp [canonOff]
    | succ k =>
      simp only [List.cons_append, canonOff, nextOff, List.length_cons]
      rcases ih k (by simpa using hk) with h | ⟨h1, h2⟩
      · left; rw [h]
      · right; exact ⟨by omega, by rw [h2]⟩

theorem canonOff_append_lt {ps : List Param} (as bs : List Elem) (k : Nat) (hk : k < as.length) :
    canonOff ps (as ++ bs) k = canonOff ps as k := by
  induction as generalizing k with
  | nil => simp at hk
  | cons a as ih =>
    cases k with
    | zero => simp [canonOff]
    | succ k => simp only [List.cons_append, canonOff]; rw [ih k (by simpa using hk)]

theorem canonOff_append_ge {ps : List Param} (as bs : List Elem) (k : Nat) :
    canonOff ps (as ++ bs) (as.length + k) = nextOff ps as + canonOff ps bs k ∨ (bs = [] ∧ True) := by
  induction as with
  | nil => left; simp [nextOff]
  | cons a as ih =>
    rcases ih with h | h
    · left
      simp only [List.cons_append, List.length_cons, nextOff]
      rw [show as.length + 1 + k = (as.length + k) + 1 by omega]
      simp only [canonOff]; rw [h]; omega
    · right; exact h

theorem canonOff_append_ge' {ps : List Param} (as bs : List Elem) (k : Nat) (hk : k < bs.length) :
    canonOff ps (as ++ bs) (as.length + k) = nextOff ps as + canonOff ps bs k := by
  induction as with
  | nil => simp [nextOff]
  | cons a as ih =>
    simp only [List.cons_append, List.length_cons, nextOff]
    rw [show as.length + 1 + k = (as.length + k) + 1 by omega]
    simp only [canonOff]; rw [ih]; omega

theorem nextOff_append {ps : List Param} (as bs : List Elem) : nextOff ps (as ++ bs) = nextOff ps as + nextOff ps bs := by
  induction as with
  | nil => simp [nextOff]
  | cons a as ih => simp only [List.cons_append, nextOff]; rw [ih]; omega

/-- the record of element `k` in the canonical layout -/
def canonRec (ps : List Param) (es : List Elem) (k : Nat) : Rec :=
  ⟨canonOff ps es k, esz ps (es.getD k []), es.getD k []⟩

/-- all elements are well-formed and occupy at least one byte -/
def ElemsOK (ps : List Param) (es : List Elem) : Prop := ∀ e ∈ es, EOK ps e ∧ 0 < esz ps e

theorem canonOff_step {ps : List Param} (h : ListOK ps) (es : List Elem) (k : Nat) (hk : k + 1 ≤ es.length) :
    canonOff ps es (k + 1) = alignUp (canonOff ps es k + esz ps (es.getD k [])) (storageAl ps) := by
  induction es generalizing k with
  | nil => simp at hk
  | cons e es ih =>
    cases k with
    | zero =>
      cases es with
      | nil => simp [canonOff]
      | cons e2 es2 => simp [canonOff]
    | succ k =>
      have hk' : k + 1 ≤ es.length := by simpa using hk
      simp only [canonOff, List.getD_cons_succ]
      rw [ih k hk']
      have hd : storageAl ps ∣ alignUp (esz ps e) (storageAl ps) := alignUp_dvd _ _
      rw [Nat.add_assoc, alignUp_add_of_dvd _ _ _ (storage_pos h) hd]

theorem canon_ordered {ps : List Param} (h : ListOK ps) (es : List Elem) (hok : ElemsOK ps es) :
    Ordered es.length (canonRec ps es) := by
  constructor
  · intro k hk
    have hm : es.getD k [] ∈ es := by
      rw [List.getD_eq_getElem?_getD, List.getElem?_eq_getElem hk]; exact List.getElem_mem hk
    exact (hok _ hm).2
  · intro k hk
    simp only [canonRec]
    rw [canonOff_step h es k (by omega)]
    exact alignUp_ge _ _ (storage_pos h)

end Cntgs

namespace Cntgs

theorem Holds.congr {m : Mem} {n : Nat} {r1 r2 : Nat → Rec} (h : Holds m n r1) (he : ∀ k, k < n → r1 k = r2 k) : Holds m n r2 := by
  intro x
  rw [h x]
  constructor
  · rintro ⟨k, hk, rfl⟩; exact ⟨k, hk, he k hk⟩
  · rintro ⟨k, hk, rfl⟩; exact ⟨k, hk, (he k hk).symm⟩

/-- raw end of the data: end of the last element (0 for an empty vector) -/
def rawEndOf (ps : List Param) (es : List Elem) : Nat :=
  if es = [] then 0 else canonOff ps es (es.length - 1) + esz ps (es.getD (es.length - 1) [])

theorem nextOff_eq_alignUp_rawEnd {ps : List Param} (h : ListOK ps) (es : List Elem) (hne : es ≠ []) :
    nextOff ps es = alignUp (rawEndOf ps es) (storageAl ps) := by
  have hl : 0 < es.length := List.length_pos_iff.mpr hne
  rw [← canonOff_length, rawEndOf, if_neg hne]
  have := canonOff_step h es (es.length - 1) (by omega)
  rw [show es.length - 1 + 1 = es.length by omega] at this
  exact this

theorem canon_end_le_next {ps : List Param} (h : ListOK ps) (es : List Elem) (k : Nat) (hk : k < es.length) :
    canonOff ps es k + esz ps (es.getD k []) ≤ nextOff ps es := by
  have hS := storage_pos h
  -- canonOff (k+1) ≥ the end of k, and canonOff is monotone up to the length
  have hmono : ∀ d, k + 1 + d ≤ es.length → canonOff ps es (k + 1) ≤ canonOff ps es (k + 1 + d) := by
    intro d
    induction d with
    | zero => intro _; exact Nat.le_refl _
    | succ d ih =>
      intro hd
      have h1 := ih (by omega)
      have h2 := canonOff_step h es (k + 1 + d) (by omega)
      have h3 := alignUp_ge (canonOff ps es (k + 1 + d) + esz ps (es.getD (k + 1 + d) [])) (storageAl ps) hS
      rw [show k + 1 + (d + 1) = k + 1 + d + 1 by omega, h2]
      omega
  have h1 := canonOff_step h es k (by omega)
  have h2 := alignUp_ge (canonOff ps es k + esz ps (es.getD k [])) (storageAl ps) hS
  have h3 := hmono (es.length - (k + 1)) (by omega)
  rw [show k + 1 + (es.length - (k + 1)) = es.length by omega, canonOff_length] at h3
  omega

/-- the vector `v` (offset-table locator) represents the element sequence `es` in canonical layout -/
structure VarInv (v : Vec) (es : List Elem) : Prop where
  lok : ListOK v.ps
  notFixed : v.fixedLoc = false
  eok : ElemsOK v.ps es
  size_eq : v.loc.size = es.length
  slots_eq : ∀ k, k < es.length → v.loc.slots k = canonOff v.ps es k
  mem_eq : Holds v.mem es.length (canonRec v.ps es)
  last_eq : v.loc.last = rawEndOf v.ps es ∨ (es ≠ [] ∧ v.loc.last = nextOff v.ps es)
  clean : v.poison = false

theorem VarInv.addr {v : Vec} {es : List Elem} (h : VarInv v es) (k : Nat) (hk : k < es.length) :
    v.addr k = (canonRec v.ps es k).off := by
  simp [Vec.addr, h.notFixed, h.slots_eq k hk, canonRec]

/-- what `operator[]`, iteration and `get<I>` read is the represented sequence -/
theorem VarInv.abs_eq {v : Vec} {es : List Elem} (h : VarInv v es) : v.abs = es.map some := by
  unfold Vec.abs Vec.size
  simp only [h.notFixed, Bool.false_eq_true, if_false, h.size_eq]
  apply List.ext_getElem (by simp)
  intro i h1 h2
  have hi : i < es.length := by simpa using h1
  simp only [List.getElem_map, List.getElem_range, Vec.get]
  rw [h.addr i hi, read_holds h.mem_eq (canon_ordered h.lok es h.eok) i hi]
  simp [canonRec, List.getD_eq_getElem?_getD, List.getElem?_eq_getElem hi]

/-- where `emplace_back` puts the next element: the canonical next start -/
theorem VarInv.alignFirst_last {v : Vec} {es : List Elem} (h : VarInv v es) :
    alignFirst v.ps v.loc.last = nextOff v.ps es := by
  have hS := storageAl_pow2 v.ps h.lok.wf h.lok.ne
  rcases h.last_eq with hl | ⟨hne, hl⟩
  · by_cases hne : es = []
    · subst hne
      rw [hl]; simp only [rawEndOf, if_true, nextOff]
      exact alignFirst_of_dvd v.ps 0 h.lok.wf h.lok.ne (Nat.dvd_zero _)
    · rw [hl, nextOff_eq_alignUp_rawEnd h.lok es hne]
      simp only [rawEndOf, if_neg hne]
      have hl0 : 0 < es.length := List.length_pos_iff.mpr hne
      have hm : es.getD (es.length - 1) [] ∈ es := by
        rw [List.getD_eq_getElem?_getD, List.getElem?_eq_getElem (by omega)]; exact List.getElem_mem _
      have heok := (h.eok _ hm).1
      have hd : storageAl v.ps ∣ canonOff v.ps es (es.length - 1) := canonOff_dvd es _
      have hshift := goEnd_shift v.ps (elemCounts (es.getD (es.length - 1) [])) 0 (canonOff v.ps es (es.length - 1)) h.lok.wf
        (fun p hp => Nat.dvd_trans (al_dvd_storageAl v.ps h.lok.wf p hp) hd)
      simp only [Nat.add_zero] at hshift
      have := alignFirst_end v.ps (elemCounts (es.getD (es.length - 1) [])) (canonOff v.ps es (es.length - 1)) h.lok.wf h.lok.ne heok hd
      rw [hshift] at this
      exact this
  · rw [hl]; exact alignFirst_of_dvd v.ps _ h.lok.wf h.lok.ne (nextOff_dvd es)

/-- **emplace_back refines `push`** -/
theorem VarInv.emplaceBack {v : Vec} {es : List Elem} (h : VarInv v es) (e : Elem) (he : EOK v.ps e) (hsz : 0 < esz v.ps e) :
    VarInv (v.emplaceBack e) (es ++ [e]) := by
  have hstart := h.alignFirst_last
  have hfin : placeEnd v.ps (elemCounts e) (nextOff v.ps es) = nextOff v.ps es + esz v.ps e :=
    placeEnd_aligned h.lok e he _ (nextOff_dvd es)
  have hord := canon_ordered h.lok es h.eok
  have hfree : ∀ k, k < es.length → (canonRec v.ps es k).off + (canonRec v.ps es k).sz ≤ nextOff v.ps es :=
    fun k hk => canon_end_le_next h.lok es k hk
  have hw := write_holds h.mem_eq hord ⟨nextOff v.ps es, esz v.ps e, e⟩ hfree
  have hrec : ∀ k, k < es.length + 1 →
      (fun k => if k = es.length then (⟨nextOff v.ps es, esz v.ps e, e⟩ : Rec) else canonRec v.ps es k) k = canonRec v.ps (es ++ [e]) k := by
    intro k hk
    by_cases hkn : k = es.length
    · subst hkn
      simp only [if_true, canonRec]
      have := canonOff_append_ge' (ps := v.ps) es [e] 0 (by simp)
      simp only [Nat.add_zero, canonOff] at this
      simp [this, List.getD_eq_getElem?_getD]
    · have hk' : k < es.length := by omega
      simp only [hkn, if_false, canonRec]
      rw [canonOff_append_lt es [e] k hk']
      simp [List.getD_eq_getElem?_getD, List.getElem?_append_left hk']
  unfold Vec.emplaceBack
  simp only [h.notFixed, Bool.false_eq_true, if_false, hstart, hfin, Nat.add_sub_cancel_left]
  refine ⟨h.lok, h.notFixed, ?_, ?_, ?_, ?_, ?_, ?_⟩
  · intro x hx
    rcases List.mem_append.mp hx with hx | hx
    · exact h.eok x hx
    · simp only [List.mem_singleton] at hx; subst hx; exact ⟨he, hsz⟩
  · simp [h.size_eq]
  · intro k hk
    simp only [List.length_append, List.length_singleton] at hk
    simp only [Loc.setSlot, h.size_eq]
    by_cases hkn : k = es.length
    · subst hkn
      have := canonOff_append_ge' (ps := v.ps) es [e] 0 (by simp)
      simp only [Nat.add_zero, canonOff] at this
      simp [this]
    · simp only [hkn, if_false]
      rw [h.slots_eq k (by omega), canonOff_append_lt es [e] k (by omega)]
  · have := hw.2.congr hrec
    simpa using this
  · left
    show nextOff v.ps es + esz v.ps e = rawEndOf v.ps (es ++ [e])
    have hc := canonOff_append_ge' (ps := v.ps) es [e] 0 (by simp)
    simp only [Nat.add_zero, canonOff] at hc
    simp only [rawEndOf, List.append_eq_nil_iff, List.cons_ne_nil, and_false, if_false, List.length_append,
      List.length_singleton, Nat.add_sub_cancel, hc]
    simp [List.getD_eq_getElem?_getD]
  · simp [h.clean, hw.1]

end Cntgs

namespace Cntgs

theorem canonOff_at_length {ps : List Param} (as xs : List Elem) (hx : xs ≠ []) :
    canonOff ps (as ++ xs) as.length = nextOff ps as := by
  have h := canonOff_append_ge' (ps := ps) as xs 0 (List.length_pos_iff.mpr hx)
  cases xs with
  | nil => exact absurd rfl hx
  | cons x xs => simpa [canonOff] using h

theorem getD_append_right' (as bs : List Elem) (k : Nat) : (as ++ bs).getD (as.length + k) [] = bs.getD k [] := by
  simp [List.getD_eq_getElem?_getD, List.getElem?_append_right]

theorem getD_append_left' (as bs : List Elem) (k : Nat) (hk : k < as.length) : (as ++ bs).getD k [] = as.getD k [] := by
  simp [List.getD_eq_getElem?_getD, List.getElem?_append_left hk]

/-- geometry of erasing `[i, j)` with a non-empty tail: every quantity of the new layout in terms of the old -/
theorem erase_geometry {ps : List Param} (A M B : List Elem) (hB : B ≠ []) :
    let es := A ++ M ++ B
    let es' := A ++ B
    let i := A.length
    let j := A.length + M.length
    let diff := canonOff ps es j - canonOff ps es i
    canonOff ps es i ≤ canonOff ps es j ∧
    (∀ k, k < A.length → canonOff ps es' k = canonOff ps es k ∧ es'.getD k [] = es.getD k []) ∧
    (∀ k, k < B.length → canonOff ps es' (i + k) = canonOff ps es (j + k) - diff ∧ diff ≤ canonOff ps es (j + k) ∧
        es'.getD (i + k) [] = es.getD (j + k) []) ∧
    nextOff ps es' = nextOff ps es - diff ∧ diff ≤ nextOff ps es := by
  intro es es' i j diff
  have hj : canonOff ps es j = nextOff ps (A ++ M) := by
    have := canonOff_at_length (ps := ps) (A ++ M) B hB
    simpa [es, j, List.length_append] using this
  have hi : canonOff ps es i = nextOff ps A := by
    have := canonOff_at_length (ps := ps) A (M ++ B) (by simp [hB])
    simpa [es, i, List.append_assoc] using this
  have hAM : nextOff ps (A ++ M) = nextOff ps A + nextOff ps M := nextOff_append A M
  have hdiff : diff = nextOff ps M := by simp only [diff, hj, hi, hAM]; omega
  refine ⟨by rw [hi, hj, hAM]; omega, ?_, ?_, ?_, ?_⟩
  · intro k hk
    constructor
    · rw [canonOff_append_lt A B k hk]
      simp only [es, List.append_assoc]
      rw [canonOff_append_lt A (M ++ B) k hk]
    · rw [getD_append_left' A B k hk]
      simp only [es, List.append_assoc]
      rw [getD_append_left' A (M ++ B) k hk]
  · intro k hk
    have h1 : canonOff ps es' (i + k) = nextOff ps A + canonOff ps B k := canonOff_append_ge' A B k hk
    have h2 : canonOff ps es (j + k) = nextOff ps (A ++ M) + canonOff ps B k := by
      have := canonOff_append_ge' (ps := ps) (A ++ M) B k hk
      simpa [es, j, List.length_append] using this
    refine ⟨by rw [h1, h2, hAM, hdiff]; omega, by rw [h2, hAM, hdiff]; omega, ?_⟩
    rw [getD_append_right' A B k]
    have := getD_append_right' (A ++ M) B k
    simpa [es, j, List.length_append] using this.symm
  · have h1 : nextOff ps es' = nextOff ps A + nextOff ps B := nextOff_append A B
    have h2 : nextOff ps es = nextOff ps (A ++ M) + nextOff ps B := nextOff_append (A ++ M) B
    rw [h1, h2, hAM, hdiff]; omega
  · have h2 : nextOff ps es = nextOff ps (A ++ M) + nextOff ps B := nextOff_append (A ++ M) B
    rw [h2, hAM, hdiff]; omega

end Cntgs

namespace Cntgs

/-- `erase(first, last)` written out for the offset-table locator on the memmove path, when there is a tail to move -/
theorem eraseRange_var_move (v : Vec) (i j : Nat) (hnf : v.fixedLoc = false) (ht : v.trivialReloc = true)
    (hij : i < j) (hjn : j < v.loc.size) :
    v.eraseRange i j =
      { v with
        mem := (v.destructRange i j).move (v.loc.slots j) (v.loc.last - v.loc.slots j) (v.loc.slots i),
        poison := v.poison || (v.destructRange i j).moveHits (v.loc.slots j) (v.loc.last - v.loc.slots j) (v.loc.slots i),
        loc := { v.loc with
          slots := fun k =>
            if i ≤ k ∧ k < i + (v.loc.size - j) then v.loc.slots (k + (j - i)) - (v.loc.slots j - v.loc.slots i)
            else if j ≠ i ∧ k = v.loc.size - (j - i) then v.loc.last - (v.loc.slots j - v.loc.slots i)
            else v.loc.slots k,
          size := v.loc.size - (j - i),
          last := v.loc.last - (v.loc.slots j - v.loc.slots i) } } := by
  have hne : i ≠ j := by omega
  have hne' : j ≠ i := by omega
  have hjne : (j == v.loc.size) = false := by simp; omega
  have hn' : v.loc.size - (j - i) ≠ 0 := by omega
  have hlt : v.loc.size - (j - i) < v.loc.size := by omega
  have hnf' : isFixedOrPlain v.ps = false := hnf
  have ht' : (v.ps.all fun p => p.ty.trivMoveCtor && p.ty.trivDtor) = true := ht
  have hk : ¬ (i ≤ v.loc.size - (j - i) ∧ v.loc.size - (j - i) < i + (v.loc.size - j)) := by omega
  simp only [Vec.eraseRange, Vec.size, Vec.fixedLoc, hnf', Bool.false_eq_true, if_false, hjn, hne, ne_eq, not_false_eq_true, and_self,
    if_true, Vec.moveForward, Vec.trivialReloc, ht', Vec.moveForwardTrivial, Bool.not_false, Bool.true_and, hjne,
    Vec.addr, Vec.dataEnd, Loc.resize, hn', hlt, hk, hne']

/-- … and when nothing has to be moved (empty range, or the range reaches the end) -/
theorem eraseRange_var_nomove (v : Vec) (i j : Nat) (hnf : v.fixedLoc = false) (h : ¬ (j < v.loc.size ∧ i ≠ j)) :
    v.eraseRange i j =
      { v with mem := v.destructRange i j,
               loc := { v.loc with
                 last := (if v.loc.size - (j - i) = 0 then 0 else if v.loc.size - (j - i) < v.loc.size then v.loc.slots (v.loc.size - (j - i)) else v.loc.last),
                 size := v.loc.size - (j - i) } } := by
  have hnf' : isFixedOrPlain v.ps = false := hnf
  simp only [Vec.eraseRange, Vec.size, Vec.fixedLoc, hnf', Bool.false_eq_true, if_false, h, Loc.resize]

theorem VarInv.destruct_holds {v : Vec} {es : List Elem} (h : VarInv v es) (i j : Nat) (hj : j ≤ es.length) :
    ∀ x, x ∈ v.destructRange i j ↔ ∃ k, k < es.length ∧ (k < i ∨ j ≤ k) ∧ x = canonRec v.ps es k :=
  dropRange_holds h.mem_eq (canon_ordered h.lok es h.eok) i j hj v.addr (fun k _ hk => h.addr k (by omega))

/-- **erase(first, last) refines removing a range from the sequence** (memmove path, offset-table locator) -/
theorem VarInv.eraseRange_gen {v : Vec} (A M B : List Elem) (h : VarInv v (A ++ M ++ B))
    (ht' : B ≠ [] → M ≠ [] → v.trivialReloc = true) :
    VarInv (v.eraseRange A.length (A.length + M.length)) (A ++ B) := by
  have hord := canon_ordered h.lok _ h.eok
  have hlen : (A ++ M ++ B).length = A.length + M.length + B.length := by simp only [List.length_append]
  have hsz : v.loc.size = A.length + M.length + B.length := by rw [h.size_eq, hlen]
  have heok' : ElemsOK v.ps (A ++ B) := by
    intro x hx
    apply h.eok x
    rcases List.mem_append.mp hx with hx | hx
    · exact List.mem_append_left _ (List.mem_append_left _ hx)
    · exact List.mem_append_right _ hx
  have hdrop := h.destruct_holds A.length (A.length + M.length) (by omega)
  by_cases hmove : A.length + M.length < v.loc.size ∧ A.length ≠ A.length + M.length
  · -- a tail exists and something is erased
    have hB : B ≠ [] := by
      intro hb; subst hb; simp at hsz; omega
    have hM : 0 < M.length := by omega
    obtain ⟨g0, g1, g2, g3, g4⟩ := erase_geometry (ps := v.ps) A M B hB
    have ht : v.trivialReloc = true := ht' hB (fun hm => by subst hm; simp at hM)
    rw [eraseRange_var_move v _ _ h.notFixed ht (by omega) hmove.1]
    have hsj := h.slots_eq (A.length + M.length) (by omega)
    have hsi := h.slots_eq A.length (by omega)
    have hfin : (canonRec v.ps (A ++ M ++ B) ((A ++ M ++ B).length - 1)).off + (canonRec v.ps (A ++ M ++ B) ((A ++ M ++ B).length - 1)).sz ≤ v.loc.last := by
      have hne : A ++ M ++ B ≠ [] := by simp [hB]
      have hBl : 0 < B.length := List.length_pos_iff.mpr hB
      rcases h.last_eq with hl | ⟨_, hl⟩
      · rw [hl]; simp only [rawEndOf, if_neg hne, canonRec]; exact Nat.le_refl _
      · rw [hl]; exact canon_end_le_next h.lok _ _ (by rw [hlen]; omega)
    have hmv := move_holds hord A.length (A.length + M.length) v.loc.last (by omega) (by omega) hdrop hfin
    simp only [canonRec] at hmv
    rw [← hsj, ← hsi] at hmv
    refine ⟨h.lok, h.notFixed, heok', ?_, ?_, ?_, ?_, ?_⟩
    · simp only [List.length_append]; omega
    · intro k hk
      simp only [List.length_append] at hk
      by_cases hkA : k < A.length
      · have hc1 : ¬ (A.length ≤ k ∧ k < A.length + (v.loc.size - (A.length + M.length))) := by omega
        have hc2 : ¬ (A.length + M.length ≠ A.length ∧ k = v.loc.size - (A.length + M.length - A.length)) := by omega
        simp only [hc1, hc2, if_false]
        rw [h.slots_eq k (by omega), (g1 k hkA).1]
      · have hc1 : A.length ≤ k ∧ k < A.length + (v.loc.size - (A.length + M.length)) := by omega
        simp only [hc1, and_self, if_true]
        obtain ⟨e1, e2, _⟩ := g2 (k - A.length) (by omega)
        rw [show A.length + (k - A.length) = k by omega] at e1
        rw [e1, h.slots_eq _ (by omega), hsj, hsi]
        congr 2; omega
    · -- memory: front records unchanged, tail records shifted
      intro x
      rw [hmv.2 x]
      constructor
      · rintro (⟨k, hk, rfl⟩ | ⟨k, hk1, hk2, rfl⟩)
        · refine ⟨k, by simp only [List.length_append]; omega, ?_⟩
          obtain ⟨e1, e2⟩ := g1 k hk
          simp only [canonRec, e1, e2]
        · refine ⟨k - M.length, by simp only [List.length_append]; omega, ?_⟩
          obtain ⟨e1, e2, e3⟩ := g2 (k - (A.length + M.length)) (by omega)
          rw [show A.length + M.length + (k - (A.length + M.length)) = k by omega] at e1 e2 e3
          rw [show A.length + (k - (A.length + M.length)) = k - M.length by omega] at e1 e3
          simp only [canonRec, e1, e3, hsj, hsi]
      · rintro ⟨k, hk, rfl⟩
        simp only [List.length_append] at hk
        by_cases hkA : k < A.length
        · left
          obtain ⟨e1, e2⟩ := g1 k hkA
          exact ⟨k, hkA, by simp only [canonRec, e1, e2]⟩
        · right
          refine ⟨k + M.length, by omega, by omega, ?_⟩
          obtain ⟨e1, e2, e3⟩ := g2 (k - A.length) (by omega)
          rw [show A.length + (k - A.length) = k by omega] at e1 e3
          rw [show A.length + M.length + (k - A.length) = k + M.length by omega] at e1 e2 e3
          simp only [canonRec, e1, e3, hsj, hsi]
    · -- end of data shifts with the tail
      have hneAB : A ++ B ≠ [] := by simp [hB]
      have hne : A ++ M ++ B ≠ [] := by simp [hB]
      rcases h.last_eq with hl | ⟨_, hl⟩
      · left
        show v.loc.last - (v.loc.slots (A.length + M.length) - v.loc.slots A.length) = rawEndOf v.ps (A ++ B)
        rw [hl, hsj, hsi]
        simp only [rawEndOf, hne, hneAB, if_false, List.length_append]
        have hBl : 0 < B.length := List.length_pos_iff.mpr hB
        obtain ⟨e1, e2, e3⟩ := g2 (B.length - 1) (by omega)
        rw [show A.length + (B.length - 1) = A.length + B.length - 1 by omega] at e1 e3
        rw [show A.length + M.length + (B.length - 1) = A.length + M.length + B.length - 1 by omega] at e1 e2 e3
        rw [e1, e3]
        omega
      · right
        refine ⟨hneAB, ?_⟩
        show v.loc.last - (v.loc.slots (A.length + M.length) - v.loc.slots A.length) = nextOff v.ps (A ++ B)
        rw [hl, hsj, hsi, g3]
    · simp [h.clean, hmv.1]
  · -- nothing to move: the range is empty or reaches the end
    rw [eraseRange_var_nomove v _ _ h.notFixed hmove]
    by_cases hM : M = []
    · -- empty range: nothing changes
      subst hM
      simp only [List.append_nil, List.length_nil, Nat.add_zero, Nat.sub_self, Nat.sub_zero] at *
      have hmem : ∀ x, x ∈ v.destructRange A.length A.length ↔ x ∈ v.mem := by
        intro x; rw [hdrop x, h.mem_eq x]
        constructor
        · rintro ⟨k, hk, _, rfl⟩; exact ⟨k, hk, rfl⟩
        · rintro ⟨k, hk, rfl⟩; exact ⟨k, hk, by omega, rfl⟩
      refine ⟨h.lok, h.notFixed, h.eok, h.size_eq, h.slots_eq, ?_, ?_, h.clean⟩
      · intro x; rw [hmem x]; exact h.mem_eq x
      · show (if v.loc.size = 0 then 0 else if v.loc.size < v.loc.size then v.loc.slots v.loc.size else v.loc.last) = _ ∨ _
        by_cases h0 : v.loc.size = 0
        · simp only [h0, if_true]
          have : A ++ B = [] := List.length_eq_zero_iff.mp (by rw [← h.size_eq]; exact h0)
          left; simp [rawEndOf, this]
        · simp only [h0, if_false, Nat.lt_irrefl]
          exact h.last_eq
    · -- the range reaches the end: B is empty
      have hB : B = [] := by
        by_cases hb : B = []
        · exact hb
        · exfalso
          have : 0 < B.length := List.length_pos_iff.mpr hb
          have : 0 < M.length := List.length_pos_iff.mpr hM
          exact hmove ⟨by omega, by omega⟩
      subst hB
      have hMl : 0 < M.length := List.length_pos_iff.mpr hM
      simp only [List.append_nil, List.length_nil, Nat.add_zero] at *
      have hn' : v.loc.size - (A.length + M.length - A.length) = A.length := by omega
      rw [hn']
      refine ⟨h.lok, h.notFixed, heok', rfl, ?_, ?_, ?_, h.clean⟩
      · intro k hk
        rw [h.slots_eq k (by omega), canonOff_append_lt A M k hk]
      · intro x
        rw [hdrop x]
        constructor
        · rintro ⟨k, hk, hout, rfl⟩
          have hkA : k < A.length := by omega
          refine ⟨k, hkA, ?_⟩
          simp only [canonRec, canonOff_append_lt A M k hkA, getD_append_left' A M k hkA]
        · rintro ⟨k, hk, rfl⟩
          refine ⟨k, by omega, Or.inl hk, ?_⟩
          simp only [canonRec, canonOff_append_lt A M k hk, getD_append_left' A M k hk]
      · show (if A.length = 0 then 0 else if A.length < v.loc.size then v.loc.slots A.length else v.loc.last) = _ ∨ _
        by_cases hA : A.length = 0
        · have : A = [] := List.length_eq_zero_iff.mp hA
          subst this; left; simp [rawEndOf]
        · have hlt : A.length < v.loc.size := by omega
          simp only [hA, if_false, hlt, if_true]
          right
          refine ⟨fun hh => hA (by rw [hh]; rfl), ?_⟩
          rw [h.slots_eq A.length (by omega)]
          exact canonOff_at_length A M hM

theorem VarInv.eraseRange {v : Vec} (A M B : List Elem) (h : VarInv v (A ++ M ++ B)) (ht : v.trivialReloc = true) :
    VarInv (v.eraseRange A.length (A.length + M.length)) (A ++ B) := VarInv.eraseRange_gen A M B h (fun _ _ => ht)

end Cntgs

namespace Cntgs

theorem popBack_eq_eraseRange (v : Vec) (hnf : v.fixedLoc = false) (hpos : 0 < v.loc.size) :
    v.popBack = v.eraseRange (v.loc.size - 1) v.loc.size := by
  have hnf' : isFixedOrPlain v.ps = false := hnf
  have h1 : v.loc.size - (v.loc.size - 1) = 1 := by omega
  simp only [Vec.popBack, Vec.eraseRange, Vec.size, Vec.fixedLoc, hnf', Bool.false_eq_true, if_false, Nat.lt_irrefl, false_and,
    Vec.destructRange, h1, List.range_one, List.map_cons, List.map_nil, List.foldl_cons, List.foldl_nil, Nat.zero_add]

theorem clear_eq_eraseRange (v : Vec) (hnf : v.fixedLoc = false) : v.clear = v.eraseRange 0 v.loc.size := by
  have hnf' : isFixedOrPlain v.ps = false := hnf
  simp only [Vec.clear, Vec.eraseRange, Vec.size, Vec.fixedLoc, hnf', Bool.false_eq_true, if_false, Nat.lt_irrefl, false_and,
    Nat.sub_zero, Nat.sub_self]

theorem erase_eq_eraseRange (v : Vec) (i : Nat) (hnf : v.fixedLoc = false) (ht : v.trivialReloc = true) (hi : i < v.loc.size) :
    v.erase i = v.eraseRange i (i + 1) := by
  have hnf' : isFixedOrPlain v.ps = false := hnf
  have ht' : (v.ps.all fun p => p.ty.trivMoveCtor && p.ty.trivDtor) = true := ht
  have h1 : i + 1 - i = 1 := by omega
  have hne : i ≠ i + 1 := by omega
  by_cases hlast : i + 1 < v.loc.size
  · simp only [Vec.erase, Vec.eraseRange, Vec.size, Vec.fixedLoc, hnf', Bool.false_eq_true, if_false, hlast, hne, ne_eq,
      not_false_eq_true, and_self, if_true, h1]
  · have heq : i + 1 = v.loc.size := by omega
    have hb : ((i + 1) == v.loc.size) = true := by simp [heq]
    simp only [Vec.erase, Vec.eraseRange, Vec.size, Vec.fixedLoc, hnf', Bool.false_eq_true, if_false, hlast, false_and, h1,
      Vec.moveForward, Vec.trivialReloc, ht', if_true, Vec.moveForwardTrivial, Bool.not_false, Bool.true_and, hb]

/-- `reserve` keeps the represented sequence (it relocates the block; offsets are relative to its begin) -/
theorem VarInv.reserve {v : Vec} {es : List Elem} (h : VarInv v es) (n b : Nat) (junk : Nat → Nat) :
    VarInv (v.reserve n b junk) es := by
  unfold Vec.reserve
  split
  · have hnf' : isFixedOrPlain v.ps = false := h.notFixed
    refine ⟨h.lok, h.notFixed, h.eok, ?_, ?_, ?_, ?_, h.clean⟩
    · simp [Vec.fixedLoc, hnf', h.size_eq]
    · intro k hk
      simp only [Vec.fixedLoc, hnf', Bool.false_eq_true, if_false, h.size_eq, hk, if_true]
      exact h.slots_eq k hk
    · simpa [Vec.fixedLoc, hnf'] using h.mem_eq
    · simpa [Vec.fixedLoc, hnf'] using h.last_eq
  · exact h

/-- `reserve(n, b)` with `n ≤ capacity()` does nothing at all -/
theorem reserve_noop (v : Vec) (n b : Nat) (junk : Nat → Nat) (h : n ≤ v.cap) : v.reserve n b junk = v := by
  unfold Vec.reserve; simp [Nat.not_lt.mpr h]

theorem reserve_cap (v : Vec) (n b : Nat) (junk : Nat → Nat) (h : v.cap < n) : (v.reserve n b junk).cap = n := by
  unfold Vec.reserve; simp [h]

/-- the empty vector right after construction -/
theorem VarInv.new (ps : List Param) (fs : List Nat) (cap bytes : Nat) (junk : Nat → Nat) (hl : ListOK ps)
    (hnf : isFixedOrPlain ps = false) : VarInv (Vec.new ps fs cap bytes junk) [] := by
  refine ⟨hl, hnf, fun _ h => absurd h (by simp), rfl, fun k hk => absurd hk (by simp), ?_, Or.inl rfl, rfl⟩
  intro x; simp [Vec.new]

end Cntgs

namespace Cntgs

/-- the operations of C01 on one vector -/
inductive VOp
  | emplace (e : Elem) | pop | erase (i : Nat) | eraseRange (i j : Nat) | clear | reserve (n b : Nat)
  deriving Repr

def VOp.apply (junk : Nat → Nat) (v : Vec) : VOp → Vec
  | .emplace e => v.emplaceBack e
  | .pop => v.popBack
  | .erase i => v.erase i
  | .eraseRange i j => v.eraseRange i j
  | .clear => v.clear
  | .reserve n b => v.reserve n b junk

/-- the same operations on an ordinary sequence of tuples -/
def VOp.spec (es : List Elem) : VOp → List Elem
  | .emplace e => es ++ [e]
  | .pop => es.dropLast
  | .erase i => es.take i ++ es.drop (i + 1)
  | .eraseRange i j => es.take i ++ es.drop j
  | .clear => []
  | .reserve _ _ => es

/-- the documented preconditions as far as the bookkeeping is concerned (capacity and payload budget
    concern the size of the block: C02) -/
def VOp.Pre (ps : List Param) (es : List Elem) : VOp → Prop
  | .emplace e => EOK ps e ∧ 0 < esz ps e
  | .pop => es ≠ []
  | .erase i => i < es.length
  | .eraseRange i j => i ≤ j ∧ j ≤ es.length
  | _ => True

theorem split_range (es : List Elem) (i j : Nat) (hij : i ≤ j) (hj : j ≤ es.length) :
    es = es.take i ++ (es.drop i).take (j - i) ++ es.drop j ∧ (es.take i).length = i ∧ ((es.drop i).take (j - i)).length = j - i := by
  refine ⟨?_, by simp; omega, by simp; omega⟩
  have h1 : es.drop j = (es.drop i).drop (j - i) := by rw [List.drop_drop]; congr 1; omega
  rw [h1, List.append_assoc, List.take_append_drop, List.take_append_drop]

theorem VarInv.eraseRange' {v : Vec} {es : List Elem} (h : VarInv v es) (ht : v.trivialReloc = true) (i j : Nat)
    (hij : i ≤ j) (hj : j ≤ es.length) : VarInv (v.eraseRange i j) (es.take i ++ es.drop j) := by
  obtain ⟨he, h1, h2⟩ := split_range es i j hij hj
  have h' : VarInv v (es.take i ++ (es.drop i).take (j - i) ++ es.drop j) := by rw [← he]; exact h
  have := VarInv.eraseRange (es.take i) ((es.drop i).take (j - i)) (es.drop j) h' ht
  rw [h1, h2, show i + (j - i) = j by omega] at this
  exact this

/-- **one step**: every operation of C01 maps the canonical layout of `es` to the canonical layout of the
    sequence that the same operation produces on a plain list -/
theorem VarInv.step {v : Vec} {es : List Elem} (h : VarInv v es) (ht : v.trivialReloc = true) (junk : Nat → Nat) (op : VOp)
    (hpre : op.Pre v.ps es) : VarInv (op.apply junk v) (op.spec es) := by
  cases op with
  | emplace e => exact h.emplaceBack e hpre.1 hpre.2
  | pop =>
    have hl : 0 < es.length := List.length_pos_iff.mpr hpre
    simp only [VOp.apply, VOp.spec]
    rw [popBack_eq_eraseRange v h.notFixed (by rw [h.size_eq]; exact hl), h.size_eq]
    have := h.eraseRange' ht (es.length - 1) es.length (by omega) (Nat.le_refl _)
    rw [List.drop_length, List.append_nil] at this
    rw [List.dropLast_eq_take]; exact this
  | erase i =>
    simp only [VOp.apply, VOp.spec]
    rw [erase_eq_eraseRange v i h.notFixed ht (by rw [h.size_eq]; exact hpre)]
    exact h.eraseRange' ht i (i + 1) (by omega) hpre
  | eraseRange i j => exact h.eraseRange' ht i j hpre.1 hpre.2
  | clear =>
    simp only [VOp.apply, VOp.spec]
    rw [clear_eq_eraseRange v h.notFixed, h.size_eq]
    have := h.eraseRange' ht 0 es.length (Nat.zero_le _) (Nat.le_refl _)
    simpa using this
  | reserve n b => exact h.reserve n b junk

theorem relocateOne_ps (v : Vec) (i src : Nat) : (v.relocateOne i src).ps = v.ps := by
  simp only [Vec.relocateOne]
  split <;> rfl

theorem foldl_relocate_ps (src dst : Nat) (l : List Nat) (v : Vec) :
    (l.foldl (fun (w : Vec) k => w.relocateOne (dst + k) (src + k)) v).ps = v.ps := by
  induction l generalizing v with
  | nil => rfl
  | cons k ks ih => simp only [List.foldl_cons]; rw [ih, relocateOne_ps]

theorem moveForwardElementwise_ps (v : Vec) (src dst : Nat) : (v.moveForwardElementwise src dst).ps = v.ps := by
  simp only [Vec.moveForwardElementwise]
  exact foldl_relocate_ps src dst _ v

theorem moveForwardTrivial_ps (v : Vec) (m : Mem) (src dst : Nat) : (v.moveForwardTrivial m src dst).ps = v.ps := by
  unfold Vec.moveForwardTrivial; repeat' (first | rfl | split)

theorem moveForward_ps (v : Vec) (src dst : Nat) : (v.moveForward src dst).ps = v.ps := by
  unfold Vec.moveForward; split
  · exact moveForwardTrivial_ps v v.mem src dst
  · exact moveForwardElementwise_ps v src dst

/-- no operation changes the parameter list -/
theorem apply_ps (junk : Nat → Nat) (v : Vec) (op : VOp) : (op.apply junk v).ps = v.ps := by
  cases op with
  | emplace e => simp only [VOp.apply, Vec.emplaceBack]; split <;> rfl
  | pop => rfl
  | erase i => simp only [VOp.apply, Vec.erase]; exact moveForward_ps _ _ _
  | eraseRange i j =>
    simp only [VOp.apply, Vec.eraseRange]
    split
    · exact moveForward_ps _ _ _
    · rfl
  | clear => rfl
  | reserve n b => simp only [VOp.apply, Vec.reserve]; split <;> rfl

/-- sequences of operations that respect the preconditions at every step -/
def Valid (ps : List Param) : List Elem → List VOp → Prop
  | _, [] => True
  | es, op :: ops => op.Pre ps es ∧ Valid ps (op.spec es) ops

/-- **every history**: after any valid sequence of operations the vector represents exactly what an
    ordinary sequence of tuples holds after the same operations (unbounded in length) -/
theorem VarInv.history {v : Vec} {es : List Elem} (h : VarInv v es) (ht : v.trivialReloc = true) (junk : Nat → Nat)
    (ops : List VOp) (hv : Valid v.ps es ops) :
    VarInv (ops.foldl (VOp.apply junk) v) (ops.foldl VOp.spec es) := by
  induction ops generalizing v es with
  | nil => exact h
  | cons op ops ih =>
    simp only [List.foldl_cons]
    have hps := apply_ps junk v op
    apply ih (h.step ht junk op hv.1)
    · unfold Vec.trivialReloc at ht ⊢; rw [hps]; exact ht
    · rw [hps]; exact hv.2

end Cntgs

namespace Cntgs

/-! ### the stride locator (lists without VaryingSize) -/

def fixRec (ps : List Param) (stride : Nat) (es : List Elem) (k : Nat) : Rec :=
  ⟨stride * k, esz ps (es.getD k []), es.getD k []⟩

structure FixInv (v : Vec) (es : List Elem) : Prop where
  lok : ListOK v.ps
  isFixed : v.fixedLoc = true
  eok : ElemsOK v.ps es
  count_eq : v.loc.count = es.length
  stride_dvd : storageAl v.ps ∣ v.loc.stride
  fits : ∀ e ∈ es, esz v.ps e ≤ v.loc.stride
  mem_eq : Holds v.mem es.length (fixRec v.ps v.loc.stride es)
  clean : v.poison = false

theorem fix_ordered {v : Vec} {es : List Elem} (h : FixInv v es) : Ordered es.length (fixRec v.ps v.loc.stride es) := by
  have hm : ∀ k, k < es.length → es.getD k [] ∈ es := by
    intro k hk
    rw [List.getD_eq_getElem?_getD, List.getElem?_eq_getElem hk]; exact List.getElem_mem hk
  constructor
  · intro k hk; exact (h.eok _ (hm k hk)).2
  · intro k hk
    simp only [fixRec]
    have := h.fits _ (hm k (by omega))
    rw [Nat.mul_succ]; omega

theorem FixInv.addr {v : Vec} {es : List Elem} (h : FixInv v es) (k : Nat) : v.addr k = (fixRec v.ps v.loc.stride es k).off := by
  simp [Vec.addr, h.isFixed, fixRec]

theorem FixInv.abs_eq {v : Vec} {es : List Elem} (h : FixInv v es) : v.abs = es.map some := by
  unfold Vec.abs Vec.size
  simp only [h.isFixed, if_true, h.count_eq]
  apply List.ext_getElem (by simp)
  intro i h1 h2
  have hi : i < es.length := by simpa using h1
  simp only [List.getElem_map, List.getElem_range, Vec.get]
  rw [h.addr i, read_holds h.mem_eq (fix_ordered h) i hi]
  simp [fixRec, List.getD_eq_getElem?_getD, List.getElem?_eq_getElem hi]

theorem FixInv.emplaceBack {v : Vec} {es : List Elem} (h : FixInv v es) (e : Elem) (he : EOK v.ps e) (hsz : 0 < esz v.ps e)
    (hfit : esz v.ps e ≤ v.loc.stride) : FixInv (v.emplaceBack e) (es ++ [e]) := by
  have hd : storageAl v.ps ∣ v.loc.stride * es.length := Nat.dvd_trans h.stride_dvd (Nat.dvd_mul_right _ _)
  have hfin : placeEnd v.ps (elemCounts e) (v.loc.stride * es.length) = v.loc.stride * es.length + esz v.ps e :=
    placeEnd_aligned h.lok e he _ hd
  have hord := fix_ordered h
  have hfree : ∀ k, k < es.length → (fixRec v.ps v.loc.stride es k).off + (fixRec v.ps v.loc.stride es k).sz ≤ v.loc.stride * es.length := by
    intro k hk
    have hm : es.getD k [] ∈ es := by
      rw [List.getD_eq_getElem?_getD, List.getElem?_eq_getElem hk]; exact List.getElem_mem hk
    have := h.fits _ hm
    simp only [fixRec]
    have h2 : v.loc.stride * (k + 1) ≤ v.loc.stride * es.length := Nat.mul_le_mul_left _ (by omega)
    rw [Nat.mul_succ] at h2; omega
  have hw := write_holds h.mem_eq hord ⟨v.loc.stride * es.length, esz v.ps e, e⟩ hfree
  have hrec : ∀ k, k < es.length + 1 →
      (fun k => if k = es.length then (⟨v.loc.stride * es.length, esz v.ps e, e⟩ : Rec) else fixRec v.ps v.loc.stride es k) k
        = fixRec v.ps v.loc.stride (es ++ [e]) k := by
    intro k hk
    by_cases hkn : k = es.length
    · subst hkn; simp [fixRec, List.getD_eq_getElem?_getD]
    · have hk' : k < es.length := by omega
      simp [hkn, fixRec, List.getD_eq_getElem?_getD, List.getElem?_append_left hk']
  unfold Vec.emplaceBack
  simp only [h.isFixed, if_true, h.count_eq, hfin, Nat.add_sub_cancel_left]
  refine ⟨h.lok, h.isFixed, ?_, by simp [h.count_eq], h.stride_dvd, ?_, ?_, by simp [h.clean, hw.1]⟩
  · intro x hx
    rcases List.mem_append.mp hx with hx | hx
    · exact h.eok x hx
    · simp only [List.mem_singleton] at hx; subst hx; exact ⟨he, hsz⟩
  · intro x hx
    rcases List.mem_append.mp hx with hx | hx
    · exact h.fits x hx
    · simp only [List.mem_singleton] at hx; subst hx; exact hfit
  · have := hw.2.congr hrec
    simpa using this

theorem eraseRange_fix_move (v : Vec) (i j : Nat) (hf : v.fixedLoc = true) (ht : v.trivialReloc = true)
    (hij : i < j) (hjn : j < v.loc.count) :
    v.eraseRange i j =
      { v with
        mem := (v.destructRange i j).move (v.loc.stride * j) (v.loc.stride * v.loc.count - v.loc.stride * j) (v.loc.stride * i),
        poison := v.poison || (v.destructRange i j).moveHits (v.loc.stride * j) (v.loc.stride * v.loc.count - v.loc.stride * j) (v.loc.stride * i),
        loc := { v.loc with count := v.loc.count - (j - i) } } := by
  have hne : i ≠ j := by omega
  have hf' : isFixedOrPlain v.ps = true := hf
  have ht' : (v.ps.all fun p => p.ty.trivMoveCtor && p.ty.trivDtor) = true := ht
  simp only [Vec.eraseRange, Vec.size, Vec.fixedLoc, hf', if_true, hjn, hne, ne_eq, not_false_eq_true, and_self,
    Vec.moveForward, Vec.trivialReloc, ht', Vec.moveForwardTrivial, Bool.not_true, Bool.false_and, Bool.false_eq_true, if_false,
    Vec.addr, Vec.dataEnd, Loc.resize]

theorem eraseRange_fix_nomove (v : Vec) (i j : Nat) (hf : v.fixedLoc = true) (h : ¬ (j < v.loc.count ∧ i ≠ j)) :
    v.eraseRange i j = { v with mem := v.destructRange i j, loc := { v.loc with count := v.loc.count - (j - i) } } := by
  have hf' : isFixedOrPlain v.ps = true := hf
  simp only [Vec.eraseRange, Vec.size, Vec.fixedLoc, hf', if_true, h, if_false, Loc.resize]

theorem FixInv.destruct_holds {v : Vec} {es : List Elem} (h : FixInv v es) (i j : Nat) (hj : j ≤ es.length) :
    ∀ x, x ∈ v.destructRange i j ↔ ∃ k, k < es.length ∧ (k < i ∨ j ≤ k) ∧ x = fixRec v.ps v.loc.stride es k :=
  dropRange_holds h.mem_eq (fix_ordered h) i j hj v.addr (fun k _ _ => h.addr k)

theorem FixInv.eraseRange_gen {v : Vec} (A M B : List Elem) (h : FixInv v (A ++ M ++ B))
    (ht' : B ≠ [] → M ≠ [] → v.trivialReloc = true) :
    FixInv (v.eraseRange A.length (A.length + M.length)) (A ++ B) := by
  have hord := fix_ordered h
  have hlen : (A ++ M ++ B).length = A.length + M.length + B.length := by simp only [List.length_append]
  have hcnt : v.loc.count = A.length + M.length + B.length := by rw [h.count_eq, hlen]
  have hsub : ∀ x ∈ A ++ B, x ∈ A ++ M ++ B := by
    intro x hx
    rcases List.mem_append.mp hx with hx | hx
    · exact List.mem_append_left _ (List.mem_append_left _ hx)
    · exact List.mem_append_right _ hx
  have hdrop := h.destruct_holds A.length (A.length + M.length) (by omega)
  -- records of the new sequence in terms of the old one
  have hfront : ∀ k, k < A.length → fixRec v.ps v.loc.stride (A ++ B) k = fixRec v.ps v.loc.stride (A ++ M ++ B) k := by
    intro k hk
    simp only [fixRec, getD_append_left' A B k hk]
    rw [List.append_assoc, getD_append_left' A (M ++ B) k hk]
  have htail : ∀ k, k < B.length → (A ++ B).getD (A.length + k) [] = (A ++ M ++ B).getD (A.length + M.length + k) [] := by
    intro k _
    rw [getD_append_right' A B k]
    have := getD_append_right' (A ++ M) B k
    simpa [List.length_append] using this.symm
  by_cases hmove : A.length + M.length < v.loc.count ∧ A.length ≠ A.length + M.length
  · have ht : v.trivialReloc = true := by
      apply ht'
      · intro hb; subst hb; simp at hcnt; omega
      · intro hm; subst hm; simp at hmove
    rw [eraseRange_fix_move v _ _ h.isFixed ht (by omega) hmove.1]
    have hfin : (fixRec v.ps v.loc.stride (A ++ M ++ B) ((A ++ M ++ B).length - 1)).off +
        (fixRec v.ps v.loc.stride (A ++ M ++ B) ((A ++ M ++ B).length - 1)).sz ≤ v.loc.stride * v.loc.count := by
      have hk : (A ++ M ++ B).length - 1 < (A ++ M ++ B).length := by rw [hlen]; omega
      have hm : (A ++ M ++ B).getD ((A ++ M ++ B).length - 1) [] ∈ A ++ M ++ B := by
        rw [List.getD_eq_getElem?_getD, List.getElem?_eq_getElem hk]; exact List.getElem_mem hk
      have := h.fits _ hm
      simp only [fixRec]
      have h2 : v.loc.stride * ((A ++ M ++ B).length - 1 + 1) = v.loc.stride * v.loc.count := by
        rw [h.count_eq]; congr 1; omega
      rw [Nat.mul_succ] at h2; omega
    have hmv := move_holds hord A.length (A.length + M.length) (v.loc.stride * v.loc.count) (by omega) (by rw [hlen]; omega) hdrop hfin
    simp only [fixRec] at hmv
    refine ⟨h.lok, h.isFixed, fun x hx => h.eok x (hsub x hx), ?_, h.stride_dvd, fun x hx => h.fits x (hsub x hx), ?_, by simp [h.clean, hmv.1]⟩
    · simp only [List.length_append]; omega
    · intro x
      rw [hmv.2 x]
      constructor
      · rintro (⟨k, hk, rfl⟩ | ⟨k, hk1, hk2, rfl⟩)
        · exact ⟨k, by simp only [List.length_append]; omega, (hfront k hk).symm ▸ rfl⟩
        · refine ⟨k - M.length, by simp only [List.length_append]; omega, ?_⟩
          have e3 := htail (k - (A.length + M.length)) (by omega)
          rw [show A.length + M.length + (k - (A.length + M.length)) = k by omega,
              show A.length + (k - (A.length + M.length)) = k - M.length by omega] at e3
          simp only [fixRec, e3]
          congr 1
          rw [← Nat.mul_sub, ← Nat.mul_sub]; congr 1; omega
      · rintro ⟨k, hk, rfl⟩
        simp only [List.length_append] at hk
        by_cases hkA : k < A.length
        · left; exact ⟨k, hkA, hfront k hkA⟩
        · right
          refine ⟨k + M.length, by omega, by omega, ?_⟩
          have e3 := htail (k - A.length) (by omega)
          rw [show A.length + (k - A.length) = k by omega,
              show A.length + M.length + (k - A.length) = k + M.length by omega] at e3
          simp only [fixRec, e3]
          congr 1
          rw [← Nat.mul_sub, ← Nat.mul_sub]; congr 1; omega
  · rw [eraseRange_fix_nomove v _ _ h.isFixed hmove]
    refine ⟨h.lok, h.isFixed, fun x hx => h.eok x (hsub x hx), ?_, h.stride_dvd, fun x hx => h.fits x (hsub x hx), ?_, h.clean⟩
    · simp only [List.length_append]; omega
    · -- either M or B is empty
      intro x
      rw [hdrop x]
      by_cases hM : M = []
      · subst hM
        simp only [List.append_nil, List.length_nil, Nat.add_zero] at *
        constructor
        · rintro ⟨k, hk, _, rfl⟩; exact ⟨k, hk, rfl⟩
        · rintro ⟨k, hk, rfl⟩; exact ⟨k, hk, by omega, rfl⟩
      · have hB : B = [] := by
          by_cases hb : B = []
          · exact hb
          · exfalso
            have : 0 < B.length := List.length_pos_iff.mpr hb
            have : 0 < M.length := List.length_pos_iff.mpr hM
            exact hmove ⟨by omega, by omega⟩
        subst hB
        simp only [List.append_nil, List.length_nil, Nat.add_zero] at *
        constructor
        · rintro ⟨k, hk, hout, rfl⟩
          have hkA : k < A.length := by omega
          exact ⟨k, hkA, by simp only [fixRec, getD_append_left' A M k hkA]⟩
        · rintro ⟨k, hk, rfl⟩
          exact ⟨k, by omega, Or.inl hk, by simp only [fixRec, getD_append_left' A M k hk]⟩

theorem FixInv.eraseRange {v : Vec} (A M B : List Elem) (h : FixInv v (A ++ M ++ B)) (ht : v.trivialReloc = true) :
    FixInv (v.eraseRange A.length (A.length + M.length)) (A ++ B) := FixInv.eraseRange_gen A M B h (fun _ _ => ht)

end Cntgs
