/-
Refinement of the vector operations to a plain sequence of elements (C01 and its corollaries C02, C04,
C06, C10, C16, C18): canonical layout invariant, preserved by emplace_back, pop_back, erase, clear,
reserve, for both locators on the trivially relocatable path.
-/
import Cntgs.MemProofs
import Cntgs.LayoutProofs
namespace Cntgs

/-- well-formed element for a list: one value list per parameter, a single object for plain parameters -/
def EOK (ps : List Param) (e : Elem) : Prop := CountsOK ps (elemCounts e)

/-- byte size of an element that starts at a storage-aligned address -/
def esz (ps : List Param) (e : Elem) : Nat := goEnd ps (elemCounts e) 0

structure ListOK (ps : List Param) : Prop where
  wf : ∀ p ∈ ps, WfParam p
  ne : ps ≠ []

theorem storage_pos {ps : List Param} (h : ListOK ps) : 0 < storageAl ps := (storageAl_pow2 ps h.wf h.ne).pos

theorem placeEnd_aligned {ps : List Param} (h : ListOK ps) (e : Elem) (he : EOK ps e) (o : Nat) (ho : storageAl ps ∣ o) :
    placeEnd ps (elemCounts e) o = o + esz ps e := by
  rw [placeEnd_eq_goEnd ps _ o h.wf h.ne he ho]
  have := goEnd_shift ps (elemCounts e) 0 o h.wf (fun p hp => Nat.dvd_trans (al_dvd_storageAl ps h.wf p hp) ho)
  simpa [esz] using this

/-- canonical start offsets of the elements of a vector with a VaryingSize parameter -/
def canonOff (ps : List Param) : List Elem → Nat → Nat
  | [], _ => 0
  | _ :: _, 0 => 0
  | e :: es, k + 1 => alignUp (esz ps e) (storageAl ps) + canonOff ps es k

/-- start of the element that would follow `es` -/
def nextOff (ps : List Param) : List Elem → Nat
  | [] => 0
  | e :: es => alignUp (esz ps e) (storageAl ps) + nextOff ps es

theorem canonOff_dvd {ps : List Param} (es : List Elem) (k : Nat) : storageAl ps ∣ canonOff ps es k := by
  induction es generalizing k with
  | nil => simp [canonOff]
  | cons e es ih =>
    cases k with
    | zero => simp [canonOff]
    | succ k => simp only [canonOff]; exact Nat.dvd_add (alignUp_dvd _ _) (ih k)

theorem nextOff_dvd {ps : List Param} (es : List Elem) : storageAl ps ∣ nextOff ps es := by
  induction es with
  | nil => simp [nextOff]
  | cons e es ih => simp only [nextOff]; exact Nat.dvd_add (alignUp_dvd _ _) ih

theorem canonOff_length {ps : List Param} (es : List Elem) : canonOff ps es es.length = nextOff ps es := by
  induction es with
  | nil => simp [canonOff, nextOff]
  | cons e es ih => simp [canonOff, nextOff, ih]

/-- offsets depend only on the elements in front -/
theorem canonOff_append {ps : List Param} (as bs : List Elem) (k : Nat) (hk : k ≤ as.length) :
    canonOff ps (as ++ bs) k = canonOff ps as k ∨ (k = as.length ∧ canonOff ps (as ++ bs) k = nextOff ps as) := by
  induction as generalizing k with
  | nil =>
    have : k = 0 := by simpa using hk
    subst this
    right; cases bs <;> simp [canonOff, nextOff]
  | cons a as ih =>
    cases k with
    | zero => left; simp [canonOff]
    | succ k =>
      simp only [List.cons_append, canonOff, nextOff, List.length_cons]
      rcases ih k (by simpa using hk) with h | ⟨h1, h2⟩
      · left; rw [h]
      · right; exact ⟨by omega, by rw [h2]⟩

theorem canonOff_append_lt {ps : List Param} (as bs : List Elem) (k : Nat) (hk : k < as.length) :
    canonOff ps (as ++ bs) k = canonOff ps as k := by
  induction as generalizing k with
  | nil => simp at hk
  | cons a as ih =>
    cases k with
    | zero => simp [canonOff]
    | succ k => simp only [List.cons_append, canonOff]; rw [ih k (by simpa using hk)]

theorem canonOff_append_ge {ps : List Param} (as bs : List Elem) (k : Nat) :
    canonOff ps (as ++ bs) (as.length + k) = nextOff ps as + canonOff ps bs k ∨ (bs = [] ∧ True) := by
  induction as with
  | nil => left; simp [nextOff]
  | cons a as ih =>
    rcases ih with h | h
    · left
      simp only [List.cons_append, List.length_cons, nextOff]
      rw [show as.length + 1 + k = (as.length + k) + 1 by omega]
      simp only [canonOff]; rw [h]; omega
    · right; exact h

theorem canonOff_append_ge' {ps : List Param} (as bs : List Elem) (k : Nat) (hk : k < bs.length) :
    canonOff ps (as ++ bs) (as.length + k) = nextOff ps as + canonOff ps bs k := by
  induction as with
  | nil => simp [nextOff]
  | cons a as ih =>
    simp only [List.cons_append, List.length_cons, nextOff]
    rw [show as.length + 1 + k = (as.length + k) + 1 by omega]
    simp only [canonOff]; rw [ih]; omega

theorem nextOff_append {ps : List Param} (as bs : List Elem) : nextOff ps (as ++ bs) = nextOff ps as + nextOff ps bs := by
  induction as with
  | nil => simp [nextOff]
  | cons a as ih => simp only [List.cons_append, nextOff]; rw [ih]; omega

/-- the record of element `k` in the canonical layout -/
def canonRec (ps : List Param) (es : List Elem) (k : Nat) : Rec :=
  ⟨canonOff ps es k, esz ps (es.getD k []), es.getD k []⟩

/-- all elements are well-formed and occupy at least one byte -/
def ElemsOK (ps : List Param) (es : List Elem) : Prop := ∀ e ∈ es, EOK ps e ∧ 0 < esz ps e

theorem canonOff_step {ps : List Param} (h : ListOK ps) (es : List Elem) (k : Nat) (hk : k + 1 ≤ es.length) :
    canonOff ps es (k + 1) = alignUp (canonOff ps es k + esz ps (es.getD k [])) (storageAl ps) := by
  induction es generalizing k with
  | nil => simp at hk
  | cons e es ih =>
    cases k with
    | zero =>
      cases es with
      | nil => simp [canonOff]
      | cons e2 es2 => simp [canonOff]
    | succ k =>
      have hk' : k + 1 ≤ es.length := by simpa using hk
      simp only [canonOff, List.getD_cons_succ]
      rw [ih k hk']
      have hd : storageAl ps ∣ alignUp (esz ps e) (storageAl ps) := alignUp_dvd _ _
      rw [Nat.add_assoc, alignUp_add_of_dvd _ _ _ (storage_pos h) hd]

theorem canon_ordered {ps : List Param} (h : ListOK ps) (es : List Elem) (hok : ElemsOK ps es) :
    Ordered es.length (canonRec ps es) := by
  constructor
  · intro k hk
    have hm : es.getD k [] ∈ es := by
      rw [List.getD_eq_getElem?_getD, List.getElem?_eq_getElem hk]; exact List.getElem_mem hk
    exact (hok _ hm).2
  · intro k hk
    simp only [canonRec]
    rw [canonOff_step h es k (by omega)]
    exact alignUp_ge _ _ (storage_pos h)

end Cntgs

namespace Cntgs

theorem Holds.congr {m : Mem} {n : Nat} {r1 r2 : Nat → Rec} (h : Holds m n r1) (he : ∀ k, k < n → r1 k = r2 k) : Holds m n r2 := by
  intro x
  rw [h x]
  constructor
  · rintro ⟨k, hk, rfl⟩; exact ⟨k, hk, he k hk⟩
  · rintro ⟨k, hk, rfl⟩; exact ⟨k, hk, (he k hk).symm⟩

/-- raw end of the data: end of the last element (0 for an empty vector) -/
def rawEndOf (ps : List Param) (es : List Elem) : Nat :=
  if es = [] then 0 else canonOff ps es (es.length - 1) + esz ps (es.getD (es.length - 1) [])

theorem nextOff_eq_alignUp_rawEnd {ps : List Param} (h : ListOK ps) (es : List Elem) (hne : es ≠ []) :
    nextOff ps es = alignUp (rawEndOf ps es) (storageAl ps) := by
  have hl : 0 < es.length := List.length_pos_iff.mpr hne
  rw [← canonOff_length, rawEndOf, if_neg hne]
  have := canonOff_step h es (es.length - 1) (by omega)
  rw [show es.length - 1 + 1 = es.length by omega] at this
  exact this

theorem canon_end_le_next {ps : List Param} (h : ListOK ps) (es : List Elem) (k : Nat) (hk : k < es.length) :
    canonOff ps es k + esz ps (es.getD k []) ≤ nextOff ps es := by
  have hS := storage_pos h
  -- canonOff (k+1) ≥ the end of k, and canonOff is monotone up to the length
  have hmono : ∀ d, k + 1 + d ≤ es.length → canonOff ps es (k + 1) ≤ canonOff ps es (k + 1 + d) := by
    intro d
    induction d with
    | zero => intro _; exact Nat.le_refl _
    | succ d ih =>
      intro hd
      have h1 := ih (by omega)
      have h2 := canonOff_step h es (k + 1 + d) (by omega)
      have h3 := alignUp_ge (canonOff ps es (k + 1 + d) + esz ps (es.getD (k + 1 + d) [])) (storageAl ps) hS
      rw [show k + 1 + (d + 1) = k + 1 + d + 1 by omega, h2]
      omega
  have h1 := canonOff_step h es k (by omega)
  have h2 := alignUp_ge (canonOff ps es k + esz ps (es.getD k [])) (storageAl ps) hS
  have h3 := hmono (es.length - (k + 1)) (by omega)
  rw [show k + 1 + (es.length - (k + 1)) = es.length by omega, canonOff_length] at h3
  omega

/-- the vector `v` (offset-table locator) represents the element sequence `es` in canonical layout -/
structure VarInv (v : Vec) (es : List Elem) : Prop where
  lok : ListOK v.ps
  notFixed : v.fixedLoc = false
  eok : ElemsOK v.ps es
  size_eq : v.loc.size = es.length
  slots_eq : ∀ k, k < es.length → v.loc.slots k = canonOff v.ps es k
  mem_eq : Holds v.mem es.length (canonRec v.ps es)
  last_eq : v.loc.last = rawEndOf v.ps es ∨ (es ≠ [] ∧ v.loc.last = nextOff v.ps es)
  clean : v.poison = false

theorem VarInv.addr {v : Vec} {es : List Elem} (h : VarInv v es) (k : Nat) (hk : k < es.length) :
    v.addr k = (canonRec v.ps es k).off := by
  simp [Vec.addr, h.notFixed, h.slots_eq k hk, canonRec]

/-- what `operator[]`, iteration and `get<I>` read is the represented sequence -/
theorem VarInv.abs_eq {v : Vec} {es : List Elem} (h : VarInv v es) : v.abs = es.map some := by
  unfold Vec.abs Vec.size
  simp only [h.notFixed, Bool.false_eq_true, if_false, h.size_eq]
  apply List.ext_getElem (by simp)
  intro i h1 h2
  have hi : i < es.length := by simpa using h1
  simp only [List.getElem_map, List.getElem_range, Vec.get]
  rw [h.addr i hi, read_holds h.mem_eq (canon_ordered h.lok es h.eok) i hi]
  simp [canonRec, List.getD_eq_getElem?_getD, List.getElem?_eq_getElem hi]

/-- where `emplace_back` puts the next element: the canonical next start -/
theorem VarInv.alignFirst_last {v : Vec} {es : List Elem} (h : VarInv v es) :
    alignFirst v.ps v.loc.last = nextOff v.ps es := by
  have hS := storageAl_pow2 v.ps h.lok.wf h.lok.ne
  rcases h.last_eq with hl | ⟨hne, hl⟩
  · by_cases hne : es = []
    · subst hne
      rw [hl]; simp only [rawEndOf, if_true, nextOff]
      exact alignFirst_of_dvd v.ps 0 h.lok.wf h.lok.ne (Nat.dvd_zero _)
    · rw [hl, nextOff_eq_alignUp_rawEnd h.lok es hne]
      simp only [rawEndOf, if_neg hne]
      have hl0 : 0 < es.length := List.length_pos_iff.mpr hne
      have hm : es.getD (es.length - 1) [] ∈ es := by
        rw [List.getD_eq_getElem?_getD, List.getElem?_eq_getElem (by omega)]; exact List.getElem_mem _
      have heok := (h.eok _ hm).1
      have hd : storageAl v.ps ∣ canonOff v.ps es (es.length - 1) := canonOff_dvd es _
      have hshift := goEnd_shift v.ps (elemCounts (es.getD (es.length - 1) [])) 0 (canonOff v.ps es (es.length - 1)) h.lok.wf
        (fun p hp => Nat.dvd_trans (al_dvd_storageAl v.ps h.lok.wf p hp) hd)
      simp only [Nat.add_zero] at hshift
      have := alignFirst_end v.ps (elemCounts (es.getD (es.length - 1) [])) (canonOff v.ps es (es.length - 1)) h.lok.wf h.lok.ne heok hd
      rw [hshift] at this
      exact this
  · rw [hl]; exact alignFirst_of_dvd v.ps _ h.lok.wf h.lok.ne (nextOff_dvd es)

/-- **emplace_back refines `push`** -/
theorem VarInv.emplaceBack {v : Vec} {es : List Elem} (h : VarInv v es) (e : Elem) (he : EOK v.ps e) (hsz : 0 < esz v.ps e) :
    VarInv (v.emplaceBack e) (es ++ [e]) := by
  have hstart := h.alignFirst_last
  have hfin : placeEnd v.ps (elemCounts e) (nextOff v.ps es) = nextOff v.ps es + esz v.ps e :=
    placeEnd_aligned h.lok e he _ (nextOff_dvd es)
  have hord := canon_ordered h.lok es h.eok
  have hfree : ∀ k, k < es.length → (canonRec v.ps es k).off + (canonRec v.ps es k).sz ≤ nextOff v.ps es :=
    fun k hk => canon_end_le_next h.lok es k hk
  have hw := write_holds h.mem_eq hord ⟨nextOff v.ps es, esz v.ps e, e⟩ hfree
  have hrec : ∀ k, k < es.length + 1 →
      (fun k => if k = es.length then (⟨nextOff v.ps es, esz v.ps e, e⟩ : Rec) else canonRec v.ps es k) k = canonRec v.ps (es ++ [e]) k := by
    intro k hk
    by_cases hkn : k = es.length
    · subst hkn
      simp only [if_true, canonRec]
      have := canonOff_append_ge' (ps := v.ps) es [e] 0 (by simp)
      simp only [Nat.add_zero, canonOff] at this
      simp [this, List.getD_eq_getElem?_getD]
    · have hk' : k < es.length := by omega
      simp only [hkn, if_false, canonRec]
      rw [canonOff_append_lt es [e] k hk']
      simp [List.getD_eq_getElem?_getD, List.getElem?_append_left hk']
  unfold Vec.emplaceBack
  simp only [h.notFixed, Bool.false_eq_true, if_false, hstart, hfin, Nat.add_sub_cancel_left]
  refine ⟨h.lok, h.notFixed, ?_, ?_, ?_, ?_, ?_, ?_⟩
  · intro x hx
    rcases List.mem_append.mp hx with hx | hx
    · exact h.eok x hx
    · simp only [List.mem_singleton] at hx; subst hx; exact ⟨he, hsz⟩
  · simp [h.size_eq]
  · intro k hk
    simp only [List.length_append, List.length_singleton] at hk
    simp only [Loc.setSlot, h.size_eq]
    by_cases hkn : k = es.length
    · subst hkn
      have := canonOff_append_ge' (ps := v.ps) es [e] 0 (by simp)
      simp only [Nat.add_zero, canonOff] at this
      simp [this]
    · simp only [hkn, if_false]
      rw [h.slots_eq k (by omega), canonOff_append_lt es [e] k (by omega)]
  · have := hw.2.congr hrec
    simpa using this
  · left
    show nextOff v.ps es + esz v.ps e = rawEndOf v.ps (es ++ [e])
    have hc := canonOff_append_ge' (ps := v.ps) es [e] 0 (by simp)
    simp only [Nat.add_zero, canonOff] at hc
    simp only [rawEndOf, List.append_eq_nil_iff, List.cons_ne_nil, and_false, if_false, List.length_append,
      List.length_singleton, Nat.add_sub_cancel, hc]
    simp [List.getD_eq_getElem?_getD]
  · simp [h.clean, hw.1]

end Cntgs

namespace Cntgs

theorem canonOff_at_length {ps : List Param} (as xs : List Elem) (hx : xs ≠ []) :
    canonOff ps (as ++ xs) as.length = nextOff ps as := by
  have h := canonOff_append_ge' (ps := ps) as xs 0 (List.length_pos_iff.mpr hx)
  cases xs with
  | nil => exact absurd rfl hx
  | cons x xs => simpa [canonOff] using h

theorem getD_append_right' (as bs : List Elem) (k : Nat) : (as ++ bs).getD (as.length + k) [] = bs.getD k [] := by
  simp [List.getD_eq_getElem?_getD, List.getElem?_append_right]

theorem getD_append_left' (as bs : List Elem) (k : Nat) (hk : k < as.length) : (as ++ bs).getD k [] = as.getD k [] := by
  simp [List.getD_eq_getElem?_getD, List.getElem?_append_left hk]

/-- geometry of erasing `[i, j)` with a non-empty tail: every quantity of the new layout in terms of the old -/
theorem erase_geometry {ps : List Param} (A M B : List Elem) (hB : B ≠ []) :
    let es := A ++ M ++ B
    let es' := A ++ B
    let i := A.length
    let j := A.length + M.length
    let diff := canonOff ps es j - canonOff ps es i
    canonOff ps es i ≤ canonOff ps es j ∧
    (∀ k, k < A.length → canonOff ps es' k = canonOff ps es k ∧ es'.getD k [] = es.getD k []) ∧
    (∀ k, k < B.length → canonOff ps es' (i + k) = canonOff ps es (j + k) - diff ∧ diff ≤ canonOff ps es (j + k) ∧
        es'.getD (i + k) [] = es.getD (j + k) []) ∧
    nextOff ps es' = nextOff ps es - diff ∧ diff ≤ nextOff ps es := by
  intro es es' i j diff
  have hj : canonOff ps es j = nextOff ps (A ++ M) := by
    have := canonOff_at_length (ps := ps) (A ++ M) B hB
    simpa [es, j, List.length_append] using this
  have hi : canonOff ps es i = nextOff ps A := by
    have := canonOff_at_length (ps := ps) A (M ++ B) (by simp [hB])
    simpa [es, i, List.append_assoc] using this
  have hAM : nextOff ps (A ++ M) = nextOff ps A + nextOff ps M := nextOff_append A M
  have hdiff : diff = nextOff ps M := by simp only [diff, hj, hi, hAM]; omega
  refine ⟨by rw [hi, hj, hAM]; omega, ?_, ?_, ?_, ?_⟩
  · intro k hk
    constructor
    · rw [canonOff_append_lt A B k hk]
      simp only [es, List.append_assoc]
      rw [canonOff_append_lt A (M ++ B) k hk]
    · rw [getD_append_left' A B k hk]
      simp only [es, List.append_assoc]
      rw [getD_append_left' A (M ++ B) k hk]
  · intro k hk
    have h1 : canonOff ps es' (i + k) = nextOff ps A + canonOff ps B k := canonOff_append_ge' A B k hk
    have h2 : canonOff ps es (j + k) = nextOff ps (A ++ M) + canonOff ps B k := by
      have := canonOff_append_ge' (ps := ps) (A ++ M) B k hk
      simpa [es, j, List.length_append] using this
    refine ⟨by rw [h1, h2, hAM, hdiff]; omega, by rw [h2, hAM, hdiff]; omega, ?_⟩
    rw [getD_append_right' A B k]
    have := getD_append_right' (A ++ M) B k
    simpa [es, j, List.length_append] using this.symm
  · have h1 : nextOff ps es' = nextOff ps A + nextOff ps B := nextOff_append A B
    have h2 : nextOff ps es = nextOff ps (A ++ M) + nextOff ps B := nextOff_append (A ++ M) B
    rw [h1, h2, hAM, hdiff]; omega
  · have h2 : nextOff ps es = nextOff ps (A ++ M) + nextOff ps B := nextOff_append (A ++ M) B
    rw [h2, hAM, hdiff]; omega

end Cntgs
