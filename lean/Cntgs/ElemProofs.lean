/-
Standalone elements (ContiguousElement) over whole histories: every sequence of element constructions (from the three
kinds of reference, copy, allocator-extended copy and move), both assignments on all their branches, swap and
destruction — allocation failures included — refines the same sequence on a map  name ↦ value | moved-from.

`ERep` is what a concrete element (`ElemSt`: value, byte size, owning pointer) must satisfy to represent an abstract
one: a live element holds exactly the value, of the list's shape, in a block that is large enough; a moved-from
element holds no block.
-/
import Cntgs.RefProofs
import Cntgs.AllocProofs
import Cntgs.FitProofs
namespace Cntgs

inductive AElem
  | live (val : Elem)
  | moved
  deriving Repr

def ERep (ps : List Param) (es : ElemSt) : AElem → Prop
  | .live val => es.val = val ∧ val.length = ps.length ∧ es.bytes = elemBytes ps val ∧ 0 < es.bytes ∧
                 es.ptr.blk ≠ none ∧ es.bytes ≤ es.ptr.units * storageAl ps
  | .moved => es.ptr.blk = none ∧ es.ptr.units = 0

def ERel (ps : List Param) : Option ElemSt → Option AElem → Prop
  | none, none => True
  | some es, some a => ERep ps es a
  | _, _ => False

def EInv (ps : List Param) (elems : Nat → Option ElemSt) (A : Nat → Option AElem) : Prop := ∀ k, ERel ps (elems k) (A k)

def eset {α : Type} (A : Nat → Option α) (k : Nat) (x : Option α) : Nat → Option α := fun i => if i = k then x else A i

theorem setE_elems (ew : EWorld) (k : Nat) (e : Option ElemSt) : (ew.setE k e).elems = eset ew.elems k e := rfl

theorem EInv.set {ps : List Param} {el : Nat → Option ElemSt} {A : Nat → Option AElem} (h : EInv ps el A) (k : Nat)
    (x : Option ElemSt) (a : Option AElem) (hx : ERel ps x a) : EInv ps (eset el k x) (eset A k a) := by
  intro i
  by_cases hi : i = k
  · simp only [eset, hi, if_true]; exact hx
  · simp only [eset, hi, if_false]; exact h i

theorem EInv.setRep {ps : List Param} {el : Nat → Option ElemSt} {A : Nat → Option AElem} (h : EInv ps el A) (k : Nat)
    (es : ElemSt) (a : AElem) (hr : ERep ps es a) : EInv ps (eset el k (some es)) (eset A k (some a)) :=
  h.set k (some es) (some a) hr

theorem EInv.getLive {ps : List Param} {el : Nat → Option ElemSt} {A : Nat → Option AElem} (h : EInv ps el A) (k : Nat) (v : Elem)
    (hA : A k = some (.live v)) : ∃ es, el k = some es ∧ ERep ps es (.live v) := by
  have := h k
  rw [hA] at this
  cases hel : el k with
  | none => rw [hel] at this; exact absurd this (by simp [ERel])
  | some es => rw [hel] at this; exact ⟨es, rfl, this⟩

theorem EInv.getSome {ps : List Param} {el : Nat → Option ElemSt} {A : Nat → Option AElem} (h : EInv ps el A) (k : Nat)
    (hA : A k ≠ none) : ∃ es a, el k = some es ∧ A k = some a ∧ ERep ps es a := by
  have := h k
  cases hel : el k with
  | none =>
    cases hAk : A k with
    | none => exact absurd hAk hA
    | some a => rw [hel, hAk] at this; exact absurd this (by simp [ERel])
  | some es =>
    cases hAk : A k with
    | none => exact absurd hAk hA
    | some a => rw [hel, hAk] at this; exact ⟨es, a, rfl, rfl, this⟩

theorem EInv.getNone {ps : List Param} {el : Nat → Option ElemSt} {A : Nat → Option AElem} (h : EInv ps el A) (k : Nat)
    (hA : A k = none) : el k = none := by
  have := h k
  rw [hA] at this
  cases hel : el k with
  | none => rfl
  | some es => rw [hel] at this; exact absurd this (by simp [ERel])

/-! ### shapes -/

theorem elemBytes_congr (ps : List Param) (a b : Elem) (h : elemCounts a = elemCounts b) : elemBytes ps a = elemBytes ps b := by
  simp [elemBytes, h]

theorem movedValues_shape (ps : List Param) (e : Elem) (he : e.length = ps.length) :
    (movedValues ps e).length = ps.length ∧ elemCounts (movedValues ps e) = elemCounts e := by
  unfold movedValues elemCounts
  refine ⟨by simp [he], ?_⟩
  rw [List.map_map]
  have : (List.length ∘ fun (x : Param × List Nat) => if x.1.ty.trivMoveCtor = true then x.2 else x.2.map (fun _ => 0)) =
      (List.length ∘ Prod.snd) := by
    funext x
    simp only [Function.comp]
    split <;> simp
  rw [this, ← List.map_map, List.map_snd_zip (by omega)]

theorem zeros_length (l : List Nat) : (zeros l).length = l.length := by simp [zeros]

theorem refAssign_move_source_shape (ps : List Param) (s t : Elem) (hs : s.length = ps.length) (ht : t.length = ps.length) :
    (refAssign ps true s t).1.length = ps.length ∧ elemCounts (refAssign ps true s t).1 = elemCounts s := by
  have hlen : (refAssign ps true s t).1.length = ps.length := by
    have h := assign_fold (·.ty.trivMoveAssign) ps true s t hs ht
    unfold refAssign
    simp only [if_true]
    exact h.len1
  refine ⟨hlen, ?_⟩
  unfold elemCounts
  apply List.ext_getElem (by simp [hlen, hs])
  intro j h1 h2
  simp only [List.length_map] at h1 h2
  simp only [List.getElem_map]
  have hj : j < ps.length := by omega
  have := refAssign_move_source ps s t j hs ht hj
  rw [List.getD_eq_getElem?_getD, List.getElem?_eq_getElem h1, List.getD_eq_getElem?_getD, List.getElem?_eq_getElem h2] at this
  simp only [Option.getD_some] at this
  rw [this]
  split
  · rfl
  · exact zeros_length _

/-! ### the owning pointer, as far as the representation needs it -/

theorem make_shape (h : Heap) (units unit alloc : Nat) (h' : Heap) (p : Ptr) (hm : Ptr.make h units unit alloc = (h', some p)) :
    p.blk ≠ none ∧ p.units = units := by
  simp only [Ptr.make] at hm
  split at hm <;> simp at hm
  obtain ⟨_, rfl⟩ := hm
  simp

theorem reallocate_shape (p : Ptr) (h : Heap) (c : ACfg) (unit newAlloc units : Nat) :
    ((p.reallocate h c unit newAlloc units).2.2 = true →
      (p.reallocate h c unit newAlloc units).2.1.blk ≠ none ∧ (p.reallocate h c unit newAlloc units).2.1.units = units) ∧
    ((p.reallocate h c unit newAlloc units).2.2 = false → (p.reallocate h c unit newAlloc units).2.1 = p) := by
  unfold Ptr.reallocate
  split <;> simp

theorem copyAssign_shape (p o : Ptr) (h : Heap) (c : ACfg) (unit : Nat) :
    ((p.copyAssign h c unit o).2.2 = true →
      (p.copyAssign h c unit o).2.1.blk ≠ none ∧ o.units ≤ (p.copyAssign h c unit o).2.1.units) ∧
    ((p.copyAssign h c unit o).2.2 = false →
      (p.copyAssign h c unit o).2.1.blk = p.blk ∧ (p.copyAssign h c unit o).2.1.units = p.units) := by
  unfold Ptr.copyAssign
  split
  · have := reallocate_shape p h c unit o.alloc o.units
    refine ⟨fun hh => ?_, fun hh => ?_⟩
    · obtain ⟨h1, h2⟩ := this.1 hh; exact ⟨h1, by omega⟩
    · rw [this.2 hh]; exact ⟨rfl, rfl⟩
  · simp only
    generalize hp1 : (if c.pocca = true then { p with alloc := o.alloc } else p) = p1
    have hb : p1.blk = p.blk := by subst hp1; split <;> rfl
    have hu : p1.units = p.units := by subst hp1; split <;> rfl
    split
    · have := reallocate_shape p1 h c unit p1.alloc o.units
      refine ⟨fun hh => ?_, fun hh => ?_⟩
      · obtain ⟨h1, h2⟩ := this.1 hh; exact ⟨h1, by omega⟩
      · rw [this.2 hh]; exact ⟨hb, hu⟩
    · rename_i hn
      simp only [Bool.or_eq_true, decide_eq_true_eq, not_or, Nat.not_lt] at hn
      refine ⟨fun _ => ⟨?_, hn.1⟩, fun hh => by simp at hh⟩
      intro hnone
      have hnone' : p1.blk = none := hnone
      exact hn.2 (by simp [hnone'])

/-! ### operations, their specification and their preconditions -/

inductive EOp
  | fromRef (k s i alloc : Nat) (mv : Bool)
  | copy (a b : Nat)
  | copyA (a b alloc : Nat)
  | move (a b : Nat)
  | moveA (a b alloc : Nat)
  | assign (a b : Nat)
  | moveAssign (a b : Nat)
  | swap (a b : Nat)
  | destroy (k : Nat)
  deriving Repr

def EOp.apply (ps : List Param) (ew : EWorld) : EOp → EWorld
  | .fromRef k s i al mv => ew.elemFromRef ps k s i al mv
  | .copy a b => ew.elemCopy ps a b
  | .copyA a b al => ew.elemCopyA ps a b al
  | .move a b => ew.elemMove a b
  | .moveA a b al => ew.elemMoveA ps a b al
  | .assign a b => ew.elemAssign ps a b
  | .moveAssign a b => ew.elemMoveAssign ps a b
  | .swap a b => ew.elemSwap a b
  | .destroy k => ew.elemDestroy ps k

/-- does `Element{std::move(e_a), alloc}` take over the block? -/
def stealsCtor (ew : EWorld) (a alloc : Nat) : Bool :=
  match ew.elems a with
  | some ea => ew.w.acfg.eq alloc ea.ptr.alloc
  | none => false

/-- does `e_b = std::move(e_a)` take over the block? -/
def stealsAssign (ew : EWorld) (a b : Nat) : Bool :=
  match ew.elems a, ew.elems b with
  | some ea, some eb => ew.w.acfg.ae || ew.w.acfg.pocma || ew.w.acfg.eq eb.ptr.alloc ea.ptr.alloc
  | _, _ => false

/-- copy assignment assigns field by field (no reallocation) for lists without VaryingSize unless a propagating allocator
    has to be taken over -/
def fieldwiseCopy (ps : List Param) (ew : EWorld) : Bool := isFixedOrPlain ps && (!ew.w.acfg.pocca || ew.w.acfg.ae)

/-- the same operation on the map of abstract elements -/
def EOp.aspec (ps : List Param) (ew : EWorld) (A : Nat → Option AElem) : EOp → (Nat → Option AElem)
  | .fromRef k s i _ _ => match (ew.w.vecs s).bind (fun v => (v.get i).map (fun e => (v, e))) with
      | some (_, e) => eset A k (some (.live e))
      | none => A
  | .copy a b => eset A b (A a)
  | .copyA a b _ => eset A b (A a)
  | .move a b => eset (eset A b (A a)) a (some .moved)
  | .moveA a b al => match A a with
      | some (.live v) =>
        if stealsCtor ew a al then eset (eset A b (some (.live v))) a (some .moved)
        else eset (eset A b (some (.live v))) a (some (.live (movedValues ps v)))
      | _ => A
  | .assign a b => if a = b then A else eset A b (A a)
  | .moveAssign a b =>
    if a = b then A else
    match A a, A b with
    | some (.live va), some y =>
      if stealsAssign ew a b then eset (eset A b (some (.live va))) a (some .moved)
      else if isFixedOrPlain ps then
        (match y with
         | .live vb => eset (eset A b (some (.live va))) a (some (.live (refAssign ps true va vb).1))
         | .moved => A)
      else eset (eset A b (some (.live va))) a (some (.live (movedValues ps va)))
    | _, _ => A
  | .swap a b => if a = b then A else eset (eset A a (A b)) b (A a)
  | .destroy k => eset A k none

/-- documented preconditions: constructions go into an empty slot, sources are live, field-wise assignment needs a live
    target with the same field sizes, elements are not empty -/
def EOp.Pre (ps : List Param) (ew : EWorld) (A : Nat → Option AElem) : EOp → Prop
  | .fromRef k s i _ _ => A k = none ∧
      ∀ v e, (ew.w.vecs s).bind (fun v => (v.get i).map (fun e => (v, e))) = some (v, e) → e.length = ps.length ∧ 0 < elemBytes ps e
  | .copy a b => (∃ v, A a = some (.live v)) ∧ A b = none
  | .copyA a b _ => (∃ v, A a = some (.live v)) ∧ A b = none
  | .move a b => (∃ v, A a = some (.live v)) ∧ A b = none
  | .moveA a b _ => (∃ v, A a = some (.live v)) ∧ A b = none
  | .assign a b => a = b ∨ ∃ va, A a = some (.live va) ∧ A b ≠ none ∧
      (fieldwiseCopy ps ew = true → ∃ vb, A b = some (.live vb) ∧ elemCounts vb = elemCounts va)
  | .moveAssign a b => a = b ∨ ∃ va, A a = some (.live va) ∧ A b ≠ none ∧
      (stealsAssign ew a b = false → isFixedOrPlain ps = true → ∃ vb, A b = some (.live vb) ∧ elemCounts vb = elemCounts va)
  | .swap a b => a = b ∨ (A a ≠ none ∧ A b ≠ none)
  | .destroy _ => True

/-! ### one step -/

theorem elem_fromRef_refines (ps : List Param) (hS : 0 < storageAl ps) (ew : EWorld) (A : Nat → Option AElem) (h : EInv ps ew.elems A)
    (k s i al : Nat) (mv : Bool) (hpre : (EOp.fromRef k s i al mv).Pre ps ew A) (hprev : ew.w.threw = false) :
    EInv ps (ew.elemFromRef ps k s i al mv).elems
      (if (ew.elemFromRef ps k s i al mv).w.threw then A else (EOp.fromRef k s i al mv).aspec ps ew A) := by
  unfold EWorld.elemFromRef EOp.aspec
  cases hv : (ew.w.vecs s).bind (fun v => (v.get i).map (fun e => (v, e))) with
  | none => simp only [hv, hprev, Bool.false_eq_true, if_false]; exact h
  | some ve =>
    obtain ⟨v, e⟩ := ve
    obtain ⟨hlen, hpos⟩ := hpre.2 v e hv
    simp only [hv]
    cases hm : Ptr.make ew.w.heap (units (elemBytes ps e) (storageAl ps)) (storageAl ps) al with
    | mk h1 r =>
      cases r with
      | none => simp only [if_true]; exact h
      | some p =>
        simp only [Bool.false_eq_true, if_false, setE_elems]
        obtain ⟨hb, hu⟩ := make_shape _ _ _ _ _ _ hm
        exact h.setRep k ⟨e, elemBytes ps e, p⟩ (.live e) ⟨rfl, hlen, rfl, hpos, hb, by rw [hu]; exact units_tight_le _ _ hS⟩

theorem elem_copy_refines (ps : List Param) (ew : EWorld) (A : Nat → Option AElem) (h : EInv ps ew.elems A)
    (a b : Nat) (hpre : (EOp.copy a b).Pre ps ew A) :
    EInv ps (ew.elemCopy ps a b).elems (if (ew.elemCopy ps a b).w.threw then A else (EOp.copy a b).aspec ps ew A) := by
  obtain ⟨⟨va, hA⟩, _⟩ := hpre
  obtain ⟨ea, hea, hrep⟩ := h.getLive a va hA
  unfold EWorld.elemCopy EOp.aspec
  simp only [hea]
  cases hm : Ptr.copy ew.w.heap (storageAl ps) ea.ptr with
  | mk h1 r =>
    cases r with
    | none => simp only [if_true]; exact h
    | some p =>
      simp only [Bool.false_eq_true, if_false, setE_elems, hA]
      obtain ⟨hb, hu⟩ := make_shape _ _ _ _ _ _ hm
      obtain ⟨r1, r2, r3, r4, _, r6⟩ := hrep
      exact h.setRep b { ea with ptr := p } (.live va) ⟨r1, r2, r3, r4, hb, by rw [hu]; exact r6⟩

theorem elem_copyA_refines (ps : List Param) (hS : 0 < storageAl ps) (ew : EWorld) (A : Nat → Option AElem) (h : EInv ps ew.elems A)
    (a b al : Nat) (hpre : (EOp.copyA a b al).Pre ps ew A) :
    EInv ps (ew.elemCopyA ps a b al).elems (if (ew.elemCopyA ps a b al).w.threw then A else (EOp.copyA a b al).aspec ps ew A) := by
  obtain ⟨⟨va, hA⟩, _⟩ := hpre
  obtain ⟨ea, hea, hrep⟩ := h.getLive a va hA
  unfold EWorld.elemCopyA EOp.aspec
  simp only [hea]
  cases hm : Ptr.make ew.w.heap (units ea.bytes (storageAl ps)) (storageAl ps) al with
  | mk h1 r =>
    cases r with
    | none => simp only [if_true]; exact h
    | some p =>
      simp only [Bool.false_eq_true, if_false, setE_elems, hA]
      obtain ⟨hb, hu⟩ := make_shape _ _ _ _ _ _ hm
      obtain ⟨r1, r2, r3, r4, _, _⟩ := hrep
      exact h.setRep b { ea with ptr := p } (.live va) ⟨r1, r2, r3, r4, hb, by rw [hu]; exact units_tight_le _ _ hS⟩

theorem elem_move_refines (ps : List Param) (ew : EWorld) (A : Nat → Option AElem) (h : EInv ps ew.elems A)
    (a b : Nat) (hpre : (EOp.move a b).Pre ps ew A) :
    EInv ps (ew.elemMove a b).elems (if (ew.elemMove a b).w.threw then A else (EOp.move a b).aspec ps ew A) := by
  obtain ⟨⟨va, hA⟩, _⟩ := hpre
  obtain ⟨ea, hea, hrep⟩ := h.getLive a va hA
  unfold EWorld.elemMove EOp.aspec
  simp only [hea, Ptr.moveCtor, Bool.false_eq_true, if_false, setE_elems, hA]
  exact (h.setRep b { ea with ptr := ⟨ea.ptr.blk, ea.ptr.units, ea.ptr.alloc⟩ } (.live va) hrep).setRep a
    { ea with ptr := { ea.ptr with blk := none, units := 0 }, val := [] } .moved ⟨rfl, rfl⟩

theorem elem_moveA_refines (ps : List Param) (ew : EWorld) (A : Nat → Option AElem) (h : EInv ps ew.elems A)
    (a b al : Nat) (hpre : (EOp.moveA a b al).Pre ps ew A) :
    EInv ps (ew.elemMoveA ps a b al).elems (if (ew.elemMoveA ps a b al).w.threw then A else (EOp.moveA a b al).aspec ps ew A) := by
  obtain ⟨⟨va, hA⟩, _⟩ := hpre
  obtain ⟨ea, hea, hrep⟩ := h.getLive a va hA
  unfold EWorld.elemMoveA EOp.aspec
  simp only [hea, hA, stealsCtor]
  by_cases hst : ew.w.acfg.eq al ea.ptr.alloc = true
  · simp only [hst, if_true, Ptr.moveCtor, Bool.false_eq_true, if_false, setE_elems]
    exact (h.setRep b { ea with ptr := ⟨ea.ptr.blk, ea.ptr.units, ea.ptr.alloc⟩ } (.live va) hrep).setRep a
      { ea with ptr := { ea.ptr with blk := none, units := 0 }, val := [] } .moved ⟨rfl, rfl⟩
  · simp only [hst, Bool.false_eq_true, if_false]
    cases hm : Ptr.make ew.w.heap ea.ptr.units (storageAl ps) al with
    | mk h1 r =>
      cases r with
      | none => simp only [if_true]; exact h
      | some p =>
        simp only [Bool.false_eq_true, if_false, setE_elems]
        obtain ⟨hb, hu⟩ := make_shape _ _ _ _ _ _ hm
        obtain ⟨r1, r2, r3, r4, r5, r6⟩ := hrep
        obtain ⟨m1, m2⟩ := movedValues_shape ps va r2
        refine (h.setRep b { ea with ptr := p } (.live va) ⟨r1, r2, r3, r4, hb, by rw [hu]; exact r6⟩).setRep a
          { ea with val := movedValues ps ea.val } (.live (movedValues ps va)) ?_
        exact ⟨by rw [r1], m1, by rw [r3]; exact (elemBytes_congr ps _ _ m2).symm, r4, r5, r6⟩

theorem elem_assign_refines (ps : List Param) (ew : EWorld) (A : Nat → Option AElem) (h : EInv ps ew.elems A)
    (a b : Nat) (hpre : (EOp.assign a b).Pre ps ew A) (hprev : ew.w.threw = false) :
    EInv ps (ew.elemAssign ps a b).elems (if (ew.elemAssign ps a b).w.threw then A else (EOp.assign a b).aspec ps ew A) := by
  unfold EWorld.elemAssign EOp.aspec
  by_cases hab : a = b
  · simp only [hab, if_true, Bool.false_eq_true, if_false]; exact h
  · simp only [hab, if_false]
    rcases hpre with hpre | ⟨va, hA, hAb, hfw⟩
    · exact absurd hpre hab
    · obtain ⟨ea, hea, hrep⟩ := h.getLive a va hA
      obtain ⟨eb, y, heb, hAy, hrepb⟩ := h.getSome b hAb
      simp only [hea, heb]
      obtain ⟨r1, r2, r3, r4, r5, r6⟩ := hrep
      by_cases hf : (isFixedOrPlain ps && (!ew.w.acfg.pocca || ew.w.acfg.ae)) = true
      · simp only [hf, if_true, Bool.false_eq_true, if_false, setE_elems, hA]
        obtain ⟨vb, hAb', hcnt⟩ := hfw hf
        rw [hAy] at hAb'
        obtain ⟨rfl⟩ : y = .live vb := by injection hAb'
        obtain ⟨q1, q2, q3, q4, q5, q6⟩ := hrepb
        refine h.setRep b _ (.live va) ⟨?_, r2, ?_, q4, q5, q6⟩
        · show (refAssign ps false ea.val eb.val).2 = va
          rw [r1, q1]; exact refAssign_target ps false va vb r2 q2
        · show eb.bytes = elemBytes ps va
          rw [q3]; exact elemBytes_congr ps _ _ hcnt
      · simp only [hf, Bool.false_eq_true, if_false]
        have hshape := copyAssign_shape eb.ptr ea.ptr ew.w.heap ew.w.acfg (storageAl ps)
        cases hr : eb.ptr.copyAssign ew.w.heap ew.w.acfg (storageAl ps) ea.ptr with
        | mk h1 r2' =>
          cases r2' with
          | mk p1 ok =>
            rw [hr] at hshape
            cases ok with
            | false =>
              simp only [if_true, setE_elems]
              obtain ⟨hb1, hu1⟩ := hshape.2 rfl
              have : EInv ps (eset ew.elems b (some { eb with ptr := p1 })) (eset A b (some y)) := by
                refine h.setRep b { eb with ptr := p1 } y ?_
                cases y with
                | live vb =>
                  obtain ⟨q1, q2, q3, q4, q5, q6⟩ := hrepb
                  exact ⟨q1, q2, q3, q4, by show p1.blk ≠ none; rw [hb1]; exact q5, by show eb.bytes ≤ p1.units * _; rw [hu1]; exact q6⟩
                | moved =>
                  obtain ⟨q1, q2⟩ := hrepb
                  exact ⟨by show p1.blk = none; rw [hb1]; exact q1, by show p1.units = 0; rw [hu1]; exact q2⟩
              have hA' : eset A b (some y) = A := by
                funext i; simp only [eset]; split
                · rename_i hi; rw [hi, hAy]
                · rfl
              rw [hA'] at this
              exact this
            | true =>
              simp only [Bool.false_eq_true, if_false, setE_elems, hA]
              obtain ⟨hb1, hu1⟩ := hshape.1 rfl
              refine h.setRep b { val := ea.val, bytes := ea.bytes, ptr := p1 } (.live va) ⟨r1, r2, r3, r4, hb1, ?_⟩
              show ea.bytes ≤ p1.units * storageAl ps
              exact Nat.le_trans r6 (Nat.mul_le_mul_right _ hu1)

theorem elem_moveAssign_refines (ps : List Param) (ew : EWorld) (A : Nat → Option AElem) (h : EInv ps ew.elems A)
    (a b : Nat) (hpre : (EOp.moveAssign a b).Pre ps ew A) (hprev : ew.w.threw = false) :
    EInv ps (ew.elemMoveAssign ps a b).elems
      (if (ew.elemMoveAssign ps a b).w.threw then A else (EOp.moveAssign a b).aspec ps ew A) := by
  unfold EWorld.elemMoveAssign EOp.aspec
  by_cases hab : a = b
  · simp only [hab, if_true, Bool.false_eq_true, if_false]; exact h
  · simp only [hab, if_false]
    rcases hpre with hpre | ⟨va, hA, hAb, hfw⟩
    · exact absurd hpre hab
    · obtain ⟨ea, hea, hrep⟩ := h.getLive a va hA
      obtain ⟨eb, y, heb, hAy, hrepb⟩ := h.getSome b hAb
      simp only [hea, heb, hA, hAy, stealsAssign] at hfw ⊢
      obtain ⟨r1, r2, r3, r4, r5, r6⟩ := hrep
      by_cases hst : (ew.w.acfg.ae || ew.w.acfg.pocma || ew.w.acfg.eq eb.ptr.alloc ea.ptr.alloc) = true
      · simp only [hst, if_true, Ptr.moveAssign, Bool.false_eq_true, if_false, setE_elems]
        exact (h.setRep b { ea with ptr := ⟨ea.ptr.blk, ea.ptr.units, if ew.w.acfg.pocma then ea.ptr.alloc else eb.ptr.alloc⟩ } (.live va)
            ⟨r1, r2, r3, r4, r5, r6⟩).setRep a { ea with ptr := { ea.ptr with blk := none, units := 0 }, val := [] } .moved ⟨rfl, rfl⟩
      · simp only [hst, Bool.false_eq_true, if_false]
        by_cases hfx : isFixedOrPlain ps = true
        · simp only [hfx, if_true, Bool.false_eq_true, if_false, setE_elems]
          obtain ⟨vb, hAb', hcnt⟩ := hfw (by simpa using hst) hfx
          obtain ⟨rfl⟩ : y = .live vb := by injection hAb'
          obtain ⟨q1, q2, q3, q4, q5, q6⟩ := hrepb
          obtain ⟨s1, s2⟩ := refAssign_move_source_shape ps va vb r2 q2
          refine (h.setRep b { eb with val := (refAssign ps true ea.val eb.val).2 } (.live va) ⟨?_, r2, ?_, q4, q5, q6⟩).setRep a
            { ea with val := (refAssign ps true ea.val eb.val).1 } (.live (refAssign ps true va vb).1) ⟨?_, s1, ?_, r4, r5, r6⟩
          · show (refAssign ps true ea.val eb.val).2 = va
            rw [r1, q1]; exact refAssign_target ps true va vb r2 q2
          · show eb.bytes = elemBytes ps va
            rw [q3]; exact elemBytes_congr ps _ _ hcnt
          · show (refAssign ps true ea.val eb.val).1 = _
            rw [r1, q1]
          · show ea.bytes = _
            rw [r3]; exact (elemBytes_congr ps _ _ s2).symm
        · simp only [hfx, Bool.false_eq_true, if_false]
          obtain ⟨m1, m2⟩ := movedValues_shape ps va r2
          have hsrc : ERep ps { ea with val := movedValues ps ea.val } (.live (movedValues ps va)) :=
            ⟨by show movedValues ps ea.val = _; rw [r1], m1, by show ea.bytes = _; rw [r3]; exact (elemBytes_congr ps _ _ m2).symm, r4, r5, r6⟩
          by_cases hbig : ea.bytes > eb.ptr.units * storageAl ps
          · simp only [hbig, if_true]
            cases hm : Ptr.make ew.w.heap ea.ptr.units (storageAl ps) eb.ptr.alloc with
            | mk h1 r =>
              cases r with
              | none => simp only [if_true]; exact h
              | some np =>
                simp only [Ptr.moveAssign, Bool.false_eq_true, if_false, setE_elems]
                obtain ⟨hb, hu⟩ := make_shape _ _ _ _ _ _ hm
                exact (h.setRep b { val := ea.val, bytes := ea.bytes, ptr := ⟨np.blk, np.units, if ew.w.acfg.pocma then np.alloc else eb.ptr.alloc⟩ } (.live va)
                  ⟨r1, r2, r3, r4, hb, by show ea.bytes ≤ np.units * _; rw [hu]; exact r6⟩).setRep a _ _ hsrc
          · simp only [hbig, if_false, Bool.false_eq_true, setE_elems]
            have hle : ea.bytes ≤ eb.ptr.units * storageAl ps := by omega
            have hbn : eb.ptr.blk ≠ none := by
              cases y with
              | live vb => exact hrepb.2.2.2.2.1
              | moved =>
                obtain ⟨_, q2⟩ := hrepb
                rw [q2] at hle
                omega
            exact (h.setRep b { eb with val := ea.val, bytes := ea.bytes } (.live va) ⟨r1, r2, r3, r4, hbn, hle⟩).setRep a _ _ hsrc

theorem elem_swap_refines (ps : List Param) (ew : EWorld) (A : Nat → Option AElem) (h : EInv ps ew.elems A)
    (a b : Nat) (hpre : (EOp.swap a b).Pre ps ew A) (hprev : ew.w.threw = false) :
    EInv ps (ew.elemSwap a b).elems (if (ew.elemSwap a b).w.threw then A else (EOp.swap a b).aspec ps ew A) := by
  unfold EWorld.elemSwap EOp.aspec
  by_cases hab : a = b
  · simp only [hab, if_true, Bool.false_eq_true, if_false]; exact h
  · simp only [hab, if_false]
    rcases hpre with hpre | ⟨hAa, hAb⟩
    · exact absurd hpre hab
    · obtain ⟨ea, x, hea, hAx, hrepa⟩ := h.getSome a hAa
      obtain ⟨eb, y, heb, hAy, hrepb⟩ := h.getSome b hAb
      simp only [hea, heb, hAx, hAy, Bool.false_eq_true, if_false, setE_elems]
      have hpa : (Ptr.swap ew.w.acfg ea.ptr eb.ptr).1.blk = eb.ptr.blk ∧ (Ptr.swap ew.w.acfg ea.ptr eb.ptr).1.units = eb.ptr.units := by
        unfold Ptr.swap; split <;> exact ⟨rfl, rfl⟩
      have hpb : (Ptr.swap ew.w.acfg ea.ptr eb.ptr).2.blk = ea.ptr.blk ∧ (Ptr.swap ew.w.acfg ea.ptr eb.ptr).2.units = ea.ptr.units := by
        unfold Ptr.swap; split <;> exact ⟨rfl, rfl⟩
      have ha' : ERep ps { eb with ptr := (Ptr.swap ew.w.acfg ea.ptr eb.ptr).1 } y := by
        cases y with
        | live vb => obtain ⟨q1, q2, q3, q4, q5, q6⟩ := hrepb; exact ⟨q1, q2, q3, q4, by show (Ptr.swap _ _ _).1.blk ≠ none; rw [hpa.1]; exact q5, by show eb.bytes ≤ (Ptr.swap _ _ _).1.units * _; rw [hpa.2]; exact q6⟩
        | moved => obtain ⟨q1, q2⟩ := hrepb; exact ⟨by show (Ptr.swap _ _ _).1.blk = none; rw [hpa.1]; exact q1, by show (Ptr.swap _ _ _).1.units = 0; rw [hpa.2]; exact q2⟩
      have hb' : ERep ps { ea with ptr := (Ptr.swap ew.w.acfg ea.ptr eb.ptr).2 } x := by
        cases x with
        | live vb => obtain ⟨q1, q2, q3, q4, q5, q6⟩ := hrepa; exact ⟨q1, q2, q3, q4, by show (Ptr.swap _ _ _).2.blk ≠ none; rw [hpb.1]; exact q5, by show ea.bytes ≤ (Ptr.swap _ _ _).2.units * _; rw [hpb.2]; exact q6⟩
        | moved => obtain ⟨q1, q2⟩ := hrepa; exact ⟨by show (Ptr.swap _ _ _).2.blk = none; rw [hpb.1]; exact q1, by show (Ptr.swap _ _ _).2.units = 0; rw [hpb.2]; exact q2⟩
      exact (h.setRep a _ y ha').setRep b _ x hb'

theorem elem_destroy_refines (ps : List Param) (ew : EWorld) (A : Nat → Option AElem) (h : EInv ps ew.elems A) (k : Nat)
    (hprev : ew.w.threw = false) :
    EInv ps (ew.elemDestroy ps k).elems (if (ew.elemDestroy ps k).w.threw then A else (EOp.destroy k).aspec ps ew A) := by
  unfold EWorld.elemDestroy EOp.aspec
  cases hk : ew.elems k with
  | none =>
    simp only [hprev, Bool.false_eq_true, if_false]
    have hA : A k = none := by
      have := h k; rw [hk] at this
      cases hAk : A k with
      | none => rfl
      | some a => rw [hAk] at this; exact absurd this (by simp [ERel])
    have : eset A k none = A := by
      funext i; simp only [eset]; split
      · rename_i hi; rw [hi, hA]
      · rfl
    rw [this]; exact h
  | some e =>
    simp only [Bool.false_eq_true, if_false, setE_elems]
    exact h.set k _ _ trivial

/-- **one step**: whatever element operation is applied, and whether or not its allocation throws, the elements
    afterwards represent what the same operation yields on the abstract map — and a throwing operation has changed
    nothing -/
theorem EInv.step (ps : List Param) (hS : 0 < storageAl ps) (ew : EWorld) (A : Nat → Option AElem) (h : EInv ps ew.elems A)
    (op : EOp) (hpre : op.Pre ps ew A) (hprev : ew.w.threw = false) :
    EInv ps (op.apply ps ew).elems (if (op.apply ps ew).w.threw then A else op.aspec ps ew A) := by
  cases op with
  | fromRef k s i al mv => exact elem_fromRef_refines ps hS ew A h k s i al mv hpre hprev
  | copy a b => exact elem_copy_refines ps ew A h a b hpre
  | copyA a b al => exact elem_copyA_refines ps hS ew A h a b al hpre
  | move a b => exact elem_move_refines ps ew A h a b hpre
  | moveA a b al => exact elem_moveA_refines ps ew A h a b al hpre
  | assign a b => exact elem_assign_refines ps ew A h a b hpre hprev
  | moveAssign a b => exact elem_moveAssign_refines ps ew A h a b hpre hprev
  | swap a b => exact elem_swap_refines ps ew A h a b hpre hprev
  | destroy k => exact elem_destroy_refines ps ew A h k hprev

/-! ### histories -/

/-- the world after a history; the caller catches `bad_alloc` and goes on -/
def erun (ps : List Param) : EWorld → List EOp → EWorld
  | ew, [] => ew
  | ew, op :: ops => erun ps { (op.apply ps ew) with w := { (op.apply ps ew).w with threw := false } } ops

/-- the abstract map after the same history: a failed operation changes nothing -/
def earun (ps : List Param) : EWorld → (Nat → Option AElem) → List EOp → (Nat → Option AElem)
  | _, A, [] => A
  | ew, A, op :: ops =>
    earun ps { (op.apply ps ew) with w := { (op.apply ps ew).w with threw := false } }
      (if (op.apply ps ew).w.threw then A else op.aspec ps ew A) ops

def EValid (ps : List Param) : EWorld → (Nat → Option AElem) → List EOp → Prop
  | _, _, [] => True
  | ew, A, op :: ops => op.Pre ps ew A ∧
      EValid ps { (op.apply ps ew) with w := { (op.apply ps ew).w with threw := false } }
        (if (op.apply ps ew).w.threw then A else op.aspec ps ew A) ops

/-- **every history of element operations, allocation failures included** -/
theorem EInv.history (ps : List Param) (hS : 0 < storageAl ps) (ops : List EOp) :
    ∀ (ew : EWorld) (A : Nat → Option AElem), ew.w.threw = false → EInv ps ew.elems A → EValid ps ew A ops →
      EInv ps (erun ps ew ops).elems (earun ps ew A ops) := by
  induction ops with
  | nil => intro ew A _ h _; exact h
  | cons op ops ih =>
    intro ew A h0 h hv
    simp only [erun, earun]
    exact ih _ _ rfl (EInv.step ps hS ew A h op hv.1 h0) hv.2

/-- what the invariant says about an observation: a live element shows exactly the abstract value, in a block of its own
    that is large enough for it; a moved-from element holds no block -/
theorem EInv.observe (ps : List Param) (elems : Nat → Option ElemSt) (A : Nat → Option AElem) (h : EInv ps elems A) (k : Nat) :
    (∀ v, A k = some (.live v) → ∃ es, elems k = some es ∧ es.val = v ∧ es.bytes = elemBytes ps v ∧ es.ptr.blk ≠ none ∧
      elemBytes ps v ≤ es.ptr.units * storageAl ps) ∧
    (A k = some .moved → ∃ es, elems k = some es ∧ es.ptr.blk = none) ∧
    (A k = none → elems k = none) := by
  refine ⟨?_, ?_, h.getNone k⟩
  · intro v hA
    obtain ⟨es, he, r1, _, r3, _, r5, r6⟩ := h.getLive k v hA
    exact ⟨es, he, r1, r3, r5, by rw [← r3]; exact r6⟩
  · intro hA
    obtain ⟨es, a, he, hAa, hr⟩ := h.getSome k (by rw [hA]; simp)
    rw [hA] at hAa
    obtain ⟨rfl⟩ : AElem.moved = a := by injection hAa
    exact ⟨es, he, hr.1⟩

end Cntgs
