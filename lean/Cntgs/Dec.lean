/- decidability of the well-formedness predicates, for the non-vacuity examples next to the property theorems -/
import Cntgs.LayoutProofs
namespace Cntgs

instance decCountsOK : (ps : List Param) → (cs : List Nat) → Decidable (CountsOK ps cs)
  | [], [] => isTrue trivial
  | p :: ps, c :: cs =>
    match decCountsOK ps cs with
    | isTrue h => if hc : p.kind = .plain → c = 1 then isTrue ⟨hc, h⟩ else isFalse (fun hh => hc hh.1)
    | isFalse h => isFalse (fun hh => h hh.2)
  | [], _ :: _ => isFalse (fun h => h)
  | _ :: _, [] => isFalse (fun h => h)

end Cntgs
