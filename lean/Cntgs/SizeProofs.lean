/-
The size formulas (`calculate_element_size`, `calculate_needed_memory_size`, `allocate_memory`) for lists
without a VaryingSize parameter are exact: size = extent of the greedy placement, stride = size rounded up to
the storage alignment (C05 `fixed_exact`, and what the stride locator relies on).
-/
import Cntgs.LayoutProofs
namespace Cntgs

def NoVarying (ps : List Param) : Prop := ∀ p ∈ ps, p.kind ≠ .varying

/-- counts of an element of a list without VaryingSize: 1 for plain, the fixed size for FixedSize -/
def fixedCounts : List Param → List Nat → List Nat
  | p :: ps, f :: fs => (if p.kind = .fixed then f else 1) :: fixedCounts ps fs
  | _, _ => []

theorem fixedCounts_ok : ∀ (ps : List Param) (fs : List Nat), ps.length ≤ fs.length → NoVarying ps → CountsOK ps (fixedCounts ps fs) := by
  intro ps
  induction ps with
  | nil => intro fs _ _; cases fs <;> simp [fixedCounts, CountsOK]
  | cons p ps ih =>
    intro fs hl hnv
    cases fs with
    | nil => simp at hl
    | cons f fs =>
      simp only [fixedCounts, CountsOK]
      refine ⟨?_, ih fs (by simpa using hl) (fun q hq => hnv q (by simp [hq]))⟩
      intro hk; simp [hk]

/-- one step of `calculate_element_size` for a plain / FixedSize parameter inside a bracket that is at least
    as large as the parameter's alignment: exactly the greedy step -/
theorem sizeStep_exact (p : Param) (prev next offset a f : Nat) (hk : p.kind ≠ .varying) (ha : ¬ a < p.al)
    (hal : IsPow2 p.al) (hprev : IsPow2 prev) (hd : prev ∣ offset) :
    let c := if p.kind = .fixed then f else 1
    (sizeStep p prev next offset a f).offset = alignUp offset p.al + p.vb * c ∧
    (sizeStep p prev next offset a f).size = alignUp offset p.al - offset + p.vb * c ∧
    (sizeStep p prev next offset a f).alignment = max a p.al := by
  intro c
  have hs := alignIf_eq hprev hal hd
  have hge := alignUp_ge offset p.al hal.pos
  unfold sizeStep
  cases hkind : p.kind with
  | varying => exact absurd hkind hk
  | plain =>
    simp only [ha, if_false, hs, c, hkind]
    simp; omega
  | fixed =>
    simp only [ha, if_false, hs, c, hkind]
    simp; omega

/-- the fold of `calculate_element_size` over a list without VaryingSize, started in a state that the
    trailing-alignment claims describe truthfully, follows the greedy placement exactly. The bracket `A` of the
    size computation (the storage alignment) is independent of the bracket `(o, a)` of the trailing claims. -/
theorem szGo_exact :
    ∀ (ps : List Param) (fs ns : List Nat) (prev o a A : Nat) (st : SzSt),
      (∀ p ∈ ps, WfParam p) → NoVarying ps → ps.length ≤ fs.length → ps.length ≤ ns.length →
      (∀ p ∈ ps, p.al ≤ A) → IsPow2 a → IsPow2 prev → prev ≤ a → prev ∣ st.offset → (∃ m, st.offset = m * a + o) →
      st.alignment = A →
      (szGo ps fs (trailingGo ps o a) ns prev st).offset = goEnd ps (fixedCounts ps fs) st.offset ∧
      (szGo ps fs (trailingGo ps o a) ns prev st).size + st.offset = st.size + goEnd ps (fixedCounts ps fs) st.offset ∧
      (szGo ps fs (trailingGo ps o a) ns prev st).alignment = A ∧
      (∀ lp, ps.getLast? = some lp → ∀ nl, (ns.take ps.length).getLast? = some nl → ∃ x c,
        (szGo ps fs (trailingGo ps o a) ns prev st).offset = alignUp x lp.al + lp.vb * c ∧
        (szGo ps fs (trailingGo ps o a) ns prev st).padding =
          trailingPadding (decide (trailAl lp.vb lp.al < nl)) nl (szGo ps fs (trailingGo ps o a) ns prev st).offset A) := by
  intro ps
  induction ps with
  | nil => intro fs ns prev o a A st _ _ _ _ _ _ _ _ _ _ hsa; simp [szGo, goEnd, fixedCounts, hsa]
  | cons p ps ih =>
    intro fs ns prev o a A st hwf hnv hlf hln hale ha hprev hle hd hk hsa
    cases fs with
    | nil => simp at hlf
    | cons f fs =>
      cases ns with
      | nil => simp at hln
      | cons n ns =>
        have hwp : WfParam p := hwf p (by simp)
        have hpk : p.kind ≠ .varying := hnv p (by simp)
        have hpa : ¬ A < p.al := by have := hale p (by simp); omega
        have hmax : max A p.al = A := Nat.max_eq_left (by have := hale p (by simp); omega)
        have hok := step_ok p (if p.kind = .fixed then f else 1) prev st.offset o a hwp.1 hwp.2
          (by intro h; simp [h]) ha hprev hle hd hk
        obtain ⟨e1, e2, e3⟩ := sizeStep_exact p prev n st.offset A f hpk hpa hwp.1 hprev hd
        have hge := alignUp_ge st.offset p.al hwp.1.pos
        have hrec := ih fs ns (trailingStep p o a).2.2 (trailingStep p o a).1 (trailingStep p o a).2.1 A
            { offset := alignUp st.offset p.al + p.vb * (if p.kind = .fixed then f else 1), alignment := max A p.al,
              size := st.size + (alignUp st.offset p.al - st.offset + p.vb * (if p.kind = .fixed then f else 1)),
              padding := (sizeStep p prev n st.offset A f).padding }
            (fun q hq => hwf q (by simp [hq])) (fun q hq => hnv q (by simp [hq])) (by simpa using hlf) (by simpa using hln)
            (fun q hq => hale q (by simp [hq])) hok.pow_a' hok.pow_t hok.t_le hok.t_dvd hok.known hmax
        simp only [trailingGo, szGo, fixedCounts, goEnd, hsa, e1, e2, e3]
        refine ⟨hrec.1, ?_, hrec.2.2.1, ?_⟩
        · have h2 := hrec.2.1
          simp only at h2
          omega
        · intro lp hlp nl hnl
          cases hps : ps with
          | nil =>
            -- p is the last parameter: read the padding off sizeStep
            subst hps
            simp only [List.getLast?_singleton, Option.some.injEq] at hlp
            subst hlp
            simp only [List.length_singleton, List.take_succ_cons, List.take_zero, List.getLast?_singleton, Option.some.injEq] at hnl
            subst hnl
            refine ⟨st.offset, (if p.kind = .fixed then f else 1), by simp [szGo], ?_⟩
            simp only [szGo, trailingGo]
            -- the padding component of sizeStep in the non-varying, bracket-large-enough case
            have hs := alignIf_eq hprev hwp.1 hd
            unfold sizeStep
            cases hkind : p.kind with
            | varying => exact absurd hkind hpk
            | plain => simp [hpa, hs, hkind, hmax]; congr 1; omega
            | fixed => simp [hpa, hs, hkind, hmax]; congr 1; omega
          | cons q qs =>
            have hlp' : ps.getLast? = some lp := by rw [hps] at hlp ⊢; simpa [List.getLast?_cons_cons] using hlp
            have hnl' : (ns.take ps.length).getLast? = some nl := by
              rw [hps] at hnl ⊢
              cases ns with
              | nil => simp at hln; rw [hps] at hln; simp at hln
              | cons n2 ns2 => simpa [List.take_succ_cons, List.getLast?_cons_cons] using hnl
            rw [← hps]
            exact hrec.2.2.2 lp hlp' nl hnl'



theorem largestGo_length : ∀ (ps : List Param) (cnt cur : Nat), (largestGo ps cnt cur).length = cnt + ps.length := by
  intro ps
  induction ps with
  | nil => intro cnt cur; simp [largestGo]
  | cons p ps ih =>
    intro cnt cur
    simp only [largestGo]
    split
    · simp [ih]; omega
    · rw [ih]; simp; omega

theorem nextAls_length (ps : List Param) (hne : ps ≠ []) : (nextAls ps).length = ps.length := by
  unfold nextAls largest
  simp [largestGo_length]
  cases ps with
  | nil => exact absurd rfl hne
  | cons p ps => simp


/-- For a list without `VaryingSize`, `calculate_element_size` is exact: the size is the end of the greedy layout of one
element at offset 0, and the stride is that size rounded up to the storage alignment. -/
theorem elemSize_fixed (ps : List Param) (fs : List Nat) (hwf : ∀ p ∈ ps, WfParam p) (hne : ps ≠ [])
    (hnv : NoVarying ps) (hlf : ps.length ≤ fs.length) :
    (elemSize ps fs).size = goEnd ps (fixedCounts ps fs) 0 ∧
    (elemSize ps fs).stride = alignUp (goEnd ps (fixedCounts ps fs) 0) (storageAl ps) := by
  have hS := storageAl_pow2 ps hwf hne
  have hSpos := hS.pos
  have hnl : (nextAls ps).length = ps.length := nextAls_length ps hne
  have h := szGo_exact ps fs (nextAls ps) (storageAl ps) 0 (storageAl ps) (storageAl ps)
    { offset := 0, alignment := storageAl ps, size := 0, padding := 0 } hwf hnv hlf (by omega)
    (fun p hp => al_le_storageAl ps hwf p hp) hS hS (Nat.le_refl _) (Nat.dvd_zero _) ⟨0, by simp⟩ rfl
  obtain ⟨hoff, hsize, _, hlast⟩ := h
  simp only [Nat.add_zero, Nat.zero_add] at hsize
  unfold elemSize
  simp only
  have htr : trailings ps = trailingGo ps 0 (storageAl ps) := rfl
  rw [htr]
  refine ⟨hsize, ?_⟩
  rw [hsize]
  -- last parameter
  obtain ⟨lp, hlp⟩ : ∃ lp, ps.getLast? = some lp := by
    cases hg : ps.getLast? with
    | none => simp [List.getLast?_eq_none_iff] at hg; exact absurd hg hne
    | some lp => exact ⟨lp, rfl⟩
  have hlpmem : lp ∈ ps := List.mem_of_getLast? hlp
  have hnlast : ((nextAls ps).take ps.length).getLast? = some (storageAl ps) := by
    rw [← hnl, List.take_length]
    simp [nextAls]
  obtain ⟨x, c, hx, hpad⟩ := hlast lp hlp _ hnlast
  rw [hpad, hoff]
  rw [hoff] at hx
  generalize goEnd ps (fixedCounts ps fs) 0 = off at hx ⊢
  unfold trailingPadding
  simp only [Nat.lt_irrefl, if_false]
  have hge := alignUp_ge off (storageAl ps) hSpos
  by_cases hneeds : trailAl lp.vb lp.al < storageAl ps
  · simp only [hneeds, decide_true, alignIf, Bool.true_and]
    by_cases h1 : storageAl ps > 1
    · simp only [h1, decide_true, if_true]; omega
    · have : storageAl ps = 1 := by omega
      simp only [h1, decide_false]
      rw [this, alignUp_one]; simp
  · simp only [hneeds, decide_false, alignIf, Bool.false_and]
    -- trailing alignment of the last object already reaches the storage alignment
    have hw := hwf lp hlpmem
    unfold trailAl at hneeds
    have h1 : storageAl ps ≤ lp.al := by omega
    have h2 : storageAl ps ≤ lowBit lp.vb := by omega
    have hvbpos : 0 < lp.vb := by
      rcases Nat.eq_zero_or_pos lp.vb with h0 | h0
      · rw [h0, lowBit_zero] at h2; omega
      · exact h0
    have hlb := lowBit_spec lp.vb hvbpos
    have hd1 : storageAl ps ∣ alignUp x lp.al := Nat.dvd_trans (hS.dvd_of_le hw.1 h1) (alignUp_dvd _ _)
    have hd2 : storageAl ps ∣ lp.vb * c := Nat.dvd_trans (Nat.dvd_trans (hS.dvd_of_le hlb.1 h2) hlb.2) (Nat.dvd_mul_right _ _)
    have hd : storageAl ps ∣ off := by rw [hx]; exact (Nat.dvd_add_right hd1).mpr hd2
    rw [alignUp_of_dvd off _ hSpos hd]; simp

end Cntgs
