/-
The run tables (`calculate_consecutive_indices`) cover every parameter exactly the way the byte-range
operations need: non-matching parameters are MANUAL, matching ones lie in a run that consists of
matching parameters only.
-/
import Cntgs.Layout
namespace Cntgs

/-- predicate value at an index of the list -/
def predAt (pred : Param → Bool) (all : List Param) (m : Nat) : Bool :=
  match all[m]? with
  | some q => pred q
  | none => false

structure RunsInv (pred : Param → Bool) (all : List Param) (i index : Nat) (tbl : Nat → RunEntry) : Prop where
  i0 : index ≤ i
  i1 : ∀ m, index ≤ m → m < i → predAt pred all m = true
  i2 : index < i → tbl index = .upto (i - 1)
  i3 : ∀ j, j < i → predAt pred all j = false → tbl j = .manual
  i4 : ∀ k last, tbl k = .upto last → k ≤ last ∧ last < i ∧ ∀ m, k ≤ m → m ≤ last → predAt pred all m = true
  i5 : ∀ j, j < i → predAt pred all j = true → ∃ k last, tbl k = .upto last ∧ k ≤ j ∧ j ≤ last
  i6 : ∀ j, tbl j = .manual → j < i ∧ predAt pred all j = false
  i7 : ∀ j, i ≤ j → tbl j = .skip
  i8 : ∀ k last, tbl k = .upto last → k = index ∨ last < index
  i9 : ∀ k1 l1 k2 l2, tbl k1 = .upto l1 → tbl k2 = .upto l2 → k1 < k2 → l1 < k2

theorem runsGo_inv (pred : Param → Bool) (brk : Bool) (all : List Param) :
    ∀ (rest pre : List Param) (i index : Nat) (tbl : Nat → RunEntry),
      all = pre ++ rest → pre.length = i → RunsInv pred all i index tbl →
      ∃ index', RunsInv pred all all.length index' (runsGo pred brk rest i index tbl) := by
  intro rest
  induction rest with
  | nil =>
    intro pre i index tbl hall hlen hinv
    have : all.length = i := by rw [hall]; simp [hlen]
    exact ⟨index, by simpa [runsGo, this] using hinv⟩
  | cons p rest ih =>
    intro pre i index tbl hall hlen hinv
    have hget : all[i]? = some p := by
      rw [hall, List.getElem?_append_right (by omega)]; simp [hlen]
    have hpi : predAt pred all i = pred p := by simp [predAt, hget]
    have hall' : all = (pre ++ [p]) ++ rest := by rw [hall]; simp
    have hlen' : (pre ++ [p]).length = i + 1 := by simp [hlen]
    simp only [runsGo]
    by_cases hp : pred p = true
    · simp only [hp, if_true]
      -- the run either continues or (BreakAtPadding) restarts at i
      have key : ∀ index', (index' = i ∨ (index' = index)) →
          RunsInv pred all (i + 1) index' (fun k => if k = index' then .upto i else tbl k) := by
        intro index' hidx
        have hle : index' ≤ i := by rcases hidx with h | h <;> (subst h; first | exact Nat.le_refl _ | exact hinv.i0)
        have hrun : ∀ m, index' ≤ m → m < i + 1 → predAt pred all m = true := by
          intro m h1 h2
          by_cases hm : m = i
          · subst hm; rw [hpi]; exact hp
          · rcases hidx with h | h
            · subst h; omega
            · subst h; exact hinv.i1 m h1 (by omega)
        -- an old `upto` entry never sits at index'
        have hold : ∀ k last, tbl k = .upto last → k ≤ last ∧ last < i := fun k last h => ⟨(hinv.i4 k last h).1, (hinv.i4 k last h).2.1⟩
        refine ⟨by omega, hrun, fun _ => by simp, ?_, ?_, ?_, ?_, ?_, ?_, ?_⟩
        · intro j hj hpj
          have hji : j ≠ i := by intro h; subst h; rw [hpi, hp] at hpj; exact absurd hpj (by simp)
          have hjx : j ≠ index' := by
            intro h; subst h
            have := hrun j (Nat.le_refl _) (by omega); rw [this] at hpj; exact absurd hpj (by simp)
          simp only [hjx, if_false]
          exact hinv.i3 j (by omega) hpj
        · intro k last hk
          by_cases hkx : k = index'
          · subst hkx
            simp only [if_true, RunEntry.upto.injEq] at hk
            subst hk
            exact ⟨hle, by omega, fun m h1 h2 => hrun m h1 (by omega)⟩
          · simp only [hkx, if_false] at hk
            obtain ⟨h1, h2, h3⟩ := hinv.i4 k last hk
            exact ⟨h1, by omega, h3⟩
        · intro j hj hpj
          by_cases hjx : index' ≤ j
          · exact ⟨index', i, by simp, hjx, by omega⟩
          · have hji : j < i := by omega
            obtain ⟨k, last, hk, hkj, hjl⟩ := hinv.i5 j hji hpj
            have hkx : k ≠ index' := by
              intro h; subst h
              rcases hidx with h | h
              · have := hold k last hk; omega
              · subst h
                by_cases hlt : k < i
                · have := hinv.i2 hlt; rw [this] at hk; injection hk with hk; omega
                · have := hinv.i7 k (by omega); rw [this] at hk; exact absurd hk (by simp)
            exact ⟨k, last, by simp [hkx, hk], hkj, hjl⟩
        · intro j hj
          by_cases hjx : j = index'
          · subst hjx; simp at hj
          · simp only [hjx, if_false] at hj
            obtain ⟨h1, h2⟩ := hinv.i6 j hj
            exact ⟨by omega, h2⟩
        · intro j hj
          have hjx : j ≠ index' := by omega
          simp only [hjx, if_false]
          exact hinv.i7 j (by omega)
        · intro k last hk
          by_cases hkx : k = index'
          · exact Or.inl hkx
          · simp only [hkx, if_false] at hk
            right
            rcases hidx with h | h
            · subst h; exact (hold k last hk).2
            · subst h
              rcases hinv.i8 k last hk with h8 | h8
              · exact absurd h8 hkx
              · exact h8
        · intro k1 l1 k2 l2 h1 h2 hlt
          by_cases hk1 : k1 = index'
          · subst hk1
            have hk2 : k2 ≠ k1 := by omega
            simp only [hk2, if_false] at h2
            exfalso
            have h4 := hold k2 l2 h2
            rcases hidx with h | h
            · omega
            · subst h
              rcases hinv.i8 k2 l2 h2 with h8 | h8 <;> omega
          · simp only [hk1, if_false] at h1
            by_cases hk2 : k2 = index'
            · subst hk2
              rcases hidx with h | h
              · have := hold k1 l1 h1; omega
              · subst h
                rcases hinv.i8 k1 l1 h1 with h8 | h8
                · omega
                · exact h8
            · simp only [hk2, if_false] at h2
              exact hinv.i9 k1 l1 k2 l2 h1 h2 hlt
      by_cases hb : (brk && decide (p.al > 1)) = true
      · simp only [hb, if_true]
        exact ih (pre ++ [p]) (i + 1) i _ hall' hlen' (key i (Or.inl rfl))
      · simp only [hb, if_false]
        exact ih (pre ++ [p]) (i + 1) index _ hall' hlen' (key index (Or.inr rfl))
    · have hpf : pred p = false := by simpa using hp
      simp only [hpf, Bool.false_eq_true, if_false]
      apply ih (pre ++ [p]) (i + 1) (i + 1) _ hall' hlen'
      refine ⟨Nat.le_refl _, fun m h1 h2 => by omega, fun h => by omega, ?_, ?_, ?_, ?_, ?_, ?_, ?_⟩
      · intro j hj hpj
        by_cases hji : j = i
        · simp [hji]
        · simp only [hji, if_false]; exact hinv.i3 j (by omega) hpj
      · intro k last hk
        by_cases hki : k = i
        · subst hki; simp at hk
        · simp only [hki, if_false] at hk
          obtain ⟨h1, h2, h3⟩ := hinv.i4 k last hk
          exact ⟨h1, by omega, h3⟩
      · intro j hj hpj
        have hji : j ≠ i := by intro h; subst h; rw [hpi, hpf] at hpj; exact absurd hpj (by simp)
        obtain ⟨k, last, hk, hkj, hjl⟩ := hinv.i5 j (by omega) hpj
        have hki : k ≠ i := by have := hinv.i4 k last hk; omega
        exact ⟨k, last, by simp [hki, hk], hkj, hjl⟩
      · intro j hj
        by_cases hji : j = i
        · subst hji; exact ⟨by omega, by rw [hpi]; exact hpf⟩
        · simp only [hji, if_false] at hj
          obtain ⟨h1, h2⟩ := hinv.i6 j hj
          exact ⟨by omega, h2⟩
      · intro j hj
        have hji : j ≠ i := by omega
        simp only [hji, if_false]
        exact hinv.i7 j (by omega)
      · intro k last hk
        by_cases hki : k = i
        · subst hki; simp at hk
        · simp only [hki, if_false] at hk
          right; have := hinv.i4 k last hk; omega
      · intro k1 l1 k2 l2 h1 h2 hlt
        by_cases hk1 : k1 = i
        · subst hk1; simp at h1
        · by_cases hk2 : k2 = i
          · subst hk2; simp at h2
          · simp only [hk1, hk2, if_false] at h1 h2
            exact hinv.i9 k1 l1 k2 l2 h1 h2 hlt

/-- what every run table satisfies -/
structure RunsOK (pred : Param → Bool) (ps : List Param) (T : Nat → RunEntry) : Prop where
  manual_of_not : ∀ j, j < ps.length → predAt pred ps j = false → T j = .manual
  run_wf : ∀ k last, T k = .upto last → k ≤ last ∧ last < ps.length ∧ ∀ m, k ≤ m → m ≤ last → predAt pred ps m = true
  covered : ∀ j, j < ps.length → predAt pred ps j = true → ∃ k last, T k = .upto last ∧ k ≤ j ∧ j ≤ last
  manual_only_not : ∀ j, T j = .manual → j < ps.length ∧ predAt pred ps j = false
  disjoint : ∀ k1 l1 k2 l2, T k1 = .upto l1 → T k2 = .upto l2 → k1 < k2 → l1 < k2

theorem runs_ok (pred : Param → Bool) (brk : Bool) (ps : List Param) :
    RunsOK pred ps (runsGo pred brk ps 0 0 (fun _ => .skip)) := by
  obtain ⟨_, h⟩ := runsGo_inv pred brk ps ps [] 0 0 (fun _ => .skip) (by simp) rfl
    ⟨Nat.le_refl _, fun m _ h => by omega, fun h => by omega, fun j h => by omega,
     fun k last h => by simp at h, fun j h => by omega, fun j h => by simp at h, fun _ _ => rfl,
     fun k last h => by simp at h, fun k1 l1 k2 l2 h => by simp at h⟩
  exact ⟨h.i3, h.i4, h.i5, h.i6, h.i9⟩

/-- the table as the list the code stores -/
theorem runs_getD (pred : Param → Bool) (brk : Bool) (ps : List Param) (k : Nat) (hk : k < ps.length) :
    (runs pred brk ps).getD k .skip = runsGo pred brk ps 0 0 (fun _ => .skip) k := by
  unfold runs
  simp [List.getD_eq_getElem?_getD, List.getElem?_map, List.getElem?_range hk]

end Cntgs
