#!/bin/sh
# Build the Lean library and the model driver from files on disk only (offline).
set -e
cd "$(dirname "$0")/lean"
lake build
