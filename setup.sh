#!/bin/sh
# Build the Lean library and the model driver from files on disk only (offline).
set -e
cd "$(dirname "$0")/lean"
lake build
# best effort: pre-compile the quick tier's harness binaries (content-hash cache; the checks rebuild whatever is missing or stale)
cd .. && (python3 tools/warm.py || true)
