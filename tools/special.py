"""Property-specific checks that are not plain operation streams, and the sequence validity simulator."""
import gen

SPECIAL = {}


def run_special(prop, tier, seed, replay):
    return SPECIAL[prop](tier, seed, replay)


def valid_sequence(cfg, lines):
    """do the operations stay within the documented preconditions? (sizes, capacities, payload budgets, indices)"""
    vec = {}
    sizes = [gen.ty_size(p[1]) for p in cfg.params]

    def payload(text):
        vals = text.split(";")
        return sum(sizes[i] * (0 if vals[i] == "-" else len(vals[i].split(","))) for i, p in enumerate(cfg.params) if p[0] == "v")

    for l in lines:
        t = l.split()
        op = t[0]
        try:
            if op in ("tables", "end", "failat"):
                continue
            if op == "new":
                vec[t[1]] = {"cap": int(t[2]), "budget": int(t[3]), "elems": [], "moved": False}
                continue
            v = vec.get(t[1])
            if v is None:
                return False
            if op == "emplace":
                if v["moved"] or len(v["elems"]) >= v["cap"] or sum(v["elems"]) + payload(t[2]) > v["budget"]:
                    return False
                v["elems"].append(payload(t[2]))
            elif op == "pop":
                if not v["elems"]:
                    return False
                v["elems"].pop()
            elif op == "erase":
                if int(t[2]) >= len(v["elems"]):
                    return False
                del v["elems"][int(t[2])]
            elif op == "eraser":
                i, j = int(t[2]), int(t[3])
                if not (i <= j <= len(v["elems"])):
                    return False
                del v["elems"][i:j]
            elif op == "clear":
                v["elems"] = []
            elif op == "reserve":
                n, b = int(t[2]), int(t[3])
                if n > v["cap"]:
                    if b < sum(v["elems"]) or v["moved"]:
                        return False
                    v["cap"], v["budget"] = n, b
            elif op in ("copy", "move"):
                if v["moved"] or t[2] in vec:
                    return False
                vec[t[2]] = {"cap": v["cap"], "budget": v["budget"], "elems": list(v["elems"]), "moved": False}
                if op == "move":
                    v["elems"], v["moved"] = [], True
            elif op in ("copyassign", "moveassign"):
                d = vec.get(t[2])
                if d is None or v["moved"]:
                    return False
                if t[1] != t[2]:
                    d.update({"cap": v["cap"], "budget": v["budget"], "elems": list(v["elems"]), "moved": False})
                    if op == "moveassign":
                        v["elems"], v["moved"] = [], True
            elif op == "swap":
                d = vec.get(t[2])
                if d is None:
                    return False
                vec[t[1]], vec[t[2]] = d, v
            elif op == "destroy":
                del vec[t[1]]
            elif op == "dump":
                pass
            else:
                return False
        except (IndexError, ValueError, KeyError):
            return False
    return True
