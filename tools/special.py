"""Property-specific checks that are not plain operation streams, and the sequence validity simulator."""
import gen

SPECIAL = {}


def run_special(prop, tier, seed, replay):
    return SPECIAL[prop](tier, seed, replay)


def valid_sequence(cfg, lines):
    """do the operations stay within the documented preconditions? (sizes, capacities, payload budgets, indices)"""
    vec = {}
    sizes = [gen.ty_size(p[1]) for p in cfg.params]

    def payload(text):
        vals = text.split(";")
        return sum(sizes[i] * (0 if vals[i] == "-" else len(vals[i].split(","))) for i, p in enumerate(cfg.params) if p[0] == "v")

    for l in lines:
        t = l.split()
        op = t[0]
        try:
            if op in ("tables", "end", "failat"):
                continue
            if op == "new":
                vec[t[1]] = {"cap": int(t[2]), "budget": int(t[3]), "elems": [], "moved": False}
                continue
            v = vec.get(t[1])
            if v is None:
                return False
            if op == "emplace":
                if v["moved"] or len(v["elems"]) >= v["cap"] or sum(v["elems"]) + payload(t[2]) > v["budget"]:
                    return False
                v["elems"].append(payload(t[2]))
            elif op == "pop":
                if not v["elems"]:
                    return False
                v["elems"].pop()
            elif op == "erase":
                if int(t[2]) >= len(v["elems"]):
                    return False
                del v["elems"][int(t[2])]
            elif op == "eraser":
                i, j = int(t[2]), int(t[3])
                if not (i <= j <= len(v["elems"])):
                    return False
                del v["elems"][i:j]
            elif op == "clear":
                v["elems"] = []
            elif op == "reserve":
                n, b = int(t[2]), int(t[3])
                if n > v["cap"]:
                    if b < sum(v["elems"]) or v["moved"]:
                        return False
                    v["cap"], v["budget"] = n, b
            elif op in ("copy", "move"):
                if v["moved"] or t[2] in vec:
                    return False
                vec[t[2]] = {"cap": v["cap"], "budget": v["budget"], "elems": list(v["elems"]), "moved": False}
                if op == "move":
                    v["elems"], v["moved"] = [], True
            elif op in ("copyassign", "moveassign"):
                d = vec.get(t[2])
                if d is None or v["moved"]:
                    return False
                if t[1] != t[2]:
                    d.update({"cap": v["cap"], "budget": v["budget"], "elems": list(v["elems"]), "moved": False})
                    if op == "moveassign":
                        v["elems"], v["moved"] = [], True
            elif op == "swap":
                d = vec.get(t[2])
                if d is None:
                    return False
                vec[t[1]], vec[t[2]] = d, v
            elif op == "destroy":
                del vec[t[1]]
            elif op == "dump":
                pass
            else:
                return False
        except (IndexError, ValueError, KeyError):
            return False
    return True


# ------------------------------------------------------------------------------------------ C15
import hashlib
import json
import os
import random
import subprocess

import runner

PAIRS = [("u8", "u8"), ("u8", "i8"), ("i8", "u8"), ("u8", "c8"), ("c8", "u8"), ("b1", "c8"), ("b1", "u8"), ("u8", "b1"), ("c8", "b1"),
         ("b1", "b1"), ("u16", "i16"), ("i16", "u16"), ("u16", "u8"), ("u8", "u16"), ("i16", "i8"), ("u32", "i32"), ("i32", "u32"),
         ("u32", "u32"), ("u64", "i64"), ("i64", "u64"), ("u32", "f32"), ("f32", "u32"), ("f32", "i32"), ("f32", "f32"), ("f64", "f64"),
         ("f64", "u64"), ("u8", "e8"), ("e8", "e8"), ("p64", "p64"), ("w1", "u8"), ("w1", "w1"), ("w4", "u32"), ("w4", "w4"),
         ("u32", "conv"), ("conv", "conv"), ("cnt", "cnt"), ("cnt", "i32"), ("i32", "i16"), ("u64", "u32")]
FORMS = ["vecL", "vecR", "listL", "listR", "arrL", "stdArrL", "genL", "ptr", "vecIt", "listIt", "moveIt", "revIt", "deqIt", "inIt", "strideIt"]
RANGE_FORMS = {"vecL", "vecR", "listL", "listR", "arrL", "stdArrL", "genL"}
BITS = {"u8": 8, "i8": 8, "c8": 8, "b1": 1, "u16": 16, "i16": 16, "u32": 32, "i32": 32, "u64": 64, "i64": 64, "e8": 8, "w1": 8, "w4": 32,
        "conv": 32, "p64": 64}


def c15_values(rng, u, t, n):
    """source representations: include zero, one, values with the top bit set, values that do not fit the target"""
    if u in ("f32", "f64"):
        pool = [0, 1, 2, 7, 100, 1000]
    elif u == "cnt":
        pool = [1, 2, 3, 50, 1000]
    elif u == "b1":
        pool = [0, 1]
    elif t in ("f32", "f64"):
        pool = [0, 1, 2, 100, 4000]      # exactly representable, non-negative
    elif u == "i32" and t == "cnt":
        pool = [0, 1, 5, 70000]
    else:
        b = BITS[u]
        pool = [0, 1, 2, 3, (1 << b) - 1, 1 << (b - 1), (1 << (b - 1)) + 5, 200 % (1 << b), 77]
    return [rng.choice(pool) for _ in range(n)]


def c15_cases(seed, tier):
    rng = random.Random(seed * 2750159 + 15)
    cases = []
    for (t, u) in PAIRS:
        for f in FORMS:
            if f == "vecIt" and u == "b1":
                continue  # the stand-in container for bool hands out raw pointers: same as form `ptr`
            if f == "genL" and u == "cnt":
                continue  # the generating iterator returns temporaries: their moves are not moves from the source
            for kind in ("f", "v"):
                if kind == "v" and f not in RANGE_FORMS:
                    continue  # an iterator needs the fixed size
                lens = [3] if f in ("arrL", "stdArrL") else ([0, 1, 3] if tier == "quick" else [0, 1, 2, 3, 5])
                if f in ("revIt", "deqIt"):
                    lens = [n for n in lens if n > 0]  # taking the address of the first item of an empty reversed range is not defined
                reps = 1 if tier == "quick" else 3
                for n in lens:
                    for _ in range(reps):
                        vals = c15_values(rng, u, t, n)
                        cases.append("emp %s %s %s %s %s" % (t, u, f, kind, ",".join(map(str, vals)) if vals else "-"))
    return cases


def build_single(src_name, out_name):
    sh_ = runner.source_hash()
    d = os.path.join(runner.CACHE, "s", sh_)
    os.makedirs(d, exist_ok=True)
    for other in os.listdir(os.path.join(runner.CACHE, "s")):
        if other != sh_:
            import shutil
            shutil.rmtree(os.path.join(runner.CACHE, "s", other), ignore_errors=True)
    b = os.path.join(d, out_name)
    return build_locked(b, ["g++"] + runner.CXXFLAGS + [os.path.join(runner.HARNESS, src_name)])


class Infra(str):
    """compiler output of a build that failed for reasons outside the program text (killed, out of memory, ...)"""


def build_locked(b, cmd):
    """build artefact `b` once (concurrent checks wait for each other); returns (path, None) | (None, compiler output)"""
    if os.path.exists(b):
        return b, None
    os.makedirs(os.path.dirname(b), exist_ok=True)
    with runner.file_lock(b + ".lock"):
        if os.path.exists(b):
            return b, None
        tmp = "%s.%d.tmp" % (b, os.getpid())
        r = runner.gxx(cmd + ["-o", tmp])
        if r.returncode != 0:
            try:
                os.remove(tmp)
            except OSError:
                pass
            if getattr(r, "transient", False):
                runner.INFRA.append("%s: compiler could not run: %s" % (os.path.basename(b), (r.stdout or "").strip()[-200:]))
                return None, Infra(r.stdout)
            return None, r.stdout
        os.rename(tmp, b)
        return b, None


def line_protocol_compare(binary, lines, cfg_line=None):
    """run both sides on the same lines; returns (groups_impl, groups_model, abort)"""
    rc, out, err = runner.run_impl(binary, lines, timeout=300)
    inp = ((cfg_line + "\n") if cfg_line else "") + "\n".join(lines) + "\n"
    mrc, mout, merr = runner.run_proc([runner.DRIVER], inp, 300)
    if rc == -998 or mrc in (-998, -999):
        runner.INFRA.append("line protocol run not carried out: %s" % (err if rc == -998 else merr)[-120:])
        return None, None, None
    return runner.split_ops(out), runner.split_ops(mout), (runner.abort_kind(err), err[-1500:]) if rc != 0 else None


def write_replay_special(prop, tier, seed, kind, lines, detail):
    root = runner.ROOT
    body = {"property": prop, "tier": tier, "seed": seed, "kind": kind, "cfg": None, "ops": lines, "detail": detail,
            "repro": "./check %s --replay <this file>" % prop}
    h = hashlib.sha256(json.dumps(body, sort_keys=True).encode()).hexdigest()[:10]
    path = os.path.join(root, "replays", "%s-%s.json" % (prop, h))
    os.makedirs(os.path.dirname(path), exist_ok=True)
    with open(path, "w") as f:
        json.dump(body, f, indent=1)
    return path


def generic_lines_check(prop, tier, seed, replay, binary_src, binary_name, cases, tag):
    res = {"violations": [], "known": [], "coverage": {}}
    if replay:
        cases = json.load(open(replay))["ops"]
    binary, err = build_single(binary_src, binary_name)
    if binary is None and isinstance(err, Infra):
        res["no_verdict"] = True
        return res
    if binary is None:
        path = write_replay_special(prop, tier, seed, "no-failing-input-found", [], {"harness-does-not-compile": err[-3000:]})
        res["violations"].append((path, " no-failing-input-found"))
        return res
    ok, _ = runner.build_lean()
    gi, gm, abort = line_protocol_compare(binary, cases) if ok else (runner.split_ops(runner.run_impl(binary, cases, 300)[1]), [], None)
    if gi is None:
        res["no_verdict"] = True
        return res
    viol = []
    div = []
    for idx, (op, obs) in enumerate(gi):
        for l in obs:
            if l.startswith("!viol " + tag):
                viol.append((op, l[6:]))
        if ok and idx < len(gm):
            oi = [l for l in obs if not l.startswith("!viol") and not l.startswith("#")]
            om = [l for l in gm[idx][1] if not l.startswith("#")]
            if oi != om:
                div.append((op, oi, om))
    seen = set()
    for (op, txt) in viol:
        key = txt.split(" ")[0]
        if key in seen:
            continue
        seen.add(key)
        path = write_replay_special(prop, tier, seed, "failing-input", [op], {"violation": txt})
        res["violations"].append((path, ""))
    if abort and not viol:
        path = write_replay_special(prop, tier, seed, "failing-input", cases[: len(gi)][-3:], {"abort": abort[0], "stderr": abort[1]})
        res["violations"].append((path, ""))
    if div and not viol and not abort:
        path = write_replay_special(prop, tier, seed, "no-failing-input-found", [div[0][0]],
                                    {"correspondence": {"op": div[0][0], "impl": div[0][1], "model": div[0][2]},
                                     "divergent_cases": len(div), "searched": "monitors over %d cases" % len(gi)})
        res["violations"].append((path, " no-failing-input-found"))
    res["coverage"] = {"evaluations": len(gi), "distinct_nontrivial": len(set(cases)), "samples": [{"case": c} for c in cases[:4]],
                       "divergences": len(div), "monitor_hits": len(viol)}
    return res


def special_c15(tier, seed, replay):
    cases = c15_cases(seed, tier)
    res = generic_lines_check("C15", tier, seed, replay, "emplace_matrix.cpp", "emplace_matrix", cases, "C15")
    forms = {}
    for c in cases:
        forms[c.split()[3]] = forms.get(c.split()[3], 0) + 1
    res["coverage"]["forms"] = forms
    res["coverage"]["type_pairs"] = len(PAIRS)
    return res


SPECIAL["C15"] = special_c15


# ------------------------------------------------------------------------------------------ C20
import concurrent.futures as cf


def c20_cells(tier, seed):
    """the required cells come from the Lean model (`matrix` op of the driver); every cell is multiplied by
    AlignAs on/off and the three allocator kinds"""
    ok, _ = runner.build_lean()
    if not ok:
        return None
    mrc, mout, _ = runner.run_proc([runner.DRIVER], "matrix\n", 300)
    base = [l.split()[1:] for l in mout.split("\n") if l.startswith("cell ")]
    cells = []
    rng = random.Random(seed * 86028121 + 20)
    for (op, cat, val) in base:
        variants = [(al, a) for al in ("false", "true") for a in ("StdAlloc", "Pmr", "Stateful")]
        if tier == "quick":
            # every required cell once, with one of the six (AlignAs, allocator) variants, rotating deterministically
            variants = [variants[(hash((op, cat, val)) + seed) % 6 if False else (len(cells) + seed) % 6]]
        for (al, a) in variants:
            cells.append((op, cat, val, al, a))
    return cells


def special_c20(tier, seed, replay):
    res = {"violations": [], "known": [], "coverage": {}}
    cells = c20_cells(tier, seed)
    if replay:
        rp = json.load(open(replay))
        cells = [tuple(c) for c in rp["detail"].get("cells", [])] or cells
    if cells is None:
        path = write_replay_special("C20", tier, seed, "no-failing-input-found", [], {"broken": "lean model does not build"})
        res["violations"].append((path, " no-failing-input-found"))
        return res
    sh_ = runner.source_hash()
    d = os.path.join(runner.CACHE, "m", sh_)
    os.makedirs(d, exist_ok=True)
    for other in os.listdir(os.path.join(runner.CACHE, "m")):
        if other != sh_:
            import shutil
            shutil.rmtree(os.path.join(runner.CACHE, "m", other), ignore_errors=True)

    def compile_cell(c):
        op, cat, val, al, a = c
        name = "_".join(c)
        okf = os.path.join(d, name + ".ok")
        errf = os.path.join(d, name + ".err")
        if os.path.exists(okf):
            return c, None
        e = runner.cached_error(errf)
        if e is not None:
            return c, e
        src = os.path.join(d, "%s.%d.cpp" % (name, os.getpid()))
        with open(src, "w") as f:
            f.write('#include "matrix_cell.hpp"\ntemplate void mx::op_%s<mx::Cfg<mx::%s, mx::%s, %s, mx::%s>>();\n' % (op, cat, val, al, a))
        r = runner.gxx(["g++", "-std=c++17", "-fsyntax-only", "-I" + os.path.join(runner.REPO, "src"), "-I" + runner.HARNESS, src])
        try:
            os.remove(src)
        except OSError:
            pass
        if r.returncode != 0:
            if getattr(r, "transient", False):
                # the compiler could not run: no conclusion about this cell
                runner.INFRA.append("cell %s: compiler could not run: %s" % (name, (r.stdout or "").strip()[-200:]))
                return c, None
            with open(errf + ".%d" % os.getpid(), "w") as f:
                f.write(r.stdout.replace(os.path.basename(src), name + ".cpp"))
            os.replace(errf + ".%d" % os.getpid(), errf)
            return c, r.stdout
        open(okf, "w").close()
        return c, None

    bad = []
    with cf.ThreadPoolExecutor(runner.NPROC) as ex:
        for c, err in ex.map(compile_cell, cells):
            if err:
                bad.append((c, err))
    known = runner.load_known()
    seen = set()
    for c, err in bad:
        first = next((l for l in err.split("\n") if "error" in l), err[:200])
        kf = None
        for k in known:
            if k.get("status") == "known" and k["property"] == "C20" and re.search(k["signature"]["violation"], "_".join(c)):
                kf = k
        if kf:
            if kf["id"] not in seen:
                seen.add(kf["id"])
                res["known"].append(kf["what"])
            continue
        sig = (c[0], first[-80:])
        if sig in seen:
            continue
        seen.add(sig)
        path = write_replay_special("C20", tier, seed, "failing-input", ["cell " + " ".join(c)],
                                    {"cells": [list(c)], "violation": "C20:required-cell-is-ill-formed", "compiler": err[-2500:],
                                     "source": 'template void mx::op_%s<mx::Cfg<mx::%s, mx::%s, %s, mx::%s>>();' % c})
        res["violations"].append((path, ""))
    # the documented constructor forms at run time: a form that compiles but selects another overload (the allocator is
    # silently dropped) is as unavailable as one that does not compile
    forms_ok = 0
    if not replay:
        b, err = build_flags("ctor_forms.cpp", "ctor_forms", ["-O0", "-g", "-fsanitize=address,undefined", "-fno-sanitize=alignment"])
        if b is None and isinstance(err, Infra):
            res["no_verdict"] = True
        elif b is None:
            path = write_replay_special("C20", tier, seed, "failing-input", ["ctor_forms.cpp"],
                                        {"violation": "C20:documented-constructor-form-is-ill-formed", "compiler": err[-2500:]})
            res["violations"].append((path, ""))
        else:
            rc, out, errtxt = runner.run_proc([b], None, 300, dict(os.environ, ASAN_OPTIONS="detect_leaks=0"))
            viol = [l for l in out.split("\n") if l.startswith("!viol")]
            forms_ok = len([l for l in out.split("\n") if l.startswith("form ") and "resource=1" in l])
            if rc == -998:
                runner.INFRA.append("ctor_forms not run: %s" % errtxt[-120:])
                res["no_verdict"] = True
            elif viol or rc != 0 or "end failures=0" not in out:
                path = write_replay_special("C20", tier, seed, "failing-input", ["ctor_forms"],
                                            {"violation": (viol or ["C20:constructor-forms-program-aborted"])[0], "all": viol,
                                             "exit": rc, "stderr": errtxt[-1500:]})
                res["violations"].append((path, ""))
    # value types that can be neither copied nor moved, or only copied explicitly: construction in place, every read access,
    # pop_back and clear must still be well-formed (compile-only translation unit outside the model's table)
    pinned_ok = 0
    if not replay:
        r = runner.gxx(["g++", "-std=c++17", "-fsyntax-only", "-I" + os.path.join(runner.REPO, "src"), os.path.join(runner.HARNESS, "pinned_cells.cpp")])
        if r.returncode != 0 and getattr(r, "transient", False):
            runner.INFRA.append("pinned_cells.cpp: compiler could not run")
            res["no_verdict"] = True
        elif r.returncode != 0:
            path = write_replay_special("C20", tier, seed, "failing-input", ["pinned_cells.cpp"],
                                        {"violation": "C20:read-access-ill-formed-for-a-type-that-is-not-implicitly-copyable", "compiler": r.stdout[-2500:]})
            res["violations"].append((path, ""))
        else:
            pinned_ok = 4
    hist = {}
    for c in cells:
        hist[c[1] + "/" + c[2]] = hist.get(c[1] + "/" + c[2], 0) + 1
    res["coverage"] = {"evaluations": len(cells) + forms_ok + pinned_ok, "constructor_forms_run": forms_ok, "pinned_type_cells": pinned_ok,
                       "distinct_nontrivial": len(set(cells)), "exhaustive": tier == "thorough",
                       "samples": [{"cell": list(c)} for c in cells[:4]], "ill_formed_cells": len(bad), "cells_per_category_value": hist}
    return res


import re  # noqa: E402
SPECIAL["C20"] = special_c20


# ------------------------------------------------------------------------------------------ C19
def build_flags(src_name, out_name, flags):
    sh_ = runner.source_hash()
    d = os.path.join(runner.CACHE, "s", sh_)
    os.makedirs(d, exist_ok=True)
    b = os.path.join(d, out_name)
    return build_locked(b, ["g++", "-std=c++17"] + flags + ["-I" + os.path.join(runner.REPO, "src"), os.path.join(runner.HARNESS, src_name)])


def special_c19(tier, seed, replay):
    res = {"violations": [], "known": [], "coverage": {}}
    runs = [("const_ro_O1", ["-O1", "-g"], "write-protection, -O1"), ("const_ro_O0", ["-O0"], "write-protection, -O0"),
            ("const_ro_tsan", ["-O1", "-g", "-fsanitize=thread", "-DC19_THREADS", "-pthread"], "16 reader threads under ThreadSanitizer")]
    if tier == "thorough":
        runs.append(("const_ro_O2", ["-O2"], "write-protection, -O2"))
        runs.append(("const_ro_tsan_O2", ["-O2", "-fsanitize=thread", "-DC19_THREADS", "-pthread"], "16 reader threads under ThreadSanitizer, -O2"))
    lines_ok = 0
    samples = []
    for name, flags, what in runs:
        b, err = build_flags("const_ro.cpp", name, flags)
        if b is None and isinstance(err, Infra):
            res["no_verdict"] = True
            continue
        if b is None:
            path = write_replay_special("C19", tier, seed, "no-failing-input-found", [], {"harness-does-not-compile": err[-3000:], "run": what})
            res["violations"].append((path, " no-failing-input-found"))
            continue
        reps = 1 if "tsan" not in name else (2 if tier == "quick" else 6)
        for _ in range(reps):
            rc, out, errtxt = runner.run_proc([b], None, 600, dict(os.environ, TSAN_OPTIONS="halt_on_error=0"))
            if rc == -998:
                runner.INFRA.append("%s not run: %s" % (name, errtxt[-120:]))
                res["no_verdict"] = True
                break

            class r:  # the fields used below
                returncode, stdout, stderr = rc, out, errtxt
            viol = [l for l in out.split("\n") if l.startswith("!viol")]
            tsan = "WARNING: ThreadSanitizer" in r.stderr
            good = [l for l in out.split("\n") if l.startswith("ro ") and l.endswith("same=1") or l.startswith("threads ") and l.endswith("results_differ=0")]
            lines_ok += len(good)
            if len(samples) < 3:
                samples.append({"run": what, "lines": good[:3]})
            if viol or tsan or r.returncode != 0 or not out.rstrip().endswith("end"):
                detail = {"run": what, "violations": viol, "tsan_report": r.stderr[-2500:] if tsan else "", "exit": r.returncode,
                          "stdout_tail": out[-600:]}
                path = write_replay_special("C19", tier, seed, "failing-input", ["%s" % " ".join([name] + flags)], detail)
                res["violations"].append((path, ""))
                break
    res["coverage"] = {"evaluations": lines_ok * 9, "distinct_nontrivial": lines_ok, "samples": samples,
                       "explanation": "one evaluation = one const operation group executed on write-protected or concurrently shared vectors"}
    return res


SPECIAL["C19"] = special_c19
