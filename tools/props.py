"""Per-property registry: theorems (proof obligations), correspondence streams, violation tags."""
import random

import gen

# Lean theorems that decide each property (audited with #print axioms on every run)
THEOREMS = {
    "C03": ["Cntgs.C03.objects_aligned", "Cntgs.C03.storage_alignment_suffices", "Cntgs.C03.next_element_start_aligned",
            "Cntgs.C03.relocation_keeps_layout"],
    "C04": ["Cntgs.C04.fields_ordered", "Cntgs.C04.span_sizes", "Cntgs.C04.element_extent", "Cntgs.C04.first_field_at_element_start"],
    "C13": ["Cntgs.C13.ne_is_negation", "Cntgs.C13.elem_eq_iff_content", "Cntgs.C13.elem_eq_false_if_fixed_sizes_differ",
            "Cntgs.C13.elem_eq_refl", "Cntgs.C13.elem_eq_symm", "Cntgs.C13.memcmp_run_is_fieldwise",
            "Cntgs.C13.vec_eq_iff_content_elementwise", "Cntgs.C13.vec_eq_iff_content_fastpath", "Cntgs.C13.vec_eq_fastpath_needs_equal_fixed_sizes",
            "Cntgs.C13.elem_eq_iff_content_generic", "Cntgs.C13.vec_eq_needs_equal_size", "Cntgs.C13.vec_eq_empty",
            "Cntgs.encode_inj", "Cntgs.runs_ok"],
    "C14": ["Cntgs.C14.elem_operators", "Cntgs.C14.vec_operators", "Cntgs.C14.elem_lt_strict", "Cntgs.C14.vec_lt_irrefl_asymm",
            "Cntgs.C14.vec_lt_trans_fastpath", "Cntgs.C14.vec_lt_not_transitive", "Cntgs.C14.vec_lt_is_lexicographical", "Cntgs.C14.vec_lt_fastpath_is_lexicographical",
            "Cntgs.C14.ordVal_signed_is_value_order", "Cntgs.C14.ordVal_unsigned"],
    "C15": ["Cntgs.C15.toInt_mod", "Cntgs.C15.memcpy_sound", "Cntgs.C15.stored_is_converted", "Cntgs.C15.lvalue_not_moved",
            "Cntgs.C15.rvalue_moved"],
    "C11": ["Cntgs.C11.assign_copies_all_fields", "Cntgs.C11.copy_assign_keeps_source", "Cntgs.C11.move_assign_source",
            "Cntgs.C11.swap_exchanges", "Cntgs.C11.swap_involutive", "Cntgs.C11.iter_add_sub", "Cntgs.C11.iter_diff",
            "Cntgs.C11.iter_diff_add", "Cntgs.C11.iter_order", "Cntgs.C11.iter_trichotomy", "Cntgs.runs_ok"],
    "C12": ["Cntgs.C12.from_reference", "Cntgs.C12.copy_assign_fixed", "Cntgs.C12.copy_assign_varying", "Cntgs.C12.move_assign_value",
            "Cntgs.C12.swap_values", "Cntgs.C12.to_reference", "Cntgs.C12.independent", "Cntgs.C12.copy_with_allocator",
            "Cntgs.C12.move_with_equal_allocator", "Cntgs.C12.move_with_unequal_allocator", "Cntgs.C12.history_of_element_operations",
            "Cntgs.C12.element_observations", "Cntgs.C12.abstract_spec_is_value_semantics"],
    "C19": ["Cntgs.C19.copy_leaves_others", "Cntgs.C19.const_no_write", "Cntgs.C19.schedule_keeps_shared",
            "Cntgs.C19.obs_depends_on_shared_only", "Cntgs.C19.elem_const_no_write", "Cntgs.C19.elem_schedule_keeps_shared"],
    "C20": ["Cntgs.C20.category_partition", "Cntgs.C20.ctor_dispatch", "Cntgs.C20.availability"],
    "C07": ["Cntgs.C07.allocation_recorded", "Cntgs.C07.release_exact", "Cntgs.C07.reallocation_clean", "Cntgs.C07.assignment_clean",
            "Cntgs.C07.destroy_returns_data_block", "Cntgs.C07.no_leak_counter_witness", "Cntgs.C07.no_leak_partial",
            "Cntgs.C07.data_blocks_returned_exactly_once", "Cntgs.C07.ownership_invariant", "Cntgs.WOwn.step",
            "Cntgs.C07.vectors_and_elements_ownership", "Cntgs.C07.nothing_left_behind"],
    "C08": ["Cntgs.C08.copy_construction", "Cntgs.C08.copy_assignment", "Cntgs.C08.move_assignment", "Cntgs.C08.swap_propagation",
            "Cntgs.C08.move_assign_unequal_transfers"],
    "C17": ["Cntgs.C17.failed_allocation_is_clean", "Cntgs.C17.reallocate_strong", "Cntgs.C17.copy_assign_fault",
            "Cntgs.C17.allocPair_fault", "Cntgs.C17.construction_fault", "Cntgs.C17.reserve_fault_unchanged",
            "Cntgs.C17.copy_fault_unchanged", "Cntgs.C17.move_assign_fault_unchanged", "Cntgs.C17.copy_assign_fault_world",
            "Cntgs.C17.allocTable_fault", "Cntgs.C17.history_with_allocation_failures", "Cntgs.C17.failed_step",
            "Cntgs.C17.element_from_reference_fault", "Cntgs.C17.element_copy_fault", "Cntgs.C17.element_copy_alloc_fault",
            "Cntgs.C17.element_move_alloc_fault", "Cntgs.C17.element_move_swap_nothrow", "Cntgs.C17.element_copy_assign_fault",
            "Cntgs.C17.element_failed_step", "Cntgs.C17.element_history_with_allocation_failures", "Cntgs.C17.earun_failed_step"],
    "C05": ["Cntgs.C05.fields_greedy", "Cntgs.C05.alignUp_is_lowest", "Cntgs.C05.elements_greedy", "Cntgs.C05.units_tight",
            "Cntgs.elemSize_fixed", "Cntgs.elemSize_bound"],
    "C01": ["Cntgs.C01.history_offset_table_partial", "Cntgs.C01.history_offset_table_no_overlap", "Cntgs.C01.history_stride", "Cntgs.C01.history_cap",
            "Cntgs.C01.erase_returns_follower", "Cntgs.VarInv.history", "Cntgs.FixInv.history_all", "Cntgs.VarInv.history_noreloc",
            "Cntgs.VarInv.abs_eq", "Cntgs.FixInv.abs_eq"],
    "C02": ["Cntgs.C02.units_cover", "Cntgs.C02.fit_stride", "Cntgs.C02.history_stride_inside", "Cntgs.elemSize_fixed", "Cntgs.fixed_fit",
            "Cntgs.elemSize_bound", "Cntgs.szGo_sound", "Cntgs.C02.fit_offset_table", "Cntgs.C02.reserve_room",
            "Cntgs.C02.history_offset_table_inside"],
    "C06": ["Cntgs.C06.lifetimes_offset_table", "Cntgs.C06.lifetimes_stride", "Cntgs.C06.history_offset_table_partial",
            "Cntgs.C06.history_stride", "Cntgs.C06.history_no_relocation", "Cntgs.C06.history_no_overlap", "Cntgs.VarInv.eraseRange_elementwise", "Cntgs.FixInv.eraseRange_elementwise", "Cntgs.C06.erase_destroys_exactly",
            "Cntgs.C06.overlap_counter_witness", "Cntgs.C06.moved_from_holds_nothing"],
    "C09": ["Cntgs.C09.copy_construction", "Cntgs.C09.copy_construction_failed", "Cntgs.C09.independent", "Cntgs.C09.move_construction",
            "Cntgs.C09.swap_exchanges", "Cntgs.C09.self_operations", "Cntgs.C09.copy_assignment", "Cntgs.C09.move_assignment_steal",
            "Cntgs.C09.move_assignment_elementwise", "Cntgs.C09.moved_from_usable", "Cntgs.C09.relocated_offset_table",
            "Cntgs.C09.relocated_stride", "Cntgs.C09.copy_is_canonical", "Cntgs.C09.history_any_number_of_vectors",
            "Cntgs.C09.observations", "Cntgs.step_refines",
            "Cntgs.C09.moved_from_is_an_empty_vector", "Cntgs.C09.moved_from_sources"],
    "C10": ["Cntgs.C10.within_capacity_is_noop", "Cntgs.C10.capacity_after", "Cntgs.C10.keeps_fixed_sizes",
            "Cntgs.C10.keeps_contents_offset_table", "Cntgs.C10.keeps_contents_stride", "Cntgs.C10.repeated", "Cntgs.C02.reserve_room"],
    "C16": ["Cntgs.C16.emplace_keeps_addresses", "Cntgs.C16.pop_keeps_addresses", "Cntgs.C16.clear_keeps_addresses",
            "Cntgs.C16.eraseRange_keeps_front", "Cntgs.C16.erase_keeps_front", "Cntgs.C16.reserve_within_capacity",
            "Cntgs.C16.inplace_ops_no_allocation", "Cntgs.C16.ops_keep_block", "Cntgs.C16.capacity_changes_only_by_reserve",
            "Cntgs.C16.swap_no_allocation", "Cntgs.C16.move_no_allocation", "Cntgs.C16.move_keeps_addresses"],
    "C18": ["Cntgs.C18.empty_offset_table", "Cntgs.C18.empty_stride", "Cntgs.C18.fresh_offset_table", "Cntgs.C18.fresh_stride",
            "Cntgs.C18.default_offset_table", "Cntgs.C18.default_stride", "Cntgs.C18.emptied_offset_table_partial",
            "Cntgs.C18.emptied_stride", "Cntgs.C18.ops_on_empty_offset_table", "Cntgs.C18.ops_on_empty_stride",
            "Cntgs.C18.junk_independent_partial", "Cntgs.C18.usable_afterwards_partial", "Cntgs.C18.destroy_default",
            "Cntgs.C18.emptied_offset_table_all_types", "Cntgs.C18.junk_independent_all_types", "Cntgs.C18.usable_afterwards_all_types",
            "Cntgs.C18.usable_afterwards_stride"],
}

# violation tags raised by the harness monitors that count for a property
TAGS = {
    "C01": ["C01"], "C02": ["C02", "mem"], "C03": ["C03"], "C04": ["C04"], "C05": ["C05"], "C06": ["life"],
    "C07": ["ledger", "C07"], "C08": ["C08"], "C09": ["C09", "C01", "life", "C08"], "C10": ["C10", "C01", "C02"], "C11": ["C11", "life", "C01"], "C12": ["C12", "life", "C01", "C08", "ledger"],
    "C13": ["C13"], "C14": ["C14"], "C15": ["C15"], "C16": ["C16"], "C17": ["C17", "ledger", "life"], "C18": ["C18", "C01", "C02"],
    "C19": ["C19"], "C20": ["C20"],
}

ALLOCS = ["0000", "0001", "1000", "0100", "0010", "1110", "1100", "0110", "1010", "1111"]


def stream_layout(seed, tier):
    """fresh fills with many size residues + a few erase/reserve: C02, C03, C04, C05"""
    rng = random.Random(seed * 7919 + 1)
    n_rand = 24 if tier == "quick" else 200
    cfgs = [c for c in gen.CORPUS if not c.tracked()]
    for i in range(n_rand):
        cfgs.append(gen.random_cfg(rng, "L%d" % i, category=["plain", "fixed", "varying", "mixed", "mixed", "varying"][i % 6]))
    for i in range(10 if tier == "quick" else 60):
        cfgs.append(gen.bracket_cfg(rng, "B%d" % i))
    out = []
    for c in cfgs:
        seqs = 2 if tier == "quick" else 4
        for s in range(seqs):
            out.append((c, gen.gen_history(rng, c, 14 if tier == "quick" else 40,
                                           weights={"emplace": 14, "pop": 1, "erase": 2, "eraser": 1, "clear": 1, "reserve": 2})))
        # the block is sized for exactly N elements and B payload bytes: fill it to exactly that, in several ways
        for mode in ((0, 1, 2, 3) if tier == "quick" else (0, 0, 0, 1, 2, 2, 3, 3)):
            out.append((c, gen.gen_tight_fill(rng, c, mode)))
        out.append((c, gen.gen_capacity_sweep(rng, c)))
        d = gen.gen_default_fill(rng, c)
        if d:
            out.append((c, d))
    # element-wise relocation (non-trivial value types): equal element sizes keep it free of the known overlap, so that
    # the layout after erase in the middle is compared object by object
    for c in [c for c in gen.CORPUS if c.tracked()]:
        for s in range(3 if tier == "quick" else 10):
            out.append((c, gen.gen_history(rng, c, 24 if tier == "quick" else 60, equal_sizes=True,
                                           weights={"emplace": 10, "pop": 1, "erase": 6, "eraser": 3, "clear": 0, "reserve": 2})))
    return out


def stream_history(seed, tier, tracked_share=0.4):
    """long single-vector histories over every list category, trivial and tracked value types: C01, C06, C10, C16, C18"""
    rng = random.Random(seed * 104729 + 2)
    n_rand = 20 if tier == "quick" else 160
    cfgs = list(gen.CORPUS)
    for i in range(n_rand):
        tracked = rng.random() < tracked_share
        cfgs.append(gen.random_cfg(rng, "H%d" % i, category=["plain", "fixed", "varying", "mixed"][i % 4], tracked=tracked))
    out = []
    for c in cfgs:
        for s in range(2 if tier == "quick" else 4):
            # tracked types: equal element sizes keep element-wise relocation free of overlap (known finding otherwise)
            eq = c.tracked() and not (s == 1 and c.name.startswith("trk-"))
            out.append((c, gen.gen_history(rng, c, 30 if tier == "quick" else 120, equal_sizes=eq, defaults=(s == 0),
                                           weights={"emplace": 10, "pop": 2, "erase": 4, "eraser": 2, "clear": 2, "reserve": 2, "dump": 1})))
        out.append((c, gen.gen_shrinking_reserve(rng, c)))
    return out


def stream_alloc(seed, tier):
    """several vectors, every allocator-trait combination, copy/move/assign/swap/destroy: C05 footprint, C07, C08, C09"""
    rng = random.Random(seed * 1299709 + 3)
    n_rand = 20 if tier == "quick" else 120
    cfgs = []
    base = [c for c in gen.CORPUS]
    for i in range(n_rand):
        alloc = ALLOCS[i % len(ALLOCS)]
        if i < len(base):
            c = gen.Cfg(base[i].name + "-" + alloc, base[i].params, alloc)
        else:
            c = gen.random_cfg(rng, "A%d" % i, category=["plain", "fixed", "varying", "mixed"][i % 4], tracked=(i % 3 == 0), alloc=alloc)
        cfgs.append(c)
    # the assignment matrix runs on lists of every category with trivial and tracked value types, under the trait
    # combinations that select different code paths (non-propagating unequal, POCMA, POCCA, always-equal)
    matrix_base = [c for c in base if c.name in ("onevarying", "twofixed", "alignedvarying", "trk-fixed", "trk-varying", "trk-mixed",
                                                  "s-OneFixedUniquePtr", "s-OneVaryingUniquePtr", "s-TwoFixedAligned", "plain", "trc-mixed-trivial", "trc-varying")]
    matrix_cfgs = [gen.Cfg(c.name + "-" + a, c.params, a) for c in matrix_base for a in (("0000", "0100", "1000", "0001") if tier == "quick" else ALLOCS)]
    out = []
    # systematic part: every assignment / copy / move / swap direction between a small and a large vector of two allocators
    for c in matrix_cfgs:
        for seq in gen.gen_fault_matrix(rng, c, faults=None):
            out.append((c, seq))
    for c in cfgs:
        for s in range(2 if tier == "quick" else 5):
            allocs = (1,) if s == 0 else (1, 2, 100)
            out.append((c, gen.gen_history(rng, c, 30 if tier == "quick" else 80, multi=True, allocs=allocs, equal_sizes=c.tracked(),
                                           weights={"erase": 1, "eraser": 1, "pop": 1})))
    return out


COMPARE_CORPUS = [
    gen.Cfg("cmp-u8", [("p", "u8", 1), ("p", "u8", 1)]),
    gen.Cfg("cmp-u8-fixed", [("f", "u8", 1), ("p", "u8", 1)]),
    gen.Cfg("cmp-u8-varying", [("p", "u8", 1), ("v", "u8", 1), ("p", "u8", 1)]),
    gen.Cfg("cmp-u8-padded", [("p", "u8", 1), ("p", "u8", 4), ("p", "u8", 1)]),
    gen.Cfg("cmp-u8-u32-padded", [("p", "u8", 1), ("p", "u32", 4)]),
    gen.Cfg("cmp-u16-fixed-padded", [("f", "u16", 1), ("p", "u8", 1), ("f", "u16", 8)]),
    gen.Cfg("cmp-int-int", [("p", "u32", 1), ("p", "u32", 1)]),
    gen.Cfg("cmp-f32", [("p", "f32", 1), ("f", "f32", 1)]),
    gen.Cfg("cmp-blob-varying", [("p", "u16", 1), ("v", "b3", 1), ("p", "b5", 2)]),
    gen.Cfg("cmp-trk", [("p", "u8", 1), ("v", "t5", 1), ("p", "t8", 1)]),
    gen.Cfg("cmp-mixed-runs", [("p", "u8", 1), ("p", "t5", 1), ("p", "u8", 1), ("p", "u8", 2), ("f", "u8", 1)]),
    # signed bytes: memcmp decides equality but not order
    # adjacent FixedSize fields inside one memcmp run: the same bytes cut into fields of other sizes are not equal
    gen.Cfg("cmp-two-fixed-run", [("f", "u8", 1), ("f", "u8", 1)]),
    gen.Cfg("cmp-two-fixed-run-elementwise", [("f", "u16", 1), ("f", "u16", 1), ("p", "f32", 1)]),
    gen.Cfg("cmp-signed-plain", [("p", "i8", 1)]),
    gen.Cfg("cmp-signed-fixed", [("f", "i8", 1), ("p", "i8", 1)]),
    gen.Cfg("cmp-signed-mixed", [("p", "u8", 1), ("p", "i8", 1), ("f", "u8", 1)]),
    gen.Cfg("cmp-signed-varying", [("p", "u8", 1), ("v", "i8", 1)]),
]


def stream_compare(seed, tier):
    """triples of vectors over a two-value domain, every operand pair and triple: C13, C14"""
    rng = random.Random(seed * 15485863 + 4)
    cfgs = list(COMPARE_CORPUS)
    for i in range(10 if tier == "quick" else 80):
        c = gen.random_cfg(rng, "Q%d" % i, category=["plain", "fixed", "varying", "mixed"][i % 4], tracked=(i % 5 == 0), maxlen=4)
        if i % 2 == 0:  # memcmp family: unsigned integers only
            c = gen.Cfg(c.name, [(k, rng.choice(["u8", "u8", "u16", "u32"]) if not (k == "p" and j + 1 < len(c.params) and c.params[j + 1][0] == "v") else t, al)
                                 for j, (k, t, al) in enumerate(c.params)])
        cfgs.append(c)
    out = []
    for c in cfgs:
        for s in range(3 if tier == "quick" else 8):
            out.append((c, gen.gen_compare(rng, c, 30 if tier == "quick" else 80)))
        out.append((c, gen.gen_empty_compare(rng, c)))
    return out


def stream_empty_compare(seed, tier):
    """C18: empty vectors of every origin compare equal whatever their fixed sizes and capacities"""
    rng = random.Random(seed * 32452843 + 18)
    cfgs = list(COMPARE_CORPUS) + [c for c in gen.CORPUS if not c.tracked()][:12]
    out = []
    for c in cfgs:
        for s in range(1 if tier == "quick" else 4):
            out.append((c, gen.gen_empty_compare(rng, c)))
    return out


def stream_refiter(seed, tier):
    """C11: references and iterators as proxies"""
    rng = random.Random(seed * 32452843 + 11)
    cfgs = list(gen.CORPUS)
    for i in range(12 if tier == "quick" else 90):
        cfgs.append(gen.random_cfg(rng, "R%d" % i, category=["plain", "fixed", "varying", "mixed"][i % 4], tracked=(i % 2 == 0)))
    out = []
    for c in cfgs:
        for s in range(2 if tier == "quick" else 5):
            out.append((c, gen.gen_refiter(rng, c, 25 if tier == "quick" else 70)))
    return out


def stream_element(seed, tier):
    """C12: ContiguousElement value semantics over every allocator-trait combination"""
    rng = random.Random(seed * 49979687 + 12)
    cfgs = []
    base = list(gen.CORPUS)
    for i in range(24 if tier == "quick" else 120):
        alloc = ALLOCS[i % len(ALLOCS)]
        if i < len(base):
            c = gen.Cfg(base[i].name + "-" + alloc, base[i].params, alloc)
        else:
            c = gen.random_cfg(rng, "E%d" % i, category=["plain", "fixed", "varying", "mixed"][i % 4], tracked=(i % 2 == 0), alloc=alloc)
        cfgs.append(c)
    out = []
    for c in cfgs:
        for s in range(2 if tier == "quick" else 5):
            out.append((c, gen.gen_element(rng, c, 30 if tier == "quick" else 80)))
    return out


def stream_faults(seed, tier):
    """C17: the k-th allocation of an operation throws (k = 0, 1), then the operands are dumped, used and torn down"""
    rng = random.Random(seed * 67867967 + 17)
    cfgs = []
    base = list(gen.CORPUS)
    for i in range(24 if tier == "quick" else 140):
        alloc = ALLOCS[i % len(ALLOCS)]
        if i < len(base):
            c = gen.Cfg(base[i].name + "-" + alloc, base[i].params, alloc)
        else:
            c = gen.random_cfg(rng, "F%d" % i, category=["plain", "fixed", "varying", "mixed"][i % 4], tracked=(i % 2 == 0), alloc=alloc)
        cfgs.append(c)
    out = []
    # systematic part: every allocating operation x fault position, on the corpus lists under the trait combinations
    matrix_base = [c for c in base if c.name in ("onevarying", "twofixed", "alignedvarying", "trk-fixed", "trk-varying", "trk-mixed",
                                                  "s-OneFixedUniquePtr", "s-OneVaryingUniquePtr")]
    for c in [gen.Cfg(c.name + "-" + a, c.params, a) for c in matrix_base for a in (("0000", "0100", "1000") if tier == "quick" else ALLOCS)]:
        for seq in gen.gen_fault_matrix(rng, c):
            out.append((c, seq))
        for seq in gen.gen_element_faults(rng, c):
            out.append((c, seq))
    for c in cfgs:
        for s in range(3 if tier == "quick" else 6):
            out.append((c, gen.gen_history(rng, c, 40 if tier == "quick" else 100, multi=True, allocs=(1, 2), equal_sizes=c.tracked(), faults=True,
                                           weights={"erase": 1, "eraser": 1, "pop": 1, "new": 2, "copy": 3, "copyassign": 3, "moveassign": 3,
                                                    "reserve": 3, "swap": 0})))
    return out


STREAMS = {
    "C17": stream_faults,
    "C11": lambda seed, tier: stream_refiter(seed, tier) + stream_element(seed, tier), "C12": stream_element,
    "C13": stream_compare, "C14": stream_compare,
    "C01": stream_history,
    "C02": lambda seed, tier: stream_layout(seed, tier) + stream_alloc(seed, tier),
    "C03": lambda seed, tier: stream_layout(seed, tier) + stream_element(seed, tier),
    "C04": lambda seed, tier: stream_layout(seed, tier) + stream_refiter(seed, tier),
    "C05": lambda seed, tier: stream_layout(seed, tier) + stream_alloc(seed, tier),
    "C06": lambda seed, tier: stream_history(seed, tier) + stream_alloc(seed, tier) + stream_element(seed, tier),
    "C10": stream_history,
    "C16": lambda seed, tier: stream_history(seed, tier) + stream_alloc(seed, tier),
    "C18": lambda seed, tier: stream_history(seed, tier) + stream_alloc(seed, tier) + stream_empty_compare(seed, tier),
    "C07": lambda seed, tier: stream_alloc(seed, tier) + stream_element(seed, tier),
    "C08": lambda seed, tier: stream_alloc(seed, tier) + stream_element(seed, tier),
    "C09": stream_alloc,
}
