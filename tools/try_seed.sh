#!/bin/sh
# try_seed.sh <patch.diff> <prop> [<prop>...] : apply the change to /repo, run the quick checks, undo it
P="$1"; shift
cd /verif
git -C /repo apply "$P" || exit 2
for p in "$@"; do ./check "$p" | grep -E "^(VIOLATION|C[0-9]+ )" | cut -c1-170; done
git -C /repo checkout -- .
git -C /repo status --short | head -3
