"""Build, run, diff, classify, shrink, report (DESIGN.md §3, §5, §7)."""
import concurrent.futures as cf
import contextlib
import fcntl
import hashlib
import json
import os
import random
import re
import shutil
import subprocess
import sys
import time

ROOT = os.path.dirname(os.path.dirname(os.path.abspath(__file__)))
REPO = os.environ.get("CNTGS_REPO", "/repo")
LEAN = os.path.join(ROOT, "lean")
CACHE = os.path.join(ROOT, ".cache")
HARNESS = os.path.join(ROOT, "harness")
DRIVER = os.path.join(LEAN, ".lake", "build", "bin", "cntgs_driver")
NPROC = os.cpu_count() or 4

sys.path.insert(0, os.path.join(ROOT, "tools"))
import gen  # noqa: E402

CXXFLAGS = ["-std=c++17", "-O0", "-fsanitize=address,undefined", "-fno-sanitize=alignment,nonnull-attribute",
            "-fno-sanitize-recover=all", "-DCNTGS_VERIF_HOOKS", "-I" + os.path.join(REPO, "src"), "-I" + HARNESS]


def sh(cmd, **kw):
    return subprocess.run(cmd, stdout=subprocess.PIPE, stderr=subprocess.STDOUT, text=True, **kw)


# ------------------------------------------------------------------------------------------ machine-wide job control
# Several checks may run at the same time (all twenty quick commands started at once is the normal case).  Each check has a
# pool of NPROC worker threads; without a machine-wide limit twenty checks start 320 compilers, the kernel's OOM killer
# terminates some of them and a killed compiler is not evidence about the library.  Every heavy child process (compiler,
# harness binary, model driver, lean) therefore runs while holding one of SLOTS advisory file locks shared by all checks.
def _mem_gb():
    try:
        for l in open("/proc/meminfo"):
            if l.startswith("MemAvailable:"):
                return int(l.split()[1]) // (1024 * 1024)
    except OSError:
        pass
    return 8


SLOTS = max(2, min(NPROC, int(os.environ.get("VERIF_JOBS", "0")) or NPROC))
SLOT_DIR = os.path.join(CACHE, "slots")


@contextlib.contextmanager
def slot():
    os.makedirs(SLOT_DIR, exist_ok=True)
    n = max(2, min(SLOTS, _mem_gb() // 2 or 1))  # a harness translation unit needs well under 1 GB; keep a factor of two
    start = random.randrange(n)
    fd = None
    delay = 0.01
    while fd is None:
        for i in range(n):
            f = os.open(os.path.join(SLOT_DIR, "%02d" % ((start + i) % n)), os.O_CREAT | os.O_RDWR, 0o644)
            try:
                fcntl.flock(f, fcntl.LOCK_EX | fcntl.LOCK_NB)
                fd = f
                break
            except OSError:
                os.close(f)
        if fd is None:
            time.sleep(delay + random.random() * delay)
            delay = min(delay * 1.5, 0.2)
    try:
        yield
    finally:
        os.close(fd)  # closing the descriptor releases the lock


@contextlib.contextmanager
def file_lock(path):
    """exclusive advisory lock used to build one artefact once when several checks want it at the same time"""
    os.makedirs(os.path.dirname(path), exist_ok=True)
    f = os.open(path, os.O_CREAT | os.O_RDWR, 0o644)
    try:
        fcntl.flock(f, fcntl.LOCK_EX)
        yield
    finally:
        os.close(f)


# A compiler that was killed, ran out of memory or disk, or crashed says nothing about the translation unit: such a result is
# retried and never cached; only a diagnosed error of the program text counts as "does not compile".
TRANSIENT = re.compile(r"Killed signal|terminated program|internal compiler error|[Cc]annot allocate memory|virtual memory exhausted|"
                       r"out of memory|std::bad_alloc|Resource temporarily unavailable|No space left on device|"
                       r"[Cc]annot fork|vfork|Bus error|Segmentation fault|Input/output error")


def transient(returncode, output):
    if returncode == 0:
        return False
    if returncode < 0:
        return True
    return bool(TRANSIENT.search(output or "")) or not re.search(r"\berror\b", output or "")


def gxx(cmd, tries=6):
    """run a compiler (or any build command) under a machine-wide slot; transient failures are retried with back-off"""
    r = None
    for attempt in range(tries):
        with slot():
            r = sh(cmd)
        if not transient(r.returncode, r.stdout):
            return r
        time.sleep(min(30, 2 ** attempt) * (0.5 + random.random()))
    r.transient = True
    return r


def file_hash(paths):
    h = hashlib.sha256()
    for p in sorted(paths):
        h.update(p.encode())
        with open(p, "rb") as f:
            h.update(f.read())
    return h.hexdigest()[:16]


def repo_sources():
    out = []
    for d, _, fs in os.walk(os.path.join(REPO, "src", "cntgs")):
        for f in fs:
            out.append(os.path.join(d, f))
    return out


def source_hash(extra=()):
    hs = [os.path.join(HARNESS, f) for f in os.listdir(HARNESS)]
    return file_hash(repo_sources() + hs + list(extra)) + hashlib.sha256(" ".join(CXXFLAGS).encode()).hexdigest()[:6]


# ------------------------------------------------------------------------------------------ Lean side
_lean_built = {}


def build_lean():
    """translator (tie B) + lake build; returns (ok, log)"""
    if "r" in _lean_built:
        return _lean_built["r"]
    t0 = time.time()
    log = ""
    tr = os.path.join(ROOT, "tools", "translate.py")
    if os.path.exists(tr):
        r = sh([sys.executable, tr])
        log += r.stdout
        if r.returncode != 0:
            _lean_built["r"] = (False, "translator failed:\n" + log)
            return _lean_built["r"]
    # one lake at a time in this package directory (concurrent checks share lean/.lake); retried when lake itself was killed
    for attempt in range(4):
        with file_lock(os.path.join(CACHE, "lake.lock")), slot():
            r = sh(["lake", "build"], cwd=LEAN)
        if r.returncode == 0 or not (r.returncode < 0 or TRANSIENT.search(r.stdout or "")):
            break
        time.sleep(2 ** attempt)
    log += r.stdout
    ok = r.returncode == 0 and os.path.exists(DRIVER)
    _lean_built["r"] = (ok, log + "\n[lake build %.1fs]" % (time.time() - t0))
    return _lean_built["r"]


ALLOWED_AXIOMS = {"propext", "Classical.choice", "Quot.sound"}
FORBIDDEN = re.compile(r"\b(sorry|admit|native_decide|bv_decide|implemented_by|maxHeartbeats 0)\b|^axiom |\bunsafe ")


def strip_comments(text):
    text = re.sub(r"/-.*?-/", "", text, flags=re.S)
    return "\n".join(l.split("--")[0] for l in text.split("\n"))


def audit(theorems, files):
    """#print axioms on every theorem + textual scan; returns (obligations, discharged, problems, details)"""
    problems = []
    details = []
    # textual scan over the whole library (model + proofs)
    for d, _, fs in os.walk(os.path.join(LEAN, "Cntgs")):
        for f in fs:
            if f.endswith(".lean"):
                p = os.path.join(d, f)
                for i, line in enumerate(strip_comments(open(p).read()).split("\n")):
                    if FORBIDDEN.search(line):
                        problems.append("forbidden construct in %s:%d: %s" % (os.path.relpath(p, LEAN), i + 1, line.strip()[:80]))
    if not theorems:
        return 0, 0, problems, details
    src = "import Cntgs\n" + "".join("#print axioms %s\n" % t for t in theorems)
    tmp = os.path.join(CACHE, "audit_%d.lean" % os.getpid())
    os.makedirs(CACHE, exist_ok=True)
    with open(tmp, "w") as f:
        f.write(src)
    for attempt in range(4):
        with slot():
            r = sh(["lake", "env", "lean", tmp], cwd=LEAN)
        if r.returncode >= 0 and not TRANSIENT.search(r.stdout or ""):
            break
        time.sleep(2 ** attempt)
    os.remove(tmp)
    out = r.stdout
    discharged = 0
    for t in theorems:
        m = re.search(r"'%s' (depends on axioms: \[(.*?)\]|does not depend on any axioms)" % re.escape(t), out, flags=re.S)
        if not m:
            problems.append("theorem %s: not found / not checked" % t)
            continue
        axs = set(a.strip() for a in (m.group(2) or "").replace("\n", " ").split(",") if a.strip())
        bad = axs - ALLOWED_AXIOMS
        if bad:
            problems.append("theorem %s depends on %s" % (t, sorted(bad)))
        else:
            discharged += 1
        details.append({"theorem": t, "axioms": sorted(axs)})
    return len(theorems), discharged, problems, details


def leanchecker(module):
    """replay the compiled module through Lean's independent checker; 'ok' or the tail of its output"""
    if not shutil.which("leanchecker"):
        return "ok (leanchecker not installed: skipped)"
    for attempt in range(3):
        with slot():
            r = sh(["lake", "env", "leanchecker", module], cwd=LEAN)
        if r.returncode >= 0 and not TRANSIENT.search(r.stdout or ""):
            break
        time.sleep(2 ** attempt)
    return "ok" if r.returncode == 0 else (r.stdout or "")[-400:]


# ------------------------------------------------------------------------------------------ C++ side
def cfg_hash(cfg):
    return hashlib.sha256(cfg.key().encode()).hexdigest()[:12]


INFRA = []  # artefacts that could not be built for reasons unrelated to the program text (reported, never a violation)


def cached_error(path):
    """a cached compiler diagnosis, or None; results of killed / crashed compilers are discarded"""
    if not os.path.exists(path):
        return None
    try:
        txt = open(path).read()
    except OSError:
        return None
    if transient(1, txt):
        try:
            os.remove(path)
        except OSError:
            pass
        return None
    return txt


def build_harness(cfgs, extra_flags=()):
    """one binary per configuration, compiled in parallel, cached by content hash of /repo/src + harness"""
    sh_ = source_hash() + hashlib.sha256(" ".join(extra_flags).encode()).hexdigest()[:4]
    d = os.path.join(CACHE, "h", sh_)
    os.makedirs(d, exist_ok=True)
    # drop caches of other source states (disk is limited)
    for other in os.listdir(os.path.join(CACHE, "h")):
        if other != sh_:
            shutil.rmtree(os.path.join(CACHE, "h", other), ignore_errors=True)
    bins = {}
    uniq = []
    seen = set()
    for c in cfgs:
        bins[c.key()] = os.path.join(d, cfg_hash(c))
        if c.key() not in seen:
            seen.add(c.key())
            uniq.append(c)

    def compile_one(c):
        b = bins[c.key()]
        if os.path.exists(b):
            return c, None, False
        os.makedirs(d, exist_ok=True)
        # built once: a concurrent check that wants the same configuration waits here and then finds the binary
        with file_lock(b + ".lock"):
            if os.path.exists(b):
                return c, None, False
            e = cached_error(b + ".err")
            if e is not None:
                return c, e, False
            src = "%s.%d.cpp" % (b, os.getpid())
            tmp = "%s.%d.tmp" % (b, os.getpid())
            with open(src, "w") as f:
                f.write('#include "harness.hpp"\nusing namespace hh;\nint main() { %s r; return r.run(std::cin); }\n' % c.cpp())
            r = gxx(["g++"] + CXXFLAGS + list(extra_flags) + [src, "-o", tmp])
            for junk in (src,) + ((tmp,) if r.returncode != 0 else ()):
                try:
                    os.remove(junk)
                except OSError:
                    pass
            if r.returncode != 0:
                if getattr(r, "transient", False):
                    return c, r.stdout, True
                with open(b + ".err", "w") as f:
                    f.write(r.stdout)
                return c, r.stdout, False
            os.rename(tmp, b)
            return c, None, False

    # a different order in every process: concurrent checks with overlapping configurations work on different ones
    order = list(uniq)
    random.Random(os.getpid()).shuffle(order)
    errors = {}
    with cf.ThreadPoolExecutor(NPROC) as ex:
        for c, err, infra in ex.map(compile_one, order):
            if infra:
                INFRA.append("harness for %s: compiler could not run: %s" % (c.line(), (err or "").strip()[-200:]))
                errors[c.key()] = None
            elif err:
                errors[c.key()] = err
    return bins, errors


def run_proc(cmd, inp=None, timeout=60, env=None):
    """run one child under a machine-wide slot (the time limit counts only while it holds the slot).  Returns (rc, out, err);
    rc -999 = time limit exceeded twice, rc -998 = the process could not be started or was killed from outside (SIGKILL with
    no sanitizer report: the OOM killer or an operator, not the program)"""
    last = (-998, "", "could not start")
    for attempt in range(3):
        try:
            with slot():
                r = subprocess.run(cmd, input=inp, stdout=subprocess.PIPE, stderr=subprocess.PIPE, text=True, timeout=timeout, env=env)
        except subprocess.TimeoutExpired as e:
            out = e.stdout.decode(errors="replace") if isinstance(e.stdout, bytes) else (e.stdout or "")
            last = (-999, out, "timeout")
            if attempt >= 1:
                return last
            continue
        except OSError as e:  # fork/exec failed (EAGAIN, ENOMEM)
            last = (-998, "", "could not start: %r" % e)
            time.sleep(1 + attempt)
            continue
        if r.returncode == -9 and "Sanitizer" not in r.stderr and "runtime error" not in r.stderr:
            last = (-998, r.stdout, "killed from outside (SIGKILL)")
            time.sleep(1 + attempt)
            continue
        return r.returncode, r.stdout, r.stderr
    return last


def run_impl(binary, lines, timeout=60):
    env = dict(os.environ, ASAN_OPTIONS="detect_leaks=0:abort_on_error=0:allocator_may_return_null=1", UBSAN_OPTIONS="print_stacktrace=0")
    return run_proc([binary], "\n".join(lines) + "\n", timeout, env)


def run_model(cfg, lines, timeout=60):
    return run_proc([DRIVER], cfg.line() + "\n" + "\n".join(lines) + "\n", timeout)


def split_ops(out):
    """group output lines by operation: list of (op line, [observation lines])"""
    groups = []
    for l in out.split("\n"):
        if l.startswith("> "):
            groups.append((l[2:], []))
        elif l and groups:
            groups[-1][1].append(l)
    return groups


class Result:
    def __init__(self):
        self.violations = []   # (tag, text, op index)
        self.divergence = None  # (op index, op, impl lines, model lines)
        self.abort = None       # (op index, text)
        self.ops = 0
        self.poison_at = None
        self.threw = 0
        self.infra = None       # the run could not be carried out (machine, not program): nothing is concluded from it


def abort_kind(stderr):
    m = re.search(r"ERROR: AddressSanitizer: ([a-zA-Z0-9_-]+)", stderr)
    if m:
        return "asan:" + m.group(1)
    m = re.search(r"runtime error: (.*)", stderr)
    if m:
        return "ubsan:" + m.group(1)[:80]
    if "timeout" in stderr:
        return "timeout"
    return "signal-or-exit"


def compare(cfg, binary, lines):
    res = Result()
    rc, out, err = run_impl(binary, lines)
    mrc, mout, merr = run_model(cfg, lines)
    if rc == -998 or mrc in (-998, -999):
        res.infra = "implementation run: %s" % err[-120:] if rc == -998 else "model driver run: %s" % merr[-120:]
        return res
    gi = split_ops(out)
    gm = split_ops(mout)
    res.ops = len(gi)
    res.threw = sum(1 for (_, obs) in gi for l in obs if l == "threw bad_alloc")
    for idx, (op, obs) in enumerate(gi):
        for l in obs:
            if l.startswith("!viol "):
                tag = l[6:].split(":")[0]
                res.violations.append((tag, l[6:], idx))
    for idx, (op, obs) in enumerate(gm):
        if any("POISON" in l for l in obs):
            res.poison_at = idx
            break
    n = min(len(gi), len(gm))
    for idx in range(n):
        oi = [l for l in gi[idx][1] if not l.startswith("#") and not l.startswith("!viol")]
        om = [l for l in gm[idx][1] if not l.startswith("#")]
        if res.poison_at is not None and idx >= res.poison_at:
            break
        if oi != om:
            res.divergence = (idx, gi[idx][0], oi, om)
            break
    if rc != 0:
        res.abort = (len(gi) - 1, abort_kind(err), err[-1500:])
    elif res.divergence is None and res.poison_at is None and len(gi) != len(gm):
        res.divergence = (n, "<length>", ["impl ops=%d" % len(gi)], ["model ops=%d" % len(gm)])
    if mrc != 0 and res.divergence is None:
        res.divergence = (len(gm), "<model crashed>", [], [merr[-300:]])
    return res


# ------------------------------------------------------------------------------------------ known findings
def load_known():
    p = os.path.join(ROOT, "known_findings.json")
    if not os.path.exists(p):
        return []
    return json.load(open(p))["findings"]


def match_known(known, prop, text, cfg, op):
    """a finding is identified by property + regex over the violation text + optional config predicate"""
    for k in known:
        if k.get("status") != "known" or (k["property"] != prop and prop not in k.get("also", [])):
            continue
        sig = k["signature"]
        if not re.search(sig["violation"], text):
            continue
        if "op" in sig and not re.search(sig["op"], op or ""):
            continue
        if sig.get("config") == "tracked" and not cfg.tracked():
            continue
        if sig.get("config") == "has-table" and cfg.category() in ("fixed", "plain"):
            continue
        return k
    return None
