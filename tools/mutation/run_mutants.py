"""One-off mutation campaign: run every mutant of mutants.json (made by gen_mutants.py) that still compiles against the harness
translation units through the quick checks, ONE AT A TIME (checks must not run concurrently), first failing check recorded.
Not part of any registered command.  Usage: python3 gen_mutants.py; python3 run_mutants.py   (work directory /tmp/mc)"""
import json, os, subprocess, shutil, concurrent.futures as cf
W = '/tmp/mc'
muts = json.load(open(W + '/mutants.json'))
ORDER = ["C11", "C01", "C04", "C13", "C12", "C09", "C17", "C15", "C14", "C06", "C02", "C03", "C05", "C07", "C08", "C10", "C16", "C18", "C19", "C20"]


def prep(i):
    m = muts[i]
    d = '%s/s%d' % (W, i)
    if os.path.exists(d):
        shutil.rmtree(d)
    os.makedirs(d)
    shutil.copytree('/repo/src', d + '/src')
    f = d + m['file'][len('/repo'):]
    lines = open(f).read().split('\n')
    lines[m['line']] = m['new']
    open(f, 'w').write('\n'.join(lines))
    for tu in ('emplace_matrix.cpp', 'ctor_forms.cpp', 'pinned_cells.cpp', 'const_ro.cpp'):
        r = subprocess.run(['g++', '-std=c++17', '-fsyntax-only', '-DCNTGS_VERIF_HOOKS', '-I' + d + '/src', '-I/verif/harness', '/verif/harness/' + tu],
                           stdout=subprocess.PIPE, stderr=subprocess.STDOUT, text=True)
        if r.returncode != 0:
            shutil.rmtree(d)
            return i, False
    return i, True


def run(i):
    d = '%s/s%d' % (W, i)
    env = dict(os.environ, CNTGS_REPO=d, VERIF_SEED='1')
    killed = None
    for c in ORDER:
        r = subprocess.run(['./check', c], cwd='/verif', env=env, stdout=subprocess.PIPE, stderr=subprocess.STDOUT, text=True)
        if r.returncode != 0:
            killed = c
            break
    shutil.rmtree(d)
    return killed


if __name__ == '__main__':
    with cf.ThreadPoolExecutor(12) as ex:
        pre = list(ex.map(prep, range(len(muts))))
    print('compile-breaking:', [i for i, ok in pre if not ok], flush=True)
    for i in [i for i, ok in pre if ok]:
        k = run(i)
        m = muts[i]
        rec = {"i": i, "file": os.path.basename(m['file']), "line": m['line'] + 1, "kind": m['kind'], "old": m['old'].strip(), "new": m['new'].strip(), "killed_by": k}
        with open(W + '/results.jsonl', 'a') as out:
            out.write(json.dumps(rec) + '\n')
        print(i, rec['file'], rec['line'], rec['kind'], ('KILLED ' + k) if k else 'SURVIVED', '|', rec['old'][:60], '=>', rec['new'][:60], flush=True)
