import re, random, os, json, glob
random.seed(20260928)
files = sorted(glob.glob('/repo/src/cntgs/*.hpp') + glob.glob('/repo/src/cntgs/detail/*.hpp'))
muts = []
def add(f, ln, old, new, kind):
    muts.append({"file": f, "line": ln, "old": old, "new": new, "kind": kind})
for f in files:
    if f.endswith(('forward.hpp', 'attributes.hpp', 'contiguous.hpp')): continue
    lines = open(f).read().split('\n')
    for i, l in enumerate(lines):
        s = l.strip()
        if not s or s.startswith(('//', '#', 'template', 'using', 'static_assert', 'friend', 'namespace', 'class', 'struct', '*', '/*')): continue
        if 'noexcept(' in s and s.startswith('noexcept'): continue
        # relational
        for a, b in ((' < ', ' <= '), (' <= ', ' < '), (' > ', ' >= '), (' >= ', ' > '), (' == ', ' != '), (' != ', ' == '), (' && ', ' || '), (' || ', ' && ')):
            if a in l and '<<' not in l and '>>' not in l and 'template' not in l:
                add(f, i, l, l.replace(a, b, 1), 'rel')
        for a, b in ((' + 1', ' + 0'), (' - 1', ' - 0'), ('size_type{1}', 'size_type{0}'), ('{1}', '{0}'), (' + ', ' - '), (' - ', ' + ')):
            if a in l and 'operator' not in l and '->' not in l.replace(' - >', ''):
                add(f, i, l, l.replace(a, b, 1), 'arith')
        if re.search(r'\b(true|false)\b', l) and ('return' in l or '=' in l) and 'type' not in l:
            nl = re.sub(r'\btrue\b', 'FALSE_', l, 1) if 'true' in l else re.sub(r'\bfalse\b', 'true', l, 1)
            nl = nl.replace('FALSE_', 'false')
            add(f, i, l, nl, 'bool')
        if re.match(r'^\s+[a-zA-Z_][\w:\.\->]*\(.*\);\s*$', l) and 'return' not in l and 'static_assert' not in l and len(s) < 90:
            add(f, i, l, re.sub(r'\S.*$', ';', l), 'delstmt')
        if re.match(r'^\s+[\w\.\->\(\)]+ = [^;]+;\s*$', l) and 'const' not in l and 'auto' not in l and 'using' not in l:
            add(f, i, l, re.sub(r'\S.*$', ';', l), 'delassign')
random.shuffle(muts)
# balance by kind and file: take up to 3 per (file) first pass
chosen, perfile = [], {}
for m in muts:
    k = m['file']
    if perfile.get(k, 0) >= 6: continue
    perfile[k] = perfile.get(k, 0) + 1
    chosen.append(m)
chosen = chosen[:72]
json.dump(chosen, open('/tmp/mc/mutants.json', 'w'), indent=1)
print(len(muts), len(chosen))
from collections import Counter
print(Counter(os.path.basename(m['file']) for m in chosen))
print(Counter(m['kind'] for m in chosen))
