#!/usr/bin/env python3
"""Regenerates MANIFEST.json from the registry below (kept in one place so it stays valid)."""
import json
import os
import sys

ROOT = os.path.dirname(os.path.dirname(os.path.abspath(__file__)))
sys.path.insert(0, os.path.join(ROOT, "tools"))
import props  # noqa: E402

TEXT = {
    "C03": ("Theorems over all well-formed parameter lists, all counts and every storage-aligned start: the address walk of "
            "the code equals the greedy aligned placement (induction over the list with the bracket/trailing-claim invariant), "
            "hence every object is A-aligned, the next element start is storage-aligned and relocation by multiples of the "
            "storage alignment keeps the layout. Tied to the code by the correspondence run (addresses of every object of every "
            "element after every operation, compile-time tables through the guarded hook) and an absolute-address alignment "
            "monitor with an allocator that returns exactly-aligned blocks."),
    "C04": ("Theorems: fields ordered and non-overlapping inside their element, span byte sizes equal sizeof*count, first field at "
            "the element start, element extent; for all lists/counts/starts. Correspondence: every start/end of every field of "
            "every element, data_begin/data_end, iterator.data(), with order/overlap monitors on real addresses."),
    "C05": ("Theorems: placement is the greedy (lowest aligned address) placement for fields and for element starts; allocation "
            "rounding wastes less than one unit. Correspondence: addresses against an independent greedy layout in the harness, "
            "memory_consumption against the ledger's byte counts."),
}
TEXT["C13"] = ("Theorems on the comparison model as coded (run tables split at padding, three-iterator std::equal on spans, size check): "
               "!= is negation; on the element-wise path equality holds exactly for equal field values (given equal field sizes), is "
               "reflexive and symmetric; vectors of different size are never equal; empty-vector cases. PARTIAL on the proof side: "
               "soundness of the memcmp-run path (injectivity of the byte encoding across a run) is not yet a theorem; it is covered by the "
               "correspondence run (all six operators on every operand kind over a two-value domain, junk-filled memory, oracle monitor).")
TEXT["C14"] = ("Theorems: >, <=, >= are defined from < as the property states; element < (a conjunction of strict orders over "
               "parameters/memcmp runs) is irreflexive, asymmetric and transitive for every parameter list; vector < is irreflexive and "
               "asymmetric on both code paths, a strict weak order on the whole-buffer path, and the lexicographical comparison under "
               "element < on the element-wise path. Transitivity of vector < on the element-wise path is FALSE for the code: the full "
               "statement is kept with a kernel-checked counter-witness (known finding; the repair is rejected by an existing test). "
               "Correspondence: all operators, operand kinds, triples for transitivity over a two-value domain.")
NOTE = ("Trusted: Lean 4.33 kernel; axioms propext/Classical.choice/Quot.sound only (audited on every run); the correspondence "
        "harness, generator and runner; g++ 12.2 + ASan/UBSan. Modelled, not verified: allocator, value types, std algorithms, "
        "no size_t overflow, user preconditions (DESIGN.md §8).")
NOT_YET = {}


def main():
    claimed = [p for p in sorted(TEXT) if p in props.THEOREMS]
    checks = []
    for p in claimed:
        checks.append({
            "property_id": p,
            "quick_cmd": "./check %s --tier quick" % p,
            "thorough_cmd": "./check %s --tier thorough" % p,
            "evidence_file": "/verif/evidence/%s.json" % p,
            "replay_cmd_template": "./check %s --replay {path}" % p,
            "engine": "lean-proof+correspondence",
            "level_claimed": {"category": "proof", "text": TEXT[p], "design_ref": "DESIGN.md §6 " + p},
            "level_note": NOTE,
            "technique": "Lean 4 theorems over an executable model + differential correspondence check against the real library",
        })
    allp = ["C%02d" % i for i in range(1, 21)]
    na = [{"property_id": p, "reason": NOT_YET.get(p, "check under construction in this round: model/correspondence exist or are being built, "
                                                   "but the property theorems are not yet proved, so it is not claimed yet")}
          for p in allp if p not in claimed]
    m = {
        "version": 1,
        "setup_cmd": "cd /verif && ./setup.sh",
        "hooks": {"guard": "CNTGS_VERIF_HOOKS", "enable": "harness translation units are compiled with -DCNTGS_VERIF_HOOKS against /repo/src",
                  "baseline_off_cmd": "cd /repo && cmake --build _build -j16 -- -k 0 ; ctest --test-dir /repo/_build -j8 --timeout 900",
                  "source_commits": ["b2b3304"], "add_only": True},
        "engines": [{"name": "lean-proof+correspondence", "path": "/verif/check", "serves_properties": claimed,
                     "kind_free_text": "Lean 4 model + theorems (lean/), C++ differential harness (harness/), generator/runner (tools/)"}],
        "checks": checks,
        "not_applicable": na,
        "notes": "See DESIGN.md. known_findings.json lists genuine defects that are recorded rather than repaired.",
    }
    with open(os.path.join(ROOT, "MANIFEST.json"), "w") as f:
        json.dump(m, f, indent=1)


if __name__ == "__main__":
    main()
