#!/usr/bin/env python3
"""Regenerates MANIFEST.json from the registry below (kept in one place so it stays valid)."""
import json
import os
import sys

ROOT = os.path.dirname(os.path.dirname(os.path.abspath(__file__)))
sys.path.insert(0, os.path.join(ROOT, "tools"))
import props  # noqa: E402

TEXT = {
    "C03": ("Theorems over all well-formed parameter lists, all counts and every storage-aligned start: the address walk of "
            "the code equals the greedy aligned placement (induction over the list with the bracket/trailing-claim invariant), "
            "hence every object is A-aligned, the next element start is storage-aligned and relocation by multiples of the "
            "storage alignment keeps the layout. Tied to the code by the correspondence run (addresses of every object of every "
            "element after every operation, compile-time tables through the guarded hook) and an absolute-address alignment "
            "monitor with an allocator that returns exactly-aligned blocks."),
    "C04": ("Theorems: fields ordered and non-overlapping inside their element, span byte sizes equal sizeof*count, first field at "
            "the element start, element extent; for all lists/counts/starts. Correspondence: every start/end of every field of "
            "every element, data_begin/data_end, iterator.data(), with order/overlap monitors on real addresses."),
    "C05": ("Theorems: placement is the greedy (lowest aligned address) placement for fields and for element starts; allocation "
            "rounding wastes less than one unit. Correspondence: addresses against an independent greedy layout in the harness, "
            "memory_consumption against the ledger's byte counts."),
}
TEXT["C13"] = ("Theorems on the comparison model as coded (run tables split at padding, three-iterator std::equal on spans, size check): "
               "!= is negation; on the element-wise path equality holds exactly for equal field values (given equal field sizes), is "
               "reflexive and symmetric; vectors of different size are never equal; empty-vector cases. PARTIAL on the proof side: "
               "soundness of the memcmp-run path (injectivity of the byte encoding across a run) is not yet a theorem; it is covered by the "
               "correspondence run (all six operators on every operand kind over a two-value domain, junk-filled memory, oracle monitor).")
TEXT["C14"] = ("Theorems: >, <=, >= are defined from < as the property states; element < and vector < are strict weak orders "
               "(irreflexive, asymmetric, transitive, incomparability transitive) for every parameter list on both code paths, by a "
               "generic theorem that lexicographic comparison over a strict weak order is one; vector < on the element-wise path is the "
               "lexicographical comparison under element <. Correspondence: all operators, operand kinds, triples for transitivity.")
TEXT["C15"] = ("Theorems over the dispatch model of detail/memory.hpp:82-130 and MEMCPY_COMPATIBLE: memcpy is chosen only for type pairs "
               "whose conversion keeps the object representation (all representable values), so for every source form x type pair the "
               "stored objects are T(item) item by item and exactly n are consumed; lvalue sources are never moved from; rvalue ranges and "
               "move_iterators of non-trivially-copyable types are moved element-wise. Correspondence: the full matrix of 11 source forms x "
               "39 type pairs x FixedSize/VaryingSize x lengths on the real emplace_back, printing the real trait values, the stored "
               "representations, the source afterwards and copy/move counters next to the model's prediction, with a T(source) monitor.")
TEXT["C11"] = ("Theorems: for every parameter list (every shape of the run tables, proved through a general coverage/disjointness "
               "theorem about calculate_consecutive_indices) reference assignment copies every field, copy leaves the source unchanged, "
               "move moves out exactly the non-trivially-assignable fields, swap exchanges all fields exactly once; iterator arithmetic "
               "and comparisons are index arithmetic. Correspondence: assignment/move/swap/iter_swap between all position pairs, "
               "rotate/reverse/swap_ranges against a std::vector oracle, exhaustive iterator-law monitor over all index pairs, access-path "
               "identity (operator[], *it, it[n], ->, front/back, const views).")
TEXT["C12"] = ("Theorems over the element model (element.hpp branch matrix x allocator traits): construction from a reference stores "
               "the values in an own, sufficiently large block from the given allocator and moves from rvalue mutable references only; "
               "copy assignment (field-wise and reallocating), move assignment (all four branches) and swap preserve/exchange the values; "
               "assignment back to a reference preserves values; vectors and elements do not affect each other. Correspondence: element "
               "operations under all ten allocator-trait combinations with ledger, value oracle and address monitors.")
TEXT["C19"] = ("PARTIAL. Theorems: every const operation of the model is a function of the shared state and leaves every shared vector "
               "unchanged (copy construction and element construction write only to the caller's fresh object), so under any "
               "interleaving of const operations from any number of threads the shared state is invariant and each query returns what "
               "a sequential run returns: the schedule quantifier is discharged by the theorem. The premise that the compiled const "
               "operations do not write is established per executed path on the real code: all const operations run with the vector "
               "object, data block and offset table mapped read-only at -O0/-O1(/-O2), plus 16 concurrent readers under ThreadSanitizer "
               "(supporting). Not exhibited by the model: compiler-introduced writes, allocator and value-type thread safety.")
TEXT["C20"] = ("PARTIAL in Lean. Theorems: the four list categories partition all parameter lists; every category has its public "
               "constructors incl. the allocator-extended one and each delegates with the arity of the private constructor; the "
               "availability table exempts only copies of move-only values and get_fixed_size without FixedSize. Well-formedness of "
               "C++ template bodies cannot be a Lean theorem: the finite matrix the property quantifies over (418 required cells from "
               "the Lean table x AlignAs on/off x 3 allocator kinds = 2508) is compiled cell by cell (-fsyntax-only explicit "
               "instantiation); thorough is exhaustive, quick compiles every required cell once with a rotating variant.")
TEXT["C07"] = ("Theorems on the ledger model of AllocatorAwarePointer (every vector and element reaches the allocator only through it): "
               "allocation records size and allocator and establishes ownership; deallocation of an owned block raises no ledger error "
               "(live, same size, equal allocator) and removes exactly that block; reallocation, copy and move assignment are clean for "
               "all trait combinations; destruction returns the data block. The full no-leak statement is FALSE for the code (offset "
               "table never freed): kept visible with a kernel-checked counter-witness, no_leak_partial proved instead; the check "
               "reports it as KNOWN-FINDING. Correspondence: ledger stream (serials, sizes, allocator ids) per operation and final ledger.")
TEXT["C08"] = ("Theorems: copy construction takes select_on_container_copy_construction; copy/move assignment and swap take the source's "
               "allocator exactly when POCCA/POCMA/POCS; ownership (block allocated by an allocator equal to the held one) is preserved, for "
               "swap under the standard's precondition; move assignment between unequal non-propagating allocators keeps the target's "
               "allocator, leaves the source its block and transfers element-wise. Correspondence: get_allocator ids and block owners "
               "after every operation under all ten trait combinations.")
TEXT["C17"] = ("Theorems quantified over the fault position (Heap.fail = some k for every k): a throwing allocation leaves the ledger "
               "untouched; allocate-then-free leaves the pointer owning its block; data-block + offset-table allocation returns the first "
               "block when the second throws; construction, reserve and copy construction under a fault leave all vectors and the ledger "
               "unchanged. Correspondence: operations executed with the 1st or 2nd allocation failing, operands then dumped, reused and "
               "torn down under ledger and lifetime monitors. PARTIAL: copy/move assignment of vectors and elements under faults are "
               "covered by the correspondence run only; ContiguousElement copy assignment is not exception safe for non-trivial types "
               "(recorded, see DESIGN.md).")
NOTE = ("Trusted: Lean 4.33 kernel; axioms propext/Classical.choice/Quot.sound only (audited on every run); the correspondence "
        "harness, generator and runner; g++ 12.2 + ASan/UBSan. Modelled, not verified: allocator, value types, std algorithms, "
        "no size_t overflow, user preconditions (DESIGN.md §8).")
NOT_YET = {}


def main():
    claimed = [p for p in sorted(TEXT) if p in props.THEOREMS]
    checks = []
    for p in claimed:
        checks.append({
            "property_id": p,
            "quick_cmd": "./check %s --tier quick" % p,
            "thorough_cmd": "./check %s --tier thorough" % p,
            "evidence_file": "/verif/evidence/%s.json" % p,
            "replay_cmd_template": "./check %s --replay {path}" % p,
            "engine": "lean-proof+correspondence",
            "level_claimed": {"category": "proof", "text": TEXT[p], "design_ref": "DESIGN.md §6 " + p},
            "level_note": NOTE,
            "technique": "Lean 4 theorems over an executable model + differential correspondence check against the real library",
        })
    allp = ["C%02d" % i for i in range(1, 21)]
    na = [{"property_id": p, "reason": NOT_YET.get(p, "check under construction in this round: model/correspondence exist or are being built, "
                                                   "but the property theorems are not yet proved, so it is not claimed yet")}
          for p in allp if p not in claimed]
    m = {
        "version": 1,
        "setup_cmd": "cd /verif && ./setup.sh",
        "hooks": {"guard": "CNTGS_VERIF_HOOKS", "enable": "harness translation units are compiled with -DCNTGS_VERIF_HOOKS against /repo/src",
                  "baseline_off_cmd": "cd /repo && cmake --build _build -j16 -- -k 0 ; ctest --test-dir /repo/_build -j8 --timeout 900",
                  "source_commits": ["b2b3304"], "add_only": True},
        "engines": [{"name": "lean-proof+correspondence", "path": "/verif/check", "serves_properties": claimed,
                     "kind_free_text": "Lean 4 model + theorems (lean/), C++ differential harness (harness/), generator/runner (tools/)"}],
        "checks": checks,
        "not_applicable": na,
        "notes": "See DESIGN.md. known_findings.json lists genuine defects that are recorded rather than repaired.",
    }
    with open(os.path.join(ROOT, "MANIFEST.json"), "w") as f:
        json.dump(m, f, indent=1)


if __name__ == "__main__":
    main()
