#!/usr/bin/env python3
"""Regenerates MANIFEST.json from the registry below (kept in one place so it stays valid)."""
import json
import os
import sys

ROOT = os.path.dirname(os.path.dirname(os.path.abspath(__file__)))
sys.path.insert(0, os.path.join(ROOT, "tools"))
import props  # noqa: E402

TEXT = {
    "C03": ("Theorems over all well-formed parameter lists, all counts and every storage-aligned start: the address walk of "
            "the code equals the greedy aligned placement (induction over the list with the bracket/trailing-claim invariant), "
            "hence every object is A-aligned, the next element start is storage-aligned and relocation by multiples of the "
            "storage alignment keeps the layout. Tied to the code by the correspondence run (addresses of every object of every "
            "element after every operation, compile-time tables through the guarded hook) and an absolute-address alignment "
            "monitor with an allocator that returns exactly-aligned blocks."),
    "C04": ("Theorems: fields ordered and non-overlapping inside their element, span byte sizes equal sizeof*count, first field at "
            "the element start, element extent; for all lists/counts/starts. Correspondence: every start/end of every field of "
            "every element, data_begin/data_end, iterator.data(), with order/overlap monitors on real addresses."),
    "C05": ("Theorems: placement is the greedy (lowest aligned address) placement for fields and for element starts; allocation "
            "rounding wastes less than one unit. Correspondence: addresses against an independent greedy layout in the harness, "
            "memory_consumption against the ledger's byte counts."),
}
TEXT["C13"] = ("Theorems on the comparison model as coded (run tables split at padding, FixedSize sizes compared first, span equality, size "
               "and fixed-size checks of the vector paths): for EVERY parameter list reference/element equality with equal field sizes holds "
               "exactly for equal field values (the little-endian object representation is injective on values that fit the type, a memcmp "
               "over a run decides exactly the field-wise equality over the run, the run table covers every field exactly once), FixedSize "
               "fields of different sizes are never equal in either direction, equality is reflexive and symmetric, != is the negation; "
               "vectors on the element-wise path are equal exactly when they hold the same number of elements with equal field sizes and "
               "values, on the element-wise path and on the whole-buffer path alike (there: for equal fixed sizes; different fixed sizes are never "
               "equal). Correspondence: all six operators on every operand kind over a two-value "
               "domain, vectors built with different fixed sizes, junk-filled memory, oracle monitor.")
TEXT["C14"] = ("Theorems: >, <=, >= are defined from < as the property states; element < (a conjunction of strict orders over "
               "parameters/memcmp runs) is irreflexive, asymmetric and transitive for every parameter list; vector < is irreflexive and "
               "asymmetric on both code paths, a strict weak order on the whole-buffer path, and the lexicographical comparison under "
               "element < on BOTH paths (whole-buffer path: bytes of equal-sized elements, single memcmp run). Transitivity of vector < on the element-wise path is FALSE for the code: the full "
               "statement is kept with a kernel-checked counter-witness (known finding; the repair is rejected by an existing test). "
               "Correspondence: all operators, operand kinds, triples for transitivity over a two-value domain.")
TEXT["C01"] = ("Refinement theorems, unbounded in history length: for every well-formed parameter list, every sequence of emplace_back / "
               "pop_back / erase(position) / erase(range) / clear / reserve that respects the preconditions maps the canonical layout of the "
               "element sequence to the canonical layout of the sequence an ordinary list holds after the same operations, so size(), empty(), "
               "capacity() and every field read through the locator agree; erase returns the follower. Lists without VaryingSize (stride "
               "locator): all value types, both relocation paths. Lists with VaryingSize (offset-table locator): memmove path in full; "
               "element-wise path (non-trivial types) under the condition that no erase relocates an element over its own storage. "
               "PARTIAL by exactly that condition: where it fails the code is wrong (known finding, kernel-checked counter-witness). "
               "Correspondence: long random histories on every list category x value-type category, every field of every element after "
               "every operation.")
TEXT["C02"] = ("Theorems for every well-formed parameter list, all alignments, fixed sizes and every distribution of the varying sizes: "
               "calculate_element_size over-approximates the real extent of every element (induction over the size fold with the "
               "invariant 'real address = m*bracket + offset', worst-case padding where the bracket is too small; exact without "
               "VaryingSize), hence a block constructed or reserved for N elements and B payload bytes contains every element of any "
               "sequence of at most N elements with at most B payload bytes, data_end() included (both locators), along every history. "
               "Table-slot reads of erase/clear/data() are covered by the correspondence run (ASan, guard zones, junk-filled fresh "
               "memory), as is the tie of the size formulas to the code (element size/stride/memory_consumption compared on every "
               "construction and reserve; blocks filled to exactly N and B in many residue patterns).")
TEXT["C06"] = ("Theorems over the live-record model of the block: after every history the live records are exactly the logically held "
               "elements, pairwise disjoint, and no operation ever constructed over a live record or relocated from a dead one (poison flag "
               "never raised) - for all value types on the stride locator; on the offset-table locator for the memmove path and, for "
               "non-trivial types, for every history in which no erase relocates an element over its own storage; moved-from vectors hold "
               "nothing. Without that condition the statement is FALSE for the code: kernel-checked counter-witness (known finding). "
               "Correspondence: instrumented value type keyed by address (construct/destroy/assign/read callbacks, address-dependent "
               "canary) over histories, assignments between unequal allocators and elements.")
TEXT["C09"] = ("Refinement theorem for the whole multi-vector interface (WorldProofs.history_refines): after any history of constructions, "
               "in-place operations, copy/move constructions, copy/move assignments, swaps and destructions over any number of vectors "
               "(preconditions respected; allocation failures are C17) every vector represents exactly the plain sequence the same history "
               "produces on a map from names to plain sequences; moved-from vectors are empty; nothing live is clobbered. Per-operation "
               "theorems: copy construction/assignment give the target the source's size, fixed sizes, capacity and values and leave the "
               "source and all other vectors unchanged; move construction/assignment (stealing and element-wise branch); swap; "
               "self-assignment/self-swap; independence of in-place operations; copies are in canonical layout. All value types: after an "
               "element-wise move assignment the source keeps elements of the same field sizes holding moved-from values. A moved-from "
               "vector is an empty vector without capacity and may be the source of every operation. Correspondence: assignment/swap/copy/move matrix over states (empty, zero-capacity, partly "
               "filled, full, moved-from), different fixed sizes and allocator relationships, both operands observed afterwards.")
TEXT["C10"] = ("Theorems: reserve within capacity is the identity on the whole state; capacity afterwards is max(capacity, n); size, fixed "
               "sizes and every element are unchanged at every fill level (both locators), also under repeated reserves; after a reserve beyond "
               "capacity any n elements with b payload bytes fit the new block (C02.reserve_room). Correspondence: reserves at every fill level with shrinking and growing budgets "
               "followed by fills to the new limits under the guard-zone allocator.")
TEXT["C16"] = ("Theorems: emplace_back, pop_back, clear keep the offset of every stored element, erase keeps the offsets in front of the "
               "erased position (both relocation paths), none of them changes the block, the table or the capacity or touches the allocator "
               "ledger; reserve within capacity changes nothing; swap and move construction leave the ledger untouched and hand over the "
               "block itself; capacity changes only by reserve beyond capacity. Correspondence: absolute addresses of all objects and "
               "allocation counters before/after every operation.")
TEXT["C18"] = ("Theorems for an arbitrary content of fresh bookkeeping memory (junk): fresh, zero-capacity, default-constructed and emptied "
               "vectors show size 0, no elements, data_begin == data_end; clear / erase(begin,end) / reserve on them are defined and keep them "
               "empty; observations of any history do not depend on the junk; afterwards the history theorems apply. PARTIAL where it rests "
               "on C01's memmove-path restriction. Correspondence: histories starting from default-constructed and zero-capacity vectors "
               "with allocator-controlled junk.")
TEXT["C07"] = ("Ownership theorem on whole histories (OwnProofs): starting from nothing, after any history of constructions, in-place "
               "operations, reserves, copy/move constructions, copy/move assignments, swaps and destructions over any number of vectors, "
               "whichever allocations throw, the ledger has recorded no double free, no free with a wrong size and no free through an "
               "unequal allocator, every vector owns a live block of exactly its recorded size from an allocator equal to its own, no block "
               "has two owners, every live data block has an owner, and once all vectors are destroyed no data block is live "
               "(invariant WOwn preserved by every operation); the same for histories that mix vector operations with all operations on "
               "standalone ContiguousElements, every vector and element being an owner (ElemOwnProofs). Pointer-level theorems for allocation, release, reallocation and both "
               "assignments. The statement is FALSE for the offset table of VaryingSize vectors: kernel-checked counter-witness (known "
               "finding). Correspondence: ledger allocator that checks allocator identity, size and alignment on every deallocate and "
               "guard zones of every live block after every operation, over the assignment matrix and element operations.")
TEXT["C08"] = ("Theorems: which allocator each vector holds after copy construction (select_on_container_copy_construction), copy/move "
               "assignment and swap under every propagation trait combination, and that move assignment between unequal non-propagating "
               "allocators allocates from the target's allocator. Correspondence: 10 trait combinations x operations, allocator ids observed.")
TEXT["C11"] = ("Theorems: reference assignment copies/moves every field and leaves (copy) the source unchanged, swap exchanges and is an "
               "involution, iterator arithmetic (+, -, difference, ordering, trichotomy) is that of indices; run tables cover every "
               "parameter exactly once. Correspondence: reference and iterator operations on tracked and trivial types with canaries.")
TEXT["C12"] = ("Theorems on the standalone element model: construction from a reference copies values and sizes, assignments with fixed and "
               "varying sizes, move, swap, conversion back to a reference, the allocator-extended copy and move constructors (equal and "
               "unequal allocators), independence from the source vector. Correspondence: element stream (construct/assign/move/swap/"
               "compare, allocator-extended construction, allocator propagation) under the ledger allocator and lifetime monitor.")
TEXT["C15"] = ("Theorems: the memcpy shortcut is taken only when the conversion keeps the bytes (then the stored value is the converted "
               "value), otherwise element-wise conversion; lvalue sources are not moved from, rvalue sources are. Correspondence: "
               "emplace matrix (source category x value category x iterator kind) with move counters.")
TEXT["C17"] = ("Theorems with the fault position universally quantified: a throwing allocation leaves the ledger unchanged; reallocate and "
               "the pointer's copy assignment give the strong guarantee; block+table allocation returns the first block when the second "
               "throws; construction, reserve, copy construction and move assignment under fault leave every vector and the ledger exactly "
               "as before; copy assignment under fault leaves the source and all other vectors unchanged and the target a valid empty vector "
               "that owns its block (basic guarantee), without ledger errors; and the refinement of whole histories in which any allocation may throw "
               "and the caller goes on (history_with_allocation_failures): every vector keeps representing a plain sequence; construction and copy "
               "assignment of a standalone element under fault leave every element, every vector and the ledger as they were. Offset-table leak of lists with VaryingSize: known finding "
               "(C07). Correspondence: systematic fault matrix (every allocation index of every operation) plus random faults, with "
               "liveness reads afterwards, and the same matrix for every allocating construction/assignment of a ContiguousElement.")
TEXT["C19"] = ("Theorems on the access model: const operations write nothing of the shared state, copying reads only, so any schedule of const "
               "operations observes the same values; the same for standalone elements (copying a const element never writes it). PARTIAL: memory-model behaviour of real threads cannot be exhibited by the model; "
               "supported by executing every const operation with the vectors and elements, their blocks and tables mapped read-only (a write faults) and a "
               "TSan run of 16 concurrent readers.")
TEXT["C20"] = ("Theorems: the list categories partition all lists, constructor dispatch and operation availability are functions of the "
               "category and value-type traits as documented. Correspondence: every cell of the category x value category x allocator matrix "
               "is compiled (-fsyntax-only) and compared with the model's availability table.")
NOTE = ("Trusted: Lean 4.33 kernel; axioms propext/Classical.choice/Quot.sound only (audited on every run); the correspondence "
        "harness, generator and runner; g++ 12.2 + ASan/UBSan. Modelled, not verified: allocator, value types, std algorithms, "
        "no size_t overflow, user preconditions (DESIGN.md §8).")
NOT_YET = {}


def main():
    claimed = [p for p in sorted(TEXT) if p in props.THEOREMS]
    checks = []
    for p in claimed:
        checks.append({
            "property_id": p,
            "quick_cmd": "./check %s --tier quick" % p,
            "thorough_cmd": "./check %s --tier thorough" % p,
            "evidence_file": "/verif/evidence/%s.json" % p,
            "replay_cmd_template": "./check %s --replay {path}" % p,
            "engine": "lean-proof+correspondence",
            "level_claimed": {"category": "proof", "text": TEXT[p], "design_ref": "DESIGN.md §6 " + p},
            "level_note": NOTE,
            "technique": "Lean 4 theorems over an executable model + differential correspondence check against the real library",
        })
    allp = ["C%02d" % i for i in range(1, 21)]
    na = [{"property_id": p, "reason": NOT_YET.get(p, "check under construction in this round: model/correspondence exist or are being built, "
                                                   "but the property theorems are not yet proved, so it is not claimed yet")}
          for p in allp if p not in claimed]
    m = {
        "version": 1,
        "setup_cmd": "cd /verif && ./setup.sh",
        "hooks": {"guard": "CNTGS_VERIF_HOOKS", "enable": "harness translation units are compiled with -DCNTGS_VERIF_HOOKS against /repo/src",
                  "baseline_off_cmd": "cd /repo && cmake --build _build -j16 -- -k 0 ; ctest --test-dir /repo/_build -j8 --timeout 900",
                  "source_commits": ["676cd59"], "add_only": True},
        "engines": [{"name": "lean-proof+correspondence", "path": "/verif/check", "serves_properties": claimed,
                     "kind_free_text": "Lean 4 model + theorems (lean/), C++ differential harness (harness/), generator/runner (tools/)"}],
        "checks": checks,
        "not_applicable": na,
        "notes": "See DESIGN.md. known_findings.json lists genuine defects that are recorded rather than repaired.",
    }
    with open(os.path.join(ROOT, "MANIFEST.json"), "w") as f:
        json.dump(m, f, indent=1)


if __name__ == "__main__":
    main()
