"""Configuration and operation-sequence generators for the correspondence check (DESIGN.md §5.1).

Every random choice derives from one `random.Random(seed)`; a (profile, seed) pair replays exactly.
A configuration is a parameter list with concrete value types plus allocator traits; an operation
sequence is a list of protocol lines (Appendix A) that respects the documented preconditions.
"""
import random

CPP_TYPES = {
    "u8": "std::uint8_t", "u16": "std::uint16_t", "u32": "std::uint32_t", "u64": "std::uint64_t",
    "f32": "float", "f64": "double", "i8": "signed char",
}
SIZES = {"u8": 1, "u16": 2, "u32": 4, "u64": 8, "f32": 4, "f64": 8, "i8": 1}


def ty_size(ty):
    if ty in SIZES:
        return SIZES[ty]
    return int(ty[1:])


def cpp_type(ty):
    if ty in CPP_TYPES:
        return CPP_TYPES[ty]
    if ty[0] == "b":
        return "hv::Blob<%s>" % ty[1:]
    if ty[0] == "t":
        return "hv::Trk<%s>" % ty[1:]
    if ty[0] == "c":
        return "hv::Trc<%s>" % ty[1:]
    if ty[0] == "a":
        return "hv::Tra<%s>" % ty[1:]
    raise ValueError(ty)


COUNT_TYPES = ["u8", "u16", "u32", "u64"]
TRIVIAL_TYPES = ["u8", "u16", "u32", "u64", "f32", "b1", "b2", "b3", "b5", "b6", "b12", "b24", "i8"]
TRACKED_TYPES = ["t5", "t8", "t12", "t17"]
ALIGNS = [1, 1, 1, 2, 4, 8, 8, 16, 32]


class Cfg:
    def __init__(self, name, params, alloc="0000"):
        self.name = name
        self.params = params  # list of (kind, ty, al) kind in p,f,v
        self.alloc = alloc  # pocca pocma pocs ae

    def line(self):
        return "cfg %s alloc=%s params=%s" % (self.name, self.alloc, ",".join("%s:%s:%d" % p for p in self.params))

    def key(self):
        return self.alloc + "|" + ",".join("%s:%s:%d" % p for p in self.params)

    def cpp(self):
        kinds = {"p": "PLAIN", "f": "FIXED", "v": "VARYING"}
        a = ",".join("true" if c == "1" else "false" for c in self.alloc)
        ps = ", ".join("P<%s, %s, %d>" % (kinds[k], cpp_type(t), al) for (k, t, al) in self.params)
        return "Config<hv::Led<std::byte,%s>, %s>" % (a, ps)

    def category(self):
        nf = sum(1 for p in self.params if p[0] == "f")
        nv = sum(1 for p in self.params if p[0] == "v")
        if nf and nv:
            return "mixed"
        if nf:
            return "fixed"
        if nv:
            return "varying"
        return "plain"

    def tracked(self):
        return any(p[1][0] in "tc" for p in self.params)

    def nfixed(self):
        return sum(1 for p in self.params if p[0] == "f")

    def to_json(self):
        return {"name": self.name, "alloc": self.alloc, "params": [list(p) for p in self.params]}

    @staticmethod
    def from_json(d):
        return Cfg(d["name"], [tuple(p) for p in d["params"]], d.get("alloc", "0000"))


def random_cfg(rng, name, category=None, tracked=False, alloc="0000", maxlen=5):
    """structural draw: every category appears; alignments independent of the type, non-monotone"""
    category = category or rng.choice(["plain", "fixed", "varying", "mixed"])
    pool = TRIVIAL_TYPES + (TRACKED_TYPES * 2 if tracked else [])
    while True:
        n = rng.randint(1, maxlen)
        params = []
        kinds = []
        for _ in range(n):
            if category == "plain":
                kinds.append("p")
            elif category == "fixed":
                kinds.append(rng.choice("pff"))
            elif category == "varying":
                kinds.append(rng.choice("pvv"))
            else:
                kinds.append(rng.choice("pfv"))
        # a varying parameter needs a plain count parameter directly in front of it
        out = []
        for k in kinds:
            if k == "v":
                if not out or out[-1] != "p":
                    out.append("p")
                out.append("v")
            else:
                out.append(k)
        kinds = out[: maxlen + 2]
        if kinds and kinds[-1] == "p" and len(kinds) >= 2 and False:
            pass
        for i, k in enumerate(kinds):
            if k == "p" and i + 1 < len(kinds) and kinds[i + 1] == "v":
                ty = rng.choice(COUNT_TYPES)
            else:
                ty = rng.choice(pool)
            params.append((k, ty, rng.choice(ALIGNS)))
        c = Cfg(name, params, alloc)
        if c.category() != category:
            continue
        if tracked and not c.tracked():
            continue
        return c


def bracket_cfg(rng, name):
    """lists that drive the size fold into its worst-case branches: a low-aligned VaryingSize span leaves a small
    alignment bracket, then come FixedSize / plain / VaryingSize parameters with a larger alignment (`alignment <
    ALIGNMENT` in aligned_size_in_memory), with sizes of different low bits, then an optional tail"""
    low = rng.choice([1, 1, 2, 4])
    params = [("p", rng.choice(COUNT_TYPES), rng.choice([1, 2, 4, 8])),
              ("v", rng.choice(["b1", "b2", "b3", "u16", "f32", "b5", "b6"]), low)]
    for _ in range(rng.randint(1, 2)):
        hi = rng.choice([a for a in (2, 4, 8, 16, 32) if a > low])
        kind = rng.choice("ffpv")
        if kind == "v":
            params.append(("p", rng.choice(COUNT_TYPES), rng.choice([1, low])))
            params.append(("v", rng.choice(["f32", "u64", "b12", "b24", "u32"]), hi))
        else:
            params.append((kind, rng.choice(["u32", "b12", "b5", "u64", "f32", "b3", "b6", "u16"]), hi))
    if rng.random() < 0.6:
        params.append(("p", rng.choice(TRIVIAL_TYPES), rng.choice(ALIGNS)))
    return Cfg(name, params)


# corpus: the typedefs of test/utils/typedefs.hpp, the lists of test-vector-alignment.cpp, past failures
CORPUS = [
    Cfg("plain", [("p", "u32", 1), ("p", "f32", 1)]),
    Cfg("onefixed", [("p", "u32", 1), ("f", "f32", 1)]),
    Cfg("twofixed", [("f", "f32", 1), ("p", "u32", 1), ("f", "f32", 1)]),
    Cfg("onevarying", [("p", "u32", 1), ("v", "f32", 1)]),
    Cfg("twovarying", [("p", "u32", 1), ("v", "f32", 1), ("p", "u32", 1), ("v", "f32", 1)]),
    Cfg("mixed", [("f", "f32", 1), ("p", "u32", 1), ("v", "f32", 1)]),
    Cfg("alignedfixed", [("p", "u32", 1), ("f", "f32", 32)]),
    Cfg("alignedvarying", [("p", "u8", 1), ("v", "f32", 16), ("p", "u32", 8)]),
    Cfg("c02witness", [("p", "u64", 8), ("v", "b1", 1), ("p", "b2", 1)]),
    Cfg("nonmono", [("f", "b12", 16), ("p", "u16", 2), ("v", "b3", 4), ("p", "b5", 8)]),
    # the suite's typedefs (test/utils/typedefs.hpp) and the lists of test-vector-alignment.cpp, type for type
    Cfg("s-OneVarying", [("p", "u32", 1), ("p", "u64", 8), ("v", "f32", 1)]),
    Cfg("s-TwoVarying", [("p", "u32", 1), ("p", "u64", 8), ("v", "f32", 1), ("p", "u64", 8), ("v", "f32", 1)]),
    Cfg("s-OneFixedOneVarying", [("f", "f32", 1), ("p", "u32", 1), ("p", "u64", 8), ("v", "f32", 1)]),
    Cfg("s-OneFixedUniquePtr", [("f", "t8", 1), ("p", "t8", 1)]),
    Cfg("s-OneVaryingUniquePtr", [("p", "u64", 8), ("v", "t8", 1), ("p", "t8", 1)]),
    Cfg("s-PlainAligned", [("p", "u8", 1), ("p", "u32", 8)]),
    Cfg("s-OneVaryingAligned", [("p", "u64", 8), ("v", "f32", 16), ("p", "u32", 1)]),
    Cfg("s-TwoVaryingAligned", [("p", "u32", 1), ("p", "u64", 8), ("v", "f32", 8), ("p", "u64", 8), ("v", "f32", 16)]),
    Cfg("s-TwoFixedAligned", [("f", "f32", 8), ("p", "u32", 16), ("f", "f32", 1)]),
    Cfg("s-TwoFixedAlignedAlt", [("f", "f32", 32), ("f", "u32", 1), ("p", "u32", 1)]),
    Cfg("s-align-210", [("p", "u64", 8), ("v", "f32", 16), ("p", "u32", 1), ("f", "b16", 16)]),
    Cfg("s-align-229", [("p", "u64", 8), ("v", "f64", 8), ("p", "b12", 1), ("p", "f32", 16)]),
    Cfg("s-align-249", [("p", "f64", 1), ("p", "u64", 8), ("v", "b16", 8), ("p", "b12", 1), ("p", "f32", 16)]),
    Cfg("s-align-269", [("p", "b16", 1), ("p", "u64", 8), ("v", "b32", 16), ("p", "f32", 32)]),
    Cfg("s-align-287", [("p", "u64", 8), ("v", "b4", 1), ("p", "b12", 1), ("p", "u64", 8), ("v", "b32", 16), ("p", "f32", 32)]),
    Cfg("s-align-306", [("p", "f64", 1), ("p", "u64", 8), ("v", "b16", 16), ("p", "f32", 16)]),
    Cfg("bracket-fixed", [("p", "u64", 8), ("v", "f32", 1), ("f", "u32", 8), ("p", "u64", 8)]),
    Cfg("bracket-plain", [("p", "u32", 4), ("v", "b3", 1), ("p", "b12", 8), ("p", "u16", 2)]),
    Cfg("bracket-varying", [("p", "u16", 2), ("v", "b1", 1), ("p", "u8", 1), ("v", "u64", 16), ("p", "b5", 4)]),
    Cfg("trk-fixed", [("p", "u32", 1), ("f", "t12", 1)]),
    Cfg("trk-varying", [("p", "u8", 1), ("v", "t5", 1), ("p", "t8", 4)]),
    Cfg("trk-mixed", [("f", "t12", 16), ("p", "u16", 2), ("v", "b3", 4), ("p", "t5", 8)]),
    # non-trivial types whose elements do NOT end on a multiple of the storage alignment: the element-wise relocation of
    # erase has to re-align every relocated element itself
    Cfg("trk-tail-varying", [("p", "t8", 8), ("p", "u64", 8), ("v", "b1", 1)]),
    Cfg("trk-tail-odd", [("p", "u16", 2), ("v", "t5", 1), ("p", "b3", 1)]),
    Cfg("trk-tail-aligned16", [("p", "u32", 4), ("v", "t12", 16), ("p", "b5", 1)]),
    Cfg("trk-fixed-tail", [("f", "t5", 1), ("p", "u32", 4), ("p", "b3", 1)]),
    # value types whose CONSTRUCTORS are user-provided while assignment is trivial: relocation must construct, assignment may memmove
    Cfg("trc-fixed", [("p", "u32", 1), ("f", "c8", 1)]),
    Cfg("trc-mixed-trivial", [("p", "u32", 4), ("p", "c8", 1), ("f", "f32", 1), ("f", "c12", 1)]),
    Cfg("trc-varying", [("p", "u8", 1), ("v", "c5", 1), ("p", "c8", 4)]),
    # value types whose ASSIGNMENT is user-provided while construction and destruction are trivial: relocation may memcpy,
    # assignment and swap of stored objects must call the operators
    Cfg("tra-fixed", [("p", "u32", 1), ("f", "a8", 1)]),
    Cfg("tra-mixed", [("f", "a8", 1), ("p", "a4", 4), ("p", "u8", 1), ("v", "u8", 1)]),
]


class Spec:
    """the plain-sequence view of one vector, used to keep generated operations within the preconditions"""

    def __init__(self, cap, budget, fixed):
        self.cap, self.budget, self.fixed = cap, budget, fixed
        self.elems = []  # list of (vals, payload_bytes)
        self.moved = False
        self.alloc = 0

    def payload(self):
        return sum(e[1] for e in self.elems)


def gen_elem(rng, cfg, fixed, max_count, left_bytes, same_counts=None, vmax=250, domain=None):
    """values of one element; returns (text, payload bytes, varying counts)"""
    vals = []
    payload = 0
    fi = 0
    counts = []
    # choose varying counts first (count parameters must hold them)
    vcounts = {}
    for i, (k, ty, al) in enumerate(cfg.params):
        if k == "v":
            sz = ty_size(ty)
            mx = min(max_count, (left_bytes - payload) // sz)
            if same_counts is not None and len(same_counts) > len(vcounts):
                c = same_counts[len(vcounts)]  # the caller checks the budget
            else:
                c = min(rng.randint(0, max(0, mx)), max(0, mx))
            vcounts[i] = c
            payload += c * sz
    pick = (lambda: rng.choice(domain)) if domain else (lambda: rng.randint(1, vmax))
    for i, (k, ty, al) in enumerate(cfg.params):
        if k == "p":
            if i + 1 < len(cfg.params) and cfg.params[i + 1][0] == "v":
                vals.append([vcounts[i + 1]])
            else:
                vals.append([pick()])
        elif k == "f":
            vals.append([pick() for _ in range(fixed[fi])])
            fi += 1
        else:
            vals.append([pick() for _ in range(vcounts[i])])
            counts.append(vcounts[i])
    text = ";".join(",".join(map(str, v)) if v else "-" for v in vals)
    return text, payload, counts


def fixed_text(fixed):
    return ",".join(map(str, fixed)) if fixed else "-"


def gen_history(rng, cfg, length, weights=None, equal_sizes=False, allocs=(1,), multi=False, max_count=9, faults=False, defaults=False):
    """one operation sequence on up to three vectors"""
    w = {"emplace": 10, "pop": 2, "erase": 3, "eraser": 2, "clear": 1, "reserve": 2, "dump": 0,
         "copy": 0, "move": 0, "copyassign": 0, "moveassign": 0, "swap": 0, "destroy": 0, "new": 0}
    if multi:
        w.update({"copy": 2, "move": 1, "copyassign": 2, "moveassign": 2, "swap": 1, "destroy": 1, "new": 1})
    if weights:
        w.update(weights)
    lines = ["tables"]
    specs = {}
    same = None

    def new_vec(k):
        nonlocal same
        if defaults and any(p[0] == "p" for p in cfg.params) and rng.random() < 0.25:
            # default-constructed: capacity 0, no block, every fixed size 0
            lines.append("newdef v%d" % k)
            specs[k] = Spec(0, 0, [0] * cfg.nfixed())
            specs[k].alloc = 0
            return
        fixed = [rng.choice([0, 1, 2, 3, 5]) for _ in range(cfg.nfixed())]
        if not any(p[0] == "p" for p in cfg.params) and sum(fixed) == 0:
            fixed[0] = 1  # zero-sized elements hold no object; the model excludes them (DESIGN.md §8)
        cap = rng.choice([0, 1, 2, 3, 4, 6])
        budget = rng.choice([0, 8, 24, 64, 150]) if cfg.category() in ("varying", "mixed") else 0
        a = rng.choice(allocs)
        lines.append("new v%d %d %d %s %d" % (k, cap, budget, fixed_text(fixed), a))
        specs[k] = Spec(cap, budget, fixed)
        specs[k].alloc = a

    new_vec(0)
    ops = [o for o in w if w[o] > 0]
    nslots = 6 if faults else 3
    burned = set()      # names whose construction may have thrown: never used again
    for _ in range(length):
        inject = False
        try:
            op = rng.choices(ops, [w[o] for o in ops])[0]
            live = [k for k in specs if not specs[k].moved and not getattr(specs[k], "uncertain", False)]
            inject = faults and op in ("new", "reserve", "copy", "copyassign", "moveassign") and rng.random() < 0.6
            if inject and live:
                # fail the 1st or 2nd allocation of this operation; the outcome is treated as unknown afterwards
                before = len(lines)
                pre_specs = set(specs)
                lines.append("failat %d" % rng.choice([0, 0, 1]))
                marker = len(lines)
            else:
                inject = False
            if op == "new":
                free = [k for k in range(nslots) if k not in specs and k not in burned]
                if free:
                    new_vec(free[0])
                continue
            if not live:
                continue
            k = rng.choice(live)
            s = specs[k]
            if op == "emplace":
                if len(s.elems) >= s.cap:
                    # grow instead, as a user would
                    n = s.cap + rng.choice([1, 2, 3])
                    b = s.budget + rng.choice([0, 16, 40])
                    lines.append("reserve v%d %d %d" % (k, n, b))
                    s.cap, s.budget = n, b
                if equal_sizes and same is None:
                    _, _, same = gen_elem(rng, cfg, s.fixed, 4, 10 ** 9)
                text, pay, _ = gen_elem(rng, cfg, s.fixed, max_count, s.budget - s.payload(), same if equal_sizes else None)
                if equal_sizes and pay + s.payload() > s.budget:
                    continue
                lines.append("emplace v%d %s" % (k, text))
                s.elems.append((text, pay))
            elif op == "pop":
                if s.elems:
                    lines.append("pop v%d" % k)
                    s.elems.pop()
            elif op == "erase":
                if s.elems:
                    i = rng.randrange(len(s.elems))
                    lines.append("erase v%d %d" % (k, i))
                    del s.elems[i]
            elif op == "eraser":
                i = rng.randint(0, len(s.elems))
                j = rng.randint(i, len(s.elems))
                lines.append("eraser v%d %d %d" % (k, i, j))
                del s.elems[i:j]
            elif op == "clear":
                if multi and rng.random() < 0.3:
                    k = rng.choice(list(specs))  # moved-from vectors can be cleared too
                    s = specs[k]
                lines.append("clear v%d" % k)
                s.elems = []
            elif op == "reserve":
                n = rng.choice([0, s.cap, s.cap + 1, s.cap + 3, max(0, s.cap - 1)])
                if n > s.cap:
                    # any budget that still covers the stored payload is allowed: smaller than before, equal, larger
                    b = rng.choice([s.payload(), s.payload() + rng.choice([0, 1, 8]), s.budget, s.budget + rng.choice([0, 16, 64])])
                    b = max(b, s.payload())
                else:
                    b = rng.choice([0, s.budget, s.budget + 8])
                lines.append("reserve v%d %d %d" % (k, n, b))
                if n > s.cap and not inject:
                    s.cap, s.budget = n, b
            elif op in ("copy", "move"):
                free = [d for d in range(nslots) if d not in specs and d not in burned]
                if not free:
                    continue
                d = free[0]
                lines.append("%s v%d v%d" % (op, k, d))
                specs[d] = Spec(s.cap, s.budget, list(s.fixed))
                specs[d].elems = list(s.elems)
                specs[d].alloc = s.alloc if op == "move" else (s.alloc + 1 if s.alloc >= 100 else s.alloc)
                if op == "move":
                    # a moved-from vector is an empty vector without capacity (same fixed sizes, same allocator) and goes on
                    # being used like any other: as source and target of every operation, reserved, filled
                    s.elems = []
                    s.cap, s.budget = 0, 0
            elif op in ("copyassign", "moveassign", "swap"):
                others = [d for d in specs]
                d = rng.choice(others)
                t = specs[d]
                pocca, pocma, pocs, ae = [c == "1" for c in cfg.alloc]
                if op == "swap":
                    # allocator-aware swap requires equal allocators unless they propagate (standard precondition)
                    if not (pocs or ae or s.alloc == t.alloc):
                        continue
                    lines.append("swap v%d v%d" % (k, d))
                    specs[k], specs[d] = t, s
                    if not pocs:
                        s.alloc, t.alloc = t.alloc, s.alloc
                elif op == "copyassign":
                    lines.append("copyassign v%d v%d" % (k, d))
                    if d != k and pocca:
                        t.alloc = s.alloc
                    if d != k:
                        t.cap, t.budget, t.fixed, t.elems, t.moved = s.cap, s.budget, list(s.fixed), list(s.elems), False
                else:
                    lines.append("moveassign v%d v%d" % (k, d))
                    if d != k and pocma:
                        t.alloc = s.alloc
                    if d != k:
                        steals = ae or pocma or s.alloc == t.alloc
                        t.cap, t.budget, t.fixed, t.elems, t.moved = s.cap, s.budget, list(s.fixed), list(s.elems), False
                        if steals:
                            s.elems = []
                            s.cap, s.budget = 0, 0   # moved-from: empty, no capacity; stays in use
                        # element-wise branch: the source keeps its (moved-from) elements and its capacity
            elif op == "destroy":
                if len(specs) > 1:
                    lines.append("destroy v%d" % k)
                    del specs[k]
            elif op == "dump":
                lines.append("dump v%d" % k)
        finally:
            if inject:
                if len(lines) == marker:
                    lines.pop()  # nothing was emitted
                else:
                    emitted = lines[marker:]
                    lines.append("failoff")
                    for l in emitted:
                        t = l.split()
                        if t[0] in ("new", "copy"):
                            name = int(t[1][1:]) if t[0] == "new" else int(t[2][1:])
                            specs.pop(name, None)
                            burned.add(name)
                        elif t[0] in ("copyassign", "moveassign"):
                            for nm in (int(t[1][1:]), int(t[2][1:])):
                                if nm in specs and t[1] != t[2]:
                                    specs[nm].uncertain = True
                                    specs[nm].elems = []
                        elif t[0] == "reserve":
                            pass
                    # a reserve emitted inside an emplace step: drop the emplace bookkeeping is already conservative
            if faults:
                # uncertain vectors may still be cleared, dumped, destroyed or assigned to
                for nm in [x for x in specs if getattr(specs[x], "uncertain", False)]:
                    r = rng.random()
                    if r < 0.15:
                        lines.append("clear v%d" % nm)
                    elif r < 0.25:
                        lines.append("dump v%d" % nm)
                    elif r < 0.35 and len(specs) > 1:
                        lines.append("destroy v%d" % nm)
                        del specs[nm]
                    elif r < 0.5:
                        srcs = [x for x in specs if x != nm and not specs[x].moved and not getattr(specs[x], "uncertain", False)]
                        if srcs:
                            s0 = rng.choice(srcs)
                            lines.append("copyassign v%d v%d" % (s0, nm))
                            t0 = specs[nm]
                            ss = specs[s0]
                            t0.cap, t0.budget, t0.fixed, t0.elems, t0.moved, t0.uncertain = ss.cap, ss.budget, list(ss.fixed), list(ss.elems), False, False
                            if cfg.alloc[0] == "1":
                                t0.alloc = ss.alloc
    lines.append("end")
    return lines


# a small value domain (ties in leading fields); 200 has the top bit of a byte set: negative as a signed byte
CMP_DOMAIN = [1, 1, 2, 2, 200]


def gen_compare(rng, cfg, n_cmp):
    """three vectors with equal fixed sizes over a small value domain (ties in leading fields), then comparisons
    of every operand pair, interleaved with pops/erases so that spare capacity and old contents differ"""
    lines = ["tables"]
    fixed = [rng.choice([0, 1, 2]) for _ in range(cfg.nfixed())]
    if not any(p[0] == "p" for p in cfg.params) and sum(fixed) == 0:
        fixed[0] = 1
    sizes = {}
    fixed_of = {}
    elems_of = {}
    for k in range(3):
        cap = rng.choice([3, 4, 6])
        # the third vector is sometimes built with other fixed sizes: same bytes, other field sizes must not compare equal
        fx = list(fixed)
        if k == 2 and cfg.nfixed() and rng.random() < 0.5:
            fx = [rng.choice([0, 1, 2, 3]) for _ in fixed]
            if not any(p[0] == "p" for p in cfg.params) and sum(fx) == 0:
                fx[0] = 1
        # ... or with the same total split differently over adjacent FixedSize fields of one type: elements that hold the
        # same bytes of v0's elements, cut into fields of other sizes
        resplit = None
        if k == 2 and rng.random() < 0.5:
            fidx = [i for i, p in enumerate(cfg.params) if p[0] == "f"]
            adj = [(a, b) for a, b in zip(fidx, fidx[1:]) if b == a + 1 and cfg.params[a][1] == cfg.params[b][1] and cfg.params[b][2] == 1]
            if adj:
                a, b = rng.choice(adj)
                ia, ib = fidx.index(a), fidx.index(b)
                tot = fixed[ia] + fixed[ib]
                opts = [x for x in range(tot + 1) if x != fixed[ia]]
                if opts:
                    fx = list(fixed)
                    fx[ia] = rng.choice(opts)
                    fx[ib] = tot - fx[ia]
                    resplit = (a, b, fx[ia])
        fixed_of[k] = fx
        lines.append("new v%d %d %d %s 1" % (k, cap, 64, fixed_text(fx)))
        n = rng.choice([0, 1, 2, 2, 3])
        sizes[k] = 0
        for j in range(n):
            if resplit and j < len(elems_of.get(0, [])):
                vals = [list(v) for v in elems_of[0][j]]
                flat = vals[resplit[0]] + vals[resplit[1]]
                vals[resplit[0]], vals[resplit[1]] = flat[:resplit[2]], flat[resplit[2]:]
                text = ";".join(",".join(map(str, v)) if v else "-" for v in vals)
            else:
                text, pay, _ = gen_elem(rng, cfg, fx, 2, 20, domain=CMP_DOMAIN)
            elems_of.setdefault(k, []).append([[int(x) for x in f.split(",")] if f != "-" else [] for f in text.split(";")])
            lines.append("emplace v%d %s" % (k, text))
            sizes[k] += 1
    # an empty vector that never held anything (block serial numbers are compared, so it is created before the comparisons,
    # which allocate temporaries on the implementation side only)
    lines.append("new v4 %d 32 %s 1" % (rng.choice([0, 2]), fixed_text(fixed)))
    # make one vector a copy-by-value of another now and then (equal content in different memory)
    for _ in range(n_cmp):
        r = rng.random()
        a, b, c = rng.randrange(3), rng.randrange(3), rng.randrange(3)
        if r < 0.3:
            lines.append("cmpv v%d v%d" % (a, b))
        elif r < 0.4:
            lines.append("transv v%d v%d v%d" % (a, b, c))
        elif r < 0.75:
            if sizes[a] and sizes[b]:
                lines.append("cmpe v%d %d v%d %d" % (a, rng.randrange(sizes[a]), b, rng.randrange(sizes[b])))
        elif r < 0.9:
            if sizes[a] and sizes[b] and sizes[c]:
                lines.append("transe v%d %d v%d %d v%d %d" % (a, rng.randrange(sizes[a]), b, rng.randrange(sizes[b]), c, rng.randrange(sizes[c])))
        elif r < 0.95:
            if sizes[a]:
                lines.append("pop v%d" % a)
                sizes[a] -= 1
        else:
            if sizes[a] < 3:
                text, pay, _ = gen_elem(rng, cfg, fixed_of[a], 2, 8, domain=CMP_DOMAIN)
                lines.append("emplace v%d %s" % (a, text))
                sizes[a] += 1
    # a moved-from vector is an empty vector for every comparison, whatever its bookkeeping still holds
    m = rng.randrange(3)
    lines.append("move v%d v3" % m)
    for other in (0, 1, 2, 3, 4):
        lines.append("cmpv v%d v%d" % (m, other))
        lines.append("cmpv v%d v%d" % (other, m))
    lines.append("end")
    return lines


def gen_refiter(rng, cfg, n_ops):
    """two vectors whose elements all have equal field sizes; assignments/swaps through references and iterators,
    permuting algorithms, iterator arithmetic"""
    lines = ["tables"]
    fixed = [rng.choice([1, 2, 3]) for _ in range(cfg.nfixed())]
    _, pay0, same = gen_elem(rng, cfg, fixed, 3, 10 ** 9)
    sizes = {}
    for k in range(2):
        lines.append("new v%d %d %d %s 1" % (k, 5, 5 * pay0, fixed_text(fixed)))
        sizes[k] = 0
        for _ in range(rng.choice([2, 3, 4])):
            text, pay, _ = gen_elem(rng, cfg, fixed, 3, 10 ** 9, same)
            lines.append("emplace v%d %s" % (k, text))
            sizes[k] += 1
    for _ in range(n_ops):
        a, b = rng.randrange(2), rng.randrange(2)
        i, j = rng.randrange(sizes[a]), rng.randrange(sizes[b])
        op = rng.choice(["refassign", "refassignc", "refmove", "refswap", "iterswap", "rotate", "reverse", "swapranges", "iter", "refswap", "refassign"])
        if op in ("refassign", "refassignc", "refmove", "refswap", "iterswap"):
            lines.append("%s v%d %d v%d %d" % (op, a, i, b, j))
        elif op == "rotate":
            lines.append("rotate v%d %d" % (a, rng.randint(0, sizes[a])))
        elif op == "reverse":
            lines.append("reverse v%d" % a)
        elif op == "swapranges":
            lines.append("swapranges v0 v1 %d" % rng.randint(0, min(sizes[0], sizes[1])))
        else:
            lines.append("iter v%d" % a)
    # iterator objects that outlive a change of the vector's layout: v0 is assigned a vector with other fixed sizes that
    # fits into v0's block (the block stays, stride and field sizes change), is reserved, swapped - and after each step the
    # held iterators are assigned from the current ones and dereferenced
    fixed2 = [max(1, f - 1) if f > 1 else f + 1 for f in fixed]
    _, pay2, same2 = gen_elem(rng, cfg, fixed2, 1, 10 ** 9)
    lines.append("iter v0")
    lines.append("new v2 2 %d %s 1" % (2 * pay2, fixed_text(fixed2)))
    for _ in range(2):
        lines.append("emplace v2 %s" % gen_elem(rng, cfg, fixed2, 1, 10 ** 9, same2)[0])
    lines += ["copyassign v2 v0", "iter v0", "reserve v0 6 %d" % (6 * max(pay2, 1) + 64), "iter v0", "swap v0 v1", "iter v0", "iter v1",
              "moveassign v1 v2", "iter v2"]
    lines.append("end")
    return lines


def gen_element(rng, cfg, n_ops):
    """standalone elements: construction from references (copy and move), copy/move construction, both
    assignments between elements of different varying sizes and allocators, swap, assignment back to references"""
    lines = ["tables"]
    fixed = [rng.choice([1, 2, 3]) for _ in range(cfg.nfixed())]
    vshape = {}
    for k in range(2):
        lines.append("new v%d %d %d %s %d" % (k, 4, 300, fixed_text(fixed), rng.choice([1, 2])))
        vshape[k] = []
        for _ in range(3):
            text, pay, counts = gen_elem(rng, cfg, fixed, 4, 60)
            lines.append("emplace v%d %s" % (k, text))
            vshape[k].append(tuple(counts))
    eshape = {}   # element slot -> shape or None (moved-from)
    pocca, pocma, pocs, ae = [c == "1" for c in cfg.alloc]
    ealloc = {}
    fixed_cat = cfg.category() in ("fixed", "plain")
    for _ in range(n_ops):
        live = [k for k, s in eshape.items() if s is not None]
        op = rng.choice(["elem", "elemref", "elemmv", "elemcopy", "elemmove", "elemassign", "elemmassign", "elemswap", "elemtoref",
                         "elemtorefm", "elemfromref", "elemfromrefm", "elemdestroy", "elem", "elemassign", "elemmassign",
                         "elemcopya", "elemmovea"])
        if op in ("elem", "elemref", "elemmv"):
            k = rng.randrange(5)
            s, i = rng.randrange(2), rng.randrange(3)
            a = rng.choice([1, 2])
            lines.append("%s e%d v%d %d %d" % (op, k, s, i, a))
            eshape[k] = vshape[s][i]
            ealloc[k] = a
        elif op in ("elemcopy", "elemmove") and live:
            a = rng.choice(live)
            b = rng.choice([x for x in range(5) if x != a])
            lines.append("%s e%d e%d" % (op, a, b))
            eshape[b] = eshape[a]
            ealloc[b] = ealloc[a] if op == "elemmove" else (ealloc[a] + 1 if ealloc[a] >= 100 else ealloc[a])
            if op == "elemmove":
                eshape[a] = None
        elif op in ("elemcopya", "elemmovea") and live:
            # allocator-extended copy / move construction: equal and unequal allocators
            a = rng.choice(live)
            b = rng.choice([x for x in range(5) if x != a])
            al = rng.choice([1, 2])
            lines.append("%s e%d e%d %d" % (op, a, b, al))
            eshape[b] = eshape[a]
            if op == "elemmovea" and (ae or ealloc[a] == al):
                ealloc[b] = ealloc[a]
                eshape[a] = None
            else:
                ealloc[b] = al
        elif op in ("elemassign", "elemmassign") and live:
            a = rng.choice(live)
            b = rng.choice(list(eshape))
            steals = ae or pocma or ealloc.get(b) == ealloc.get(a)
            if a != b and eshape[b] is None and fixed_cat and not (op == "elemmassign" and steals):
                continue  # field-wise assignment needs live target storage
            lines.append("%s e%d e%d" % (op, a, b))
            if a != b:
                eshape[b] = eshape[a]
                if op == "elemassign" and pocca:
                    ealloc[b] = ealloc[a]
                if op == "elemmassign" and steals:
                    if pocma:
                        ealloc[b] = ealloc[a]
                    eshape[a] = None
        elif op == "elemswap" and len(live) >= 2:
            a, b = rng.sample(live, 2)
            if not (pocs or ae or ealloc[a] == ealloc[b]):
                continue
            lines.append("elemswap e%d e%d" % (a, b))
            eshape[a], eshape[b] = eshape[b], eshape[a]
            if pocs:
                ealloc[a], ealloc[b] = ealloc[b], ealloc[a]
        elif op in ("elemtoref", "elemtorefm", "elemfromref", "elemfromrefm") and live:
            k = rng.choice(live)
            cands = [(s, i) for s in range(2) for i in range(3) if vshape[s][i] == eshape[k]]
            if not cands:
                continue
            s, i = rng.choice(cands)
            lines.append("%s e%d v%d %d" % (op, k, s, i))
        elif op == "elemdestroy" and eshape:
            k = rng.choice(list(eshape))
            lines.append("elemdestroy e%d" % k)
            del eshape[k]
    lines.append("end")
    return lines


def gen_fault_matrix(rng, cfg, faults=(0, 1)):
    """systematic fault enumeration: for every allocating operation between a small and a large vector (two
    allocator instances) fail its 1st and its 2nd allocation in turn; then dump, reuse and tear down the operands"""
    fixed = [rng.choice([1, 2]) for _ in range(cfg.nfixed())]
    # the second vector (and the fresh source used afterwards) is built with other fixed sizes: assignment, move and
    # swap have to carry the fixed sizes over, whichever branch they take
    fixed_b = [f + rng.choice([1, 2]) for f in fixed] if rng.random() < 0.7 else list(fixed)
    _, pay0, same = gen_elem(rng, cfg, fixed, 3, 10 ** 9)

    def setup():
        lines = ["tables"]
        # v0: large (3 elements, capacity 4), allocator 1; v1: small (1 element, capacity 1), allocator 2
        lines.append("new v0 4 %d %s 1" % (4 * pay0, fixed_text(fixed)))
        for _ in range(3):
            lines.append("emplace v0 %s" % gen_elem(rng, cfg, fixed, 3, 10 ** 9, same)[0])
        lines.append("new v1 1 %d %s 2" % (pay0, fixed_text(fixed_b)))
        lines.append("emplace v1 %s" % gen_elem(rng, cfg, fixed_b, 3, 10 ** 9, same)[0])
        # v6: a moved-from vector (owns no block), allocator 2: target of assignments that have to allocate everything
        lines.append("new v6 1 %d %s 2" % (pay0, fixed_text(fixed_b)))
        lines.append("move v6 v7")
        lines.append("destroy v7")
        return lines

    seqs = []
    ops = ["reserve v0 9 %d" % (9 * pay0), "reserve v1 5 %d" % (5 * pay0), "copy v0 v2", "copy v1 v2", "copyassign v0 v1", "copyassign v1 v0",
           "moveassign v0 v1", "moveassign v1 v0", "new v3 2 %d %s 1" % (2 * pay0, fixed_text(fixed)),
           "copyassign v0 v6", "moveassign v0 v6", "reserve v6 3 %d" % (3 * pay0)]
    if faults is None:
        # no faults: the assignment matrix (every pair direction x operation), operands reused afterwards
        for op in ops[2:8] + ["swap v0 v1", "move v0 v2", "move v1 v2", "copyassign v0 v0", "moveassign v1 v1", "swap v1 v1"]:
            lines = setup()
            pocs_ok = cfg.alloc[2] == "1" or cfg.alloc[3] == "1"
            if op.startswith("swap v0 v1") and not pocs_ok:
                continue   # allocator-aware swap of unequal non-propagating allocators is outside the contract
            lines += [op, "dump v0", "dump v1", "dump v2"]
            if op.startswith("moveassign v0 v1") or op.startswith("copyassign v0 v1"):
                # a target whose block is LARGER in bytes but declared for FEWER elements than the source: the block is reused,
                # the offset table must still get one slot per element of the source's capacity
                big = 8 * pay0 + 256
                lines += ["new v5 1 %d %s 2" % (big, fixed_text(fixed_b)), "emplace v5 %s" % gen_elem(rng, cfg, fixed_b, 3, 10 ** 9, same)[0],
                          "new v6 4 %d %s 1" % (4 * pay0, fixed_text(fixed))]
                for _ in range(3):
                    lines.append("emplace v6 %s" % gen_elem(rng, cfg, fixed, 3, 10 ** 9, same)[0])
                lines += [op.split()[0] + " v6 v5", "dump v5", "dump v6", "emplace v5 %s" % gen_elem(rng, cfg, fixed, 3, 10 ** 9, same)[0], "dump v5",
                          "destroy v5", "destroy v6"]
            lines += ["new v4 2 %d %s 1" % (2 * pay0, fixed_text(fixed_b)), "emplace v4 %s" % gen_elem(rng, cfg, fixed_b, 3, 10 ** 9, same)[0],
                      "clear v1", "dump v1", "copyassign v4 v1", "dump v1", "moveassign v4 v0", "dump v0", "dump v4",
                      "destroy v0", "destroy v1", "destroy v2", "destroy v4", "end"]
            seqs.append(lines)
        return seqs
    for op in ops:
        for k in faults:
            lines = setup()
            # afterwards every operand must still be usable: dumped, cleared, assigned to (from a fresh vector), destroyed
            lines += ["failat %d" % k, op, "failoff", "dump v0", "dump v1", "dump v2"]
            if cfg.category() in ("fixed", "plain"):
                # without VaryingSize the reported capacity alone says how many elements fit: fill both operands up to it
                lines += ["fillcap v0", "fillcap v1"]
            # then every operand is assigned to once more, by copy or by move (element-wise between the unequal allocators)
            lines += ["dump v6", "new v4 2 %d %s 1" % (2 * pay0, fixed_text(fixed_b)), "emplace v4 %s" % gen_elem(rng, cfg, fixed_b, 3, 10 ** 9, same)[0],
                      "new v5 2 %d %s 1" % (2 * pay0, fixed_text(fixed_b)), "emplace v5 %s" % gen_elem(rng, cfg, fixed_b, 3, 10 ** 9, same)[0],
                      "clear v1", "dump v1", "copyassign v4 v1", "dump v1", "copyassign v4 v0", "dump v0",
                      rng.choice(["copyassign v4 v6", "moveassign v5 v6"]), "dump v6", "dump v5",
                      "destroy v0", "destroy v1", "destroy v6", "end"]
            seqs.append(lines)
    return seqs


def gen_element_faults(rng, cfg, faults=(0,)):
    """C17 on standalone elements: every allocating construction / assignment of a ContiguousElement (from the three kinds
    of reference, copy, allocator-extended copy and move with equal and unequal allocators, both assignments in both size
    directions) with its allocation failing; afterwards every operand is dumped, assigned to, and destroyed"""
    fixed = [rng.choice([1, 2]) for _ in range(cfg.nfixed())]

    def setup():
        nv = sum(1 for p in cfg.params if p[0] == "v")
        lines = ["tables", "new v0 3 2000 %s 1" % fixed_text(fixed)]
        lines.append("emplace v0 %s" % gen_elem(rng, cfg, fixed, 1, 10 ** 9, [1] * nv)[0])     # small
        lines.append("emplace v0 %s" % gen_elem(rng, cfg, fixed, 6, 10 ** 9, [6] * nv)[0])     # large
        lines.append("emplace v0 %s" % gen_elem(rng, cfg, fixed, 3, 10 ** 9, [3] * nv)[0])
        lines += ["elem e0 v0 0 1", "elem e1 v0 1 2"]
        return lines

    seqs = []
    ops = ["elem e2 v0 2 1", "elemref e2 v0 2 2", "elemmv e2 v0 2 1", "elemcopy e0 e2", "elemcopy e1 e2", "elemcopya e0 e2 1", "elemcopya e0 e2 2",
           "elemmovea e0 e2 1", "elemmovea e0 e2 2", "elemmovea e1 e2 1", "elemassign e0 e1", "elemassign e1 e0", "elemmassign e0 e1",
           "elemmassign e1 e0", "elemmove e0 e2", "elemswap e0 e1"]
    pocs_ok = cfg.alloc[2] == "1" or cfg.alloc[3] == "1"
    for op in ops:
        if op.startswith("elemswap") and not pocs_ok:
            continue
        for k in faults:
            lines = setup()
            lines += ["failat %d" % k, op, "failoff", "elemdump e0", "elemdump e1", "elemdump e2", "dump v0",
                      "elem e3 v0 2 1", "elemassign e3 e1", "elemdump e1", "elemdestroy e0", "elemdestroy e1", "elemdestroy e2", "elemdestroy e3",
                      "destroy v0", "end"]
            seqs.append(lines)
    return seqs


def gen_capacity_sweep(rng, cfg):
    """construct (and destroy) vectors over a grid of capacities and payload budgets: the footprint formula at the small
    capacities 0, 1, 2 and at every residue of the budget modulo the storage alignment, then reserve over the same grid"""
    lines = ["tables"]
    fixed = [rng.choice([0, 1, 2, 3]) for _ in range(cfg.nfixed())]
    if not any(p[0] == "p" for p in cfg.params) and sum(fixed) == 0:
        fixed[0] = 1
    has_var = cfg.category() in ("varying", "mixed")
    budgets = ([0, 1, 3, 4, 7, 8, 9, 15, 16, 17, 24, 31, 33] if has_var else [0])
    for cap in (0, 1, 2, 3, 5):
        for b in budgets:
            lines.append("new v0 %d %d %s 1" % (cap, b, fixed_text(fixed)))
            lines.append("destroy v0")
    lines.append("new v0 0 0 %s 1" % fixed_text(fixed))
    cap = 0
    for b in rng.sample(budgets, min(len(budgets), 5)):
        cap += rng.choice([1, 1, 2])
        lines.append("reserve v0 %d %d" % (cap, b + cap))
    lines.append("destroy v0")
    lines.append("end")
    return lines


def gen_tight_fill(rng, cfg, mode):
    """fill a vector to exactly its declared capacity N and payload budget B (the block is sized for exactly that):
    every way of splitting B over the elements must fit. mode 0: random split; 1: all spans empty; 2: equal spans with a
    count that makes the payload a multiple of a power of two; 3: refill after pop/erase"""
    lines = ["tables"]
    fixed = [rng.choice([0, 1, 2, 3]) for _ in range(cfg.nfixed())]
    if not any(p[0] == "p" for p in cfg.params) and sum(fixed) == 0:
        fixed[0] = 1
    n = rng.choice([1, 2, 2, 3, 4])
    elems = []
    for i in range(n):
        if mode == 1:
            same = [0] * 8
        elif mode == 2:
            c = rng.choice([2, 4, 8, 16])
            same = [c] * 8
        else:
            same = None
        text, pay, counts = gen_elem(rng, cfg, fixed, rng.choice([1, 3, 4, 7, 8, 9]), 10 ** 9, same)
        elems.append((text, pay))
    budget = sum(p for _, p in elems)
    lines.append("new v0 %d %d %s 1" % (n, budget, fixed_text(fixed)))
    for text, _ in elems:
        lines.append("emplace v0 %s" % text)
    if mode == 3 and n >= 2:
        lines.append("pop v0")
        lines.append("emplace v0 %s" % elems[-1][0])
        lines.append("erase v0 0")
        lines.append("emplace v0 %s" % elems[0][0])
    lines.append("dump v0")
    lines.append("end")
    return lines


def gen_default_fill(rng, cfg):
    """a default-constructed vector (no block, every fixed size 0) gets its capacity through reserve() and is then filled
    to exactly that capacity, grown once more, copied and moved: the layout must be that of a vector constructed with the
    same numbers (needs a plain parameter: with all fixed sizes 0 an element must still hold something)"""
    if not any(p[0] == "p" for p in cfg.params):
        return None
    lines = ["tables", "newdef v0"]
    fixed = [0] * cfg.nfixed()
    n = rng.choice([2, 3, 4])
    elems = [gen_elem(rng, cfg, fixed, rng.choice([1, 3, 4, 7]), 10 ** 9) for _ in range(n + 2)]
    budget = sum(e[1] for e in elems[:n])
    lines.append("reserve v0 %d %d" % (n, budget))
    for text, _, _ in elems[:n]:
        lines.append("emplace v0 %s" % text)
    lines.append("dump v0")
    lines.append("reserve v0 %d %d" % (n + 2, sum(e[1] for e in elems)))
    for text, _, _ in elems[n:]:
        lines.append("emplace v0 %s" % text)
    lines += ["copy v0 v1", "dump v1", "move v0 v2", "dump v2", "erase v2 0", "dump v2", "destroy v0", "destroy v1", "destroy v2", "end"]
    return lines


def gen_empty_compare(rng, cfg):
    """C18/C13: empty vectors of every origin (fresh with capacity, capacity 0, default-constructed, emptied by clear, by
    pop_back, by erase, moved-from) built with different fixed sizes and capacities: all compare equal, none less"""
    lines = ["tables"]
    nf = cfg.nfixed()
    has_plain = any(p[0] == "p" for p in cfg.params)

    def fx():
        f = [rng.choice([0, 1, 2, 3]) for _ in range(nf)]
        if not has_plain and sum(f) == 0:
            f[0] = 1
        return f
    f0, f1, f2, f3 = fx(), fx(), fx(), fx()
    lines.append("new v0 %d 64 %s 1" % (rng.choice([2, 3]), fixed_text(f0)))                    # fresh, spare capacity
    lines.append("new v1 0 0 %s 1" % fixed_text(f1))                                             # capacity 0
    lines.append("new v2 3 64 %s 1" % fixed_text(f2))                                            # emptied by clear
    lines.append("emplace v2 %s" % gen_elem(rng, cfg, f2, 2, 20, domain=CMP_DOMAIN)[0])
    lines.append("emplace v2 %s" % gen_elem(rng, cfg, f2, 2, 20, domain=CMP_DOMAIN)[0])
    lines.append("clear v2")
    lines.append("new v3 2 64 %s 1" % fixed_text(f3))                                            # emptied by pop_back / erase
    lines.append("emplace v3 %s" % gen_elem(rng, cfg, f3, 2, 20, domain=CMP_DOMAIN)[0])
    lines.append(rng.choice(["pop v3", "erase v3 0"]))
    names = ["v0", "v1", "v2", "v3"]
    if has_plain:
        lines.append("newdef v4")                                                                # default-constructed
        names.append("v4")
    for a in names:
        for b in names:
            lines.append("cmpv %s %s" % (a, b))
    lines.append("end")
    return lines


def gen_shrinking_reserve(rng, cfg):
    """a generously budgeted vector is reserved beyond its capacity with a budget that only covers what is stored:
    the new block is smaller than the old one; afterwards the vector is filled to the new limits"""
    lines = ["tables"]
    fixed = [rng.choice([1, 2]) for _ in range(cfg.nfixed())]
    text, pay, same = gen_elem(rng, cfg, fixed, 2, 10 ** 9)
    big = max(400, 30 * pay)
    lines.append("new v0 2 %d %s 1" % (big, fixed_text(fixed)))
    lines.append("emplace v0 %s" % text)
    n = rng.choice([3, 4])
    lines.append("reserve v0 %d %d" % (n, n * pay))
    for _ in range(n - 1):
        lines.append("emplace v0 %s" % gen_elem(rng, cfg, fixed, 2, 10 ** 9, same)[0])
    lines += ["dump v0", "reserve v0 %d %d" % (n + 1, (n + 1) * pay), "emplace v0 %s" % gen_elem(rng, cfg, fixed, 2, 10 ** 9, same)[0], "end"]
    return lines
