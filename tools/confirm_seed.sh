#!/bin/sh
# confirm_seed.sh <dir with patch.diff and demo.cpp> : confirm in a scratch worktree that the change compiles, passes the
# existing tests, and that the demonstration passes without it and fails with it. Prints a JSON-ish summary.
set -u
D="$1"
W=/tmp/confirm_$$
git -C /repo worktree add -q --detach "$W" HEAD || exit 2
cd "$W"
g++ -std=c++17 -g -I"$W/src" "$D/demo.cpp" -o "$W/demo_clean" 2>/dev/null
"$W/demo_clean" >/dev/null 2>&1; CLEAN=$?
git apply "$D/patch.diff" || { echo "patch does not apply"; git -C /repo worktree remove --force "$W"; exit 2; }
g++ -std=c++17 -g -I"$W/src" "$D/demo.cpp" -o "$W/demo_mut" 2>"$W/demo_mut.err"; COMPILED=$?
if [ $COMPILED -eq 0 ]; then "$W/demo_mut" >/dev/null 2>&1; MUT=$?; else MUT=compile-error; fi
g++ -std=c++17 -g -fsanitize=address,undefined -fno-sanitize=alignment -I"$W/src" "$D/demo.cpp" -o "$W/demo_mut_asan" 2>/dev/null && { ASAN_OPTIONS=detect_leaks=0 "$W/demo_mut_asan" >/dev/null 2>&1; MUTASAN=$?; } || MUTASAN=na
cmake -G Ninja -B _build -DCMAKE_BUILD_TYPE=RelWithDebInfo -DCNTGS_BUILD_TESTS=ON -DCNTGS_DISCOVER_TESTS=ON >/dev/null 2>&1
cmake --build _build -j16 -- -k 0 >/dev/null 2>&1
T=$(ctest --test-dir _build -j8 2>&1 | grep -E "tests passed|Failed" | tr '\n' ' ')
echo "demo_clean_exit=$CLEAN demo_mutated_exit=$MUT demo_mutated_asan_exit=$MUTASAN tests: $T"
cd /
git -C /repo worktree remove --force "$W"
