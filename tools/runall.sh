#!/bin/sh
# run every claimed check (quick tier) and report
cd "$(dirname "$0")/.."
for p in $(python3 -c "import json; print(' '.join(c['property_id'] for c in json.load(open('MANIFEST.json'))['checks']))"); do
  ./check "$p" --tier "${1:-quick}" | grep -E "^(VIOLATION|KNOWN-FINDING|C[0-9]+ )" | cut -c1-160
done
