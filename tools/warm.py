#!/usr/bin/env python3
"""Best-effort warm-up of the harness binary cache for the quick tier (called by setup.sh).

The cache is keyed by the content hash of /repo/src/cntgs/** + harness/** + compiler flags (runner.source_hash), so a check that
runs after /repo changed ignores everything built here and rebuilds from the working tree.  Nothing depends on this step: a check
started with a cold cache builds what it needs itself."""
import json
import os
import sys

ROOT = os.path.dirname(os.path.dirname(os.path.abspath(__file__)))
sys.path.insert(0, os.path.join(ROOT, "tools"))
import gen  # noqa: E402
import props  # noqa: E402
import runner  # noqa: E402


def main():
    seed = int(os.environ.get("VERIF_SEED", "1"))
    cfgs = {}
    for prop in sorted(props.STREAMS):
        for c, _ in props.STREAMS[prop](seed, "quick"):
            cfgs.setdefault(c.key(), c)
        cdir = os.path.join(ROOT, "corpus", prop)
        if os.path.isdir(cdir):
            for fn in sorted(os.listdir(cdir)):
                if fn.endswith(".json"):
                    c = gen.Cfg.from_json(json.load(open(os.path.join(cdir, fn)))["cfg"])
                    cfgs.setdefault(c.key(), c)
    bins, errors = runner.build_harness(list(cfgs.values()))
    print("warm: %d harness configurations, %d built, %d not built" % (len(cfgs), sum(os.path.exists(b) for b in bins.values()), len(errors)))


if __name__ == "__main__":
    main()
